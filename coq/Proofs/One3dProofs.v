(* Proofs about Model/One3d.v (CAMx one3d family: one3d, humidity, vertical_diffusivity): spec codec round trip,
   exact characterisation of what the memmap reader model accepts (whole files and every byte prefix), the record
   reader's translated seek arithmetic against the specification layout, both readers present the same cells. *)
From PNC Require Import Base.Util Base.Words Proofs.WordsProofs Gen.Camx Model.Uamiv Model.CamxMet Model.One3d
                        Proofs.UamivProofs.
From Coq Require Import QArith Qround ZifyBool.
Import Coq.Lists.List. Import ListNotations.
Local Open Scope Z_scope.

(* ---- translated expressions (tie T) -------------------------------------------------------------- *)
Lemma om_record_items_eq rows cols : om_record_items rows cols = rows * cols + 4.
Proof. reflexivity. Qed.

(* int(records / lays): the true division truncated by int() is the floor quotient for a positive divisor *)
Lemma om_time_steps_floor r l : 0 < l -> Qfloor (om_time_steps r l) = r / l.
Proof.
  intros Hl. unfold om_time_steps. destruct l as [|p|p]; try lia.
  assert (Eq : (inject_Z r / inject_Z (Z.pos p))%Q = (r * 1 # (1 * p))%Q) by reflexivity.
  rewrite Eq. unfold Qfloor. f_equal; lia.
Qed.

Lemma o3r_padded_size_eq m : o3r_padded_size_of m = m + 8.
Proof. reflexivity. Qed.

(* ---- small facts ----------------------------------------------------------------------------------- *)
Lemma four_div_o x : 4 * x / 4 = x.
Proof. rewrite Z.mul_comm. apply Z.div_mul. lia. Qed.
Lemma skipn_add_app_o {A} (pre x : list A) n : skipn (n + length pre) (pre ++ x) = skipn n x.
Proof. rewrite skipn_app. rewrite skipn_all2 by lia. cbn [app]. f_equal. lia. Qed.
Lemma stamp_eqb_refl s : stamp_eqb s s = true.
Proof. unfold stamp_eqb. rewrite !Z.eqb_refl. reflexivity. Qed.
Lemma stamp_eqb_eq a b : stamp_eqb a b = true -> a = b.
Proof. destruct a, b. unfold stamp_eqb. cbn [fst snd]. intros H. f_equal; lia. Qed.

(* ---- spec codec ------------------------------------------------------------------------------------ *)
Lemma o_take_lays_ok t d ncell : forall (lays : list (list Z)) rest,
  Forall (fun lay => Z.of_nat (length lay) = ncell) lays ->
  o_take_lays (length lays) t d ncell (one3d_step t d lays ++ rest) = Some (lays, rest).
Proof.
  induction lays as [|lay ls IH]; intros rest H; [reflexivity|].
  inversion H as [|? ? H1 H2]; subst.
  unfold one3d_step. cbn [length map app o_take_lays]. unfold met_rec at 1.
  rewrite !Z.eqb_refl. cbn [andb]. replace (Z.of_nat (length lay) =? Z.of_nat (length lay)) with true by lia.
  fold (one3d_step t d ls). rewrite IH by exact H2. reflexivity.
Qed.

Definition ostep_ok (c : one3d) (s : ostep) : Prop :=
  length (os_lays s) = Z.to_nat (o_nz c) /\
  Forall (fun lay => Z.of_nat (length lay) = o_nx c * o_ny c) (os_lays s).

Lemma o_wf_parts c : o_wf c = true ->
  0 < o_nx c /\ 0 < o_ny c /\ 0 < o_nz c /\ Forall (ostep_ok c) (o_steps c).
Proof.
  unfold o_wf. intros W. repeat (apply andb_true_iff in W; destruct W as [W ?]).
  repeat (split; [lia|]).
  eapply forallb_Forall; [|eassumption]. intros s Hs. unfold o_wf_step in Hs.
  apply andb_true_iff in Hs as [A1 A2]. apply len_is_eq in A1. split; [lia|].
  eapply forallb_Forall; [|exact A2]. intros lay Hl. apply len_is_eq in Hl. exact Hl.
Qed.

Lemma o_take_steps_ok nz ncell : (0 < nz)%nat -> forall (sts : list ostep) fuel,
  Forall (fun s => length (os_lays s) = nz /\ Forall (fun lay => Z.of_nat (length lay) = ncell) (os_lays s)) sts ->
  (length sts < fuel)%nat ->
  o_take_steps fuel nz ncell (concat (map o_step_records sts)) = Some sts.
Proof.
  intros Hz sts; induction sts as [|s sts IH]; intros fuel Hall Hf.
  - destruct fuel; reflexivity.
  - destruct fuel as [|f]; [inversion Hf|].
    pose proof (Forall_inv Hall) as [H1 H2]. pose proof (Forall_inv_tail Hall) as Hrest.
    cbn [map concat]. unfold o_step_records at 1.
    destruct (os_lays s) as [|lay ls] eqn:El; [cbn in H1; lia|].
    unfold one3d_step at 1. cbn [map app]. unfold met_rec at 1. cbn [o_take_steps].
    change (os_time s :: os_date s :: lay) with (met_rec (os_time s) (os_date s) lay).
    change (met_rec (os_time s) (os_date s) lay :: map (met_rec (os_time s) (os_date s)) ls ++ concat (map o_step_records sts))
      with (one3d_step (os_time s) (os_date s) (lay :: ls) ++ concat (map o_step_records sts)).
    rewrite <- H1. rewrite o_take_lays_ok by exact H2.
    rewrite H1. rewrite IH; [|exact Hrest|cbn [length] in Hf; lia].
    rewrite <- El. destruct s; reflexivity.
Qed.

Lemma o_of_to_records c : o_wf c = true ->
  o_of_records (o_nx c) (o_ny c) (o_nz c) (o_to_records c) = Some c.
Proof.
  intros W. destruct (o_wf_parts c W) as (Hx & Hy & Hz & Hs).
  unfold o_of_records. replace ((0 <? o_nx c) && (0 <? o_ny c) && (0 <? o_nz c)) with true by lia.
  unfold o_to_records. rewrite o_take_steps_ok.
  - destruct c; reflexivity.
  - lia.
  - exact Hs.
  - assert (Hle : (length (o_steps c) <= length (concat (map o_step_records (o_steps c))))%nat).
    { clear - Hs Hz. induction Hs as [|s ss [H1 _] _ IH]; cbn [map concat length]; [lia|].
      rewrite app_length. unfold o_step_records at 1. unfold one3d_step. rewrite map_length. lia. }
    lia.
Qed.

Lemma o_dec_enc c : o_wf c = true -> o_dec (o_nx c) (o_ny c) (o_nz c) (o_enc c) = Some c.
Proof. intros W. unfold o_dec, o_enc. rewrite unframe_all_frame. apply o_of_to_records, W. Qed.

(* ======================================================================================
   The memory-mapped reader model on spec-encoded files
   ====================================================================================== *)
(* the file as the list of its framed records ("rows" of the reader's reshape) *)
Definition step_rows (s : ostep) : list (list Z) :=
  map (fun lay => frame1 (met_rec (os_time s) (os_date s) lay)) (os_lays s).
Definition o_rows (c : one3d) : list (list Z) := concat (map step_rows (o_steps c)).

Lemma o_enc_rows c : o_enc c = concat (o_rows c).
Proof.
  unfold o_enc, frame, o_to_records, o_rows. rewrite concat_map, map_map. f_equal. f_equal.
  apply map_ext. intros s. unfold step_rows, o_step_records, one3d_step. rewrite map_map. reflexivity.
Qed.

(* the part of o_mm_read after the reshape to rows *)
Definition o_core (rows cols : Z) (rws : list (list Z)) (records : Z) : result oview :=
  match rws with
  | [] => Err
  | r0 :: _ =>
    match first_diff (row_stamp r0) rws 0 with
    | None => Err
    | Some lays =>
      let tsteps := Qfloor (om_time_steps records (Z.of_nat lays)) in
      if negb (tsteps * Z.of_nat lays =? records) then Err else
      let groups := group (Z.to_nat tsteps) lays rws in
      Ok {| ov_nx := cols; ov_ny := rows; ov_nz := Z.of_nat lays; ov_ntimes := tsteps;
            ov_stamps := map (fun g => row_stamp (hd [] g)) groups;
            ov_data := map (map (row_cells (rows * cols))) groups |}
    end
  end.

Lemma o_mm_read_unfold rows cols ws size :
  o_mm_read rows cols ws size =
  if (size <=? 0) || negb (size mod 4 =? 0) then Err else
  if (rows <=? 0) || (cols <=? 0) then Err else
  if negb (size / 4 / om_record_items rows cols * om_record_items rows cols =? size / 4) then Err else
  match chunks (Z.to_nat (om_record_items rows cols)) (firstn (Z.to_nat (size / 4)) ws) with
  | None => Err
  | Some rws => o_core rows cols rws (size / 4 / om_record_items rows cols)
  end.
Proof. reflexivity. Qed.

(* locality: the reader's result is a function of the first size/4 words only *)
Lemma o_mm_read_local rows cols ws size :
  o_mm_read rows cols (firstn (Z.to_nat (size / 4)) ws) size = o_mm_read rows cols ws size.
Proof. rewrite !o_mm_read_unfold. rewrite firstn_firstn, Nat.min_id. reflexivity. Qed.

Lemma firstn_concat_uniform_gen {A} n : forall (bs : list (list A)) k, Forall (fun b => length b = n) bs ->
  firstn (k * n) (concat bs) = concat (firstn k bs).
Proof.
  intros bs; induction bs as [|b bs IH]; intros k Hall.
  - rewrite !firstn_nil. reflexivity.
  - inversion Hall as [|? ? Hb Hbs]; subst. destruct k as [|k]; [reflexivity|].
    cbn [concat firstn]. replace (S k * length b)%nat with (length b + k * length b)%nat by lia.
    rewrite firstn_app_2. f_equal. apply IH. exact Hbs.
Qed.

Lemma skipn_concat_uniform_gen {A} n : forall (bs : list (list A)) k, Forall (fun b => length b = n) bs ->
  skipn (k * n) (concat bs) = concat (skipn k bs).
Proof.
  intros bs; induction bs as [|b bs IH]; intros k Hall.
  - rewrite !skipn_nil. reflexivity.
  - inversion Hall as [|? ? Hb Hbs]; subst. destruct k as [|k]; [reflexivity|].
    cbn [concat skipn]. replace (S k * length b)%nat with (length b + k * length b)%nat by lia.
    rewrite skipn_app, skipn_all2 by lia. cbn [app].
    replace (length b + k * length b - length b)%nat with (k * length b)%nat by lia.
    apply IH. exact Hbs.
Qed.

Lemma concat_length_uniform {A} n (bs : list (list A)) : Forall (fun b => length b = n) bs ->
  length (concat bs) = (length bs * n)%nat.
Proof.
  induction 1 as [|b bs Hb _ IH]; cbn [concat length]; [reflexivity|]. rewrite app_length, IH, Hb. lia.
Qed.

Lemma Forall_firstn {A} (P : A -> Prop) k l : Forall P l -> Forall P (firstn k l).
Proof.
  intros H. apply Forall_forall. intros x Hx. rewrite Forall_forall in H. apply H. eapply In_firstn_in. exact Hx.
Qed.

Lemma first_diff_app s0 A : forall B i, Forall (fun r => row_stamp r = s0) A ->
  first_diff s0 (A ++ B) i = first_diff s0 B (i + length A).
Proof.
  induction A as [|a A IH]; intros B i H; cbn [app length first_diff]; [f_equal; lia|].
  pose proof (Forall_inv H) as Ha. pose proof (Forall_inv_tail H) as HA. cbn beta in Ha.
  rewrite Ha, stamp_eqb_refl. rewrite IH by exact HA. f_equal. lia.
Qed.

Lemma first_diff_none s0 l i : Forall (fun r => row_stamp r = s0) l -> first_diff s0 l i = None.
Proof.
  intros H. rewrite <- (app_nil_r l). rewrite first_diff_app by exact H. reflexivity.
Qed.

Section Rows.
Variable c : one3d.
Hypothesis Hwf : o_wf c = true.

Let P := o_wf_parts c Hwf.

Lemma row_facts s lay : ostep_ok c s -> In lay (os_lays s) ->
  let r := frame1 (met_rec (os_time s) (os_date s) lay) in
  length r = Z.to_nat (o_rec_words c) /\ row_stamp r = os_stamp s /\ row_cells (o_ny c * o_nx c) r = lay.
Proof.
  intros [_ Hl] Hin. rewrite Forall_forall in Hl. specialize (Hl lay Hin).
  destruct P as (Hx & Hy & _).
  cbn zeta. unfold frame1, met_rec, row_stamp, row_cells, o_rec_words, os_stamp.
  cbn [app length nth skipn]. rewrite app_length. cbn [length].
  split; [nia|]. split; [reflexivity|].
  apply firstn_app_len. nia.
Qed.

Lemma step_rows_facts s : ostep_ok c s ->
  length (step_rows s) = Z.to_nat (o_nz c) /\
  Forall (fun r => length r = Z.to_nat (o_rec_words c)) (step_rows s) /\
  Forall (fun r => row_stamp r = os_stamp s) (step_rows s) /\
  map (row_cells (o_ny c * o_nx c)) (step_rows s) = os_lays s.
Proof.
  intros Hs. pose proof Hs as [Hn _]. unfold step_rows. rewrite map_length.
  split; [exact Hn|]. split; [|split].
  - apply Forall_forall. intros r Hr. apply in_map_iff in Hr as (lay & <- & Hin).
    apply (row_facts s lay Hs Hin).
  - apply Forall_forall. intros r Hr. apply in_map_iff in Hr as (lay & <- & Hin).
    apply (row_facts s lay Hs Hin).
  - rewrite map_map. rewrite <- (map_id (os_lays s)) at 2. apply map_ext_in. intros lay Hin.
    apply (row_facts s lay Hs Hin).
Qed.

Lemma steps_ok : Forall (ostep_ok c) (o_steps c).
Proof. destruct P as (_&_&_&H). exact H. Qed.

Lemma rec_words_pos : 0 < o_rec_words c.
Proof. destruct P as (Hx&Hy&_). unfold o_rec_words. nia. Qed.

Lemma o_rows_uniform : Forall (fun r => length r = Z.to_nat (o_rec_words c)) (o_rows c).
Proof.
  unfold o_rows. apply Forall_concat. apply Forall_forall. intros g Hg.
  apply in_map_iff in Hg as (s & <- & Hin). pose proof steps_ok as H. rewrite Forall_forall in H.
  apply (step_rows_facts s (H s Hin)).
Qed.

Lemma step_groups_uniform : Forall (fun g => length g = Z.to_nat (o_nz c)) (map step_rows (o_steps c)).
Proof.
  apply Forall_forall. intros g Hg. apply in_map_iff in Hg as (s & <- & Hin).
  pose proof steps_ok as H. rewrite Forall_forall in H. apply (step_rows_facts s (H s Hin)).
Qed.

Lemma o_rows_length : length (o_rows c) = (length (o_steps c) * Z.to_nat (o_nz c))%nat.
Proof.
  unfold o_rows. rewrite (concat_length_uniform _ _ step_groups_uniform), map_length. reflexivity.
Qed.

Lemma o_enc_length : Z.of_nat (length (o_enc c)) = Z.of_nat (length (o_steps c)) * o_step_words c.
Proof.
  rewrite o_enc_rows. pose proof o_rows_uniform as H. pose proof rec_words_pos.
  rewrite (concat_length_uniform _ _ H), o_rows_length. unfold o_step_words. destruct P as (_&_&Hz&_). nia.
Qed.

(* the reshape to rows of the first r records *)
Lemma o_mm_read_reduce size : 0 <= size <= 4 * Z.of_nat (length (o_enc c)) ->
  o_mm_read (o_ny c) (o_nx c) (o_enc c) size =
  if (size <=? 0) || negb (size mod 4 =? 0) then Err else
  let r := size / 4 / o_rec_words c in
  if negb (r * o_rec_words c =? size / 4) then Err
  else o_core (o_ny c) (o_nx c) (firstn (Z.to_nat r) (o_rows c)) r.
Proof.
  intros Hs. rewrite o_mm_read_unfold. destruct P as (Hx&Hy&_).
  replace (om_record_items (o_ny c) (o_nx c)) with (o_rec_words c)
    by (unfold om_record_items, o_rec_words; lia).
  destruct ((size <=? 0) || negb (size mod 4 =? 0)); [reflexivity|].
  replace ((o_ny c <=? 0) || (o_nx c <=? 0)) with false by lia.
  cbn zeta. set (r := size / 4 / o_rec_words c).
  destruct (r * o_rec_words c =? size / 4) eqn:Er; [|reflexivity]. cbn [negb].
  pose proof rec_words_pos as Hri.
  assert (Hr0 : 0 <= r) by (apply Z.div_pos; [apply Z.div_pos|]; lia).
  replace (Z.to_nat (size / 4)) with (Z.to_nat r * Z.to_nat (o_rec_words c))%nat by nia.
  rewrite o_enc_rows, (firstn_concat_uniform _ _ _ o_rows_uniform).
  rewrite chunks_concat; [reflexivity|lia|apply Forall_firstn, o_rows_uniform].
Qed.

End Rows.

(* ---- what the reader makes of the first rn records of a readable file ------------------------------ *)
Section Readable.
Variable c : one3d.
Hypothesis Hwf : o_wf c = true.
Variables (s0 s1 : ostep) (rest : list ostep).
Hypothesis Hsteps : o_steps c = s0 :: s1 :: rest.
Hypothesis Hdiff : stamp_eqb (os_stamp s0) (os_stamp s1) = false.

Let P := o_wf_parts c Hwf.
Let nzn := Z.to_nat (o_nz c).

Lemma hd_step_rows s : ostep_ok c s -> row_stamp (hd [] (step_rows s)) = os_stamp s.
Proof.
  intros Hs. destruct (step_rows_facts c Hwf s Hs) as (L & _ & St & _).
  destruct P as (_&_&Hz&_).
  destruct (step_rows s) as [|r t]; [cbn in L; lia|]. cbn [hd]. apply (Forall_inv St).
Qed.

Lemma o_core_rows rn : (1 <= rn <= length (o_rows c))%nat ->
  o_core (o_ny c) (o_nx c) (firstn rn (o_rows c)) (Z.of_nat rn) =
  if (rn <=? nzn)%nat then Err
  else if negb (Z.of_nat rn / o_nz c * o_nz c =? Z.of_nat rn) then Err
  else Ok (o_view_of (o_truncate_steps (Z.to_nat (Z.of_nat rn / o_nz c)) c)).
Proof.
  intros Hrn. destruct P as (Hx & Hy & Hz & Hall).
  pose proof (steps_ok c Hwf) as Hok. rewrite Hsteps in Hok.
  pose proof (Forall_inv Hok) as Ok0. pose proof (Forall_inv (Forall_inv_tail Hok)) as Ok1.
  destruct (step_rows_facts c Hwf s0 Ok0) as (L0 & _ & St0 & _).
  destruct (step_rows_facts c Hwf s1 Ok1) as (L1 & _ & St1 & _).
  assert (Erows : o_rows c = step_rows s0 ++ step_rows s1 ++ concat (map step_rows rest)).
  { unfold o_rows. rewrite Hsteps. reflexivity. }
  assert (Hnz : (1 <= nzn)%nat) by (unfold nzn; lia).
  unfold o_core.
  destruct (rn <=? nzn)%nat eqn:Hle.
  - (* at most one step's worth of records: every stamp equals the first *)
    apply Nat.leb_le in Hle.
    assert (E : firstn rn (o_rows c) = firstn rn (step_rows s0)).
    { rewrite Erows, firstn_app. replace (rn - length (step_rows s0))%nat with 0%nat by (fold nzn in L0; lia).
      cbn [firstn]. apply app_nil_r. }
    rewrite E. destruct (firstn rn (step_rows s0)) as [|r0 t] eqn:Ef; [reflexivity|].
    assert (F : Forall (fun r => row_stamp r = os_stamp s0) (r0 :: t)) by (rewrite <- Ef; apply Forall_firstn, St0).
    rewrite (Forall_inv F). rewrite first_diff_none by exact F. reflexivity.
  - apply Nat.leb_gt in Hle.
    destruct (step_rows s0) as [|a0 A0] eqn:EA; [cbn in L0; fold nzn in L0; lia|].
    destruct (step_rows s1) as [|b1 B1] eqn:EB; [cbn in L1; fold nzn in L1; lia|].
    destruct (rn - nzn)%nat as [|m] eqn:Em; [lia|].
    assert (E : firstn rn (o_rows c) = (a0 :: A0) ++ b1 :: firstn m (B1 ++ concat (map step_rows rest))).
    { rewrite Erows, firstn_app. rewrite firstn_all2 by (fold nzn in L0; lia). f_equal.
      fold nzn in L0. rewrite L0, Em. reflexivity. }
    assert (Efd : first_diff (os_stamp s0) (firstn rn (o_rows c)) 0 = Some nzn).
    { rewrite E. rewrite first_diff_app by exact St0. cbn [first_diff]. rewrite (Forall_inv St1).
      replace (stamp_eqb (os_stamp s1) (os_stamp s0)) with false by (unfold stamp_eqb in *; lia).
      fold nzn in L0. rewrite L0. reflexivity. }
    assert (Ehd : firstn rn (o_rows c) = a0 :: firstn (rn - 1) (A0 ++ (b1 :: B1) ++ concat (map step_rows rest))).
    { rewrite Erows. cbn [app]. destruct rn as [|rn']; [lia|]. cbn [firstn]. do 2 f_equal. lia. }
    rewrite Ehd at 1. rewrite (Forall_inv St0), Efd.
    rewrite om_time_steps_floor by lia.
    replace (Z.of_nat nzn) with (o_nz c) by (unfold nzn; lia).
    destruct (Z.of_nat rn / o_nz c * o_nz c =? Z.of_nat rn) eqn:Ed; [|reflexivity]. cbn [negb].
    set (k := Z.to_nat (Z.of_nat rn / o_nz c)).
    assert (Hk0 : 0 <= Z.of_nat rn / o_nz c) by (apply Z.div_pos; lia).
    assert (Ek : rn = (k * nzn)%nat) by (unfold k, nzn; nia).
    rewrite o_rows_length in Hrn by exact Hwf. fold nzn in Hrn.
    assert (Hk : (k <= length (o_steps c))%nat) by nia.
    assert (EG : firstn rn (o_rows c) = concat (firstn k (map step_rows (o_steps c)))).
    { rewrite Ek. unfold o_rows. apply firstn_concat_uniform_gen. apply (step_groups_uniform c Hwf). }
    rewrite EG.
    assert (Lk : length (firstn k (map step_rows (o_steps c))) = k) by (rewrite firstn_length, map_length; lia).
    assert (EGr : group k nzn (concat (firstn k (map step_rows (o_steps c)))) = firstn k (map step_rows (o_steps c))).
    { rewrite <- Lk at 1. apply group_concat. apply Forall_firstn, (step_groups_uniform c Hwf). }
    rewrite !EGr. rewrite <- map_firstn.
    assert (Hokk : Forall (ostep_ok c) (firstn k (o_steps c))) by (apply Forall_firstn, (steps_ok c Hwf)).
    unfold o_view_of, o_truncate_steps. cbn [o_nx o_ny o_nz o_steps].
    f_equal. f_equal.
    + rewrite firstn_length. unfold k in *. lia.
    + rewrite map_map. apply map_ext_in. intros s Hs. apply hd_step_rows.
      rewrite Forall_forall in Hokk. apply Hokk, Hs.
    + rewrite map_map. apply map_ext_in. intros s Hs.
      rewrite Forall_forall in Hokk. apply (step_rows_facts c Hwf s (Hokk s Hs)).
Qed.

End Readable.

(* ---- exact characterisation of what the reader model accepts ------------------------------------------ *)
Lemma o_readable_inv c : o_readable c = true ->
  exists s0 s1 rest, o_steps c = s0 :: s1 :: rest /\ stamp_eqb (os_stamp s0) (os_stamp s1) = false.
Proof.
  unfold o_readable. destruct (o_steps c) as [|s0 [|s1 rest]]; try discriminate.
  intros H. exists s0, s1, rest. split; [reflexivity|]. destruct (stamp_eqb _ _); [discriminate|reflexivity].
Qed.

Lemma o_step_words_pos c : o_wf c = true -> 0 < o_step_words c /\ 0 < o_rec_words c /\ 0 < o_nz c.
Proof.
  intros W. destruct (o_wf_parts c W) as (Hx&Hy&Hz&_). pose proof (rec_words_pos c W). unfold o_step_words. nia.
Qed.

(* EVERY size (in bytes) of a readable file: the reader accepts exactly header-less k >= 2 whole steps *)
Lemma o_mm_read_size c size : o_wf c = true -> o_readable c = true ->
  0 <= size <= 4 * Z.of_nat (length (o_enc c)) ->
  o_mm_read (o_ny c) (o_nx c) (o_enc c) size =
  if (size mod (4 * o_step_words c) =? 0) && (2 <=? size / (4 * o_step_words c))
  then Ok (o_view_of (o_truncate_steps (Z.to_nat (size / (4 * o_step_words c))) c)) else Err.
Proof.
  intros W Hr Hs. destruct (o_readable_inv c Hr) as (s0 & s1 & rest & Est & Hd).
  destruct (o_step_words_pos c W) as (Hsw & Hri & Hz).
  rewrite o_mm_read_reduce by assumption.
  set (ri := o_rec_words c) in *. set (nz := o_nz c) in *.
  assert (Esw : o_step_words c = nz * ri) by reflexivity. rewrite Esw in *.
  destruct (size <=? 0) eqn:S0.
  { cbn [orb]. assert (size = 0) by lia. subst size. rewrite Z.mod_0_l, Z.div_0_l by lia. reflexivity. }
  cbn [orb].
  destruct (size mod 4 =? 0) eqn:S4; cbn [negb].
  2:{ (* not a whole number of words *)
      destruct (size mod (4 * (nz * ri)) =? 0) eqn:Sm; [|reflexivity]. exfalso.
      assert (E : size = 4 * (nz * ri) * (size / (4 * (nz * ri)))) by (apply Z.div_exact; lia).
      assert (size mod 4 = 0).
      { rewrite E. replace (4 * (nz * ri) * (size / (4 * (nz * ri)))) with ((nz * ri) * (size / (4 * (nz * ri))) * 4) by lia.
        apply Z.mod_mul. lia. }
      lia. }
  cbn zeta.
  assert (En : size = 4 * (size / 4)) by (apply Z.div_exact; lia).
  set (n := size / 4) in *. set (r := n / ri).
  assert (Hn : 1 <= n) by lia.
  destruct (r * ri =? n) eqn:Er; cbn [negb].
  2:{ (* not on a record boundary *)
      destruct (size mod (4 * (nz * ri)) =? 0) eqn:Sm; [|reflexivity]. exfalso.
      assert (E : size = 4 * (nz * ri) * (size / (4 * (nz * ri)))) by (apply Z.div_exact; lia).
      set (q := size / (4 * (nz * ri))) in *.
      assert (n = nz * q * ri) by nia.
      assert (r = nz * q) by (unfold r; rewrite H; apply Z.div_mul; lia). nia. }
  assert (Er' : n = r * ri) by lia.
  assert (Hr1 : 1 <= r) by nia.
  (* bounds on r *)
  rewrite (o_enc_length c W) in Hs. rewrite Esw in Hs.
  assert (Hrmax : r <= Z.of_nat (length (o_steps c)) * nz) by nia.
  rewrite <- (Z2Nat.id r) at 2 by lia.
  rewrite (o_core_rows c W s0 s1 rest Est Hd) by (rewrite (o_rows_length c W); fold nz; nia).
  rewrite Z2Nat.id by lia. fold nz.
  (* size = 4 * ri * r *)
  assert (Esz : size = (4 * ri) * r) by nia.
  replace (4 * (nz * ri)) with ((4 * ri) * nz) by lia.
  rewrite Esz, Z.mul_mod_distr_l, Z.div_mul_cancel_l by lia.
  destruct (Z.to_nat r <=? Z.to_nat nz)%nat eqn:Hle.
  - apply Nat.leb_le in Hle. assert (r <= nz) by lia.
    destruct ((4 * ri * (r mod nz) =? 0) && (2 <=? r / nz)) eqn:Hc; [|reflexivity]. exfalso.
    assert (r / nz <= 1) by (apply Z.div_le_upper_bound; lia). lia.
  - apply Nat.leb_gt in Hle. assert (nz < r) by lia.
    pose proof (Z.div_mod r nz ltac:(lia)) as Edm. pose proof (Z.mod_pos_bound r nz ltac:(lia)) as Hmb.
    destruct (r / nz * nz =? r) eqn:Hdv; cbn [negb].
    + assert (r mod nz = 0) by nia. rewrite H0. rewrite Z.mul_0_r. cbn [Z.eqb andb].
      replace (2 <=? r / nz) with true by nia. reflexivity.
    + assert (r mod nz <> 0) by nia.
      replace (4 * ri * (r mod nz) =? 0) with false by nia. reflexivity.
Qed.

Lemma o_mm_read_k c k : o_wf c = true -> o_readable c = true -> (2 <= k <= length (o_steps c))%nat ->
  o_mm_read (o_ny c) (o_nx c) (o_enc c) (4 * (Z.of_nat k * o_step_words c)) = Ok (o_view_of (o_truncate_steps k c)).
Proof.
  intros W Hr Hk. destruct (o_step_words_pos c W) as (Hsw & _).
  rewrite o_mm_read_size; try assumption.
  - replace (4 * (Z.of_nat k * o_step_words c)) with (Z.of_nat k * (4 * o_step_words c)) by lia.
    rewrite Z.mod_mul, Z.div_mul by lia. cbn [Z.eqb andb].
    replace (2 <=? Z.of_nat k) with true by lia. rewrite Nat2Z.id. reflexivity.
  - rewrite (o_enc_length c W). nia.
Qed.

(* whole file *)
Lemma o_mm_read_enc c : o_wf c = true -> o_readable c = true ->
  o_mm_read (o_ny c) (o_nx c) (o_enc c) (4 * Z.of_nat (length (o_enc c))) = Ok (o_view_of c).
Proof.
  intros W Hr. rewrite (o_enc_length c W).
  destruct (o_readable_inv c Hr) as (s0 & s1 & rest & Est & _).
  rewrite o_mm_read_k; try assumption; [|rewrite Est; cbn [length]; lia].
  unfold o_truncate_steps. rewrite firstn_all. destruct c; reflexivity.
Qed.

(* EVERY byte prefix *)
Lemma o_mm_read_prefix c size : o_wf c = true -> o_readable c = true ->
  0 <= size <= 4 * Z.of_nat (length (o_enc c)) ->
  o_mm_read (o_ny c) (o_nx c) (firstn (Z.to_nat (size / 4)) (o_enc c)) size = Err \/
  exists k, (2 <= k <= length (o_steps c))%nat /\ size = 4 * (Z.of_nat k * o_step_words c) /\
            o_mm_read (o_ny c) (o_nx c) (firstn (Z.to_nat (size / 4)) (o_enc c)) size
            = Ok (o_view_of (o_truncate_steps k c)).
Proof.
  intros W Hr Hs. rewrite o_mm_read_local. rewrite o_mm_read_size by assumption.
  destruct (o_step_words_pos c W) as (Hsw & _).
  destruct ((size mod (4 * o_step_words c) =? 0) && (2 <=? size / (4 * o_step_words c))) eqn:Hc; [|left; reflexivity].
  right. set (q := size / (4 * o_step_words c)) in *.
  assert (E : size = 4 * o_step_words c * q) by (apply Z.div_exact; lia).
  exists (Z.to_nat q). rewrite (o_enc_length c W) in Hs.
  split; [nia|]. split; [rewrite Z2Nat.id by lia; lia|reflexivity].
Qed.

(* accepted  <->  k >= 2 whole steps *)
Lemma o_mm_read_accepts_iff c size v : o_wf c = true -> o_readable c = true ->
  0 <= size <= 4 * Z.of_nat (length (o_enc c)) ->
  (o_mm_read (o_ny c) (o_nx c) (firstn (Z.to_nat (size / 4)) (o_enc c)) size = Ok v <->
   exists k, (2 <= k <= length (o_steps c))%nat /\ size = 4 * (Z.of_nat k * o_step_words c) /\
             v = o_view_of (o_truncate_steps k c)).
Proof.
  intros W Hr Hs. split.
  - intros H. destruct (o_mm_read_prefix c size W Hr Hs) as [E|(k & Hk & Ek & E)]; [congruence|].
    exists k. split; [exact Hk|]. split; [exact Ek|]. congruence.
  - intros (k & Hk & Ek & ->). rewrite o_mm_read_local, Ek. apply o_mm_read_k; assumption.
Qed.

(* ---- files whose time stamp never changes (in particular EVERY single-step file): the reader raises, on the
        whole file and on every prefix ---------------------------------------------------------------------- *)
Lemma o_mm_read_same_stamp c size st : o_wf c = true ->
  Forall (fun s => os_stamp s = st) (o_steps c) ->
  0 <= size <= 4 * Z.of_nat (length (o_enc c)) ->
  o_mm_read (o_ny c) (o_nx c) (o_enc c) size = Err.
Proof.
  intros W Hst Hs. rewrite o_mm_read_reduce by assumption.
  destruct ((size <=? 0) || negb (size mod 4 =? 0)); [reflexivity|]. cbn zeta.
  destruct (negb _); [reflexivity|].
  assert (F : Forall (fun r => row_stamp r = st) (o_rows c)).
  { unfold o_rows. apply Forall_concat. apply Forall_forall. intros g Hg.
    apply in_map_iff in Hg as (s & <- & Hin).
    pose proof (steps_ok c W) as Hok. rewrite Forall_forall in Hok, Hst.
    destruct (step_rows_facts c W s (Hok s Hin)) as (_&_&St&_). rewrite <- (Hst s Hin). exact St. }
  unfold o_core. destruct (firstn _ (o_rows c)) as [|r0 t] eqn:Ef; [reflexivity|].
  assert (F2 : Forall (fun r => row_stamp r = st) (r0 :: t)) by (rewrite <- Ef; apply Forall_firstn, F).
  rewrite (Forall_inv F2), first_diff_none by exact F2. reflexivity.
Qed.

Lemma o_mm_read_single_step c s : o_wf c = true -> o_steps c = [s] ->
  forall size, 0 <= size <= 4 * Z.of_nat (length (o_enc c)) ->
  o_mm_read (o_ny c) (o_nx c) (firstn (Z.to_nat (size / 4)) (o_enc c)) size = Err.
Proof.
  intros W Es size Hs. rewrite o_mm_read_local.
  apply (o_mm_read_same_stamp c size (os_stamp s) W); [|exact Hs].
  rewrite Es. repeat constructor.
Qed.

(* ======================================================================================
   The record reader (one3d/Read.py): translated seek arithmetic against the specification layout
   ====================================================================================== *)
(* byte offset, in a spec-encoded file, of the leading marker of the record of step t (0-based), layer k (1-based) *)
Definition o_spec_record_offset (nz ri t k : Z) : Z := 4 * ((t * nz + (k - 1)) * ri).

Lemma o3r_recordposition_spec (self : o3r_self) ri t k d tm :
  o3r_data_start_byte self = 0 -> o3r_padded_size self = 4 * ri ->
  Z.quot (tt_timediff (o3r_start_date self, o3r_start_time self) (d, tm) 2400) (o3r_time_step self) = t ->
  o3r_recordposition self d tm k = o_spec_record_offset (o3r_nlayers self) ri t k.
Proof.
  intros E0 E1 Eq. unfold o3r_recordposition, o3r_timerecords, o3r_layerrecords, o_spec_record_offset.
  rewrite Eq, E0, E1. lia.
Qed.

(* the cells found at the offset of (step |S1|, layer |L1|+1) are that layer's cells *)
Lemma o_cells_at_offset c S1 s S2 L1 lay L2 : o_wf c = true ->
  o_steps c = S1 ++ s :: S2 -> os_lays s = L1 ++ lay :: L2 ->
  cells_at (o_enc c) (o_spec_record_offset (o_nz c) (o_rec_words c) (Z.of_nat (length S1)) (Z.of_nat (length L1) + 1))
           (o_nx c * o_ny c) = lay.
Proof.
  intros W Es El. destruct (o_step_words_pos c W) as (_ & Hri & Hz).
  pose proof (steps_ok c W) as Hok. rewrite Es in Hok.
  assert (Oks : ostep_ok c s) by (apply Forall_app in Hok as [_ H]; apply (Forall_inv H)).
  assert (OkS1 : Forall (ostep_ok c) S1) by (apply Forall_app in Hok as [H _]; exact H).
  unfold cells_at, o_spec_record_offset.
  replace (Z.of_nat (length L1) + 1 - 1) with (Z.of_nat (length L1)) by lia.
  rewrite four_div_o.
  rewrite o_enc_rows.
  replace (Z.to_nat ((Z.of_nat (length S1) * o_nz c + Z.of_nat (length L1)) * o_rec_words c))
    with ((length S1 * Z.to_nat (o_nz c) + length L1) * Z.to_nat (o_rec_words c))%nat by nia.
  rewrite (skipn_concat_uniform_gen _ _ _ (o_rows_uniform c W)).
  (* rows = rows of S1 ++ rows of s ++ ... *)
  unfold o_rows. rewrite Es, map_app, concat_app. cbn [map concat].
  assert (LS1 : length (concat (map step_rows S1)) = (length S1 * Z.to_nat (o_nz c))%nat).
  { rewrite (concat_length_uniform (Z.to_nat (o_nz c))), map_length; [reflexivity|].
    apply Forall_forall. intros g Hg. apply in_map_iff in Hg as (x & <- & Hin).
    rewrite Forall_forall in OkS1. apply (step_rows_facts c W x (OkS1 x Hin)). }
  rewrite <- LS1. rewrite Nat.add_comm. rewrite skipn_add_app_o.
  unfold step_rows at 1. rewrite El, map_app. cbn [map]. rewrite <- app_assoc.
  replace (length L1) with (length (map (fun lay0 => frame1 (met_rec (os_time s) (os_date s) lay0)) L1))
    by apply map_length.
  rewrite skipn_app_exact. cbn [app concat].
  unfold frame1 at 1. unfold met_rec at 1 2. cbn [app skipn].
  rewrite <- !app_assoc. apply firstn_app_len.
  destruct Oks as [_ Hl]. rewrite El in Hl. apply Forall_app in Hl as [_ Hl]. pose proof (Forall_inv Hl) as Hlay.
  cbn beta in Hlay. lia.
Qed.

(* hand-modelled probing of __readheader/__gettimestep on the record stamps of a file *)
Lemma count_same_repeat s0 s1 rest : stamp_eqb s1 s0 = false -> forall m n,
  count_same s0 (repeat s0 m ++ s1 :: rest) n = Some (n + Z.of_nat m + 1, s1).
Proof.
  intros Hd. induction m as [|m IH]; intros n; cbn [repeat app count_same].
  - rewrite Hd. f_equal. f_equal. lia.
  - rewrite stamp_eqb_refl, IH. f_equal. f_equal. lia.
Qed.

Lemma count_same_none s0 : forall m n, count_same s0 (repeat s0 m) n = None.
Proof. induction m as [|m IH]; intros n; cbn [repeat count_same]; [reflexivity|]. rewrite stamp_eqb_refl. apply IH. Qed.

(* stamps = one (date, hhmm) per record: each step's stamp repeated once per layer *)
Lemma o3r_probe_two_steps mk d0 d1 dts nz : (1 <= nz)%nat -> stamp_eqb d1 d0 = false ->
  o3r_probe mk (flat_map (fun d => repeat d nz) (d0 :: d1 :: dts)) =
  Some {| o3r_start_date := fst d0; o3r_start_time := snd d0; o3r_time_step := tt_timediff d0 d1 2400;
          o3r_nlayers := Z.of_nat nz; o3r_padded_size := mk + 8; o3r_data_start_byte := 0 |}.
Proof.
  intros Hz Hd. destruct nz as [|m]; [lia|]. cbn [flat_map]. cbn [repeat app]. unfold o3r_probe.
  rewrite (count_same_repeat d0 d1 _ Hd m 0). unfold o3r_padded_size_of. do 2 f_equal. lia.
Qed.

Lemma o3r_probe_single_step mk d0 nz : o3r_probe mk (flat_map (fun d => repeat d nz) [d0]) = None.
Proof.
  cbn [flat_map]. rewrite app_nil_r. destruct nz as [|m]; [reflexivity|]. cbn [repeat]. unfold o3r_probe.
  rewrite count_same_none. reflexivity.
Qed.

(* both readers present the same cells: what the record reader finds at the position its TRANSLATED arithmetic
   computes for (step, layer) — in a reader state that agrees with the file — is what the Memmap model presents *)
Lemma o_readers_agree c (self : o3r_self) S1 s S2 L1 lay L2 d tm : o_wf c = true ->
  o_steps c = S1 ++ s :: S2 -> os_lays s = L1 ++ lay :: L2 ->
  o3r_nlayers self = o_nz c -> o3r_data_start_byte self = 0 -> o3r_padded_size self = 4 * o_rec_words c ->
  Z.quot (tt_timediff (o3r_start_date self, o3r_start_time self) (d, tm) 2400) (o3r_time_step self)
    = Z.of_nat (length S1) ->
  cells_at (o_enc c) (o3r_recordposition self d tm (Z.of_nat (length L1) + 1)) (o_nx c * o_ny c)
  = nth (length L1) (nth (length S1) (ov_data (o_view_of c)) []) [].
Proof.
  intros W Es El En E0 Ep Eq.
  rewrite (o3r_recordposition_spec self (o_rec_words c) _ _ d tm E0 Ep Eq), En.
  rewrite (o_cells_at_offset c S1 s S2 L1 lay L2 W Es El).
  unfold o_view_of. cbn [ov_data]. rewrite Es, map_app. cbn [map].
  rewrite app_nth2 by (rewrite map_length; lia). rewrite map_length, Nat.sub_diag. cbn [nth].
  rewrite El, app_nth2 by lia. rewrite Nat.sub_diag. reflexivity.
Qed.

(* ---- time flags: ConvertCAMxTime on (YYJJJ, HHMM of whole hours) is the specification ------------------ *)
Lemma scale_times_hhmm hs : Forall (fun h => 0 <= h <= 23) hs ->
  scale_times 8 (map (fun h => h * 100) hs) = map (fun h => h * 100 * 100) hs.
Proof.
  intros H.
  destruct (forallb (fun t => t =? 0) hs) eqn:Hz.
  - cbn [scale_times]. rewrite forallb_zero_map, Hz by lia.
    rewrite forallb_forall in Hz. apply map_ext_in. intros t Ht. specialize (Hz t Ht). lia.
  - assert (Hp : Forall (fun t => 0 <= t) hs) by (eapply Forall_impl; [|exact H]; intros; cbn in *; lia).
    pose proof (max_pos_if_nonzero hs Hp Hz) as H1.
    destruct (max_le_all hs 23 H) as [H2| ->]; [|discriminate].
    cbn [scale_times]. rewrite forallb_zero_map, Hz by lia. rewrite map_max by lia.
    replace (fold_right Z.max 0 hs * 100 <? 10000) with true by lia.
    rewrite forallb_zero_map, forallb_zero_map, Hz by lia. rewrite !map_max by lia.
    replace (fold_right Z.max 0 hs * 100 * 100 <? 10000) with false by lia.
    rewrite map_map. reflexivity.
Qed.

Lemma o_tflag_spec dates hs : Forall (fun h => 0 <= h <= 23) hs ->
  o_tflag dates (map (fun h => h * 100) hs) = o_spec_tflag dates (map (fun h => h * 100) hs).
Proof.
  intros H. unfold o_tflag, o_spec_tflag, convert_camx_time. rewrite scale_times_hhmm by exact H.
  rewrite map_map. f_equal. apply map_ext. intros d. unfold conv_date, spec_date. destruct (d <? 70000); lia.
Qed.

(* whole files with a time stamp that changes from step to step: the reader succeeds exactly from two steps on *)
Lemma o_whole_file_exact c : o_wf c = true -> o_distinct c = true ->
  o_mm_read (o_ny c) (o_nx c) (o_enc c) (4 * Z.of_nat (length (o_enc c)))
  = if (2 <=? length (o_steps c))%nat then Ok (o_view_of c) else Err.
Proof.
  intros W D. destruct (o_steps c) as [|s0 [|s1 rest]] eqn:Es.
  - cbn [length Nat.leb]. apply (o_mm_read_same_stamp c _ (0, 0) W); [rewrite Es; constructor|lia].
  - cbn [length Nat.leb]. apply (o_mm_read_same_stamp c _ (os_stamp s0) W); [rewrite Es; repeat constructor|lia].
  - cbn [length Nat.leb]. apply o_mm_read_enc; [exact W|].
    unfold o_readable. rewrite Es. unfold o_distinct in D. rewrite Es in D. cbn [tl combine forallb fst snd] in D.
    apply andb_true_iff in D as [D _]. exact D.
Qed.

Lemma o_rewrite_idempotent c : o_wf c = true ->
  match o_dec (o_nx c) (o_ny c) (o_nz c) (o_enc c) with Some c' => o_enc c' = o_enc c | None => False end.
Proof. intros W. rewrite (o_dec_enc c W). reflexivity. Qed.

(* ---- rows-level facts reused by Proofs/TempHpProofs.v (layered record files) --------------------------- *)
Section Readable2.
Variable c : one3d.
Hypothesis Hwf : o_wf c = true.
Variables (s0 s1 : ostep) (rest : list ostep).
Hypothesis Hsteps : o_steps c = s0 :: s1 :: rest.
Hypothesis Hdiff : stamp_eqb (os_stamp s0) (os_stamp s1) = false.
Let nzn := Z.to_nat (o_nz c).

Lemma firstn_rows_stamps rn : (1 <= rn <= length (o_rows c))%nat ->
  exists r0 T, firstn rn (o_rows c) = r0 :: T /\ row_stamp r0 = os_stamp s0 /\
  first_diff (os_stamp s0) (firstn rn (o_rows c)) 0 = if (rn <=? nzn)%nat then None else Some nzn.
Proof.
  intros Hrn. destruct (o_wf_parts c Hwf) as (Hx & Hy & Hz & Hall).
  pose proof (steps_ok c Hwf) as Hok. rewrite Hsteps in Hok.
  pose proof (Forall_inv Hok) as Ok0. pose proof (Forall_inv (Forall_inv_tail Hok)) as Ok1.
  destruct (step_rows_facts c Hwf s0 Ok0) as (L0 & _ & St0 & _).
  destruct (step_rows_facts c Hwf s1 Ok1) as (L1 & _ & St1 & _).
  assert (Erows : o_rows c = step_rows s0 ++ step_rows s1 ++ concat (map step_rows rest)).
  { unfold o_rows. rewrite Hsteps. reflexivity. }
  fold nzn in L0, L1. assert (Hnz : (1 <= nzn)%nat) by (unfold nzn; lia).
  destruct (step_rows s0) as [|a0 A0] eqn:EA; [cbn in L0; lia|].
  destruct (step_rows s1) as [|b1 B1] eqn:EB; [cbn in L1; lia|].
  exists a0, (firstn (rn - 1) (A0 ++ (b1 :: B1) ++ concat (map step_rows rest))).
  split; [rewrite Erows; cbn [app]; destruct rn as [|rn']; [lia|]; cbn [firstn]; do 2 f_equal; lia|].
  split; [apply (Forall_inv St0)|].
  destruct (rn <=? nzn)%nat eqn:Hle.
  - apply Nat.leb_le in Hle. apply first_diff_none.
    rewrite Erows, firstn_app. replace (rn - length (a0 :: A0))%nat with 0%nat by lia.
    cbn [firstn]. rewrite app_nil_r. apply Forall_firstn, St0.
  - apply Nat.leb_gt in Hle. destruct (rn - nzn)%nat as [|m] eqn:Em; [lia|].
    rewrite Erows, firstn_app, firstn_all2 by lia. rewrite L0, Em.
    change ((b1 :: B1) ++ concat (map step_rows rest)) with (b1 :: (B1 ++ concat (map step_rows rest))).
    cbn [firstn].
    rewrite first_diff_app by exact St0. cbn [first_diff]. rewrite (Forall_inv St1).
    replace (stamp_eqb (os_stamp s1) (os_stamp s0)) with false by (unfold stamp_eqb in *; lia).
    rewrite L0. reflexivity.
Qed.

Lemma firstn_rows_groups k : (k <= length (o_steps c))%nat ->
  group k nzn (firstn (k * nzn) (o_rows c)) = map step_rows (firstn k (o_steps c)).
Proof.
  intros Hk.
  assert (EG : firstn (k * nzn) (o_rows c) = concat (firstn k (map step_rows (o_steps c)))).
  { unfold o_rows. apply firstn_concat_uniform_gen. apply (step_groups_uniform c Hwf). }
  rewrite EG.
  assert (Lk : length (firstn k (map step_rows (o_steps c))) = k) by (rewrite firstn_length, map_length; lia).
  rewrite <- Lk at 1. rewrite group_concat by (apply Forall_firstn, (step_groups_uniform c Hwf)).
  symmetry. apply map_firstn.
Qed.

End Readable2.

Lemma rows_markers c : Forall (fun r => hd 0 r = last r 0) (o_rows c).
Proof.
  unfold o_rows. apply Forall_concat. apply Forall_forall. intros g Hg.
  apply in_map_iff in Hg as (s & <- & _). unfold step_rows. apply Forall_forall. intros r Hr.
  apply in_map_iff in Hr as (lay & <- & _). unfold frame1. cbn [hd].
  change (marker ?x :: ?y ++ [marker ?x]) with ((marker x :: y) ++ [marker x]). rewrite last_last. reflexivity.
Qed.
