From PNC Require Import Base.Util Base.Words Gen.Camx Model.Uamiv Proofs.UamivProofs.
From Coq Require Import ZifyBool.
Local Open Scope Z_scope.

Lemma date_roundtrip d : 1970001 <= d <= 2069366 -> conv_date (uw_date2 d) = d.
Proof.
  intros H. unfold conv_date, uw_date2.
  assert (C : d / 100000 = 19 \/ d / 100000 = 20).
  { pose proof (Z.div_mod d 100000 ltac:(lia)). pose proof (Z.mod_pos_bound d 100000 ltac:(lia)). lia. }
  destruct C as [C|C]; rewrite C.
  - assert (d < 2000000).
    { pose proof (Z.div_mod d 100000 ltac:(lia)). pose proof (Z.mod_pos_bound d 100000 ltac:(lia)). lia. }
    change (19 * 100000) with 1900000.
    assert (E : d mod 1900000 = d - 1900000).
    { symmetry. apply (Z.mod_unique_pos d 1900000 1); lia. }
    rewrite E. replace (d - 1900000 <? 70000) with false by lia. lia.
  - assert (2000000 <= d).
    { pose proof (Z.div_mod d 100000 ltac:(lia)). pose proof (Z.mod_pos_bound d 100000 ltac:(lia)). lia. }
    change (20 * 100000) with 2000000.
    assert (E : d mod 2000000 = d - 2000000).
    { symmetry. apply (Z.mod_unique_pos d 2000000 1); lia. }
    rewrite E. replace (d - 2000000 <? 70000) with true by lia. lia.
Qed.

Lemma hour_roundtrip hs : Forall (fun t => 0 <= t <= 23) hs ->
  scale_times 8 (map (fun hhmmss => hhmmss / 10000) (map (fun h => h * 10000) hs)) = map (fun h => h * 10000) hs.
Proof.
  intros H. rewrite map_map.
  assert (E : map (fun x => x * 10000 / 10000) hs = hs).
  { rewrite <- (map_id hs) at 2. apply map_ext. intros. apply Z.div_mul. lia. }
  rewrite E. apply scale_times_hours. exact H.
Qed.

Lemma rewrite_idempotent u : wf u = true ->
  match dec (enc u) with Some u' => enc u' = enc u | None => False end.
Proof. intros H. rewrite (dec_enc u H). reflexivity. Qed.
