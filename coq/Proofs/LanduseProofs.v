(* Proofs about Model/Landuse.v: codec round trip, the memory-mapped reader (style sniff with the UTF-8 decodability of the
   first 8 payload bytes as an abstract boolean), prefixes, the writer's record order. *)
From PNC Require Import Base.Util Base.Words Proofs.WordsProofs Gen.Camx Model.Uamiv Model.Landuse
  Proofs.UamivProofs Proofs.One3dProofs.
From Coq Require Import ZifyBool.
Import Coq.Lists.List. Import ListNotations.
Local Open Scope Z_scope.

Lemma zlist_eqb_eq a b : zlist_eqb a b = true <-> a = b.
Proof. unfold zlist_eqb. apply list_eqb_eq. intros x y. apply Z.eqb_eq. Qed.
Lemma zlist_eqb_refl a : zlist_eqb a a = true.
Proof. apply zlist_eqb_eq. reflexivity. Qed.
Lemma zlist_eqb_long (l : list Z) a b : (3 <= length l)%nat -> zlist_eqb l [a; b] = false.
Proof.
  destruct l as [|x [|y [|z l]]]; cbn [length]; try lia. intros _. unfold zlist_eqb. cbn [list_eqb].
  rewrite !andb_false_r. reflexivity.
Qed.

(* the admissible shapes of the optional records *)
Definition lu_shape (c : landuse) : Prop :=
  (lu_new c = false /\ (lu_opts c = [] \/ exists d, lu_opts c = [(lu_key_TOPO, d)])) \/
  (lu_new c = true /\ (lu_opts c = [] \/ (exists d, lu_opts c = [(lu_key_LAI, d)]) \/ (exists d, lu_opts c = [(lu_key_TOPO, d)])
                       \/ exists d1 d2, lu_opts c = [(lu_key_LAI, d1); (lu_key_TOPO, d2)])).

Lemma lu_keys_shape new (opts : list (list word * list word)) : lu_opt_keys_ok new (map fst opts) = true ->
  (new = false /\ (opts = [] \/ exists d, opts = [(lu_key_TOPO, d)])) \/
  (new = true /\ (opts = [] \/ (exists d, opts = [(lu_key_LAI, d)]) \/ (exists d, opts = [(lu_key_TOPO, d)])
                  \/ exists d1 d2, opts = [(lu_key_LAI, d1); (lu_key_TOPO, d2)])).
Proof.
  assert (E : forall ks (l : list (list word * list word)), list_eqb zlist_eqb (map fst l) ks = true -> map fst l = ks).
  { intros ks l H. apply (list_eqb_eq zlist_eqb zlist_eqb_eq). exact H. }
  unfold lu_opt_keys_ok. destruct new; intros H.
  - right. split; [reflexivity|]. rewrite !orb_true_iff in H. destruct H as [[[H|H]|H]|H]; apply E in H.
    + left. destruct opts; [reflexivity|discriminate].
    + right; left. destruct opts as [|[k d] [|? ?]]; try discriminate. cbn in H. injection H as ->. exists d. reflexivity.
    + right; right; left. destruct opts as [|[k d] [|? ?]]; try discriminate. cbn in H. injection H as ->. exists d. reflexivity.
    + right; right; right. destruct opts as [|[k d] [|[k2 d2] [|? ?]]]; try discriminate. cbn in H. injection H as -> ->.
      exists d, d2. reflexivity.
  - left. split; [reflexivity|]. rewrite !orb_true_iff in H. destruct H as [H|H]; apply E in H.
    + left. destruct opts; [reflexivity|discriminate].
    + right. destruct opts as [|[k d] [|? ?]]; try discriminate. cbn in H. injection H as ->. exists d. reflexivity.
Qed.

Lemma lu_wf_parts c : lu_wf c = true ->
  0 < lu_rows c /\ 0 < lu_cols c /\ (lu_nland c = 11 \/ (lu_new c = true /\ lu_nland c = 26)) /\
  Z.of_nat (length (lu_fland c)) = lu_nland c * (lu_rows c * lu_cols c) /\ lu_shape c /\
  Forall (fun o : list word * list word => Z.of_nat (length (snd o)) = lu_rows c * lu_cols c) (lu_opts c).
Proof.
  unfold lu_wf. rewrite !andb_true_iff. intros [[[[[H1 H2] H3] H4] H5] H6].
  split; [lia|]. split; [lia|]. split; [destruct (lu_new c); lia|]. split; [apply len_is_eq; exact H4|].
  split; [apply lu_keys_shape; exact H5|].
  eapply forallb_Forall; [|exact H6]. intros o Ho. apply len_is_eq. exact Ho.
Qed.

(* ======================================================================================
   Codec round trip
   ====================================================================================== *)
Lemma lu_pairs_ok (opts : list (list word * list word)) :
  lu_pairs (concat (map (fun o : list word * list word => [fst o; snd o]) opts)) = Some opts.
Proof. induction opts as [|[k d] l IH]; cbn [map concat app lu_pairs fst snd]; [reflexivity|]. rewrite IH. reflexivity. Qed.

Lemma lu_dec_enc c : lu_wf c = true -> lu_dec (lu_rows c) (lu_cols c) (lu_enc c) = Some c.
Proof.
  intros W. destruct (lu_wf_parts c W) as (Hr & Hc & Hn & Hf & Hs & Ho).
  unfold lu_dec, lu_enc. rewrite unframe_all_frame. unfold lu_to_records.
  destruct c as [new nland rows cols fland opts]. unfold lu_shape in Hs. cbn [lu_new lu_nland lu_rows lu_cols lu_fland lu_opts] in *.
  destruct new.
  - cbn [app]. assert (K : (zlist_eqb (lucat_key nland) (lucat_key 11) || zlist_eqb (lucat_key nland) (lucat_key 26)) = true
                      /\ (if zlist_eqb (lucat_key nland) (lucat_key 26) then 26 else 11) = nland).
    { destruct Hn as [->|[_ ->]]; vm_compute; split; reflexivity. }
    destruct K as [K1 K2]. rewrite K1, lu_pairs_ok, K2, W. reflexivity.
  - assert (Hlen : (3 <= length fland)%nat) by nia.
    unfold lucat_key. rewrite !zlist_eqb_long by exact Hlen. cbn [orb].
    assert (E : map (fun d : list word => (lu_key_TOPO, d)) (map snd opts) = opts).
    { destruct Hs as [[_ [->|[d ->]]]|[Hx _]]; [reflexivity|reflexivity|discriminate]. }
    rewrite E. destruct Hn as [->|[Hx _]]; [|discriminate]. rewrite W. reflexivity.
Qed.

(* ======================================================================================
   Structure of an encoded file
   ====================================================================================== *)
Definition lu_blk (new : bool) (k d : list word) : list word := if new then frame [k; d] else frame1 d.

Lemma lu_enc_blocks c :
  lu_enc c = lu_blk (lu_new c) (lucat_key (lu_nland c)) (lu_fland c)
             ++ concat (map (fun o : list word * list word => lu_blk (lu_new c) (fst o) (snd o)) (lu_opts c)).
Proof.
  unfold lu_enc, lu_to_records, lu_blk. destruct (lu_new c).
  - rewrite frame_app, frame_concat_map. reflexivity.
  - change (lu_fland c :: ?x) with ([lu_fland c] ++ x). rewrite frame_app. unfold frame at 1. cbn [map concat]. rewrite app_nil_r.
    f_equal. unfold frame. rewrite map_map. reflexivity.
Qed.

Lemma lu_blk_len new k d : length k = 2%nat ->
  Z.of_nat (length (lu_blk new k d)) = (if new then 6 else 2) + Z.of_nat (length d).
Proof.
  intros Hk. unfold lu_blk, frame, frame1. destruct new; cbn [map concat]; rewrite ?app_nil_r; cbn [length];
    rewrite ?app_length; cbn [length]; rewrite ?app_length; cbn [length]; lia.
Qed.

Lemma lu_struct_blk new k d n rest : length k = 2%nat -> length d = Z.to_nat n ->
  lu_struct new n (lu_blk new k d ++ rest) = ((if new then k else []), d).
Proof.
  intros Hk Hd. destruct k as [|k1 [|k2 [|? ?]]]; try discriminate. unfold lu_struct, lu_blk, frame, frame1. destruct new.
  - cbn [map concat app skipn firstn]. rewrite app_nil_r. rewrite <- app_assoc. rewrite firstn_app_len by exact Hd. reflexivity.
  - cbn [app skipn]. rewrite <- app_assoc. rewrite firstn_app_len by exact Hd. reflexivity.
Qed.

Section LuReader.
Variables (new : bool) (nland rows cols : Z) (fland : list word) (R : list word) (nrec : Z).
Hypothesis Hr : 0 < rows.
Hypothesis Hc : 0 < cols.
Hypothesis Hn : nland = 11 \/ (new = true /\ nland = 26).
Hypothesis Hf : Z.of_nat (length fland) = nland * (rows * cols).
Hypothesis Hsniff : new = true \/ lu_is_lucat (nth 0 fland 0) (nth 1 fland 0) = false.
Hypothesis Hrec : 1 <= nrec <= 3.
Hypothesis HR : 4 * Z.of_nat (length R) = (nrec - 1) * ((if new then 24 else 8) + 4 * (rows * cols)).

Let ws := lu_blk new (lucat_key nland) fland ++ R.
Let L0 := Z.to_nat ((if new then 6 else 2) + nland * (rows * cols)).

Lemma lu_L0 : length (lu_blk new (lucat_key nland) fland) = L0.
Proof. unfold L0. pose proof (lu_blk_len new (lucat_key nland) fland eq_refl) as H. lia. Qed.

Lemma lu_read_gen :
  lu_mm_read true rows cols ws (4 * Z.of_nat (length ws)) =
  Ok {| lv_new := new; lv_nland := nland;
        lv_vars := if new then firstn (Z.to_nat nrec) [(lucat_key nland, fland); lu_struct true (rows * cols) R;
                                                          lu_struct true (rows * cols) (skipn (Z.to_nat (6 + rows * cols)) R)]
                   else firstn (Z.to_nat (Z.min nrec 2)) [(lu_key_FLAND, fland); (lu_key_TOPO, snd (lu_struct false (rows * cols) R))] |}.
Proof.
  pose proof lu_L0 as HL0.
  assert (Hrc : 0 < rows * cols) by nia.
  assert (Hlen : Z.of_nat (length ws) = (if new then 6 else 2) + nland * (rows * cols) + Z.of_nat (length R)).
  { unfold ws. rewrite app_length, HL0. unfold L0. destruct new; lia. }
  assert (Hfl : (11 <= length fland)%nat) by (destruct Hn as [->|[_ ->]]; nia).
  assert (G0 : getw ws 0 = if new then 8 else 4 * (nland * (rows * cols))).
  { unfold ws, lu_blk, frame, frame1. destruct new; [reflexivity|]. cbn [app]. rewrite getw_0. unfold marker. lia. }
  assert (G12 : lu_is_lucat (getw ws 1) (getw ws 2) = new /\ ((if new && (getw ws 2 =? LU_T26) then 26 else 11) = nland)).
  { unfold ws, lu_blk, frame, frame1. destruct new.
    - cbn [map concat app]. change (getw (?a :: ?b :: ?c :: ?r) 1) with b. change (getw (?a :: ?b :: ?c :: ?r) 2) with c.
      unfold lucat_key. destruct Hn as [->|[_ ->]]; vm_compute; split; reflexivity.
    - cbn [app andb]. destruct fland as [|f0 [|f1 fl]]; cbn [length] in Hfl; try lia.
      cbn [app]. change (getw (?a :: ?b :: ?c :: ?r) 1) with b. change (getw (?a :: ?b :: ?c :: ?r) 2) with c.
      destruct Hsniff as [E|E]; [discriminate|]. cbn [nth] in E. rewrite E. destruct Hn as [->|[E' _]]; [split; reflexivity|discriminate]. }
  destruct G12 as [G1 G2].
  unfold lu_mm_read. rewrite G0. cbv zeta. rewrite G1, G2. cbn [negb].
  set (pad := if new then 24 else 8) in *. set (rc := rows * cols) in *.
  set (size := 4 * Z.of_nat (length ws)).
  assert (Hsize : size = pad + 4 * (nland * rc) + (nrec - 1) * (pad + 4 * rc)).
  { unfold size. rewrite Hlen. unfold pad. destruct new; lia. }
  assert (Hpad : pad = 24 \/ pad = 8) by (unfold pad; destruct new; auto).
  assert (Hnl : 11 <= nland) by (destruct Hn as [->|[_ ->]]; lia).
  replace (size <? 12) with false by nia.
  replace (((if new then 8 else 4 * (nland * rc)) + 8 <? size)
           && (((if new then 8 else 4 * (nland * rc)) + 8 <? 0) || (size <? (if new then 8 else 4 * (nland * rc)) + 8 + 4))) with false.
  2:{ symmetry. unfold pad in *. destruct new; [nia|]. apply andb_false_iff.
      destruct (Z.eq_dec nrec 1) as [E|E]; [left; rewrite E in Hsize; lia|right; nia]. }
  assert (Hnrec : (if size =? pad + 4 * (nland * rc) then 1 else if size =? pad + 4 * (nland * rc) + (pad + 4 * rc) then 2
                   else if size =? pad + 4 * (nland * rc) + 2 * (pad + 4 * rc) then 3 else 0) = nrec).
  { assert (E123 : nrec = 1 \/ nrec = 2 \/ nrec = 3) by lia. destruct E123 as [E|[E|E]]; rewrite E in Hsize |- *.
    - replace (size =? pad + 4 * (nland * rc)) with true by lia. reflexivity.
    - replace (size =? pad + 4 * (nland * rc)) with false by nia. replace (size =? pad + 4 * (nland * rc) + (pad + 4 * rc)) with true by lia. reflexivity.
    - replace (size =? pad + 4 * (nland * rc)) with false by nia. replace (size =? pad + 4 * (nland * rc) + (pad + 4 * rc)) with false by nia.
      replace (size =? pad + 4 * (nland * rc) + 2 * (pad + 4 * rc)) with true by lia. reflexivity. }
  rewrite Hnrec. replace (nrec =? 0) with false by lia.
  assert (S0 : lu_struct new (nland * rc) ws = ((if new then lucat_key nland else []), fland)).
  { unfold ws. apply lu_struct_blk; [reflexivity|lia]. }
  assert (K1 : skipn (Z.to_nat ((pad + 4 * (nland * rc)) / 4)) ws = R).
  { unfold ws. apply skipn_app_len. rewrite HL0. unfold L0, pad. destruct new.
    - replace (24 + 4 * (nland * rc)) with (4 * (6 + nland * rc)) by lia. rewrite four_div_o. reflexivity.
    - replace (8 + 4 * (nland * rc)) with (4 * (2 + nland * rc)) by lia. rewrite four_div_o. reflexivity. }
  rewrite S0, K1. f_equal. f_equal. destruct new; [|reflexivity].
  cbn [fst snd]. do 3 f_equal.
  replace (Z.to_nat ((pad + 4 * (nland * rc) + (pad + 4 * rc)) / 4)) with (L0 + Z.to_nat (6 + rc))%nat.
  - unfold ws. rewrite <- HL0. rewrite Nat.add_comm, skipn_add_app_o. reflexivity.
  - unfold L0, pad. replace (24 + 4 * (nland * rc) + (24 + 4 * rc)) with (4 * (6 + nland * rc + (6 + rc))) by lia.
    rewrite four_div_o. fold rc. lia.
Qed.
End LuReader.

Theorem lu_reader_presents_content c : lu_wf c = true -> lu_sniff_ok c = true ->
  lu_mm_read true (lu_rows c) (lu_cols c) (lu_enc c) (4 * Z.of_nat (length (lu_enc c))) = Ok (lu_view_of c).
Proof.
  intros W Sn. destruct (lu_wf_parts c W) as (Hr & Hc & Hn & Hf & Hs & Ho).
  rewrite lu_enc_blocks. unfold lu_view_of, lu_sniff_ok, lu_shape in *.
  destruct c as [new nland rows cols fland opts]. cbn [lu_new lu_nland lu_rows lu_cols lu_fland lu_opts] in *.
  assert (Hsn : new = true \/ lu_is_lucat (nth 0 fland 0) (nth 1 fland 0) = false).
  { destruct new; [left; reflexivity|right]. cbn [orb] in Sn. apply negb_true_iff in Sn. exact Sn. }
  assert (Hrc : 0 < rows * cols) by nia.
  destruct Hs as [[-> [->|[d ->]]]|[-> [->|[[d ->]|[[d ->]|[d1 [d2 ->]]]]]]]; cbn [map concat fst snd].
  - rewrite (lu_read_gen false nland rows cols fland [] 1); try assumption; try lia; reflexivity.
  - pose proof (Forall_inv Ho) as H1. cbn [snd] in H1.
    rewrite (lu_read_gen false nland rows cols fland _ 2); try assumption; try lia.
    + rewrite lu_struct_blk by (try reflexivity; lia). reflexivity.
    + rewrite app_nil_r. pose proof (lu_blk_len false lu_key_TOPO d eq_refl) as HL. lia.
  - rewrite (lu_read_gen true nland rows cols fland [] 1); try assumption; try lia; reflexivity.
  - pose proof (Forall_inv Ho) as H1. cbn [snd] in H1.
    rewrite (lu_read_gen true nland rows cols fland _ 2); try assumption; try lia.
    + rewrite lu_struct_blk by (try reflexivity; lia). reflexivity.
    + rewrite app_nil_r. pose proof (lu_blk_len true lu_key_LAI d eq_refl) as HL. lia.
  - pose proof (Forall_inv Ho) as H1. cbn [snd] in H1.
    rewrite (lu_read_gen true nland rows cols fland _ 2); try assumption; try lia.
    + rewrite lu_struct_blk by (try reflexivity; lia). reflexivity.
    + rewrite app_nil_r. pose proof (lu_blk_len true lu_key_TOPO d eq_refl) as HL. lia.
  - pose proof (Forall_inv Ho) as H1. pose proof (Forall_inv (Forall_inv_tail Ho)) as H2. cbn [snd] in H1, H2.
    pose proof (lu_blk_len true lu_key_LAI d1 eq_refl) as HL1. pose proof (lu_blk_len true lu_key_TOPO d2 eq_refl) as HL2.
    rewrite (lu_read_gen true nland rows cols fland _ 3); try assumption; try lia.
    + rewrite lu_struct_blk by (try reflexivity; lia).
      rewrite skipn_app_len by lia. rewrite lu_struct_blk by (try reflexivity; lia). reflexivity.
    + rewrite app_nil_r, app_length. lia.
Qed.

(* the style sniff decodes the first 8 payload bytes: when they are no UTF-8 the reader raises, whatever the file *)
Theorem lu_reader_undecodable rows cols ws size : lu_mm_read false rows cols ws size = Err.
Proof. unfold lu_mm_read. destruct (size <? 12); reflexivity. Qed.

(* ======================================================================================
   Prefixes
   ====================================================================================== *)
Lemma lu_head new nland rows cols fland R :
  0 < rows -> 0 < cols -> (nland = 11 \/ (new = true /\ nland = 26)) -> Z.of_nat (length fland) = nland * (rows * cols) ->
  (new = true \/ lu_is_lucat (nth 0 fland 0) (nth 1 fland 0) = false) ->
  let ws := lu_blk new (lucat_key nland) fland ++ R in
  lu_is_lucat (getw ws 1) (getw ws 2) = new /\ ((if new && (getw ws 2 =? LU_T26) then 26 else 11) = nland) /\ (3 <= length ws)%nat.
Proof.
  intros Hr Hc Hn Hf Hsniff ws.
  assert (Hfl : (11 <= length fland)%nat) by (destruct Hn as [->|[_ ->]]; nia).
  assert (H3 : (3 <= length ws)%nat).
  { unfold ws. rewrite app_length. pose proof (lu_blk_len new (lucat_key nland) fland eq_refl). destruct new; lia. }
  split; [|split; [|exact H3]]; unfold ws, lu_blk, frame, frame1; destruct new.
  - cbn [map concat app]. change (getw (?a :: ?b :: ?c :: ?r) 1) with b. change (getw (?a :: ?b :: ?c :: ?r) 2) with c.
    unfold lucat_key. destruct Hn as [->|[_ ->]]; vm_compute; reflexivity.
  - destruct fland as [|f0 [|f1 fl]]; cbn [length] in Hfl; try lia.
    cbn [app]. change (getw (?a :: ?b :: ?c :: ?r) 1) with b. change (getw (?a :: ?b :: ?c :: ?r) 2) with c.
    destruct Hsniff as [E|E]; [discriminate|]. exact E.
  - cbn [map concat app]. change (getw (?a :: ?b :: ?c :: ?r) 2) with c.
    unfold lucat_key. destruct Hn as [->|[_ ->]]; vm_compute; reflexivity.
  - cbn [andb]. destruct Hn as [->|[E' _]]; [reflexivity|discriminate].
Qed.

Lemma lu_read_sizes dec rows cols ws n v : lu_mm_read dec rows cols ws n = Ok v ->
  let new := lu_is_lucat (getw ws 1) (getw ws 2) in
  let nland := if new && (getw ws 2 =? LU_T26) then 26 else 11 in
  let pad := if new then 24 else 8 in
  dec = true /\ 12 <= n /\
  exists j, 0 <= j <= 2 /\ n = pad + 4 * (nland * (rows * cols)) + j * (pad + 4 * (rows * cols)).
Proof.
  unfold lu_mm_read. cbv zeta. intros H.
  destruct (n <? 12) eqn:E1; [discriminate|]. destruct dec; [|discriminate]. cbn [negb] in H.
  destruct (_ && _) eqn:E2 in H; [discriminate|].
  set (new := lu_is_lucat (getw ws 1) (getw ws 2)) in *.
  set (nland := if new && (getw ws 2 =? LU_T26) then 26 else 11) in *.
  set (pad := if new then 24 else 8) in *.
  split; [reflexivity|]. split; [lia|].
  destruct (n =? pad + 4 * (nland * (rows * cols))) eqn:S1; [exists 0; lia|].
  destruct (n =? pad + 4 * (nland * (rows * cols)) + (pad + 4 * (rows * cols))) eqn:S2; [exists 1; lia|].
  destruct (n =? pad + 4 * (nland * (rows * cols)) + 2 * (pad + 4 * (rows * cols))) eqn:S3; [exists 2; lia|].
  cbn in H. discriminate.
Qed.

Lemma lu_wf_truncate c k : lu_wf c = true -> lu_wf (lu_truncate k c) = true /\ lu_sniff_ok (lu_truncate k c) = lu_sniff_ok c.
Proof.
  intros W. split; [|reflexivity]. destruct (lu_wf_parts c W) as (_ & _ & _ & _ & Hs & _). revert W. unfold lu_wf.
  rewrite !andb_true_iff. intros [[[[[H1 H2] H3] H4] H5] H6]. cbn [lu_truncate lu_new lu_nland lu_rows lu_cols lu_fland lu_opts].
  repeat split; try assumption.
  - unfold lu_shape in Hs.
    destruct Hs as [[E [E'|[d E']]]|[E [E'|[[d E']|[[d E']|[d1 [d2 E']]]]]]]; rewrite E, E';
      destruct k as [|[|[|k]]]; reflexivity.
  - apply forallb_forall. intros o Hin. rewrite forallb_forall in H6. apply H6. eapply In_firstn_in. exact Hin.
Qed.

Lemma lu_opt_blocks_len c : lu_wf c = true ->
  Forall (fun b : list word => length b = Z.to_nat ((if lu_new c then 6 else 2) + lu_rows c * lu_cols c))
         (map (fun o : list word * list word => lu_blk (lu_new c) (fst o) (snd o)) (lu_opts c)).
Proof.
  intros W. destruct (lu_wf_parts c W) as (Hr & Hc & _ & _ & Hs & Ho).
  assert (Hk : Forall (fun o : list word * list word => length (fst o) = 2%nat) (lu_opts c)).
  { unfold lu_shape in Hs.
    destruct Hs as [[E [E'|[d E']]]|[E [E'|[[d E']|[[d E']|[d1 [d2 E']]]]]]]; rewrite E'; repeat constructor. }
  apply Forall_forall. intros b Hb. apply in_map_iff in Hb as (o & <- & Hin).
  rewrite Forall_forall in Hk, Ho. pose proof (lu_blk_len (lu_new c) (fst o) (snd o) (Hk o Hin)) as HL.
  specialize (Ho o Hin). destruct (lu_new c); nia.
Qed.

(* EVERY byte prefix: the reader accepts it only at the end of the land-use record or of an optional record, and then presents
   exactly the first records of the content (such a prefix is itself a valid file) *)
Theorem lu_every_prefix c dec n v : lu_wf c = true -> lu_sniff_ok c = true -> 0 <= n <= 4 * Z.of_nat (length (lu_enc c)) ->
  lu_mm_read dec (lu_rows c) (lu_cols c) (firstn (Z.to_nat ((n + 3) / 4)) (lu_enc c)) n = Ok v ->
  exists k, (k <= length (lu_opts c))%nat /\ n = lu_fland_bytes c + Z.of_nat k * lu_opt_bytes c /\ dec = true /\
            v = lu_view_of (lu_truncate k c).
Proof.
  intros W Sn Hn H. destruct (lu_wf_parts c W) as (Hr & Hc & Hnl & Hf & Hs & Ho).
  assert (Hsn : lu_new c = true \/ lu_is_lucat (nth 0 (lu_fland c) 0) (nth 1 (lu_fland c) 0) = false).
  { unfold lu_sniff_ok in Sn. destruct (lu_new c); [left; reflexivity|right]. cbn [orb] in Sn. apply negb_true_iff in Sn. exact Sn. }
  assert (Hrc : 0 < lu_rows c * lu_cols c) by nia.
  pose proof (lu_read_sizes _ _ _ _ _ _ H) as Sz. cbv zeta in Sz. destruct Sz as (Hd & H12 & j & Hj & Hnj).
  pose proof (lu_opt_blocks_len c W) as HB.
  set (L1 := Z.to_nat ((if lu_new c then 6 else 2) + lu_rows c * lu_cols c)) in *.
  pose proof (lu_blk_len (lu_new c) (lucat_key (lu_nland c)) (lu_fland c) eq_refl) as HL0.
  (* the first three words of the prefix are those of the file *)
  assert (Hm : (3 <= Z.to_nat ((n + 3) / 4))%nat).
  { assert (3 <= (n + 3) / 4) by (apply Z.div_le_lower_bound; lia). lia. }
  assert (Hw : forall i, 0 <= i < 3 -> getw (firstn (Z.to_nat ((n + 3) / 4)) (lu_enc c)) i = getw (lu_enc c) i).
  { intros i Hi. apply getw_firstn; lia. }
  rewrite !Hw in Hnj by lia. rewrite lu_enc_blocks in Hnj.
  destruct (lu_head (lu_new c) (lu_nland c) (lu_rows c) (lu_cols c) (lu_fland c)
              (concat (map (fun o : list word * list word => lu_blk (lu_new c) (fst o) (snd o)) (lu_opts c))) Hr Hc Hnl Hf Hsn)
    as (G1 & G2 & _).
  cbv zeta in G1, G2. rewrite G1, G2 in Hnj.
  assert (Hnj' : n = lu_fland_bytes c + j * lu_opt_bytes c) by exact Hnj.
  (* total length *)
  assert (Htot : 4 * Z.of_nat (length (lu_enc c)) = lu_fland_bytes c + Z.of_nat (length (lu_opts c)) * lu_opt_bytes c).
  { rewrite lu_enc_blocks, app_length, (concat_length_uniform L1) by exact HB. rewrite map_length.
    unfold lu_fland_bytes, lu_opt_bytes, lu_pad, L1. destruct (lu_new c); nia. }
  assert (Hob : 0 < lu_opt_bytes c) by (unfold lu_opt_bytes, lu_pad; destruct (lu_new c); lia).
  assert (Hjk : j <= Z.of_nat (length (lu_opts c))) by nia.
  exists (Z.to_nat j). split; [lia|]. split; [rewrite Z2Nat.id by lia; exact Hnj'|]. split; [exact Hd|].
  set (c' := lu_truncate (Z.to_nat j) c).
  destruct (lu_wf_truncate c (Z.to_nat j) W) as [W' S'].
  assert (Epre : firstn (Z.to_nat ((n + 3) / 4)) (lu_enc c) = lu_enc c').
  { rewrite !lu_enc_blocks. unfold c'. cbn [lu_truncate lu_new lu_nland lu_fland lu_opts].
    replace (Z.to_nat ((n + 3) / 4)) with (length (lu_blk (lu_new c) (lucat_key (lu_nland c)) (lu_fland c)) + Z.to_nat j * L1)%nat.
    - rewrite firstn_app_2. f_equal. rewrite firstn_concat_uniform_gen by exact HB. rewrite map_firstn. reflexivity.
    - assert (E : (n + 3) / 4 = Z.of_nat (length (lu_blk (lu_new c) (lucat_key (lu_nland c)) (lu_fland c))) + j * Z.of_nat L1).
      { symmetry. apply Z.div_unique with (r := 3); [lia|]. rewrite Hnj'. unfold lu_fland_bytes, lu_opt_bytes, lu_pad, L1.
        rewrite HL0. destruct (lu_new c); nia. }
      rewrite E. rewrite Z2Nat.inj_add, Z2Nat.inj_mul, !Nat2Z.id by lia. reflexivity. }
  rewrite Epre in H.
  assert (Hsz : n = 4 * Z.of_nat (length (lu_enc c'))).
  { assert (E : (n + 3) / 4 * 4 = n).
    { rewrite Hnj'. unfold lu_fland_bytes, lu_opt_bytes, lu_pad. destruct (lu_new c).
      + replace (24 + 4 * (lu_nland c * (lu_rows c * lu_cols c)) + j * (24 + 4 * (lu_rows c * lu_cols c)) + 3)
          with (3 + (6 + lu_nland c * (lu_rows c * lu_cols c) + j * (6 + lu_rows c * lu_cols c)) * 4) by lia.
        rewrite Z.div_add by lia. change (3 / 4) with 0. lia.
      + replace (8 + 4 * (lu_nland c * (lu_rows c * lu_cols c)) + j * (8 + 4 * (lu_rows c * lu_cols c)) + 3)
          with (3 + (2 + lu_nland c * (lu_rows c * lu_cols c) + j * (2 + lu_rows c * lu_cols c)) * 4) by lia.
        rewrite Z.div_add by lia. change (3 / 4) with 0. lia. }
    rewrite <- Epre, firstn_length. rewrite Nat.min_l; lia. }
  rewrite Hd, Hsz in H. change (lu_rows c) with (lu_rows c') in H. change (lu_cols c) with (lu_cols c') in H.
  rewrite lu_reader_presents_content in H; [congruence|exact W'|exact (eq_trans S' Sn)].
Qed.

(* ======================================================================================
   The writer
   ====================================================================================== *)
(* the writer's record order (58a734f) reproduces every well-formed file *)
Theorem lu_write_view c : lu_wf c = true -> lu_write (lu_view_of c) = lu_enc c.
Proof.
  intros W. destruct (lu_wf_parts c W) as (_ & _ & Hn & _ & Hs & _). unfold lu_shape in Hs.
  destruct c as [new nland rows cols fland opts]. cbn [lu_new lu_nland lu_opts] in *.
  destruct Hs as [[-> [->|[d ->]]]|[-> [->|[[d ->]|[[d ->]|[d1 [d2 ->]]]]]]];
    destruct Hn as [->|[Hx ->]]; try discriminate Hx; reflexivity.
Qed.

Theorem lu_read_write c : lu_wf c = true -> lu_sniff_ok c = true ->
  exists v, lu_mm_read true (lu_rows c) (lu_cols c) (lu_enc c) (4 * Z.of_nat (length (lu_enc c))) = Ok v /\
            lu_write v = lu_enc c /\ lu_dec (lu_rows c) (lu_cols c) (lu_write v) = Some c.
Proof.
  intros W Sn. exists (lu_view_of c). split; [apply lu_reader_presents_content; assumption|].
  rewrite lu_write_view by exact W. split; [reflexivity|apply lu_dec_enc; exact W].
Qed.
