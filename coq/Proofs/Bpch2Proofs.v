(* The block-walking reader bpch2 on spec-encoded files, and its agreement with bpch1 (C18 clause 4). *)
From PNC Require Import Base.Util Base.Words Gen.Bpch Model.Bpch Proofs.WordsProofs Proofs.BpchProofs.
From Coq Require Import String QArith.
Import Coq.Lists.List. Import ListNotations.
Local Open Scope Z_scope.

Definition Holds (b : bool) : Prop := b = true.
Definition HoldsF (b : bool) : Prop := b = false.
Ltac hide := repeat match goal with
                    | H : ?x = true |- _ => change (Holds x) in H
                    | H : ?x = false |- _ => change (HoldsF x) in H
                    end.

Definition blk_of (b : block) : blk2 := (hdr_of b, blockw b).
Definition idb (b : block) : list word * Z := (b_cat b, b_tid b).

(* ---- the walk over every block ------------------------------------------------------------------------- *)
Lemma firstnZ_blockw b tail : wf_block b = true ->
  firstnZ (Z.of_nat dht_words + (4 * lenZ (b_data b) + 8) / 4) (blockw b ++ tail) = blockw b.
Proof.
  intros Hwf. destruct consts as (C1 & _). rewrite C1.
  replace (4 * lenZ (b_data b) + 8) with ((lenZ (b_data b) + 2) * 4) by lia.
  rewrite Z.div_mul by lia. unfold firstnZ. rewrite lenZ_app, (lenZ_blockw b Hwf).
  destruct (57 + lenZ (b_data b) + lenZ tail <=? Z.of_nat 55 + (lenZ (b_data b) + 2)) eqn:E.
  - apply Z.leb_le in E. pose proof (lenZ_nonneg tail). assert (tail = []) by (apply lenZ_zero_nil; lia).
    subst tail. apply app_nil_r.
  - replace (Z.to_nat (Z.of_nat 55 + (lenZ (b_data b) + 2))) with (length (blockw b)).
    + apply firstn_app_exact.
    + rewrite (blockw_length b Hwf). unfold lenZ. lia.
Qed.

Lemma walk2_blocks : forall bs fuel, forallb wf_block bs = true -> (length bs < fuel)%nat ->
  walk2 fuel (tbw bs) (4 * lenZ (tbw bs)) = Ok (map blk_of bs).
Proof.
  induction bs as [|b bs IH]; intros fuel Hwf Hf.
  - destruct fuel; [simpl in Hf; lia|]. reflexivity.
  - simpl in Hwf, Hf. apply andb_true_iff in Hwf as [Hb Hbs]. destruct fuel as [|f]; [lia|].
    pose proof (lenZ_blockw b Hb) as HL. pose proof (lenZ_nonneg (b_data b)) as Hd. pose proof (lenZ_nonneg (tbw bs)) as Ht.
    assert (Hlen : lenZ (tbw (b :: bs)) = lenZ (blockw b) + lenZ (tbw bs)).
    { unfold tbw. cbn [map concat]. apply lenZ_app. }
    assert (Hrw : tbw (b :: bs) = blockw b ++ tbw bs) by reflexivity.
    destruct consts as (_ & _ & C3 & _).
    cbn [walk2]. rewrite Hlen, Hrw, (parse_hdr_blockw b _ Hb), C3. cbn [p_skip hdr_of].
    replace (4 * (lenZ (blockw b) + lenZ (tbw bs)) <=? 0) with false by (symmetry; apply Z.leb_gt; lia).
    replace (4 * (lenZ (blockw b) + lenZ (tbw bs)) <? 220) with false by (symmetry; apply Z.ltb_ge; lia).
    replace (4 * lenZ (b_data b) + 8 <? 0) with false by (symmetry; apply Z.ltb_ge; lia).
    replace ((4 * lenZ (b_data b) + 8) mod 4 =? 0) with true.
    2:{ symmetry. apply Z.eqb_eq. replace (4 * lenZ (b_data b) + 8) with ((lenZ (b_data b) + 2) * 4) by lia.
        apply Z.mod_mul. lia. }
    cbn [orb negb]. rewrite (skip_blockw b _ Hb), (firstnZ_blockw b _ Hb).
    replace (4 * (lenZ (blockw b) + lenZ (tbw bs)) - 220 - (4 * lenZ (b_data b) + 8)) with (4 * lenZ (tbw bs)) by lia.
    rewrite (IH f Hbs) by lia. reflexivity.
Qed.

(* ---- keys ------------------------------------------------------------------------------------------------ *)
Lemma key2_eqb_eq a b : key2_eqb a b = true <-> a = b.
Proof.
  destruct a as [c t], b as [c' t']. unfold key2_eqb. cbn [fst snd]. split.
  - intros H. apply andb_true_iff in H as [H1 H2]. apply zlist_eqb_eq in H1. apply Z.eqb_eq in H2. congruence.
  - intros H. injection H as -> ->. rewrite zlist_eqb_refl, Z.eqb_refl. reflexivity.
Qed.
Lemma key2_eqb_refl a : key2_eqb a a = true.
Proof. apply key2_eqb_eq. reflexivity. Qed.

Lemma name_indep T D c t u u' : fst (fst (spec_lookup T D c t u)) = fst (fst (spec_lookup T D c t u')).
Proof. unfold spec_lookup. destruct (spec_entry T D c t); [reflexivity|]. destruct (find _ T); reflexivity. Qed.

(* distinct variable names imply distinct (category, tracer id) *)
Lemma ids_nodup T D : forall t0, nodup_keys (map (entry_of T D) t0) = true -> nodupb key2_eqb (map idb t0) = true.
Proof.
  induction t0 as [|b t0 IH]; intros H; [reflexivity|]. cbn [map nodup_keys nodupb] in *.
  apply andb_true_iff in H as [H1 H2]. rewrite (IH H2), andb_true_r. apply negb_true_iff in H1. apply negb_true_iff.
  destruct (existsb (key2_eqb (idb b)) (map idb t0)) eqn:E; [|reflexivity].
  apply existsb_exists in E as (k & Hin & Hk). apply in_map_iff in Hin as (b' & <- & Hin').
  apply key2_eqb_eq in Hk. unfold idb in Hk. injection Hk as Hc Ht.
  assert (existsb (key_eqb (entry_of T D b)) (map (entry_of T D) t0) = true); [|congruence].
  apply existsb_exists. exists (entry_of T D b'). split; [apply in_map; exact Hin'|].
  unfold key_eqb, entry_of. cbn [e_cat e_name]. rewrite Hc, Ht, zlist_eqb_refl. cbn [andb].
  rewrite (name_indep T D (b_cat b') (b_tid b') (b_unit b) (b_unit b')).
  destruct (fst (fst (spec_lookup T D (b_cat b') (b_tid b') (b_unit b')))); cbn; apply Z.eqb_refl.
Qed.

Lemma meta_ids : forall tb t0, list_eqb meta_eqb tb t0 = true -> map idb tb = map idb t0.
Proof.
  induction tb as [|b tb IH]; intros [|a t0] H; simpl in H; try discriminate; [reflexivity|].
  apply andb_true_iff in H as [H1 H2]. destruct (meta_eqb_true _ _ H1) as (_ & Hc & Ht & _).
  cbn [map]. unfold idb at 1 3. rewrite Hc, Ht, (IH t0 H2). reflexivity.
Qed.

Definition stepk (acc : list (list word * Z)) (b : blk2) :=
  if existsb (key2_eqb (key2 b)) acc then acc else acc ++ [key2 b].

Lemma keys_fresh : forall bs acc, nodupb key2_eqb (map idb bs) = true ->
  (forall b, In b bs -> existsb (key2_eqb (idb b)) acc = false) ->
  fold_left stepk (map blk_of bs) acc = acc ++ map idb bs.
Proof.
  induction bs as [|b bs IH]; intros acc Hnd Hfr; [symmetry; apply app_nil_r|].
  cbn [map fold_left nodupb] in *. apply andb_true_iff in Hnd as [Hn1 Hn2]. apply negb_true_iff in Hn1.
  unfold stepk at 2. change (key2 (blk_of b)) with (idb b). rewrite (Hfr b (or_introl eq_refl)).
  rewrite (IH (acc ++ [idb b]) Hn2).
  - rewrite <- app_assoc. reflexivity.
  - intros b' Hin. rewrite existsb_app, (Hfr b' (or_intror Hin)). cbn [existsb orb]. rewrite orb_false_r.
    destruct (key2_eqb (idb b') (idb b)) eqn:E; [|reflexivity].
    apply key2_eqb_eq in E. assert (existsb (key2_eqb (idb b)) (map idb bs) = true); [|congruence].
    apply existsb_exists. exists (idb b'). split; [apply in_map; exact Hin|rewrite E; apply key2_eqb_refl].
Qed.

Lemma keys_known : forall bs acc, (forall b, In b bs -> existsb (key2_eqb (idb b)) acc = true) ->
  fold_left stepk (map blk_of bs) acc = acc.
Proof.
  induction bs as [|b bs IH]; intros acc H; [reflexivity|]. cbn [map fold_left].
  unfold stepk at 2. change (key2 (blk_of b)) with (idb b). rewrite (H b (or_introl eq_refl)).
  apply IH. intros b' Hin. apply H. right. exact Hin.
Qed.

Lemma keys2_times : forall t0 ts, nodupb key2_eqb (map idb t0) = true ->
  Forall (fun tb => map idb tb = map idb t0) ts ->
  keys2 (map blk_of (concat (t0 :: ts))) = map idb t0.
Proof.
  intros t0 ts Hnd Hall. unfold keys2. fold stepk. cbn [concat]. rewrite map_app, fold_left_app.
  rewrite (keys_fresh t0 [] Hnd) by (intros; reflexivity). cbn [app].
  induction Hall as [|tb ts Htb _ IH]; [reflexivity|].
  cbn [concat]. rewrite map_app, fold_left_app. rewrite (keys_known tb (map idb t0)); [exact IH|].
  intros b Hin. apply existsb_exists. exists (idb b). split; [|apply key2_eqb_refl].
  rewrite <- Htb. apply in_map. exact Hin.
Qed.

(* ---- groups ------------------------------------------------------------------------------------------------ *)
Definition sel (k : list word * Z) (tb : list block) : list block := filter (fun b => key2_eqb (idb b) k) tb.

Lemma filter_concat' {A} (p : A -> bool) ls : filter p (concat ls) = concat (map (filter p) ls).
Proof. induction ls as [|l ls IH]; [reflexivity|]. cbn [concat map]. rewrite filter_app, IH. reflexivity. Qed.

Lemma filter_blk k bs : filter (fun x => key2_eqb (key2 x) k) (map blk_of bs) = map blk_of (sel k bs).
Proof.
  induction bs as [|b bs IH]; [reflexivity|]. cbn [map filter sel]. change (key2 (blk_of b)) with (idb b).
  destruct (key2_eqb (idb b) k); [cbn [map]; f_equal|]; exact IH.
Qed.

Lemma sel_cons k a l : sel k (a :: l) = if key2_eqb (idb a) k then a :: sel k l else sel k l.
Proof. reflexivity. Qed.

Lemma sel_none k l : existsb (key2_eqb k) (map idb l) = false -> sel k l = [].
Proof.
  induction l as [|a l IH]; intros H; [reflexivity|]. cbn [map existsb] in H. apply orb_false_iff in H as [H1 H2].
  rewrite sel_cons. destruct (key2_eqb (idb a) k) eqn:E.
  - apply key2_eqb_eq in E. rewrite E, key2_eqb_refl in H1. discriminate.
  - apply IH. exact H2.
Qed.

Lemma sel_in : forall t0 b0, nodupb key2_eqb (map idb t0) = true -> In b0 t0 -> sel (idb b0) t0 = [b0].
Proof.
  induction t0 as [|a t0 IH]; intros b0 Hnd Hin; [contradiction|].
  cbn [map nodupb] in Hnd. apply andb_true_iff in Hnd as [Hn1 Hn2]. apply negb_true_iff in Hn1.
  rewrite sel_cons. destruct (key2_eqb (idb a) (idb b0)) eqn:E.
  - apply key2_eqb_eq in E. destruct Hin as [->|Hin].
    + f_equal. apply sel_none. exact Hn1.
    + exfalso. assert (existsb (key2_eqb (idb a)) (map idb t0) = true); [|congruence].
      apply existsb_exists. exists (idb b0). split; [apply in_map; exact Hin|rewrite E; apply key2_eqb_refl].
  - destruct Hin as [->|Hin]; [rewrite key2_eqb_refl in E; discriminate|]. apply (IH b0 Hn2 Hin).
Qed.

Lemma sel_le1 : forall tb k, nodupb key2_eqb (map idb tb) = true ->
  sel k tb = [] \/ exists b, sel k tb = [b] /\ In b tb /\ idb b = k.
Proof.
  induction tb as [|a tb IH]; intros k Hnd; [left; reflexivity|].
  cbn [map nodupb] in Hnd. apply andb_true_iff in Hnd as [Hn1 Hn2]. apply negb_true_iff in Hn1.
  rewrite sel_cons. destruct (key2_eqb (idb a) k) eqn:E.
  - apply key2_eqb_eq in E. right. exists a. subst k. rewrite (sel_none _ _ Hn1). repeat split. left. reflexivity.
  - destruct (IH k Hn2) as [H|(b & H1 & H2 & H3)]; [left; exact H|]. right. exists b. repeat split; auto. right. exact H2.
Qed.

Definition tauof (x : blk2) : list word := p_tau (fst x).

Lemma tauset_fresh b : forall l, existsb (fun x => zlist_eqb (tauof x) (tauof b)) l = false -> tau_set b l = l ++ [b].
Proof.
  induction l as [|x l IH]; intros H; [reflexivity|]. cbn [existsb] in H. apply orb_false_iff in H as [H1 H2].
  cbn [tau_set]. unfold tauof in H1. rewrite H1. cbn [app]. f_equal. apply IH. exact H2.
Qed.

Lemma nodupb_app_mid l1 x l2 : nodupb zlist_eqb (map tauof (l1 ++ x :: l2)) = true ->
  existsb (fun y => zlist_eqb (tauof y) (tauof x)) l1 = false /\ nodupb zlist_eqb (map tauof ((l1 ++ [x]) ++ l2)) = true.
Proof.
  intros H. split.
  - induction l1 as [|a l1 IH]; [reflexivity|]. cbn [app map nodupb] in H. apply andb_true_iff in H as [H1 H2].
    apply negb_true_iff in H1. cbn [existsb]. rewrite (IH H2), orb_false_r.
    destruct (zlist_eqb (tauof a) (tauof x)) eqn:E; [|reflexivity].
    assert (existsb (zlist_eqb (tauof a)) (map tauof (l1 ++ x :: l2)) = true); [|congruence].
    apply existsb_exists. exists (tauof x). split; [apply in_map; apply in_or_app; right; left; reflexivity|exact E].
  - rewrite <- app_assoc. exact H.
Qed.

Lemma tau_fold : forall xs acc, nodupb zlist_eqb (map tauof (acc ++ xs)) = true ->
  fold_left (fun l b => tau_set b l) xs acc = acc ++ xs.
Proof.
  induction xs as [|x xs IH]; intros acc H; [symmetry; apply app_nil_r|].
  destruct (nodupb_app_mid acc x xs H) as [H1 H2]. cbn [fold_left]. rewrite (tauset_fresh x acc H1), (IH _ H2), <- app_assoc. reflexivity.
Qed.

Definition tau_tb (tb : list block) : list word := b_tau (hd_block tb).

Lemma seq_taus k : forall times,
  nodupb zlist_eqb (map tau_tb times) = true ->
  Forall (fun tb => nodupb key2_eqb (map idb tb) = true /\ forall b, In b tb -> b_tau b = tau_tb tb) times ->
  nodupb zlist_eqb (map b_tau (concat (map (sel k) times))) = true.
Proof.
  induction times as [|tb ts IH]; intros Hnd Hall; [reflexivity|].
  cbn [map nodupb] in Hnd. apply andb_true_iff in Hnd as [Hn1 Hn2]. apply negb_true_iff in Hn1.
  inversion Hall as [|? ? [Hid Htau] Hall']; subst. specialize (IH Hn2 Hall').
  cbn [map concat]. destruct (sel_le1 tb k Hid) as [E|(b & E & Hin & _)]; rewrite E; [exact IH|].
  cbn [app map nodupb]. rewrite IH, andb_true_r. apply negb_true_iff.
  destruct (existsb (zlist_eqb (b_tau b)) (map b_tau (concat (map (sel k) ts)))) eqn:Ex; [|reflexivity].
  exfalso. apply existsb_exists in Ex as (t & Hin' & Heq). apply zlist_eqb_eq in Heq. subst t.
  apply in_map_iff in Hin' as (b' & Hb' & Hin'). apply in_concat in Hin' as (l & Hl & Hbl).
  apply in_map_iff in Hl as (tb' & <- & Htb'). unfold sel in Hbl. apply filter_In in Hbl as [Hbl _].
  rewrite Forall_forall in Hall'. destruct (Hall' tb' Htb') as [_ Htau'].
  assert (existsb (zlist_eqb (tau_tb tb)) (map tau_tb ts) = true); [|congruence].
  apply existsb_exists. exists (tau_tb tb'). split; [apply in_map; exact Htb'|].
  rewrite <- (Htau b Hin), <- (Htau' b' Hbl), Hb'. apply zlist_eqb_refl.
Qed.

Lemma group2_times k times :
  nodupb zlist_eqb (map tau_tb times) = true ->
  Forall (fun tb => nodupb key2_eqb (map idb tb) = true /\ forall b, In b tb -> b_tau b = tau_tb tb) times ->
  group2 k (map blk_of (concat times)) = map blk_of (concat (map (sel k) times)).
Proof.
  intros Hnd Hall. unfold group2. rewrite filter_blk. unfold sel at 1. rewrite filter_concat'. fold (sel k).
  change (map (filter (fun b => key2_eqb (idb b) k)) times) with (map (sel k) times).
  rewrite tau_fold; [reflexivity|]. cbn [app]. rewrite map_map.
  change (fun x => tauof (blk_of x)) with b_tau. apply seq_taus; assumption.
Qed.

(* ---- one variable ---------------------------------------------------------------------------------------- *)
Lemma last_prop {A} (P : A -> Prop) d : forall g, P d -> Forall P g -> P (last g d).
Proof. induction g as [|x g IH]; intros Hd H; [exact Hd|]. inversion H; subst. destruct g; [assumption|]. apply IH; assumption. Qed.

Lemma all_some_map {A B} (f : A -> option B) (g : A -> B) l :
  (forall x, In x l -> f x = Some (g x)) -> all_some (map f l) = Some (map g l).
Proof.
  induction l as [|x l IH]; intros H; [reflexivity|]. cbn [map all_some]. rewrite (H x (or_introl eq_refl)), IH; [reflexivity|].
  intros y Hy. apply H. right. exact Hy.
Qed.

Lemma var2_group T D b0 rest : wf_block b0 = true ->
  Forall (fun b => meta_eqb b b0 = true /\ wf_block b = true) rest ->
  var2 T D (map blk_of (b0 :: rest)) = Some (no_resv (var_of T D b0), map b_data (b0 :: rest)).
Proof.
  intros Hb0 Hrest.
  destruct (wf_block_lens b0 Hb0) as (_ & _ & _ & _ & _ & _ & Px & Py & Pz & Ld0).
  set (N := b_nz b0 * b_ny b0 * b_nx b0) in *.
  assert (Hall : Forall (fun b => wf_block b = true /\ b_nz b * b_ny b * b_nx b = N) (b0 :: rest)).
  { constructor; [split; [exact Hb0|reflexivity]|]. eapply Forall_impl; [|exact Hrest]. intros b [Hm Hw].
    destruct (meta_eqb_true _ _ Hm) as (_ & _ & _ & _ & _ & Hx & Hy & Hz & _). split; [exact Hw|]. unfold N. congruence. }
  assert (HN : 0 < N) by (unfold N; nia).
  unfold var2. cbn [map]. unfold blk_of at 1. cbn [fst snd hdr_of p_cat p_tid p_nx p_ny p_nz p_unit p_start].
  assert (Hlast : hdr_dims_n (fst (last (blk_of b0 :: map blk_of rest) (hdr_of b0, []))) = N).
  { apply (last_prop (fun x => hdr_dims_n (fst x) = N)); [reflexivity|].
    change (blk_of b0 :: map blk_of rest) with (map blk_of (b0 :: rest)).
    apply Forall_forall. intros x Hx. apply in_map_iff in Hx as (b & <- & Hin).
    rewrite Forall_forall in Hall. destruct (Hall b Hin) as [_ H]. exact H. }
  change (hdr_of b0, blockw b0) with (blk_of b0). rewrite Hlast.
  unfold lookup2.
  apply Z.ltb_lt in Px, Py, Pz. rewrite Px, Py, Pz. apply Z.ltb_lt in HN. rewrite HN. cbn [andb].
  change (blk_of b0 :: map blk_of rest) with (map blk_of (b0 :: rest)).
  destruct consts as (C1 & _). rewrite C1.
  assert (Hchk : forallb (fun b => (lenZ (snd b) =? Z.of_nat 55 + 2 + N) && (p_skip (fst b) =? 4 * N + 8) && (hdr_dims_n (fst b) =? N))
                   (map blk_of (b0 :: rest)) = true).
  { apply forallb_forall. intros x Hx. apply in_map_iff in Hx as (b & <- & Hin).
    rewrite Forall_forall in Hall. destruct (Hall b Hin) as [Hw Hd].
    destruct (wf_block_lens b Hw) as (_ & _ & _ & _ & _ & _ & _ & _ & _ & Ld).
    unfold blk_of, hdr_dims_n. cbn [fst snd hdr_of p_skip p_nx p_ny p_nz].
    rewrite (lenZ_blockw b Hw), Ld, Hd. rewrite !Z.eqb_refl.
    replace (57 + N =? Z.of_nat 55 + 2 + N) with true by (symmetry; apply Z.eqb_eq; lia). reflexivity. }
  rewrite Hchk. f_equal. f_equal.
  change (map (fun b : blk2 => firstn (Z.to_nat N) (skipn 56 (snd b))) (map blk_of (b0 :: rest)) = map b_data (b0 :: rest)).
  { rewrite map_map. apply map_ext_in. intros b Hin.
    rewrite Forall_forall in Hall. destruct (Hall b Hin) as [Hw Hd].
    destruct (wf_block_lens b Hw) as (_ & _ & _ & _ & _ & _ & _ & _ & _ & Ld).
    pose proof (parse_block_blockw b {| e_cat := []; e_name := TNum 0; e_n := N |} Hw ltac:(cbn [e_n]; lia)) as HP.
    apply (f_equal q_data) in HP. unfold parse_block in HP. cbn [q_data e_n] in HP. rewrite C1 in HP.
    unfold blk_of. cbn [snd]. exact HP. }
Qed.

Lemma sel_meta : forall tb t0 b0, list_eqb meta_eqb tb t0 = true -> nodupb key2_eqb (map idb t0) = true ->
  In b0 t0 -> forall b, In b (sel (idb b0) tb) -> meta_eqb b b0 = true.
Proof.
  induction tb as [|b1 tb IH]; intros [|a1 t0] b0 Hm Hnd Hin b Hb; simpl in Hm; try discriminate; [contradiction|].
  apply andb_true_iff in Hm as [Hm1 Hm2]. cbn [map nodupb] in Hnd. apply andb_true_iff in Hnd as [Hn1 Hn2].
  apply negb_true_iff in Hn1.
  destruct (meta_eqb_true _ _ Hm1) as (_ & Hc & Ht & _).
  assert (Hid1 : idb b1 = idb a1) by (unfold idb; congruence).
  rewrite sel_cons in Hb. destruct (key2_eqb (idb b1) (idb b0)) eqn:E.
  - apply key2_eqb_eq in E. destruct Hin as [->|Hin].
    + destruct Hb as [<-|Hb]; [exact Hm1|].
      exfalso. unfold sel in Hb. apply filter_In in Hb as [Hb1 Hb2]. apply key2_eqb_eq in Hb2.
      assert (existsb (key2_eqb (idb b0)) (map idb t0) = true); [|congruence].
      apply existsb_exists. exists (idb b). split; [|rewrite Hb2; apply key2_eqb_refl].
      rewrite <- (meta_ids tb t0 Hm2). apply in_map. exact Hb1.
    + exfalso. assert (existsb (key2_eqb (idb a1)) (map idb t0) = true); [|congruence].
      apply existsb_exists. exists (idb b0). split; [apply in_map; exact Hin|]. rewrite <- Hid1, E. apply key2_eqb_refl.
  - destruct Hin as [->|Hin]; [rewrite Hid1, key2_eqb_refl in E; discriminate|].
    apply (IH t0 b0 Hm2 Hn2 Hin b Hb).
Qed.

(* ---- what bpch2 presents for a well-formed file ------------------------------------------------------------ *)
Definition view2_of (T : tinfo) (D : dinfo) (f : bfile) : view2 :=
  {| s_ftype := f_ftype f; s_title := f_title f;
     s_vars := map (fun b => no_resv (var_of T D b)) (tb0 f);
     s_taus := map tau_tb (f_times f);
     s_data := map (fun b0 => map b_data (concat (map (sel (idb b0)) (f_times f)))) (tb0 f) |}.

Theorem bpch2_enc T D f : wf T D f = true ->
  impl_bpch2 T D (enc f) (4 * lenZ (enc f)) = Ok (view2_of T D f).
Proof.
  intros Hwf.
  destruct (wf_unpack T D f Hwf) as (b0 & rest0 & ts & Et & Hs & Hmeta & Hmodel & Htau & Hid & Hnd & Htd).
  destruct (shape_lens f Hs) as (L1 & L2 & Hb).
  assert (HbF : forallb (forallb wf_block) (f_times f) = true) by (rewrite <- forallb_concat; exact Hb).
  pose proof (ids_nodup T D _ Hnd) as Hids.
  assert (Htb0 : tb0 f = b0 :: rest0) by (unfold tb0; rewrite Et; reflexivity).
  rewrite forallb_forall in Hmeta, HbF, Htau.
  assert (Hall : Forall (fun tb => nodupb key2_eqb (map idb tb) = true /\ forall b, In b tb -> b_tau b = tau_tb tb) (f_times f)).
  { apply Forall_forall. intros tb Hin. split.
    - rewrite (meta_ids tb _ (Hmeta tb Hin)). exact Hids.
    - intros b Hb'. specialize (Htau tb Hin). rewrite forallb_forall in Htau. apply zlist_eqb_eq. apply Htau. exact Hb'. }
  unfold taus_distinct in Htd. change (fun tb => b_tau (hd_block tb)) with tau_tb in Htd.
  rewrite (enc_flat f Hs). unfold flat.
  destruct (flat_header (f_ftype f) (f_title f) (bodyw f) L1 L2) as (F1 & F2 & _ & _ & _ & _ & F7 & F8).
  destruct consts as (_ & C2 & _ & C4 & _ & _ & _ & _ & _ & _ & _ & _ & _ & _ & G1 & _ & _ & G4 & _).
  unfold impl_bpch2. rewrite C2, C4, G1, G4, F1, F2, F7, F8.
  assert (Hbody : bodyw f = tbw (concat (f_times f))).
  { unfold bodyw, tbw. rewrite concat_map_concat. reflexivity. }
  pose proof (lenZ_nonneg (bodyw f)) as Hnn.
  replace (4 * (34 + lenZ (bodyw f)) <? 136) with false by (symmetry; apply Z.ltb_ge; clear - Hnn; lia).
  replace (4 * (34 + lenZ (bodyw f)) - 136) with (4 * lenZ (bodyw f)) by (clear; lia).
  rewrite Hbody in F8 |- *. rewrite (walk2_blocks _ _ Hb).
  2:{ pose proof (tbw_len_ge _ Hb) as Hg. unfold lenZ in F8, Hg. clear - F8 Hg. lia. }
  rewrite Et. cbn [concat map]. 
  destruct (map blk_of ((b0 :: rest0) ++ concat ts)) as [|x0 l0] eqn:Emap; [discriminate|]. rewrite <- Emap. clear Emap x0 l0.
  change ((b0 :: rest0) ++ concat ts) with (concat ((b0 :: rest0) :: ts)).
  assert (Hids_ts : Forall (fun tb => map idb tb = map idb (b0 :: rest0)) ts).
  { apply Forall_forall. intros tb Hin. apply meta_ids. apply Hmeta. rewrite Et. right. exact Hin. }
  rewrite (keys2_times _ _ Hids Hids_ts). rewrite !map_map.
  rewrite <- Et.
  assert (Hg : forall b, In b (b0 :: rest0) ->
             var2 T D (group2 (idb b) (map blk_of (concat (f_times f))))
             = Some (no_resv (var_of T D b), map b_data (concat (map (sel (idb b)) (f_times f))))).
  { intros b Hin. rewrite (group2_times _ _ Htd Hall). rewrite Et at 1 2. cbn [map concat].
    rewrite (sel_in _ b Hids Hin). cbn [app].
    apply var2_group.
    - assert (Hw0 : forallb wf_block (b0 :: rest0) = true) by (apply HbF; rewrite Et; left; reflexivity).
      rewrite forallb_forall in Hw0. apply Hw0. exact Hin.
    - apply Forall_forall. intros x Hx. apply in_concat in Hx as (l & Hl & Hxl). apply in_map_iff in Hl as (tb & <- & Htb).
      assert (Htb' : In tb (f_times f)) by (rewrite Et; right; exact Htb). split.
      + apply (sel_meta tb (b0 :: rest0) b (Hmeta tb Htb') Hids Hin x Hxl).
      + unfold sel in Hxl. apply filter_In in Hxl as [Hxl _]. specialize (HbF tb Htb'). rewrite forallb_forall in HbF. apply HbF. exact Hxl. }
  rewrite (all_some_map _ (fun b => (no_resv (var_of T D b), map b_data (concat (map (sel (idb b)) (f_times f))))) _ Hg).
  unfold view2_of. rewrite Htb0. f_equal. f_equal.
  - rewrite map_map. reflexivity.
  - cbn [map hd]. rewrite (group2_times _ _ Htd Hall), map_map.
    change (fun x => p_tau (fst (blk_of x))) with b_tau.
    (* the first variable's blocks are the first blocks of the time blocks *)
    assert (Hfirst : forall tb, In tb (f_times f) -> sel (idb b0) tb = [hd_block tb]).
    { intros tb Hin. pose proof (meta_ids tb _ (Hmeta tb Hin)) as Hi. destruct tb as [|b' r']; [discriminate|].
      apply (f_equal (hd (idb b0))) in Hi. cbn [map hd] in Hi. rewrite <- Hi. cbn [hd_block hd].
      rewrite Forall_forall in Hall. destruct (Hall _ Hin) as [Hn _]. apply (sel_in _ b' Hn). left. reflexivity. }
    clear - Hfirst. induction (f_times f) as [|tb l IH]; [reflexivity|].
    cbn [map concat]. rewrite (Hfirst tb (or_introl eq_refl)). cbn [app map]. f_equal.
    apply IH. intros tb' Hin. apply Hfirst. right. exact Hin.
  - rewrite map_map. reflexivity.
Qed.

(* ---- agreement of the two readers ------------------------------------------------------------------------- *)
Lemma data_sel T D b0 : forall tb t0, map idb tb = map idb t0 ->
  map b_data (sel (idb b0) tb)
  = map snd (filter (fun p => var_key_eqb (fst p) (var_of T D b0)) (combine (map (var_of T D) t0) (map b_data tb))).
Proof.
  induction tb as [|b1 tb IH]; intros [|a1 t0] H; cbn [map] in H; try discriminate; [reflexivity|].
  injection H as H1c H1t H2. rewrite sel_cons. cbn [map combine filter fst].
  assert (E : var_key_eqb (var_of T D a1) (var_of T D b0) = key2_eqb (idb b1) (idb b0)).
  { unfold var_key_eqb, var_of, key2_eqb, idb. cbn [v_cat v_tid fst snd]. rewrite H1c, H1t. reflexivity. }
  rewrite E. destruct (key2_eqb (idb b1) (idb b0)); cbn [map snd]; [f_equal|]; apply IH; exact H2.
Qed.

Theorem readers_agree_enc T D f :
  wf T D f = true -> tables_ok T D = true ->
  exists v1 v2, impl_open T D (enc f) (4 * lenZ (enc f)) = Ok v1
                /\ impl_bpch2 T D (enc f) (4 * lenZ (enc f)) = Ok v2
                /\ readers_agree v1 v2.
Proof.
  intros Hwf Hok. exists (view_of T D f), (view2_of T D f).
  split; [apply read_enc; assumption|]. split; [apply bpch2_enc; assumption|].
  destruct (wf_unpack T D f Hwf) as (b0 & rest0 & ts & Et & _ & Hmeta & _).
  rewrite forallb_forall in Hmeta.
  unfold readers_agree, view_of, view2_of. cbn [s_ftype s_title s_vars s_taus s_data r_ftype r_title r_vars r_taus r_data].
  repeat split.
  - rewrite map_map. reflexivity.
  - rewrite map_map. apply map_ext. intros b. unfold data_of_var. cbn [r_vars r_data].
    rewrite concat_map, !map_map. f_equal. apply map_ext_in. intros tb Hin.
    apply data_sel. unfold tb0. rewrite Et. cbn [hd]. apply meta_ids. apply Hmeta. exact Hin.
Qed.
