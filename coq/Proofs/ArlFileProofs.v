(* Lemmas for C20's file layer (Model/ArlFile.v) and the tie-T statements over Gen/Arl.v. *)
From PNC Require Import Base.Util Model.Arl Model.ArlFile Proofs.ArlProofs.
From PNC Require Gen.Arl.
From Coq Require String.
Local Open Scope Z_scope.

(* ---- take / option monad ------------------------------------------------------------- *)
Lemma take_app n a r : length a = n -> take n (a ++ r) = Some (a, r).
Proof.
  intros <-. unfold take. rewrite app_length.
  replace (length a <=? length a + length r)%nat with true by (symmetry; apply Nat.leb_le; lia).
  rewrite firstn_app, Nat.sub_diag, firstn_all, firstn_O, app_nil_r.
  rewrite skipn_app, Nat.sub_diag, skipn_all, skipn_O. reflexivity.
Qed.

(* ---- decimal fields: finite sweeps ------------------------------------------------------ *)
Definition zrange (lo n : Z) : list Z := map (fun k => lo + Z.of_nat k) (seq 0 (Z.to_nat n)).
Lemma in_zrange lo n z : lo <= z < lo + n -> In z (zrange lo n).
Proof.
  intros H. unfold zrange. apply in_map_iff. exists (Z.to_nat (z - lo)). split; [lia|].
  apply in_seq. lia.
Qed.
Definition fmt_ok (w : nat) (z : Z) : bool :=
  Nat.eqb (length (fmtI w z)) w
  && match parseI (fmtI w z) with Some z' => z' =? z | None => false end.

Lemma sweep2 : forallb (fmt_ok 2) (zrange 0 100) = true.
Proof. vm_compute. reflexivity. Qed.
Lemma sweep3 : forallb (fmt_ok 3) (zrange (-99) 1099) = true.
Proof. vm_compute. reflexivity. Qed.
Lemma sweep4 : forallb (fmt_ok 4) (zrange (-999) 10999) = true.
Proof. vm_compute. reflexivity. Qed.

Lemma fmt_ok_spec w z : fmt_ok w z = true -> length (fmtI w z) = w /\ parseI (fmtI w z) = Some z.
Proof.
  unfold fmt_ok. intros H. apply andb_true_iff in H as [H1 H2]. apply Nat.eqb_eq in H1. split; [exact H1|].
  destruct (parseI (fmtI w z)) as [z'|]; [|discriminate]. apply Z.eqb_eq in H2. now subst.
Qed.
Lemma fmt2 z : 0 <= z <= 99 -> length (fmtI 2 z) = 2%nat /\ parseI (fmtI 2 z) = Some z.
Proof. intros H. apply fmt_ok_spec. pose proof sweep2 as S. rewrite forallb_forall in S. apply S, in_zrange. lia. Qed.
Lemma fmt3 z : -99 <= z <= 999 -> length (fmtI 3 z) = 3%nat /\ parseI (fmtI 3 z) = Some z.
Proof. intros H. apply fmt_ok_spec. pose proof sweep3 as S. rewrite forallb_forall in S. apply S, in_zrange. lia. Qed.
Lemma fmt4 z : -999 <= z <= 9999 -> length (fmtI 4 z) = 4%nat /\ parseI (fmtI 4 z) = Some z.
Proof. intros H. apply fmt_ok_spec. pose proof sweep4 as S. rewrite forallb_forall in S. apply S, in_zrange. lia. Qed.

Lemma takeI_fmt w z r :
  length (fmtI w z) = w -> parseI (fmtI w z) = Some z -> takeI w (fmtI w z ++ r) = Some (z, r).
Proof. intros Hl Hp. unfold takeI. rewrite (take_app w _ r Hl). cbn [obind]. rewrite Hp. reflexivity. Qed.
Lemma takeI2 z r : 0 <= z <= 99 -> takeI 2 (fmtI 2 z ++ r) = Some (z, r).
Proof. intros H. destruct (fmt2 z H). now apply takeI_fmt. Qed.
Lemma takeI3 z r : -99 <= z <= 999 -> takeI 3 (fmtI 3 z ++ r) = Some (z, r).
Proof. intros H. destruct (fmt3 z H). now apply takeI_fmt. Qed.
Lemma takeI4 z r : -999 <= z <= 9999 -> takeI 4 (fmtI 4 z ++ r) = Some (z, r).
Proof. intros H. destruct (fmt4 z H). now apply takeI_fmt. Qed.

Lemma zlist_eqb_refl l : zlist_eqb l l = true.
Proof. apply (list_eqb_eq Z.eqb Z.eqb_eq). reflexivity. Qed.

Lemma len_is_eq {A} n (l : list A) : len_is n l = true -> length l = n.
Proof. unfold len_is. apply Nat.eqb_eq. Qed.

(* ---- table ---------------------------------------------------------------------------- *)
Definition ent (v : var_t) : list Z * Z := (v_key v, v_ck v).
Definition lent (l : lvl_t) : list Z * list (list Z * Z) := (l_text l, map ent (l_vars l)).

Lemma wf_var_parts nc v : wf_var nc v = true ->
  length (v_key v) = 4%nat /\ -99 <= v_ck v <= 999 /\ -999 <= v_exp v <= 9999
  /\ length (v_prec v) = 14%nat /\ length (v_var1 v) = 14%nat /\ lenZ (v_data v) = nc.
Proof.
  unfold wf_var. intros H. repeat (apply andb_true_iff in H as [H ?]).
  repeat match goal with X : len_is _ _ = true |- _ => apply len_is_eq in X end.
  repeat split; try assumption; lia.
Qed.

Lemma dec_var_entry_enc nc v r : wf_var nc v = true ->
  dec_var_entry (enc_var_entry v ++ r) = Some (ent v, r).
Proof.
  intros H. destruct (wf_var_parts _ _ H) as (Hk & Hc & _).
  unfold dec_var_entry, enc_var_entry. rewrite <- !app_assoc.
  rewrite (take_app 4 _ _ Hk). cbn [obind]. rewrite takeI3 by lia. cbn [obind].
  change ([32] ++ r) with (32 :: r). reflexivity.
Qed.

Lemma dec_var_entries_enc nc vs : forall r, forallb (wf_var nc) vs = true ->
  dec_var_entries (length vs) (concat (map enc_var_entry vs) ++ r) = Some (map ent vs, r).
Proof.
  induction vs as [|v vs IH]; intros r H; cbn [length map concat dec_var_entries app]; [reflexivity|].
  cbn [forallb] in H. apply andb_true_iff in H as [H1 H2].
  rewrite <- app_assoc, (dec_var_entry_enc nc v _ H1). cbn [obind]. rewrite (IH r H2). reflexivity.
Qed.

Lemma wf_lvl_parts nc l : wf_lvl nc l = true ->
  length (l_text l) = 6%nat /\ 0 <= nvars l <= 99 /\ forallb (wf_var nc) (l_vars l) = true.
Proof.
  unfold wf_lvl. intros H. repeat (apply andb_true_iff in H as [H ?]). apply len_is_eq in H.
  unfold nvars, lenZ in *. repeat split; try assumption; lia.
Qed.

Lemma dec_lvl_entry_enc nc l r : wf_lvl nc l = true ->
  dec_lvl_entry (enc_lvl_entry l ++ r) = Some (lent l, r).
Proof.
  intros H. destruct (wf_lvl_parts _ _ H) as (Ht & Hn & Hv).
  unfold dec_lvl_entry, enc_lvl_entry. rewrite <- !app_assoc.
  rewrite (take_app 6 _ _ Ht). cbn [obind]. rewrite takeI2 by lia. cbn [obind].
  replace (0 <=? nvars l) with true by (symmetry; apply Z.leb_le; lia). cbn [guard obind].
  unfold nvars, lenZ. rewrite Nat2Z.id. rewrite (dec_var_entries_enc nc _ r Hv). reflexivity.
Qed.

Lemma dec_table_enc nc ls : forall r, forallb (wf_lvl nc) ls = true ->
  dec_table (length ls) (enc_table ls ++ r) = Some (map lent ls, r).
Proof.
  unfold enc_table.
  induction ls as [|l ls IH]; intros r H; cbn [length map concat dec_table app]; [reflexivity|].
  cbn [forallb] in H. apply andb_true_iff in H as [H1 H2].
  rewrite <- app_assoc, (dec_lvl_entry_enc nc l _ H1). cbn [obind]. rewrite (IH r H2). reflexivity.
Qed.

Lemma tbl_len_lent ls : tbl_len (map lent ls) = table_len ls.
Proof.
  unfold tbl_len, table_len. rewrite map_map. f_equal. apply map_ext. intros l.
  unfold lent, nvars, lenZ. cbn [snd]. now rewrite map_length.
Qed.

(* ---- data records ----------------------------------------------------------------------- *)
Lemma dec_rec_enc time grid li nc v r :
  length time = 10%nat -> length grid = 2%nat -> 0 <= li <= 99 -> 0 <= nc -> wf_var nc v = true ->
  dec_rec time grid li nc (ent v) (enc_rec time grid li v ++ r) = Some (v, r).
Proof.
  intros Ht Hg Hl Hnc H. destruct (wf_var_parts _ _ H) as (Hk & Hc & He & Hp & H1 & Hd).
  unfold dec_rec, enc_rec. rewrite <- !app_assoc.
  rewrite (take_app 10 _ _ Ht). cbn [obind]. rewrite zlist_eqb_refl. cbn [guard obind].
  rewrite takeI2 by lia. cbn [obind]. rewrite Z.eqb_refl. cbn [guard obind].
  rewrite (take_app 2 _ _ Hg). cbn [obind]. rewrite zlist_eqb_refl. cbn [guard obind].
  rewrite (take_app 4 _ _ Hk). cbn [obind]. cbn [ent fst snd]. rewrite zlist_eqb_refl. cbn [guard obind].
  rewrite takeI4 by lia. cbn [obind].
  rewrite (take_app 14 _ _ Hp). cbn [obind]. rewrite (take_app 14 _ _ H1). cbn [obind].
  rewrite (take_app (Z.to_nat nc) (v_data v) r) by (unfold lenZ in Hd; lia). cbn [obind].
  destruct v; reflexivity.
Qed.

Lemma dec_recs_enc time grid li nc vs : forall r,
  length time = 10%nat -> length grid = 2%nat -> 0 <= li <= 99 -> 0 <= nc ->
  forallb (wf_var nc) vs = true ->
  dec_recs time grid li nc (map ent vs) (enc_recs time grid li vs ++ r) = Some (vs, r).
Proof.
  unfold enc_recs.
  induction vs as [|v vs IH]; intros r Ht Hg Hl Hnc H; cbn [map concat dec_recs app]; [reflexivity|].
  cbn [forallb] in H. apply andb_true_iff in H as [H1 H2].
  rewrite <- app_assoc, (dec_rec_enc time grid li nc v _ Ht Hg Hl Hnc H1). cbn [obind].
  rewrite (IH r Ht Hg Hl Hnc H2). reflexivity.
Qed.

Lemma dec_lvls_enc time grid nc ls : forall li r,
  length time = 10%nat -> length grid = 2%nat -> 0 <= li -> li + lenZ ls <= 100 -> 0 <= nc ->
  forallb (wf_lvl nc) ls = true ->
  dec_lvls time grid li nc (map lent ls) (enc_lvls time grid li ls ++ r) = Some (ls, r).
Proof.
  induction ls as [|l ls IH]; intros li r Ht Hg Hl0 Hl1 Hnc H; cbn [map enc_lvls dec_lvls app]; [reflexivity|].
  cbn [forallb] in H. apply andb_true_iff in H as [H1 H2].
  destruct (wf_lvl_parts _ _ H1) as (_ & _ & Hv).
  unfold lenZ in Hl1. cbn [length] in Hl1.
  unfold lent at 1. rewrite <- app_assoc.
  rewrite (dec_recs_enc time grid li nc _ _ Ht Hg) by (try assumption; lia). cbn [obind].
  rewrite (IH (li + 1) r Ht Hg) by (try assumption; unfold lenZ; lia). cbn [obind].
  destruct l; reflexivity.
Qed.

(* ---- one period -------------------------------------------------------------------------- *)
Lemma wf_period_parts p : wf_period p = true ->
  length (p_time p) = 10%nat /\ length (p_grid p) = 2%nat /\ length (p_fixed p) = 93%nat
  /\ length (p_vsys2 p) = 2%nat /\ 0 <= p_nx p <= 26999 /\ 0 <= p_ny p <= 26999
  /\ lenZ (p_levels p) <= 99 /\ lenh p <= 9999 /\ lenh p <= ncell p
  /\ lenZ (p_pad p) = ncell p - lenh p /\ forallb (wf_lvl (ncell p)) (p_levels p) = true.
Proof.
  unfold wf_period. intros H. repeat (apply andb_true_iff in H as [H ?]).
  repeat match goal with X : len_is _ _ = true |- _ => apply len_is_eq in X end.
  repeat split; try assumption; lia.
Qed.

Lemma wf_grid p : wf_period p = true ->
  p_nx p mod 1000 + grid_thousands (nth 0 (p_grid p) 0) = p_nx p
  /\ p_ny p mod 1000 + grid_thousands (nth 1 (p_grid p) 0) = p_ny p
  /\ 0 <= p_nx p mod 1000 <= 999 /\ 0 <= p_ny p mod 1000 <= 999.
Proof.
  unfold wf_period. intros H. repeat (apply andb_true_iff in H as [H ?]).
  match goal with X : grid_ok p = true |- _ => unfold grid_ok in X; apply andb_true_iff in X as [G0 G1] end.
  apply Z.eqb_eq in G0. apply Z.eqb_eq in G1.
  pose proof (Z.div_mod (p_nx p) 1000 ltac:(lia)). pose proof (Z.div_mod (p_ny p) 1000 ltac:(lia)).
  pose proof (Z.mod_pos_bound (p_nx p) 1000 ltac:(lia)). pose proof (Z.mod_pos_bound (p_ny p) 1000 ltac:(lia)).
  repeat split; lia.
Qed.

Lemma table_len_nonneg ls : 0 <= table_len ls.
Proof.
  unfold table_len. induction ls as [|l ls IH]; cbn [map sumZ]; [lia|].
  assert (0 <= nvars l) by (unfold nvars, lenZ; lia). lia.
Qed.

Lemma dec_period_enc p r : wf_period p = true -> dec_period (enc_period p ++ r) = Some (p, r).
Proof.
  intros H. destruct (wf_period_parts p H) as (Ht & Hg & Hf & Hv & Hx & Hy & Hz & Hh & Hfit & Hpad & Hl).
  pose proof (table_len_nonneg (p_levels p)) as Htl.
  assert (Hlh : 108 <= lenh p) by (unfold lenh; lia).
  destruct (wf_grid p H) as (Gx & Gy & Mx & My).
  unfold dec_period, enc_period, enc_index. rewrite <- !app_assoc.
  rewrite (take_app 10 _ _ Ht). cbn [obind]. rewrite takeI2 by lia. cbn [obind].
  rewrite (take_app 2 _ _ Hg). cbn [obind].
  rewrite (take_app 4 indx _ eq_refl). cbn [obind]. rewrite zlist_eqb_refl. cbn [guard obind].
  rewrite !app_assoc.
  rewrite <- (app_assoc (fmtI 4 0) zero_e14), <- (app_assoc (fmtI 4 0 ++ zero_e14) zero_e14).
  rewrite <- !app_assoc.
  change (fmtI 4 0 ++ zero_e14 ++ zero_e14 ++ ?x) with ((fmtI 4 0 ++ zero_e14 ++ zero_e14) ++ x).
  rewrite (take_app 32 (fmtI 4 0 ++ zero_e14 ++ zero_e14) _ eq_refl). cbn [obind].
  rewrite (take_app 93 _ _ Hf). cbn [obind].
  rewrite takeI3 by lia. cbn [obind]. rewrite takeI3 by lia. cbn [obind].
  rewrite takeI3 by (unfold lenZ in *; lia). cbn [obind].
  rewrite (take_app 2 _ _ Hv). cbn [obind]. rewrite takeI4 by lia. cbn [obind].
  replace ((0 <=? lenZ (p_levels p)) && (0 <=? p_nx p mod 1000) && (0 <=? p_ny p mod 1000)) with true
    by (symmetry; unfold lenZ; rewrite !andb_true_iff, !Z.leb_le; lia).
  cbn [guard obind]. cbv zeta. rewrite Gx, Gy. unfold lenZ at 1. rewrite Nat2Z.id.
  rewrite (dec_table_enc (ncell p) _ _ Hl). cbn [obind].
  rewrite tbl_len_lent. fold (lenh p). fold (ncell p).
  replace ((lenh p =? lenh p) && (lenh p <=? ncell p)) with true
    by (symmetry; rewrite andb_true_iff, Z.eqb_eq, Z.leb_le; lia).
  cbn [guard obind].
  rewrite (take_app (Z.to_nat (ncell p - lenh p)) (p_pad p)) by (unfold lenZ in Hpad; lia). cbn [obind].
  rewrite (dec_lvls_enc (p_time p) (p_grid p) (ncell p) (p_levels p) 0 r Ht Hg)
    by (try assumption; unfold ncell; try lia; nia).
  cbn [obind]. destruct p; reflexivity.
Qed.

Lemma enc_period_nonempty p r : wf_period p = true -> enc_period p ++ r <> [].
Proof.
  intros H. destruct (wf_period_parts p H) as (Ht & _).
  unfold enc_period, enc_index. destruct (p_time p); [discriminate|]. cbn. discriminate.
Qed.

Lemma dec_periods_enc ps : forall fuel, (length ps <= fuel)%nat ->
  forallb wf_period ps = true -> dec_periods fuel (enc ps) = Some ps.
Proof.
  unfold enc. induction ps as [|p ps IH]; intros fuel Hf H; cbn [map concat].
  - destruct fuel; reflexivity.
  - cbn [forallb] in H. apply andb_true_iff in H as [H1 H2].
    destruct fuel as [|fuel]; [cbn in Hf; lia|].
    pose proof (enc_period_nonempty p (concat (map enc_period ps)) H1) as Hne.
    cbn [dec_periods].
    destruct (enc_period p ++ concat (map enc_period ps)) as [|b bs] eqn:E; [congruence|].
    rewrite <- E. rewrite (dec_period_enc p _ H1). cbn [obind].
    rewrite (IH fuel) by (cbn in Hf; try assumption; lia). reflexivity.
Qed.

Lemma enc_period_length_pos p : wf_period p = true -> (1 <= length (enc_period p))%nat.
Proof.
  intros H. pose proof (enc_period_nonempty p [] H) as Hne. rewrite app_nil_r in Hne.
  destruct (enc_period p); [congruence|cbn; lia].
Qed.

Lemma enc_length_ge ps : forallb wf_period ps = true -> (length ps <= length (enc ps))%nat.
Proof.
  unfold enc. induction ps as [|p ps IH]; intros H; cbn [map concat length]; [lia|].
  cbn [forallb] in H. apply andb_true_iff in H as [H1 H2].
  rewrite app_length. pose proof (enc_period_length_pos p H1). specialize (IH H2). lia.
Qed.

(* (a) the reference decoder inverts the reference encoder, any number of periods / levels /
   variables per level *)
Lemma dec_enc ps : forallb wf_period ps = true -> dec (enc ps) = Some ps.
Proof. intros H. unfold dec. apply dec_periods_enc; [apply enc_length_ge; exact H|exact H]. Qed.

(* ---- layout: records of equal length ----------------------------------------------------- *)
Fixpoint lvl_records (time grid : list Z) (li : Z) (ls : list lvl_t) : list (list Z) :=
  match ls with
  | [] => []
  | l :: t => map (enc_rec time grid li) (l_vars l) ++ lvl_records time grid (li + 1) t
  end.
Definition period_records (p : period_t) : list (list Z) :=
  enc_index p :: lvl_records (p_time p) (p_grid p) 0 (p_levels p).

Lemma enc_lvls_records time grid ls : forall li,
  enc_lvls time grid li ls = concat (lvl_records time grid li ls).
Proof.
  induction ls as [|l ls IH]; intros li; cbn [enc_lvls lvl_records]; [reflexivity|].
  rewrite concat_app, IH. reflexivity.
Qed.
Lemma enc_period_records p : enc_period p = concat (period_records p).
Proof. unfold enc_period, period_records. cbn [concat]. now rewrite enc_lvls_records. Qed.

Lemma sumZ_app a b : sumZ (a ++ b) = sumZ a + sumZ b.
Proof. induction a as [|x a IH]; cbn [app sumZ]; lia. Qed.

Lemma length_concat_map {A} (f : A -> list Z) (l : list A) :
  lenZ (concat (map f l)) = sumZ (map (fun x => lenZ (f x)) l).
Proof.
  unfold lenZ. induction l as [|x l IH]; cbn [map concat sumZ length]; [reflexivity|].
  rewrite app_length, Nat2Z.inj_add, IH. reflexivity.
Qed.

Lemma enc_var_entry_len nc v : wf_var nc v = true -> lenZ (enc_var_entry v) = 8.
Proof.
  intros H. destruct (wf_var_parts _ _ H) as (Hk & Hc & _). destruct (fmt3 (v_ck v) Hc) as [L _].
  unfold lenZ, enc_var_entry. rewrite !app_length, Hk, L. reflexivity.
Qed.
Lemma enc_lvl_entry_len nc l : wf_lvl nc l = true -> lenZ (enc_lvl_entry l) = 8 + 8 * nvars l.
Proof.
  intros H. destruct (wf_lvl_parts _ _ H) as (Ht & Hn & Hv). destruct (fmt2 (nvars l) Hn) as [L _].
  unfold enc_lvl_entry. unfold lenZ at 1. rewrite !app_length, Ht, L, !Nat2Z.inj_add.
  fold (lenZ (concat (map enc_var_entry (l_vars l)))). rewrite length_concat_map.
  assert (E : sumZ (map (fun x => lenZ (enc_var_entry x)) (l_vars l)) = 8 * nvars l).
  { unfold nvars, lenZ at 2. induction (l_vars l) as [|v vs IH]; cbn [map sumZ length forallb] in *; [reflexivity|].
    apply andb_true_iff in Hv as [Hv1 Hv2]. rewrite (enc_var_entry_len nc v Hv1), IH by assumption. lia. }
  rewrite E. lia.
Qed.
Lemma enc_table_len nc ls : forallb (wf_lvl nc) ls = true -> lenZ (enc_table ls) = table_len ls.
Proof.
  intros H. unfold enc_table, table_len. rewrite length_concat_map.
  induction ls as [|l ls IH]; cbn [map sumZ forallb] in *; [reflexivity|].
  apply andb_true_iff in H as [H1 H2]. rewrite (enc_lvl_entry_len nc l H1), IH by assumption. reflexivity.
Qed.

Lemma enc_index_len p : wf_period p = true -> lenZ (enc_index p) = recl p.
Proof.
  intros H. destruct (wf_period_parts p H) as (Ht & Hg & Hf & Hv & Hx & Hy & Hz & Hh & Hfit & Hpad & Hl).
  pose proof (table_len_nonneg (p_levels p)) as Htl.
  destruct (fmt2 0 ltac:(lia)) as [L0 _]. destruct (fmt4 0 ltac:(lia)) as [L1 _].
  destruct (wf_grid p H) as (_ & _ & Mx & My).
  destruct (fmt3 (p_nx p mod 1000) ltac:(lia)) as [L2 _]. destruct (fmt3 (p_ny p mod 1000) ltac:(lia)) as [L3 _].
  destruct (fmt3 (lenZ (p_levels p)) ltac:(unfold lenZ in *; lia)) as [L4 _].
  destruct (fmt4 (lenh p) ltac:(unfold lenh in *; lia)) as [L5 _].
  pose proof (enc_table_len _ _ Hl) as Lt.
  unfold enc_index. unfold lenZ in *. rewrite !app_length, !Nat2Z.inj_add.
  rewrite Ht, L0, Hg, L1, Hf, L2, L3, L4, Hv, L5, Lt, Hpad. cbn [length indx zero_e14].
  unfold recl, lenh. lia.
Qed.
Lemma enc_rec_len time grid li nc v :
  length time = 10%nat -> length grid = 2%nat -> 0 <= li <= 99 -> wf_var nc v = true ->
  lenZ (enc_rec time grid li v) = 50 + nc.
Proof.
  intros Ht Hg Hl H. destruct (wf_var_parts _ _ H) as (Hk & Hc & He & Hp & H1 & Hd).
  destruct (fmt2 li Hl) as [L0 _]. destruct (fmt4 (v_exp v) He) as [L1 _].
  unfold enc_rec. unfold lenZ in *. rewrite !app_length, !Nat2Z.inj_add.
  rewrite Ht, L0, Hg, Hk, L1, Hp, H1, Hd. lia.
Qed.

Lemma lvl_records_len time grid nc ls : forall li,
  length time = 10%nat -> length grid = 2%nat -> 0 <= li -> li + lenZ ls <= 100 ->
  forallb (wf_lvl nc) ls = true ->
  Forall (fun r => lenZ r = 50 + nc) (lvl_records time grid li ls)
  /\ lenZ (lvl_records time grid li ls) = nrecs ls.
Proof.
  induction ls as [|l ls IH]; intros li Ht Hg H0 H1 H; cbn [lvl_records].
  - split; [constructor|reflexivity].
  - cbn [forallb] in H. apply andb_true_iff in H as [Ha Hb].
    destruct (wf_lvl_parts _ _ Ha) as (_ & _ & Hv).
    unfold lenZ in H1. cbn [length] in H1.
    destruct (IH (li + 1) Ht Hg) as [F L]; [lia|unfold lenZ; lia|assumption|].
    split.
    + apply Forall_app. split; [|exact F].
      apply Forall_forall. intros r Hin. apply in_map_iff in Hin as (v & <- & Hin).
      rewrite forallb_forall in Hv. apply (enc_rec_len time grid li nc v Ht Hg); [lia|apply Hv, Hin].
    + unfold lenZ in *. rewrite app_length, map_length, Nat2Z.inj_add, L.
      unfold nrecs, nvars, lenZ. cbn [map sumZ]. reflexivity.
Qed.

Lemma period_records_len p : wf_period p = true ->
  Forall (fun r => lenZ r = recl p) (period_records p)
  /\ lenZ (period_records p) = 1 + nrecs (p_levels p).
Proof.
  intros H. destruct (wf_period_parts p H) as (Ht & Hg & Hf & Hv & Hx & Hy & Hz & Hh & Hfit & Hpad & Hl).
  destruct (lvl_records_len (p_time p) (p_grid p) (ncell p) (p_levels p) 0 Ht Hg) as [F L];
    [lia|lia|assumption|].
  unfold period_records. split.
  - constructor; [apply enc_index_len, H|exact F].
  - unfold lenZ in *. cbn [length]. rewrite Nat2Z.inj_succ, L. lia.
Qed.

(* k-th block of a concatenation of blocks of equal length *)
Lemma slice_concat_uniform (n : nat) (rs : list (list Z)) : forall k,
  Forall (fun r => length r = n) rs -> (k < length rs)%nat ->
  firstn n (skipn (k * n) (concat rs)) = nth k rs [].
Proof.
  induction rs as [|r rs IH]; intros k F Hk; [cbn in Hk; lia|].
  inversion F as [|? ? Hr Frs]; subst. cbn [concat]. destruct k as [|k].
  - cbn [Nat.mul skipn nth]. rewrite firstn_app, Nat.sub_diag, firstn_all, firstn_O, app_nil_r. reflexivity.
  - cbn [nth]. replace (S k * length r)%nat with (length r + k * length r)%nat by lia.
    rewrite skipn_app. rewrite skipn_all2 by lia. cbn [app].
    replace (length r + k * length r - length r)%nat with (k * length r)%nat by lia.
    apply IH; [exact Frs|cbn in Hk; lia].
Qed.

Lemma length_concat_uniform {A} (m : nat) (ls : list (list A)) :
  Forall (fun l => length l = m) ls -> length (concat ls) = (length ls * m)%nat.
Proof.
  induction 1 as [|l ls Hl _ IH]; cbn [concat length]; [reflexivity|]. rewrite app_length, IH, Hl. lia.
Qed.

Lemma nth_concat_uniform {A} (m : nat) (d : A) (ls : list (list A)) : forall t j,
  Forall (fun l => length l = m) ls -> (t < length ls)%nat -> (j < m)%nat ->
  nth (t * m + j) (concat ls) d = nth j (nth t ls []) d.
Proof.
  induction ls as [|l ls IH]; intros t j F Ht Hj; [cbn in Ht; lia|].
  inversion F as [|? ? Hl Fls]; subst. cbn [concat]. destruct t as [|t].
  - cbn [Nat.mul Nat.add nth]. apply app_nth1. lia.
  - cbn [nth]. rewrite app_nth2 by lia.
    replace (S t * length l + j - length l)%nat with (t * length l + j)%nat by lia.
    apply IH; [exact Fls|cbn in Ht; lia|exact Hj].
Qed.

Lemma nrecs_nonneg ls : 0 <= nrecs ls.
Proof.
  unfold nrecs. induction ls as [|x xs IH]; cbn [map sumZ]; [lia|].
  assert (0 <= nvars x) by (unfold nvars, lenZ; lia). lia.
Qed.

Lemma nth_lvl_records time grid ls : forall li l0 vi (lidx : nat),
  (lidx < length ls)%nat -> (vi < length (l_vars (nth lidx ls l0)))%nat ->
  nth (Z.to_nat (nrecs (firstn lidx ls)) + vi) (lvl_records time grid li ls) []
  = enc_rec time grid (li + Z.of_nat lidx) (nth vi (l_vars (nth lidx ls l0)) (Var [] 0 0 [] [] [])).
Proof.
  induction ls as [|l ls IH]; intros li l0 vi lidx Hl Hv; [cbn in Hl; lia|].
  cbn [lvl_records]. destruct lidx as [|lidx].
  - cbn [firstn nrecs map sumZ nth] in *. change (Z.to_nat 0) with 0%nat. cbn [Nat.add].
    rewrite app_nth1 by (rewrite map_length; exact Hv).
    rewrite Z.add_0_r.
    rewrite (nth_indep _ [] (enc_rec time grid li (Var [] 0 0 [] [] []))) by (rewrite map_length; exact Hv).
    apply map_nth.
  - cbn [firstn nth] in *. unfold nrecs in *. cbn [map sumZ].
    assert (Hnn : 0 <= sumZ (map nvars (firstn lidx ls))) by apply (nrecs_nonneg (firstn lidx ls)).
    assert (Hnl : nvars l = Z.of_nat (length (l_vars l))) by reflexivity.
    rewrite app_nth2 by (rewrite map_length; lia).
    rewrite map_length.
    replace (Z.to_nat (nvars l + sumZ (map nvars (firstn lidx ls))) + vi - length (l_vars l))%nat
      with (Z.to_nat (sumZ (map nvars (firstn lidx ls))) + vi)%nat by lia.
    rewrite (IH (li + 1) l0 vi lidx) by (cbn in Hl; try assumption; lia).
    f_equal. lia.
Qed.

Definition file_records (ps : list period_t) : list (list Z) := concat (map period_records ps).
Lemma enc_file_records ps : enc ps = concat (file_records ps).
Proof.
  unfold enc, file_records. induction ps as [|p ps IH]; cbn [map concat]; [reflexivity|].
  rewrite concat_app, <- IH, enc_period_records. reflexivity.
Qed.

Lemma same_layout_parts p q : same_layout p q = true ->
  p_nx q = p_nx p /\ p_ny q = p_ny p /\ nrecs (p_levels q) = nrecs (p_levels p)
  /\ length (p_levels q) = length (p_levels p).
Proof.
  unfold same_layout. intros H. apply andb_true_iff in H as [H H3]. apply andb_true_iff in H as [H1 H2].
  apply Z.eqb_eq in H1. apply Z.eqb_eq in H2. repeat split; try congruence.
  - unfold nrecs. revert H3. generalize (p_levels q). induction (p_levels p) as [|a la IH]; intros [|b lb] E;
      cbn [list_eqb map sumZ] in *; try discriminate; [reflexivity|].
    apply andb_true_iff in E as [E1 E2]. apply Nat.eqb_eq in E1. rewrite (IH lb E2).
    unfold nvars, lenZ. lia.
  - revert H3. generalize (p_levels q). induction (p_levels p) as [|a la IH]; intros [|b lb] E;
      cbn [list_eqb length] in *; try discriminate; [reflexivity|].
    apply andb_true_iff in E as [_ E2]. now rewrite (IH lb E2).
Qed.


Lemma nrecs_firstn_lt ls : forall (lidx vi : nat) l0, (lidx < length ls)%nat ->
  (vi < length (l_vars (nth lidx ls l0)))%nat ->
  nrecs (firstn lidx ls) + Z.of_nat vi < nrecs ls.
Proof.
  induction ls as [|l ls IH]; intros lidx vi l0 Hl Hv; [cbn in Hl; lia|].
  destruct lidx as [|lidx]; cbn [firstn nth] in *; unfold nrecs in *; cbn [map sumZ].
  - pose proof (nrecs_nonneg ls) as N. unfold nrecs in N.
    assert (Hnl : nvars l = Z.of_nat (length (l_vars l))) by reflexivity. lia.
  - specialize (IH lidx vi l0 ltac:(cbn in Hl; lia) Hv). lia.
Qed.

(* (b) the bytes at the spec position of (time t, level li, variable vi) are that variable's
   record, for every uniform well-formed content *)
Lemma record_at_spec_offset p0 ps t li vi :
  forallb wf_period (p0 :: ps) = true -> forallb (same_layout p0) ps = true ->
  (t < length (p0 :: ps))%nat ->
  let p := nth t (p0 :: ps) p0 in
  (li < length (p_levels p))%nat ->
  (vi < length (l_vars (nth li (p_levels p) (Lvl [] []))))%nat ->
  slice (spec_offset p0 t li vi) (recl p0) (enc (p0 :: ps))
  = enc_rec (p_time p) (p_grid p) (Z.of_nat li)
      (nth vi (l_vars (nth li (p_levels p) (Lvl [] []))) (Var [] 0 0 [] [] [])).
Proof.
  intros Hwf Hsl Ht p Hli Hvi.
  set (all := p0 :: ps) in *.
  assert (Hsame : Forall (fun q => same_layout p0 q = true) all).
  { constructor.
    - unfold same_layout. rewrite !Z.eqb_refl. cbn [andb].
      induction (p_levels p0) as [|a la IH]; cbn [list_eqb]; [reflexivity|]. now rewrite Nat.eqb_refl.
    - apply Forall_forall. rewrite forallb_forall in Hsl. exact Hsl. }
  assert (Hwfall : Forall (fun q => wf_period q = true) all).
  { apply Forall_forall. rewrite forallb_forall in Hwf. exact Hwf. }
  set (m := Z.to_nat (1 + nrecs (p_levels p0))).
  set (n := Z.to_nat (recl p0)).
  pose proof (nrecs_nonneg (p_levels p0)) as Hn0.
  assert (Hrecl0 : 0 <= recl p0).
  { inversion Hwfall as [|? ? W _]; subst. destruct (wf_period_parts p0 W) as (_&_&_&_&Hx&Hy&_).
    unfold recl, ncell. nia. }
  (* every period has m records, every record n bytes *)
  assert (Hper : Forall (fun l => length l = m) (map period_records all)).
  { apply Forall_forall. intros l Hin. apply in_map_iff in Hin as (q & <- & Hin).
    rewrite Forall_forall in Hsame, Hwfall.
    destruct (period_records_len q (Hwfall q Hin)) as [_ L].
    destruct (same_layout_parts p0 q (Hsame q Hin)) as (_ & _ & E & _).
    unfold m, lenZ in *. rewrite <- E. lia. }
  assert (Hrec : Forall (fun r => length r = n) (file_records all)).
  { unfold file_records. apply Forall_concat. apply Forall_forall. intros l Hin.
    apply in_map_iff in Hin as (q & <- & Hin).
    rewrite Forall_forall in Hsame, Hwfall.
    destruct (period_records_len q (Hwfall q Hin)) as [F _].
    destruct (same_layout_parts p0 q (Hsame q Hin)) as (E1 & E2 & _).
    eapply Forall_impl; [|exact F]. intros r Hr. cbn beta in Hr.
    unfold n, recl, ncell, lenZ in *. rewrite E1, E2 in Hr. lia. }
  assert (Hp_in : In p all) by (apply nth_In; exact Ht).
  assert (Hwp : wf_period p = true) by (rewrite Forall_forall in Hwfall; apply Hwfall, Hp_in).
  destruct (same_layout_parts p0 p ltac:(rewrite Forall_forall in Hsame; apply Hsame, Hp_in)) as (E1 & E2 & E3 & E4).
  pose proof (nrecs_firstn_lt (p_levels p) li vi (Lvl [] []) Hli Hvi) as Hlt.
  pose proof (nrecs_nonneg (firstn li (p_levels p))) as Hf0.
  set (j := S (Z.to_nat (nrecs (firstn li (p_levels p))) + vi)).
  assert (Hj : (j < m)%nat) by (unfold j, m; lia).
  (* the offset is (t*m + j) * n *)
  assert (Hoff : Z.to_nat (spec_offset p0 t li vi) = ((t * m + j) * n)%nat).
  { unfold spec_offset, period_len, rec_index, j, m, n.
    assert (Ef : nrecs (firstn li (p_levels p0)) = nrecs (firstn li (p_levels p))).
    { clear - Hsame Hp_in. rewrite Forall_forall in Hsame. specialize (Hsame p Hp_in).
      unfold same_layout in Hsame. apply andb_true_iff in Hsame as [_ H3].
      unfold nrecs. revert li H3. generalize (p_levels p).
      induction (p_levels p0) as [|a la IH]; intros [|b lb] li E; cbn [list_eqb] in *; try discriminate.
      - destruct li; reflexivity.
      - apply andb_true_iff in E as [Ea Eb]. apply Nat.eqb_eq in Ea.
        destruct li; cbn [firstn map sumZ]; [reflexivity|]. rewrite (IH lb li Eb). unfold nvars, lenZ. lia. }
    rewrite Ef. nia. }
  unfold slice. rewrite Hoff. fold n. rewrite enc_file_records.
  rewrite (slice_concat_uniform n (file_records all) (t * m + j) Hrec).
  2:{ unfold file_records. rewrite (length_concat_uniform m _ Hper), map_length. nia. }
  unfold file_records.
  rewrite (nth_concat_uniform m [] (map period_records all) t j Hper) by (try rewrite map_length; assumption).
  rewrite (nth_indep _ [] (period_records p0)) by (rewrite map_length; exact Ht).
  rewrite map_nth. fold p. unfold period_records, j. cbn [nth].
  rewrite (nth_lvl_records (p_time p) (p_grid p) (p_levels p) 0 (Lvl [] []) vi li Hli Hvi).
  rewrite Z.add_0_l. reflexivity.
Qed.

(* the library's record offset (memmap dtype arithmetic) is the spec position *)
Lemma lib_offset_is_spec_offset p0 t li vi :
  lib_offset std_sizes (ncell p0) (lenh p0) (nrecs (p_levels p0)) t
    (rec_index (p_levels p0) li vi - 1) = spec_offset p0 t li vi.
Proof.
  unfold lib_offset, spec_offset, period_len, recl, std_sizes. cbn [ls_thd ls_vhd]. ring.
Qed.

(* ---- (c) fields of a spec-encoded file --------------------------------------------------- *)
Lemma chunks_concat (n : nat) (bs : list (list Z)) : forall fuel,
  (0 < n)%nat -> Forall (fun r => length r = n) bs -> (length bs <= fuel)%nat ->
  chunks fuel n (concat bs) = bs.
Proof.
  induction bs as [|b bs IH]; intros fuel Hn F Hf.
  - destruct fuel; reflexivity.
  - inversion F as [|? ? Hb Fbs]; subst. destruct fuel as [|fuel]; [cbn in Hf; lia|].
    cbn [concat chunks].
    destruct (b ++ concat bs) as [|x xs] eqn:E.
    { destruct b; [cbn in Hn; lia|discriminate]. }
    rewrite <- E. rewrite firstn_app, Nat.sub_diag, firstn_all, firstn_O, app_nil_r.
    rewrite skipn_app, Nat.sub_diag, skipn_all, skipn_O. cbn [app].
    rewrite IH by (try assumption; cbn in Hf; lia). reflexivity.
Qed.

Lemma rows_of_concat nx (bs : list (list Z)) :
  0 < nx -> Forall (fun r => lenZ r = nx) bs -> rows_of nx (concat bs) = bs.
Proof.
  intros Hn F. unfold rows_of.
  assert (F' : Forall (fun r => length r = Z.to_nat nx) bs).
  { eapply Forall_impl; [|exact F]. intros r Hr. unfold lenZ in Hr. cbn beta in Hr. lia. }
  apply chunks_concat; [lia|exact F'|].
  rewrite (length_concat_uniform (Z.to_nat nx) bs F'). nia.
Qed.

Lemma pack_rows_shape h rows : Forall (fun r => r <> []) rows ->
  map (@length _) (pack_rows h rows) = map (@length _) rows.
Proof.
  intros Hne. unfold pack_rows.
  generalize (pack_line h (hdZ (first_row rows)) (map hdZ rows)) (pack_line_length h (map hdZ rows) (hdZ (first_row rows))).
  rewrite map_length. intros col0. revert col0.
  induction rows as [|r rs IH]; intros col0 Hl.
  - destruct col0; reflexivity.
  - destruct col0 as [|c cs]; [discriminate|]. inversion Hne as [|? ? Hr Hrs]; subst.
    cbn [combine map fst snd length]. rewrite pack_line_length.
    destruct r as [|x xs]; [congruence|]. cbn [tl length]. f_equal.
    apply IH; [exact Hrs|cbn in Hl; lia].
Qed.

Lemma pack_bytes_rowlen h rows nx :
  Forall (fun r => r <> []) rows -> Forall (fun r => lenZ r = nx) rows ->
  Forall (fun r => lenZ r = nx) (pack_bytes h rows).
Proof.
  intros Hne F. pose proof (pack_rows_shape h rows Hne) as S.
  unfold pack_bytes, raw_codes. revert S. generalize (pack_rows h rows). 
  induction F as [|r rs Hr _ IH]; intros [|q qs] S; cbn [map] in *; try discriminate; constructor.
  - unfold lenZ in *. rewrite !map_length. injection S as S1 _. lia.
  - inversion Hne; subst. apply IH; [assumption|]. injection S as _ S2. exact S2.
Qed.

(* every field of a spec-encoded file, read back by the reference decoder and unpacked, is
   within one quantum of the field that was packed (first element exact) whenever the field
   is inside the proved range of C20_spec_partial *)
Lemma file_field_bound ps p l v h rows :
  forallb wf_period ps = true -> In p ps -> In l (p_levels p) -> In v (l_vars l) ->
  0 < h -> rect rows = true -> rmax rows <= 254 * h ->
  Forall (fun r => lenZ r = p_nx p) rows ->
  v_data v = concat (pack_bytes h rows) ->
  dec (enc ps) = Some ps
  /\ let got := unpack_rows h (hdZ (first_row rows)) (rows_of (p_nx p) (v_data v)) in
     within (2 * h) rows got = true /\ hdZ (first_row got) = hdZ (first_row rows)
     /\ lenZ (v_data v) = ncell p.
Proof.
  intros Hwf Hp Hl Hv Hh Hr Hm Hlen Hd. split; [apply dec_enc; exact Hwf|].
  pose proof (rect_nonempty rows Hr) as Hne.
  assert (Hnx : 0 < p_nx p).
  { destruct rows as [|r rs]; [discriminate|]. inversion Hlen as [|? ? Hr0 _]; subst.
    inversion Hne as [|? ? Hr1 _]; subst. destruct r; [congruence|]. unfold lenZ in Hr0. cbn [length] in Hr0. lia. }
  cbn zeta. rewrite Hd, (rows_of_concat (p_nx p) _ Hnx (pack_bytes_rowlen h rows (p_nx p) Hne Hlen)).
  fold (roundtrip h rows). pose proof (spec_partial h rows Hh Hr Hm) as S.
  unfold spec_ok in S. apply andb_true_iff in S as [S _]. apply andb_true_iff in S as [S1 S2].
  apply Z.eqb_eq in S2. repeat split; [exact S1|exact S2|].
  rewrite forallb_forall in Hwf. pose proof (Hwf p Hp) as Wp.
  destruct (wf_period_parts p Wp) as (_&_&_&_&_&_&_&_&_&_&Hls).
  rewrite forallb_forall in Hls. destruct (wf_lvl_parts _ _ (Hls l Hl)) as (_&_&Hvs).
  rewrite forallb_forall in Hvs. destruct (wf_var_parts _ _ (Hvs v Hv)) as (_&_&_&_&_&Hdl).
  rewrite <- Hd. exact Hdl.
Qed.

(* ---- readvardef (blank-terminated) agrees with the count-guided table decoder ------------- *)
Lemma blank_app a b : blank (a ++ b) = blank a && blank b.
Proof. unfold blank. apply forallb_app. Qed.

Lemma readvardef_enc nc ls : forall pad fuel,
  forallb (wf_lvl nc) ls = true ->
  forallb (fun l => float_ok (l_text l) && negb (blank (l_text l))) ls = true ->
  blank pad = true -> (length ls <= fuel)%nat ->
  readvardef fuel (enc_table ls ++ pad) = Some (map lent ls).
Proof.
  unfold enc_table.
  induction ls as [|l ls IH]; intros pad fuel Hw Hf Hb Hfu; cbn [map concat app].
  - destruct fuel; cbn [readvardef]; rewrite Hb; reflexivity.
  - cbn [forallb] in Hw, Hf. apply andb_true_iff in Hw as [Hw1 Hw2]. apply andb_true_iff in Hf as [Hf1 Hf2].
    apply andb_true_iff in Hf1 as [Hfl Hnb]. apply negb_true_iff in Hnb.
    destruct fuel as [|fuel]; [cbn in Hfu; lia|].
    destruct (wf_lvl_parts _ _ Hw1) as (Ht & Hn & Hv).
    cbn [readvardef]. rewrite <- app_assoc.
    specialize (IH pad fuel Hw2 Hf2 Hb ltac:(cbn in Hfu; lia)).
    set (rest := concat (map enc_lvl_entry ls) ++ pad) in *.
    assert (Enb : blank (enc_lvl_entry l ++ rest) = false).
    { unfold enc_lvl_entry. rewrite <- !app_assoc, blank_app, Hnb. reflexivity. }
    rewrite Enb. unfold enc_lvl_entry. rewrite <- !app_assoc.
    rewrite (take_app 6 _ _ Ht). cbn [obind]. rewrite Hfl. cbn [guard obind].
    rewrite takeI2 by lia. cbn [obind]. unfold nvars, lenZ. rewrite Nat2Z.id.
    rewrite (dec_var_entries_enc nc _ _ Hv). cbn [obind].
    rewrite IH. reflexivity.
Qed.

(* ---- tie T: the generated bookkeeping of _arl.py --------------------------------------- *)
Import String.
Local Open Scope list_scope.
Local Open Scope Z_scope.
Module G := PNC.Gen.Arl.
Definition goff (d : list (String.string * Z * Z)) (name : String.string) : Z :=
  match G.dtype_offset d name with Some o => o | None => -1 end.
Definition gen_sizes : libsizes :=
  LibSizes (G.dtype_itemsize G.arl_thdtype) (G.dtype_itemsize G.arl_vhdtype)
    (goff G.arl_thdtype "GRID"%string) (goff G.arl_thdtype "NX"%string) (goff G.arl_thdtype "NY"%string)
    (goff G.arl_thdtype "NZ"%string) (goff G.arl_thdtype "LENH"%string)
    (goff G.arl_vhdtype "EXP"%string) (goff G.arl_vhdtype "VAR1"%string).

Lemma gen_sizes_std : gen_sizes = std_sizes.
Proof. vm_compute. reflexivity. Qed.

(* label layout of the reference encoder = the generated dtypes *)
Lemma gen_label_fields :
  map (fun f => snd (fst f) * snd f) G.arl_vhdtype = [10; 2; 2; 4; 4; 14; 14]
  /\ map (fun f => snd (fst f) * snd f) G.arl_thdtype
     = [10; 2; 2; 4; 4; 14; 14] ++ [4; 3; 2] ++ repeat 7 12 ++ [3; 3; 3; 2; 4]
  /\ G.arl_timedtype_order = ["timehead"; "vardef"; "hdr"; "surface"; "layers"]%string.
Proof. vm_compute. repeat split; reflexivity. Qed.

(* LENH as the writer computes it = 108 + length of the level table, for every table with
   nsfc surface variables and nz-1 upper levels of nlay variables each *)
Lemma gen_lenh (sfc : lvl_t) (lay : lvl_t) (nupper : nat) :
  G.arl_LENH (G.arl_srflen (nvars sfc)) (G.arl_laylen (nvars lay) (Z.of_nat nupper + 1))
  = 108 + table_len (sfc :: repeat lay nupper).
Proof.
  unfold G.arl_LENH, G.arl_srflen, G.arl_laylen, table_len. cbn [map sumZ].
  assert (E : sumZ (map (fun l => 8 + 8 * nvars l) (repeat lay nupper)) = (8 + 8 * nvars lay) * Z.of_nat nupper).
  { induction nupper as [|k IH]; cbn [repeat map sumZ]; [lia|]. rewrite IH. lia. }
  rewrite E. ring.
Qed.

(* record length: label + table field + filler = 50 + nx*ny = one data record; the table field
   the reader maps (in inqarlpackedbit and in maparlpackedbit) is LENH - 108 bytes long, i.e.
   exactly the level/variable table, and the filler is exactly the index record's padding *)
Lemma gen_record_length nx ny hlen :
  let nc := G.arl_ncell nx ny in
  let hdr := G.arl_hdrlen nc hlen (G.dtype_itemsize G.arl_thdtype) in
  G.dtype_itemsize G.arl_thdtype + G.arl_vardeflen hlen + hdr = 50 + nx * ny
  /\ G.dtype_itemsize (G.arl_lay1dtype ny nx) = 50 + nx * ny
  /\ hdr = nx * ny - hlen
  /\ G.arl_vardeflen hlen = hlen - 108 /\ G.arl_inq_vheaderlen hlen = hlen - 108
  /\ G.dtype_itemsize G.arl_thdtype = 50 + 108.
Proof.
  cbn zeta. unfold G.arl_hdrlen, G.arl_vardeflen, G.arl_inq_vheaderlen, G.arl_ncell, G.arl_lay1dtype.
  change (G.dtype_itemsize G.arl_thdtype) with 158.
  unfold G.dtype_itemsize at 1. cbn [fold_right fst snd]. change (G.dtype_itemsize G.arl_vhdtype) with 50.
  repeat split; try ring; lia.
Qed.

(* reader and writer agree on the table entry widths; checksum and scale expressions *)
Lemma gen_table_widths :
  G.arl_readvardef_slices = [(None, Some 6); (Some 6, Some 8); (Some 8, None); (None, Some 4); (Some 4, Some 7); (Some 8, None)]
  /\ G.arl_writevardef_widths = [6; 2; 4; 3; 1] /\ G.arl_writevardef_extra = 108
  /\ G.arl_w_label_widths = [2; 4; 14; 14]
  /\ (forall li, G.arl_w_level li = li + 1)
  /\ (forall s, G.arl_ksum s = s mod 255)
  /\ (forall e, G.arl_pack_shift e = 7 - e /\ G.arl_unpack_shift e = 7 - e)
  /\ (forall g, G.arl_gridx_off g = Z.max 0 ((g - 64) * 1000) /\ G.arl_gridy_off g = Z.max 0 ((g - 64) * 1000)).
Proof. repeat split; reflexivity. Qed.

(* times: the four I2 fields of a time stamp decode (blank -> '0', two digits) to the numbers
   that were formatted *)
Lemma sweep_two_digits :
  forallb (fun z => match fmtI 2 z with [a; b] => two_digits a b =? z | _ => false end) (zrange 0 100) = true.
Proof. vm_compute. reflexivity. Qed.
Lemma two_digits_fmt z : 0 <= z <= 99 -> exists a b, fmtI 2 z = [a; b] /\ two_digits a b = z.
Proof.
  intros H. pose proof sweep_two_digits as S. rewrite forallb_forall in S.
  specialize (S z (in_zrange 0 100 z ltac:(lia))).
  destruct (fmtI 2 z) as [|a [|b [|c t]]]; try discriminate. exists a, b. split; [reflexivity|lia].
Qed.
Lemma time_fields_fmt yy mm dd hh ff :
  0 <= yy <= 99 -> 0 <= mm <= 99 -> 0 <= dd <= 99 -> 0 <= hh <= 99 ->
  time_fields (fmtI 2 yy ++ fmtI 2 mm ++ fmtI 2 dd ++ fmtI 2 hh ++ ff) = [yy; mm; dd; hh].
Proof.
  intros H1 H2 H3 H4.
  destruct (two_digits_fmt yy H1) as (a1 & b1 & -> & <-). destruct (two_digits_fmt mm H2) as (a2 & b2 & -> & <-).
  destruct (two_digits_fmt dd H3) as (a3 & b3 & -> & <-). destruct (two_digits_fmt hh H4) as (a4 & b4 & -> & <-).
  reflexivity.
Qed.

(* the range bump of pack2d (if RMAX * 2.0**(7 - NEXP) > 127: NEXP = NEXP + 1), multiplied through
   by 2^NEXP, is the model's nexp_rule_fixed *)
Lemma gen_bump :
  G.arl_bump_limit = 127 /\ (forall e, G.arl_bump_shift e = 7 - e /\ G.arl_bump_nexp e = e + 1)
  /\ forall r, nexp_rule_fixed r =
       let e := Z.log2 r + 1 in if G.arl_bump_limit * 2 ^ e <? 2 ^ 7 * r then G.arl_bump_nexp e else e.
Proof. repeat split; reflexivity. Qed.
