(* C13: the record reader's seek arithmetic (translated from camxfiles/uamiv/Read.py and
   camxfiles/timetuple.py into Gen/Camx.v) against the specification layout. *)
From PNC Require Import Base.Util Base.Words Gen.Camx Model.Uamiv.
From Coq Require Import ZifyBool.
Local Open Scope Z_scope.

(* byte offset, in a spec-encoded file, of the leading marker of the record of step t (0-based),
   species s (1-based), layer k (1-based) *)
Definition spec_record_offset (hdr nspec nz nxny t s k : Z) : Z :=
  4 * (hdr + t * (6 + nspec * nz * (13 + nxny)) + 6 + ((s - 1) * nz + (k - 1)) * (13 + nxny)).

Lemma div_div_exact t a b : 0 < a -> 0 < b -> t * (a * b) / a / b = t.
Proof.
  intros Ha Hb. replace (t * (a * b)) with (t * b * a) by lia.
  rewrite Z.div_mul by lia. apply Z.div_mul. lia.
Qed.

(* position arithmetic of the record reader = position in the specification layout *)
Lemma recordposition_spec (self : ur_self) hdr nxny t s k d tm :
  0 < ur_nspec self -> 0 < ur_nlayers self -> 0 <= t -> 1 <= s -> 1 <= k -> 0 <= nxny ->
  ur_data_start_byte self = 4 * hdr ->
  ur_padded_size self = 4 * (13 + nxny) ->
  ur_padded_time_hdr_size self = 24 ->
  Z.quot (tt_timediff (ur_start_date self, ur_start_time self) (d, tm) 2400) (ur_time_step self) = t ->
  ur_recordposition self d tm s k
  = spec_record_offset hdr (ur_nspec self) (ur_nlayers self) nxny t s k.
Proof.
  intros Hs Hl Ht Hs1 Hk Hn E1 E2 E3 Eq.
  unfold ur_recordposition, ur_timerecords, ur_spcrecords, ur_layerrecords, spec_record_offset.
  rewrite Eq, E1, E2, E3.
  replace (s =? 0) with false by lia. cbn [negb].
  replace (ur_nspec self + 1 - 1) with (ur_nspec self) by lia.
  replace (ur_nlayers self + 1 - 1) with (ur_nlayers self) by lia.
  rewrite div_div_exact by lia. lia.
Qed.

(* ---- timerange ---------------------------------------------------------------------- *)
(* one step of the iteration *)
Definition tstep (step eod : Z) (dt : Z * Z) : Z * Z := tt_timeadd dt (0, step) eod.
Fixpoint orbit (n : nat) (step eod : Z) (dt : Z * Z) : Z * Z :=
  match n with O => dt | S n' => orbit n' step eod (tstep step eod dt) end.
Fixpoint orbit_list (n : nat) (step eod : Z) (dt : Z * Z) : list (Z * Z) :=
  match n with O => [] | S n' => dt :: orbit_list n' step eod (tstep step eod dt) end.

Definition pair_neq (a b : Z * Z) : Prop := negb ((fst a =? fst b) && (snd a =? snd b)) = true.

Lemma loop_unfold fuel step eod d2 t2 d1 t1 :
  tt_timerange_loop (S fuel) step eod d2 t2 d1 t1 =
  if negb ((d1 =? d2) && (t1 =? t2)) then
    match tt_timerange_loop fuel step eod d2 t2 (fst (tt_timeadd (d1, t1) (0, step) eod))
                                               (snd (tt_timeadd (d1, t1) (0, step) eod)) with
    | Some l => Some ((d1, t1) :: l)
    | None => None
    end
  else Some [].
Proof.
  cbn [tt_timerange_loop]. destruct (tt_timeadd (d1, t1) (0, step) eod) as [a b]. reflexivity.
Qed.

Lemma timerange_loop_reaches : forall n step eod d1 t1 d2 t2,
  orbit n step eod (d1, t1) = (d2, t2) ->
  (forall m, (m < n)%nat -> pair_neq (orbit m step eod (d1, t1)) (d2, t2)) ->
  tt_timerange_loop (S n) step eod d2 t2 d1 t1 = Some (orbit_list n step eod (d1, t1)).
Proof.
  induction n as [|n IH]; intros step eod d1 t1 d2 t2 Ho Hne.
  - cbn [orbit] in Ho. injection Ho as -> ->. rewrite loop_unfold. cbn [orbit_list].
    rewrite !Z.eqb_refl. reflexivity.
  - rewrite loop_unfold. pose proof (Hne 0%nat ltac:(lia)) as H0. unfold pair_neq in H0.
    cbn [orbit fst snd] in H0. rewrite H0.
    cbn [orbit] in Ho. unfold tstep in Ho.
    destruct (tt_timeadd (d1, t1) (0, step) eod) as [d1' t1'] eqn:Ea. cbn [fst snd].
    rewrite (IH step eod d1' t1' d2 t2 Ho).
    + cbn [orbit_list]. unfold tstep. rewrite Ea. reflexivity.
    + intros m Hm. specialize (Hne (S m) ltac:(lia)). cbn [orbit] in Hne. unfold tstep in Hne.
      rewrite Ea in Hne. exact Hne.
Qed.

(* with more fuel the result is the same *)
Lemma timerange_loop_mono : forall fuel step eod d2 t2 d1 t1 l,
  tt_timerange_loop fuel step eod d2 t2 d1 t1 = Some l ->
  tt_timerange_loop (S fuel) step eod d2 t2 d1 t1 = Some l.
Proof.
  induction fuel as [|f IH]; intros step eod d2 t2 d1 t1 l H; [discriminate|].
  rewrite loop_unfold in H. rewrite loop_unfold.
  destruct (negb ((d1 =? d2) && (t1 =? t2))); [|exact H].
  destruct (tt_timerange_loop f step eod d2 t2 _ _) as [l'|] eqn:E; [|discriminate].
  apply IH in E. rewrite E. exact H.
Qed.

(* a YYJJJ date only ever grows under timeadd with a positive step: crossing a year boundary
   (99365 -> 00001) the loop `while (date1, time1) != (date2, time2)` can never stop *)
Lemma timeadd_date_mono d t step eod : 0 < eod -> 0 <= step -> 0 <= t ->
  d <= fst (tt_timeadd (d, t) (0, step) eod) /\ 0 <= snd (tt_timeadd (d, t) (0, step) eod).
Proof.
  intros He Hs Ht. unfold tt_timeadd.
  destruct (t + step >=? eod) eqn:E1; cbn [fst snd].
  - assert (0 <= (t + step) mod eod < eod) by (apply Z.mod_pos_bound; lia).
    replace ((t + step) mod eod <? 0) with false by lia. cbn [fst snd]. lia.
  - replace (t + step <? 0) with false by lia. cbn [fst snd]. lia.
Qed.

Lemma timerange_loop_diverges : forall fuel step eod d2 t2 d1 t1,
  0 < eod -> 0 <= step -> 0 <= t1 -> d2 < d1 ->
  tt_timerange_loop fuel step eod d2 t2 d1 t1 = None.
Proof.
  induction fuel as [|f IH]; intros step eod d2 t2 d1 t1 He Hs Ht Hd; [reflexivity|].
  rewrite loop_unfold.
  replace (d1 =? d2) with false by lia. cbn [andb negb].
  pose proof (timeadd_date_mono d1 t1 step eod He Hs Ht) as [H1 H2].
  rewrite IH by lia. reflexivity.
Qed.
