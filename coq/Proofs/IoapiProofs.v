(* Proofs for C10 over Model/Ioapi.v *)
From PNC Require Import Base.Util Model.FileStruct Model.Ioapi Proofs.FileStructProofs.
Local Open Scope Z_scope.

Lemma pair_eqb_refl p : pair_eqb p (fst p, snd p) = true.
Proof. unfold pair_eqb; simpl. rewrite !Z.eqb_refl. reflexivity. Qed.
Lemma pair_eqb_eq a b : pair_eqb a b = true -> a = b.
Proof.
  destruct a, b; unfold pair_eqb; simpl. intros H. apply andb_true_iff in H as [H1 H2].
  apply Z.eqb_eq in H1, H2. congruence.
Qed.

Lemma filter_all {A} (p : A -> bool) l : forallb p l = true -> filter p l = l.
Proof.
  induction l as [|x l IH]; simpl; intros H; [reflexivity|].
  apply andb_true_iff in H as [H1 H2]. rewrite H1, IH; auto.
Qed.
Lemma forallb_filter_self {A} (p : A -> bool) l : forallb p (filter p l) = true.
Proof. induction l as [|x l IH]; simpl; auto. destruct (p x) eqn:E; simpl; [rewrite E|]; auto. Qed.
Lemma forallb_memb_self l : forallb (fun k => memb k l) l = true.
Proof. apply forallb_forall. intros x Hx. apply memb_In; auto. Qed.

(* what coherence gives *)
Lemma coh_rest_elim f : coh_rest f = true ->
  nvars f = length (varlist f) /\ vardim f = nvars f /\ nvars f <> 0%nat
  /\ forallb (fun k => memb k (dvars f)) (varlist f) = true
  /\ Nat.eqb (a_nl f) (nl f) = true /\ opt_nat_agrees (a_nr f) (nr f) = true /\ opt_nat_agrees (a_nc f) (nc f) = true
  /\ nvgl f = (nl f + 1)%nat /\ ts_unl f = true.
Proof.
  unfold coh_rest. intros H.
  apply andb_true_iff in H as [H K9]. apply andb_true_iff in H as [H K8]. apply andb_true_iff in H as [H K7].
  apply andb_true_iff in H as [H K6]. apply andb_true_iff in H as [H K5]. apply andb_true_iff in H as [H K4].
  apply andb_true_iff in H as [H K3]. apply andb_true_iff in H as [K1 K2].
  apply Nat.eqb_eq in K1. apply Nat.eqb_eq in K2. apply negb_true_iff in K3. apply Nat.eqb_neq in K3.
  apply Nat.eqb_eq in K8. repeat split; auto.
Qed.
Lemma coh_rest_intro f :
  nvars f = length (varlist f) -> vardim f = nvars f -> nvars f <> 0%nat ->
  forallb (fun k => memb k (dvars f)) (varlist f) = true ->
  Nat.eqb (a_nl f) (nl f) = true -> opt_nat_agrees (a_nr f) (nr f) = true -> opt_nat_agrees (a_nc f) (nc f) = true ->
  nvgl f = (nl f + 1)%nat -> ts_unl f = true -> coh_rest f = true.
Proof.
  intros H1 H2 H3 H4 H5 H6 H7 H8 H9. unfold coh_rest.
  rewrite H4, H5, H6, H7, H9. rewrite <- H1, H2, H8, !Nat.eqb_refl.
  apply Nat.eqb_neq in H3. rewrite H3. reflexivity.
Qed.
Lemma coherent_elim f : coherentb f = true -> coh_rest f = true /\ tflag_part f = true.
Proof. unfold coherentb. intros H. apply andb_true_iff in H. exact H. Qed.
Lemma listed_all f : coh_rest f = true -> listed_existing f = varlist f.
Proof. intros H. apply coh_rest_elim in H as (_ & _ & _ & H & _). unfold listed_existing. apply filter_all; auto. Qed.
Lemma varlist_nonempty f : coh_rest f = true -> varlist f <> [].
Proof. intros H. apply coh_rest_elim in H as (H1 & _ & H3 & _). intros E. rewrite E in H1. simpl in H1. auto. Qed.

(* if TFLAG will be kept (second axis = the new NVARS) its first row has to be SDATE/STIME already *)
Definition tflag_keep_ok (f : io) (nv : nat) : bool :=
  match tflag f with
  | Some (s1, rows) => if Nat.eqb s1 nv then match rows with r0 :: _ => pair_eqb r0 (sdate f, stime f) | [] => false end else true
  | None => true
  end.

Lemma rebuilt_head f n : n <> 0%nat -> exists t, rebuilt f n = (sdate f, stime f) :: t.
Proof.
  destruct n as [|n]; [congruence|]. intros _. unfold rebuilt. simpl. eexists. f_equal. f_equal. lia.
Qed.

Lemma pair_eqb_same a b : pair_eqb (a, b) (a, b) = true.
Proof. unfold pair_eqb; simpl. rewrite !Z.eqb_refl. reflexivity. Qed.

Lemma updatetflag_coherent h g :
  updatetflag h = Ok g -> coh_rest h = true -> tflag_keep_ok h (nvars h) = true -> coherentb g = true.
Proof.
  unfold updatetflag, tflag_keep_ok. intros H R K.
  pose proof (coh_rest_elim _ R) as (_ & VD & _).
  (* every re-created TFLAG: second axis = VAR = NVARS, first row = the new SDATE/STIME *)
  assert (OW : forall rows sd st, (exists t, rows = (sd, st) :: t) ->
               coherentb (set_meta h (nvars h) (varlist h) (vardim h) (Some (vardim h, rows)) sd st) = true).
  { intros rows sd st [t ->]. unfold coherentb. apply andb_true_iff. split.
    - destruct h; unfold coh_rest in *; simpl in *; exact R.
    - unfold tflag_part. simpl. rewrite VD, Nat.eqb_refl. simpl. apply pair_eqb_same. }
  match type of H with (if ?c then _ else _) = _ => destruct c eqn:OV end.
  - match type of H with (if ?c then _ else _) = _ => destruct c eqn:C0; [discriminate|] end.
    apply orb_false_iff in C0 as [C1 C2]. apply Nat.eqb_neq in C2.
    match type of H with match ?k with _ => _ end = _ => destruct k as [[r0 rest]|] eqn:EK end.
    + inv H. apply OW. destruct r0. simpl. eauto.
    + match type of H with (if ?c then _ else _) = _ => destruct c; [discriminate|] end. inv H.
      apply OW. apply rebuilt_head. exact C2.
  - inv H. destruct (tflag g) as [[s1 rows]|] eqn:ET; [|discriminate].
    apply negb_false_iff in OV. unfold coherentb. rewrite R. unfold tflag_part. rewrite ET.
    rewrite OV in K. destruct rows as [|r0 rows]; [discriminate|]. rewrite OV, K. reflexivity.
Qed.

(* VAR-LIST after getVarlist(update=True) *)
Definition newvl (f : io) : list name := match varlist f with [] => dvars f | _ => listed_existing f end.

Lemma newvl_listed f : forallb (fun k => memb k (dvars f)) (newvl f) = true.
Proof.
  unfold newvl. destruct (varlist f); [apply forallb_memb_self|]. unfold listed_existing. apply forallb_filter_self.
Qed.

Lemma updatemeta_coherent f g :
  updatemeta f = Ok g -> newvl f <> [] -> nvgl f = (nl f + 1)%nat -> tflag_keep_ok f (length (newvl f)) = true ->
  coherentb g = true.
Proof.
  unfold updatemeta. intros H NE NG K. eapply updatetflag_coherent; [exact H| |].
  - apply coh_rest_intro; simpl; auto.
    + fold (newvl f). destruct (length (newvl f)) eqn:E; [destruct (newvl f); [congruence|discriminate]|]. lia.
    + fold (newvl f). destruct (newvl f); [congruence|discriminate].
    + fold (newvl f). apply newvl_listed.
    + apply Nat.eqb_refl.
    + destruct (nr f); simpl; auto using Nat.eqb_refl.
    + destruct (nc f); simpl; auto using Nat.eqb_refl.
  - unfold tflag_keep_ok in *. simpl. fold (newvl f). exact K.
Qed.

(* ---- copy ---------------------------------------------------------------------------------------- *)
Lemma copy_coherent f g : coherentb f = true -> impl_copy f = Ok g -> coherentb g = true.
Proof.
  intros C H. apply coherent_elim in C as [R T]. unfold impl_copy in H.
  eapply updatetflag_coherent; [exact H| |reflexivity].
  pose proof (listed_all _ R) as L. pose proof (coh_rest_elim _ R) as (H1 & H2 & H3 & H4 & H5 & H6 & H7 & H8 & H9).
  apply coh_rest_intro; simpl; auto; rewrite L; congruence.
Qed.

(* ---- subsetVariables with a non-empty selection ----------------------------------------------------- *)
Lemma filter_memb_self (l : list name) : filter (fun k => memb k l) l = l.
Proof. apply filter_all. apply forallb_memb_self. Qed.

Lemma subset_coherent f ks g :
  coherentb f = true -> iop_region f (ISubset ks) = 0%nat -> impl_subset f ks = Ok g -> coherentb g = true.
Proof.
  intros C Rg H. apply coherent_elim in C as [R T]. unfold impl_subset in H. simpl in Rg.
  pose proof (listed_all _ R) as L. pose proof (varlist_nonempty _ R) as NE.
  destruct (varlist f) as [|v0 vl0] eqn:EV; [congruence|]. rewrite <- EV in *.
  set (nvl := filter (fun k => memb k ks) (listed_existing f)) in *.
  assert (NV : nvl <> []) by (destruct nvl; [discriminate|congruence]).
  eapply updatemeta_coherent; [exact H| | |reflexivity].
  - unfold newvl; simpl. destruct nvl as [|x t] eqn:E; [congruence|]. rewrite <- E.
    unfold listed_existing; simpl. rewrite filter_memb_self. rewrite E. discriminate.
  - simpl. apply coh_rest_elim in R. tauto.
Qed.

(* ---- sliceDimensions (one dimension) -------------------------------------------------------------------- *)
Lemma tflag_part_elim f : tflag_part f = true ->
  exists s1 r0 t, tflag f = Some (s1, r0 :: t) /\ s1 = nvars f /\ r0 = (sdate f, stime f).
Proof.
  unfold tflag_part. destruct (tflag f) as [[s1 [|r0 t]]|]; try discriminate. intros H.
  apply andb_true_iff in H as [H1 H2]. apply Nat.eqb_eq in H1. apply pair_eqb_eq in H2. eauto 6.
Qed.

Lemma newvl_coherent f : coh_rest f = true -> newvl f = varlist f.
Proof.
  intros R. unfold newvl. pose proof (varlist_nonempty _ R). destruct (varlist f) eqn:E; [congruence|].
  rewrite <- E. apply listed_all; auto.
Qed.

(* invariant carried through the selectors of one sliceDimensions call *)
Definition slice_inv (f g : io) : Prop :=
  varlist g = varlist f /\ dvars g = dvars f /\ nvgl g = (nl g + 1)%nat
  /\ exists s t, tflag g = Some (s, (sdate g, stime g) :: t).

Lemma sel_one_inv f g s g' : slice_inv f g -> sel_one g s = Ok g' -> slice_inv f g'.
Proof.
  intros (VL & DV & NG & s1 & t & TF) H. unfold sel_one in H.
  destruct (dim_len g (fst (fst s))) as [n|]; [|discriminate].
  match type of H with (if ?c then _ else _) = _ => destruct c; [discriminate|] end.
  destruct (fst (fst s)).
  - rewrite TF in H. destruct (negb (Nat.eqb (length ((sdate g, stime g) :: t)) n)); [discriminate|].
    destruct (picks ((sdate g, stime g) :: t) (snd s)) as [|[d0 t0] rest]; [discriminate|]. inv H.
    unfold slice_inv, set_rows; simpl. rewrite TF. simpl. repeat split; auto. eauto.
  - destruct (Nat.eqb (nvgl g) (n + 1)); [|discriminate]. inv H. unfold slice_inv; simpl. repeat split; auto; try lia; eauto.
  - inv H. unfold slice_inv; simpl. repeat split; eauto.
  - inv H. unfold slice_inv; simpl. repeat split; eauto.
Qed.
Lemma sel_all_inv f sels : forall g g', slice_inv f g -> sel_all g sels = Ok g' -> slice_inv f g'.
Proof.
  induction sels as [|s t IH]; simpl; intros g g' I H.
  - inv H. exact I.
  - bindinv H. eapply IH; [|exact H]. eapply sel_one_inv; eauto.
Qed.

Lemma slice_coherent f sels g :
  coherentb f = true -> iop_region f (ISlice sels) = 0%nat -> impl_slice f sels = Ok g -> coherentb g = true.
Proof.
  intros C Rg H. apply coherent_elim in C as [R T]. unfold impl_slice in H.
  match type of H with (if ?c then _ else _) = _ => destruct c; [discriminate|] end.
  destruct (tflag_part_elim _ T) as (s1 & r0 & t & ET & ES & ER). rewrite ET in H.
  simpl in Rg. destruct (Nat.leb (nlists sels) 1); [|discriminate].
  pose proof (coh_rest_elim _ R) as (H1 & H2 & H3 & H4 & H5 & H6 & H7 & H8 & H9).
  pose proof (newvl_coherent _ R) as NV. pose proof (varlist_nonempty _ R) as NE.
  bindinv H.
  assert (I0 : slice_inv f f).
  { unfold slice_inv. repeat split; auto. rewrite ET, ER. eauto. }
  destruct (sel_all_inv _ _ _ _ I0 E) as (VL & DV & NG & s & t' & TF).
  assert (NVa : newvl a = varlist f) by (unfold newvl, listed_existing; rewrite VL, DV; exact NV).
  eapply updatemeta_coherent; [exact H| | |].
  - rewrite NVa. exact NE.
  - exact NG.
  - unfold tflag_keep_ok. rewrite TF. destruct (Nat.eqb s (length (newvl a))); auto. apply pair_eqb_same.
Qed.

(* ---- applyAlongDimensions inside its safe domain ------------------------------------------------------------ *)
Lemma reduce_single g r : g <> FHalf -> reduce_rows g [r] = [r].
Proof.
  destruct r as [d t]. destruct g; intros Hg; try congruence; unfold reduce_rows; simpl.
  - rewrite !Z.add_0_r, !Z.div_1_r. reflexivity.
  - reflexivity.
  - reflexivity.
  - rewrite !Z.add_0_r. reflexivity.
Qed.

Lemma apply_coherent f d fn g :
  coherentb f = true -> iop_region f (IApply d fn) = 0%nat -> impl_apply f d fn = Ok g -> coherentb g = true.
Proof.
  intros C Rg H. apply coherent_elim in C as [R T]. unfold impl_apply in H.
  destruct (dim_len f d) as [n|] eqn:ED; [|discriminate].
  destruct (tflag_part_elim _ T) as (s1 & r0 & t & ET & ES & ER). rewrite ET in H.
  destruct (Nat.eqb n 0) eqn:N0; [discriminate|].
  pose proof (coh_rest_elim _ R) as (H1 & H2 & H3 & H4 & H5 & H6 & H7 & H8 & H9).
  pose proof (newvl_coherent _ R) as NV. pose proof (varlist_nonempty _ R) as NE.
  bindinv H.
  (* the state handed to updatemeta: its VAR-LIST, variables, first TFLAG row and level count *)
  assert (KEY : varlist a = varlist f /\ dvars a = dvars f /\ nvgl a = (nl a + 1)%nat
                /\ exists s t', tflag a = Some (s, (sdate a, stime a) :: t')).
  { subst r0. destruct d; simpl in E, ED, Rg.
    - injection ED as <-.
      match type of E with (if ?c then _ else _) = _ => destruct c eqn:EL; [|discriminate] end.
      inv E. unfold set_rows; simpl. rewrite ET. simpl. repeat split; auto.
      destruct fn; try (destruct (Nat.eqb (nt f) 1) eqn:E1; [|discriminate Rg];
        apply Nat.eqb_eq in E1; rewrite E1 in EL; simpl in EL; destruct t; [|discriminate EL];
        rewrite reduce_single by discriminate; eauto).
      simpl. destruct t; eauto.
    - injection ED as <-. destruct (Nat.eqb (nvgl f) (nl f + 1)); [|discriminate]. inv E. simpl. rewrite ET.
      repeat split; eauto.
    - inv E. simpl. rewrite ET. repeat split; eauto.
    - inv E. simpl. rewrite ET. repeat split; eauto. }
  destruct KEY as (VL & DV & NG & s & t' & TF).
  assert (NVa : newvl a = varlist f) by (unfold newvl, listed_existing; rewrite VL, DV; exact NV).
  eapply updatemeta_coherent; [exact H| | |].
  - rewrite NVa. exact NE.
  - exact NG.
  - unfold tflag_keep_ok. rewrite TF. destruct (Nat.eqb s (length (newvl a))); auto.
    unfold pair_eqb; simpl. rewrite !Z.eqb_refl. reflexivity.
Qed.

(* ---- stack on TSTEP (all standard variables listed) ---------------------------------------------------------- *)
Lemma filter_none {A} (p : A -> bool) l : forallb (fun x => negb (p x)) l = true -> filter p l = [].
Proof.
  induction l as [|x l IH]; simpl; intros H; [reflexivity|].
  apply andb_true_iff in H as [H1 H2]. apply negb_true_iff in H1. rewrite H1. auto.
Qed.

Lemma stack_coherent f ont orows g :
  coherentb f = true -> iop_region f (IStack ont orows) = 0%nat -> impl_stack f ont orows = Ok g -> coherentb g = true.
Proof.
  intros C Rg H. apply coherent_elim in C as [R T]. unfold impl_stack in H. simpl in Rg.
  destruct (tflag_part_elim _ T) as (s1 & r0 & t & ET & ES & ER). subst s1 r0. rewrite ET in H.
  match type of H with (if ?c then _ else _) = _ => destruct c; [discriminate|] end. injection H as <-.
  destruct (forallb (fun k => memb k (varlist f)) (dvars f)) eqn:AL; [|discriminate].
  pose proof (coh_rest_elim _ R) as (H1 & H2 & H3 & H4 & H5 & H6 & H7 & H8 & H9).
  pose proof (listed_all _ R) as L.
  assert (NEW : filter (fun k => negb (memb k (listed_existing (set_len f DT (nt f + ont))))) (dvars f) = []).
  { apply filter_none. unfold listed_existing; simpl. fold (listed_existing f). rewrite L.
    rewrite forallb_forall in AL. apply forallb_forall. intros x Hx. rewrite (AL x Hx). reflexivity. }
  unfold coherentb. apply andb_true_iff. split.
  - apply coh_rest_intro; unfold add2varlist, set_rows; simpl; rewrite ?NEW; simpl;
      try (destruct (tflag f) as [[? ?]|]; simpl); rewrite ?NEW; simpl; rewrite ?app_nil_r;
      unfold listed_existing; simpl; fold (listed_existing f); rewrite ?L; auto; try lia.
  - unfold tflag_part, add2varlist, set_rows; simpl. rewrite ET. simpl. rewrite NEW. simpl.
    unfold listed_existing; simpl. fold (listed_existing f). rewrite L.
    rewrite Nat.add_0_r, <- H1, Nat.eqb_refl. simpl. unfold pair_eqb; simpl. rewrite !Z.eqb_refl. reflexivity.
Qed.

(* ---- renameVariable (repaired) ---------------------------------------------------------------------------------- *)
Lemma In_dedup x l : In x l -> In x (dedup l).
Proof.
  induction l as [|y l IH]; simpl; intros H; [contradiction|].
  destruct (Nat.eqb x y) eqn:E.
  - apply Nat.eqb_eq in E. subst. left; reflexivity.
  - destruct H as [H|H]; [subst; rewrite Nat.eqb_refl in E; discriminate|].
    right. apply filter_In. split; [apply IH; exact H|]. rewrite E. reflexivity.
Qed.

Lemma rename_coherent f o n g :
  coherentb f = true -> impl_rename f o n = Ok g -> coherentb g = true.
Proof.
  intros C H. apply coherent_elim in C as [R T]. unfold impl_rename in H.
  destruct (negb (memb o (dvars f)) || Nat.eqb o n) eqn:G; [discriminate|].
  apply orb_false_iff in G as [G1 G2]. apply negb_false_iff in G1.
  destruct (tflag_part_elim _ T) as (s1 & r0 & t & ET & ES & ER). rewrite ET in H.
  destruct (negb (Nat.eqb s1 (vardim f))); [discriminate|].
  pose proof (coh_rest_elim _ R) as (H1 & H2 & H3 & H4 & H5 & H6 & H7 & H8 & H9).
  assert (NO : Nat.eqb n o = false) by (rewrite Nat.eqb_sym; exact G2).
  set (f1 := add2varlist f (dvars f)) in *.
  set (f2 := add2varlist (set_dvars f1 (if memb n (dvars f1) then dvars f1 else dvars f1 ++ [n])) [n]) in *.
  set (f3 := set_dvars f2 (filter (fun k => negb (Nat.eqb k o)) (dvars f2))) in *.
  set (vl := dedup (filter (fun k => memb k (dvars f3)) (map (fun k => if Nat.eqb k o then n else k) (varlist f3)))) in *.
  assert (D3 : In n (dvars f3)).
  { unfold f3; simpl. apply filter_In. split; [|rewrite NO; reflexivity].
    destruct (memb n (dvars f)) eqn:MN; [apply memb_In; exact MN|apply in_or_app; right; left; reflexivity]. }
  assert (V3 : In n (varlist f3)).
  { unfold f3, f2; simpl.
    match goal with |- context [if ?c then _ else _] => destruct c eqn:E end.
    - apply in_or_app; right. left; reflexivity.
    - apply in_or_app; left. apply negb_false_iff in E. apply (proj1 (memb_In _ _)) in E. unfold listed_existing in E.
      apply (proj1 (filter_In _ _ _)) in E. destruct E as [E _]. exact E. }
  assert (VL : In n vl).
  { unfold vl. apply In_dedup. apply filter_In. split; [|apply memb_In; exact D3].
    apply in_map_iff. exists n. rewrite NO. auto. }
  eapply updatemeta_coherent; [exact H| | |].
  - unfold newvl; simpl. fold vl. destruct vl as [|v0 vt] eqn:EV; [contradiction|]. rewrite <- EV.
    unfold listed_existing; simpl. fold vl. intros Hn.
    assert (In n (filter (fun k => memb k (dvars f3)) vl)).
    { apply filter_In. split; [rewrite EV; exact VL|apply memb_In; exact D3]. }
    simpl in Hn. unfold f3 in H0; simpl in H0. rewrite Hn in H0. contradiction.
  - simpl. exact H8.
  - unfold tflag_keep_ok; simpl. rewrite ET, ER.
    match goal with |- (if ?c then _ else _) = true => destruct c; [|reflexivity] end. apply pair_eqb_same.
Qed.

(* ---- field preservation of updatetflag / updatemeta ------------------------------------------------------------- *)
Lemma updatetflag_fields h g : updatetflag h = Ok g ->
  nl g = nl h /\ nvgl g = nvgl h /\ dvars g = dvars h /\ varlist g = varlist h
  /\ (tflag h = None -> sdate g = sdate h /\ stime g = stime h).
Proof.
  unfold updatetflag. intros H.
  match type of H with (if ?c then _ else _) = _ => destruct c end.
  - match type of H with (if ?c then _ else _) = _ => destruct c; [discriminate|] end.
    match type of H with match ?k with _ => _ end = _ => destruct k as [[r0 rest]|] eqn:EK end.
    + inv H. simpl. do 4 (split; [reflexivity|]). intros TN. rewrite TN in EK. discriminate.
    + match type of H with (if ?c then _ else _) = _ => destruct c; [discriminate|] end. inv H. simpl.
      do 4 (split; [reflexivity|]). intros _. split; reflexivity.
  - inv H. do 4 (split; [reflexivity|]). intros _. split; reflexivity.
Qed.
Lemma updatemeta_fields f g : updatemeta f = Ok g ->
  nl g = nl f /\ nvgl g = nvgl f /\ dvars g = dvars f.
Proof.
  unfold updatemeta. intros H. apply updatetflag_fields in H as (H1 & H2 & H3 & _). simpl in *. repeat split; assumption.
Qed.
Lemma copy_fields f g : impl_copy f = Ok g -> sdate g = sdate f /\ stime g = stime f /\ dvars g = dvars f.
Proof.
  unfold impl_copy. intros H. apply updatetflag_fields in H as (_ & _ & H3 & _ & H5). simpl in *.
  destruct (H5 eq_refl) as [S1 S2]. repeat split; assumption.
Qed.

Lemma filter_nonempty {A} (p : A -> bool) x l : In x l -> p x = true -> filter p l <> [].
Proof.
  intros Hin Hp E. assert (In x (filter p l)) by (apply filter_In; split; assumption). rewrite E in H. contradiction.
Qed.

(* ---- eval ------------------------------------------------------------------------------------------------------------ *)
(* adding the freshly assigned variable n to a coherent file g (whose standard variables become vs', n among them) *)
Lemma add_new_coherent g vs' n r :
  coherentb g = true -> In n vs' -> updatemeta (add2varlist (set_dvars g vs') [n]) = Ok r -> coherentb r = true.
Proof.
  intros C Hn H. apply coherent_elim in C as [R T].
  destruct (tflag_part_elim _ T) as (s1 & r0 & t & ET & ES & ER).
  pose proof (coh_rest_elim _ R) as (H1 & H2 & H3 & H4 & H5 & H6 & H7 & H8 & H9).
  set (h := add2varlist (set_dvars g vs') [n]) in *.
  assert (VN : In n (varlist h)).
  { unfold h, add2varlist; simpl.
    match goal with |- context [if ?c then _ else _] => destruct c eqn:E end.
    - apply in_or_app; right. left; reflexivity.
    - apply in_or_app; left. apply negb_false_iff in E. apply (proj1 (memb_In _ _)) in E. unfold listed_existing in E.
      apply (proj1 (filter_In _ _ _)) in E. destruct E as [E _]. exact E. }
  eapply updatemeta_coherent; [exact H| | |].
  - unfold newvl. destruct (varlist h) as [|v0 vt] eqn:EV; [contradiction|]. rewrite <- EV in VN.
    unfold listed_existing. apply (filter_nonempty _ n); [exact VN|]. apply memb_In. exact Hn.
  - exact H8.
  - unfold tflag_keep_ok. simpl. rewrite ET, ER.
    match goal with |- (if ?c then _ else _) = true => destruct c; [|reflexivity] end. apply pair_eqb_same.
Qed.

Lemma eval_coherent f n a ca g :
  coherentb f = true -> iop_region f (IEval n a ca) = 0%nat -> impl_eval f n a ca = Ok g -> coherentb g = true.
Proof.
  intros C Rg H. unfold impl_eval in H.
  match type of H with (if ?c then _ else _) = _ => destruct c; [discriminate|] end.
  destruct ca.
  - bindinv H. eapply add_new_coherent; cycle 2; [exact H|eapply copy_coherent; eauto|].
    apply in_or_app; right; left; reflexivity.
  - bindinv H. eapply add_new_coherent; cycle 2; [exact H| |left; reflexivity].
    eapply subset_coherent; [exact C| |exact E].
    simpl in Rg. destruct (memb a (listed_existing f)) eqn:M; [|discriminate].
    apply (proj1 (memb_In _ _)) in M. unfold iop_region.
    match goal with |- match ?x with _ => _ end = _ => destruct x eqn:EF end; [|reflexivity].
    exfalso. apply (filter_nonempty (fun k => memb k [a]) a _ M); [|exact EF]. apply memb_In. left; reflexivity.
Qed.

(* ---- mask ------------------------------------------------------------------------------------------------------------ *)
Lemma mask_coherent f g : coherentb f = true -> impl_mask f = Ok g -> coherentb g = true.
Proof.
  intros C H. pose proof (coherent_elim _ C) as [R T]. unfold impl_mask in H.
  destruct (tflag_part_elim _ T) as (s1 & r0 & t & ET & ES & ER). rewrite ET in H.
  bindinv H. destruct (negb (Nat.eqb s1 (vardim f))); [discriminate|].
  pose proof (copy_coherent _ _ C E) as Ca. destruct (copy_fields _ _ E) as (SD & ST & DV).
  apply coherent_elim in Ca as [Ra Ta].
  destruct (tflag_part_elim _ Ta) as (sa & ra & ta & ETa & ESa & ERa).
  pose proof (coh_rest_elim _ Ra) as (A1 & A2 & A3 & A4 & A5 & A6 & A7 & A8 & A9).
  pose proof (varlist_nonempty _ Ra) as NEa. pose proof (listed_all _ Ra) as La.
  set (h := set_rows (add2varlist a (dvars f)) (r0 :: t)) in *.
  assert (TH : tflag h = Some (sa, r0 :: t)) by (unfold h, set_rows; simpl; rewrite ETa; simpl; rewrite ?ETa; reflexivity).
  assert (VH : varlist h = varlist a ++ filter (fun k => negb (memb k (listed_existing a))) (dvars f)
               /\ dvars h = dvars a /\ nvgl h = nvgl a /\ nl h = nl a /\ sdate h = sdate a /\ stime h = stime a).
  { unfold h, set_rows; simpl. rewrite ETa. simpl. repeat split; reflexivity. }
  destruct VH as (VH & DH & NGH & NLH & SDH & STH).
  eapply updatemeta_coherent; [exact H| | |].
  - unfold newvl. destruct (varlist a) as [|v0 vt] eqn:EV; [congruence|].
    rewrite VH. simpl. unfold listed_existing. rewrite DH, VH. simpl.
    assert (M0 : memb v0 (dvars a) = true).
    { simpl in A4. apply andb_true_iff in A4 as [A4 _]. exact A4. }
    rewrite M0. discriminate.
  - rewrite NGH, NLH. exact A8.
  - unfold tflag_keep_ok. rewrite TH, SDH, STH, SD, ST, ER.
    match goal with |- (if ?c then _ else _) = true => destruct c; [|reflexivity] end. apply pair_eqb_same.
Qed.

(* ---- interpSigma ----------------------------------------------------------------------------------------------------- *)
Lemma interp_coherent f m g : coherentb f = true -> impl_interp f m = Ok g -> coherentb g = true.
Proof.
  intros C H. pose proof (coherent_elim _ C) as [R T]. unfold impl_interp in H.
  destruct (tflag_part_elim _ T) as (s1 & r0 & t & ET & ES & ER). rewrite ET in H.
  match type of H with (if ?c then _ else _) = _ => destruct c; [discriminate|] end.
  bindinv H.
  pose proof (newvl_coherent _ R) as NV. pose proof (varlist_nonempty _ R) as NE.
  (* the first updatemeta already gives a coherent file with m layers and m+1 levels *)
  assert (Ca : coherentb a = true).
  { eapply updatemeta_coherent; [exact E| | |].
    - unfold newvl, listed_existing; simpl. fold (listed_existing f). fold (newvl f). rewrite NV. exact NE.
    - reflexivity.
    - unfold tflag_keep_ok; simpl. rewrite ET, ER.
      match goal with |- (if ?c then _ else _) = true => destruct c; [|reflexivity] end. apply pair_eqb_same. }
  destruct (updatemeta_fields _ _ E) as (NLa & NGa & _). simpl in NLa, NGa.
  apply coherent_elim in Ca as [Ra Ta].
  destruct (tflag_part_elim _ Ta) as (sa & ra & ta & ETa & ESa & ERa).
  pose proof (newvl_coherent _ Ra) as NVa. pose proof (varlist_nonempty _ Ra) as NEa.
  eapply updatemeta_coherent; [exact H| | |].
  - unfold newvl, listed_existing; simpl. fold (listed_existing a). fold (newvl a). rewrite NVa. exact NEa.
  - simpl. rewrite NLa. reflexivity.
  - unfold tflag_keep_ok; simpl. rewrite ETa, ERa.
    match goal with |- (if ?c then _ else _) = true => destruct c; [|reflexivity] end. apply pair_eqb_same.
Qed.

(* ---- deleting a variable and refreshing the metadata ----------------------------------------------------------------- *)
Lemma copy_varlist f g : impl_copy f = Ok g -> varlist g = varlist f.
Proof. unfold impl_copy. intros H. apply updatetflag_fields in H as (_ & _ & _ & H4 & _). simpl in H4. exact H4. Qed.

Lemma delete_coherent f k g :
  coherentb f = true -> iop_region f (IDelete k) = 0%nat -> impl_delete f k = Ok g -> coherentb g = true.
Proof.
  intros C Rg H. unfold impl_delete in H. destruct (negb (memb k (dvars f))); [discriminate|]. bindinv H.
  pose proof (copy_coherent _ _ C E) as Ca. destruct (copy_fields _ _ E) as (_ & _ & DV). pose proof (copy_varlist _ _ E) as VL.
  pose proof (coherent_elim _ C) as [R _]. pose proof (listed_all _ R) as L.
  apply coherent_elim in Ca as [Ra Ta].
  destruct (tflag_part_elim _ Ta) as (sa & ra & ta & ETa & ESa & ERa).
  pose proof (coh_rest_elim _ Ra) as (A1 & A2 & A3 & A4 & A5 & A6 & A7 & A8 & A9).
  pose proof (varlist_nonempty _ Ra) as NEa.
  simpl in Rg. rewrite L in Rg.
  destruct (filter (fun v => negb (Nat.eqb v k)) (varlist f)) as [|x l] eqn:EF; [discriminate|].
  assert (Hx : In x (varlist f) /\ negb (Nat.eqb x k) = true).
  { assert (Hin : In x (filter (fun v => negb (Nat.eqb v k)) (varlist f))) by (rewrite EF; left; reflexivity).
    apply (proj1 (filter_In (fun v => negb (Nat.eqb v k)) x (varlist f))) in Hin. exact Hin. }
  destruct Hx as [Hx1 Hx2].
  eapply updatemeta_coherent; [exact H| | |].
  - unfold newvl; simpl. destruct (varlist a) as [|v0 vt] eqn:EV; [congruence|]. rewrite <- EV in VL.
    unfold listed_existing; simpl. apply (filter_nonempty _ x).
    + rewrite VL. exact Hx1.
    + apply memb_In. apply filter_In. split; [|exact Hx2]. rewrite DV.
      apply coh_rest_elim in R as (_ & _ & _ & R4 & _). rewrite forallb_forall in R4. apply memb_In. apply R4. exact Hx1.
  - simpl. exact A8.
  - unfold tflag_keep_ok; simpl. rewrite ETa, ERa.
    match goal with |- (if ?c then _ else _) = true => destruct c; [|reflexivity] end. apply pair_eqb_same.
Qed.

(* ---- one step / sequences ------------------------------------------------------------------------------------------ *)
Theorem istep_coherent f o g :
  coherentb f = true -> iop_region f o = 0%nat -> istep f o = Ok g -> coherentb g = true.
Proof.
  intros C Rg H. destruct o; simpl in H.
  - eapply copy_coherent; eauto.
  - eapply subset_coherent; eauto.
  - eapply rename_coherent; eauto.
  - eapply slice_coherent; eauto.
  - eapply apply_coherent; eauto.
  - eapply eval_coherent; eauto.
  - eapply mask_coherent; eauto.
  - eapply stack_coherent; eauto.
  - eapply interp_coherent; eauto.
  - eapply delete_coherent; eauto.
Qed.

Theorem irun_coherent ops : forall f g,
  coherentb f = true -> irun_region f ops = 0%nat -> irun f ops = Ok g -> coherentb g = true.
Proof.
  induction ops as [|o t IH]; intros f g C Rg H.
  - inv H. exact C.
  - simpl in H. bindinv H.
    simpl in Rg. destruct (iop_region f o) eqn:ER; [|discriminate]. rewrite E in Rg.
    eapply IH; [|exact Rg|exact H]. eapply istep_coherent; eauto.
Qed.

(* updatemeta() always leaves TSTEP marked unlimited (the IOAPI clause of C01) *)
Lemma updatemeta_unlimited f g : updatemeta f = Ok g -> ts_unl g = true.
Proof.
  unfold updatemeta, updatetflag. intros H.
  match type of H with (if ?c then _ else _) = _ => destruct c end.
  - match type of H with (if ?c then _ else _) = _ => destruct c; [discriminate|] end.
    match type of H with match ?k with _ => _ end = _ => destruct k as [[r0 rest]|] end.
    + inv H. reflexivity.
    + match type of H with (if ?c then _ else _) = _ => destruct c; [discriminate|] end. inv H. reflexivity.
  - inv H. reflexivity.
Qed.

(* Coherent implies the structural keys of audit_meta *)
Theorem audit_implied f : coherentb f = true -> audit_structb f = true.
Proof.
  intros C. apply coherent_elim in C as [R T].
  destruct (tflag_part_elim _ T) as (s1 & r0 & t & ET & ES & ER).
  pose proof (coh_rest_elim _ R) as (H1 & H2 & H3 & H4 & H5 & H6 & H7 & H8 & H9).
  unfold audit_structb. rewrite H5, H6, H7, H4, ET, ER, H2, <- H1, !Nat.eqb_refl. simpl. apply pair_eqb_same.
Qed.
