(* Proofs about Model/Arith.v (C06, repaired code). *)
From PNC Require Import Base.Util Model.Arith.
Require Import QArith.
Local Close Scope Q_scope.
Local Open Scope nat_scope.

(* ---- binary operators ------------------------------------------------------------ *)
Lemma cell_correct is_ma cls c : wf_cell is_ma c = true -> impl_cell is_ma cls c = spec_cell is_ma cls c.
Proof.
  unfold wf_cell, impl_cell, spec_cell, ma_masks, to_cell. intros H.
  destruct is_ma; simpl in *.
  - destruct (m1 c), (m2 c); simpl; auto.
    destruct cls as [|[|?]]; simpl; auto.
    + destruct (b0 c); simpl; auto. destruct (nonfin (r c)); auto.
    + destruct (nonfin (r c)); auto.
  - apply negb_true_iff in H. rewrite H. reflexivity.
Qed.

Lemma binop_var_correct cls coords v :
  wf_var v = true ->
  binop_var (fun ma => impl_cell ma cls) coords v = binop_var (fun ma => spec_cell ma cls) coords v.
Proof.
  unfold wf_var, binop_var. destruct (is_coord coords v); auto.
  destruct (bpair v) as [cs|]; auto. intros H. apply map_ext_in. intros c Hc.
  apply cell_correct. rewrite forallb_forall in H. auto.
Qed.

(* FULL: for every operator, shape, variable list, masked or plain operands *)
Theorem binop_correct cls coords vs :
  forallb wf_var vs = true -> impl_binop cls coords vs = spec_binop cls coords vs.
Proof.
  intros H. unfold impl_binop, spec_binop. apply map_ext_in. intros v Hv.
  apply binop_var_correct. rewrite forallb_forall in H. auto.
Qed.

Theorem coords_passthrough cls coords vs i v :
  nth_error vs i = Some v -> is_coord coords v = true ->
  nth_error (impl_binop cls coords vs) i = Some (bleft v).
Proof.
  intros H Hc. unfold impl_binop. rewrite (map_nth_error _ _ _ H). unfold binop_var. rewrite Hc. reflexivity.
Qed.

Theorem missing_right_copied cls coords vs i v :
  nth_error vs i = Some v -> bpair v = None ->
  nth_error (impl_binop cls coords vs) i = Some (bleft v).
Proof.
  intros H Hc. unfold impl_binop. rewrite (map_nth_error _ _ _ H). unfold binop_var. rewrite Hc.
  destruct (is_coord coords v); reflexivity.
Qed.

(* whatever the operands, an exposed value is never non-finite *)
Theorem impl_never_nonfinite is_ma cls c x : impl_cell is_ma cls c = Some x -> nonfin x = false.
Proof.
  unfold impl_cell, to_cell. destruct (is_ma && ma_masks cls c); try discriminate.
  destruct (nonfin (r c)) eqn:E; intros H; inversion H; subst; auto.
Qed.

(* a masked operand cell stays masked (masked-typed variables) *)
Theorem masked_operand_stays_masked cls c : m1 c || m2 c = true -> impl_cell true cls c = None.
Proof. unfold impl_cell, ma_masks. intros ->. reflexivity. Qed.

(* what the property says about one cell *)
Theorem spec_cell_exact is_ma cls c x :
  spec_cell is_ma cls c = Some x <->
  (m1 c = false /\ m2 c = false /\ (is_ma && (cls =? 1) && b0 c) = false /\ nonfin (r c) = false /\ x = r c).
Proof.
  unfold spec_cell, to_cell. split.
  - destruct (m1 c), (m2 c); simpl; try discriminate.
    destruct (is_ma && (cls =? 1) && b0 c); try discriminate.
    destruct (nonfin (r c)); try discriminate. intros H; inversion H; auto.
  - intros [-> [-> [-> [-> ->]]]]. reflexivity.
Qed.

(* ---- mask() ---------------------------------------------------------------------- *)
Lemma mcell_correct p f wb c : impl_mcell p f wb c = spec_mcell p f wb c.
Proof.
  unfold impl_mcell, spec_mcell, pred_hit. f_equal. repeat rewrite <- orb_assoc. reflexivity.
Qed.

Lemma zip_mask_ext g h bits cs : (forall wb c, g wb c = h wb c) -> zip_mask g bits cs = zip_mask h bits cs.
Proof. intros H. revert bits; induction cs as [|c cs IH]; intros bits; simpl; auto. rewrite H, IH. reflexivity. Qed.

Lemma zip_mask_none g cs : zip_mask g None cs = map (g false) cs.
Proof. induction cs as [|c cs IH]; simpl; auto. rewrite IH. reflexivity. Qed.

Lemma zip_mask_some g bs cs :
  length bs = length cs -> zip_mask g (Some bs) cs = map (fun bc => g (fst bc) (snd bc)) (combine bs cs).
Proof.
  revert bs; induction cs as [|c cs IH]; intros [|b bs] H; simpl in *; try discriminate; auto.
  rewrite IH by lia. reflexivity.
Qed.

(* the chain masks exactly: already masked, or where-bit, or a predicate; value untouched *)
Theorem mask_exact_no_where p f cs :
  zip_mask (impl_mcell p f) None cs = map (fun c => MC (raw c) (msk c || false || pred_hit p f (raw c))) cs.
Proof. rewrite zip_mask_none. apply map_ext. intros c. rewrite mcell_correct. reflexivity. Qed.

Theorem mask_exact_where p f bs cs :
  length bs = length cs ->
  zip_mask (impl_mcell p f) (Some bs) cs
  = map (fun bc => MC (raw (snd bc)) (msk (snd bc) || fst bc || pred_hit p f (raw (snd bc)))) (combine bs cs).
Proof.
  intros L. rewrite zip_mask_some by auto. apply map_ext. intros [b c]. simpl.
  rewrite mcell_correct. reflexivity.
Qed.

Lemma zip_mask_rel g (R : mcell -> mcell -> Prop) bits cs :
  (forall wb c, R c (g wb c)) -> Forall2 R cs (zip_mask g bits cs).
Proof. intros H. revert bits; induction cs as [|c cs IH]; intros bits; simpl; constructor; auto. Qed.

(* an unmasked output cell shows exactly the input value, and was unmasked and hit by no predicate *)
Theorem mask_keeps_unmasked p f bits cs :
  Forall2 (fun c c' => forall x, visible c' = Some x ->
              visible c = Some x /\ pred_hit p f (raw c) = false)
          cs (zip_mask (impl_mcell p f) bits cs).
Proof.
  apply zip_mask_rel. intros wb c x. rewrite mcell_correct.
  unfold spec_mcell, visible. simpl.
  destruct (msk c); simpl; try discriminate.
  destruct wb; simpl; try discriminate.
  destruct (pred_hit p f (raw c)); simpl; try discriminate. intros E; split; auto.
Qed.

(* masks only grow *)
Theorem mask_monotone p f bits cs :
  Forall2 (fun c c' => msk c = true -> msk c' = true) cs (zip_mask (impl_mcell p f) bits cs).
Proof.
  apply zip_mask_rel. intros wb c H. rewrite mcell_correct. unfold spec_mcell. simpl. rewrite H. reflexivity.
Qed.

Lemma mask_var_same coords wc w p v :
  mask_var impl_mcell coords wc w p v = mask_var spec_mcell coords wc w p v.
Proof.
  unfold mask_var.
  destruct (existsb _ coords && negb wc); auto.
  assert (Z : forall bits, zip_mask (impl_mcell p (mfloat v)) bits (mcells v)
                           = zip_mask (spec_mcell p (mfloat v)) bits (mcells v)).
  { intros. apply zip_mask_ext. intros. apply mcell_correct. }
  destruct w as [wa|]; rewrite ?Z; auto.
Qed.

(* FULL: mask() as a whole equals the specification *)
Theorem mask_correct coords wc w p vs : impl_mask coords wc w p vs = spec_mask coords wc w p vs.
Proof.
  unfold impl_mask, spec_mask, mask_file.
  rewrite (map_ext _ _ (mask_var_same coords wc w p)). reflexivity.
Qed.

Theorem mask_skips_coords cellf coords w p v :
  existsb (Nat.eqb (mname v)) coords = true -> mask_var cellf coords false w p v = Some (mcells v).
Proof. intros H. unfold mask_var. rewrite H. reflexivity. Qed.
