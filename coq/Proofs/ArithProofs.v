(* Proofs about Model/Arith.v (C06). *)
From PNC Require Import Base.Util Model.Arith.
Require Import QArith.
Local Close Scope Q_scope.
Local Open Scope nat_scope.

(* ---- binary operators ------------------------------------------------------------ *)
Lemma dom_cell_correct is_ma cls c : dom_cell is_ma cls c = true -> impl_cell is_ma cls c = spec_cell is_ma cls c.
Proof.
  unfold dom_cell, impl_cell, spec_cell. intros H. apply andb_true_iff in H as [H1 H2].
  apply negb_true_iff in H1, H2. rewrite H1, H2.
  destruct is_ma; simpl in *; auto.
  unfold leak in H2. rewrite H1 in H2. simpl in H2.
  destruct cls as [|[|?]]; simpl; auto.
  apply orb_false_iff in H2 as [-> _]. reflexivity.
Qed.

Lemma binop_var_dom cls coords v :
  dom_var cls coords v = true ->
  binop_var (fun ma => impl_cell ma cls) coords v = binop_var (fun ma => spec_cell ma cls) coords v.
Proof.
  unfold dom_var, binop_var. destruct (is_coord coords v); auto. simpl.
  destruct (bpair v) as [cs|]; auto. intros H. apply map_ext_in. intros c Hc.
  apply dom_cell_correct. rewrite forallb_forall in H. auto.
Qed.

Theorem binop_dom_correct cls coords vs :
  forallb (dom_var cls coords) vs = true -> impl_binop cls coords vs = spec_binop cls coords vs.
Proof.
  intros H. unfold impl_binop, spec_binop. apply map_ext_in. intros v Hv.
  apply binop_var_dom. rewrite forallb_forall in H. auto.
Qed.

(* plain (not masked-typed) operands without masked cells are always inside the domain *)
Lemma dom_cell_plain cls c : m1 c = false -> m2 c = false -> dom_cell false cls c = true.
Proof. unfold dom_cell. intros -> ->. reflexivity. Qed.

Theorem binop_plain_correct cls coords vs :
  (forall v cs, In v vs -> bpair v = Some cs ->
     bma v = false /\ forall c, In c cs -> m1 c = false /\ m2 c = false) ->
  impl_binop cls coords vs = spec_binop cls coords vs.
Proof.
  intros H. apply binop_dom_correct. apply forallb_forall. intros v Hv.
  unfold dom_var. destruct (is_coord coords v); auto. simpl.
  destruct (bpair v) as [cs|] eqn:E; auto.
  destruct (H v cs Hv E) as [Hm Hc]. rewrite Hm. apply forallb_forall. intros c Hin.
  destruct (Hc c Hin). apply dom_cell_plain; auto.
Qed.

(* masked-typed operands are fine as long as no cell is masked and no domained operator hits a
   zero divisor / non-finite result *)
Theorem binop_ma_correct cls coords vs :
  (forall v cs, In v vs -> bpair v = Some cs -> forall c, In c cs ->
     m1 c = false /\ m2 c = false /\ (cls = 0 \/ (b0 c = false /\ nonfin (r c) = false))) ->
  impl_binop cls coords vs = spec_binop cls coords vs.
Proof.
  intros H. apply binop_dom_correct. apply forallb_forall. intros v Hv.
  unfold dom_var. destruct (is_coord coords v); auto. simpl.
  destruct (bpair v) as [cs|] eqn:E; auto. apply forallb_forall. intros c Hin.
  destruct (H v cs Hv E c Hin) as [A [B D]]. unfold dom_cell, leak. rewrite A, B. simpl.
  destruct D as [-> | [D1 D2]]; [rewrite andb_false_r; auto|].
  rewrite D1, D2. destruct cls as [|[|?]]; simpl; rewrite andb_false_r; auto.
Qed.

Theorem coords_passthrough cls coords vs i v :
  nth_error vs i = Some v -> is_coord coords v = true ->
  nth_error (impl_binop cls coords vs) i = Some (bleft v).
Proof.
  intros H Hc. unfold impl_binop. rewrite (map_nth_error _ _ _ H). unfold binop_var. rewrite Hc. reflexivity.
Qed.

Theorem binop_length cls coords vs : length (impl_binop cls coords vs) = length vs.
Proof. apply map_length. Qed.

(* whatever the operands, an exposed value is never non-finite *)
Theorem impl_never_nonfinite is_ma cls c x : impl_cell is_ma cls c = Some x -> nonfin x = false.
Proof.
  unfold impl_cell, to_cell. destruct (is_ma && leak cls c).
  - destruct (nonfin (z c)) eqn:E; intros H; inversion H; subst; auto.
  - destruct (nonfin (r c)) eqn:E; intros H; inversion H; subst; auto.
Qed.

(* what the property says about one cell *)
Theorem spec_cell_exact is_ma cls c x :
  spec_cell is_ma cls c = Some x <->
  (m1 c = false /\ m2 c = false /\ (is_ma && (cls =? 1) && b0 c) = false /\ nonfin (r c) = false /\ x = r c).
Proof.
  unfold spec_cell, to_cell. split.
  - destruct (m1 c), (m2 c); simpl; try discriminate.
    destruct (is_ma && (cls =? 1) && b0 c); try discriminate.
    destruct (nonfin (r c)); try discriminate. intros H; inversion H; auto.
  - intros [-> [-> [-> [-> ->]]]]. reflexivity.
Qed.

(* ---- mask() ---------------------------------------------------------------------- *)
Lemma mcell_dom_correct p f wb c : dom_values p f = true -> impl_mcell p f wb c = spec_mcell p f wb c.
Proof.
  unfold dom_values, impl_mcell, spec_mcell, pred_hit, finish. destruct (p_values p) as [v|]; intros H.
  - rewrite H. simpl. f_equal. repeat rewrite <- orb_assoc. reflexivity.
  - simpl. f_equal. repeat rewrite <- orb_assoc. reflexivity.
Qed.

Lemma zip_mask_ext g h bits cs : (forall wb c, g wb c = h wb c) -> zip_mask g bits cs = zip_mask h bits cs.
Proof. intros H. revert bits; induction cs as [|c cs IH]; intros bits; simpl; auto. rewrite H, IH. reflexivity. Qed.

Lemma zip_mask_none g cs : zip_mask g None cs = map (g false) cs.
Proof. induction cs as [|c cs IH]; simpl; auto. rewrite IH. reflexivity. Qed.

Lemma zip_mask_some g bs cs :
  length bs = length cs -> zip_mask g (Some bs) cs = map (fun bc => g (fst bc) (snd bc)) (combine bs cs).
Proof.
  revert bs; induction cs as [|c cs IH]; intros [|b bs] H; simpl in *; try discriminate; auto.
  rewrite IH by lia. reflexivity.
Qed.

(* the chain masks exactly: already masked, or where-bit, or a predicate; value untouched *)
Theorem mask_exact_no_where p f cs :
  dom_values p f = true ->
  zip_mask (impl_mcell p f) None cs = map (fun c => MC (raw c) (msk c || false || pred_hit p f (raw c))) cs.
Proof.
  intros H. rewrite zip_mask_none. apply map_ext. intros c. rewrite mcell_dom_correct by auto. reflexivity.
Qed.

Theorem mask_exact_where p f bs cs :
  dom_values p f = true -> length bs = length cs ->
  zip_mask (impl_mcell p f) (Some bs) cs
  = map (fun bc => MC (raw (snd bc)) (msk (snd bc) || fst bc || pred_hit p f (raw (snd bc)))) (combine bs cs).
Proof.
  intros H L. rewrite zip_mask_some by auto. apply map_ext. intros [b c]. simpl.
  rewrite mcell_dom_correct by auto. reflexivity.
Qed.

Lemma Forall2_weaken {A B} (P Q : A -> B -> Prop) l l' :
  (forall a b, P a b -> Q a b) -> Forall2 P l l' -> Forall2 Q l l'.
Proof. intros H F. induction F; constructor; auto. Qed.

Lemma zip_mask_rel g (R : mcell -> mcell -> Prop) bits cs :
  (forall wb c, R c (g wb c)) -> Forall2 R cs (zip_mask g bits cs).
Proof. intros H. revert bits; induction cs as [|c cs IH]; intros bits; simpl; constructor; auto. Qed.

(* an unmasked output cell shows exactly the input value, and was unmasked and hit by no predicate *)
Theorem mask_keeps_unmasked p f bits cs :
  dom_values p f = true ->
  Forall2 (fun c c' => forall x, visible c' = Some x ->
              visible c = Some x /\ pred_hit p f (raw c) = false)
          cs (zip_mask (impl_mcell p f) bits cs).
Proof.
  intros H. apply zip_mask_rel. intros wb c x. rewrite mcell_dom_correct by auto.
  unfold spec_mcell, visible. simpl.
  destruct (msk c); simpl; try discriminate.
  destruct wb; simpl; try discriminate.
  destruct (pred_hit p f (raw c)); simpl; try discriminate. intros E; split; auto.
Qed.

Lemma mask_var_same coords wc w p v :
  dims_is_list w = false -> int_values_var coords wc p v = false ->
  mask_var impl_mcell impl_applies coords wc w p v = mask_var spec_mcell spec_applies coords wc w p v.
Proof.
  intros H I. unfold mask_var, int_values_var in *.
  destruct (existsb _ coords && negb wc); auto. simpl in I. apply negb_false_iff in I.
  assert (Z : forall bits, zip_mask (impl_mcell p (mfloat v)) bits (mcells v)
                           = zip_mask (spec_mcell p (mfloat v)) bits (mcells v)).
  { intros. apply zip_mask_ext. intros. apply mcell_dom_correct; auto. }
  destruct w as [[s b [[ds [|]]|]]|]; simpl in *; try discriminate; rewrite ?Z; auto.
Qed.

Theorem mask_correct coords wc w p vs :
  dims_is_list w = false -> existsb (int_values_var coords wc p) vs = false ->
  impl_mask coords wc w p vs = spec_mask coords wc w p vs.
Proof.
  intros H I. unfold impl_mask, spec_mask, mask_file.
  replace (map (mask_var impl_mcell impl_applies coords wc w p) vs)
     with (map (mask_var spec_mcell spec_applies coords wc w p) vs); auto.
  apply map_ext_in. intros v Hv. symmetry. apply mask_var_same; auto.
  destruct (int_values_var coords wc p v) eqn:E; auto.
  assert (existsb (int_values_var coords wc p) vs = true) by (apply existsb_exists; eauto). congruence.
Qed.

Theorem mask_skips_coords cellf applies coords w p v :
  existsb (Nat.eqb (mname v)) coords = true -> mask_var cellf applies coords false w p v = Some (mcells v).
Proof. intros H. unfold mask_var. rewrite H. reflexivity. Qed.
