(* Lemmas for C05 part "inputs are never modified, results never alias" (Model/Alias.v). *)
From PNC Require Import Base.Util Model.Handles Model.Alias Proofs.HandlesProofs.

Section HeapFacts.
Variable A : Type.

Lemma set_nth_length (l : list (list A)) i x : length (set_nth l i x) = length l.
Proof. revert i; induction l; intros [|i]; simpl; auto. Qed.

Lemma hwrite_other (h : heap A) i j v : i <> j -> hread A (hwrite A h j v) i = hread A h i.
Proof. intros H. unfold hread, hwrite. apply nth_error_set_other. auto. Qed.

Lemma frame_fresh : forall (acts : list (action A)) (h h' : heap A) out,
  forallb (is_fresh A) acts = true -> run_actions A h acts = (h', out) ->
  (forall i, i < length h -> hread A h' i = hread A h i)
  /\ (forall j, In j out -> length h <= j < length h')
  /\ length h <= length h'.
Proof.
  induction acts as [|a t IH]; simpl; intros h h' out Hf Hr.
  - injection Hr as <- <-. split; [auto | split; [ | auto]]. intros x Hx. destruct Hx.
  - destruct a as [v|k|k v]; simpl in Hf; try discriminate.
    destruct (run_actions A (h ++ [v]) t) as [h1 out1] eqn:E. injection Hr as <- <-.
    destruct (IH _ _ _ Hf E) as (F1 & F2 & F3). rewrite app_length in *. simpl in *.
    split; [|split].
    + intros i Hi. rewrite F1 by lia. unfold hread. apply nth_error_app1. exact Hi.
    + intros j0 Hj. destruct Hj as [Hj|Hj]; [lia|]. specialize (F2 j0 Hj). lia.
    + lia.
Qed.

Lemma writes_frame n : forall (ws : list (nat * list A)) (h : heap A),
  (forall w, In w ws -> n <= fst w) -> forall i, i < n -> hread A (write_all A h ws) i = hread A h i.
Proof.
  induction ws as [|w t IH]; simpl; intros h Hw i Hi; auto.
  unfold write_all in *. simpl. rewrite IH; auto.
  apply hwrite_other. specialize (Hw w (or_introl eq_refl)). lia.
Qed.

Lemma isolation_fresh (acts : list (action A)) (h h' : heap A) out ws :
  forallb (is_fresh A) acts = true -> run_actions A h acts = (h', out) ->
  (forall w, In w ws -> In (fst w) out) ->
  forall i, i < length h -> hread A (write_all A h' ws) i = hread A h i.
Proof.
  intros Hf Hr Hw i Hi. destruct (frame_fresh _ _ _ _ Hf Hr) as (F1 & F2 & F3).
  rewrite (writes_frame (length h)); auto.
  intros w Hin. apply F2, Hw, Hin.
Qed.

Lemma out_fresh (acts : list (action A)) (h h' : heap A) out :
  forallb (is_fresh A) acts = true -> run_actions A h acts = (h', out) ->
  forall j, In j out -> length h <= j.
Proof. intros Hf Hr j Hj. destruct (frame_fresh _ _ _ _ Hf Hr) as (_ & F2 & _). apply F2 in Hj. lia. Qed.

Lemma forallb_map_fresh (outs : list (list A)) : forallb (is_fresh A) (map Fresh outs) = true.
Proof. induction outs; simpl; auto. Qed.
End HeapFacts.

Lemma isolation_isolated (o : op) : isolated o = true ->
  forall A (outs : list (list A)) junk (h h' : heap A) out ws,
  run_actions A h (actions_of (impl_effs o) outs junk) = (h', out) ->
  (forall w, In w ws -> In (fst w) out) ->
  (forall j, In j out -> length h <= j)
  /\ forall i, i < length h -> hread A (write_all A h' ws) i = hread A h i.
Proof.
  unfold isolated. intros Hi A outs junk h h' out ws Hr Hw.
  destruct (impl_effs o) eqn:E; try discriminate.
  unfold actions_of in Hr. simpl in Hr. rewrite app_nil_r in Hr. split.
  - eapply out_fresh; eauto. apply forallb_map_fresh.
  - eapply isolation_fresh; eauto. apply forallb_map_fresh.
Qed.

Lemma isolation_spec (o : op) :
  forall A (outs : list (list A)) junk (h h' : heap A) out ws,
  run_actions A h (actions_of (spec_effs o) outs junk) = (h', out) ->
  (forall w, In w ws -> In (fst w) out) ->
  (forall j, In j out -> length h <= j)
  /\ forall i, i < length h -> hread A (write_all A h' ws) i = hread A h i.
Proof.
  intros A outs junk h h' out ws Hr Hw.
  unfold actions_of, spec_effs in Hr. simpl in Hr. rewrite app_nil_r in Hr. split.
  - eapply out_fresh; eauto. apply forallb_map_fresh.
  - eapply isolation_fresh; eauto. apply forallb_map_fresh.
Qed.

(* ---- the programs of the catalogue never hand out or write an input buffer ---------------------------- *)
Lemma exec_app p q : exec (p ++ q) = exec p ++ exec q.
Proof. unfold exec. apply flat_map_app. Qed.

Lemma exec_map_nil (f : nat -> stmt) vars : (forall i, stmt_effs (f i) = []) -> exec (map f vars) = [].
Proof. intros H. induction vars as [|i t IH]; simpl; auto. unfold exec in *. simpl. rewrite H, IH. reflexivity. Qed.

Lemma base_guard s : base (guard_copy s) = None.
Proof. unfold guard_copy. destruct (base s) eqn:E; simpl; auto. Qed.

Lemma store_guard s : exec [StoreObject (guard_copy s)] = [].
Proof. unfold exec. simpl. rewrite base_guard. reflexivity. Qed.

Lemma all_safe (c : call) (v : nat -> src) (vars : list nat) : exec (prog_of c v vars) = [].
Proof.
  destruct c; simpl;
    repeat first [ rewrite exec_app
                 | rewrite store_guard
                 | rewrite exec_map_nil by (intros; reflexivity) ];
    reflexivity.
Qed.

Lemma dims_safe (c : call) (dims : list nat) : exec (dims_prog c dims) = [].
Proof.
  unfold dims_prog. destruct (is_query c); [reflexivity|].
  induction dims as [|d t IH]; [reflexivity|]. unfold exec in *. simpl. exact IH.
Qed.

Lemma whole_safe c mem vars dims : impl_effs (Call c mem vars dims) = [].
Proof. unfold impl_effs. rewrite exec_app, dims_safe, all_safe. reflexivity. Qed.

(* every catalogued call is isolated: full strength (every call, every number of variables and dimensions, memory or disk) *)
Lemma all_isolated (o : op) : isolated o = true.
Proof. destruct o as [c mem vars dims]. unfold isolated. rewrite whole_safe. reflexivity. Qed.

(* the transcription is not blind: the statements the repaired calls used to contain do have effects *)
Lemma old_statements_have_effects :
  exec [StoreObject (SVar 2)] = [EAlias 2]                                  (* eval('C = A') before the guard *)
  /\ exec [StoreObject (SView (SVar 2))] = [EAlias 2]                        (* eval('C = A[:]') *)
  /\ exec [CreateValues (SView (SVar 0))] = [EAlias 0]                       (* getvarpnc: values=coordvar[...] *)
  /\ exec [StoreObject (SView (SView (SView (SView (SVar 3)))))] = [EAlias 3] (* slice_dim: the swapaxes/slice view *)
  /\ exec [StoreObject (SView (SView (SVar 1)))] = [EAlias 1]                (* reorderDimensions without .copy() (seeded C05_m7) *)
  /\ exec [Inplace (SView (SView (SVar 1)))] = [EMutate 1]                   (* getTimes / val2idx on the views *)
  /\ exec [StoreObject (SView (SDisk 2))] = []                               (* a disk-backed variable: [...] is a new array *)
  /\ exec [StoreDimension 501] = [EAlias 501].                             (* outf.dimensions[dk] = dv (seeded C05_m9) *)
Proof. vm_compute. repeat split; reflexivity. Qed.

Lemma isolation_all (o : op) :
  forall A (outs : list (list A)) junk (h h' : heap A) out ws,
  run_actions A h (actions_of (impl_effs o) outs junk) = (h', out) ->
  (forall w, In w ws -> In (fst w) out) ->
  (forall j, In j out -> length h <= j)
  /\ forall i, i < length h -> hread A (write_all A h' ws) i = hread A h i.
Proof. apply isolation_isolated, all_isolated. Qed.

(* the hypothesis "all outputs fresh" of the isolation theorem is needed: one Alias action (what eval('B = A') used to
   be) and a later write into the result change the input buffer *)
Lemma fresh_hypothesis_needed : exists (acts : list (action nat)) (h h' : heap nat) out ws i,
  run_actions nat h acts = (h', out)
  /\ (forall w, In w ws -> In (fst w) out) /\ i < length h
  /\ hread nat (write_all nat h' ws) i <> hread nat h i.
Proof.
  exists [Alias 0], [[1; 2]], [[1; 2]], [0], [(0, [9; 9])], 0.
  split; [reflexivity|]. split.
  - intros w [<-|[]]. left. reflexivity.
  - split; [simpl; lia|]. vm_compute. discriminate.
Qed.

(* every query leaves the heap exactly as it was and hands back no buffer *)
Lemma queries_pure (c : call) (mem : bool) (vars dims : list nat) A (junk : list A) (h : heap A) :
  is_query c = true ->
  run_actions A h (actions_of (impl_effs (Call c mem vars dims)) [] junk) = (h, []).
Proof. intros _. rewrite whole_safe. reflexivity. Qed.
