(* Tie T for C12 / C11: the definitions that translate/py2coq.py + harness/gen_times.py regenerate from
   /repo's source (coq/Gen/Times.v) are what the hand model and the specification say. *)
From Coq Require Import QArith.
From PNC Require Import Base.Util Base.Calendar Base.DecDigits Model.Times Model.IoapiGeo Gen.Times.
Local Open Scope Z_scope.
Ltac Zify.zify_post_hook ::= Z.to_euclidean_division_equations.

(* ---- TFLAG fields as the source splits them *)
Lemma gen_tflag_fields : forall d t,
  (tf_yyyy d, tf_jjj d) = yj_of_yyyyjjj d
  /\ tf_hours t = hhmmss_h t /\ tf_minutes t = hhmmss_m t /\ tf_seconds t = hhmmss_s t.
Proof. intros d t. repeat split. Qed.

(* the float expression jjj + (h + m/60. + s/3600.)/24., read exactly, with the "- 1" of timedelta(days=day - 1),
   is a whole number of seconds: (jjj-1)*86400 + h*3600 + m*60 + s *)
Lemma gen_tflag_days_exact : forall j h m s,
  ((tf_days j h m s + inject_Z (tf_dayoffset 0)) * inject_Z 86400 ==
   inject_Z ((j - 1) * 86400 + h * 3600 + m * 60 + s))%Q.
Proof.
  intros j h m s. unfold tf_days, tf_dayoffset.
  replace ((j - 1) * 86400 + h * 3600 + m * 60 + s) with (j * 86400 + h * 3600 + m * 60 + s + (-86400)) by lia.
  rewrite !inject_Z_plus, !inject_Z_mult.
  change (inject_Z 60) with (60#1)%Q. change (inject_Z 3600) with (3600#1)%Q. change (inject_Z 24) with (24#1)%Q.
  change (inject_Z 86400) with (86400#1)%Q. change (inject_Z (0-1)) with (-1#1)%Q.
  change (inject_Z (-86400)) with (-86400#1)%Q.
  field.
Qed.

(* hence the model's instant of a TFLAG row is what the source computes *)
Lemma gen_tflag_instant : forall d t us,
  d <> -635 -> impl_flag_us d t = Some us ->
  (inject_Z us ==
   (inject_Z (jan1 (tf_yyyy d) * 86400)
    + (tf_days (tf_jjj d) (tf_hours t) (tf_minutes t) (tf_seconds t) + inject_Z (tf_dayoffset 0)) * inject_Z 86400)
   * inject_Z us_sec)%Q.
Proof.
  intros d t us Hd H. unfold impl_flag_us in H.
  assert (E : (d =? -635) = false) by (apply Z.eqb_neq; exact Hd). rewrite E in H.
  destruct ((1 <=? d / 1000) && (d / 1000 <=? 9999)); [|discriminate]. injection H as <-.
  rewrite gen_tflag_days_exact. rewrite <- inject_Z_plus, <- inject_Z_mult.
  unfold tf_yyyy, tf_jjj, tf_hours, tf_minutes, tf_seconds.
  apply inject_Z_injective. lia.
Qed.

(* bounds=True on TFLAG: sh + sm + ss is the HHMMSS step in seconds *)
Lemma gen_bounds_step : forall t, tb_seconds (tb_sh t) (tb_sm t) (tb_ss t) = sec_of_hhmmss t.
Proof. intros t. reflexivity. Qed.

Lemma gen_usday : fx_usday = us_day.
Proof. reflexivity. Qed.

(* ---- digit slices of '%06d' % TSTEP *)
Definition split3 (sl : (option Z * option Z) * (option Z * option Z) * (option Z * option Z)) (ds : list Z) : Z * Z * Z :=
  let '(h, m, s) := sl in
  (int_of_digits (py_slice h ds), int_of_digits (py_slice m ds), int_of_digits (py_slice s ds)).

(* getTimes (SDATE/STIME/TSTEP branch): hours/minutes/seconds read from the digit string give the model's step *)
Lemma gen_sdate_step : forall ds, forallb is_digit ds = true -> sd_pad <= Z.of_nat (length ds) ->
  let '(h, m, s) := split3 sd_slices ds in
  h * 3600 + m * 60 + s = impl_tstep_sec (int_of_digits ds).
Proof.
  intros ds D L. unfold sd_pad in L.
  destruct (hhmmss_of_digit_slices ds D ltac:(lia)) as [A [B C]].
  unfold split3, sd_slices. rewrite A, B, C. unfold impl_tstep_sec.
  assert (P : 0 <= int_of_digits ds).
  { clear - D. unfold int_of_digits. assert (G : forall l acc, forallb is_digit l = true -> 0 <= acc -> 0 <= int_acc acc l).
    { induction l as [|x l IH]; intros acc Dl Ha; simpl; [exact Ha|].
      simpl in Dl. apply andb_true_iff in Dl as [Dx Dl]. unfold is_digit in Dx.
      apply andb_true_iff in Dx as [D1 D2]. apply Z.leb_le in D1. apply IH; [exact Dl|lia]. }
    apply G; [exact D|lia]. }
  apply Z.leb_le in P. rewrite P. lia.
Qed.

(* add_time_variable: same digit split, weighted 3600/60/1 = the model's tmpseconds *)
Lemma gen_synth_step : forall ds, forallb is_digit ds = true -> tv_pad <= Z.of_nat (length ds) ->
  let '(h, m, s) := split3 tv_slices ds in
  tv_tmpseconds h m s = impl_tmpseconds (int_of_digits ds).
Proof.
  intros ds D L. pose proof (gen_sdate_step ds D) as G.
  unfold tv_pad in L. unfold sd_pad in G. specialize (G L).
  unfold split3, tv_slices, sd_slices in *. unfold tv_tmpseconds, impl_tmpseconds. lia.
Qed.

(* ---- ioapi_base.sliceDimensions: the TSTEP attribute written for a step of dtsec seconds *)
Lemma gen_slice_tstep : forall s, slice_tstep s = hhmmss_of_sec s /\ sec_of_hhmmss (slice_tstep s) = s.
Proof.
  intros s. assert (E : slice_tstep s = hhmmss_of_sec s) by reflexivity.
  split; [exact E|]. rewrite E. apply sec_of_hhmmss_of_sec.
Qed.

(* the model's window step is the generated expression applied to the source step *)
Lemma gen_slice_time_uses : forall t0 tstep n sdate stime s d h ts cnt st,
  impl_slice_time t0 tstep n sdate stime (Some s) = Some (d, h, ts) ->
  sel_range n s = Some (st, cnt) -> 1 < cnt -> ts = slice_tstep (sec_of_hhmmss tstep).
Proof.
  intros t0 tstep n sdate stime s d h ts cnt st H E C. unfold impl_slice_time in H. rewrite E in H.
  assert (C0 : (cnt =? 0) = false) by (apply Z.eqb_neq; lia). rewrite C0 in H.
  destruct (flag_of_sec (t0 + st * sec_of_hhmmss tstep)). injection H as _ _ <-.
  assert (C1 : (1 <? cnt) = true) by (apply Z.ltb_lt; lia). rewrite C1. reflexivity.
Qed.
