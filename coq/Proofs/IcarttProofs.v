(* Lemmas for C19 (ICARTT ffi1001 writer / reader). *)
From Coq Require Import String Ascii DecimalString.
From PNC Require Import Base.Util Model.Icartt.
Local Open Scope Z_scope.

(* ------------------------------------------------------------------ line classification *)
Ltac split_tests :=
  repeat (match goal with
         | |- context [?a <=? ?b] => destruct (Z.leb_spec a b)
         | |- context [?a <? ?b] => destruct (Z.ltb_spec a b)
         | |- context [?a =? ?b] => destruct (Z.eqb_spec a b)
         end; cbn [andb orb]; try reflexivity; try lia).

(* the layout the writer produces, as a function of the line number *)
Definition layout (ndep nattr li : Z) : lkind :=
  if li <=? 9 then K_fixed
  else if li =? 10 then K_skip
  else if li =? 11 then K_scale
  else if li =? 12 then K_missing
  else if li <=? 12 + ndep then K_desc
  else if li =? 13 + ndep then K_spcount
  else if li =? 14 + ndep then K_ucount
  else if li <? nattr + ndep + 15 then K_user
  else K_names.

(* lines 2..12 are classified independently of what has been read so far *)
Lemma classify_head n nm nsc ndep nattr li :
  0 <= nm -> 0 <= nsc -> 15 <= n -> 2 <= li <= 12 ->
  classify n nm nsc li = layout ndep nattr li.
Proof. intros; unfold classify, layout. split_tests. Qed.

(* once the missing-code line has been read (nm = ndep) and the special-comment count is 0,
   every later header line is interpreted as what the writer put there, iff the declared count
   is attributes + variables + 15 *)
Lemma classify_tail ndep nattr li :
  0 <= ndep -> 0 <= nattr -> 12 < li <= nattr + ndep + 15 ->
  classify (nattr + ndep + 15) ndep 0 li = layout ndep nattr li.
Proof. intros; unfold classify, layout. split_tests. Qed.

(* a declared count that is one too small (what a newline inside an attribute value causes)
   makes the reader take the last attribute line for the names line *)
Lemma classify_off_by_one ndep nattr :
  0 <= ndep -> 1 <= nattr ->
  classify (nattr + ndep + 15) ndep 0 (nattr + ndep + 15) = K_names
  /\ classify (nattr + ndep + 15) ndep 0 (nattr + ndep + 14) = K_user
  /\ classify (nattr + ndep + 14) ndep 0 (nattr + ndep + 14) = K_names.
Proof. intros; unfold classify; repeat split; split_tests. Qed.

(* ------------------------------------------------------------------ header count *)
Lemma split_on_none c s : has_char c s = false -> split_on c s = [s].
Proof.
  induction s as [|x t IH]; cbn [split_on has_char existsb]; intros H; [reflexivity|].
  apply orb_false_iff in H as [H1 H2]. rewrite Z.eqb_sym, H1. fold (has_char c t) in H2.
  rewrite (IH H2). reflexivity.
Qed.

Lemma print_one s : no_nl s = true -> print s = [PT s].
Proof.
  unfold no_nl, print; intros H. apply negb_true_iff in H. rewrite (split_on_none _ _ H). reflexivity.
Qed.

Lemma print_all l : forallb no_nl l = true -> concat (map print l) = map PT l.
Proof.
  induction l as [|s t IH]; cbn [forallb map concat]; intros H; [reflexivity|].
  apply andb_true_iff in H as [H1 H2]. rewrite (print_one _ H1), (IH H2). reflexivity.
Qed.

Lemma hdr_strings_length f ind sd :
  Z.of_nat (length (hdr_strings f ind sd)) + 1 = header_count f ind.
Proof.
  unfold hdr_strings, header_count. repeat rewrite app_length. repeat rewrite map_length.
  cbn [length]. unfold str. lia.
Qed.

Lemma hdr_strings_last f ind sd :
  last (hdr_strings f ind sd) [] = join sep (ind :: map v_name (depvars ind f)).
Proof.
  unfold hdr_strings. repeat rewrite app_assoc. apply last_last.
Qed.

Lemma has_char_app c a b : has_char c (a ++ b) = has_char c a || has_char c b.
Proof. unfold has_char. apply existsb_app. Qed.

Lemma replace_removes a b s : a <> b -> has_char a (replace_char a b s) = false.
Proof.
  intros H. induction s as [|x t IH]; [reflexivity|]. cbn [replace_char map has_char existsb].
  fold (replace_char a b t). fold (has_char a (replace_char a b t)). rewrite IH, orb_false_r.
  destruct (Z.eqb_spec x a) as [E|E]; apply Z.eqb_neq; congruence.
Qed.

Lemma replace_keeps_absent c a b s : c <> b -> has_char c s = false -> has_char c (replace_char a b s) = false.
Proof.
  intros Hb. induction s as [|x t IH]; [reflexivity|]. cbn [replace_char map has_char existsb].
  intros H. apply orb_false_iff in H as [H1 H2]. fold (replace_char a b t). fold (has_char c (replace_char a b t)).
  rewrite (IH H2), orb_false_r. destruct (x =? a); [apply Z.eqb_neq; exact Hb|exact H1].
Qed.

(* str(value) with line breaks replaced: never a newline, whatever the value *)
Lemma one_line_no_nl v : no_nl (one_line v) = true.
Proof.
  unfold no_nl, one_line. apply negb_true_iff. apply replace_keeps_absent; [discriminate|].
  apply replace_removes. discriminate.
Qed.

(* the header fields other than attribute values *)
Definition hdr_other (f : file) (ind sd : str) : list str :=
  let deps := depvars ind f in
  let a := f_attrs f in
  [ attr_or "PI_NAME" "Unknown" a; attr_or "ORGANIZATION_NAME" "Unknown" a;
    attr_or "SOURCE_DESCRIPTION" "Unknown" a; attr_or "MISSION_NAME" "Unknown" a;
    attr_or "VOLUME_INFO" "1, 1" a; sd ++ [cSP] ++ attr_or "WDATE" "2000, 01, 01" a;
    attr_or "TIME_INTERVAL" "0" a; indep_line f ind; zstr (Z.of_nat (length deps));
    join sep (map (fun _ => s2z "1") deps); join sep (map code_str deps) ]
  ++ map (fun v => join sep [v_name v; units_str v]) deps
  ++ [ s2z "0"; zstr (Z.of_nat (length (myattrs f))) ]
  ++ map fst (myattrs f)
  ++ [ join sep (ind :: map v_name deps) ].

Lemma attr_lines_no_nl my :
  forallb no_nl (map fst my) = true ->
  forallb no_nl (map (fun kv : str * str => fst kv ++ [cCOLON; cSP] ++ one_line (snd kv)) my) = true.
Proof.
  induction my as [|kv t IH]; cbn [map forallb]; intros H; [reflexivity|].
  apply andb_true_iff in H as [H1 H2]. rewrite (IH H2), andb_true_r.
  unfold no_nl in *. apply negb_true_iff in H1. apply negb_true_iff.
  rewrite !has_char_app, H1. cbn [orb]. pose proof (one_line_no_nl (snd kv)) as Q.
  unfold no_nl in Q. apply negb_true_iff in Q. rewrite Q. reflexivity.
Qed.

Lemma hdr_no_nl f ind sd : forallb no_nl (hdr_other f ind sd) = true -> forallb no_nl (hdr_strings f ind sd) = true.
Proof.
  unfold hdr_other, hdr_strings. rewrite !forallb_app. intros H.
  apply andb_true_iff in H as [A H]. apply andb_true_iff in H as [B H].
  apply andb_true_iff in H as [C0 H]. apply andb_true_iff in H as [D0 E].
  rewrite A, B, C0. cbn [andb]. apply andb_true_iff; split; [exact (attr_lines_no_nl _ D0)|exact E].
Qed.

(* declared = actual, for ANY attribute values: if no other printed field (names, units, the fixed lines,
   attribute keys) contains a newline, the text consists of exactly N - 1 header lines (the last one being
   the names line) followed by the data rows *)
Lemma header_count_exact f n ls ind sd :
  impl_write f = Some (n, ls) ->
  indep_name f = Some ind -> get_attr (s2z "SDATE") (f_attrs f) = Some sd ->
  forallb no_nl (hdr_other f ind sd) = true ->
  exists rows, ls = map PT (hdr_strings f ind sd) ++ map PR rows
    /\ Z.of_nat (length (hdr_strings f ind sd)) + 1 = n
    /\ n = Z.of_nat (length (myattrs f)) + Z.of_nat (length (depvars ind f)) + 15
    /\ last (hdr_strings f ind sd) [] = join sep (ind :: map v_name (depvars ind f)).
Proof.
  unfold impl_write; intros W Hi Hs Hn0. pose proof (hdr_no_nl _ _ _ Hn0) as Hn. rewrite Hi, Hs in W.
  destruct (find_var ind f) as [iv|]; [|discriminate]. cbv zeta in W.
  set (rows := transpose_rows (length (v_cells iv)) (filled iv :: map filled (depvars ind f))) in W.
  assert (En : n = header_count f ind) by congruence.
  assert (El : ls = concat (map print (hdr_strings f ind sd)) ++ map (fun r => PR (map fmt6e r)) rows) by congruence.
  subst n ls. clear W.
  rewrite (print_all _ Hn). exists (map (map fmt6e) rows). split; [|split; [|split]].
  - rewrite map_map. reflexivity.
  - apply hdr_strings_length.
  - reflexivity.
  - apply hdr_strings_last.
Qed.

(* ------------------------------------------------------------------ %.6e *)
Lemma ndig_nonneg fuel : forall m, 0 <= ndig fuel m.
Proof.
  induction fuel as [|k IH]; intros m; cbn [ndig]; [lia|].
  destruct (m <? 10); [lia|]. specialize (IH (m / 10)). lia.
Qed.

Lemma ndig_ge1 fuel m : (0 < fuel)%nat -> 1 <= ndig fuel m.
Proof.
  destruct fuel as [|k]; intros H; [inversion H|]. cbn [ndig].
  destruct (m <? 10); [lia|]. pose proof (ndig_nonneg k (m / 10)). lia.
Qed.

Lemma ndig_spec fuel : forall m, 0 < m -> m < 2 ^ Z.of_nat fuel ->
  10 ^ (ndig fuel m - 1) <= m < 10 ^ ndig fuel m.
Proof.
  induction fuel as [|k IH]; intros m Hm Hb.
  - cbn in Hb. lia.
  - cbn [ndig]. destruct (Z.ltb_spec m 10) as [Hs|Hs].
    + cbn. lia.
    + assert (Hq : 0 < m / 10) by (apply Z.div_str_pos; lia).
      assert (Hb' : m / 10 < 2 ^ Z.of_nat k).
      { rewrite Nat2Z.inj_succ, Z.pow_succ_r in Hb by lia.
        apply Z.div_lt_upper_bound; lia. }
      specialize (IH _ Hq Hb').
      assert (Hd : 1 <= ndig k (m / 10)).
      { apply ndig_ge1. destruct k; [cbn in Hb'; lia|lia]. }
      set (d := ndig k (m / 10)) in *.
      replace (1 + d - 1) with (Z.succ (d - 1)) by lia.
      replace (1 + d) with (Z.succ d) by lia.
      rewrite !Z.pow_succ_r by lia.
      assert (Hdm : m = 10 * (m / 10) + m mod 10) by (apply Z.div_mod; lia).
      assert (Hr : 0 <= m mod 10 < 10) by (apply Z.mod_pos_bound; lia).
      lia.
Qed.

Lemma ndigits_slow_spec m : 0 < m -> 1 <= ndigits_slow m /\ 10 ^ (ndigits_slow m - 1) <= m < 10 ^ ndigits_slow m.
Proof.
  intros Hm. unfold ndigits_slow. split.
  - apply ndig_ge1. lia.
  - apply ndig_spec; [exact Hm|].
    rewrite Nat2Z.inj_succ, Z2Nat.id by apply Z.log2_nonneg.
    apply Z.log2_spec; exact Hm.
Qed.

Lemma ndigits_spec m : 0 < m -> 1 <= ndigits m /\ 10 ^ (ndigits m - 1) <= m < 10 ^ ndigits m.
Proof.
  intros Hm. unfold ndigits.
  assert (Hg : 0 <= Z.log2 m * 30103 / 100000).
  { apply Z.div_pos; [|lia]. pose proof (Z.log2_nonneg m). lia. }
  set (g := Z.log2 m * 30103 / 100000) in *.
  destruct ((10 ^ g <=? m) && (m <? 10 ^ (g + 1))) eqn:C1.
  { apply andb_true_iff in C1 as [A B]. apply Z.leb_le in A. apply Z.ltb_lt in B.
    replace (g + 1 - 1) with g by lia. lia. }
  destruct ((1 <=? g) && (10 ^ (g - 1) <=? m) && (m <? 10 ^ g)) eqn:C2.
  { apply andb_true_iff in C2 as [AB C]. apply andb_true_iff in AB as [A B].
    apply Z.leb_le in A, B. apply Z.ltb_lt in C. lia. }
  destruct ((10 ^ (g + 1) <=? m) && (m <? 10 ^ (g + 2))) eqn:C3.
  { apply andb_true_iff in C3 as [A B]. apply Z.leb_le in A. apply Z.ltb_lt in B.
    replace (g + 2 - 1) with (g + 1) by lia. lia. }
  apply ndigits_slow_spec, Hm.
Qed.

Lemma ndigits_unique m d : 0 < m -> 1 <= d -> 10 ^ (d - 1) <= m < 10 ^ d -> ndigits m = d.
Proof.
  intros Hm Hd [H1 H2]. destruct (ndigits_spec m Hm) as [Hn [H3 H4]].
  destruct (Z.lt_trichotomy (ndigits m) d) as [L|[E|G]]; [|exact E|].
  - assert (10 ^ ndigits m <= 10 ^ (d - 1)) by (apply Z.pow_le_mono_r; lia). lia.
  - assert (10 ^ d <= 10 ^ (ndigits m - 1)) by (apply Z.pow_le_mono_r; lia). lia.
Qed.

Lemma rhe_bounds a p : 0 <= a -> 0 < p ->
  (rhe a p = a / p \/ rhe a p = a / p + 1) /\ 2 * Z.abs (rhe a p * p - a) <= p.
Proof.
  intros Ha Hp. unfold rhe.
  assert (Hd : a = p * (a / p) + a mod p) by (apply Z.div_mod; lia).
  assert (Hr : 0 <= a mod p < p) by (apply Z.mod_pos_bound; lia).
  destruct (Z.ltb_spec (2 * (a mod p)) p); [split; [left; reflexivity|nia]|].
  destruct (Z.ltb_spec p (2 * (a mod p))); [split; [right; reflexivity|nia]|].
  destruct (Z.even (a / p)); [split; [left; reflexivity|nia] | split; [right; reflexivity|nia]].
Qed.

Lemma abs_sgn_mul m x : m <> 0 -> 0 <= x -> Z.abs (Z.sgn m * x) = x.
Proof. intros; destruct m; cbn; try lia; destruct x; cbn; lia. Qed.

Lemma pow10_pos k : 0 < 10 ^ k \/ k < 0.
Proof. destruct (Z.lt_ge_cases k 0); [right; lia|left; apply Z.pow_pos_nonneg; lia]. Qed.

(* the result of '%.6e' is a canonical 7-digit decimal *)
Lemma fmt6e_canon x : canon7 (fmt6e x) = true.
Proof.
  unfold fmt6e. destruct (Z.eqb_spec (dm x) 0) as [E|E]; [reflexivity|].
  assert (Ha : 0 < Z.abs (dm x)) by lia.
  destruct (ndigits_spec _ Ha) as [Hn [H1 H2]].
  set (a := Z.abs (dm x)) in *. set (nd := ndigits a) in *.
  destruct (Z.leb_spec nd 7) as [L|L]; unfold canon7; cbn [dm de].
  - rewrite <- Z.mul_assoc, abs_sgn_mul by (first [exact E | apply Z.mul_nonneg_nonneg; [lia|apply Z.pow_nonneg; lia]]).
    assert (P : 0 < 10 ^ (7 - nd)) by (apply Z.pow_pos_nonneg; lia).
    assert (E6 : 10 ^ 6 = 10 ^ (nd - 1) * 10 ^ (7 - nd)) by (rewrite <- Z.pow_add_r by lia; f_equal; lia).
    assert (E7 : 10 ^ 7 = 10 ^ nd * 10 ^ (7 - nd)) by (rewrite <- Z.pow_add_r by lia; f_equal; lia).
    apply orb_true_iff; right. apply andb_true_iff; split; [apply Z.leb_le|apply Z.ltb_lt].
    + rewrite E6. apply Z.mul_le_mono_nonneg_r; lia.
    + rewrite E7. apply Z.mul_lt_mono_pos_r; lia.
  - set (k := nd - 7) in *.
    assert (P : 0 < 10 ^ k) by (apply Z.pow_pos_nonneg; lia).
    destruct (rhe_bounds a (10 ^ k)) as [Hq _]; [lia|exact P|].
    assert (E6 : 10 ^ (nd - 1) = 10 ^ 6 * 10 ^ k) by (rewrite <- Z.pow_add_r by lia; f_equal; lia).
    assert (E7 : 10 ^ nd = 10 ^ 7 * 10 ^ k) by (rewrite <- Z.pow_add_r by lia; f_equal; lia).
    assert (Q1 : 10 ^ 6 <= a / 10 ^ k) by (apply Z.div_le_lower_bound; lia).
    assert (Q2 : a / 10 ^ k < 10 ^ 7) by (apply Z.div_lt_upper_bound; lia).
    destruct (Z.eqb_spec (rhe a (10 ^ k)) (10 ^ 7)) as [R|R]; cbn [dm de].
    + rewrite abs_sgn_mul by (try exact E; lia). apply orb_true_iff; right; reflexivity.
    + rewrite abs_sgn_mul by (try exact E; lia).
      apply orb_true_iff; right. apply andb_true_iff; split; [apply Z.leb_le|apply Z.ltb_lt]; lia.
Qed.

(* printing a canonical 7-digit decimal changes nothing (second cycle) *)
Lemma fmt6e_fixed d : canon7 d = true -> fmt6e d = d.
Proof.
  unfold canon7; intros H. apply orb_true_iff in H as [H|H].
  - apply andb_true_iff in H as [H1 H2]. apply Z.eqb_eq in H1, H2. destruct d as [m e]; cbn in *; subst.
    reflexivity.
  - apply andb_true_iff in H as [H1 H2]. apply Z.leb_le in H1. apply Z.ltb_lt in H2.
    unfold fmt6e. destruct (Z.eqb_spec (dm d) 0) as [E|E]; [rewrite E in H1; cbn in H1; lia|].
    assert (Hn : ndigits (Z.abs (dm d)) = 7) by (apply ndigits_unique; cbn; lia).
    rewrite Hn. cbn [Z.leb Z.compare Pos.compare Pos.compare_cont]. cbn.
    destruct d as [m e]; cbn [dm de] in *. f_equal; [|lia].
    rewrite Z.mul_1_r. rewrite Z.mul_comm. apply Z.abs_sgn.
Qed.

Lemma fmt6e_idem x : fmt6e (fmt6e x) = fmt6e x.
Proof. apply fmt6e_fixed, fmt6e_canon. Qed.

(* seven significant digits: the printed decimal is either exact (coarser input exponent) or within
   half a unit of its last (7th) digit *)
Lemma fmt6e_error x :
  let r := fmt6e x in
  (de r <= de x -> dm r = dm x * 10 ^ (de x - de r))
  /\ (de x < de r -> 2 * Z.abs (dm r * 10 ^ (de r - de x) - dm x) <= 10 ^ (de r - de x)).
Proof.
  cbv zeta. unfold fmt6e. destruct (Z.eqb_spec (dm x) 0) as [E|E].
  - cbn [dm de]. split; intros; [lia|]. rewrite E.
    assert (0 < 10 ^ (0 - de x)) by (apply Z.pow_pos_nonneg; lia). cbn. lia.
  - assert (Ha : 0 < Z.abs (dm x)) by lia.
    destruct (ndigits_spec _ Ha) as [Hn [H1 H2]].
    set (a := Z.abs (dm x)) in *. set (nd := ndigits a) in *.
    destruct (Z.leb_spec nd 7) as [L|L]; cbn [dm de].
    + split; intros H; [|lia].
      replace (de x - (de x - (7 - nd))) with (7 - nd) by lia.
      f_equal. unfold a. rewrite Z.mul_comm. apply Z.abs_sgn.
    + set (k := nd - 7) in *.
      assert (P : 0 < 10 ^ k) by (apply Z.pow_pos_nonneg; lia).
      destruct (rhe_bounds a (10 ^ k)) as [_ Hb]; [lia|exact P|].
      assert (Sg : dm x = Z.sgn (dm x) * a) by (unfold a; symmetry; rewrite Z.mul_comm; apply Z.abs_sgn).
      destruct (Z.eqb_spec (rhe a (10 ^ k)) (10 ^ 7)) as [R|R]; cbn [dm de]; (split; intros H; [lia|]).
      * replace (de x + k + 1 - de x) with (Z.succ k) by lia. rewrite Z.pow_succ_r by lia.
        rewrite R in Hb.
        replace (Z.sgn (dm x) * 10 ^ 6 * (10 * 10 ^ k) - dm x) with (Z.sgn (dm x) * (10 ^ 7 * 10 ^ k - a))
          by (rewrite Sg at 3; change (10 ^ 7) with (10 * 10 ^ 6); ring).
        rewrite Z.abs_mul. replace (Z.abs (Z.sgn (dm x))) with 1 by (destruct (dm x); cbn; lia). lia.
      * replace (de x + k - de x) with k by lia.
        replace (Z.sgn (dm x) * rhe a (10 ^ k) * 10 ^ k - dm x) with (Z.sgn (dm x) * (rhe a (10 ^ k) * 10 ^ k - a))
          by (rewrite Sg at 3; ring).
        rewrite Z.abs_mul. replace (Z.abs (Z.sgn (dm x))) with 1 by (destruct (dm x); cbn; lia). lia.
Qed.

(* ------------------------------------------------------------------ one cell through write + read *)
(* the writer fills a masked cell with the variable's code; the reader compares with [rcode] (the same code
   for dependent variables) *)
Definition cell_rt (rcode wcode : dec) (c : option dec) : cell :=
  cell_apply (D 1 0) rcode (CV (fmt6e (match c with Some d => d | None => wcode end))).

Lemma dec_mul_one d : dec_mul d (D 1 0) = d.
Proof. destruct d as [m e]; unfold dec_mul; cbn [dm de]. f_equal; lia. Qed.

Lemma cell_rt_masked rcode wcode :
  dec_eqb (fmt6e wcode) rcode = true -> cell_rt rcode wcode None = CM.
Proof. unfold cell_rt, cell_apply; intros ->; reflexivity. Qed.

Lemma cell_rt_value rcode wcode d :
  dec_eqb (fmt6e d) rcode = false -> cell_rt rcode wcode (Some d) = CV (fmt6e d).
Proof. unfold cell_rt, cell_apply; intros ->. rewrite dec_mul_one. reflexivity. Qed.

Lemma cell_rt_spec rcode wcode c :
  dec_eqb (fmt6e wcode) rcode = true ->
  (forall d, c = Some d -> dec_eqb (fmt6e d) rcode = false) ->
  cell_rt rcode wcode c = spec_cell c.
Proof.
  intros Hf Hv. destruct c as [d|]; cbn [spec_cell].
  - apply cell_rt_value, Hv; reflexivity.
  - apply cell_rt_masked, Hf.
Qed.

Lemma dec_eqb_refl d : dec_eqb d d = true.
Proof. unfold dec_eqb. rewrite Z.min_id. apply Z.eqb_refl. Qed.

(* a code that is itself a 7-digit decimal: whatever the array's fill value was, masks survive *)
Lemma cell_rt_canon code c :
  canon7 code = true ->
  (forall d, c = Some d -> dec_eqb (fmt6e d) code = false) ->
  cell_rt code code c = spec_cell c.
Proof.
  intros Hc Hv. apply cell_rt_spec; [|exact Hv]. rewrite (fmt6e_fixed _ Hc). apply dec_eqb_refl.
Qed.

(* second cycle on one cell: what was read is written and read back unchanged *)
Lemma cell_second code w c :
  canon7 code = true ->
  let back := fun x => match x with CV d => Some d | _ => None end in
  cell_rt code code (back (cell_rt code w c)) = cell_rt code w c.
Proof.
  intros Hc back. unfold cell_rt at 2 3. unfold cell_apply.
  destruct (dec_eqb (fmt6e match c with Some d => d | None => w end) code) eqn:E; cbn [back].
  - unfold cell_rt, cell_apply. rewrite (fmt6e_fixed _ Hc), dec_eqb_refl. reflexivity.
  - rewrite dec_mul_one. unfold cell_rt, cell_apply. rewrite fmt6e_idem, E, dec_mul_one. reflexivity.
Qed.

(* ------------------------------------------------------------------ single header lines *)
Lemma split_on_app c a b : has_char c a = false -> split_on c (a ++ c :: b) = a :: split_on c b.
Proof.
  induction a as [|x t IH]; cbn [app split_on has_char existsb]; intros H.
  - rewrite Z.eqb_refl. reflexivity.
  - apply orb_false_iff in H as [H1 H2]. rewrite Z.eqb_sym, H1. fold (has_char c t) in H2.
    rewrite (IH H2). reflexivity.
Qed.

Lemma stripped_strip s : stripped s = true -> strip s = s.
Proof. unfold stripped, str_eqb; intros H. apply (list_eqb_eq Z.eqb Z.eqb_eq) in H. exact H. Qed.

Lemma lstrip_sp s : lstrip (cSP :: s) = lstrip s.
Proof. reflexivity. Qed.

Lemma strip_sp s : strip (cSP :: s) = strip s.
Proof. reflexivity. Qed.

(* variable description line "name, units" *)
Lemma parse_desc_print name u :
  has_char cCOMMA name = false -> stripped name = true ->
  has_char cCOMMA u = false -> stripped u = true ->
  parse_desc (join sep [name; u]) = (name, u).
Proof.
  intros H1 H2 H3 H4. unfold parse_desc, join, sep. cbn [app].
  rewrite (split_on_app _ _ _ H1). cbn [nth_str nth].
  change (split_on cCOMMA (cSP :: u)) with
    (if cSP =? cCOMMA then [] :: split_on cCOMMA u
     else match split_on cCOMMA u with h :: r => (cSP :: h) :: r | [] => [[cSP]] end).
  cbn [Z.eqb cSP cCOMMA Pos.eqb]. rewrite (split_on_none _ _ H3).
  rewrite strip_sp, (stripped_strip _ H2), (stripped_strip _ H4). reflexivity.
Qed.

(* user attribute line "key: value" *)
Lemma find_char_app c a b : has_char c a = false -> find_char c (a ++ c :: b) = Some (length a).
Proof.
  induction a as [|x t IH]; cbn [app find_char has_char existsb length]; intros H.
  - rewrite Z.eqb_refl. reflexivity.
  - apply orb_false_iff in H as [H1 H2]. rewrite Z.eqb_sym, H1. fold (has_char c t) in H2.
    rewrite (IH H2). reflexivity.
Qed.

Lemma parse_user_print k v :
  has_char cCOLON k = false -> stripped k = true ->
  parse_user (k ++ [cCOLON; cSP] ++ v) = (k, strip v).
Proof.
  intros H1 H2. unfold parse_user. cbn [app]. rewrite (find_char_app _ _ _ H1).
  rewrite firstn_app, Nat.sub_diag, firstn_all. cbn [firstn]. rewrite app_nil_r.
  replace (skipn (S (length k)) (k ++ cCOLON :: cSP :: v)) with (cSP :: v).
  - rewrite strip_sp, (stripped_strip _ H2). reflexivity.
  - change (S (length k)) with (1 + length k)%nat. rewrite Nat.add_comm.
    rewrite <- (app_nil_r k) at 2. rewrite <- app_assoc. cbn [app].
    replace (k ++ cCOLON :: cSP :: v) with ((k ++ [cCOLON]) ++ cSP :: v) by (rewrite <- app_assoc; reflexivity).
    replace (length k + 1)%nat with (length (k ++ [cCOLON])) by (rewrite app_length; reflexivity).
    rewrite skipn_app, Nat.sub_diag, skipn_all. reflexivity.
Qed.

(* names line: words of the comma-joined clean tokens are the tokens *)
Definition word_tok (s : str) : bool :=
  match s with [] => false | _ => forallb (fun c => negb (is_ws c) && negb (c =? cCOMMA)) s end.

Lemma words_unfold x t :
  words (x :: t) =
  if is_ws x then words t
  else match t with
       | [] => [[x]]
       | y :: _ => if is_ws y then [x] :: words t
                   else match words t with h :: r => (x :: h) :: r | [] => [[x]] end
       end.
Proof. reflexivity. Qed.

Definition nonws (s : str) : bool := forallb (fun c => negb (is_ws c)) s.

Lemma words_nonws_end x t : nonws (x :: t) = true -> words (x :: t) = [x :: t].
Proof.
  revert x; induction t as [|y t IH]; intros x H; unfold nonws in H; cbn [forallb] in H.
  - rewrite andb_true_r in H. apply negb_true_iff in H. rewrite words_unfold, H. reflexivity.
  - apply andb_true_iff in H as [Hx Hr]. apply negb_true_iff in Hx.
    pose proof Hr as Hr'. cbn [forallb] in Hr'. apply andb_true_iff in Hr' as [Hy _]. apply negb_true_iff in Hy.
    rewrite words_unfold, Hx, Hy, (IH y Hr). reflexivity.
Qed.

Lemma words_nonws_sep x t rest : nonws (x :: t) = true ->
  words ((x :: t) ++ cSP :: rest) = (x :: t) :: words rest.
Proof.
  revert x; induction t as [|y t IH]; intros x H; unfold nonws in H; cbn [forallb] in H.
  - rewrite andb_true_r in H. apply negb_true_iff in H. cbn [app].
    rewrite words_unfold, H. change (is_ws cSP) with true. cbn iota.
    rewrite (words_unfold cSP rest). reflexivity.
  - apply andb_true_iff in H as [Hx Hr]. apply negb_true_iff in Hx.
    pose proof Hr as Hr'. cbn [forallb] in Hr'. apply andb_true_iff in Hr' as [Hy _]. apply negb_true_iff in Hy.
    change ((x :: y :: t) ++ cSP :: rest) with (x :: ((y :: t) ++ cSP :: rest)).
    rewrite words_unfold, Hx. change ((y :: t) ++ cSP :: rest) with (y :: (t ++ cSP :: rest)).
    cbn iota. rewrite Hy. change (y :: t ++ cSP :: rest) with ((y :: t) ++ cSP :: rest).
    rewrite (IH y Hr). reflexivity.
Qed.

Lemma word_tok_nonws t : word_tok t = true -> exists x r, t = x :: r /\ nonws t = true /\ has_char cCOMMA t = false.
Proof.
  destruct t as [|x r]; [discriminate|]. cbn [word_tok]. intros H. exists x, r. split; [reflexivity|].
  revert H. generalize (x :: r). intros l. induction l as [|c l IH]; cbn [forallb nonws has_char existsb]; intros H.
  - split; reflexivity.
  - apply andb_true_iff in H as [Hc Hl]. apply andb_true_iff in Hc as [C1 C2].
    destruct (IH Hl) as [I1 I2]. unfold nonws in I1. rewrite C1, I1. apply negb_true_iff in C2.
    rewrite Z.eqb_sym in C2. rewrite C2. split; [reflexivity|exact I2].
Qed.

Lemma replace_none a b s : has_char a s = false -> replace_char a b s = s.
Proof.
  induction s as [|x t IH]; cbn [replace_char map has_char existsb]; intros H; [reflexivity|].
  apply orb_false_iff in H as [H1 H2]. rewrite Z.eqb_sym, H1. f_equal. apply IH, H2.
Qed.

Lemma replace_app a b s t : replace_char a b (s ++ t) = replace_char a b s ++ replace_char a b t.
Proof. unfold replace_char. apply map_app. Qed.

Lemma parse_names_words names :
  names <> [] -> forallb word_tok names = true ->
  words (replace_char cCOMMA cSP (join sep names)) = names.
Proof.
  induction names as [|a t IH]; intros Hne H; [congruence|].
  cbn [forallb] in H. apply andb_true_iff in H as [Ha Ht].
  destruct (word_tok_nonws _ Ha) as (x & r & -> & Hn & Hc).
  destruct t as [|b t'].
  - cbn [join]. rewrite (replace_none _ _ _ Hc). apply words_nonws_end, Hn.
  - change (join sep ((x :: r) :: b :: t')) with ((x :: r) ++ sep ++ join sep (b :: t')).
    rewrite !replace_app, (replace_none _ _ _ Hc).
    change (replace_char cCOMMA cSP sep) with [cSP; cSP]. cbn [app].
    change ((x :: r ++ cSP :: cSP :: replace_char cCOMMA cSP (join sep (b :: t'))))
      with ((x :: r) ++ cSP :: (cSP :: replace_char cCOMMA cSP (join sep (b :: t')))).
    rewrite (words_nonws_sep _ _ _ Hn). rewrite (words_unfold cSP). change (is_ws cSP) with true. cbn iota.
    f_equal. apply IH; [discriminate|exact Ht].
Qed.

(* the names line gives back the names, in order, for every number of variables *)
Lemma parse_names_print names :
  names <> [] -> forallb word_tok names = true ->
  forallb (fun s => negb (has_char cSLASH s)) names = true ->
  parse_names (join sep names) = names.
Proof.
  intros Hne Hw Hs. unfold parse_names. rewrite (parse_names_words _ Hne Hw).
  clear Hne Hw. induction names as [|a t IH]; [reflexivity|].
  cbn [forallb map] in *. apply andb_true_iff in Hs as [H1 H2]. apply negb_true_iff in H1.
  rewrite (replace_none _ _ _ H1), (IH H2). reflexivity.
Qed.

(* auto-detection: the key line is one of the first 99 lines after line 1; if none of them carries the
   eight L100 column names as its first eight tokens, the l100 reader does not claim the file *)
Lemma nth_error_firstn_In {A} (l : list A) n k x : (n < k)%nat -> nth_error l n = Some x -> In x (firstn k l).
Proof.
  revert n k; induction l as [|a t IH]; intros n k Hk H; [destruct n; discriminate|].
  destruct k; [lia|]. destruct n; cbn in *.
  - left. congruence.
  - right. apply (IH n k); [lia|exact H].
Qed.

Lemma detect_ffi ls :
  forallb (fun l => negb (claims l)) (firstn 99 ls) = true -> impl_detect ls = R_ffi1001.
Proof.
  intros H. rewrite forallb_forall in H. unfold impl_detect.
  destruct (find is_level_line (firstn 99 ls)) as [l|] eqn:F.
  - apply find_some in F as [Hin _]. specialize (H _ Hin). apply negb_true_iff in H. rewrite H. reflexivity.
  - destruct (nth_error ls 26) as [l|] eqn:N.
    + assert (Hin : In l (firstn 99 ls)) by (apply (nth_error_firstn_In ls 26 99); [lia|exact N]).
      specialize (H _ Hin). apply negb_true_iff in H. rewrite H. reflexivity.
    + (* no 28th line: lines[-2] is '' -> no tokens -> not claimed *)
      reflexivity.
Qed.

(* a line with fewer than 8 tokens is never claimed: short files, an independent variable called Level *)
Lemma few_tokens_not_claimed l : (length (pline_words l) < 8)%nat -> claims l = false.
Proof.
  intros H. unfold claims. destruct (Z.leb_spec 8 (Z.of_nat (length (pline_words l)))); [lia|reflexivity].
Qed.

(* ------------------------------------------------------------------ concrete files (witnesses, non-vacuity) *)
Definition rt_ok (f : file) : bool :=
  match impl_roundtrip f, spec_roundtrip f with
  | Some r, Some sp => rvars_eqb (r_vars r) sp
  | _, _ => false
  end.
Definition second_ok (f : file) : bool :=
  match impl_roundtrip f, impl_second f with
  | Some r1, Some r2 => rvars_eqb (r_vars r2) (r_vars r1)
  | _, _ => false
  end.
Definition detect_ok (f : file) : bool :=
  match impl_write f with
  | Some (_, ls) => match impl_detect ls with R_ffi1001 => true | R_l100 => false end
  | None => false
  end.

Definition base_attrs (extra : list (str * str)) : list (str * str) :=
  [(s2z "SDATE", s2z "2020, 01, 02"); (s2z "WDATE", s2z "2021, 03, 04"); (s2z "INDEPENDENT_VARIABLE", s2z "t")] ++ extra.
Definition tvar (units code : string) (n : nat) : var :=
  Var (s2z "t") (Some (s2z units)) (Some (s2z code)) (D (-9999) 0) (map (fun i => Some (D (Z.of_nat i) 0)) (seq 0 n)).
Definition avar (name units code : string) (fill : dec) (cells : list (option dec)) (n : nat) : var :=
  Var (s2z name) (Some (s2z units)) (Some (s2z code)) fill (cells ++ repeat (Some (D 15 (-1))) (n - length cells)).

(* a file inside the proved domain: 2 dependent variables, masked cells, wide magnitudes, an attribute
   with a colon, 16 records (34 lines) *)
Definition w_good : file :=
  File (base_attrs [(s2z "REVISION", s2z "R0: first"); (s2z "PI_NAME", s2z "Doe, J.")])
       [tvar "t" "-9999" 16;
        avar "NO" "ppbv" "-9999" (D (-9999) 0) [Some (D 123456789 (-3)); None; Some (D (-3) (-20)); Some (D 4 30); Some (D 0 0)] 16;
        avar "T_K" "K" "-8888.5" (D (-88885) (-1)) [None; Some (D 27315 (-2)); Some (D 99999995 (-4))] 16].
(* same file, 3 records: 21 lines *)
Definition w_short : file :=
  File (base_attrs [])
       [tvar "t" "-9999" 3; avar "NO" "ppbv" "-9999" (D (-9999) 0) [Some (D 1 0); None] 3].
(* independent variable with its own unit and code *)
Definition w_indep : file :=
  File (base_attrs []) [tvar "s" "-7777" 16; avar "NO" "ppbv" "-9999" (D (-9999) 0) [Some (D 1 0); None] 16].
(* attribute value containing a newline *)
Definition w_newline : file :=
  File (base_attrs [(s2z "OTHER_COMMENTS", s2z "one" ++ [cNL] ++ s2z "two")])
       [tvar "t" "-9999" 16; avar "NO" "ppbv" "-9999" (D (-9999) 0) [Some (D 1 0); None] 16].
(* eight-digit missing code *)
Definition w_longcode : file :=
  File (base_attrs [])
       [tvar "t" "-99999999" 16; avar "NO" "ppbv" "-99999999" (D (-99999999) 0) [Some (D 1 0); None] 16].
(* masked array whose fill value is not the missing_value attribute *)
Definition w_fill : file :=
  File (base_attrs [])
       [tvar "t" "-9999" 16; avar "NO" "ppbv" "-9999" (D 1 20) [Some (D 1 0); None] 16].
(* an unmasked value that prints like the code *)
Definition w_collide : file :=
  File (base_attrs [])
       [tvar "t" "-9999" 16; avar "NO" "ppbv" "-9999" (D (-9999) 0) [Some (D (-99990000001) (-7)); None] 16].
Definition w_lod : file :=
  File (base_attrs [(s2z "LLOD_FLAG", s2z "-8888")])
       [tvar "t" "-9999" 16; avar "NO" "ppbv" "-9999" (D (-9999) 0) [Some (D 1 0); None] 16].
Definition w_slash : file :=
  File (base_attrs [])
       [tvar "t" "-9999" 16; avar "NO/NOy" "ppbv" "-9999" (D (-9999) 0) [Some (D 1 0); None] 16].
Definition w_unit_comma : file :=
  File (base_attrs [])
       [tvar "t" "-9999" 16; avar "NO" "mol,m" "-9999" (D (-9999) 0) [Some (D 1 0); None] 16].
(* independent variable called Level: l100 claims the file whatever its length *)
Definition w_level : file :=
  File [(s2z "SDATE", s2z "2020, 01, 02"); (s2z "WDATE", s2z "2021, 03, 04"); (s2z "INDEPENDENT_VARIABLE", s2z "Level")]
       [Var (s2z "Level") (Some (s2z "Level")) (Some (s2z "-9999")) (D (-9999) 0) (map (fun i => Some (D (Z.of_nat i) 0)) (seq 0 16));
        avar "NO" "ppbv" "-9999" (D (-9999) 0) [Some (D 1 0); None] 16].

(* ------------------------------------------------------------------ the missing-code / scale line *)
Lemma split_on_cons_other c x s : x <> c ->
  split_on c (x :: s) = match split_on c s with h :: r => (x :: h) :: r | [] => [[x]] end.
Proof. intros H. cbn [split_on]. destruct (Z.eqb_spec x c); [contradiction|reflexivity]. Qed.

Lemma split_join toks a :
  forallb (fun t => negb (has_char cCOMMA t)) (a :: toks) = true ->
  split_on cCOMMA (join sep (a :: toks)) = a :: map (cons cSP) toks.
Proof.
  revert a; induction toks as [|b t IH]; intros a H; cbn [forallb] in H.
  - rewrite andb_true_r in H. apply negb_true_iff in H. cbn [join map]. apply split_on_none, H.
  - apply andb_true_iff in H as [Ha Hr]. apply negb_true_iff in Ha.
    change (join sep (a :: b :: t)) with (a ++ cCOMMA :: cSP :: join sep (b :: t)).
    rewrite (split_on_app _ _ _ Ha). rewrite split_on_cons_other by discriminate.
    rewrite (IH b Hr). reflexivity.
Qed.

Lemma lstrip_nonws s : nonws s = true -> lstrip s = s.
Proof.
  destruct s as [|x t]; [reflexivity|]. unfold nonws; cbn [forallb lstrip]. intros H.
  apply andb_true_iff in H as [H _]. apply negb_true_iff in H. rewrite H. reflexivity.
Qed.

Lemma nonws_rev s : nonws s = true -> nonws (rev s) = true.
Proof.
  unfold nonws. rewrite !forallb_forall. intros H x Hx. apply H. apply in_rev. exact Hx.
Qed.

Lemma strip_nonws s : nonws s = true -> strip s = s.
Proof.
  intros H. unfold strip, rstrip. rewrite (lstrip_nonws _ H), (lstrip_nonws _ (nonws_rev _ H)).
  apply rev_involutive.
Qed.

Lemma clean_code_facts t : clean_code t = true ->
  (exists c, parse_num t = Some c) /\ nonws t = true /\ has_char cCOMMA t = false.
Proof.
  unfold clean_code. intros H. apply andb_true_iff in H as [H1 H2]. split; [|split].
  - destruct (parse_num t) as [c|]; [exists c; reflexivity|discriminate].
  - unfold nonws. rewrite forallb_forall in *. intros x Hx. specialize (H2 x Hx).
    apply andb_true_iff in H2 as [H2 _]. exact H2.
  - unfold has_char. apply not_true_is_false. intros E. apply existsb_exists in E as (x & Hx & Ex).
    rewrite forallb_forall in H2. specialize (H2 x Hx). apply andb_true_iff in H2 as [_ H2].
    apply negb_true_iff in H2. apply Z.eqb_eq in Ex. subst x. unfold cCOMMA in *. rewrite Z.eqb_refl in H2. discriminate.
Qed.

Definition code_of (t : str) : dec := match parse_num t with Some c => c | None => D 0 0 end.

Lemma all_some_map_some {A B} (g : A -> B) (l : list A) : all_some (map (fun x => Some (g x)) l) = Some (map g l).
Proof. induction l as [|x t IH]; [reflexivity|]. cbn [map all_some]. rewrite IH. reflexivity. Qed.

(* the missing-code line (and the scale line) gives back every token and its value, for ANY number of
   variables: in particular len(missing) = number of dependent variables, which is what positions
   every later header line *)
Lemma eval_list_print toks a :
  forallb clean_code (a :: toks) = true ->
  eval_list (join sep (a :: toks)) = Some (map (fun t => (t, code_of t)) (a :: toks)).
Proof.
  intros H. unfold eval_list.
  assert (Hc : forallb (fun t => negb (has_char cCOMMA t)) (a :: toks) = true).
  { rewrite forallb_forall in *. intros x Hx. destruct (clean_code_facts _ (H x Hx)) as (_ & _ & E). rewrite E. reflexivity. }
  rewrite (split_join _ _ Hc).
  assert (E : map (fun t => option_map (pair (strip t)) (parse_num (strip t))) (a :: map (cons cSP) toks)
              = map (fun t => Some (t, code_of t)) (a :: toks)).
  { cbn [map]. cbn [forallb] in H. apply andb_true_iff in H as [Ha Ht]. f_equal.
    - destruct (clean_code_facts _ Ha) as ((c & P) & N & _). rewrite (strip_nonws _ N). unfold code_of. rewrite P. reflexivity.
    - rewrite map_map. apply map_ext_in. intros t Hin. rewrite forallb_forall in Ht.
      destruct (clean_code_facts _ (Ht t Hin)) as ((c & P) & N & _).
      rewrite strip_sp, (strip_nonws _ N). unfold code_of. rewrite P. reflexivity. }
  rewrite E. apply all_some_map_some.
Qed.

Lemma eval_list_length toks a :
  forallb clean_code (a :: toks) = true ->
  exists ms, eval_list (join sep (a :: toks)) = Some ms /\ length ms = length (a :: toks).
Proof.
  intros H. eexists. split; [apply (eval_list_print _ _ H)|]. rewrite map_length. reflexivity.
Qed.


(* ------------------------------------------------------------------ '%d' never contains a line break *)
Lemma s2z_cons a s : s2z (String a s) = Z.of_N (N_of_ascii a) :: s2z s.
Proof. reflexivity. Qed.

Lemma no_nl_uint d : has_char cNL (s2z (NilEmpty.string_of_uint d)) = false.
Proof.
  induction d; cbn [NilEmpty.string_of_uint]; try reflexivity; rewrite s2z_cons; cbn [has_char existsb];
    fold (has_char cNL (s2z (NilEmpty.string_of_uint d))); rewrite IHd; reflexivity.
Qed.

Lemma no_nl_zstr z : no_nl (zstr z) = true.
Proof.
  unfold no_nl, zstr. apply negb_true_iff. unfold NilZero.string_of_int.
  destruct (Z.to_int z) as [d|d]; unfold NilZero.string_of_uint.
  - destruct d; try reflexivity; apply no_nl_uint.
  - rewrite s2z_cons. cbn [has_char existsb].
    match goal with |- _ || ?x = false => assert (E : x = false) end.
    { fold (has_char cNL (s2z match d with Decimal.Nil => "0"%string | _ => NilEmpty.string_of_uint d end)).
      destruct d; try reflexivity; apply no_nl_uint. }
    rewrite E. reflexivity.
Qed.

(* ------------------------------------------------------------------ the whole header loop *)
Lemma cls_fixed n nm nsc li : 2 <= li <= 9 -> classify n nm nsc li = K_fixed.
Proof. intros; unfold classify; split_tests. Qed.
Lemma cls_skip10 n nm nsc : 0 <= nm -> 0 <= nsc -> 15 <= n -> classify n nm nsc 10 = K_skip.
Proof. intros; unfold classify; split_tests. Qed.
Lemma cls_scale n nm nsc : classify n nm nsc 11 = K_scale.
Proof. unfold classify; split_tests. Qed.
Lemma cls_missing n nm nsc : classify n nm nsc 12 = K_missing.
Proof. unfold classify; split_tests. Qed.
Lemma cls_desc n nm nsc li : 12 < li <= 12 + nm -> classify n nm nsc li = K_desc.
Proof. intros; unfold classify; split_tests. Qed.
Lemma cls_spcount n nm nsc : 0 <= nm -> classify n nm nsc (12 + nm + 1) = K_spcount.
Proof. intros; unfold classify; split_tests. Qed.
Lemma cls_ucount n nm : 0 <= nm -> classify n nm 0 (12 + nm + 2) = K_ucount.
Proof. intros; unfold classify; split_tests. Qed.
Lemma cls_user n nm li : 0 <= nm -> 12 + nm + 2 < li < n -> classify n nm 0 li = K_user.
Proof. intros; unfold classify; split_tests. Qed.
Lemma cls_names n nm : 0 <= nm -> 12 + nm + 2 < n -> classify n nm 0 n = K_names.
Proof. intros; unfold classify; split_tests. Qed.

Lemma run_step n li k l t s s' :
  step n li l s = Some s' -> run_header n li (S k) (PT l :: t) s = run_header n (li + 1) k t s'.
Proof. intros H; cbn [run_header]; rewrite H; reflexivity. Qed.

Ltac split_eqs :=
  repeat match goal with |- context [?a =? ?b] => destruct (Z.eqb_spec a b) end; try lia.

(* lines 2..8 only set attributes *)
Lemma step_fixed_attr n li line sc ms U nsc last A vars : 2 <= li <= 8 ->
  exists A', step n li line (St sc ms U nsc last A vars) = Some (St sc ms U nsc last A' vars).
Proof.
  intros H. unfold step. cbn [s_miss s_nsc]. rewrite cls_fixed by lia.
  destruct (Z.eqb_spec li 2); [eexists; reflexivity|].
  destruct (Z.eqb_spec li 3); [eexists; reflexivity|].
  destruct (Z.eqb_spec li 4); [eexists; reflexivity|].
  destruct (Z.eqb_spec li 5); [eexists; reflexivity|].
  destruct (Z.eqb_spec li 6); [eexists; reflexivity|].
  destruct (Z.eqb_spec li 7); [eexists; reflexivity|].
  destruct (Z.eqb_spec li 8); [eexists; reflexivity|]. lia.
Qed.

(* line 9: the unit of the independent variable as the reader extracts it *)
Definition line9_unit (line : str) : str :=
  let parts := map strip (split_on cCOMMA (strip line)) in
  match parts with [_] => nth_str 0 parts | _ => nth_str 1 parts end.

Lemma step9 n line sc ms U nsc last A vars :
  exists A', step n 9 line (St sc ms U nsc last A vars) = Some (St sc ms (U ++ [line9_unit line]) nsc last A' vars).
Proof.
  unfold step. cbn [s_miss s_nsc]. rewrite cls_fixed by lia.
  change (9 =? 2) with false. change (9 =? 3) with false. change (9 =? 4) with false. change (9 =? 5) with false.
  change (9 =? 6) with false. change (9 =? 7) with false. change (9 =? 8) with false. cbv iota.
  eexists. unfold set_units, upd_attr, line9_unit. cbn [s_scales s_miss s_units s_nsc s_last s_attrs s_vars]. reflexivity.
Qed.

(* description lines: any number *)
Lemma run_desc n sc ms A : forall (dl : list str) (us : list str) li m rest U last,
  Forall2 (fun line u => snd (parse_desc line) = u) dl us ->
  12 < li -> li + Z.of_nat (length dl) <= 13 + Z.of_nat (length ms) ->
  run_header n li (length dl + m) (map PT dl ++ rest) (St sc ms U 0 last A None)
  = run_header n (li + Z.of_nat (length dl)) m rest (St sc ms (U ++ us) 0 last A None).
Proof.
  induction dl as [|l t IH]; intros us li m rest U last HF Hlo Hhi; inversion HF as [|? u ? us' Hu HF']; subst.
  - cbn [length map app Nat.add]. rewrite app_nil_r. f_equal. cbn. lia.
  - cbn [length map app Nat.add]. cbn [length] in Hhi.
    erewrite run_step.
    2:{ unfold step. cbn [s_miss s_nsc]. rewrite cls_desc by lia. unfold set_units.
        cbn [s_scales s_miss s_units s_nsc s_last s_attrs s_vars]. reflexivity. }
    rewrite (IH us' (li + 1) m rest (U ++ [snd (parse_desc l)]) last HF') by lia.
    rewrite <- app_assoc. cbn [app]. f_equal. lia.
Qed.

(* user comment lines: any number; only attributes and the last-attribute pointer change *)
Definition not_continuation (l : str) : bool := match l with c :: _ => negb (c =? 32) | [] => true end.

Lemma run_user n sc ms U : forall (al : list str) li m rest last A,
  forallb not_continuation al = true ->
  12 + Z.of_nat (length ms) + 2 < li -> li + Z.of_nat (length al) <= n ->
  exists A' last',
  run_header n li (length al + m) (map PT al ++ rest) (St sc ms U 0 last A None)
  = run_header n (li + Z.of_nat (length al)) m rest (St sc ms U 0 last' A' None).
Proof.
  induction al as [|l t IH]; intros li m rest last A Hc Hlo Hhi.
  - exists A, last. cbn [length map app Nat.add]. f_equal. cbn. lia.
  - cbn [forallb] in Hc. apply andb_true_iff in Hc as [Hl Ht]. cbn [length] in Hhi.
    assert (Hs : exists A1 last1, step n li l (St sc ms U 0 last A None) = Some (St sc ms U 0 last1 A1 None)).
    { unfold step. cbn [s_miss s_nsc]. rewrite cls_user by lia.
      destruct l as [|c l']; [eexists; eexists; reflexivity|].
      cbn [not_continuation] in Hl. apply negb_true_iff in Hl. apply Z.eqb_neq in Hl.
      destruct c as [|p|p]; try (eexists; eexists; reflexivity).
      do 6 (try (destruct p as [p|p|]; try (eexists; eexists; reflexivity))). exfalso; apply Hl; reflexivity. }
    destruct Hs as (A1 & last1 & Hs).
    destruct (IH (li + 1) m rest last1 A1 Ht ltac:(lia) ltac:(lia)) as (A' & last' & E).
    exists A', last'. cbn [length map app Nat.add]. rewrite (run_step _ _ _ _ _ _ _ Hs), E. f_equal. lia.
Qed.


(* THE HEADER STATE MACHINE ON A WHOLE HEADER, for any number of description and comment lines:
   if the scale and missing lines evaluate, there are as many description lines as missing codes,
   the special-comment count is 0, no comment line starts with a blank and the declared count is
   comments + descriptions + 15, the loop consumes exactly the header and ends with the names of the
   names line, the codes of the missing line and the units of line 9 and of the description lines *)
Lemma header_run n l2 l3 l4 l5 l6 l7 l8 l9 l10 l11 l12 dl us l13 l14 al lnames scs mss v0 vs rest :
  n = Z.of_nat (length al) + Z.of_nat (length dl) + 15 ->
  eval_list l11 = Some scs -> eval_list l12 = Some mss -> length mss = length dl ->
  Forall2 (fun line u => snd (parse_desc line) = u) dl us ->
  parse_int l13 = Some 0 -> forallb not_continuation al = true ->
  parse_names lnames = v0 :: vs ->
  exists A last,
  run_header n 2 (11 + (length dl + (2 + (length al + 1))))
    (map PT ([l2; l3; l4; l5; l6; l7; l8; l9; l10; l11; l12] ++ dl ++ [l13; l14] ++ al ++ [lnames]) ++ rest) (s0_of n)
  = Some (St (map snd scs) mss (line9_unit l9 :: us) 0 last A (Some (v0 :: vs)), rest).
Proof.
  intros Hn Hsc Hms Hlen HF H13 Hal Hnames. unfold s0_of.
  cbn [map app Nat.add].
  destruct (step_fixed_attr n 2 l2 [] [] [] 0 None [(s2z "fmt", s2z "1001"); (s2z "n_header_lines", zstr n)] None ltac:(lia)) as (A2 & E2).
  rewrite (run_step _ _ _ _ _ _ _ E2). cbn [Z.add Pos.add Pos.succ].
  destruct (step_fixed_attr n 3 l3 [] [] [] 0 None A2 None ltac:(lia)) as (A3 & E3). rewrite (run_step _ _ _ _ _ _ _ E3). cbn [Z.add Pos.add Pos.succ].
  destruct (step_fixed_attr n 4 l4 [] [] [] 0 None A3 None ltac:(lia)) as (A4 & E4). rewrite (run_step _ _ _ _ _ _ _ E4). cbn [Z.add Pos.add Pos.succ].
  destruct (step_fixed_attr n 5 l5 [] [] [] 0 None A4 None ltac:(lia)) as (A5 & E5). rewrite (run_step _ _ _ _ _ _ _ E5). cbn [Z.add Pos.add Pos.succ].
  destruct (step_fixed_attr n 6 l6 [] [] [] 0 None A5 None ltac:(lia)) as (A6 & E6). rewrite (run_step _ _ _ _ _ _ _ E6). cbn [Z.add Pos.add Pos.succ].
  destruct (step_fixed_attr n 7 l7 [] [] [] 0 None A6 None ltac:(lia)) as (A7 & E7). rewrite (run_step _ _ _ _ _ _ _ E7). cbn [Z.add Pos.add Pos.succ].
  destruct (step_fixed_attr n 8 l8 [] [] [] 0 None A7 None ltac:(lia)) as (A8 & E8). rewrite (run_step _ _ _ _ _ _ _ E8). cbn [Z.add Pos.add Pos.succ].
  destruct (step9 n l9 [] [] [] 0 None A8 None) as (A9 & E9). rewrite (run_step _ _ _ _ _ _ _ E9). cbn [Z.add Pos.add Pos.succ app].
  (* line 10 is skipped *)
  erewrite run_step.
  2:{ unfold step. cbn [s_miss s_nsc length]. rewrite cls_skip10 by lia. reflexivity. }
  cbn [Z.add Pos.add Pos.succ].
  (* scale factors, missing codes *)
  erewrite run_step.
  2:{ unfold step. cbn [s_miss s_nsc length]. rewrite cls_scale, Hsc. reflexivity. }
  cbn [Z.add Pos.add Pos.succ s_scales s_miss s_units s_nsc s_last s_attrs s_vars].
  erewrite run_step.
  2:{ unfold step. cbn [s_miss s_nsc length]. rewrite cls_missing, Hms. reflexivity. }
  cbn [Z.add Pos.add Pos.succ s_scales s_miss s_units s_nsc s_last s_attrs s_vars].
  (* description lines *)
  rewrite map_app, <- app_assoc.
  rewrite (run_desc n (map snd scs) mss A9 dl us 13 _ _ [line9_unit l9] None HF) by lia.
  cbn [map app Nat.add].
  (* special comment count = 0, user comment count *)
  erewrite run_step.
  2:{ unfold step. cbn [s_miss s_nsc]. replace (13 + Z.of_nat (length dl)) with (12 + Z.of_nat (length mss) + 1) by lia.
      rewrite cls_spcount by lia. rewrite H13. reflexivity. }
  erewrite run_step.
  2:{ unfold step. cbn [s_miss s_nsc]. replace (13 + Z.of_nat (length dl) + 1) with (12 + Z.of_nat (length mss) + 2) by lia.
      rewrite cls_ucount by lia. reflexivity. }
  cbn [s_scales s_miss s_units s_nsc s_last s_attrs s_vars].
  (* user comments *)
  rewrite map_app, <- app_assoc.
  destruct (run_user n (map snd scs) mss (line9_unit l9 :: us) al (13 + Z.of_nat (length dl) + 1 + 1) 1
              (map PT [lnames] ++ rest) None A9 Hal ltac:(lia) ltac:(lia)) as (A' & last' & EU).
  rewrite EU.
  (* names line *)
  cbn [map app]. cbn [run_header].
  assert (EN : step n (13 + Z.of_nat (length dl) + 1 + 1 + Z.of_nat (length al)) lnames
                 (St (map snd scs) mss (line9_unit l9 :: us) 0 last' A' None)
               = Some (St (map snd scs) mss (line9_unit l9 :: us) 0 last' (set_attr (s2z "TFLAG") v0 A') (Some (v0 :: vs)))).
  { unfold step. cbn [s_miss s_nsc].
    replace (13 + Z.of_nat (length dl) + 1 + 1 + Z.of_nat (length al)) with n by lia.
    rewrite cls_names by lia. rewrite Hnames. reflexivity. }
  rewrite EN. eexists. eexists. reflexivity.
Qed.

(* line 9 "name, units" gives the units back *)
Lemma line9_print ind u :
  stripped (join sep [ind; u]) = true -> has_char cCOMMA ind = false ->
  has_char cCOMMA u = false -> stripped u = true ->
  line9_unit (join sep [ind; u]) = u.
Proof.
  intros Hs Hi Hu Su. unfold line9_unit. rewrite (stripped_strip _ Hs).
  assert (Hc : forallb (fun t => negb (has_char cCOMMA t)) [ind; u] = true) by (cbn [forallb]; rewrite Hi, Hu; reflexivity).
  rewrite (split_join [u] ind Hc). cbn [map nth_str nth]. rewrite strip_sp. apply stripped_strip, Su.
Qed.

Definition wrows (f : file) (ind : str) (iv : var) : list (list dec) :=
  map (map fmt6e) (transpose_rows (length (v_cells iv)) (filled iv :: map filled (depvars ind f))).

Lemma impl_write_shape f n ls ind sd iv :
  impl_write f = Some (n, ls) ->
  indep_name f = Some ind -> get_attr (s2z "SDATE") (f_attrs f) = Some sd -> find_var ind f = Some iv ->
  forallb no_nl (hdr_other f ind sd) = true ->
  ls = map PT (hdr_strings f ind sd) ++ map PR (wrows f ind iv) /\ n = header_count f ind.
Proof.
  unfold impl_write; intros W Hi Hs Hf Hn0. pose proof (hdr_no_nl _ _ _ Hn0) as Hn. rewrite Hi, Hs, Hf in W.
  cbv zeta in W.
  set (rows := transpose_rows (length (v_cells iv)) (filled iv :: map filled (depvars ind f))) in W.
  assert (En : n = header_count f ind) by congruence.
  assert (El : ls = concat (map print (hdr_strings f ind sd)) ++ map (fun r => PR (map fmt6e r)) rows) by congruence.
  subst n ls. rewrite (print_all _ Hn). unfold wrows. fold rows. rewrite map_map. split; reflexivity.
Qed.

(* hypotheses on the input file under which the writer's header is read back (all booleans) *)
Definition desc_ok (v : var) : bool :=
  negb (has_char cCOMMA (v_name v)) && stripped (v_name v)
  && negb (has_char cCOMMA (units_str v)) && stripped (units_str v).
Definition header_ok (f : file) (ind : str) : bool :=
  let deps := depvars ind f in
  match deps with [] => false | _ => true end
  && forallb clean_code (map code_str deps)
  && forallb desc_ok deps
  && forallb not_continuation (map (fun kv : str * str => fst kv ++ [cCOLON; cSP] ++ one_line (snd kv)) (myattrs f))
  && forallb word_tok (ind :: map v_name deps)
  && forallb (fun s => negb (has_char cSLASH s)) (ind :: map v_name deps).

Lemma desc_lines_parse deps : forallb desc_ok deps = true ->
  Forall2 (fun line u => snd (parse_desc line) = u)
          (map (fun v => join sep [v_name v; units_str v]) deps) (map units_str deps).
Proof.
  induction deps as [|v t IH]; cbn [forallb map]; intros H; constructor.
  - apply andb_true_iff in H as [H _]. unfold desc_ok in H.
    apply andb_true_iff in H as [H H4]. apply andb_true_iff in H as [H H3]. apply andb_true_iff in H as [H1 H2].
    apply negb_true_iff in H1, H3. rewrite (parse_desc_print _ _ H1 H2 H3 H4). reflexivity.
  - apply IH. apply andb_true_iff in H as [_ H]. exact H.
Qed.

(* WHOLE FILE, header part: the reader's loop run on the writer's output, for any number of dependent
   variables, attributes and records, ends exactly at the first data row with the variable names in
   order, every missing-code token, the units of every dependent variable and what line 9 carries *)
Lemma write_then_read_header f n ls ind sd iv :
  impl_write f = Some (n, ls) ->
  indep_name f = Some ind -> get_attr (s2z "SDATE") (f_attrs f) = Some sd -> find_var ind f = Some iv ->
  forallb no_nl (hdr_other f ind sd) = true ->
  header_ok f ind = true ->
  exists s,
    run_header n 2 (Z.to_nat (n - 1)) ls (s0_of n) = Some (s, map PR (wrows f ind iv))
    /\ s_vars s = Some (ind :: map v_name (depvars ind f))
    /\ s_miss s = map (fun t => (t, code_of t)) (map code_str (depvars ind f))
    /\ s_units s = line9_unit (indep_line f ind) :: map units_str (depvars ind f)
    /\ s_scales s = map (fun _ => D 1 0) (depvars ind f)
    /\ s_nsc s = 0.
Proof.
  intros W Hi Hs Hf Hn Hok.
  destruct (impl_write_shape _ _ _ _ _ _ W Hi Hs Hf Hn) as [El En]. subst ls. unfold header_count in En.
  set (rows := wrows f ind iv).
  unfold header_ok in Hok.
  apply andb_true_iff in Hok as [Hok Hsl]. apply andb_true_iff in Hok as [Hok Hw].
  apply andb_true_iff in Hok as [Hok Hal]. apply andb_true_iff in Hok as [Hok Hd].
  apply andb_true_iff in Hok as [Hne Hcodes].
  set (deps := depvars ind f) in *. set (my := myattrs f) in *.
  destruct deps as [|d0 dt] eqn:Edeps; [discriminate|]. rewrite <- Edeps in *.
  assert (Hones : forallb clean_code (map (fun _ : var => s2z "1") deps) = true).
  { clear. induction deps as [|v t IH]; [reflexivity|]. cbn [map forallb]. rewrite IH. reflexivity. }
  set (scs := map (fun t => (t, code_of t)) (map (fun _ : var => s2z "1") deps)).
  assert (Esc : eval_list (join sep (map (fun _ : var => s2z "1") deps)) = Some scs).
  { unfold scs. rewrite Edeps in *. cbn [map] in *. apply eval_list_print, Hones. }
  assert (Ems : eval_list (join sep (map code_str deps)) = Some (map (fun t => (t, code_of t)) (map code_str deps))).
  { rewrite Edeps in *. cbn [map] in *. apply eval_list_print, Hcodes. }
  assert (Enames : parse_names (join sep (ind :: map v_name deps)) = ind :: map v_name deps).
  { apply parse_names_print; [discriminate|exact Hw|exact Hsl]. }
  destruct (header_run n
              (attr_or "PI_NAME" "Unknown" (f_attrs f)) (attr_or "ORGANIZATION_NAME" "Unknown" (f_attrs f))
              (attr_or "SOURCE_DESCRIPTION" "Unknown" (f_attrs f)) (attr_or "MISSION_NAME" "Unknown" (f_attrs f))
              (attr_or "VOLUME_INFO" "1, 1" (f_attrs f)) (sd ++ [cSP] ++ attr_or "WDATE" "2000, 01, 01" (f_attrs f))
              (attr_or "TIME_INTERVAL" "0" (f_attrs f)) (indep_line f ind) (zstr (Z.of_nat (length deps)))
              (join sep (map (fun _ : var => s2z "1") deps)) (join sep (map code_str deps))
              (map (fun v => join sep [v_name v; units_str v]) deps) (map units_str deps)
              (s2z "0") (zstr (Z.of_nat (length my)))
              (map (fun kv : str * str => fst kv ++ [cCOLON; cSP] ++ one_line (snd kv)) my)
              (join sep (ind :: map v_name deps))
              scs (map (fun t => (t, code_of t)) (map code_str deps)) ind (map v_name deps) (map PR rows))
    as (A & last & ER).
  - rewrite !map_length. exact En.
  - exact Esc.
  - exact Ems.
  - rewrite !map_length. reflexivity.
  - apply desc_lines_parse, Hd.
  - reflexivity.
  - exact Hal.
  - exact Enames.
  - eexists. split; [|repeat split].
    + replace (Z.to_nat (n - 1)) with (11 + (length (map (fun v => join sep [v_name v; units_str v]) deps)
              + (2 + (length (map (fun kv : str * str => fst kv ++ [cCOLON; cSP] ++ one_line (snd kv)) my) + 1))))%nat.
      * unfold hdr_strings. fold deps. fold my. exact ER.
      * rewrite !map_length. rewrite En. unfold str in *. lia.
    + reflexivity.
    + reflexivity.
    + reflexivity.
    + cbn [s_scales]. unfold scs. rewrite !map_map. apply map_ext. reflexivity.
    + reflexivity.
Qed.

(* the reader applied to the writer's output = the data stage applied to that header state *)
Lemma roundtrip_through_header f n ls ind sd iv :
  impl_write f = Some (n, ls) ->
  indep_name f = Some ind -> get_attr (s2z "SDATE") (f_attrs f) = Some sd -> find_var ind f = Some iv ->
  forallb no_nl (hdr_other f ind sd) = true ->
  header_ok f ind = true ->
  exists s,
    impl_roundtrip f = read_data n s (map PR (wrows f ind iv))
    /\ s_vars s = Some (ind :: map v_name (depvars ind f))
    /\ s_miss s = map (fun t => (t, code_of t)) (map code_str (depvars ind f))
    /\ s_units s = line9_unit (indep_line f ind) :: map units_str (depvars ind f)
    /\ s_scales s = map (fun _ => D 1 0) (depvars ind f)
    /\ s_nsc s = 0.
Proof.
  intros W Hi Hs Hf Hn Hok.
  destruct (write_then_read_header _ _ _ _ _ _ W Hi Hs Hf Hn Hok) as (s & R & P).
  exists s. split; [|exact P]. unfold impl_roundtrip, impl_read. rewrite W, R. reflexivity.
Qed.

(* ------------------------------------------------------------------ the data stage on whole files *)
Lemma str_eqb_eq a b : str_eqb a b = true <-> a = b.
Proof. apply (list_eqb_eq Z.eqb Z.eqb_eq). Qed.
Lemma str_eqb_sym a b : str_eqb a b = str_eqb b a.
Proof.
  destruct (str_eqb a b) eqn:E1, (str_eqb b a) eqn:E2; try reflexivity.
  - apply str_eqb_eq in E1. subst. assert (H : str_eqb b b = true) by (apply str_eqb_eq; reflexivity). congruence.
  - apply str_eqb_eq in E2. subst. assert (H : str_eqb a a = true) by (apply str_eqb_eq; reflexivity). congruence.
Qed.

Lemma dtb_rows rows : drop_trailing_blank (map PR rows) = map PR rows.
Proof.
  induction rows as [|r t IH]; [reflexivity|]. cbn [map drop_trailing_blank]. rewrite IH.
  destruct (map PR t); reflexivity.
Qed.

Lemma data_rows_PR (rows : list (list dec)) :
  flat_map (fun l => match data_row l with Some r => [r] | None => [] end) (map PR rows) = map (map CV) rows.
Proof. induction rows as [|r t IH]; [reflexivity|]. cbn [map flat_map data_row app]. rewrite IH. reflexivity. Qed.

Lemma concat_length_uniform {A} (rows : list (list A)) w :
  Forall (fun r => length r = w) rows -> length (concat rows) = (length rows * w)%nat.
Proof.
  induction 1 as [|r t Hr Ht IH]; [reflexivity|]. cbn [concat length]. rewrite app_length, IH, Hr. cbn. reflexivity.
Qed.

Lemma chunks_concat {A} (rows : list (list A)) w :
  (0 < w)%nat -> Forall (fun r => length r = w) rows -> chunks (length rows) w (concat rows) = rows.
Proof.
  intros Hw. induction 1 as [|r t Hr Ht IH]; [reflexivity|]. cbn [length chunks concat].
  destruct (r ++ concat t) as [|x l] eqn:E.
  - apply (f_equal (@length A)) in E. rewrite app_length, Hr in E. cbn in E. lia.
  - rewrite <- E. rewrite firstn_app, skipn_app, Hr, Nat.sub_diag. rewrite <- Hr at 1 3. rewrite firstn_all, skipn_all.
    cbn [firstn skipn app]. rewrite app_nil_r. rewrite IH. reflexivity.
Qed.

Lemma column_map {A B} (g : A -> B) i (rows : list (list A)) : column i (map (map g) rows) = map g (column i rows).
Proof.
  induction rows as [|r t IH]; [reflexivity|]. cbn [map column]. rewrite nth_error_map.
  destruct (nth_error r i); cbn [option_map map]; rewrite IH; reflexivity.
Qed.

(* total version of build_vars *)
Fixpoint exp_vars (names : list str) (vi : nat) (scales : list dec) (miss : list (str * dec)) (units : list str)
                  (rows : list (list cell)) : list rvar :=
  match names with
  | [] => []
  | nm :: t =>
      let ms := nth vi miss ([], D 0 0) in
      RVar nm (nth vi units []) (fst ms) (snd ms) (map (cell_apply (nth vi scales (D 1 0)) (snd ms)) (column vi rows))
      :: exp_vars t (S vi) scales miss units rows
  end.

Lemma build_vars_exp rows scales miss units : forall names vi,
  (vi + length names <= length scales)%nat -> (vi + length names <= length miss)%nat ->
  (vi + length names <= length units)%nat ->
  build_vars names vi scales miss units rows = Some (exp_vars names vi scales miss units rows).
Proof.
  induction names as [|nm t IH]; intros vi H1 H2 H3; [reflexivity|]. cbn [length] in *. cbn [build_vars exp_vars].
  rewrite (nth_error_nth' scales (D 1 0)) by lia. rewrite (nth_error_nth' miss ([], D 0 0)) by lia.
  rewrite (nth_error_nth' units []) by lia. rewrite IH by lia. reflexivity.
Qed.

Lemma exp_vars_names rows scales miss units : forall names vi,
  map r_name (exp_vars names vi scales miss units rows) = names.
Proof. induction names as [|nm t IH]; intros vi; [reflexivity|]. cbn [exp_vars map r_name]. rewrite IH. reflexivity. Qed.

Definition put_var (v : rvar) : list rvar -> list rvar :=
  fix put (s : list rvar) : list rvar :=
    match s with
    | [] => [v]
    | w :: r => if str_eqb (r_name w) (r_name v) then v :: r else w :: put r
    end.
Lemma dedup_unfold v t seen : dedup_vars seen (v :: t) = dedup_vars (put_var v seen) t.
Proof. reflexivity. Qed.

Lemma put_var_fresh v seen :
  forallb (fun y => negb (str_eqb y (r_name v))) (map r_name seen) = true -> put_var v seen = seen ++ [v].
Proof.
  induction seen as [|w r IH]; cbn [map forallb]; intros H; [reflexivity|].
  apply andb_true_iff in H as [H1 H2]. apply negb_true_iff in H1. cbn [put_var app]. rewrite H1.
  fold (put_var v). rewrite (IH H2). reflexivity.
Qed.

Lemma uniq_front a x b : uniq (a ++ x :: b) = true -> forallb (fun y => negb (str_eqb y x)) a = true.
Proof.
  induction a as [|y a' IH]; cbn [app uniq forallb]; intros H; [reflexivity|].
  apply andb_true_iff in H as [H1 H2]. rewrite (IH H2), andb_true_r.
  apply negb_true_iff in H1. unfold in_strs in H1. rewrite existsb_app in H1. apply orb_false_iff in H1 as [_ H1].
  cbn [existsb] in H1. apply orb_false_iff in H1 as [H1 _]. rewrite H1. reflexivity.
Qed.

(* the variables dictionary keeps every variable when the names are distinct *)
Lemma dedup_id : forall l seen, uniq (map r_name seen ++ map r_name l) = true -> dedup_vars seen l = seen ++ l.
Proof.
  induction l as [|v t IH]; intros seen H; [cbn; rewrite app_nil_r; reflexivity|].
  rewrite dedup_unfold. cbn [map] in H. rewrite (put_var_fresh _ _ (uniq_front _ _ _ H)).
  rewrite IH; [rewrite <- app_assoc; reflexivity|]. rewrite map_app, <- app_assoc. exact H.
Qed.

Lemma last_index_absent k : forall t i acc, in_strs k t = false -> last_index k t i acc = acc.
Proof.
  induction t as [|x t IH]; intros i acc H; [reflexivity|]. unfold in_strs in H. cbn [existsb] in H.
  apply orb_false_iff in H as [H1 H2]. cbn [last_index]. rewrite str_eqb_sym, H1. apply IH. exact H2.
Qed.

Lemma last_index_first k t : uniq (k :: t) = true -> last_index k (k :: t) 0 0 = 0%nat.
Proof.
  cbn [uniq]. intros H. apply andb_true_iff in H as [H _]. apply negb_true_iff in H.
  cbn [last_index]. destruct (str_eqb k k); apply last_index_absent; exact H.
Qed.

(* THE DATA STAGE ON WHOLE FILES: any number of rows and columns.  If every data row has as many cells
   as there are names, the names are distinct, there are enough scales / codes / units and the first
   column is a valid time, read_data returns one variable per name, in order, with the i-th unit,
   the i-th code (the first code twice) and the i-th column masked against that code. *)
Lemma read_data_rows n s nm0 nms (rows : list (list dec)) r0 rt :
  s_vars s = Some (nm0 :: nms) -> uniq (nm0 :: nms) = true ->
  rows = r0 :: rt -> Forall (fun r => length r = length (nm0 :: nms)) rows ->
  (length (nm0 :: nms) <= S (length (s_scales s)))%nat ->
  (length (nm0 :: nms) <= length (firstn 1 (s_miss s) ++ s_miss s))%nat ->
  (length (nm0 :: nms) <= length (s_units s))%nat ->
  forallb t_ok (map CV (column 0 rows)) = true ->
  read_data n s (map PR rows)
  = Some (RFile n (s_attrs s)
            (exp_vars (nm0 :: nms) 0 (D 1 0 :: s_scales s) (firstn 1 (s_miss s) ++ s_miss s) (s_units s) (map (map CV) rows))).
Proof.
  intros Hv Hu Hr HF Hs Hm Hun Ht. unfold read_data. rewrite Hv, dtb_rows.
  assert (Hne : map PR rows = PR r0 :: map PR rt) by (rewrite Hr; reflexivity).
  rewrite Hne at 1. cbv zeta. rewrite map_length, data_rows_PR.
  assert (HF' : Forall (fun r : list cell => length r = length (nm0 :: nms)) (map (map CV) rows)).
  { clear -HF. induction HF; constructor; [rewrite map_length; assumption|assumption]. }
  assert (Hr' : map (map CV) rows = map CV r0 :: map (map CV) rt) by (rewrite Hr; reflexivity).
  rewrite Hr' at 1.
  assert (Hall : forallb (fun r : list cell => Nat.eqb (length r) (length (map CV r0))) (map (map CV) rows) = true).
  { apply forallb_forall. intros r Hin. rewrite Forall_forall in HF'. rewrite (HF' r Hin).
    assert (In (map CV r0) (map (map CV) rows)) by (rewrite Hr'; left; reflexivity).
    rewrite (HF' _ H). apply Nat.eqb_refl. }
  rewrite Hall. cbn [negb].
  rewrite (concat_length_uniform _ _ HF'), map_length, Nat.eqb_refl. cbn [negb].
  replace (length rows) with (length (map (map CV) rows)) by apply map_length.
  assert (Hw : (0 < length (nm0 :: nms))%nat) by (cbn [length]; apply Nat.lt_0_succ).
  rewrite (chunks_concat _ _ Hw HF').
  rewrite build_vars_exp by (cbn [length] in *; unfold str in *; lia).
  rewrite dedup_id by (cbn [map app]; rewrite exp_vars_names; exact Hu).
  cbn [nth_str nth]. rewrite (last_index_first _ _ Hu), column_map, Ht. reflexivity.
Qed.


(* ------------------------------------------------------------------ writer rows, whole round trip *)
Lemma transpose_rows_shape n : forall cols,
  length (transpose_rows n cols) = n /\ Forall (fun r => length r = length cols) (transpose_rows n cols).
Proof.
  induction n as [|k IH]; intros cols; cbn [transpose_rows]; [split; [reflexivity|constructor]|].
  destruct (IH (map (@tl dec) cols)) as [L F]. split; [cbn [length]; rewrite L; reflexivity|].
  constructor; [apply map_length|]. rewrite map_length in F. exact F.
Qed.

(* a column of the transposed table is the variable's (filled) cell list *)
Lemma column_transpose n : forall cols i,
  Forall (fun c => length c = n) cols -> (i < length cols)%nat ->
  column i (transpose_rows n cols) = nth i cols [].
Proof.
  induction n as [|k IH]; intros cols i HF Hi.
  - cbn [transpose_rows column]. rewrite Forall_forall in HF.
    assert (H : length (nth i cols []) = 0%nat) by (apply HF, nth_In, Hi). destruct (nth i cols []); [reflexivity|discriminate].
  - cbn [transpose_rows column]. rewrite nth_error_map, (nth_error_nth' cols [] Hi). cbn [option_map].
    rewrite IH.
    + replace (nth i (map (@tl dec) cols) []) with (tl (nth i cols [])) by (symmetry; apply (map_nth (@tl dec) cols [] i)).
      rewrite Forall_forall in HF. assert (H : length (nth i cols []) = S k) by (apply HF, nth_In, Hi).
      destruct (nth i cols []) as [|x c']; [discriminate|reflexivity].
    + clear -HF. induction HF as [|c t Hc Ht IHt]; constructor; [|exact IHt].
      destruct c; [discriminate|]. cbn [tl length] in *. lia.
    + rewrite map_length. exact Hi.
Qed.

Lemma PR_inj a b : map PR a = map PR b -> a = b.
Proof.
  revert b; induction a as [|x t IH]; intros [|y u] H; try discriminate; [reflexivity|].
  cbn [map] in H. injection H as -> H. f_equal. apply IH, H.
Qed.

(* what the reader returns for the writer's output, as an explicit function of the input file *)
Definition expected_vars (f : file) (ind : str) (iv : var) : list rvar :=
  let deps := depvars ind f in
  let M := map (fun t => (t, code_of t)) (map code_str deps) in
  exp_vars (ind :: map v_name deps) 0 (D 1 0 :: map (fun _ => D 1 0) deps) (firstn 1 M ++ M)
           (line9_unit (indep_line f ind) :: map units_str deps) (map (map CV) (wrows f ind iv)).

(* boolean side conditions of the data stage *)
Definition data_ok (f : file) (ind : str) (iv : var) : bool :=
  (1 <=? Z.of_nat (length (v_cells iv)))
  && forallb (fun v => Nat.eqb (length (v_cells v)) (length (v_cells iv))) (depvars ind f)
  && uniq (ind :: map v_name (depvars ind f))
  && forallb t_ok (map CV (column 0 (wrows f ind iv))).

(* WHOLE FILE: write then read, header and data, any number of variables, attributes and records *)
Lemma roundtrip_whole f n ls ind sd iv :
  impl_write f = Some (n, ls) ->
  indep_name f = Some ind -> get_attr (s2z "SDATE") (f_attrs f) = Some sd -> find_var ind f = Some iv ->
  forallb no_nl (hdr_other f ind sd) = true ->
  header_ok f ind = true -> data_ok f ind iv = true ->
  exists A, impl_roundtrip f = Some (RFile n A (expected_vars f ind iv)).
Proof.
  intros W Hi Hs Hf Hn Hok Hd.
  destruct (roundtrip_through_header _ _ _ _ _ _ W Hi Hs Hf Hn Hok) as (s & R & Pv & Pm & Pu & Psc & _).
  unfold data_ok in Hd. apply andb_true_iff in Hd as [Hd Ht]. apply andb_true_iff in Hd as [Hd Hu].
  apply andb_true_iff in Hd as [Hrec Hlen]. apply Z.leb_le in Hrec.
  unfold header_ok in Hok. repeat (apply andb_true_iff in Hok as [Hok _]).
  set (deps := depvars ind f) in *.
  destruct deps as [|d0 dt] eqn:Edeps; [discriminate|]. rewrite <- Edeps in *.
  set (cols := filled iv :: map filled deps).
  destruct (transpose_rows_shape (length (v_cells iv)) cols) as [Ln Fw].
  assert (Hrows : exists r0 rt, wrows f ind iv = r0 :: rt).
  { unfold wrows. fold deps. fold cols. destruct (transpose_rows (length (v_cells iv)) cols) as [|r0 rt]; [cbn in Ln; lia|].
    eexists. eexists. reflexivity. }
  destruct Hrows as (r0 & rt & Hr).
  exists (s_attrs s). rewrite R.
  rewrite (read_data_rows n s ind (map v_name deps) (wrows f ind iv) r0 rt Pv Hu Hr).
  - unfold expected_vars. fold deps. rewrite Pm, Pu, Psc. reflexivity.
  - unfold wrows. fold deps. fold cols. apply Forall_forall. intros r Hin. apply in_map_iff in Hin as (r' & <- & Hin).
    rewrite map_length. rewrite Forall_forall in Fw. rewrite (Fw _ Hin). unfold cols. cbn [length]. rewrite !map_length. reflexivity.
  - rewrite Psc. cbn [length]. rewrite !map_length. lia.
  - rewrite Pm, Edeps. cbn [map firstn app length]. rewrite !map_length. lia.
  - rewrite Pu. cbn [length]. rewrite !map_length. lia.
  - exact Ht.
Qed.

(* ------------------------------------------------------------------ tie T: the line numbers as written in the source *)
From PNC Require Gen.IcarttSrc.
(* the if/elif chain of ffi1001.__init__ spelled with the definitions REGENERATED from ffi1001.py on every run *)
Definition classify_src (n nm nsc li : Z) : lkind :=
  let lvd := Gen.IcarttSrc.LAST_VAR_DESC_LINE nm in
  let scc := Gen.IcarttSrc.SPECIAL_COMMENT_COUNT_LINE lvd in
  let lsc := Gen.IcarttSrc.LAST_SPECIAL_COMMENT_LINE scc nsc in
  let ucc := Gen.IcarttSrc.USER_COMMENT_COUNT_LINE nm nsc in
  if (li =? Gen.IcarttSrc.PI_LINE) || (li =? Gen.IcarttSrc.ORG_LINE) || (li =? Gen.IcarttSrc.PLAT_LINE)
     || (li =? Gen.IcarttSrc.MISSION_LINE) || (li =? Gen.IcarttSrc.VOL_LINE) || (li =? Gen.IcarttSrc.DATE_LINE)
     || (li =? Gen.IcarttSrc.TIME_INT_LINE) || (li =? Gen.IcarttSrc.UNIT_LINE) then K_fixed
  else if li =? Gen.IcarttSrc.SCALE_LINE then K_scale
  else if li =? Gen.IcarttSrc.MISSING_LINE then K_missing
  else if (Gen.IcarttSrc.MISSING_LINE <? li) && (li <=? lvd) then K_desc
  else if li =? scc then K_spcount
  else if (scc <? li) && (li <=? lsc) then K_special
  else if li =? ucc then K_ucount
  else if (ucc <? li) && (li <? n) then K_user
  else if li =? n then K_names
  else K_skip.

Lemma classify_is_source n nm nsc li : classify n nm nsc li = classify_src n nm nsc li.
Proof.
  unfold classify, classify_src, Gen.IcarttSrc.LAST_VAR_DESC_LINE, Gen.IcarttSrc.SPECIAL_COMMENT_COUNT_LINE,
    Gen.IcarttSrc.LAST_SPECIAL_COMMENT_LINE, Gen.IcarttSrc.USER_COMMENT_COUNT_LINE, Gen.IcarttSrc.PI_LINE,
    Gen.IcarttSrc.ORG_LINE, Gen.IcarttSrc.PLAT_LINE, Gen.IcarttSrc.MISSION_LINE, Gen.IcarttSrc.VOL_LINE,
    Gen.IcarttSrc.DATE_LINE, Gen.IcarttSrc.TIME_INT_LINE, Gen.IcarttSrc.UNIT_LINE, Gen.IcarttSrc.SCALE_LINE,
    Gen.IcarttSrc.MISSING_LINE. cbv zeta.
  split_tests.
Qed.

Lemma header_count_is_source f ind :
  header_count f ind = Gen.IcarttSrc.header_count_expr (Z.of_nat (length (myattrs f))) (Z.of_nat (length (depvars ind f)))
  /\ Gen.IcarttSrc.format_number = 1001.
Proof. split; reflexivity. Qed.

(* ------------------------------------------------------------------ expected_vars = spec_roundtrip *)
Lemma code_val_code_of v : code_val v = code_of (code_str v).
Proof. reflexivity. Qed.

(* per-variable cell condition: masked cells print as the code the reader uses, unmasked ones do not *)
Definition cells_fine (code : dec) (v : var) : bool :=
  forallb (fun cl => match cl with
                     | Some d => negb (dec_eqb (fmt6e d) code)
                     | None => dec_eqb (fmt6e (code_val v)) code
                     end) (v_cells v).

Lemma cells_map code v : cells_fine code v = true ->
  map (cell_apply (D 1 0) code) (map CV (map fmt6e (filled v))) = map spec_cell (v_cells v).
Proof.
  intros H. unfold filled. rewrite !map_map. apply map_ext_in. intros cl Hin.
  unfold cells_fine in H. rewrite forallb_forall in H. specialize (H cl Hin). destruct cl as [d|]; cbn [cell_apply spec_cell].
  - apply negb_true_iff in H. rewrite H, dec_mul_one. reflexivity.
  - rewrite H. reflexivity.
Qed.

(* index bookkeeping: exp_vars walks the name list with a running column index *)
Fixpoint build_from (vs : list var) (k : nat) (rows : list (list cell)) : list rvar :=
  match vs with
  | [] => []
  | v :: t => RVar (v_name v) (units_str v) (code_str v) (code_of (code_str v))
                   (map (cell_apply (D 1 0) (code_of (code_str v))) (column k rows))
              :: build_from t (S k) rows
  end.

Lemma nth_app_len {A} (p : list A) x q d : nth (length p) (p ++ x :: q) d = x.
Proof. rewrite app_nth2, Nat.sub_diag by lia. reflexivity. Qed.

Lemma exp_vars_suffix rows : forall (vs : list var) (ps : list dec) (pm : list (str * dec)) (pu : list str) k,
  length ps = k -> length pm = k -> length pu = k ->
  exp_vars (map v_name vs) k (ps ++ map (fun _ => D 1 0) vs)
           (pm ++ map (fun t => (t, code_of t)) (map code_str vs)) (pu ++ map units_str vs) rows
  = build_from vs k rows.
Proof.
  induction vs as [|v t IH]; intros ps pm pu k H1 H2 H3; [reflexivity|].
  cbn [map].
  assert (E1 : nth k (ps ++ D 1 0 :: map (fun _ : var => D 1 0) t) (D 1 0) = D 1 0) by (rewrite <- H1; apply nth_app_len).
  assert (E2 : nth k (pm ++ (code_str v, code_of (code_str v)) :: map (fun t0 => (t0, code_of t0)) (map code_str t)) ([], D 0 0)
               = (code_str v, code_of (code_str v))) by (rewrite <- H2; apply nth_app_len).
  assert (E3 : nth k (pu ++ units_str v :: map units_str t) [] = units_str v) by (rewrite <- H3; apply nth_app_len).
  cbn [exp_vars build_from]. rewrite E1, E2, E3. cbn [fst snd]. f_equal.
  specialize (IH (ps ++ [D 1 0]) (pm ++ [(code_str v, code_of (code_str v))]) (pu ++ [units_str v]) (S k)).
  rewrite <- !app_assoc in IH. cbn [app] in IH. apply IH; rewrite app_length; cbn [length]; lia.
Qed.

(* the columns of the written table, variable by variable *)
Lemma build_from_cols n : forall (vs : list var) (pc : list (list dec)) k,
  length pc = k -> Forall (fun c => length c = n) (pc ++ map filled vs) ->
  build_from vs k (map (map CV) (map (map fmt6e) (transpose_rows n (pc ++ map filled vs))))
  = map (fun v => RVar (v_name v) (units_str v) (code_str v) (code_of (code_str v))
                       (map (cell_apply (D 1 0) (code_of (code_str v))) (map CV (map fmt6e (filled v))))) vs.
Proof.
  induction vs as [|v t IH]; intros pc k Hk HF; [reflexivity|].
  cbn [map] in HF. cbn [map build_from]. f_equal.
  - f_equal. rewrite !column_map. rewrite (column_transpose n (pc ++ filled v :: map filled t) k HF).
    + subst k. rewrite nth_app_len. reflexivity.
    + subst k. rewrite app_length. cbn [length]. lia.
  - specialize (IH (pc ++ [filled v]) (S k)). rewrite <- app_assoc in IH. cbn [app] in IH. apply IH.
    + rewrite app_length. cbn [length]. lia.
    + exact HF.
Qed.

Lemma all_some_somes {A} (l : list A) : all_some (map (@Some A) l) = Some l.
Proof. induction l as [|x t IH]; [reflexivity|]. cbn [map all_some]. rewrite IH. reflexivity. Qed.

(* boolean side conditions under which what is read back is what the property demands *)
Definition spec_ok (f : file) (ind : str) (iv : var) : bool :=
  match depvars ind f with
  | [] => false
  | d0 :: _ =>
      match v_units iv with Some u => str_eqb (line9_unit (indep_line f ind)) u | None => false end
      && str_eqb (code_str iv) (code_str d0)
      && forallb (fun v => match v_units v with Some _ => true | None => false end) (depvars ind f)
      && cells_fine (code_of (code_str d0)) iv
      && forallb (fun v => cells_fine (code_val v) v) (depvars ind f)
  end.

Lemma spec_var_dep v : clean_code (code_str v) = true -> (exists u, v_units v = Some u) -> cells_fine (code_val v) v = true ->
  spec_var v = Some (RVar (v_name v) (units_str v) (code_str v) (code_of (code_str v))
                          (map (cell_apply (D 1 0) (code_of (code_str v))) (map CV (map fmt6e (filled v))))).
Proof.
  intros Hc [u Hu] Hcells. destruct (clean_code_facts _ Hc) as ((c & P) & _).
  unfold spec_var, units_str. rewrite Hu, P. unfold code_of. rewrite P.
  rewrite code_val_code_of in Hcells. unfold code_of in Hcells. rewrite P in Hcells.
  rewrite (cells_map _ _ Hcells). reflexivity.
Qed.

(* (i) WHOLE FILES: what the reader returns for the writer's output IS what the property demands *)
Lemma expected_is_spec f ind iv :
  indep_name f = Some ind -> find_var ind f = Some iv ->
  header_ok f ind = true -> data_ok f ind iv = true -> spec_ok f ind iv = true ->
  spec_roundtrip f = Some (expected_vars f ind iv).
Proof.
  intros Hi Hf Hok Hd Hsp.
  assert (Hname : v_name iv = ind).
  { unfold find_var in Hf. apply find_some in Hf as [_ E]. apply str_eqb_eq in E. exact E. }
  unfold spec_roundtrip. rewrite Hi, Hf.
  unfold header_ok in Hok.
  apply andb_true_iff in Hok as [Hok _]. apply andb_true_iff in Hok as [Hok _].
  apply andb_true_iff in Hok as [Hok _]. apply andb_true_iff in Hok as [Hok _].
  apply andb_true_iff in Hok as [_ Hcodes].
  unfold data_ok in Hd. apply andb_true_iff in Hd as [Hd _]. apply andb_true_iff in Hd as [Hd _].
  apply andb_true_iff in Hd as [_ Hlen].
  unfold spec_ok in Hsp. unfold expected_vars.
  set (deps := depvars ind f) in *.
  destruct deps as [|d0 dt] eqn:Edeps; [discriminate|]. rewrite <- Edeps in *.
  apply andb_true_iff in Hsp as [Hsp Hcd]. apply andb_true_iff in Hsp as [Hsp Hci].
  apply andb_true_iff in Hsp as [Hsp Hun]. apply andb_true_iff in Hsp as [Hu0 Hcode0].
  destruct (v_units iv) as [u0|] eqn:Eu0; [|discriminate]. apply str_eqb_eq in Hu0. apply str_eqb_eq in Hcode0.
  (* the dependent variables *)
  assert (Hdeps : map spec_var deps = map (@Some rvar)
            (map (fun v => RVar (v_name v) (units_str v) (code_str v) (code_of (code_str v))
                       (map (cell_apply (D 1 0) (code_of (code_str v))) (map CV (map fmt6e (filled v))))) deps)).
  { rewrite map_map. apply map_ext_in. intros v Hin.
    rewrite forallb_forall in Hcodes, Hun, Hcd. apply spec_var_dep.
    - apply Hcodes, in_map, Hin.
    - specialize (Hun v Hin). destruct (v_units v) as [u|]; [exists u; reflexivity|discriminate].
    - apply Hcd, Hin. }
  (* the independent variable *)
  assert (Hc0 : clean_code (code_str iv) = true).
  { rewrite Hcode0. rewrite forallb_forall in Hcodes. apply Hcodes. rewrite Edeps. left. reflexivity. }
  destruct (clean_code_facts _ Hc0) as ((c0 & P0) & _).
  assert (Hiv : spec_var iv = Some (RVar ind u0 (code_str d0) (code_of (code_str d0))
                   (map (cell_apply (D 1 0) (code_of (code_str d0))) (map CV (map fmt6e (filled iv)))))).
  { unfold spec_var. rewrite Eu0, P0, Hname. rewrite (cells_map _ _ Hci). rewrite <- Hcode0. unfold code_of. rewrite P0. reflexivity. }
  cbn [map all_some]. rewrite Hiv, Hdeps, all_some_somes. cbn [option_map]. f_equal.
  (* now the index bookkeeping on the reader side *)
  set (M := map (fun t => (t, code_of t)) (map code_str deps)).
  assert (EM : firstn 1 M ++ M = [(code_str d0, code_of (code_str d0))] ++ M) by (unfold M; rewrite Edeps; reflexivity).
  rewrite EM. cbn [map exp_vars nth fst snd app]. rewrite Hu0. f_equal.
  - f_equal. unfold wrows. fold deps. rewrite !column_map.
    rewrite (column_transpose _ (filled iv :: map filled deps) 0).
    + reflexivity.
    + constructor; [unfold filled; apply map_length|]. apply Forall_forall. intros c Hin.
      apply in_map_iff in Hin as (v & <- & Hin). unfold filled. rewrite map_length.
      rewrite forallb_forall in Hlen. apply Nat.eqb_eq, Hlen, Hin.
    + cbn [length]. lia.
  - change (D 1 0 :: map (fun _ : var => D 1 0) deps) with ([D 1 0] ++ map (fun _ : var => D 1 0) deps).
    change (u0 :: map units_str deps) with ([u0] ++ map units_str deps).
    unfold M. rewrite (exp_vars_suffix _ deps [D 1 0] [(code_str d0, code_of (code_str d0))] [u0] 1 eq_refl eq_refl eq_refl).
    unfold wrows. fold deps.
    change (filled iv :: map filled deps) with ([filled iv] ++ map filled deps).
    symmetry. apply build_from_cols; [reflexivity|].
    cbn [app]. constructor; [unfold filled; apply map_length|]. apply Forall_forall. intros c Hin.
    apply in_map_iff in Hin as (v & <- & Hin). unfold filled. rewrite map_length.
    rewrite forallb_forall in Hlen. apply Nat.eqb_eq, Hlen, Hin.
Qed.

(* WHOLE round trip against the specification *)
Lemma roundtrip_whole_spec f n ls ind sd iv :
  impl_write f = Some (n, ls) ->
  indep_name f = Some ind -> get_attr (s2z "SDATE") (f_attrs f) = Some sd -> find_var ind f = Some iv ->
  forallb no_nl (hdr_other f ind sd) = true ->
  header_ok f ind = true -> data_ok f ind iv = true -> spec_ok f ind iv = true ->
  exists A sp, impl_roundtrip f = Some (RFile n A sp) /\ spec_roundtrip f = Some sp.
Proof.
  intros W Hi Hs Hf Hn Hok Hd Hsp.
  destruct (roundtrip_whole _ _ _ _ _ _ W Hi Hs Hf Hn Hok Hd) as (A & R).
  exists A, (expected_vars f ind iv). split; [exact R|]. apply expected_is_spec; assumption.
Qed.

(* ------------------------------------------------------------------ second cycle on whole files *)
Definition back_cell (x : cell) : option dec := match x with CV d => Some d | _ => None end.

Lemma spec_cell_back cells : map spec_cell (map back_cell (map spec_cell cells)) = map spec_cell cells.
Proof.
  rewrite !map_map. apply map_ext. intros [d|]; cbn [spec_cell back_cell]; [rewrite fmt6e_idem|]; reflexivity.
Qed.

(* a variable as the specification describes it *)
Definition spec_shaped (s : rvar) : Prop :=
  parse_num (r_code_s s) = Some (r_code s) /\ exists cells, r_cells s = map spec_cell cells.

Lemma spec_var_shaped v s : spec_var v = Some s -> spec_shaped s /\ r_name s = v_name v.
Proof.
  unfold spec_var. destruct (v_units v) as [u|]; [|discriminate].
  destruct (parse_num (code_str v)) as [c|] eqn:P; [|discriminate]. intros E. injection E as <-.
  split; [split; [exact P|eexists; reflexivity]|reflexivity].
Qed.

Lemma spec_var_to_var s : spec_shaped s -> spec_var (to_var s) = Some s.
Proof.
  destruct s as [nm u cs c cells]. intros [P [cl Hc]]. cbn [r_code_s r_code r_cells] in *.
  unfold spec_var, to_var, code_str. cbn [v_units v_code v_name v_cells r_name r_units r_code_s r_code r_cells].
  rewrite P. subst cells. fold back_cell. rewrite spec_cell_back. reflexivity.
Qed.

Lemma all_some_inv {A B} (g : A -> option B) : forall l sp,
  all_some (map g l) = Some sp -> Forall2 (fun x s => g x = Some s) l sp.
Proof.
  induction l as [|x t IH]; intros sp H; cbn [map all_some] in H.
  - injection H as <-. constructor.
  - destruct (g x) as [y|] eqn:E; [|discriminate]. destruct (all_some (map g t)) as [r|] eqn:Er; [|discriminate].
    injection H as <-. constructor; [exact E|apply IH; reflexivity].
Qed.

(* the specification applied to the file that was read back is that file: reading is a fixed point *)
Lemma spec_to_file f ind iv sp A :
  indep_name f = Some ind -> find_var ind f = Some iv ->
  uniq (ind :: map v_name (depvars ind f)) = true ->
  spec_roundtrip f = Some sp ->
  indep_name (to_file (RFile 0 A sp)) = Some ind ->
  spec_roundtrip (to_file (RFile 0 A sp)) = Some sp.
Proof.
  intros Hi Hf Hu Hsp Hi2.
  assert (Hname : v_name iv = ind).
  { unfold find_var in Hf. apply find_some in Hf as [_ E]. apply str_eqb_eq in E. exact E. }
  unfold spec_roundtrip in Hsp. rewrite Hi, Hf in Hsp. apply all_some_inv in Hsp.
  destruct sp as [|s0 srest]; [inversion Hsp|].
  assert (Hs0 : spec_var iv = Some s0) by (inversion Hsp; assumption).
  assert (Hrest : Forall2 (fun x s => spec_var x = Some s) (depvars ind f) srest) by (inversion Hsp; assumption).
  destruct (spec_var_shaped _ _ Hs0) as [Sh0 N0]. rewrite Hname in N0.
  unfold spec_roundtrip. rewrite Hi2. unfold to_file, find_var, depvars. cbn [f_vars r_vars map find filter].
  assert (E0 : str_eqb (v_name (to_var s0)) ind = true) by (apply str_eqb_eq; destruct s0; cbn in *; exact N0).
  rewrite E0. cbn [negb].
  (* the other variables keep their place: their names differ from ind *)
  cbn [uniq] in Hu. apply andb_true_iff in Hu as [Hnot _]. apply negb_true_iff in Hnot.
  assert (Hfil : filter (fun v => negb (str_eqb (v_name v) ind)) (map to_var srest) = map to_var srest
                 /\ map spec_var (map to_var srest) = map (@Some rvar) srest).
  { clear Hs0 Sh0 N0 E0 Hsp Hi2. unfold in_strs in Hnot. remember (depvars ind f) as ds eqn:Eds. clear Eds.
    revert Hnot. induction Hrest as [|v s ds' sr Hv Hr IHr]; intros Hnot; [split; reflexivity|].
    destruct (spec_var_shaped _ _ Hv) as [Sh Nm].
    cbn [map existsb] in Hnot. apply orb_false_iff in Hnot as [Hn1 Hn2]. destruct (IHr Hn2) as [I1 I2].
    cbn [map filter]. assert (En : str_eqb (v_name (to_var s)) ind = false).
    { destruct s; cbn in *. rewrite Nm. rewrite str_eqb_sym. exact Hn1. }
    rewrite En. cbn [negb]. rewrite I1, I2, (spec_var_to_var _ Sh). split; reflexivity. }
  destruct Hfil as [F1 F2]. rewrite F1. cbn [map all_some]. rewrite (spec_var_to_var _ Sh0), F2, all_some_somes. reflexivity.
Qed.

(* (ii) WHOLE FILES, second cycle: if the file that was read back again satisfies the boolean side conditions,
   writing and reading it once more returns the same variables (names, order, units, codes, masks, values) *)
Lemma second_cycle_whole f n ls ind sd iv r1 n2 ls2 sd2 iv2 :
  impl_write f = Some (n, ls) ->
  indep_name f = Some ind -> get_attr (s2z "SDATE") (f_attrs f) = Some sd -> find_var ind f = Some iv ->
  forallb no_nl (hdr_other f ind sd) = true ->
  header_ok f ind = true -> data_ok f ind iv = true -> spec_ok f ind iv = true ->
  impl_roundtrip f = Some r1 ->
  let f2 := to_file r1 in
  impl_write f2 = Some (n2, ls2) ->
  indep_name f2 = Some ind -> get_attr (s2z "SDATE") (f_attrs f2) = Some sd2 -> find_var ind f2 = Some iv2 ->
  forallb no_nl (hdr_other f2 ind sd2) = true ->
  header_ok f2 ind = true -> data_ok f2 ind iv2 = true -> spec_ok f2 ind iv2 = true ->
  exists r2, impl_second f = Some r2 /\ r_vars r2 = r_vars r1 /\ spec_roundtrip f = Some (r_vars r1).
Proof.
  intros W Hi Hs Hf Hn Hok Hd Hsp R1 f2 W2 Hi2 Hs2 Hf2 Hn2 Hok2 Hd2 Hsp2.
  destruct (roundtrip_whole_spec _ _ _ _ _ _ W Hi Hs Hf Hn Hok Hd Hsp) as (A & sp & R & S).
  rewrite R in R1. injection R1 as <-.
  destruct (roundtrip_whole_spec _ _ _ _ _ _ W2 Hi2 Hs2 Hf2 Hn2 Hok2 Hd2 Hsp2) as (A2 & sp2 & R2 & S2).
  assert (Hu : uniq (ind :: map v_name (depvars ind f)) = true).
  { unfold data_ok in Hd. apply andb_true_iff in Hd as [Hd _]. apply andb_true_iff in Hd as [_ Hu]. exact Hu. }
  assert (S2' : spec_roundtrip f2 = Some sp).
  { unfold f2, to_file. cbn [r_attrs r_vars].
    apply (spec_to_file f ind iv sp A Hi Hf Hu S). exact Hi2. }
  rewrite S2 in S2'. injection S2' as ->.
  exists (RFile n2 A2 sp). split; [|split; [reflexivity|exact S]].
  unfold impl_second. rewrite R. exact R2.
Qed.

(* ------------------------------------------------------------------ closure of the side conditions: variable part *)
From Coq Require Import Btauto.

(* the variable the reader hands back for v (as the second writer sees it) *)
Definition revar (v : var) : var :=
  Var (v_name v) (v_units v) (Some (code_str v)) (code_of (code_str v)) (map back_cell (map spec_cell (v_cells v))).
Definition refile (A : list (str * str)) (f : file) (ind : str) (iv : var) : file :=
  File A (revar iv :: map revar (depvars ind f)).

Lemma spec_var_revar v s : spec_var v = Some s -> to_var s = revar v.
Proof.
  unfold spec_var. destruct (v_units v) as [u|] eqn:Eu; [|discriminate].
  destruct (parse_num (code_str v)) as [c|] eqn:P; [|discriminate]. intros E. injection E as <-.
  unfold to_var, revar. cbn [r_name r_units r_code_s r_code r_cells]. rewrite Eu. unfold code_of. rewrite P. reflexivity.
Qed.

Lemma to_file_refile f ind iv sp n A :
  indep_name f = Some ind -> find_var ind f = Some iv -> spec_roundtrip f = Some sp ->
  to_file (RFile n A sp) = refile A f ind iv.
Proof.
  intros Hi Hf Hsp. unfold spec_roundtrip in Hsp. rewrite Hi, Hf in Hsp. apply all_some_inv in Hsp.
  unfold to_file, refile. cbn [r_attrs r_vars]. f_equal.
  remember (iv :: depvars ind f) as l eqn:El. change (revar iv :: map revar (depvars ind f)) with (map revar (iv :: depvars ind f)).
  rewrite <- El. clear El. induction Hsp as [|v s l' sp' Hv Hr IH]; [reflexivity|].
  cbn [map]. rewrite (spec_var_revar _ _ Hv), IH. reflexivity.
Qed.

Lemma forallb_map_comp {A B} (p : B -> bool) (g : A -> B) l : forallb p (map g l) = forallb (fun x => p (g x)) l.
Proof. induction l as [|x t IH]; [reflexivity|]. cbn [map forallb]. rewrite IH. reflexivity. Qed.

Lemma filter_all {A} (p : A -> bool) l : forallb p l = true -> filter p l = l.
Proof.
  induction l as [|x t IH]; [reflexivity|]. cbn [forallb filter]. intros H. apply andb_true_iff in H as [H1 H2].
  rewrite H1, (IH H2). reflexivity.
Qed.

Lemma forallb_filter_self {A} (p : A -> bool) l : forallb p (filter p l) = true.
Proof.
  induction l as [|x t IH]; [reflexivity|]. cbn [filter]. destruct (p x) eqn:E; [cbn [forallb]; rewrite E, IH; reflexivity|exact IH].
Qed.

Lemma refile_find A f ind iv : v_name iv = ind -> find_var ind (refile A f ind iv) = Some (revar iv).
Proof.
  intros H. unfold find_var, refile. cbn [f_vars find revar v_name]. rewrite H.
  assert (E : str_eqb ind ind = true) by (apply str_eqb_eq; reflexivity). rewrite E. reflexivity.
Qed.

Lemma refile_deps A f ind iv : v_name iv = ind -> depvars ind (refile A f ind iv) = map revar (depvars ind f).
Proof.
  intros H. unfold depvars at 1. unfold refile. cbn [f_vars filter revar v_name]. rewrite H.
  assert (E : str_eqb ind ind = true) by (apply str_eqb_eq; reflexivity). rewrite E. cbn [negb].
  apply filter_all. rewrite forallb_map_comp. cbn [revar v_name]. unfold depvars. apply forallb_filter_self.
Qed.

Lemma revar_filled v : map fmt6e (filled (revar v)) = map fmt6e (filled v).
Proof.
  unfold filled. cbn [revar v_cells]. rewrite !map_map. apply map_ext. intros [d|]; cbn [spec_cell back_cell].
  - apply fmt6e_idem.
  - reflexivity.
Qed.

Lemma forallb_ext_all {A} (p q : A -> bool) l : (forall x, p x = q x) -> forallb p l = forallb q l.
Proof. intros H. induction l as [|x t IH]; [reflexivity|]. cbn [forallb]. rewrite H, IH. reflexivity. Qed.

Lemma revar_cells_fine c v : cells_fine c (revar v) = cells_fine c v.
Proof.
  unfold cells_fine. cbn [revar v_cells]. rewrite !forallb_map_comp. apply forallb_ext_all.
  intros [d|]; cbn [spec_cell back_cell]; [rewrite fmt6e_idem|]; reflexivity.
Qed.

(* the variable-dependent header strings and side conditions (no attribute involved) *)
Definition hdr_vars (f : file) (ind : str) : list str :=
  let deps := depvars ind f in
  [ indep_line f ind; zstr (Z.of_nat (length deps)); join sep (map (fun _ => s2z "1") deps); join sep (map code_str deps) ]
  ++ map (fun v => join sep [v_name v; units_str v]) deps
  ++ [ join sep (ind :: map v_name deps) ].
Definition header_vars_ok (f : file) (ind : str) : bool :=
  let deps := depvars ind f in
  match deps with [] => false | _ => true end
  && forallb clean_code (map code_str deps)
  && forallb desc_ok deps
  && forallb word_tok (ind :: map v_name deps)
  && forallb (fun s => negb (has_char cSLASH s)) (ind :: map v_name deps).
Definition vars_ok (f : file) (ind : str) (iv : var) : bool :=
  header_vars_ok f ind && data_ok f ind iv && spec_ok f ind iv && forallb no_nl (hdr_vars f ind).

(* the attribute-dependent rest *)
Definition hdr_attrs (f : file) (sd : str) : list str :=
  let a := f_attrs f in
  [ attr_or "PI_NAME" "Unknown" a; attr_or "ORGANIZATION_NAME" "Unknown" a;
    attr_or "SOURCE_DESCRIPTION" "Unknown" a; attr_or "MISSION_NAME" "Unknown" a;
    attr_or "VOLUME_INFO" "1, 1" a; sd ++ [cSP] ++ attr_or "WDATE" "2000, 01, 01" a;
    attr_or "TIME_INTERVAL" "0" a ]
  ++ map fst (myattrs f).
Definition attr_lines_ok (f : file) : bool :=
  forallb not_continuation (map (fun kv : str * str => fst kv ++ [cCOLON; cSP] ++ one_line (snd kv)) (myattrs f)).

Lemma header_ok_split f ind : header_ok f ind = header_vars_ok f ind && attr_lines_ok f.
Proof. unfold header_ok, header_vars_ok, attr_lines_ok. cbv zeta. btauto. Qed.

Lemma hdr_other_split f ind sd :
  forallb no_nl (hdr_other f ind sd) = forallb no_nl (hdr_attrs f sd) && forallb no_nl (hdr_vars f ind).
Proof.
  unfold hdr_other, hdr_attrs, hdr_vars. cbv zeta. rewrite !forallb_app. cbn [forallb].
  rewrite (no_nl_zstr (Z.of_nat (length (myattrs f)))). change (no_nl (s2z "0")) with true. btauto.
Qed.

Lemma data_col0 f ind iv :
  forallb (fun v => Nat.eqb (length (v_cells v)) (length (v_cells iv))) (depvars ind f) = true ->
  column 0 (wrows f ind iv) = map fmt6e (filled iv).
Proof.
  intros Hlen. unfold wrows. rewrite column_map.
  rewrite (column_transpose _ (filled iv :: map filled (depvars ind f)) 0); [reflexivity| |cbn [length]; lia].
  constructor; [unfold filled; apply map_length|]. apply Forall_forall. intros c Hin.
  apply in_map_iff in Hin as (v & <- & Hin). unfold filled. rewrite map_length.
  rewrite forallb_forall in Hlen. apply Nat.eqb_eq, Hlen, Hin.
Qed.

(* VARIABLE PART OF THE CLOSURE: the file that is read back satisfies every variable-dependent side
   condition that the original file satisfied (whatever its attribute list A is) *)
Lemma side_conditions_closed_vars A f ind iv :
  find_var ind f = Some iv -> vars_ok f ind iv = true ->
  find_var ind (refile A f ind iv) = Some (revar iv) /\ vars_ok (refile A f ind iv) ind (revar iv) = true.
Proof.
  intros Hf Hok.
  assert (Hname : v_name iv = ind).
  { unfold find_var in Hf. apply find_some in Hf as [_ E]. apply str_eqb_eq in E. exact E. }
  split; [apply refile_find, Hname|].
  set (f2 := refile A f ind iv).
  assert (Ed : depvars ind f2 = map revar (depvars ind f)) by (apply refile_deps, Hname).
  assert (Eline : indep_line f2 ind = indep_line f ind).
  { unfold indep_line. unfold f2. rewrite (refile_find _ _ _ _ Hname), Hf. reflexivity. }
  unfold vars_ok in *. apply andb_true_iff in Hok as [Hok Hnl]. apply andb_true_iff in Hok as [Hok Hsp].
  apply andb_true_iff in Hok as [Hhv Hd].
  (* list-level identities *)
  assert (Ecodes : map code_str (map revar (depvars ind f)) = map code_str (depvars ind f)) by (rewrite map_map; apply map_ext; reflexivity).
  assert (Enames : map v_name (map revar (depvars ind f)) = map v_name (depvars ind f)) by (rewrite map_map; apply map_ext; reflexivity).
  assert (Edesc : map (fun v => join sep [v_name v; units_str v]) (map revar (depvars ind f))
                  = map (fun v => join sep [v_name v; units_str v]) (depvars ind f)) by (rewrite map_map; apply map_ext; reflexivity).
  assert (Eones : map (fun _ : var => s2z "1") (map revar (depvars ind f)) = map (fun _ : var => s2z "1") (depvars ind f))
    by (rewrite map_map; reflexivity).
  assert (Hhv2 : header_vars_ok f2 ind = true).
  { assert (Edok : forallb desc_ok (map revar (depvars ind f)) = forallb desc_ok (depvars ind f))
      by (rewrite forallb_map_comp; apply forallb_ext_all; reflexivity).
    unfold header_vars_ok in *. cbv zeta in *. rewrite Ed, Ecodes, Enames, Edok.
    destruct (depvars ind f) as [|d0 dt]; [discriminate|]. cbn [map]. cbn [map] in Hhv. exact Hhv. }
  assert (Hlen : forallb (fun v => Nat.eqb (length (v_cells v)) (length (v_cells iv))) (depvars ind f) = true).
  { unfold data_ok in Hd. apply andb_true_iff in Hd as [Hd _]. apply andb_true_iff in Hd as [Hd _].
    apply andb_true_iff in Hd as [_ H]. exact H. }
  assert (Hlen2 : forallb (fun v => Nat.eqb (length (v_cells v)) (length (v_cells (revar iv)))) (depvars ind f2) = true).
  { rewrite Ed, forallb_map_comp. cbn [revar v_cells]. rewrite !map_length.
    erewrite forallb_ext_all; [exact Hlen|]. intros x. cbn. rewrite !map_length. reflexivity. }
  assert (Hd2 : data_ok f2 ind (revar iv) = true).
  { unfold data_ok in *. apply andb_true_iff in Hd as [Hd Ht]. apply andb_true_iff in Hd as [Hd Hu].
    apply andb_true_iff in Hd as [Hrec _].
    rewrite Hlen2, (data_col0 _ _ _ Hlen2), revar_filled, <- (data_col0 _ _ _ Hlen), Ht.
    rewrite Ed, Enames, Hu. cbn [revar v_cells]. rewrite !map_length, Hrec. reflexivity. }
  assert (Hsp2 : spec_ok f2 ind (revar iv) = true).
  { assert (Eun : forall l, forallb (fun v => match v_units v with Some _ => true | None => false end) (map revar l)
                            = forallb (fun v => match v_units v with Some _ => true | None => false end) l)
      by (intros l; rewrite forallb_map_comp; apply forallb_ext_all; reflexivity).
    assert (Ecf : forall l, forallb (fun v => cells_fine (code_val v) v) (map revar l) = forallb (fun v => cells_fine (code_val v) v) l)
      by (intros l; rewrite forallb_map_comp; apply forallb_ext_all; intros x; apply revar_cells_fine).
    unfold spec_ok in *. rewrite Ed, Eline. destruct (depvars ind f) as [|d0 dt]; [discriminate|]. cbn [map].
    change (revar d0 :: map revar dt) with (map revar (d0 :: dt)). rewrite Eun, Ecf, revar_cells_fine.
    exact Hsp. }
  assert (Hnl2 : forallb no_nl (hdr_vars f2 ind) = true).
  { unfold hdr_vars in *. cbv zeta in *. rewrite Ed, Eline, Ecodes, Enames, Edesc, Eones, map_length. exact Hnl. }
  rewrite Hhv2, Hd2, Hsp2, Hnl2. reflexivity.
Qed.

Lemma impl_write_some f ind sd iv :
  indep_name f = Some ind -> get_attr (s2z "SDATE") (f_attrs f) = Some sd -> find_var ind f = Some iv ->
  exists n ls, impl_write f = Some (n, ls).
Proof. intros Hi Hs Hf. unfold impl_write. rewrite Hi, Hs, Hf. eexists. eexists. reflexivity. Qed.

(* SECOND CYCLE ON WHOLE FILES with the variable part of the closure discharged: hypotheses on f, plus only
   the four ATTRIBUTE facts about the file read back (INDEPENDENT_VARIABLE and SDATE present, the fixed
   attribute lines and comment keys free of line breaks, no comment line starting with a blank) *)
Lemma second_cycle_whole_attrs f n ls ind sd iv r1 sd2 :
  impl_write f = Some (n, ls) ->
  indep_name f = Some ind -> get_attr (s2z "SDATE") (f_attrs f) = Some sd -> find_var ind f = Some iv ->
  forallb no_nl (hdr_other f ind sd) = true ->
  header_ok f ind = true -> data_ok f ind iv = true -> spec_ok f ind iv = true ->
  impl_roundtrip f = Some r1 ->
  let f2 := to_file r1 in
  indep_name f2 = Some ind -> get_attr (s2z "SDATE") (f_attrs f2) = Some sd2 ->
  forallb no_nl (hdr_attrs f2 sd2) = true -> attr_lines_ok f2 = true ->
  exists r2, impl_second f = Some r2 /\ r_vars r2 = r_vars r1 /\ spec_roundtrip f = Some (r_vars r1).
Proof.
  intros W Hi Hs Hf Hn Hok Hd Hsp R1 f2 Hi2 Hs2 Hna Hal.
  destruct (roundtrip_whole_spec _ _ _ _ _ _ W Hi Hs Hf Hn Hok Hd Hsp) as (A & sp & R & S).
  pose proof R1 as R1'. rewrite R in R1'. injection R1' as E1.
  assert (Ef2 : f2 = refile A f ind iv).
  { unfold f2. rewrite <- E1. apply (to_file_refile f ind iv sp n A Hi Hf S). }
  (* variable part *)
  assert (Hv : vars_ok f ind iv = true).
  { unfold vars_ok. rewrite header_ok_split in Hok. apply andb_true_iff in Hok as [Hok _].
    rewrite hdr_other_split in Hn. apply andb_true_iff in Hn as [_ Hn]. rewrite Hok, Hd, Hsp, Hn. reflexivity. }
  destruct (side_conditions_closed_vars A f ind iv Hf Hv) as [Hf2 Hv2]. rewrite <- Ef2 in Hf2, Hv2.
  unfold vars_ok in Hv2. apply andb_true_iff in Hv2 as [Hv2 Hnv2]. apply andb_true_iff in Hv2 as [Hv2 Hsp2].
  apply andb_true_iff in Hv2 as [Hhv2 Hd2].
  destruct (impl_write_some _ _ _ _ Hi2 Hs2 Hf2) as (n2 & ls2 & W2).
  apply (second_cycle_whole f n ls ind sd iv r1 n2 ls2 sd2 (revar iv) W Hi Hs Hf Hn Hok Hd Hsp R1 W2 Hi2 Hs2 Hf2).
  - rewrite hdr_other_split. fold f2. rewrite Hna, Hnv2. reflexivity.
  - rewrite header_ok_split. fold f2. rewrite Hhv2, Hal. reflexivity.
  - exact Hd2.
  - exact Hsp2.
Qed.
