(* Lemmas for C19 (ICARTT ffi1001 writer / reader). *)
From Coq Require Import String Ascii.
From PNC Require Import Base.Util Model.Icartt.
Local Open Scope Z_scope.

(* ------------------------------------------------------------------ line classification *)
Ltac split_tests :=
  repeat (match goal with
         | |- context [?a <=? ?b] => destruct (Z.leb_spec a b)
         | |- context [?a <? ?b] => destruct (Z.ltb_spec a b)
         | |- context [?a =? ?b] => destruct (Z.eqb_spec a b)
         end; cbn [andb orb]; try reflexivity; try lia).

(* the layout the writer produces, as a function of the line number *)
Definition layout (ndep nattr li : Z) : lkind :=
  if li <=? 9 then K_fixed
  else if li =? 10 then K_skip
  else if li =? 11 then K_scale
  else if li =? 12 then K_missing
  else if li <=? 12 + ndep then K_desc
  else if li =? 13 + ndep then K_spcount
  else if li =? 14 + ndep then K_ucount
  else if li <? nattr + ndep + 15 then K_user
  else K_names.

(* lines 2..12 are classified independently of what has been read so far *)
Lemma classify_head n nm nsc ndep nattr li :
  0 <= nm -> 0 <= nsc -> 15 <= n -> 2 <= li <= 12 ->
  classify n nm nsc li = layout ndep nattr li.
Proof. intros; unfold classify, layout. split_tests. Qed.

(* once the missing-code line has been read (nm = ndep) and the special-comment count is 0,
   every later header line is interpreted as what the writer put there, iff the declared count
   is attributes + variables + 15 *)
Lemma classify_tail ndep nattr li :
  0 <= ndep -> 0 <= nattr -> 12 < li <= nattr + ndep + 15 ->
  classify (nattr + ndep + 15) ndep 0 li = layout ndep nattr li.
Proof. intros; unfold classify, layout. split_tests. Qed.

(* a declared count that is one too small (what a newline inside an attribute value causes)
   makes the reader take the last attribute line for the names line *)
Lemma classify_off_by_one ndep nattr :
  0 <= ndep -> 1 <= nattr ->
  classify (nattr + ndep + 15) ndep 0 (nattr + ndep + 15) = K_names
  /\ classify (nattr + ndep + 15) ndep 0 (nattr + ndep + 14) = K_user
  /\ classify (nattr + ndep + 14) ndep 0 (nattr + ndep + 14) = K_names.
Proof. intros; unfold classify; repeat split; split_tests. Qed.

(* ------------------------------------------------------------------ header count *)
Lemma split_on_none c s : has_char c s = false -> split_on c s = [s].
Proof.
  induction s as [|x t IH]; cbn [split_on has_char existsb]; intros H; [reflexivity|].
  apply orb_false_iff in H as [H1 H2]. rewrite Z.eqb_sym, H1. fold (has_char c t) in H2.
  rewrite (IH H2). reflexivity.
Qed.

Lemma print_one s : no_nl s = true -> print s = [PT s].
Proof.
  unfold no_nl, print; intros H. apply negb_true_iff in H. rewrite (split_on_none _ _ H). reflexivity.
Qed.

Lemma print_all l : forallb no_nl l = true -> concat (map print l) = map PT l.
Proof.
  induction l as [|s t IH]; cbn [forallb map concat]; intros H; [reflexivity|].
  apply andb_true_iff in H as [H1 H2]. rewrite (print_one _ H1), (IH H2). reflexivity.
Qed.

Lemma hdr_strings_length f ind sd :
  Z.of_nat (length (hdr_strings f ind sd)) + 1 = header_count f ind.
Proof.
  unfold hdr_strings, header_count. repeat rewrite app_length. repeat rewrite map_length.
  cbn [length]. unfold str. lia.
Qed.

Lemma hdr_strings_last f ind sd :
  last (hdr_strings f ind sd) [] = join sep (ind :: map v_name (depvars ind f)).
Proof.
  unfold hdr_strings. repeat rewrite app_assoc. apply last_last.
Qed.

Lemma has_char_app c a b : has_char c (a ++ b) = has_char c a || has_char c b.
Proof. unfold has_char. apply existsb_app. Qed.

Lemma replace_removes a b s : a <> b -> has_char a (replace_char a b s) = false.
Proof.
  intros H. induction s as [|x t IH]; [reflexivity|]. cbn [replace_char map has_char existsb].
  fold (replace_char a b t). fold (has_char a (replace_char a b t)). rewrite IH, orb_false_r.
  destruct (Z.eqb_spec x a) as [E|E]; apply Z.eqb_neq; congruence.
Qed.

Lemma replace_keeps_absent c a b s : c <> b -> has_char c s = false -> has_char c (replace_char a b s) = false.
Proof.
  intros Hb. induction s as [|x t IH]; [reflexivity|]. cbn [replace_char map has_char existsb].
  intros H. apply orb_false_iff in H as [H1 H2]. fold (replace_char a b t). fold (has_char c (replace_char a b t)).
  rewrite (IH H2), orb_false_r. destruct (x =? a); [apply Z.eqb_neq; exact Hb|exact H1].
Qed.

(* str(value) with line breaks replaced: never a newline, whatever the value *)
Lemma one_line_no_nl v : no_nl (one_line v) = true.
Proof.
  unfold no_nl, one_line. apply negb_true_iff. apply replace_keeps_absent; [discriminate|].
  apply replace_removes. discriminate.
Qed.

(* the header fields other than attribute values *)
Definition hdr_other (f : file) (ind sd : str) : list str :=
  let deps := depvars ind f in
  let a := f_attrs f in
  [ attr_or "PI_NAME" "Unknown" a; attr_or "ORGANIZATION_NAME" "Unknown" a;
    attr_or "SOURCE_DESCRIPTION" "Unknown" a; attr_or "MISSION_NAME" "Unknown" a;
    attr_or "VOLUME_INFO" "1, 1" a; sd ++ [cSP] ++ attr_or "WDATE" "2000, 01, 01" a;
    attr_or "TIME_INTERVAL" "0" a; indep_line f ind; zstr (Z.of_nat (length deps));
    join sep (map (fun _ => s2z "1") deps); join sep (map code_str deps) ]
  ++ map (fun v => join sep [v_name v; units_str v]) deps
  ++ [ s2z "0"; zstr (Z.of_nat (length (myattrs f))) ]
  ++ map fst (myattrs f)
  ++ [ join sep (ind :: map v_name deps) ].

Lemma attr_lines_no_nl my :
  forallb no_nl (map fst my) = true ->
  forallb no_nl (map (fun kv : str * str => fst kv ++ [cCOLON; cSP] ++ one_line (snd kv)) my) = true.
Proof.
  induction my as [|kv t IH]; cbn [map forallb]; intros H; [reflexivity|].
  apply andb_true_iff in H as [H1 H2]. rewrite (IH H2), andb_true_r.
  unfold no_nl in *. apply negb_true_iff in H1. apply negb_true_iff.
  rewrite !has_char_app, H1. cbn [orb]. pose proof (one_line_no_nl (snd kv)) as Q.
  unfold no_nl in Q. apply negb_true_iff in Q. rewrite Q. reflexivity.
Qed.

Lemma hdr_no_nl f ind sd : forallb no_nl (hdr_other f ind sd) = true -> forallb no_nl (hdr_strings f ind sd) = true.
Proof.
  unfold hdr_other, hdr_strings. rewrite !forallb_app. intros H.
  apply andb_true_iff in H as [A H]. apply andb_true_iff in H as [B H].
  apply andb_true_iff in H as [C0 H]. apply andb_true_iff in H as [D0 E].
  rewrite A, B, C0. cbn [andb]. apply andb_true_iff; split; [exact (attr_lines_no_nl _ D0)|exact E].
Qed.

(* declared = actual, for ANY attribute values: if no other printed field (names, units, the fixed lines,
   attribute keys) contains a newline, the text consists of exactly N - 1 header lines (the last one being
   the names line) followed by the data rows *)
Lemma header_count_exact f n ls ind sd :
  impl_write f = Some (n, ls) ->
  indep_name f = Some ind -> get_attr (s2z "SDATE") (f_attrs f) = Some sd ->
  forallb no_nl (hdr_other f ind sd) = true ->
  exists rows, ls = map PT (hdr_strings f ind sd) ++ map PR rows
    /\ Z.of_nat (length (hdr_strings f ind sd)) + 1 = n
    /\ n = Z.of_nat (length (myattrs f)) + Z.of_nat (length (depvars ind f)) + 15
    /\ last (hdr_strings f ind sd) [] = join sep (ind :: map v_name (depvars ind f)).
Proof.
  unfold impl_write; intros W Hi Hs Hn0. pose proof (hdr_no_nl _ _ _ Hn0) as Hn. rewrite Hi, Hs in W.
  destruct (find_var ind f) as [iv|]; [|discriminate]. cbv zeta in W.
  set (rows := transpose_rows (length (v_cells iv)) (filled iv :: map filled (depvars ind f))) in W.
  assert (En : n = header_count f ind) by congruence.
  assert (El : ls = concat (map print (hdr_strings f ind sd)) ++ map (fun r => PR (map fmt6e r)) rows) by congruence.
  subst n ls. clear W.
  rewrite (print_all _ Hn). exists (map (map fmt6e) rows). split; [|split; [|split]].
  - rewrite map_map. reflexivity.
  - apply hdr_strings_length.
  - reflexivity.
  - apply hdr_strings_last.
Qed.

(* ------------------------------------------------------------------ %.6e *)
Lemma ndig_nonneg fuel : forall m, 0 <= ndig fuel m.
Proof.
  induction fuel as [|k IH]; intros m; cbn [ndig]; [lia|].
  destruct (m <? 10); [lia|]. specialize (IH (m / 10)). lia.
Qed.

Lemma ndig_ge1 fuel m : (0 < fuel)%nat -> 1 <= ndig fuel m.
Proof.
  destruct fuel as [|k]; intros H; [inversion H|]. cbn [ndig].
  destruct (m <? 10); [lia|]. pose proof (ndig_nonneg k (m / 10)). lia.
Qed.

Lemma ndig_spec fuel : forall m, 0 < m -> m < 2 ^ Z.of_nat fuel ->
  10 ^ (ndig fuel m - 1) <= m < 10 ^ ndig fuel m.
Proof.
  induction fuel as [|k IH]; intros m Hm Hb.
  - cbn in Hb. lia.
  - cbn [ndig]. destruct (Z.ltb_spec m 10) as [Hs|Hs].
    + cbn. lia.
    + assert (Hq : 0 < m / 10) by (apply Z.div_str_pos; lia).
      assert (Hb' : m / 10 < 2 ^ Z.of_nat k).
      { rewrite Nat2Z.inj_succ, Z.pow_succ_r in Hb by lia.
        apply Z.div_lt_upper_bound; lia. }
      specialize (IH _ Hq Hb').
      assert (Hd : 1 <= ndig k (m / 10)).
      { apply ndig_ge1. destruct k; [cbn in Hb'; lia|lia]. }
      set (d := ndig k (m / 10)) in *.
      replace (1 + d - 1) with (Z.succ (d - 1)) by lia.
      replace (1 + d) with (Z.succ d) by lia.
      rewrite !Z.pow_succ_r by lia.
      assert (Hdm : m = 10 * (m / 10) + m mod 10) by (apply Z.div_mod; lia).
      assert (Hr : 0 <= m mod 10 < 10) by (apply Z.mod_pos_bound; lia).
      lia.
Qed.

Lemma ndigits_slow_spec m : 0 < m -> 1 <= ndigits_slow m /\ 10 ^ (ndigits_slow m - 1) <= m < 10 ^ ndigits_slow m.
Proof.
  intros Hm. unfold ndigits_slow. split.
  - apply ndig_ge1. lia.
  - apply ndig_spec; [exact Hm|].
    rewrite Nat2Z.inj_succ, Z2Nat.id by apply Z.log2_nonneg.
    apply Z.log2_spec; exact Hm.
Qed.

Lemma ndigits_spec m : 0 < m -> 1 <= ndigits m /\ 10 ^ (ndigits m - 1) <= m < 10 ^ ndigits m.
Proof.
  intros Hm. unfold ndigits.
  assert (Hg : 0 <= Z.log2 m * 30103 / 100000).
  { apply Z.div_pos; [|lia]. pose proof (Z.log2_nonneg m). lia. }
  set (g := Z.log2 m * 30103 / 100000) in *.
  destruct ((10 ^ g <=? m) && (m <? 10 ^ (g + 1))) eqn:C1.
  { apply andb_true_iff in C1 as [A B]. apply Z.leb_le in A. apply Z.ltb_lt in B.
    replace (g + 1 - 1) with g by lia. lia. }
  destruct ((1 <=? g) && (10 ^ (g - 1) <=? m) && (m <? 10 ^ g)) eqn:C2.
  { apply andb_true_iff in C2 as [AB C]. apply andb_true_iff in AB as [A B].
    apply Z.leb_le in A, B. apply Z.ltb_lt in C. lia. }
  destruct ((10 ^ (g + 1) <=? m) && (m <? 10 ^ (g + 2))) eqn:C3.
  { apply andb_true_iff in C3 as [A B]. apply Z.leb_le in A. apply Z.ltb_lt in B.
    replace (g + 2 - 1) with (g + 1) by lia. lia. }
  apply ndigits_slow_spec, Hm.
Qed.

Lemma ndigits_unique m d : 0 < m -> 1 <= d -> 10 ^ (d - 1) <= m < 10 ^ d -> ndigits m = d.
Proof.
  intros Hm Hd [H1 H2]. destruct (ndigits_spec m Hm) as [Hn [H3 H4]].
  destruct (Z.lt_trichotomy (ndigits m) d) as [L|[E|G]]; [|exact E|].
  - assert (10 ^ ndigits m <= 10 ^ (d - 1)) by (apply Z.pow_le_mono_r; lia). lia.
  - assert (10 ^ d <= 10 ^ (ndigits m - 1)) by (apply Z.pow_le_mono_r; lia). lia.
Qed.

Lemma rhe_bounds a p : 0 <= a -> 0 < p ->
  (rhe a p = a / p \/ rhe a p = a / p + 1) /\ 2 * Z.abs (rhe a p * p - a) <= p.
Proof.
  intros Ha Hp. unfold rhe.
  assert (Hd : a = p * (a / p) + a mod p) by (apply Z.div_mod; lia).
  assert (Hr : 0 <= a mod p < p) by (apply Z.mod_pos_bound; lia).
  destruct (Z.ltb_spec (2 * (a mod p)) p); [split; [left; reflexivity|nia]|].
  destruct (Z.ltb_spec p (2 * (a mod p))); [split; [right; reflexivity|nia]|].
  destruct (Z.even (a / p)); [split; [left; reflexivity|nia] | split; [right; reflexivity|nia]].
Qed.

Lemma abs_sgn_mul m x : m <> 0 -> 0 <= x -> Z.abs (Z.sgn m * x) = x.
Proof. intros; destruct m; cbn; try lia; destruct x; cbn; lia. Qed.

Lemma pow10_pos k : 0 < 10 ^ k \/ k < 0.
Proof. destruct (Z.lt_ge_cases k 0); [right; lia|left; apply Z.pow_pos_nonneg; lia]. Qed.

(* the result of '%.6e' is a canonical 7-digit decimal *)
Lemma fmt6e_canon x : canon7 (fmt6e x) = true.
Proof.
  unfold fmt6e. destruct (Z.eqb_spec (dm x) 0) as [E|E]; [reflexivity|].
  assert (Ha : 0 < Z.abs (dm x)) by lia.
  destruct (ndigits_spec _ Ha) as [Hn [H1 H2]].
  set (a := Z.abs (dm x)) in *. set (nd := ndigits a) in *.
  destruct (Z.leb_spec nd 7) as [L|L]; unfold canon7; cbn [dm de].
  - rewrite <- Z.mul_assoc, abs_sgn_mul by (first [exact E | apply Z.mul_nonneg_nonneg; [lia|apply Z.pow_nonneg; lia]]).
    assert (P : 0 < 10 ^ (7 - nd)) by (apply Z.pow_pos_nonneg; lia).
    assert (E6 : 10 ^ 6 = 10 ^ (nd - 1) * 10 ^ (7 - nd)) by (rewrite <- Z.pow_add_r by lia; f_equal; lia).
    assert (E7 : 10 ^ 7 = 10 ^ nd * 10 ^ (7 - nd)) by (rewrite <- Z.pow_add_r by lia; f_equal; lia).
    apply orb_true_iff; right. apply andb_true_iff; split; [apply Z.leb_le|apply Z.ltb_lt].
    + rewrite E6. apply Z.mul_le_mono_nonneg_r; lia.
    + rewrite E7. apply Z.mul_lt_mono_pos_r; lia.
  - set (k := nd - 7) in *.
    assert (P : 0 < 10 ^ k) by (apply Z.pow_pos_nonneg; lia).
    destruct (rhe_bounds a (10 ^ k)) as [Hq _]; [lia|exact P|].
    assert (E6 : 10 ^ (nd - 1) = 10 ^ 6 * 10 ^ k) by (rewrite <- Z.pow_add_r by lia; f_equal; lia).
    assert (E7 : 10 ^ nd = 10 ^ 7 * 10 ^ k) by (rewrite <- Z.pow_add_r by lia; f_equal; lia).
    assert (Q1 : 10 ^ 6 <= a / 10 ^ k) by (apply Z.div_le_lower_bound; lia).
    assert (Q2 : a / 10 ^ k < 10 ^ 7) by (apply Z.div_lt_upper_bound; lia).
    destruct (Z.eqb_spec (rhe a (10 ^ k)) (10 ^ 7)) as [R|R]; cbn [dm de].
    + rewrite abs_sgn_mul by (try exact E; lia). apply orb_true_iff; right; reflexivity.
    + rewrite abs_sgn_mul by (try exact E; lia).
      apply orb_true_iff; right. apply andb_true_iff; split; [apply Z.leb_le|apply Z.ltb_lt]; lia.
Qed.

(* printing a canonical 7-digit decimal changes nothing (second cycle) *)
Lemma fmt6e_fixed d : canon7 d = true -> fmt6e d = d.
Proof.
  unfold canon7; intros H. apply orb_true_iff in H as [H|H].
  - apply andb_true_iff in H as [H1 H2]. apply Z.eqb_eq in H1, H2. destruct d as [m e]; cbn in *; subst.
    reflexivity.
  - apply andb_true_iff in H as [H1 H2]. apply Z.leb_le in H1. apply Z.ltb_lt in H2.
    unfold fmt6e. destruct (Z.eqb_spec (dm d) 0) as [E|E]; [rewrite E in H1; cbn in H1; lia|].
    assert (Hn : ndigits (Z.abs (dm d)) = 7) by (apply ndigits_unique; cbn; lia).
    rewrite Hn. cbn [Z.leb Z.compare Pos.compare Pos.compare_cont]. cbn.
    destruct d as [m e]; cbn [dm de] in *. f_equal; [|lia].
    rewrite Z.mul_1_r. rewrite Z.mul_comm. apply Z.abs_sgn.
Qed.

Lemma fmt6e_idem x : fmt6e (fmt6e x) = fmt6e x.
Proof. apply fmt6e_fixed, fmt6e_canon. Qed.

(* seven significant digits: the printed decimal is either exact (coarser input exponent) or within
   half a unit of its last (7th) digit *)
Lemma fmt6e_error x :
  let r := fmt6e x in
  (de r <= de x -> dm r = dm x * 10 ^ (de x - de r))
  /\ (de x < de r -> 2 * Z.abs (dm r * 10 ^ (de r - de x) - dm x) <= 10 ^ (de r - de x)).
Proof.
  cbv zeta. unfold fmt6e. destruct (Z.eqb_spec (dm x) 0) as [E|E].
  - cbn [dm de]. split; intros; [lia|]. rewrite E.
    assert (0 < 10 ^ (0 - de x)) by (apply Z.pow_pos_nonneg; lia). cbn. lia.
  - assert (Ha : 0 < Z.abs (dm x)) by lia.
    destruct (ndigits_spec _ Ha) as [Hn [H1 H2]].
    set (a := Z.abs (dm x)) in *. set (nd := ndigits a) in *.
    destruct (Z.leb_spec nd 7) as [L|L]; cbn [dm de].
    + split; intros H; [|lia].
      replace (de x - (de x - (7 - nd))) with (7 - nd) by lia.
      f_equal. unfold a. rewrite Z.mul_comm. apply Z.abs_sgn.
    + set (k := nd - 7) in *.
      assert (P : 0 < 10 ^ k) by (apply Z.pow_pos_nonneg; lia).
      destruct (rhe_bounds a (10 ^ k)) as [_ Hb]; [lia|exact P|].
      assert (Sg : dm x = Z.sgn (dm x) * a) by (unfold a; symmetry; rewrite Z.mul_comm; apply Z.abs_sgn).
      destruct (Z.eqb_spec (rhe a (10 ^ k)) (10 ^ 7)) as [R|R]; cbn [dm de]; (split; intros H; [lia|]).
      * replace (de x + k + 1 - de x) with (Z.succ k) by lia. rewrite Z.pow_succ_r by lia.
        rewrite R in Hb.
        replace (Z.sgn (dm x) * 10 ^ 6 * (10 * 10 ^ k) - dm x) with (Z.sgn (dm x) * (10 ^ 7 * 10 ^ k - a))
          by (rewrite Sg at 3; change (10 ^ 7) with (10 * 10 ^ 6); ring).
        rewrite Z.abs_mul. replace (Z.abs (Z.sgn (dm x))) with 1 by (destruct (dm x); cbn; lia). lia.
      * replace (de x + k - de x) with k by lia.
        replace (Z.sgn (dm x) * rhe a (10 ^ k) * 10 ^ k - dm x) with (Z.sgn (dm x) * (rhe a (10 ^ k) * 10 ^ k - a))
          by (rewrite Sg at 3; ring).
        rewrite Z.abs_mul. replace (Z.abs (Z.sgn (dm x))) with 1 by (destruct (dm x); cbn; lia). lia.
Qed.

(* ------------------------------------------------------------------ one cell through write + read *)
(* the writer fills a masked cell with the variable's code; the reader compares with [rcode] (the same code
   for dependent variables) *)
Definition cell_rt (rcode wcode : dec) (c : option dec) : cell :=
  cell_apply (D 1 0) rcode (CV (fmt6e (match c with Some d => d | None => wcode end))).

Lemma dec_mul_one d : dec_mul d (D 1 0) = d.
Proof. destruct d as [m e]; unfold dec_mul; cbn [dm de]. f_equal; lia. Qed.

Lemma cell_rt_masked rcode wcode :
  dec_eqb (fmt6e wcode) rcode = true -> cell_rt rcode wcode None = CM.
Proof. unfold cell_rt, cell_apply; intros ->; reflexivity. Qed.

Lemma cell_rt_value rcode wcode d :
  dec_eqb (fmt6e d) rcode = false -> cell_rt rcode wcode (Some d) = CV (fmt6e d).
Proof. unfold cell_rt, cell_apply; intros ->. rewrite dec_mul_one. reflexivity. Qed.

Lemma cell_rt_spec rcode wcode c :
  dec_eqb (fmt6e wcode) rcode = true ->
  (forall d, c = Some d -> dec_eqb (fmt6e d) rcode = false) ->
  cell_rt rcode wcode c = spec_cell c.
Proof.
  intros Hf Hv. destruct c as [d|]; cbn [spec_cell].
  - apply cell_rt_value, Hv; reflexivity.
  - apply cell_rt_masked, Hf.
Qed.

Lemma dec_eqb_refl d : dec_eqb d d = true.
Proof. unfold dec_eqb. rewrite Z.min_id. apply Z.eqb_refl. Qed.

(* a code that is itself a 7-digit decimal: whatever the array's fill value was, masks survive *)
Lemma cell_rt_canon code c :
  canon7 code = true ->
  (forall d, c = Some d -> dec_eqb (fmt6e d) code = false) ->
  cell_rt code code c = spec_cell c.
Proof.
  intros Hc Hv. apply cell_rt_spec; [|exact Hv]. rewrite (fmt6e_fixed _ Hc). apply dec_eqb_refl.
Qed.

(* second cycle on one cell: what was read is written and read back unchanged *)
Lemma cell_second code w c :
  canon7 code = true ->
  let back := fun x => match x with CV d => Some d | _ => None end in
  cell_rt code code (back (cell_rt code w c)) = cell_rt code w c.
Proof.
  intros Hc back. unfold cell_rt at 2 3. unfold cell_apply.
  destruct (dec_eqb (fmt6e match c with Some d => d | None => w end) code) eqn:E; cbn [back].
  - unfold cell_rt, cell_apply. rewrite (fmt6e_fixed _ Hc), dec_eqb_refl. reflexivity.
  - rewrite dec_mul_one. unfold cell_rt, cell_apply. rewrite fmt6e_idem, E, dec_mul_one. reflexivity.
Qed.

(* ------------------------------------------------------------------ single header lines *)
Lemma split_on_app c a b : has_char c a = false -> split_on c (a ++ c :: b) = a :: split_on c b.
Proof.
  induction a as [|x t IH]; cbn [app split_on has_char existsb]; intros H.
  - rewrite Z.eqb_refl. reflexivity.
  - apply orb_false_iff in H as [H1 H2]. rewrite Z.eqb_sym, H1. fold (has_char c t) in H2.
    rewrite (IH H2). reflexivity.
Qed.

Lemma stripped_strip s : stripped s = true -> strip s = s.
Proof. unfold stripped, str_eqb; intros H. apply (list_eqb_eq Z.eqb Z.eqb_eq) in H. exact H. Qed.

Lemma lstrip_sp s : lstrip (cSP :: s) = lstrip s.
Proof. reflexivity. Qed.

Lemma strip_sp s : strip (cSP :: s) = strip s.
Proof. reflexivity. Qed.

(* variable description line "name, units" *)
Lemma parse_desc_print name u :
  has_char cCOMMA name = false -> stripped name = true ->
  has_char cCOMMA u = false -> stripped u = true ->
  parse_desc (join sep [name; u]) = (name, u).
Proof.
  intros H1 H2 H3 H4. unfold parse_desc, join, sep. cbn [app].
  rewrite (split_on_app _ _ _ H1). cbn [nth_str nth].
  change (split_on cCOMMA (cSP :: u)) with
    (if cSP =? cCOMMA then [] :: split_on cCOMMA u
     else match split_on cCOMMA u with h :: r => (cSP :: h) :: r | [] => [[cSP]] end).
  cbn [Z.eqb cSP cCOMMA Pos.eqb]. rewrite (split_on_none _ _ H3).
  rewrite strip_sp, (stripped_strip _ H2), (stripped_strip _ H4). reflexivity.
Qed.

(* user attribute line "key: value" *)
Lemma find_char_app c a b : has_char c a = false -> find_char c (a ++ c :: b) = Some (length a).
Proof.
  induction a as [|x t IH]; cbn [app find_char has_char existsb length]; intros H.
  - rewrite Z.eqb_refl. reflexivity.
  - apply orb_false_iff in H as [H1 H2]. rewrite Z.eqb_sym, H1. fold (has_char c t) in H2.
    rewrite (IH H2). reflexivity.
Qed.

Lemma parse_user_print k v :
  has_char cCOLON k = false -> stripped k = true ->
  parse_user (k ++ [cCOLON; cSP] ++ v) = (k, strip v).
Proof.
  intros H1 H2. unfold parse_user. cbn [app]. rewrite (find_char_app _ _ _ H1).
  rewrite firstn_app, Nat.sub_diag, firstn_all. cbn [firstn]. rewrite app_nil_r.
  replace (skipn (S (length k)) (k ++ cCOLON :: cSP :: v)) with (cSP :: v).
  - rewrite strip_sp, (stripped_strip _ H2). reflexivity.
  - change (S (length k)) with (1 + length k)%nat. rewrite Nat.add_comm.
    rewrite <- (app_nil_r k) at 2. rewrite <- app_assoc. cbn [app].
    replace (k ++ cCOLON :: cSP :: v) with ((k ++ [cCOLON]) ++ cSP :: v) by (rewrite <- app_assoc; reflexivity).
    replace (length k + 1)%nat with (length (k ++ [cCOLON])) by (rewrite app_length; reflexivity).
    rewrite skipn_app, Nat.sub_diag, skipn_all. reflexivity.
Qed.

(* names line: words of the comma-joined clean tokens are the tokens *)
Definition word_tok (s : str) : bool :=
  match s with [] => false | _ => forallb (fun c => negb (is_ws c) && negb (c =? cCOMMA)) s end.

Lemma words_unfold x t :
  words (x :: t) =
  if is_ws x then words t
  else match t with
       | [] => [[x]]
       | y :: _ => if is_ws y then [x] :: words t
                   else match words t with h :: r => (x :: h) :: r | [] => [[x]] end
       end.
Proof. reflexivity. Qed.

Definition nonws (s : str) : bool := forallb (fun c => negb (is_ws c)) s.

Lemma words_nonws_end x t : nonws (x :: t) = true -> words (x :: t) = [x :: t].
Proof.
  revert x; induction t as [|y t IH]; intros x H; unfold nonws in H; cbn [forallb] in H.
  - rewrite andb_true_r in H. apply negb_true_iff in H. rewrite words_unfold, H. reflexivity.
  - apply andb_true_iff in H as [Hx Hr]. apply negb_true_iff in Hx.
    pose proof Hr as Hr'. cbn [forallb] in Hr'. apply andb_true_iff in Hr' as [Hy _]. apply negb_true_iff in Hy.
    rewrite words_unfold, Hx, Hy, (IH y Hr). reflexivity.
Qed.

Lemma words_nonws_sep x t rest : nonws (x :: t) = true ->
  words ((x :: t) ++ cSP :: rest) = (x :: t) :: words rest.
Proof.
  revert x; induction t as [|y t IH]; intros x H; unfold nonws in H; cbn [forallb] in H.
  - rewrite andb_true_r in H. apply negb_true_iff in H. cbn [app].
    rewrite words_unfold, H. change (is_ws cSP) with true. cbn iota.
    rewrite (words_unfold cSP rest). reflexivity.
  - apply andb_true_iff in H as [Hx Hr]. apply negb_true_iff in Hx.
    pose proof Hr as Hr'. cbn [forallb] in Hr'. apply andb_true_iff in Hr' as [Hy _]. apply negb_true_iff in Hy.
    change ((x :: y :: t) ++ cSP :: rest) with (x :: ((y :: t) ++ cSP :: rest)).
    rewrite words_unfold, Hx. change ((y :: t) ++ cSP :: rest) with (y :: (t ++ cSP :: rest)).
    cbn iota. rewrite Hy. change (y :: t ++ cSP :: rest) with ((y :: t) ++ cSP :: rest).
    rewrite (IH y Hr). reflexivity.
Qed.

Lemma word_tok_nonws t : word_tok t = true -> exists x r, t = x :: r /\ nonws t = true /\ has_char cCOMMA t = false.
Proof.
  destruct t as [|x r]; [discriminate|]. cbn [word_tok]. intros H. exists x, r. split; [reflexivity|].
  revert H. generalize (x :: r). intros l. induction l as [|c l IH]; cbn [forallb nonws has_char existsb]; intros H.
  - split; reflexivity.
  - apply andb_true_iff in H as [Hc Hl]. apply andb_true_iff in Hc as [C1 C2].
    destruct (IH Hl) as [I1 I2]. unfold nonws in I1. rewrite C1, I1. apply negb_true_iff in C2.
    rewrite Z.eqb_sym in C2. rewrite C2. split; [reflexivity|exact I2].
Qed.

Lemma replace_none a b s : has_char a s = false -> replace_char a b s = s.
Proof.
  induction s as [|x t IH]; cbn [replace_char map has_char existsb]; intros H; [reflexivity|].
  apply orb_false_iff in H as [H1 H2]. rewrite Z.eqb_sym, H1. f_equal. apply IH, H2.
Qed.

Lemma replace_app a b s t : replace_char a b (s ++ t) = replace_char a b s ++ replace_char a b t.
Proof. unfold replace_char. apply map_app. Qed.

Lemma parse_names_words names :
  names <> [] -> forallb word_tok names = true ->
  words (replace_char cCOMMA cSP (join sep names)) = names.
Proof.
  induction names as [|a t IH]; intros Hne H; [congruence|].
  cbn [forallb] in H. apply andb_true_iff in H as [Ha Ht].
  destruct (word_tok_nonws _ Ha) as (x & r & -> & Hn & Hc).
  destruct t as [|b t'].
  - cbn [join]. rewrite (replace_none _ _ _ Hc). apply words_nonws_end, Hn.
  - change (join sep ((x :: r) :: b :: t')) with ((x :: r) ++ sep ++ join sep (b :: t')).
    rewrite !replace_app, (replace_none _ _ _ Hc).
    change (replace_char cCOMMA cSP sep) with [cSP; cSP]. cbn [app].
    change ((x :: r ++ cSP :: cSP :: replace_char cCOMMA cSP (join sep (b :: t'))))
      with ((x :: r) ++ cSP :: (cSP :: replace_char cCOMMA cSP (join sep (b :: t')))).
    rewrite (words_nonws_sep _ _ _ Hn). rewrite (words_unfold cSP). change (is_ws cSP) with true. cbn iota.
    f_equal. apply IH; [discriminate|exact Ht].
Qed.

(* the names line gives back the names, in order, for every number of variables *)
Lemma parse_names_print names :
  names <> [] -> forallb word_tok names = true ->
  forallb (fun s => negb (has_char cSLASH s)) names = true ->
  parse_names (join sep names) = names.
Proof.
  intros Hne Hw Hs. unfold parse_names. rewrite (parse_names_words _ Hne Hw).
  clear Hne Hw. induction names as [|a t IH]; [reflexivity|].
  cbn [forallb map] in *. apply andb_true_iff in Hs as [H1 H2]. apply negb_true_iff in H1.
  rewrite (replace_none _ _ _ H1), (IH H2). reflexivity.
Qed.

(* auto-detection: the key line is one of the first 99 lines after line 1; if none of them carries the
   eight L100 column names as its first eight tokens, the l100 reader does not claim the file *)
Lemma nth_error_firstn_In {A} (l : list A) n k x : (n < k)%nat -> nth_error l n = Some x -> In x (firstn k l).
Proof.
  revert n k; induction l as [|a t IH]; intros n k Hk H; [destruct n; discriminate|].
  destruct k; [lia|]. destruct n; cbn in *.
  - left. congruence.
  - right. apply (IH n k); [lia|exact H].
Qed.

Lemma detect_ffi ls :
  forallb (fun l => negb (claims l)) (firstn 99 ls) = true -> impl_detect ls = R_ffi1001.
Proof.
  intros H. rewrite forallb_forall in H. unfold impl_detect.
  destruct (find is_level_line (firstn 99 ls)) as [l|] eqn:F.
  - apply find_some in F as [Hin _]. specialize (H _ Hin). apply negb_true_iff in H. rewrite H. reflexivity.
  - destruct (nth_error ls 26) as [l|] eqn:N.
    + assert (Hin : In l (firstn 99 ls)) by (apply (nth_error_firstn_In ls 26 99); [lia|exact N]).
      specialize (H _ Hin). apply negb_true_iff in H. rewrite H. reflexivity.
    + (* no 28th line: lines[-2] is '' -> no tokens -> not claimed *)
      reflexivity.
Qed.

(* a line with fewer than 8 tokens is never claimed: short files, an independent variable called Level *)
Lemma few_tokens_not_claimed l : (length (pline_words l) < 8)%nat -> claims l = false.
Proof.
  intros H. unfold claims. destruct (Z.leb_spec 8 (Z.of_nat (length (pline_words l)))); [lia|reflexivity].
Qed.

(* ------------------------------------------------------------------ concrete files (witnesses, non-vacuity) *)
Definition rt_ok (f : file) : bool :=
  match impl_roundtrip f, spec_roundtrip f with
  | Some r, Some sp => rvars_eqb (r_vars r) sp
  | _, _ => false
  end.
Definition second_ok (f : file) : bool :=
  match impl_roundtrip f, impl_second f with
  | Some r1, Some r2 => rvars_eqb (r_vars r2) (r_vars r1)
  | _, _ => false
  end.
Definition detect_ok (f : file) : bool :=
  match impl_write f with
  | Some (_, ls) => match impl_detect ls with R_ffi1001 => true | R_l100 => false end
  | None => false
  end.

Definition base_attrs (extra : list (str * str)) : list (str * str) :=
  [(s2z "SDATE", s2z "2020, 01, 02"); (s2z "WDATE", s2z "2021, 03, 04"); (s2z "INDEPENDENT_VARIABLE", s2z "t")] ++ extra.
Definition tvar (units code : string) (n : nat) : var :=
  Var (s2z "t") (Some (s2z units)) (Some (s2z code)) (D (-9999) 0) (map (fun i => Some (D (Z.of_nat i) 0)) (seq 0 n)).
Definition avar (name units code : string) (fill : dec) (cells : list (option dec)) (n : nat) : var :=
  Var (s2z name) (Some (s2z units)) (Some (s2z code)) fill (cells ++ repeat (Some (D 15 (-1))) (n - length cells)).

(* a file inside the proved domain: 2 dependent variables, masked cells, wide magnitudes, an attribute
   with a colon, 16 records (34 lines) *)
Definition w_good : file :=
  File (base_attrs [(s2z "REVISION", s2z "R0: first"); (s2z "PI_NAME", s2z "Doe, J.")])
       [tvar "t" "-9999" 16;
        avar "NO" "ppbv" "-9999" (D (-9999) 0) [Some (D 123456789 (-3)); None; Some (D (-3) (-20)); Some (D 4 30); Some (D 0 0)] 16;
        avar "T_K" "K" "-8888.5" (D (-88885) (-1)) [None; Some (D 27315 (-2)); Some (D 99999995 (-4))] 16].
(* same file, 3 records: 21 lines *)
Definition w_short : file :=
  File (base_attrs [])
       [tvar "t" "-9999" 3; avar "NO" "ppbv" "-9999" (D (-9999) 0) [Some (D 1 0); None] 3].
(* independent variable with its own unit and code *)
Definition w_indep : file :=
  File (base_attrs []) [tvar "s" "-7777" 16; avar "NO" "ppbv" "-9999" (D (-9999) 0) [Some (D 1 0); None] 16].
(* attribute value containing a newline *)
Definition w_newline : file :=
  File (base_attrs [(s2z "OTHER_COMMENTS", s2z "one" ++ [cNL] ++ s2z "two")])
       [tvar "t" "-9999" 16; avar "NO" "ppbv" "-9999" (D (-9999) 0) [Some (D 1 0); None] 16].
(* eight-digit missing code *)
Definition w_longcode : file :=
  File (base_attrs [])
       [tvar "t" "-99999999" 16; avar "NO" "ppbv" "-99999999" (D (-99999999) 0) [Some (D 1 0); None] 16].
(* masked array whose fill value is not the missing_value attribute *)
Definition w_fill : file :=
  File (base_attrs [])
       [tvar "t" "-9999" 16; avar "NO" "ppbv" "-9999" (D 1 20) [Some (D 1 0); None] 16].
(* an unmasked value that prints like the code *)
Definition w_collide : file :=
  File (base_attrs [])
       [tvar "t" "-9999" 16; avar "NO" "ppbv" "-9999" (D (-9999) 0) [Some (D (-99990000001) (-7)); None] 16].
Definition w_lod : file :=
  File (base_attrs [(s2z "LLOD_FLAG", s2z "-8888")])
       [tvar "t" "-9999" 16; avar "NO" "ppbv" "-9999" (D (-9999) 0) [Some (D 1 0); None] 16].
Definition w_slash : file :=
  File (base_attrs [])
       [tvar "t" "-9999" 16; avar "NO/NOy" "ppbv" "-9999" (D (-9999) 0) [Some (D 1 0); None] 16].
Definition w_unit_comma : file :=
  File (base_attrs [])
       [tvar "t" "-9999" 16; avar "NO" "mol,m" "-9999" (D (-9999) 0) [Some (D 1 0); None] 16].
(* independent variable called Level: l100 claims the file whatever its length *)
Definition w_level : file :=
  File [(s2z "SDATE", s2z "2020, 01, 02"); (s2z "WDATE", s2z "2021, 03, 04"); (s2z "INDEPENDENT_VARIABLE", s2z "Level")]
       [Var (s2z "Level") (Some (s2z "Level")) (Some (s2z "-9999")) (D (-9999) 0) (map (fun i => Some (D (Z.of_nat i) 0)) (seq 0 16));
        avar "NO" "ppbv" "-9999" (D (-9999) 0) [Some (D 1 0); None] 16].

(* ------------------------------------------------------------------ the missing-code / scale line *)
Lemma split_on_cons_other c x s : x <> c ->
  split_on c (x :: s) = match split_on c s with h :: r => (x :: h) :: r | [] => [[x]] end.
Proof. intros H. cbn [split_on]. destruct (Z.eqb_spec x c); [contradiction|reflexivity]. Qed.

Lemma split_join toks a :
  forallb (fun t => negb (has_char cCOMMA t)) (a :: toks) = true ->
  split_on cCOMMA (join sep (a :: toks)) = a :: map (cons cSP) toks.
Proof.
  revert a; induction toks as [|b t IH]; intros a H; cbn [forallb] in H.
  - rewrite andb_true_r in H. apply negb_true_iff in H. cbn [join map]. apply split_on_none, H.
  - apply andb_true_iff in H as [Ha Hr]. apply negb_true_iff in Ha.
    change (join sep (a :: b :: t)) with (a ++ cCOMMA :: cSP :: join sep (b :: t)).
    rewrite (split_on_app _ _ _ Ha). rewrite split_on_cons_other by discriminate.
    rewrite (IH b Hr). reflexivity.
Qed.

Lemma lstrip_nonws s : nonws s = true -> lstrip s = s.
Proof.
  destruct s as [|x t]; [reflexivity|]. unfold nonws; cbn [forallb lstrip]. intros H.
  apply andb_true_iff in H as [H _]. apply negb_true_iff in H. rewrite H. reflexivity.
Qed.

Lemma nonws_rev s : nonws s = true -> nonws (rev s) = true.
Proof.
  unfold nonws. rewrite !forallb_forall. intros H x Hx. apply H. apply in_rev. exact Hx.
Qed.

Lemma strip_nonws s : nonws s = true -> strip s = s.
Proof.
  intros H. unfold strip, rstrip. rewrite (lstrip_nonws _ H), (lstrip_nonws _ (nonws_rev _ H)).
  apply rev_involutive.
Qed.

Lemma clean_code_facts t : clean_code t = true ->
  (exists c, parse_num t = Some c) /\ nonws t = true /\ has_char cCOMMA t = false.
Proof.
  unfold clean_code. intros H. apply andb_true_iff in H as [H1 H2]. split; [|split].
  - destruct (parse_num t) as [c|]; [exists c; reflexivity|discriminate].
  - unfold nonws. rewrite forallb_forall in *. intros x Hx. specialize (H2 x Hx).
    apply andb_true_iff in H2 as [H2 _]. exact H2.
  - unfold has_char. apply not_true_is_false. intros E. apply existsb_exists in E as (x & Hx & Ex).
    rewrite forallb_forall in H2. specialize (H2 x Hx). apply andb_true_iff in H2 as [_ H2].
    apply negb_true_iff in H2. apply Z.eqb_eq in Ex. subst x. unfold cCOMMA in *. rewrite Z.eqb_refl in H2. discriminate.
Qed.

Definition code_of (t : str) : dec := match parse_num t with Some c => c | None => D 0 0 end.

Lemma all_some_map_some {A B} (g : A -> B) (l : list A) : all_some (map (fun x => Some (g x)) l) = Some (map g l).
Proof. induction l as [|x t IH]; [reflexivity|]. cbn [map all_some]. rewrite IH. reflexivity. Qed.

(* the missing-code line (and the scale line) gives back every token and its value, for ANY number of
   variables: in particular len(missing) = number of dependent variables, which is what positions
   every later header line *)
Lemma eval_list_print toks a :
  forallb clean_code (a :: toks) = true ->
  eval_list (join sep (a :: toks)) = Some (map (fun t => (t, code_of t)) (a :: toks)).
Proof.
  intros H. unfold eval_list.
  assert (Hc : forallb (fun t => negb (has_char cCOMMA t)) (a :: toks) = true).
  { rewrite forallb_forall in *. intros x Hx. destruct (clean_code_facts _ (H x Hx)) as (_ & _ & E). rewrite E. reflexivity. }
  rewrite (split_join _ _ Hc).
  assert (E : map (fun t => option_map (pair (strip t)) (parse_num (strip t))) (a :: map (cons cSP) toks)
              = map (fun t => Some (t, code_of t)) (a :: toks)).
  { cbn [map]. cbn [forallb] in H. apply andb_true_iff in H as [Ha Ht]. f_equal.
    - destruct (clean_code_facts _ Ha) as ((c & P) & N & _). rewrite (strip_nonws _ N). unfold code_of. rewrite P. reflexivity.
    - rewrite map_map. apply map_ext_in. intros t Hin. rewrite forallb_forall in Ht.
      destruct (clean_code_facts _ (Ht t Hin)) as ((c & P) & N & _).
      rewrite strip_sp, (strip_nonws _ N). unfold code_of. rewrite P. reflexivity. }
  rewrite E. apply all_some_map_some.
Qed.

Lemma eval_list_length toks a :
  forallb clean_code (a :: toks) = true ->
  exists ms, eval_list (join sep (a :: toks)) = Some ms /\ length ms = length (a :: toks).
Proof.
  intros H. eexists. split; [apply (eval_list_print _ _ H)|]. rewrite map_length. reflexivity.
Qed.
