(* Every byte prefix of a bpch-convention file through the bpch1 reader model (C14 for bpch; used by Props/C18.v). *)
From PNC Require Import Base.Util Base.Words Gen.Bpch Model.Bpch Proofs.WordsProofs Proofs.BpchProofs.
From Coq Require Import String QArith.
Import Coq.Lists.List. Import ListNotations.
Local Open Scope Z_scope.

Lemma walk_short T D fuel R rem first : rem < 220 -> walk fuel T D R rem first = Err.
Proof.
  intros H. destruct fuel; [reflexivity|]. destruct consts as (_ & _ & C3 & _). cbn [walk]. rewrite C3.
  replace (rem <? 220) with true by (symmetry; apply Z.ltb_lt; exact H). reflexivity.
Qed.

(* one iteration of the walk on ANY word list whose first 55 words parse as the header of b *)
Lemma walk_step_gen T D f b R rem first : wf_block b = true -> tables_ok T D = true ->
  parse_hdr R = hdr_of b -> 220 <= rem ->
  walk (S f) T D R rem first =
  let rem' := rem - 4 * lenZ (blockw b) in
  let rest' := skipnZ (Z.of_nat dht_words + (4 * lenZ (b_data b) + 8) / 4) R in
  match first with
  | None => if 0 <? rem'
            then walk_cont (walk f T D rest' rem' (Some (b_cat b, b_tid b))) (entry_of T D b)
            else Ok [entry_of T D b]
  | Some (c0, t0) =>
    if (zlist_eqb (b_cat b) c0 && (b_tid b =? t0)) || (rem' =? 0) then
      if (rem' =? 0) && negb (zlist_eqb (b_cat b) c0 && (b_tid b =? t0)) then Ok [entry_of T D b] else Ok []
    else if 0 <? rem'
         then walk_cont (walk f T D rest' rem' first) (entry_of T D b)
         else Ok [entry_of T D b]
  end.
Proof.
  intros Hwf Hok HP Hrem.
  pose proof (mk_entry_block T D b Hwf Hok) as HM.
  pose proof (lenZ_blockw b Hwf) as HL.
  pose proof (lenZ_nonneg (b_data b)) as Hd.
  destruct consts as (_ & _ & C3 & _).
  cbn [walk]. rewrite HP, C3. cbn [p_skip p_cat p_tid hdr_of].
  replace (rem <? 220) with false by (symmetry; apply Z.ltb_ge; lia).
  replace (4 * lenZ (b_data b) + 8 <? 0) with false by (symmetry; apply Z.ltb_ge; lia).
  replace ((4 * lenZ (b_data b) + 8) mod 4 =? 0) with true.
  2:{ symmetry. apply Z.eqb_eq. replace (4 * lenZ (b_data b) + 8) with ((lenZ (b_data b) + 2) * 4) by lia.
      apply Z.mod_mul. lia. }
  cbn [orb negb]. rewrite HM.
  replace (rem - 220 - (4 * lenZ (b_data b) + 8)) with (rem - 4 * lenZ (blockw b)) by lia.
  unfold walk_cont. destruct first as [[c0 t0]|]; reflexivity.
Qed.

Lemma parse_hdr_firstn b Y q : wf_block b = true -> (55 <= q)%nat ->
  parse_hdr (firstn q (blockw b ++ Y)) = hdr_of b.
Proof.
  intros Hwf Hq. replace q with (55 + (q - 55))%nat by lia. generalize (q - 55)%nat as q'. intros q'.
  explode_block b Hwf. reflexivity.
Qed.

Lemma skipnZ_firstn_block b W rem' : wf_block b = true -> 0 <= rem' ->
  skipnZ (Z.of_nat dht_words + (4 * lenZ (b_data b) + 8) / 4)
         (firstn (Z.to_nat ((rem' + 4 * lenZ (blockw b)) / 4)) (blockw b ++ W))
  = firstn (Z.to_nat (rem' / 4)) W.
Proof.
  intros Hwf Hr. destruct consts as (C1 & _). rewrite C1.
  pose proof (lenZ_blockw b Hwf) as HL. pose proof (lenZ_nonneg (b_data b)) as Hd.
  replace (4 * lenZ (b_data b) + 8) with ((lenZ (b_data b) + 2) * 4) by lia.
  rewrite Z.div_mul by lia.
  replace (rem' + 4 * lenZ (blockw b)) with (rem' + lenZ (blockw b) * 4) by lia.
  rewrite Z.div_add by lia.
  assert (Hq : 0 <= rem' / 4) by (apply Z.div_pos; lia).
  set (q := rem' / 4) in *.
  replace (Z.to_nat (q + lenZ (blockw b))) with (length (blockw b) + Z.to_nat q)%nat by (unfold lenZ; lia).
  assert (Hf : firstn (length (blockw b) + Z.to_nat q) (blockw b ++ W) = blockw b ++ firstn (Z.to_nat q) W).
  { rewrite firstn_app_2. reflexivity. }
  rewrite Hf. unfold skipnZ. rewrite lenZ_app, HL.
  replace (Z.of_nat 55 + (lenZ (b_data b) + 2)) with (57 + lenZ (b_data b)) by lia.
  destruct (57 + lenZ (b_data b) + lenZ (firstn (Z.to_nat q) W) <=? 57 + lenZ (b_data b)) eqn:E.
  - apply Z.leb_le in E. pose proof (lenZ_nonneg (firstn (Z.to_nat q) W)).
    symmetry. apply lenZ_zero_nil. lia.
  - replace (Z.to_nat (57 + lenZ (b_data b))) with (length (blockw b)) by (unfold lenZ in *; lia).
    apply skipn_app_exact.
Qed.

Lemma lenZ_tbw_cons b bs : lenZ (tbw (b :: bs)) = lenZ (blockw b) + lenZ (tbw bs).
Proof. unfold tbw. cbn [map concat]. apply lenZ_app. Qed.

Lemma firstn_words_ge rem : 220 <= rem -> (55 <= Z.to_nat (rem / 4))%nat.
Proof. intros H. assert (55 <= rem / 4) by (apply Z.div_le_lower_bound; lia). lia. Qed.

(* the cut lies inside (or exactly at the end of) the blocks bs, none of which repeats the first tracer *)
Lemma walk_inside T D b0 : tables_ok T D = true -> forall bs Z rem fuel,
  forallb wf_block bs = true -> existsb (id_eqb b0) bs = false -> rem < 228 * Z.of_nat fuel ->
  0 < rem <= 4 * lenZ (tbw bs) ->
  let r := walk fuel T D (firstn (Z.to_nat (rem / 4)) (tbw bs ++ Z)) rem (Some (b_cat b0, b_tid b0)) in
  r = Err \/ exists j, (1 <= j <= length bs)%nat /\ r = Ok (map (entry_of T D) (firstn j bs))
                       /\ rem <= 4 * lenZ (tbw (firstn j bs)).
Proof.
  intros Hok. induction bs as [|b bs IH]; intros Z rem fuel Hwf Hid Hf Hrem; cbv zeta.
  - unfold tbw, lenZ in Hrem. simpl in Hrem. lia.
  - simpl in Hwf, Hid. apply andb_true_iff in Hwf as [Hb Hbs]. apply orb_false_iff in Hid as [Hib Hibs].
    destruct fuel as [|f]; [simpl in Hf; lia|].
    pose proof (lenZ_blockw b Hb) as HLb. pose proof (lenZ_nonneg (b_data b)) as Hdb.
    destruct (Z.lt_ge_cases rem 220) as [Hs|Hge]; [left; apply walk_short; exact Hs|].
    rewrite tbw_cons.
    rewrite (walk_step_gen T D f b _ rem _ Hb Hok (parse_hdr_firstn b _ _ Hb (firstn_words_ge rem Hge)) Hge).
    cbv zeta.
    assert (Hib' : zlist_eqb (b_cat b) (b_cat b0) && (b_tid b =? b_tid b0) = false).
    { unfold id_eqb in Hib. rewrite zlist_eqb_sym, Z.eqb_sym. exact Hib. }
    rewrite Hib'. cbn [orb negb]. rewrite andb_true_r.
    rewrite lenZ_tbw_cons in Hrem.
    remember (rem - 4 * lenZ (blockw b)) as rem' eqn:Er.
    assert (Hrm : rem = rem' + 4 * lenZ (blockw b)) by lia.
    assert (Hj1 : exists j, (1 <= j <= length (b :: bs))%nat /\
                  Ok [entry_of T D b] = Ok (map (entry_of T D) (firstn j (b :: bs))) /\
                  (rem' <= 0 -> rem <= 4 * lenZ (tbw (firstn j (b :: bs))))).
    { exists 1%nat. simpl length. split; [lia|]. split; [reflexivity|]. intros H.
      cbn [firstn]. rewrite lenZ_tbw_cons. unfold tbw at 1. cbn [map concat].
      pose proof (lenZ_nonneg (@nil word)). unfold lenZ at 2. simpl length. lia. }
    destruct Hj1 as (j1 & Hj1a & Hj1b & Hj1c).
    destruct (rem' =? 0) eqn:E0.
    + right. exists j1. apply Z.eqb_eq in E0. repeat split; try tauto; try lia; try (apply Hj1c; lia).
    + apply Z.eqb_neq in E0. destruct (0 <? rem') eqn:E1.
      * apply Z.ltb_lt in E1.
        assert (Hsk : skipnZ (Z.of_nat dht_words + (4 * lenZ (b_data b) + 8) / 4)
                        (firstn (Z.to_nat (rem / 4)) (blockw b ++ tbw bs ++ Z))
                      = firstn (Z.to_nat (rem' / 4)) (tbw bs ++ Z)).
        { rewrite Hrm. apply skipnZ_firstn_block; [exact Hb|lia]. }
        rewrite Hsk.
        specialize (IH Z rem' f Hbs Hibs ltac:(lia) ltac:(lia)). cbv zeta in IH.
        destruct IH as [IH|(j & Hj & IH & Hle)]; [left; rewrite IH; reflexivity|].
        right. exists (S j). simpl length. split; [lia|]. split.
        -- rewrite IH. reflexivity.
        -- cbn [firstn]. rewrite lenZ_tbw_cons. lia.
      * apply Z.ltb_ge in E1. right. exists j1. repeat split; try tauto; try lia; try (apply Hj1c; lia).
Qed.

(* all of bs is present, followed by r more bytes whose words are X *)
Definition next_hdr_ok (b0 : block) (X : list word) : Prop :=
  exists b', wf_block b' = true /\ parse_hdr X = hdr_of b' /\ b_cat b' = b_cat b0 /\ b_tid b' = b_tid b0.

Lemma walk_then_rest T D b0 : tables_ok T D = true -> forall bs X r fuel,
  forallb wf_block bs = true -> existsb (id_eqb b0) bs = false -> (length bs < fuel)%nat ->
  0 <= r -> (bs <> [] \/ 0 < r) -> (220 <= r -> next_hdr_ok b0 X) ->
  let w := walk fuel T D (tbw bs ++ X) (4 * lenZ (tbw bs) + r) (Some (b_cat b0, b_tid b0)) in
  w = Err \/ w = Ok (map (entry_of T D) bs).
Proof.
  intros Hok. induction bs as [|b bs IH]; intros X r fuel Hwf Hid Hf Hr Hne Hnext; cbv zeta.
  - destruct Hne as [Hne|Hpos]; [congruence|].
    change (tbw [] ++ X) with X. change (4 * lenZ (tbw []) + r) with r.
    destruct (Z.lt_ge_cases r 220) as [Hs|Hge]; [left; apply walk_short; exact Hs|].
    destruct (Hnext Hge) as (b' & Hb' & HP & Hc & Hi).
    destruct fuel as [|f]; [simpl in Hf; lia|].
    rewrite (walk_step_gen T D f b' X r _ Hb' Hok HP Hge). cbv zeta.
    rewrite Hc, Hi, zlist_eqb_refl, Z.eqb_refl. cbn [andb orb negb]. rewrite andb_false_r. right. reflexivity.
  - simpl in Hwf, Hid, Hf. apply andb_true_iff in Hwf as [Hb Hbs]. apply orb_false_iff in Hid as [Hib Hibs].
    destruct fuel as [|f]; [lia|].
    rewrite tbw_cons, lenZ_tbw_cons.
    pose proof (lenZ_blockw b Hb) as HL. pose proof (lenZ_nonneg (b_data b)) as Hd. pose proof (lenZ_nonneg (tbw bs)) as Ht.
    rewrite (walk_step_gen T D f b _ _ _ Hb Hok (parse_hdr_blockw b _ Hb)) by lia. cbv zeta.
    rewrite (skip_blockw b _ Hb).
    assert (Hib' : zlist_eqb (b_cat b) (b_cat b0) && (b_tid b =? b_tid b0) = false).
    { unfold id_eqb in Hib. rewrite zlist_eqb_sym, Z.eqb_sym. exact Hib. }
    rewrite Hib'. cbn [orb negb]. rewrite andb_true_r.
    replace (4 * (lenZ (blockw b) + lenZ (tbw bs)) + r - 4 * lenZ (blockw b)) with (4 * lenZ (tbw bs) + r) by lia.
    destruct (4 * lenZ (tbw bs) + r =? 0) eqn:E0.
    + apply Z.eqb_eq in E0. assert (bs = []).
      { destruct (tbw_app_nil bs [] Hbs) as [H _]; [|exact H]. rewrite app_nil_r. apply lenZ_zero_nil. lia. }
      subst bs. right. reflexivity.
    + apply Z.eqb_neq in E0. replace (0 <? 4 * lenZ (tbw bs) + r) with true by (symmetry; apply Z.ltb_lt; lia).
      specialize (IH X r f Hbs Hibs ltac:(lia) Hr). cbv zeta in IH.
      destruct IH as [IH|IH]; [| exact Hnext | left; rewrite IH; reflexivity | right; rewrite IH; reflexivity].
      destruct bs; [right|left; discriminate]. unfold tbw, lenZ in E0. simpl in E0. lia.
Qed.

Lemma walk_then_first T D b0 rest0 X r fuel : tables_ok T D = true ->
  wf_block b0 = true -> forallb wf_block rest0 = true -> existsb (id_eqb b0) rest0 = false ->
  (S (length rest0) < fuel)%nat -> 0 <= r -> (220 <= r -> next_hdr_ok b0 X) ->
  let w := walk fuel T D (tbw (b0 :: rest0) ++ X) (4 * lenZ (tbw (b0 :: rest0)) + r) None in
  w = Err \/ w = Ok (map (entry_of T D) (b0 :: rest0)).
Proof.
  intros Hok Hb0 Hr0 Hid Hf Hr Hnext. cbv zeta. destruct fuel as [|f]; [lia|].
  rewrite tbw_cons, lenZ_tbw_cons.
  pose proof (lenZ_blockw b0 Hb0) as HL. pose proof (lenZ_nonneg (b_data b0)) as Hd. pose proof (lenZ_nonneg (tbw rest0)) as Ht.
  rewrite (walk_step_gen T D f b0 _ _ _ Hb0 Hok (parse_hdr_blockw b0 _ Hb0)) by lia. cbv zeta.
  rewrite (skip_blockw b0 _ Hb0).
  replace (4 * (lenZ (blockw b0) + lenZ (tbw rest0)) + r - 4 * lenZ (blockw b0)) with (4 * lenZ (tbw rest0) + r) by lia.
  destruct (0 <? 4 * lenZ (tbw rest0) + r) eqn:E.
  - apply Z.ltb_lt in E.
    destruct (walk_then_rest T D b0 Hok rest0 X r f Hr0 Hid ltac:(lia) Hr) as [W|W]; [| exact Hnext | left; rewrite W; reflexivity | right; rewrite W; reflexivity].
    destruct rest0; [right|left; discriminate]. unfold tbw, lenZ in E. simpl in E. lia.
  - apply Z.ltb_ge in E. assert (rest0 = []).
    { destruct (tbw_app_nil rest0 [] Hr0) as [H _]; [|exact H]. rewrite app_nil_r. apply lenZ_zero_nil. lia. }
    subst rest0. right. reflexivity.
Qed.

(* the cut lies inside the first time block *)
Lemma walk_inside_first T D b0 rest0 Z rem fuel : tables_ok T D = true ->
  wf_block b0 = true -> forallb wf_block rest0 = true -> existsb (id_eqb b0) rest0 = false ->
  rem < 228 * Z.of_nat fuel -> 0 < rem <= 4 * lenZ (tbw (b0 :: rest0)) ->
  let w := walk fuel T D (firstn (Z.to_nat (rem / 4)) (tbw (b0 :: rest0) ++ Z)) rem None in
  w = Err \/ exists j, (1 <= j <= length (b0 :: rest0))%nat /\ w = Ok (map (entry_of T D) (firstn j (b0 :: rest0)))
                       /\ rem <= 4 * lenZ (tbw (firstn j (b0 :: rest0))).
Proof.
  intros Hok Hb0 Hr0 Hid Hf Hrem. cbv zeta. destruct fuel as [|f]; [simpl in Hf; lia|].
  pose proof (lenZ_blockw b0 Hb0) as HLb. pose proof (lenZ_nonneg (b_data b0)) as Hdb.
  destruct (Z.lt_ge_cases rem 220) as [Hs|Hge]; [left; apply walk_short; exact Hs|].
  rewrite tbw_cons.
  rewrite (walk_step_gen T D f b0 _ rem _ Hb0 Hok (parse_hdr_firstn b0 _ _ Hb0 (firstn_words_ge rem Hge)) Hge).
  cbv zeta. rewrite lenZ_tbw_cons in Hrem.
  remember (rem - 4 * lenZ (blockw b0)) as rem' eqn:Er.
  assert (Hrm : rem = rem' + 4 * lenZ (blockw b0)) by lia.
  destruct (0 <? rem') eqn:E1.
  - apply Z.ltb_lt in E1.
    assert (Hsk : skipnZ (Z.of_nat dht_words + (4 * lenZ (b_data b0) + 8) / 4)
                    (firstn (Z.to_nat (rem / 4)) (blockw b0 ++ tbw rest0 ++ Z))
                  = firstn (Z.to_nat (rem' / 4)) (tbw rest0 ++ Z)).
    { rewrite Hrm. apply skipnZ_firstn_block; [exact Hb0|lia]. }
    rewrite Hsk.
    destruct (walk_inside T D b0 Hok rest0 Z rem' f Hr0 Hid ltac:(lia) ltac:(lia)) as [W|(j & Hj & W & Hle)];
      [left; rewrite W; reflexivity|].
    right. exists (S j). simpl length. split; [lia|]. split; [rewrite W; reflexivity|].
    cbn [firstn]. rewrite lenZ_tbw_cons. lia.
  - apply Z.ltb_ge in E1. right. exists 1%nat. simpl length. split; [lia|]. split; [reflexivity|].
    cbn [firstn]. rewrite lenZ_tbw_cons. unfold tbw at 1. cbn [map concat]. unfold lenZ at 2. simpl length. lia.
Qed.

(* ---- everything after the walk: given the walk's result and the number of whole time blocks --------- *)
Lemma open_core T D ft ti body' size t0' times' :
  length ft = 10%nat -> length ti = 20%nat -> tables_ok T D = true -> 356 <= size ->
  walk (S (length ([40] ++ ft ++ [40; 80] ++ ti ++ [80] ++ body'))) T D body' (size - 136) None
    = Ok (map (entry_of T D) t0') ->
  nodup_keys (map (entry_of T D) t0') = true ->
  times' <> [] -> hd [] times' <> [] ->
  Forall (fun tb => list_eqb meta_eqb tb t0' = true /\ forallb wf_block tb = true) times' ->
  (size - 136) / (4 * tszZ (map (entry_of T D) t0')) = lenZ times' ->
  firstn (Z.to_nat (lenZ times' * tszZ (map (entry_of T D) t0'))) body' = concat (map tbw times') ->
  impl_open T D ([40] ++ ft ++ [40; 80] ++ ti ++ [80] ++ body') size
  = Ok (view_of T D {| f_ftype := ft; f_title := ti; f_times := times' |}).
Proof.
  intros L1 L2 Hok Hsz Hwalk Hnd Hne Hne0 Hall Hcnt Hfirst.
  destruct (flat_header ft ti body' L1 L2) as (F1 & F2 & F3 & F4 & F5 & F6 & F7 & F8).
  set (ws := [40] ++ ft ++ [40; 80] ++ ti ++ [80] ++ body') in *.
  destruct consts as (C1 & C2 & C3 & C4 & _ & _ & _ & _ & _ & _ & _ & _ & _ & G0 & G1 & G2 & G3 & G4 & G5).
  destruct writer_layout as (_ & _ & _ & _ & _ & _ & _ & _ & _ & _ & _ & W1 & W2).
  unfold impl_open. rewrite W1, W2, C2, C4, G0, G1, G2, G3, G4, G5, F1, F2, F3, F4, F5, F6, F7.
  replace (size <? 356) with false by (symmetry; apply Z.ltb_ge; exact Hsz).
  cbn [Z.eqb Pos.eqb andb negb].
  rewrite Hwalk. set (es := map (entry_of T D) t0') in *. rewrite Hnd. cbn [negb]. fold (tszZ es).
  rewrite Hcnt.
  pose proof (proj1 (Forall_forall _ _) Hall) as HallF.
  assert (Hlen : Forall (fun tb => lenZ (tbw tb) = tszZ es) times').
  { eapply Forall_impl; [|exact Hall]. intros tb [H1 H2]. apply (parse_time_tbw T D _ _ H1 H2). }
  assert (Hnt : 0 < lenZ times').
  { clear - Hne. unfold lenZ. destruct times'; [congruence|]. cbn [length]. lia. }
  replace (lenZ times' <=? 0) with false by (symmetry; apply Z.leb_gt; exact Hnt).
  destruct times' as [|tbA tsA] eqn:Et; [congruence|]. rewrite <- Et in *.
  destruct tbA as [|bA rA]; [exfalso; apply Hne0; rewrite Et; reflexivity|].
  assert (HA : list_eqb meta_eqb (bA :: rA) t0' = true /\ forallb wf_block (bA :: rA) = true).
  { apply HallF. rewrite Et. left. reflexivity. }
  destruct HA as [HmA HwA]. pose proof HwA as HwA'. simpl in HwA'. apply andb_true_iff in HwA' as [HbA _].
  assert (Hpos : 0 < tszZ es).
  { pose proof Hlen as Hl0. rewrite Et in Hl0. inversion Hl0 as [|? ? H0 _]. rewrite <- H0.
    pose proof (tbw_first_ge bA rA HbA) as Hge57. clear - Hge57. lia. }
  rewrite Hfirst.
  rewrite chunks_concat.
  2:{ clear - Hpos. lia. }
  2:{ apply Forall_forall. intros l Hin. apply in_map_iff in Hin as (tb & <- & Hin).
      rewrite Forall_forall in Hlen. specialize (Hlen tb Hin). unfold lenZ in Hlen. rewrite <- Hlen. rewrite Nat2Z.id. reflexivity. }
  assert (Hpb : map (parse_time es) (map tbw times') = map (map pblock_of) times').
  { rewrite map_map. apply map_ext_in. intros tb Hin. destruct (HallF tb Hin) as [H1 H2].
    apply (parse_time_tbw T D _ _ H1 H2). }
  rewrite Hpb.
  assert (Hhd : hd [] (map (map pblock_of) times') = map pblock_of (hd [] times')).
  { destruct times'; reflexivity. }
  rewrite Hhd.
  assert (Hsame : forallb (same_ids (map pblock_of (hd [] times'))) (map (map pblock_of) times') = true).
  { apply forallb_forall. intros pb Hin. apply in_map_iff in Hin as (tb & <- & Hin).
    destruct (HallF tb Hin) as [H1 _]. rewrite Et. cbn [hd].
    (* tb and the first time block are both meta-equal to t0' *)
    clear - H1 HmA. revert H1 HmA. generalize (bA :: rA) as ta. intros ta. revert ta tb.
    induction t0' as [|b t0 IH]; intros [|a ta] [|c tb] H1 H2; simpl in *; try discriminate; [reflexivity|].
    apply andb_true_iff in H1 as [H1 H1']. apply andb_true_iff in H2 as [H2 H2'].
    destruct (meta_eqb_true _ _ H1) as (_ & Hc1 & Hi1 & _). destruct (meta_eqb_true _ _ H2) as (_ & Hc2 & Hi2 & _).
    unfold same_ids. cbn [map list_eqb pblock_of q_hdr hdr_of p_cat p_tid].
    rewrite Hc1, Hi1, Hc2, Hi2, zlist_eqb_refl, Z.eqb_refl. cbn [andb]. apply (IH ta tb H1' H2'). }
  rewrite Hsame. cbn [negb].
  assert (Hmk : forallb (forallb (fun q => q_m0 q =? q_m2 q)) (map (map pblock_of) times') = true).
  { apply forallb_forall. intros pb Hin. apply in_map_iff in Hin as (tb & <- & _). apply markers_ok. }
  rewrite Hmk. cbn [negb].
  f_equal. unfold view_of, tb0. cbn [f_ftype f_title f_times].
  assert (Hh : parse_hdr body' = hdr_of (hd_block (hd [] times'))).
  { rewrite <- (firstn_skipn (Z.to_nat (lenZ times' * tszZ es)) body'), Hfirst, Et.
    cbn [map concat hd hd_block]. rewrite <- app_assoc, tbw_cons. apply parse_hdr_blockw. exact HbA. }
  rewrite Hh.
  f_equal.
  - rewrite map_map. apply map_ext. intros b. cbn [pblock_of q_hdr]. apply var_of_hdr_block. exact Hok.
  - rewrite map_map. apply map_ext. intros tb. apply tau_of_pblocks.
  - rewrite map_map. apply map_ext. intros tb. rewrite map_map. reflexivity.
Qed.

(* ---- assembling: every prefix -------------------------------------------------------------------------- *)
Lemma open_short T D ws size : size < 356 -> impl_open T D ws size = Err.
Proof.
  intros H. unfold impl_open. destruct writer_layout as (_ & _ & _ & _ & _ & _ & _ & _ & _ & _ & _ & W1 & _).
  rewrite W1. replace (size <? 356) with true by (symmetry; apply Z.ltb_lt; exact H). reflexivity.
Qed.

Lemma open_err_of_walk T D ft ti body' size : length ft = 10%nat -> length ti = 20%nat ->
  walk (S (length ([40] ++ ft ++ [40; 80] ++ ti ++ [80] ++ body'))) T D body' (size - 136) None = Err ->
  impl_open T D ([40] ++ ft ++ [40; 80] ++ ti ++ [80] ++ body') size = Err.
Proof.
  intros L1 L2 H. destruct (flat_header ft ti body' L1 L2) as (_ & _ & _ & _ & _ & _ & F7 & _).
  destruct consts as (_ & C2 & _ & C4 & _).
  destruct writer_layout as (_ & _ & _ & _ & _ & _ & _ & _ & _ & _ & _ & W1 & W2).
  unfold impl_open. rewrite W1, W2, C2, F7, H.
  destruct (size <? 356); [reflexivity|]. destruct (negb _); reflexivity.
Qed.

Lemma open_err_of_count T D ft ti body' size es : length ft = 10%nat -> length ti = 20%nat ->
  walk (S (length ([40] ++ ft ++ [40; 80] ++ ti ++ [80] ++ body'))) T D body' (size - 136) None = Ok es ->
  (size - 136) / (4 * tszZ es) <= 0 ->
  impl_open T D ([40] ++ ft ++ [40; 80] ++ ti ++ [80] ++ body') size = Err.
Proof.
  intros L1 L2 H Hc. destruct (flat_header ft ti body' L1 L2) as (_ & _ & _ & _ & _ & _ & F7 & _).
  destruct consts as (_ & C2 & _ & C4 & _).
  destruct writer_layout as (_ & _ & _ & _ & _ & _ & _ & _ & _ & _ & _ & W1 & W2).
  unfold impl_open. rewrite W1, W2, C2, C4, F7, H. fold (tszZ es).
  destruct (size <? 356); [reflexivity|]. destruct (negb _); [reflexivity|]. destruct (negb (nodup_keys es)); [reflexivity|].
  replace ((size - 136) / (4 * tszZ es) <=? 0) with true by (symmetry; apply Z.leb_le; exact Hc). reflexivity.
Qed.

Lemma firstn_flat ft ti body m : length ft = 10%nat -> length ti = 20%nat -> (34 <= m)%nat ->
  firstn m ([40] ++ ft ++ [40; 80] ++ ti ++ [80] ++ body) = [40] ++ ft ++ [40; 80] ++ ti ++ [80] ++ firstn (m - 34) body.
Proof.
  intros L1 L2 Hm. replace m with (34 + (m - 34))%nat at 1 by lia. generalize (m - 34)%nat as q. intros q.
  explode L1. explode L2. reflexivity.
Qed.

Lemma meta_eqb_refl b : meta_eqb b b = true.
Proof. unfold meta_eqb. rewrite !zlist_eqb_refl, !Z.eqb_refl. reflexivity. Qed.
Lemma list_meta_refl l : list_eqb meta_eqb l l = true.
Proof. induction l as [|b l IH]; simpl; [reflexivity|]. rewrite meta_eqb_refl, IH. reflexivity. Qed.

Lemma forallb_firstn {A} (p : A -> bool) j l : forallb p l = true -> forallb p (firstn j l) = true.
Proof.
  revert j. induction l as [|a l IH]; intros [|j] H; simpl in *; try reflexivity.
  apply andb_true_iff in H as [H1 H2]. rewrite H1, (IH j H2). reflexivity.
Qed.

Lemma existsb_firstn_false {A} (p : A -> bool) j l : existsb p l = false -> existsb p (firstn j l) = false.
Proof.
  revert j. induction l as [|a l IH]; intros [|j] H; simpl in *; try reflexivity.
  apply orb_false_iff in H as [H1 H2]. rewrite H1, (IH j H2). reflexivity.
Qed.

Lemma nodup_keys_firstn j es : nodup_keys es = true -> nodup_keys (firstn j es) = true.
Proof.
  revert j. induction es as [|e es IH]; intros [|j] H; simpl in *; try reflexivity.
  apply andb_true_iff in H as [H1 H2]. apply negb_true_iff in H1.
  rewrite (existsb_firstn_false _ j es H1), (IH j H2). reflexivity.
Qed.

Lemma tbw_firstn_skipn j l : tbw l = tbw (firstn j l) ++ tbw (skipn j l).
Proof. unfold tbw. rewrite <- concat_app, <- map_app, firstn_skipn. reflexivity. Qed.

Lemma tbw_words l : forallb wf_block l = true -> lenZ (tbw l) = tb_wordsZ l.
Proof.
  induction l as [|b l IH]; intros H; [reflexivity|]. simpl in H. apply andb_true_iff in H as [Hb Hl].
  rewrite lenZ_tbw_cons, (lenZ_blockw b Hb), (IH Hl). reflexivity.
Qed.


Lemma Forall_firstn' {A} (P : A -> Prop) k l : Forall P l -> Forall P (firstn k l).
Proof. revert k. induction l as [|a l IH]; intros [|k] H; simpl; try constructor; inversion H; subst; auto. Qed.

Lemma length_flat ft ti body : length ft = 10%nat -> length ti = 20%nat ->
  length ([40] ++ ft ++ [40; 80] ++ ti ++ [80] ++ body) = (34 + length body)%nat.
Proof. intros L1 L2. explode L1. explode L2. reflexivity. Qed.

