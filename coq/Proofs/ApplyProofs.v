(* Proofs about Model/Apply.v (C03). *)
From PNC Require Import Base.Util Base.NdApply Model.Apply Proofs.NdApplyProofs.
Require Import QArith Qabs Permutation.
Local Close Scope Q_scope.
Local Open Scope nat_scope.

(* ---- small list facts -------------------------------------------------------------- *)
Lemma list_eqb_refl {A} (eqb : A -> A -> bool) (H : forall x, eqb x x = true) l :
  list_eqb eqb l l = true.
Proof. induction l; simpl; auto. rewrite H, IHl; auto. Qed.

Lemma nat_list_eqb_eq a b : list_eqb Nat.eqb a b = true <-> a = b.
Proof. apply list_eqb_eq. intros; apply Nat.eqb_eq. Qed.

Lemma q_close_refl x : q_close x x = true.
Proof. unfold q_close. replace (Qeq_bool x x) with true; auto. symmetry. apply Qeq_bool_iff. reflexivity. Qed.

Lemma cells_close_refl l : cells_close l l = true.
Proof. apply list_eqb_refl. intros [x|]; simpl; auto. apply q_close_refl. Qed.

Lemma insert_all_head {B} (x : B) l : In (x :: l) (insert_all x l).
Proof. destruct l; simpl; auto. Qed.

Lemma perms_self {B} (l : list B) : In l (perms l).
Proof.
  induction l as [|x l IH]; simpl; auto.
  apply in_flat_map. exists l; split; auto. apply insert_all_head.
Qed.

Lemma map_res_in {X Y} (g : X -> res Y) l r x :
  map_res g l = Ok r -> In x l -> exists y, g x = Ok y /\ In y r.
Proof.
  revert r; induction l as [|a l IH]; simpl; intros r H Hx; [contradiction|].
  destruct (g a) eqn:Ea; try discriminate. destruct (map_res g l) eqn:El; try discriminate.
  injection H as <-. destruct Hx as [<-|Hx].
  - eexists; split; eauto. left; auto.
  - destruct (IH _ eq_refl Hx) as [y [H1 H2]]. exists y; split; auto. right; auto.
Qed.

Lemma map_res_in_inv {X Y} (g : X -> res Y) l r y :
  map_res g l = Ok r -> In y r -> exists x, In x l /\ g x = Ok y.
Proof.
  revert r; induction l as [|a l IH]; simpl; intros r H Hy.
  - injection H as <-. contradiction.
  - destruct (g a) eqn:Ea; try discriminate. destruct (map_res g l) eqn:El; try discriminate.
    injection H as <-. destruct Hy as [<-|Hy].
    + exists a; split; auto.
    + destruct (IH _ eq_refl Hy) as [x [H1 H2]]. exists x; split; auto.
Qed.

(* ---- enumerate ------------------------------------------------------------------- *)
Lemma combine_seq_nth {B} (l : list B) s k d :
  In (k, d) (combine (seq s (length l)) l) -> s <= k /\ nth_error l (k - s) = Some d.
Proof.
  revert s; induction l as [|x l IH]; simpl; intros s H; [contradiction|].
  destruct H as [H|H].
  - injection H as <- <-. split; auto. rewrite Nat.sub_diag. reflexivity.
  - apply IH in H as [H1 H2]. split; [lia|].
    replace (k - s) with (S (k - S s)) by lia. exact H2.
Qed.

Lemma enumerate_nth {B} (l : list B) k d : In (k, d) (enumerate l) -> nth_error l k = Some d.
Proof. intros H. apply combine_seq_nth in H as [_ H]. rewrite Nat.sub_0_r in H. exact H. Qed.

(* ---- the variable loop = composition over the named axes, last axis first --------------- *)
Lemma fold_step_named dfs (ds : list nat) a kds :
  (forall k d, In (k, d) kds -> nth_error ds k = Some d) ->
  fold_right (step dfs) a kds
  = fold_right (fun k a => match nth_error ds k with Some d => step dfs (k, d) a | None => a end) a
      (map fst (filter (fun kd => is_some (lookup (snd kd) dfs)) kds)).
Proof.
  induction kds as [|[k d] kds IH]; intros H; simpl; auto.
  rewrite IH by (intros; apply H; right; auto).
  destruct (lookup d dfs) eqn:E; simpl.
  - rewrite (H k d) by (left; auto). reflexivity.
  - unfold step at 1. simpl. rewrite E. reflexivity.
Qed.

Lemma impl_vals_named dfs v : impl_vals dfs v = seq_apply dfs v (named_axes dfs v).
Proof. unfold impl_vals, seq_apply, named_axes. apply fold_step_named. intros; apply enumerate_nth; auto. Qed.

(* variables none of whose dimensions is named are not touched by the loop *)
Lemma fold_step_unnamed dfs a (kds : list (nat * nat)) :
  (forall k d, In (k, d) kds -> lookup d dfs = None) -> fold_right (step dfs) a kds = a.
Proof.
  induction kds as [|[k d] kds IH]; intros H; simpl; auto.
  rewrite IH by (intros; eapply H; right; eauto).
  unfold step; simpl. rewrite (H k d) by (left; auto). reflexivity.
Qed.

Lemma impl_vals_unnamed dfs v :
  (forall d, In d (vdims v) -> lookup d dfs = None) -> impl_vals dfs v = vdat v.
Proof.
  intros H. apply fold_step_unnamed. intros k d Hin. apply H.
  apply enumerate_nth in Hin. eapply nth_error_In; eauto.
Qed.

Theorem unaffected_vars f dfs r v :
  impl_apply f dfs = Ok r -> In v (fvars f) ->
  (forall d, In d (vdims v) -> lookup d dfs = None) ->
  In v (fvars r).
Proof.
  unfold impl_apply. intros H Hin Hd.
  destruct (dimlens f dfs) as [nl|]; try discriminate.
  destruct (map_res _ (fvars f)) as [vs|] eqn:E; try discriminate. injection H as <-.
  destruct (map_res_in _ _ _ _ E Hin) as [v' [H1 H2]].
  unfold out_var in H1. rewrite impl_vals_unnamed in H1 by auto.
  destruct (target_shape _ (vdims v)); try discriminate.
  destruct (list_eqb Nat.eqb (sh (vdat v)) l); try discriminate.
  injection H1 as <-. simpl. destruct v; exact H2.
Qed.

(* ---- the result is shape-consistent with its new dimensions ---------------------------- *)
Theorem result_wellformed f dfs r :
  impl_apply f dfs = Ok r -> forall v', In v' (fvars r) -> wf_var r v' = true.
Proof.
  unfold impl_apply. intros H v' Hin.
  destruct (dimlens f dfs) as [nl|]; try discriminate.
  destruct (map_res _ (fvars f)) as [vs|] eqn:E; try discriminate. injection H as <-.
  simpl in *. destruct (map_res_in_inv _ _ _ _ E Hin) as [v [_ H1]].
  unfold out_var in H1. unfold wf_var. simpl.
  destruct (target_shape _ (vdims v)) eqn:T; try discriminate.
  destruct (list_eqb Nat.eqb (sh (impl_vals dfs v)) l) eqn:L; try discriminate.
  injection H1 as <-. simpl. rewrite T. exact L.
Qed.

(* ---- new dimension lengths ------------------------------------------------------------- *)
Lemma lookup_map_newdim nl ds d n :
  lookup d ds = Some n ->
  lookup d (map (newdim nl) ds) = Some (match lookup d nl with Some m => m | None => n end).
Proof.
  induction ds as [|[d' n'] ds IH]; simpl; intros H; try discriminate.
  destruct (d' =? d)%nat eqn:E.
  - injection H as <-. apply Nat.eqb_eq in E; subst. reflexivity.
  - auto.
Qed.

Lemma dimlens_lookup f dfs nl d :
  dimlens f dfs = Ok nl -> NoDup (map fst dfs) ->
  lookup d nl = match lookup d dfs, lookup d (fdims f) with
                | Some fd, Some n => match newlen fd (coord_lane f d n) with Ok m => Some m | Err _ => None end
                | _, _ => None
                end.
Proof.
  revert nl; induction dfs as [|[d' fd] dfs IH]; simpl; intros nl H ND.
  - injection H as <-. reflexivity.
  - destruct (lookup d' (fdims f)) as [n|] eqn:Ed; try discriminate.
    destruct (newlen fd (coord_lane f d' n)) as [m|] eqn:En; try discriminate.
    destruct (dimlens f dfs) as [r|] eqn:Er; try discriminate.
    injection H as <-. inversion ND; subst. simpl.
    destruct (d' =? d)%nat eqn:E.
    + apply Nat.eqb_eq in E; subst. rewrite Ed, En. reflexivity.
    + apply IH; auto.
Qed.

Lemma dimlens_keys f dfs nl d :
  dimlens f dfs = Ok nl -> lookup d dfs = None -> lookup d nl = None.
Proof.
  revert nl; induction dfs as [|[d' fd] dfs IH]; simpl; intros nl H L.
  - injection H as <-. reflexivity.
  - destruct (lookup d' (fdims f)); try discriminate.
    destruct (newlen fd _); try discriminate.
    destruct (dimlens f dfs); try discriminate. injection H as <-. simpl.
    destruct (d' =? d)%nat; try discriminate. apply IH; auto.
Qed.

Theorem new_dimlens f dfs r d n :
  impl_apply f dfs = Ok r -> NoDup (map fst dfs) -> lookup d (fdims f) = Some n ->
  map fst (fdims r) = map fst (fdims f) /\
  lookup d (fdims r) =
    Some (match lookup d dfs with
          | Some fd => match newlen fd (coord_lane f d n) with Ok m => m | Err _ => n end
          | None => n
          end).
Proof.
  unfold impl_apply. intros H ND L.
  destruct (dimlens f dfs) as [nl|] eqn:D; try discriminate.
  destruct (map_res _ (fvars f)) as [vs|]; try discriminate. injection H as <-. simpl.
  split.
  - rewrite map_map. apply map_ext. intros [a b]; reflexivity.
  - rewrite (lookup_map_newdim nl _ _ _ L).
    destruct (lookup d dfs) as [fd|] eqn:E.
    + rewrite (dimlens_lookup _ _ _ d D ND), E, L.
      destruct (newlen fd (coord_lane f d n)); reflexivity.
    + rewrite (dimlens_keys _ _ _ d D E). reflexivity.
Qed.

(* named reducers give length 1 *)
Lemma newlen_reducer fd l : In fd [RSum; RProd; RMin; RMax; RMean] -> newlen fd l = Ok 1%nat.
Proof. simpl. intros [<-|[<-|[<-|[<-|[<-|[]]]]]]; reflexivity. Qed.

(* ---- values: every variable is exactly the axis-wise composition ---------------------------- *)
Theorem all_vars_axiswise f dfs r v :
  impl_apply f dfs = Ok r -> In v (fvars f) ->
  In (Var (vname v) (vdims v) (seq_apply dfs v (named_axes dfs v))) (fvars r).
Proof.
  unfold impl_apply. intros H Hin.
  destruct (dimlens f dfs) as [nl|]; try discriminate.
  destruct (map_res _ (fvars f)) as [vs|] eqn:E; try discriminate. injection H as <-.
  destruct (map_res_in _ _ _ _ E Hin) as [v' [H1 H2]].
  unfold out_var in H1.
  destruct (target_shape _ (vdims v)); try discriminate.
  destruct (list_eqb Nat.eqb (sh (impl_vals dfs v)) l); try discriminate.
  injection H1 as <-. simpl. rewrite <- impl_vals_named. exact H2.
Qed.

(* ---- the order in which dimensions are named is irrelevant to the code ---------------------- *)
Lemma lookup_perm {B} (l l' : list (nat * B)) k :
  Permutation l l' -> NoDup (map fst l) -> lookup k l = lookup k l'.
Proof.
  intros P. induction P; intros ND; simpl; auto.
  - destruct x as [a b]. inversion ND; subst. destruct (a =? k)%nat; auto.
  - destruct x as [a b], y as [a' b']. simpl in ND.
    inversion ND as [|? ? Hn ND']; subst.
    destruct (a' =? k)%nat eqn:E1, (a =? k)%nat eqn:E2; auto.
    apply Nat.eqb_eq in E1, E2; subst. exfalso; apply Hn; left; auto.
  - rewrite IHP1 by auto. apply IHP2.
    eapply Permutation_NoDup; [apply Permutation_map; eauto | auto].
Qed.

Lemma dimlens_perm f dfs dfs' nl :
  Permutation dfs dfs' -> dimlens f dfs = Ok nl ->
  exists nl', dimlens f dfs' = Ok nl' /\ Permutation nl nl' /\ map fst nl = map fst dfs.
Proof.
  intros P. revert nl. induction P; intros nl H.
  - simpl in *. injection H as <-. exists []; auto.
  - destruct x as [d fd]. simpl in *.
    destruct (lookup d (fdims f)); try discriminate.
    destruct (newlen fd _); try discriminate.
    destruct (dimlens f l) eqn:E; try discriminate. injection H as <-.
    destruct (IHP _ eq_refl) as [nl' [H1 [H2 H3]]]. rewrite H1.
    eexists; split; eauto. split; [constructor; auto | simpl; f_equal; auto].
  - destruct x as [d fd], y as [d' fd']. simpl in *.
    destruct (lookup d' (fdims f)); try discriminate.
    destruct (newlen fd' _); try discriminate.
    destruct (lookup d (fdims f)); try discriminate.
    destruct (newlen fd _); try discriminate.
    destruct (dimlens f l) eqn:E; try discriminate. injection H as <-.
    eexists; split; eauto. split; [apply perm_swap|].
    simpl. f_equal. f_equal.
    clear -E. revert a1 E. induction l as [|[d0 f0] l IH]; simpl; intros a1 E.
    + injection E as <-; auto.
    + destruct (lookup d0 (fdims f)); try discriminate. destruct (newlen f0 _); try discriminate.
      destruct (dimlens f l); try discriminate. injection E as <-. simpl. f_equal. apply IH; auto.
  - destruct (IHP1 _ H) as [nl1 [H1 [H2 H3]]].
    destruct (IHP2 _ H1) as [nl2 [H4 [H5 H6]]].
    exists nl2; split; auto. split; [eapply perm_trans; eauto | auto].
Qed.

Lemma fold_right_ext_in {X Y} (g h : X -> Y -> Y) a l :
  (forall x y, In x l -> g x y = h x y) -> fold_right g a l = fold_right h a l.
Proof. induction l; simpl; intros H; auto. rewrite IHl by (intros; apply H; right; auto). apply H; left; auto. Qed.

Lemma map_res_ext {X Y} (g h : X -> res Y) l : (forall x, g x = h x) -> map_res g l = map_res h l.
Proof. intros H. induction l; simpl; auto. rewrite H, IHl. reflexivity. Qed.

Theorem naming_order_irrelevant f dfs dfs' r :
  Permutation dfs dfs' -> NoDup (map fst dfs) ->
  impl_apply f dfs = Ok r -> impl_apply f dfs' = Ok r.
Proof.
  intros P ND H. unfold impl_apply in *.
  destruct (dimlens f dfs) as [nl|] eqn:D; try discriminate.
  destruct (dimlens_perm _ _ _ _ P D) as [nl' [D' [Pn Kn]]]. rewrite D'.
  assert (L : forall k, lookup k dfs = lookup k dfs') by (intros; apply lookup_perm; auto).
  assert (Ln : forall k, lookup k nl = lookup k nl').
  { intros; apply lookup_perm; auto. rewrite Kn; auto. }
  assert (Nd : map (newdim nl') (fdims f) = map (newdim nl) (fdims f)).
  { apply map_ext. intros [a b]. unfold newdim; simpl. rewrite Ln. reflexivity. }
  rewrite Nd.
  assert (Ov : forall v, out_var dfs' (map (newdim nl) (fdims f)) v
                         = out_var dfs (map (newdim nl) (fdims f)) v).
  { intros v. unfold out_var.
    assert (impl_vals dfs' v = impl_vals dfs v) as ->; auto.
    unfold impl_vals. apply fold_right_ext_in. intros [k d] a _. unfold step. simpl. rewrite L. reflexivity. }
  rewrite (map_res_ext _ _ _ Ov). exact H.
Qed.

(* ---- commuting reducers: every order of the named axes ---------------------------------- *)
(* when every named function is the same keepdims reducer g, seq_apply is apply_axes *)
Lemma seq_apply_same dfs v fd ks :
  (forall k, In k ks -> exists d, nth_error (vdims v) k = Some d /\ lookup d dfs = Some fd) ->
  seq_apply dfs v ks = apply_axes (run fd) None ks (vdat v).
Proof.
  induction ks as [|k ks IH]; intros H; simpl; auto.
  unfold seq_apply in *. simpl. rewrite IH by (intros; apply H; right; auto).
  destruct (H k (or_introl eq_refl)) as [d [H1 H2]]. rewrite H1. unfold step; simpl. rewrite H2. reflexivity.
Qed.

(* positional form: the whole result satisfies the property, all dtypes *)
Lemma spec_vars_ok_all dfs nd vs vs' :
  map_res (out_var dfs nd) vs = Ok vs' -> spec_vars_ok dfs vs vs' = true.
Proof.
  revert vs'; induction vs as [|v vs IH]; simpl; intros vs' H.
  - injection H as <-. reflexivity.
  - destruct (out_var dfs nd v) as [v'|] eqn:E; try discriminate.
    destruct (map_res _ vs) as [r|] eqn:Er; try discriminate. injection H as <-.
    rewrite (IH _ eq_refl).
    unfold out_var in E. destruct (target_shape nd (vdims v)); try discriminate.
    destruct (list_eqb Nat.eqb (sh (impl_vals dfs v)) l); try discriminate.
    injection E as <-. simpl. rewrite Nat.eqb_refl. rewrite list_eqb_refl by apply Nat.eqb_refl.
    rewrite impl_vals_named. simpl.
    replace (spec_var_ok _ _ _ _) with true; auto. symmetry.
    unfold spec_var_ok. apply existsb_exists. exists (named_axes dfs v). split; [apply perms_self|].
    rewrite list_eqb_refl by apply Nat.eqb_refl. rewrite cells_close_refl. reflexivity.
Qed.

Theorem files_satisfy f dfs r : impl_apply f dfs = Ok r -> spec_file_ok dfs f r = true.
Proof.
  unfold impl_apply, spec_file_ok. intros H.
  destruct (dimlens f dfs) as [nl|]; try discriminate.
  destruct (map_res _ (fvars f)) as [vs|] eqn:E; try discriminate. injection H as <-. simpl.
  eapply spec_vars_ok_all; eauto.
Qed.

(* ---- sum / prod in the executable Q model are associative-commutative (Leibniz) ------------ *)
Lemma qadd_assoc a b c : qadd a (qadd b c) = qadd (qadd a b) c.
Proof. unfold qadd. apply Qred_complete. rewrite !Qred_correct. apply Qplus_assoc. Qed.
Lemma qadd_comm a b : qadd a b = qadd b a.
Proof. unfold qadd. apply Qred_complete. apply Qplus_comm. Qed.
Lemma qmul_assoc a b c : qmul a (qmul b c) = qmul (qmul a b) c.
Proof. unfold qmul. apply Qred_complete. rewrite !Qred_correct. apply Qmult_assoc. Qed.
Lemma qmul_comm a b : qmul a b = qmul b a.
Proof. unfold qmul. apply Qred_complete. apply Qmult_comm. Qed.

Lemma nodup_map_fst_filter {X} (P : nat * X -> bool) l :
  NoDup (map fst l) -> NoDup (map fst (filter P l)).
Proof.
  induction l as [|x l IH]; simpl; intros H; auto. inversion H; subst.
  destruct (P x); simpl; auto. constructor; auto.
  intros Hin. apply H2. apply in_map_iff in Hin as [y [<- Hy]]. apply filter_In in Hy as [Hy _].
  apply in_map; auto.
Qed.

Lemma map_fst_combine {X} (a : list nat) (b : list X) : length a = length b -> map fst (combine a b) = a.
Proof. revert b; induction a; intros [|y b] H; simpl in *; try discriminate; auto. f_equal; auto. Qed.

Lemma named_axes_nodup dfs v : NoDup (named_axes dfs v).
Proof.
  unfold named_axes. apply nodup_map_fst_filter. unfold enumerate.
  rewrite map_fst_combine by apply seq_length. apply seq_NoDup.
Qed.

Lemma named_axes_spec dfs v k :
  In k (named_axes dfs v) -> exists d fd, nth_error (vdims v) k = Some d /\ lookup d dfs = Some fd.
Proof.
  unfold named_axes. intros H. apply in_map_iff in H as [[k' d] [<- H]].
  apply filter_In in H as [H1 H2]. simpl in *. apply enumerate_nth in H1.
  destruct (lookup d dfs) as [fd|] eqn:E; try discriminate. eauto.
Qed.

(* If every named dimension of the variable carries the same reducer 'sum' (or 'prod'), then
   composing the per-axis reductions in ANY order of the named axes gives the same array. *)
Theorem sum_prod_any_order dfs v fd ks :
  fd = RSum \/ fd = RProd ->
  (forall d fd', In d (vdims v) -> lookup d dfs = Some fd' -> fd' = fd) ->
  length (sh (vdat v)) = length (vdims v) ->
  Permutation (named_axes dfs v) ks ->
  feq (seq_apply dfs v (named_axes dfs v)) (seq_apply dfs v ks).
Proof.
  intros Hfd Hsame Hr P.
  assert (A : forall ks', Permutation (named_axes dfs v) ks' ->
              seq_apply dfs v ks' = apply_axes (run fd) None ks' (vdat v)).
  { intros ks' P'. apply seq_apply_same. intros k Hk.
    apply (Permutation_in _ (Permutation_sym P')) in Hk.
    destruct (named_axes_spec _ _ _ Hk) as [d [fd' [H1 H2]]].
    exists d; split; auto. rewrite H2. f_equal. eapply Hsame; eauto. eapply nth_error_In; eauto. }
  rewrite (A _ (Permutation_refl _)), (A _ P).
  assert (B : forall k, In k (named_axes dfs v) -> k < rank (vdat v)).
  { intros k Hk. destruct (named_axes_spec _ _ _ Hk) as [d [_ [H1 _]]].
    unfold rank. rewrite Hr. apply nth_error_Some. congruence. }
  destruct Hfd as [-> | ->]; simpl.
  - apply ma_red_axes_perm; auto using qadd_assoc, qadd_comm, named_axes_nodup.
  - apply ma_red_axes_perm; auto using qmul_assoc, qmul_comm, named_axes_nodup.
Qed.
