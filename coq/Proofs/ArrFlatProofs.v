(* Lemmas about flat C-order arrays and selector normalisation (Base/ArrFlat.v). *)
From PNC Require Import Base.Util Base.ArrFlat.
From Coq Require Import Arith ZifyBool.
Set Default Timeout 30.

Lemma prodn_app a b : prodn (a ++ b) = prodn a * prodn b.
Proof. induction a as [|x a IH]; simpl; [lia|]. rewrite IH. lia. Qed.

Lemma prodn_repeat1 k : prodn (repeat 1 k) = 1.
Proof. induction k; simpl; lia. Qed.

Lemma skipn_skipn {A} a b (l : list A) : skipn a (skipn b l) = skipn (b + a) l.
Proof.
  revert l; induction b as [|b IH]; intros l; simpl; [reflexivity|].
  destruct l as [|x l]; [now rewrite skipn_nil|]. apply IH.
Qed.

Lemma firstn_add {A} a b (l : list A) : firstn (a + b) l = firstn a l ++ firstn b (skipn a l).
Proof.
  revert l; induction a as [|a IH]; intros l; simpl; [reflexivity|].
  destruct l as [|x l]; simpl; [now rewrite firstn_nil|]. now rewrite IH.
Qed.

Lemma chunk_length {A} m i (d : list A) : (S i) * m <= length d -> length (chunk m i d) = m.
Proof. intros H. unfold chunk. rewrite firstn_length, skipn_length. simpl in H. lia. Qed.

Lemma chunks_range {A} m (d : list A) n s :
  flat_map (fun i => chunk m i d) (seq s n) = firstn (n * m) (skipn (s * m) d).
Proof.
  revert s; induction n as [|n IH]; intros s; simpl; [reflexivity|].
  rewrite IH. unfold chunk. rewrite firstn_add. f_equal. rewrite skipn_skipn.
  replace (s * m + m) with (S s * m) by (simpl; lia). reflexivity.
Qed.

Lemma chunks_all {A} m n (d : list A) :
  length d = n * m -> flat_map (fun i => chunk m i d) (seq 0 n) = d.
Proof. intros H. rewrite chunks_range. simpl. rewrite <- H. apply firstn_all. Qed.

Lemma flat_map_length_const {A B} (f : A -> list B) l k :
  (forall x, In x l -> length (f x) = k) -> length (flat_map f l) = length l * k.
Proof.
  induction l as [|x l IH]; intros H; simpl; [reflexivity|].
  rewrite app_length, IH, H; [lia|now left|]. intros y Hy; apply H; now right.
Qed.

Lemma flat_map_ext_in {A B} (f g : A -> list B) l :
  (forall x, In x l -> f x = g x) -> flat_map f l = flat_map g l.
Proof.
  induction l as [|x l IH]; intros H; simpl; [reflexivity|].
  rewrite H by now left. rewrite IH; [reflexivity|]. intros y Hy; apply H; now right.
Qed.

Lemma nth_chunk {A} m i k (d : list A) x : k < m -> nth k (chunk m i d) x = nth (i * m + k) d x.
Proof.
  intros H. unfold chunk.
  assert (G : forall (l : list A) m k, k < m -> nth k (firstn m l) x = nth k l x).
  { intros l; induction l as [|y l IH]; intros [|m'] [|k'] Hk; simpl; try reflexivity; try lia.
    apply IH; lia. }
  rewrite G by exact H.
  assert (G2 : forall j (l : list A), nth k (skipn j l) x = nth (j + k) l x).
  { induction j as [|j IH]; intros l; simpl; [reflexivity|]. destruct l; [now destruct k|apply IH]. }
  apply G2.
Qed.

Lemma firstn_app_exact {B} (l1 l2 : list B) n : length l1 = n -> firstn n (l1 ++ l2) = l1.
Proof.
  intros <-. rewrite <- (Nat.add_0_r (length l1)), firstn_app_2. simpl. apply app_nil_r.
Qed.

Lemma skipn_app_exact {B} (l1 l2 : list B) n : length l1 = n -> skipn n (l1 ++ l2) = l2.
Proof.
  intros <-. rewrite skipn_app, skipn_all, Nat.sub_diag. reflexivity.
Qed.

(* i-th block of a concatenation of equal-length blocks *)
Lemma chunk_flat_map_const {A B} (f : B -> list A) L x0 : forall l i,
  (forall x, In x l -> length (f x) = L) -> i < length l ->
  chunk L i (flat_map f l) = f (nth i l x0).
Proof.
  induction l as [|x l IH]; intros i H Hi; simpl in *; [lia|].
  assert (Hx : length (f x) = L) by (apply H; now left).
  destruct i as [|i].
  - unfold chunk. simpl. apply firstn_app_exact. exact Hx.
  - unfold chunk. replace (S i * L) with (L + i * L) by (simpl; lia).
    rewrite <- skipn_skipn, (skipn_app_exact _ _ _ Hx).
    apply IH; [|lia]. intros y Hy. apply H. now right.
Qed.

Lemma flat_map_seq_nth {B C} (g : B -> list C) x0 l :
  flat_map (fun i => g (nth i l x0)) (seq 0 (length l)) = flat_map g l.
Proof.
  induction l as [|x l IH]; simpl; [reflexivity|].
  rewrite <- seq_shift, flat_map_concat_map, map_map, <- flat_map_concat_map. simpl.
  now rewrite IH.
Qed.


(* ---- selector normalisation stays in range ------------------------------------------------ *)

Lemma norm_index_range n z i : norm_index n z = Some i -> i < n.
Proof.
  unfold norm_index. intros H.
  destruct ((0 <=? z)%Z && (z <? Z.of_nat n)%Z) eqn:E1.
  - injection H as <-. lia.
  - destruct ((z <? 0)%Z && (- Z.of_nat n <=? z)%Z) eqn:E2; [|discriminate].
    injection H as <-. lia.
Qed.

Lemma mapM_Forall {A B} (f : A -> option B) (P : B -> Prop) l r :
  (forall x y, f x = Some y -> P y) -> mapM f l = Some r -> Forall P r.
Proof.
  intros Hf. revert r; induction l as [|x l IH]; intros r H; simpl in H.
  - injection H as <-. constructor.
  - destruct (f x) eqn:E; [|discriminate]. destruct (mapM f l) eqn:E2; [|discriminate].
    injection H as <-. constructor; [eapply Hf; eauto|apply IH; reflexivity].
Qed.

Lemma mapM_length {A B} (f : A -> option B) l r : mapM f l = Some r -> length r = length l.
Proof.
  revert r; induction l as [|x l IH]; intros r H; simpl in H.
  - injection H as <-. reflexivity.
  - destruct (f x); [|discriminate]. destruct (mapM f l); [|discriminate].
    injection H as <-. simpl. f_equal. apply IH. reflexivity.
Qed.

Local Open Scope Z_scope.

Lemma adjust_bounds n step v : 0 <= n -> step <> 0 ->
  (0 < step -> 0 <= adjust n step v <= n) /\ (step < 0 -> -1 <= adjust n step v <= n - 1).
Proof.
  unfold adjust. intros Hn Hs.
  destruct (v <? 0) eqn:E1; [destruct (v + n <? 0) eqn:E2|destruct (n <=? v) eqn:E2];
    destruct (step <? 0) eqn:E3; split; intros; lia.
Qed.

Lemma slice_elem_range n start stop step k :
  0 <= n -> step <> 0 ->
  (0 < step -> 0 <= start <= n /\ 0 <= stop <= n) ->
  (step < 0 -> -1 <= start <= n - 1 /\ -1 <= stop <= n - 1) ->
  0 <= k < slice_len start stop step ->
  0 <= start + k * step < n.
Proof.
  intros Hn Hs Hp Hm Hk. unfold slice_len in Hk.
  destruct (step <? 0) eqn:E.
  - assert (step < 0) by lia. destruct (Hm H) as [H1 H2].
    destruct (stop <? start) eqn:E2; [|lia].
    assert (Hd : k <= (start - stop - 1) / (- step)) by lia.
    assert (Hq : (- step) * ((start - stop - 1) / (- step)) <= start - stop - 1)
      by (apply Z.mul_div_le; lia).
    nia.
  - assert (0 < step) by lia. destruct (Hp H) as [H1 H2].
    destruct (start <? stop) eqn:E2; [|lia].
    assert (Hd : k <= (stop - start - 1) / step) by lia.
    assert (Hq : step * ((stop - start - 1) / step) <= stop - start - 1)
      by (apply Z.mul_div_le; lia).
    nia.
Qed.

Lemma slice_indices_range n a b c l :
  slice_indices n a b c = Some l -> Forall (fun i => (i < n)%nat) l.
Proof.
  unfold slice_indices. set (step := match c with Some s => s | None => 1 end).
  destruct (step =? 0) eqn:E; [discriminate|]. intros H; injection H as <-.
  apply Forall_forall. intros i Hi. apply in_map_iff in Hi as [k [<- Hk]]. apply in_seq in Hk.
  assert (Hs : step <> 0) by lia.
  set (nz := Z.of_nat n) in *. assert (Hn : 0 <= nz) by lia.
  assert (R : 0 <= slice_start nz step a + Z.of_nat k * step < nz).
  { apply slice_elem_range with (stop := slice_stop nz step b); try assumption.
    - intros Hp. unfold slice_start, slice_stop. split.
      + destruct a; [apply adjust_bounds; assumption|]. destruct (step <? 0) eqn:?; lia.
      + destruct b; [apply adjust_bounds; assumption|]. destruct (step <? 0) eqn:?; lia.
    - intros Hp. unfold slice_start, slice_stop. split.
      + destruct a; [apply adjust_bounds; assumption|]. destruct (step <? 0) eqn:?; lia.
      + destruct b; [apply adjust_bounds; assumption|]. destruct (step <? 0) eqn:?; lia.
    - lia. }
  lia.
Qed.

Lemma resolve_ok n s r : resolve n s = Some r -> rsel_ok n r = true.
Proof.
  unfold rsel_ok. intros H. apply forallb_forall. intros i Hi. apply Nat.ltb_lt.
  destruct s as [z|a b c|l]; simpl in H.
  - destruct (norm_index n z) eqn:E; [|discriminate]. injection H as <-. simpl in Hi.
    destruct Hi as [<-|[]]. eapply norm_index_range; eauto.
  - destruct (slice_indices n a b c) eqn:E; [|discriminate]. injection H as <-. simpl in Hi.
    apply slice_indices_range in E. rewrite Forall_forall in E. auto.
  - destruct (mapM (norm_index n) l) eqn:E; [|discriminate]. injection H as <-. simpl in Hi.
    eapply mapM_Forall in E; [|intros x y; apply norm_index_range]. rewrite Forall_forall in E. auto.
Qed.
