(* Lemmas for C20 (ARL packed-bit). *)
From PNC Require Import Base.Util Model.Arl.
From Coq Require Import ZifyBool.
Local Open Scope Z_scope.
Ltac Zify.zify_post_hook ::= Z.to_euclidean_division_equations.

Definition cell_ok (h x : Z) (cr : Z * Z) : Prop :=
  0 <= fst cr <= 255 /\ Z.abs (x - snd cr) <= h.

Lemma code_step h x rold :
  0 < h -> Z.abs (x - rold) <= 255 * h ->
  cell_ok h x (raw_code h x rold, recon h (raw_code h x rold) rold).
Proof.
  intros Hh Hd. unfold cell_ok, raw_code, recon; cbn [fst snd].
  assert (Hn : 0 <= x - rold + 255 * h) by lia.
  rewrite Z.quot_div_nonneg by lia.
  remember (x - rold + 255 * h) as n eqn:En.
  assert (Hq : n = (2 * h) * (n / (2 * h)) + n mod (2 * h)) by (apply Z.div_mod; lia).
  assert (Hr : 0 <= n mod (2 * h) < 2 * h) by (apply Z.mod_pos_bound; lia).
  assert (Hc0 : 0 <= n / (2 * h)) by (apply Z.div_pos; lia).
  assert (Hc1 : n / (2 * h) <= 255).
  { assert (n / (2 * h) < 256); [|lia]. apply Z.div_lt_upper_bound; lia. }
  split; [lia|]. nia.
Qed.

Lemma pack_line_ok h : 0 < h -> forall xs prev rold,
  Z.abs (prev - rold) <= h ->
  Forall (fun d => Z.abs d <= 254 * h) (diffs prev xs) ->
  Forall2 (cell_ok h) xs (pack_line h rold xs).
Proof.
  intros Hh xs; induction xs as [|x t IH]; intros prev rold He Hd; cbn [pack_line diffs] in *.
  - constructor.
  - inversion Hd as [|d ds Hd1 Hd2]; subst.
    assert (Hc : cell_ok h x (raw_code h x rold, recon h (raw_code h x rold) rold))
      by (apply code_step; lia).
    constructor; [exact Hc|].
    apply (IH x); [|exact Hd2]. destruct Hc as [_ Hc]; cbn [snd] in Hc.
    rewrite <- Z.abs_opp. replace (- (x - recon h (raw_code h x rold) rold)) with
      (recon h (raw_code h x rold) rold - x) in * by lia. lia.
Qed.

Lemma Forall_maxabs l b : maxabs l <= b -> Forall (fun d => Z.abs d <= b) l.
Proof.
  induction l as [|d t IH]; cbn [maxabs fold_right]; intros H; constructor.
  - fold (maxabs t) in H. lia.
  - apply IH. fold (maxabs t) in H. lia.
Qed.

Lemma Forall_app_l {A} (P : A -> Prop) l1 l2 : Forall P (l1 ++ l2) -> Forall P l1.
Proof. intros H; apply Forall_app in H; tauto. Qed.
Lemma Forall_app_r {A} (P : A -> Prop) l1 l2 : Forall P (l1 ++ l2) -> Forall P l2.
Proof. intros H; apply Forall_app in H; tauto. Qed.

Definition row_fun (h : Z) (p : (Z * Z) * list Z) : list (Z * Z) :=
  fst p :: pack_line h (snd (fst p)) (tl (snd p)).

Lemma rows_ok h : 0 < h -> forall rows col0,
  Forall2 (cell_ok h) (map hdZ rows) col0 ->
  Forall (fun r => r <> []) rows ->
  Forall (fun d => Z.abs d <= 254 * h) (concat (map (fun r => diffs (hdZ r) (tl r)) rows)) ->
  Forall2 (Forall2 (cell_ok h)) rows (map (row_fun h) (combine col0 rows)).
Proof.
  intros Hh rows; induction rows as [|r rs IH]; intros col0 Hc Hne Hd.
  - destruct col0; constructor.
  - cbn [map] in Hc. inversion Hc as [|x0 cr xs crs Hcr Hrest]; subst.
    inversion Hne as [|? ? Hr Hrs]; subst.
    cbn [map concat] in Hd. cbn [combine map].
    constructor.
    + unfold row_fun; cbn [fst snd]. destruct r as [|x t]; [congruence|].
      cbn [tl hdZ] in *. constructor; [exact Hcr|].
      apply (pack_line_ok h Hh t x); [destruct Hcr; assumption|].
      eapply Forall_app_l; exact Hd.
    + apply IH; [exact Hrest|exact Hrs|eapply Forall_app_r; exact Hd].
Qed.

Lemma pack_rows_ok h rows :
  0 < h -> Forall (fun r => r <> []) rows -> rmax rows <= 254 * h ->
  Forall2 (Forall2 (cell_ok h)) rows (pack_rows h rows).
Proof.
  intros Hh Hne Hm. unfold pack_rows. fold (row_fun h).
  apply Forall_maxabs in Hm. unfold field_diffs in Hm.
  change (fun p : Z * Z * list Z => fst p :: pack_line h (snd (fst p)) (tl (snd p)))
    with (row_fun h).
  apply rows_ok; [exact Hh| |exact Hne|eapply Forall_app_r; exact Hm].
  apply (pack_line_ok h Hh _ (hdZ (first_row rows))); [rewrite Z.sub_diag; simpl; lia|].
  eapply Forall_app_l; exact Hm.
Qed.

(* ---- decoder mirrors encoder ---------------------------------------------------- *)

Lemma cumsum_pack_line h xs : forall rold,
  cumsum rold (map (delta h) (map fst (pack_line h rold xs))) = map snd (pack_line h rold xs).
Proof.
  induction xs as [|x t IH]; intros rold; cbn [pack_line map cumsum fst snd]; [reflexivity|].
  assert (E : rold + delta h (raw_code h x rold) = recon h (raw_code h x rold) rold)
    by (unfold delta, recon; lia).
  rewrite E. f_equal. apply IH.
Qed.

Lemma stored_id c : 0 <= c <= 255 -> stored c = c.
Proof. intros H; unfold stored; apply Z.mod_small; lia. Qed.

Lemma map_stored_id cs : Forall (fun c => 0 <= c <= 255) cs -> map stored cs = cs.
Proof. induction 1 as [|c t Hc _ IH]; cbn [map]; [reflexivity|]. now rewrite stored_id, IH. Qed.

Lemma rows_mirror h : forall (rows : list (list Z)) (col0 : list (Z * Z)) acc0,
  length col0 = length rows ->
  cumsum acc0 (map (delta h) (map fst col0)) = map snd col0 ->
  let prs := map (row_fun h) (combine col0 rows) in
  map (fun p : Z * list Z => fst p :: cumsum (fst p) (map (delta h) (tl (snd p))))
      (combine (cumsum acc0 (map (fun r => delta h (hdZ r)) (map (map fst) prs)))
               (map (map fst) prs))
  = map (map snd) prs.
Proof.
  intros rows; induction rows as [|r rs IH]; intros col0 acc0 Hl Hc; cbn zeta.
  - destruct col0; reflexivity.
  - destruct col0 as [|cr crs]; [discriminate|].
    cbn [combine map row_fun fst snd hdZ cumsum tl] in *.
    injection Hc as Hc1 Hc2. injection Hl as Hl.
    rewrite Hc1. cbn [combine map fst snd tl].
    f_equal.
    + f_equal. apply cumsum_pack_line.
    + specialize (IH crs (snd cr) Hl). cbn zeta in IH. apply IH. rewrite <- Hc1. exact Hc2.
Qed.

Lemma pack_line_length h xs : forall rold, length (pack_line h rold xs) = length xs.
Proof. induction xs as [|x t IH]; intros; cbn [pack_line length]; [reflexivity|now rewrite IH]. Qed.

(* with the UNWRAPPED codes the decoder reproduces the encoder's running values exactly,
   whatever the input *)
Lemma unpack_raw_mirror h rows :
  unpack_rows h (hdZ (first_row rows)) (raw_codes h rows) = enc_recon h rows.
Proof.
  unfold unpack_rows, raw_codes, enc_recon, pack_rows.
  change (fun p : Z * Z * list Z => fst p :: pack_line h (snd (fst p)) (tl (snd p)))
    with (row_fun h).
  apply (rows_mirror h rows (pack_line h (hdZ (first_row rows)) (map hdZ rows))
           (hdZ (first_row rows))).
  - rewrite pack_line_length, map_length. reflexivity.
  - apply cumsum_pack_line.
Qed.

Lemma Forall2_codes_in_range h rows prs :
  Forall2 (Forall2 (cell_ok h)) rows prs ->
  map (map stored) (map (map fst) prs) = map (map fst) prs.
Proof.
  induction 1 as [|r pr rs prs' Hr _ IH]; cbn [map]; [reflexivity|].
  rewrite IH. f_equal. apply map_stored_id.
  induction Hr as [|x cr xs crs Hc _ IH2]; cbn [map]; constructor; [apply Hc|exact IH2].
Qed.

Lemma Forall2_within h rows prs :
  0 <= h ->
  Forall2 (Forall2 (cell_ok h)) rows prs -> within h rows (map (map snd) prs) = true.
Proof.
  intros Hh. induction 1 as [|r pr rs prs' Hr _ IH]; cbn [map within]; [reflexivity|].
  rewrite IH, andb_true_r.
  induction Hr as [|x cr xs crs Hc _ IH2]; cbn [map within1]; [reflexivity|].
  rewrite IH2, andb_true_r. destruct Hc as [_ Hc]. lia.
Qed.

Lemma Forall2_bytes_ok h rows prs :
  Forall2 (Forall2 (cell_ok h)) rows prs -> bytes_ok (map (map fst) prs) = true.
Proof.
  unfold bytes_ok.
  induction 1 as [|r pr rs prs' Hr _ IH]; cbn [map forallb]; [reflexivity|].
  rewrite IH, andb_true_r.
  induction Hr as [|x cr xs crs Hc _ IH2]; cbn [map forallb]; [reflexivity|].
  rewrite IH2, andb_true_r. destruct Hc as [Hc _]. lia.
Qed.

Lemma rect_nonempty rows : rect rows = true -> Forall (fun r => r <> []) rows.
Proof.
  unfold rect. destruct rows as [|r t]; [discriminate|].
  intros H. apply andb_true_iff in H as [H1 H2].
  assert (Hr : r <> []) by (destruct r; [cbn in H1; lia|congruence]).
  constructor; [exact Hr|].
  rewrite forallb_forall in H2. apply Forall_forall. intros r' Hin.
  specialize (H2 r' Hin). apply Nat.eqb_eq in H2. destruct r'; [|congruence].
  destruct r; [congruence|discriminate].
Qed.

(* Main lemma: within the exponent's guaranteed range (all scan-order neighbour differences
   at most 127 quanta) the library's round trip is within HALF a quantum everywhere, no code
   leaves 0..255, and the decoder returns exactly the encoder's running values. *)
Lemma roundtrip_half h rows :
  0 < h -> rect rows = true -> rmax rows <= 254 * h ->
  within h rows (roundtrip h rows) = true
  /\ bytes_ok (raw_codes h rows) = true
  /\ roundtrip h rows = enc_recon h rows.
Proof.
  intros Hh Hr Hm.
  pose proof (pack_rows_ok h rows Hh (rect_nonempty rows Hr) Hm) as Hok.
  assert (Hb : pack_bytes h rows = raw_codes h rows).
  { unfold pack_bytes, raw_codes. apply (Forall2_codes_in_range h rows). exact Hok. }
  assert (Hrt : roundtrip h rows = enc_recon h rows).
  { unfold roundtrip. rewrite Hb. apply unpack_raw_mirror. }
  split; [|split].
  - rewrite Hrt. unfold enc_recon. apply (Forall2_within h); [lia|exact Hok].
  - unfold raw_codes. apply (Forall2_bytes_ok h rows). exact Hok.
  - exact Hrt.
Qed.

Lemma within_weaken a : forall b h h', h <= h' -> within h a b = true -> within h' a b = true.
Proof.
  induction a as [|x a IH]; intros [|y b] h h' Hle; cbn [within]; try (intros; assumption).
  intros H. apply andb_true_iff in H as [H1 H2]. rewrite (IH b h h' Hle H2), andb_true_r.
  clear IH H2. revert y H1. induction x as [|u x IHx]; intros [|v y]; cbn [within1];
    try (intros; assumption).
  intros H. apply andb_true_iff in H as [H1 H2]. rewrite (IHx y H2), andb_true_r. lia.
Qed.

(* first element exact, for EVERY field and every h > 0 *)
Lemma first_exact h rows :
  0 < h -> rect rows = true ->
  hdZ (first_row (enc_recon h rows)) = hdZ (first_row rows)
  /\ hdZ (first_row (raw_codes h rows)) = 127.
Proof.
  intros Hh Hr. destruct rows as [|r t]; [discriminate|].
  pose proof (rect_nonempty _ Hr) as Hne. inversion Hne as [|? ? Hr0 _]; subst.
  destruct r as [|x xs]; [congruence|].
  unfold enc_recon, raw_codes, pack_rows.
  cbn [first_row hdZ map pack_line combine fst snd tl].
  unfold raw_code, recon. rewrite Z.sub_diag, Z.add_0_l.
  assert (E : Z.quot (255 * h) (2 * h) = 127).
  { rewrite Z.quot_div_nonneg by lia. symmetry. apply (Z.div_unique_pos _ _ _ h); lia. }
  rewrite E. split; [lia|reflexivity].
Qed.

Lemma spec_partial h rows :
  0 < h -> rect rows = true -> rmax rows <= 254 * h -> spec_ok h rows = true.
Proof.
  intros Hh Hr Hm. destruct (roundtrip_half h rows Hh Hr Hm) as (Hw & Hb & Hrt).
  unfold spec_ok. rewrite (within_weaken rows _ h (2 * h)); [|lia|exact Hw].
  rewrite Hb, Hrt. destruct (first_exact h rows Hh Hr) as [E _]. rewrite E, Z.eqb_refl. reflexivity.
Qed.

Lemma exponent_covers r : 0 < r -> 2 ^ Z.log2 r <= r < 2 ^ (Z.log2 r + 1).
Proof.
  intros Hr. pose proof (Z.log2_spec r Hr) as H.
  replace (Z.log2 r + 1) with (Z.succ (Z.log2 r)) by lia. exact H.
Qed.

(* the repaired exponent rule keeps the largest neighbour difference within 127 quanta *)
Lemma fixed_rule_covers r : 0 < r -> 128 * r <= 127 * 2 ^ nexp_rule_fixed r.
Proof.
  intros Hr. unfold nexp_rule_fixed. cbn zeta.
  pose proof (Z.log2_nonneg r) as Hl. pose proof (exponent_covers r Hr) as [_ Hu].
  destruct (127 * 2 ^ (Z.log2 r + 1) <? 128 * r) eqn:E.
  - replace (Z.log2 r + 1 + 1) with (Z.succ (Z.log2 r + 1)) by lia. rewrite Z.pow_succ_r by lia. lia.
  - apply Z.ltb_ge in E. exact E.
Qed.

Lemma spec_fixed_exponent h rows :
  0 < h -> rect rows = true ->
  (rmax rows = 0 \/ (0 < rmax rows /\ 256 * h = 2 ^ nexp_rule_fixed (rmax rows))) ->
  spec_ok h rows = true /\ within h rows (roundtrip h rows) = true.
Proof.
  intros Hh Hr Hc.
  assert (Hm : rmax rows <= 254 * h).
  { destruct Hc as [->|[Hp He]]; [lia|]. pose proof (fixed_rule_covers (rmax rows) Hp). lia. }
  split; [apply spec_partial; assumption|]. apply (roundtrip_half h rows Hh Hr Hm).
Qed.

(* decoding a field packed by ANY tool with ANY exponent (h arbitrary): when no code left 0..255
   the library's unpack of the stored bytes returns exactly that packer's running values *)
Lemma foreign_decode h rows :
  bytes_ok (raw_codes h rows) = true -> roundtrip h rows = enc_recon h rows.
Proof.
  intros Hb. unfold roundtrip, pack_bytes.
  assert (E : map (map stored) (raw_codes h rows) = raw_codes h rows).
  { unfold bytes_ok in Hb. induction (raw_codes h rows) as [|r rs IH]; cbn [map forallb] in *; [reflexivity|].
    apply andb_true_iff in Hb as [H1 H2]. rewrite (IH H2). f_equal.
    apply map_stored_id. apply Forall_forall. rewrite forallb_forall in H1. intros c Hc.
    specialize (H1 c Hc). lia. }
  rewrite E. apply unpack_raw_mirror.
Qed.
