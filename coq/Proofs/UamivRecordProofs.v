(* C13 (uamiv), second half: the record the sequential reader seeks to — at the byte offset its
   translated arithmetic computes (Proofs/CamxReadProofs.v: recordposition_spec) — IS the record of
   (step t, species s, layer k) of the encoded content: marker, ione, species name, the layer's
   cells, marker.  So both readers expose the same float data for every well-formed file. *)
From PNC Require Import Base.Util Base.Words Proofs.WordsProofs Gen.Camx Model.Uamiv Proofs.UamivProofs.
From Coq Require Import String QArith Qround ZifyBool.
Import Coq.Lists.List. Import ListNotations.
Local Open Scope Z_scope.

Lemma skipn_add {A} : forall a b (l : list A), skipn (a + b) l = skipn b (skipn a l).
Proof.
  induction a as [|a IH]; intros b l; [reflexivity|]. destruct l as [|x l]; cbn [Nat.add skipn].
  - rewrite skipn_nil. reflexivity.
  - apply IH.
Qed.

Lemma skipn_nth_cons {A} (d : A) : forall i l, (i < length l)%nat -> skipn i l = nth i l d :: skipn (S i) l.
Proof.
  induction i as [|i IH]; intros [|x l] H; cbn [length] in H; try lia; [reflexivity|].
  cbn [skipn nth]. apply IH. lia.
Qed.

Lemma skipn_concat_nth n (bs : list (list Z)) i :
  Forall (fun b => length b = n) bs -> (i < length bs)%nat ->
  skipn (i * n) (concat bs) = nth i bs [] ++ concat (skipn (S i) bs).
Proof.
  intros Hall Hi. rewrite (skipn_concat_uniform n bs i Hall).
  rewrite (skipn_nth_cons [] i bs Hi). reflexivity.
Qed.

Lemma nth_concat_uniform {A} (d : A) n : forall (bs : list (list A)) i j,
  Forall (fun b => length b = n) bs -> (i < length bs)%nat -> (j < n)%nat ->
  nth (i * n + j) (concat bs) d = nth j (nth i bs []) d.
Proof.
  induction bs as [|b bs IH]; intros i j Hall Hi Hj; [cbn in Hi; lia|].
  inversion Hall as [|? ? Hb Hbs]; subst. destruct i as [|i]; cbn [concat nth].
  - cbn [Nat.mul Nat.add]. apply app_nth1. lia.
  - rewrite app_nth2 by lia. replace (S i * length b + j - length b)%nat with (i * length b + j)%nat by lia.
    apply IH; [exact Hbs|cbn [length] in Hi; lia|exact Hj].
Qed.

Lemma nth_combine_map {A B C} (f : A * B -> C) (da : A) (db : B) (dc : C) : forall (la : list A) (lb : list B) i,
  length la = length lb -> (i < length la)%nat ->
  nth i (map f (combine la lb)) dc = f (nth i la da, nth i lb db).
Proof.
  induction la as [|a la IH]; intros [|b lb] i Hl Hi; cbn [length] in *; try lia.
  destruct i as [|i]; cbn [combine map nth]; [reflexivity|]. apply IH; lia.
Qed.

Section Rec.
Variable u : uamiv.
Hypothesis Hwf : wf u = true.

Definition rec_words : nat := Z.to_nat (13 + u_nx u * u_ny u).

(* word offset of the record of (step t, species s, layer k), all 0-based *)
Definition rec_word_offset (t s k : nat) : nat :=
  (Z.to_nat (hdr_words u) + (t * Z.to_nat (step_words u) + (6 + (s * Z.to_nat (u_nz u) + k) * rec_words)))%nat.

Definition cell_record (t s k : nat) : list Z :=
  lay_record (nth s (u_spc u) []) (nth k (nth s (snd (nth t (u_steps u) ([], []))) []) []).

Lemma record_at_offset t s k :
  (t < length (u_steps u))%nat -> (s < length (u_spc u))%nat -> (k < Z.to_nat (u_nz u))%nat ->
  exists rest, skipn (rec_word_offset t s k) (enc u) = frame1 (cell_record t s k) ++ rest.
Proof.
  intros Ht Hs Hk.
  destruct (wf_parts u Hwf) as (Hname & Hnote & Hdates & Hgpre & Hgpost & Hnx & Hny & Hnz & Hns & Hspc & Hsteps).
  unfold rec_word_offset. rewrite skipn_add.
  rewrite enc_split, (skip_hdr u Hwf). unfold data_words.
  rewrite skipn_add.
  rewrite (skipn_concat_nth _ _ t (data_blocks u Hwf)) by (rewrite map_length; exact Ht).
  rewrite (nth_indep _ [] (blk_words u ([], []))) by (rewrite map_length; exact Ht).
  rewrite map_nth.
  set (st := nth t (u_steps u) ([], [])).
  assert (Hst : st_ok u st).
  { pose proof (steps_ok u Hwf) as H. rewrite Forall_forall in H. apply H. apply nth_In. exact Ht. }
  destruct Hst as (H4 & Hl & Hss).
  destruct (spc_recs_frames u Hwf (u_spc u) (snd st) Hl Hspc Hss) as [F1 _]. cbn zeta in F1.
  unfold blk_words, step_records, frame. cbn [map concat].
  unfold frame1 at 1.
  destruct (fst st) as [|a [|b [|c [|d [|e0 tl0]]]]] eqn:Ef; try discriminate.
  rewrite skipn_add. rewrite <- (app_assoc (marker [a; b; c; d] :: [a; b; c; d] ++ [marker [a; b; c; d]])).
  rewrite (skipn_app_len 6) by reflexivity.
  set (recs := concat (map (fun p => spc_records (fst p) (snd p)) (combine (u_spc u) (snd st)))) in *.
  set (idx := (s * Z.to_nat (u_nz u) + k)%nat).
  assert (Hlen_recs : length recs = (length (u_spc u) * Z.to_nat (u_nz u))%nat).
  { unfold recs. clear F1. revert Hl Hss. generalize (snd st). generalize (u_spc u).
    induction l as [|nm l IH]; intros [|lays ss] Hl0 Hs0; try discriminate; [reflexivity|].
    inversion Hs0 as [|? ? [Hz _] Hs2]; subst. cbn [combine map concat fst snd length].
    rewrite app_length. unfold spc_records at 1. rewrite map_length, Hz.
    rewrite IH; [lia|cbn in Hl0; lia|exact Hs2]. }
  assert (Hidx : (idx < length (map frame1 recs))%nat) by (rewrite map_length, Hlen_recs; unfold idx; nia).
  assert (Hsplit : (idx * rec_words <= length (concat (map frame1 recs)))%nat).
  { rewrite (concat_uniform_length _ _ F1). unfold rec_words. nia. }
  rewrite skipn_app.
  replace (idx * rec_words - length (concat (map frame1 recs)))%nat with 0%nat by lia.
  cbn [skipn].
  unfold rec_words. rewrite (skipn_concat_nth _ _ idx F1 Hidx).
  rewrite (nth_indep _ [] (frame1 [])) by exact Hidx. rewrite map_nth.
  eexists. rewrite <- app_assoc. f_equal. f_equal.
  (* the idx-th record is the one of species s, layer k *)
  unfold recs, idx, cell_record. fold st.
  assert (Hu : Forall (fun b : list (list Z) => length b = Z.to_nat (u_nz u))
                 (map (fun p => spc_records (fst p) (snd p)) (combine (u_spc u) (snd st)))).
  { apply Forall_forall. intros bb Hbb. apply in_map_iff in Hbb as ([nm lays] & <- & Hin).
    cbn [fst snd]. unfold spc_records. rewrite map_length.
    apply in_combine_r in Hin. rewrite Forall_forall in Hss. destruct (Hss lays Hin) as [Hz _]. exact Hz. }
  rewrite (nth_concat_uniform [] (Z.to_nat (u_nz u))); [|exact Hu|rewrite map_length, combine_length; lia|exact Hk].
  rewrite (nth_combine_map (fun p => spc_records (fst p) (snd p)) [] [] []) by (exact Hl || exact Hs).
  cbn [fst snd]. unfold spc_records.
  assert (Hk2 : (k < length (nth s (snd st) []))%nat).
  { rewrite Forall_forall in Hss. destruct (Hss (nth s (snd st) [])) as [Hz _]; [apply nth_In; lia|]. lia. }
  rewrite (nth_indep _ [] (lay_record (nth s (u_spc u) []) [])) by (rewrite map_length; exact Hk2).
  rewrite map_nth. reflexivity.
Qed.

(* what a record reader that seeks there and unpacks "i10i" + cell_count floats returns *)
Lemma record_read t s k :
  (t < length (u_steps u))%nat -> (s < length (u_spc u))%nat -> (k < Z.to_nat (u_nz u))%nat ->
  let ws := skipn (rec_word_offset t s k) (enc u) in
  length (nth k (nth s (snd (nth t (u_steps u) ([], []))) []) []) = Z.to_nat (u_nx u * u_ny u) ->
  length (nth s (u_spc u) []) = 10%nat ->
  firstn (Z.to_nat (u_nx u * u_ny u)) (skipn 12 ws)
  = nth k (nth s (snd (nth t (u_steps u) ([], []))) []) [].
Proof.
  intros Ht Hs Hk ws Hlay Hnm.
  destruct (record_at_offset t s k Ht Hs Hk) as [rest E]. unfold ws. rewrite E.
  unfold cell_record, frame1, lay_record. cbn [app]. do 2 rewrite skipn_cons.
  rewrite <- !app_assoc. rewrite (skipn_app_len 10) by exact Hnm.
  apply firstn_app_len. exact Hlay.
Qed.

End Rec.

From PNC Require Import Proofs.CamxReadProofs.

(* the translated seek position (bytes) is four times the word offset of that record *)
Lemma recordposition_word_offset (u : uamiv) (self : ur_self) t s k d tm :
  wf u = true ->
  ur_nspec self = nspec u -> ur_nlayers self = u_nz u ->
  ur_data_start_byte self = 4 * hdr_words u ->
  ur_padded_size self = 4 * (13 + u_nx u * u_ny u) ->
  ur_padded_time_hdr_size self = 24 ->
  Z.quot (tt_timediff (ur_start_date self, ur_start_time self) (d, tm) 2400) (ur_time_step self) = Z.of_nat t ->
  ur_recordposition self d tm (Z.of_nat s + 1) (Z.of_nat k + 1) = 4 * Z.of_nat (rec_word_offset u t s k).
Proof.
  intros Hwf E1 E2 E3 E4 E5 Eq.
  destruct (wf_parts u Hwf) as (_ & _ & _ & _ & _ & Hnx & Hny & Hnz & Hns & _ & _).
  rewrite (recordposition_spec self (hdr_words u) (u_nx u * u_ny u) (Z.of_nat t) (Z.of_nat s + 1) (Z.of_nat k + 1) d tm);
    try lia; try assumption; try nia.
  unfold spec_record_offset, rec_word_offset, rec_words, step_words. rewrite E1, E2.
  assert (0 <= hdr_words u) by (unfold hdr_words; lia).
  nia.
Qed.

(* Both readers present the same cells: what a record reader that seeks to the translated position and
   unpacks "i" + "10i" + cell_count floats returns for (step t, species s, layer k) is exactly the cell list
   the Memmap reader model presents (view_of u) for it. *)
Lemma record_reader_reads_content (u : uamiv) (self : ur_self) t s k d tm :
  wf u = true ->
  (t < length (u_steps u))%nat -> (s < length (u_spc u))%nat -> (k < Z.to_nat (u_nz u))%nat ->
  ur_nspec self = nspec u -> ur_nlayers self = u_nz u ->
  ur_data_start_byte self = 4 * hdr_words u ->
  ur_padded_size self = 4 * (13 + u_nx u * u_ny u) ->
  ur_padded_time_hdr_size self = 24 ->
  Z.quot (tt_timediff (ur_start_date self, ur_start_time self) (d, tm) 2400) (ur_time_step self) = Z.of_nat t ->
  let pos := ur_recordposition self d tm (Z.of_nat s + 1) (Z.of_nat k + 1) in
  firstn (Z.to_nat (u_nx u * u_ny u)) (skipn 12 (skipn (Z.to_nat (pos / 4)) (enc u)))
  = nth k (nth s (nth t (v_data (view_of u)) []) []) [].
Proof.
  intros Hwf Ht Hs Hk E1 E2 E3 E4 E5 Eq pos.
  unfold pos. rewrite (recordposition_word_offset u self t s k d tm) by assumption.
  replace (4 * Z.of_nat (rec_word_offset u t s k) / 4) with (Z.of_nat (rec_word_offset u t s k))
    by (rewrite Z.mul_comm, Z.div_mul; lia).
  rewrite Nat2Z.id.
  pose proof (steps_ok u Hwf) as Hall. rewrite Forall_forall in Hall.
  assert (Hst : st_ok u (nth t (u_steps u) ([], []))) by (apply Hall, nth_In; exact Ht).
  destruct Hst as (_ & Hl & Hss). rewrite Forall_forall in Hss.
  destruct (wf_parts u Hwf) as (_ & _ & _ & _ & _ & _ & _ & _ & _ & Hspc & _).
  rewrite Forall_forall in Hspc.
  assert (Hin : In (nth s (snd (nth t (u_steps u) ([], []))) []) (snd (nth t (u_steps u) ([], [])))) by (apply nth_In; lia).
  destruct (Hss _ Hin) as [Hz Hlays]. rewrite Forall_forall in Hlays.
  rewrite (record_read u Hwf t s k Ht Hs Hk).
  - unfold view_of. cbn [v_data].
    f_equal. f_equal. symmetry.
    apply (map_nth snd (u_steps u) (@nil Z, @nil (list (list Z))) t).
  - apply Hlays, nth_In. lia.
  - apply Hspc, nth_In. exact Hs.
Qed.
