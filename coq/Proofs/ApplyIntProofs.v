(* Integrality preservation for Model/Apply.v (C03): integer-valued variables stay integer-valued
   under sum/prod/min/max/diff/sub-sampling/integer-kernel convolution. *)
From PNC Require Import Base.Util Base.NdApply Model.Apply Proofs.NdApplyProofs Proofs.ApplyProofs.
Require Import QArith.
Local Close Scope Q_scope.
Local Open Scope nat_scope.

Lemma q_int_add a b : q_int a -> q_int b -> q_int (qadd a b).
Proof.
  intros [x Hx] [y Hy]. exists (x + y)%Z. unfold qadd. rewrite Qred_correct, Hx, Hy.
  rewrite inject_Z_plus. reflexivity.
Qed.
Lemma q_int_mul a b : q_int a -> q_int b -> q_int (qmul a b).
Proof.
  intros [x Hx] [y Hy]. exists (x * y)%Z. unfold qmul. rewrite Qred_correct, Hx, Hy.
  rewrite inject_Z_mult. reflexivity.
Qed.
Lemma q_int_min a b : q_int a -> q_int b -> q_int (qmin a b).
Proof. unfold qmin. destruct (Qle_bool a b); auto. Qed.
Lemma q_int_max a b : q_int a -> q_int b -> q_int (qmax a b).
Proof. unfold qmax. destruct (Qle_bool a b); auto. Qed.
Lemma q_int_sub a b : q_int a -> q_int b -> q_int (Qred (b - a)).
Proof.
  intros [x Hx] [y Hy]. exists (y - x)%Z. rewrite Qred_correct, Hx, Hy.
  unfold Qminus. rewrite <- inject_Z_opp, <- inject_Z_plus. reflexivity.
Qed.
Lemma q_int_0 : q_int 0%Q.
Proof. exists 0%Z. reflexivity. Qed.

Lemma olift_int f : (forall a b, q_int a -> q_int b -> q_int (f a b)) ->
  forall c d, cell_int c -> cell_int d -> cell_int (olift f c d).
Proof. intros H [a|] [b|]; simpl; auto. Qed.

Lemma ma_red_int f l : (forall a b, q_int a -> q_int b -> q_int (f a b)) ->
  Forall cell_int l -> Forall cell_int (ma_red f l).
Proof.
  intros H F. unfold ma_red, red. constructor; auto.
  induction F; simpl; auto. apply olift_int; auto.
Qed.

Lemma fdiff_int l : Forall cell_int l -> Forall cell_int (fdiff l).
Proof.
  induction l as [|a l IH]; intros F; simpl; auto.
  destruct l as [|b t]; auto. inversion F as [|? ? Ha F']; subst. inversion F' as [|? ? Hb _]; subst.
  constructor; auto.
  destruct a, b; simpl; auto. apply q_int_sub; auto.
Qed.

Lemma fsub_aux_int st sk l : Forall cell_int l -> Forall cell_int (fsub_aux st sk l).
Proof.
  revert sk; induction l as [|a l IH]; intros sk F; simpl; auto.
  inversion F; subst. destruct sk; auto.
Qed.

Lemma fold_qadd_int l : Forall q_int l -> q_int (fold_right qadd 0%Q l).
Proof. induction 1; simpl; [apply q_int_0 | apply q_int_add; auto]. Qed.

Lemma nth_int l i : Forall q_int l -> q_int (nth i l 0%Q).
Proof.
  intros F. revert i; induction F; intros [|i]; simpl; auto using q_int_0.
Qed.

Lemma conv_full_int a ker : Forall q_int a -> Forall q_int ker -> Forall q_int (conv_full a ker).
Proof.
  intros Fa Fk. unfold conv_full. apply Forall_forall. intros x Hx.
  apply in_map_iff in Hx as [i [<- _]]. apply fold_qadd_int. apply Forall_forall. intros y Hy.
  apply in_map_iff in Hy as [j [<- _]].
  destruct ((j <=? i) && (i - j <? length ker)); [|apply q_int_0].
  destruct (nth_int a j Fa) as [x Hx], (nth_int ker (i - j) Fk) as [y Hy].
  exists (x * y)%Z. rewrite Hx, Hy, inject_Z_mult. reflexivity.
Qed.

Lemma Forall_firstn {A} (P : A -> Prop) n l : Forall P l -> Forall P (firstn n l).
Proof. intros F. revert n; induction F; intros [|n]; simpl; auto. Qed.
Lemma Forall_skipn {A} (P : A -> Prop) n l : Forall P l -> Forall P (skipn n l).
Proof. intros F. revert n; induction F; intros [|n]; simpl; auto. Qed.

Lemma conv_int m a ker : Forall q_int a -> Forall q_int ker -> Forall q_int (conv m a ker).
Proof.
  intros Fa Fk. unfold conv. pose proof (conv_full_int a ker Fa Fk) as F.
  destruct m as [|[|?]]; auto using Forall_firstn, Forall_skipn.
Qed.

Lemma unmask_int l : Forall cell_int l -> Forall q_int (unmask l).
Proof.
  induction 1 as [|c l Hc _ IH]; simpl; constructor; auto.
  destruct c; simpl in *; auto using q_int_0.
Qed.

Lemma fconv_int m ker l : Forall q_int ker -> Forall cell_int l -> Forall cell_int (fconv m ker l).
Proof.
  intros Fk F. unfold fconv.
  destruct (forallb is_some l).
  - apply Forall_forall. intros c Hc. apply in_map_iff in Hc as [q [<- Hq]].
    simpl. eapply Forall_forall in Hq; [exact Hq|]. apply conv_int; auto using unmask_int.
  - apply Forall_forall. intros c Hc. apply in_map_iff in Hc as [q [<- _]]. exact I.
Qed.

(* lanes: an integer-valued lane stays integer-valued *)
Theorem run_int fd l : int_preserving fd -> Forall cell_int l -> Forall cell_int (run fd l).
Proof.
  destruct fd; simpl; intros H F; try contradiction.
  - apply ma_red_int; auto using q_int_add.
  - apply ma_red_int; auto using q_int_mul.
  - apply ma_red_int; auto using q_int_min.
  - apply ma_red_int; auto using q_int_max.
  - apply fdiff_int; auto.
  - apply fsub_aux_int; auto.
  - apply fconv_int; auto.
Qed.

Lemma nth_cell_int l i : Forall cell_int l -> cell_int (nth i l None).
Proof. intros F. revert i; induction F; intros [|i]; simpl; auto. Qed.

Lemma apply_axis_int fd k a : int_preserving fd -> arr_int a -> arr_int (apply_axis (run fd) None k a).
Proof.
  intros H A i. simpl. apply nth_cell_int. apply run_int; auto.
  unfold lane. apply Forall_forall. intros c Hc. apply in_map_iff in Hc as [j [<- _]]. apply A.
Qed.

Lemma seq_apply_int dfs v ks :
  arr_int (vdat v) ->
  (forall d fd, In d (vdims v) -> lookup d dfs = Some fd -> int_preserving fd) ->
  arr_int (seq_apply dfs v ks).
Proof.
  intros A H. induction ks as [|k ks IH]; simpl; auto.
  unfold seq_apply in *. simpl.
  destruct (nth_error (vdims v) k) as [d|] eqn:E; auto.
  unfold step; simpl. destruct (lookup d dfs) as [fd|] eqn:L; auto.
  apply apply_axis_int; auto. eapply H; eauto. eapply nth_error_In; eauto.
Qed.

(* files: an integer-valued variable whose named dimensions all carry integer-preserving
   functions is integer-valued in the result *)
Theorem integer_vars_stay_integer f dfs r v :
  impl_apply f dfs = Ok r -> In v (fvars f) -> arr_int (vdat v) ->
  (forall d fd, In d (vdims v) -> lookup d dfs = Some fd -> int_preserving fd) ->
  exists v', In v' (fvars r) /\ vname v' = vname v /\ vdims v' = vdims v /\ arr_int (vdat v').
Proof.
  intros H Hin A P. pose proof (all_vars_axiswise _ _ _ _ H Hin) as Hv.
  eexists; split; [exact Hv|]. simpl. repeat split; auto. apply seq_apply_int; auto.
Qed.

(* whereas the mean of integers is fractional in general *)
Lemma half_not_int : ~ q_int (1 # 2)%Q.
Proof.
  intros [z Hz]. unfold Qeq in Hz. simpl in Hz. lia.
Qed.
