(* Lemmas for C04 (Model/Stack.v). *)
From PNC Require Import Base.Util Base.ArrFlat Model.Slice Model.Stack Proofs.ArrFlatProofs Proofs.SliceProofs.
From Coq Require Import Arith.
Set Default Timeout 30.

Section P.
Context {A : Type}.
Implicit Types d : list A.

(* consecutive sub-blocks reassemble *)
Lemma pieces_reassemble inner (e : list A) : forall lens s,
  flat_map (fun p => firstn (snd p * inner) (skipn (fst p * inner) e)) (extents s lens)
  = firstn (sumn lens * inner) (skipn (s * inner) e).
Proof.
  induction lens as [|l lens IH]; intros s; simpl; [reflexivity|].
  rewrite IH. change (sumn (l :: lens)) with (l + sumn lens).
  replace ((l + sumn lens) * inner) with (l * inner + sumn lens * inner) by lia.
  rewrite firstn_add. f_equal. rewrite skipn_skipn.
  replace ((s + l) * inner) with (s * inner + l * inner) by lia. reflexivity.
Qed.

Lemma piece_length outer inner n c0 len d :
  length d = outer * (n * inner) -> c0 + len <= n ->
  forall o, o < outer ->
  length (firstn (len * inner) (skipn (c0 * inner) (chunk (n * inner) o d))) = len * inner.
Proof.
  intros Hd Hc o Ho. rewrite firstn_length, skipn_length, chunk_length; [nia|].
  rewrite Hd. nia.
Qed.

Lemma extents_bound lens : forall s e, In e (extents s lens) -> fst e + snd e <= s + sumn lens.
Proof.
  induction lens as [|l lens IH]; intros s e H; simpl in *; [contradiction|].
  destruct H as [<-|H]; simpl; [lia|]. apply IH in H. lia.
Qed.

(* stack (split a) = a, any axis position, any partition *)
Lemma stack_split outer inner n lens d :
  length d = outer * (n * inner) -> sumn lens = n ->
  concat_at outer inner (split_at outer inner n lens d) = d.
Proof.
  intros Hd Hs. unfold concat_at, split_at.
  rewrite flat_map_ext_in with (g := fun o => chunk (n * inner) o d).
  - apply chunks_all. rewrite Hd. lia.
  - intros o Ho. apply in_seq in Ho. rewrite flat_map_map. simpl.
    rewrite flat_map_ext_in with
      (g := fun p => firstn (snd p * inner) (skipn (fst p * inner) (chunk (n * inner) o d))).
    + rewrite pieces_reassemble. simpl. rewrite Hs. apply firstn_all2.
      rewrite chunk_length; [lia|]. rewrite Hd. nia.
    + intros e He. unfold piece_at.
      rewrite chunk_flat_map_const with (x0 := 0).
      * rewrite seq_nth by lia. reflexivity.
      * intros o' Ho'. apply in_seq in Ho'. apply piece_length with (outer := outer); [exact Hd| |lia].
        apply extents_bound in He. lia.
      * rewrite seq_length. lia.
Qed.

Definition part_ok (outer inner : nat) (p : nat * list A) : Prop :=
  length (snd p) = outer * (fst p * inner).

Lemma block_length outer inner parts o :
  Forall (part_ok outer inner) parts -> o < outer ->
  length (flat_map (fun p => chunk (fst p * inner) o (snd p)) parts) = sumn (map fst parts) * inner.
Proof.
  intros H Ho. induction H as [|p parts Hp _ IH]; simpl; [reflexivity|].
  rewrite app_length, IH, chunk_length; [lia|]. unfold part_ok in Hp. rewrite Hp. nia.
Qed.

Lemma stack_length outer inner parts :
  Forall (part_ok outer inner) parts ->
  length (concat_at outer inner parts) = outer * (sumn (map fst parts) * inner).
Proof.
  intros H. unfold concat_at.
  rewrite flat_map_length_const with (k := sumn (map fst parts) * inner).
  - now rewrite seq_length.
  - intros o Ho. apply in_seq in Ho. apply block_length with (outer := outer); [exact H|lia].
Qed.

(* slicing the stack at the extent of a part gives that part back *)
Lemma slice_stack_piece outer inner before p after :
  Forall (part_ok outer inner) (before ++ p :: after) ->
  piece_at outer inner (sumn (map fst (before ++ p :: after))) (sumn (map fst before)) (fst p)
           (concat_at outer inner (before ++ p :: after)) = snd p.
Proof.
  intros H. unfold piece_at.
  assert (Hp : part_ok outer inner p).
  { rewrite Forall_forall in H. apply H. apply in_or_app. right. now left. }
  rewrite flat_map_ext_in with (g := fun o => chunk (fst p * inner) o (snd p)).
  - apply chunks_all. unfold part_ok in Hp. rewrite Hp. lia.
  - intros o Ho. apply in_seq in Ho. unfold concat_at.
    rewrite chunk_flat_map_const with (x0 := 0).
    + rewrite seq_nth by lia. simpl. rewrite flat_map_app. simpl.
      assert (Hb : Forall (part_ok outer inner) before) by (apply Forall_app in H; tauto).
      rewrite skipn_app_exact by (apply block_length with (outer := outer); [exact Hb|lia]).
      apply firstn_app_exact. apply chunk_length. unfold part_ok in Hp. rewrite Hp. nia.
    + intros o' Ho'. apply in_seq in Ho'. apply block_length with (outer := outer); [exact H|lia].
    + rewrite seq_length. lia.
Qed.

Lemma stack_single outer inner n d :
  length d = outer * (n * inner) -> concat_at outer inner [(n, d)] = d.
Proof.
  intros Hd. unfold concat_at. simpl.
  rewrite flat_map_ext with (g := fun o => chunk (n * inner) o d) by (intros; apply app_nil_r).
  apply chunks_all. rewrite Hd. lia.
Qed.

(* stacking a stack with further files = stacking the flattened list *)
Lemma stack_assoc outer inner ps qs :
  Forall (part_ok outer inner) ps ->
  concat_at outer inner ((sumn (map fst ps), concat_at outer inner ps) :: qs)
  = concat_at outer inner (ps ++ qs).
Proof.
  intros H. unfold concat_at at 1 3. apply flat_map_ext_in. intros o Ho. apply in_seq in Ho.
  simpl. rewrite flat_map_app. f_equal. unfold concat_at.
  rewrite chunk_flat_map_const with (x0 := 0).
  - rewrite seq_nth by lia. reflexivity.
  - intros o' Ho'. apply in_seq in Ho'. apply block_length with (outer := outer); [exact H|lia].
  - rewrite seq_length. lia.
Qed.

(* along the leading axis the piece is the C02 orthogonal slice with a unit-stride selector *)
Lemma piece_is_oslice_axis0 n sh c0 len d :
  length d = n * prodn sh -> c0 + len <= n ->
  piece_at 1 (prodn sh) n c0 len d
  = oslice (n :: sh) (RSlice (seq c0 len) :: map full_sel sh) d.
Proof.
  intros Hd Hc. unfold piece_at. simpl. rewrite app_nil_r.
  rewrite flat_map_ext_in with (g := fun i => chunk (prodn sh) i d).
  - rewrite chunks_range. f_equal. f_equal. apply chunk_0_all. exact Hd.
  - intros i Hi. apply in_seq in Hi. apply oslice_full.
    apply chunk_length. rewrite Hd. nia.
Qed.

End P.
