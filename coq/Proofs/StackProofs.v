(* Lemmas for C04 (Model/Stack.v). *)
From PNC Require Import Base.Util Base.ArrFlat Model.Slice Model.Stack Proofs.ArrFlatProofs Proofs.SliceProofs.
From Coq Require Import Arith.
Set Default Timeout 30.

Section P.
Context {A : Type}.
Implicit Types d : list A.

(* consecutive sub-blocks reassemble *)
Lemma pieces_reassemble inner (e : list A) : forall lens s,
  flat_map (fun p => firstn (snd p * inner) (skipn (fst p * inner) e)) (extents s lens)
  = firstn (sumn lens * inner) (skipn (s * inner) e).
Proof.
  induction lens as [|l lens IH]; intros s; simpl; [reflexivity|].
  rewrite IH. change (sumn (l :: lens)) with (l + sumn lens).
  replace ((l + sumn lens) * inner) with (l * inner + sumn lens * inner) by lia.
  rewrite firstn_add. f_equal. rewrite skipn_skipn.
  replace ((s + l) * inner) with (s * inner + l * inner) by lia. reflexivity.
Qed.

Lemma piece_length outer inner n c0 len d :
  length d = outer * (n * inner) -> c0 + len <= n ->
  forall o, o < outer ->
  length (firstn (len * inner) (skipn (c0 * inner) (chunk (n * inner) o d))) = len * inner.
Proof.
  intros Hd Hc o Ho. rewrite firstn_length, skipn_length, chunk_length; [nia|].
  rewrite Hd. nia.
Qed.

Lemma extents_bound lens : forall s e, In e (extents s lens) -> fst e + snd e <= s + sumn lens.
Proof.
  induction lens as [|l lens IH]; intros s e H; simpl in *; [contradiction|].
  destruct H as [<-|H]; simpl; [lia|]. apply IH in H. lia.
Qed.

(* stack (split a) = a, any axis position, any partition *)
Lemma stack_split outer inner n lens d :
  length d = outer * (n * inner) -> sumn lens = n ->
  concat_at outer inner (split_at outer inner n lens d) = d.
Proof.
  intros Hd Hs. unfold concat_at, split_at.
  rewrite flat_map_ext_in with (g := fun o => chunk (n * inner) o d).
  - apply chunks_all. rewrite Hd. lia.
  - intros o Ho. apply in_seq in Ho. rewrite flat_map_map. simpl.
    rewrite flat_map_ext_in with
      (g := fun p => firstn (snd p * inner) (skipn (fst p * inner) (chunk (n * inner) o d))).
    + rewrite pieces_reassemble. simpl. rewrite Hs. apply firstn_all2.
      rewrite chunk_length; [lia|]. rewrite Hd. nia.
    + intros e He. unfold piece_at.
      rewrite chunk_flat_map_const with (x0 := 0).
      * rewrite seq_nth by lia. reflexivity.
      * intros o' Ho'. apply in_seq in Ho'. apply piece_length with (outer := outer); [exact Hd| |lia].
        apply extents_bound in He. lia.
      * rewrite seq_length. lia.
Qed.

Definition part_ok (outer inner : nat) (p : nat * list A) : Prop :=
  length (snd p) = outer * (fst p * inner).

Lemma block_length outer inner parts o :
  Forall (part_ok outer inner) parts -> o < outer ->
  length (flat_map (fun p => chunk (fst p * inner) o (snd p)) parts) = sumn (map fst parts) * inner.
Proof.
  intros H Ho. induction H as [|p parts Hp _ IH]; simpl; [reflexivity|].
  rewrite app_length, IH, chunk_length; [lia|]. unfold part_ok in Hp. rewrite Hp. nia.
Qed.

Lemma stack_length outer inner parts :
  Forall (part_ok outer inner) parts ->
  length (concat_at outer inner parts) = outer * (sumn (map fst parts) * inner).
Proof.
  intros H. unfold concat_at.
  rewrite flat_map_length_const with (k := sumn (map fst parts) * inner).
  - now rewrite seq_length.
  - intros o Ho. apply in_seq in Ho. apply block_length with (outer := outer); [exact H|lia].
Qed.

(* slicing the stack at the extent of a part gives that part back *)
Lemma slice_stack_piece outer inner before p after :
  Forall (part_ok outer inner) (before ++ p :: after) ->
  piece_at outer inner (sumn (map fst (before ++ p :: after))) (sumn (map fst before)) (fst p)
           (concat_at outer inner (before ++ p :: after)) = snd p.
Proof.
  intros H. unfold piece_at.
  assert (Hp : part_ok outer inner p).
  { rewrite Forall_forall in H. apply H. apply in_or_app. right. now left. }
  rewrite flat_map_ext_in with (g := fun o => chunk (fst p * inner) o (snd p)).
  - apply chunks_all. unfold part_ok in Hp. rewrite Hp. lia.
  - intros o Ho. apply in_seq in Ho. unfold concat_at.
    rewrite chunk_flat_map_const with (x0 := 0).
    + rewrite seq_nth by lia. simpl. rewrite flat_map_app. simpl.
      assert (Hb : Forall (part_ok outer inner) before) by (apply Forall_app in H; tauto).
      rewrite skipn_app_exact by (apply block_length with (outer := outer); [exact Hb|lia]).
      apply firstn_app_exact. apply chunk_length. unfold part_ok in Hp. rewrite Hp. nia.
    + intros o' Ho'. apply in_seq in Ho'. apply block_length with (outer := outer); [exact H|lia].
    + rewrite seq_length. lia.
Qed.

Lemma stack_single outer inner n d :
  length d = outer * (n * inner) -> concat_at outer inner [(n, d)] = d.
Proof.
  intros Hd. unfold concat_at. simpl.
  rewrite flat_map_ext with (g := fun o => chunk (n * inner) o d) by (intros; apply app_nil_r).
  apply chunks_all. rewrite Hd. lia.
Qed.

(* stacking a stack with further files = stacking the flattened list *)
Lemma stack_assoc outer inner ps qs :
  Forall (part_ok outer inner) ps ->
  concat_at outer inner ((sumn (map fst ps), concat_at outer inner ps) :: qs)
  = concat_at outer inner (ps ++ qs).
Proof.
  intros H. unfold concat_at at 1 3. apply flat_map_ext_in. intros o Ho. apply in_seq in Ho.
  simpl. rewrite flat_map_app. f_equal. unfold concat_at.
  rewrite chunk_flat_map_const with (x0 := 0).
  - rewrite seq_nth by lia. reflexivity.
  - intros o' Ho'. apply in_seq in Ho'. apply block_length with (outer := outer); [exact H|lia].
  - rewrite seq_length. lia.
Qed.

(* along the leading axis the piece is the C02 orthogonal slice with a unit-stride selector *)
Lemma piece_is_oslice_axis0 n sh c0 len d :
  length d = n * prodn sh -> c0 + len <= n ->
  piece_at 1 (prodn sh) n c0 len d
  = oslice (n :: sh) (RSlice (seq c0 len) :: map full_sel sh) d.
Proof.
  intros Hd Hc. unfold piece_at. simpl. rewrite app_nil_r.
  rewrite flat_map_ext_in with (g := fun i => chunk (prodn sh) i d).
  - rewrite chunks_range. f_equal. f_equal. apply chunk_0_all. exact Hd.
  - intros i Hi. apply in_seq in Hi. apply oslice_full.
    apply chunk_length. rewrite Hd. nia.
Qed.

(* blocks of m cells, K per super-block: enumerating all p*K blocks = enumerating the K blocks
   of every super-block *)
Lemma blocks_regroup {B} (F : list A -> list B) m K p d :
  length d = p * (K * m) ->
  flat_map (fun o => F (chunk m o d)) (seq 0 (p * K))
  = flat_map (fun i => flat_map (fun o' => F (chunk m o' (chunk (K * m) i d))) (seq 0 K)) (seq 0 p).
Proof.
  intros Hd.
  set (pcs := flat_map (fun i => map (fun o' => chunk m o' (chunk (K * m) i d)) (seq 0 K)) (seq 0 p)).
  assert (Hflat : d = flat_map (fun x => x) pcs).
  { unfold pcs. rewrite flat_map_flat_map.
    rewrite flat_map_ext_in with (g := fun i => chunk (K * m) i d).
    - symmetry. apply chunks_all. exact Hd.
    - intros i Hi. apply in_seq in Hi. rewrite flat_map_map. apply chunks_all.
      apply chunk_length. rewrite Hd. nia. }
  assert (Hlen : length pcs = p * K).
  { unfold pcs. rewrite flat_map_length_const with (k := K); [now rewrite seq_length|].
    intros i _. now rewrite map_length, seq_length. }
  assert (Hpc : forall x, In x pcs -> length x = m).
  { intros x Hx. unfold pcs in Hx. apply in_flat_map in Hx as [i [Hi Hx]].
    apply in_map_iff in Hx as [o' [<- Ho]]. apply in_seq in Hi. apply in_seq in Ho.
    apply chunk_length. rewrite chunk_length; [nia|]. rewrite Hd. nia. }
  rewrite <- Hlen.
  rewrite flat_map_ext_in with (g := fun o => F (nth o pcs [])).
  2:{ intros o Ho. apply in_seq in Ho. f_equal. rewrite Hflat at 1.
      apply (chunk_flat_map_const (fun x : list A => x)); [exact Hpc|lia]. }
  rewrite (flat_map_seq_nth F [] pcs).
  unfold pcs. rewrite flat_map_flat_map. apply flat_map_ext. intros i.
  rewrite flat_map_map. reflexivity.
Qed.

(* at ANY axis position the piece is the C02 orthogonal slice with a unit-stride selector *)
Lemma piece_is_oslice pre : forall n post c0 len d,
  length d = prodn pre * (n * prodn post) -> c0 + len <= n ->
  piece_at (prodn pre) (prodn post) n c0 len d
  = oslice (pre ++ n :: post) (axis_sel pre post c0 len) d.
Proof.
  induction pre as [|p pre IH]; intros n post c0 len d Hd Hc.
  - simpl in Hd. unfold axis_sel. simpl app. change (prodn []) with 1.
    apply piece_is_oslice_axis0; [lia|exact Hc].
  - unfold axis_sel. cbn [map app oslice full_sel rindices].
    fold (axis_sel pre post c0 len).
    assert (HM : prodn (pre ++ n :: post) = prodn pre * (n * prodn post))
      by (rewrite prodn_app; reflexivity).
    rewrite HM.
    rewrite flat_map_ext_in with
      (g := fun i => piece_at (prodn pre) (prodn post) n c0 len
                       (chunk (prodn pre * (n * prodn post)) i d)).
    2:{ intros i Hi. apply in_seq in Hi. symmetry. apply IH; [|exact Hc].
        apply chunk_length. rewrite Hd. simpl. nia. }
    unfold piece_at. change (prodn (p :: pre)) with (p * prodn pre).
    apply (blocks_regroup
             (fun b => firstn (len * prodn post) (skipn (c0 * prodn post) b))
             (n * prodn post) (prodn pre) p d).
    rewrite Hd. simpl. ring.
Qed.

(* hence: stacking the orthogonal unit-stride slices of an array along any axis, in order,
   reproduces the array *)
Lemma stack_of_slices pre n post lens d :
  length d = prodn pre * (n * prodn post) -> sumn lens = n ->
  concat_at (prodn pre) (prodn post)
    (map (fun e => (snd e, oslice (pre ++ n :: post) (axis_sel pre post (fst e) (snd e)) d))
         (extents 0 lens)) = d.
Proof.
  intros Hd Hs.
  transitivity (concat_at (prodn pre) (prodn post) (split_at (prodn pre) (prodn post) n lens d));
    [|apply stack_split; assumption].
  unfold split_at. f_equal. apply map_ext_in. intros e He. f_equal.
  symmetry. apply piece_is_oslice; [exact Hd|]. apply extents_bound in He. lia.
Qed.

(* slicing the stack of any files (orthogonal slice model of C02) at the extent of one of them
   gives that file back, at any axis position *)
Lemma slice_of_stack_oslice pre post before p after :
  Forall (part_ok (prodn pre) (prodn post)) (before ++ p :: after) ->
  oslice (pre ++ sumn (map fst (before ++ p :: after)) :: post)
         (axis_sel pre post (sumn (map fst before)) (fst p))
         (concat_at (prodn pre) (prodn post) (before ++ p :: after)) = snd p.
Proof.
  intros H. rewrite <- piece_is_oslice.
  - apply slice_stack_piece. exact H.
  - apply stack_length. exact H.
  - rewrite map_app, <- (Nat.add_0_r (sumn (map fst before) + fst p)).
    assert (G : forall a b, sumn (a ++ b) = sumn a + sumn b)
      by (induction a; intros; simpl; [reflexivity|rewrite IHa; lia]).
    rewrite G. simpl. lia.
Qed.

(* ---- concatenation is characterised by its pieces ---- *)

Lemma split_from_pieces outer inner N d : forall parts s,
  map (fun e => piece_at outer inner N (fst e) (snd e) d) (extents s (map fst parts)) = map snd parts ->
  map (fun e => (snd e, piece_at outer inner N (fst e) (snd e) d)) (extents s (map fst parts)) = parts.
Proof.
  induction parts as [|[l x] parts IH]; intros s H; simpl in *; [reflexivity|].
  injection H as H1 H2. rewrite H1. f_equal. apply IH. exact H2.
Qed.

(* any array of the stacked size whose slices at the parts' extents are the parts IS the stack:
   concat_at is the only function with the "slice gives the piece back" property *)
Lemma concat_unique outer inner parts d :
  length d = outer * (sumn (map fst parts) * inner) ->
  map (fun e => piece_at outer inner (sumn (map fst parts)) (fst e) (snd e) d)
      (extents 0 (map fst parts)) = map snd parts ->
  concat_at outer inner parts = d.
Proof.
  intros Hd H.
  rewrite <- (split_from_pieces outer inner _ d parts 0 H) at 1.
  apply (stack_split outer inner (sumn (map fst parts)) (map fst parts) d Hd). reflexivity.
Qed.

End P.
