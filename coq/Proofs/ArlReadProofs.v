(* C20 file layer: the model of the (repaired) library reader returns the ideal view on every
   spec-encoded uniform content of its domain. *)
From PNC Require Import Base.Util Model.Arl Model.ArlFile Proofs.ArlProofs Proofs.ArlFileProofs.
Local Open Scope Z_scope.

(* ---- slices ----------------------------------------------------------------------------- *)
Lemma slice_mid (a x b : list Z) : slice (lenZ a) (lenZ x) (a ++ x ++ b) = x.
Proof.
  unfold slice, lenZ. rewrite !Nat2Z.id. rewrite skipn_app, Nat.sub_diag, skipn_all, skipn_O. cbn [app].
  rewrite firstn_app, Nat.sub_diag, firstn_all, firstn_O, app_nil_r. reflexivity.
Qed.
Lemma slice_mid' (a x b : list Z) off len :
  off = lenZ a -> len = lenZ x -> slice off len (a ++ x ++ b) = x.
Proof. intros -> ->. apply slice_mid. Qed.

Lemma skipn_skipn' {A} (a b : nat) (l : list A) : skipn a (skipn b l) = skipn (b + a) l.
Proof.
  revert l; induction b as [|b IH]; intros l; [reflexivity|].
  destruct l; [now rewrite !skipn_nil|]. cbn [skipn Nat.add]. apply IH.
Qed.

Lemma slice_slice off len a n bs :
  0 <= off -> 0 <= a -> 0 <= n -> a + n <= len ->
  slice (off + a) n bs = slice a n (slice off len bs).
Proof.
  intros H0 Ha Hn Hl. unfold slice.
  rewrite Z2Nat.inj_add by lia. rewrite <- skipn_skipn'.
  rewrite skipn_firstn_comm, firstn_firstn.
  f_equal. lia.
Qed.

Lemma map_seq_nth {A B} (f : nat -> B) (g : A -> B) (l : list A) (d : A) :
  (forall t, (t < length l)%nat -> f t = g (nth t l d)) -> map f (seq 0 (length l)) = map g l.
Proof.
  intros H. apply (nth_ext _ _ (f 0%nat) (g d)).
  - now rewrite !map_length, seq_length.
  - intros n Hn. rewrite map_length, seq_length in Hn.
    rewrite (map_nth f), (map_nth g), seq_nth by exact Hn. cbn. apply H, Hn.
Qed.

Lemma same_layout_refl p : same_layout p p = true.
Proof.
  unfold same_layout. rewrite !Z.eqb_refl. cbn [andb].
  induction (p_levels p) as [|a la IH]; cbn [list_eqb]; [reflexivity|]. now rewrite Nat.eqb_refl.
Qed.

Section Reader.
Variables (p0 : period_t) (rest : list period_t).
Let all := p0 :: rest.
Hypothesis Hwf : forallb wf_period all = true.
Hypothesis Hsl : forallb (same_layout p0) rest = true.
Let m := Z.to_nat (1 + nrecs (p_levels p0)).
Let n := Z.to_nat (recl p0).

Lemma Hsame : Forall (fun q => same_layout p0 q = true) all.
Proof.
  constructor; [apply same_layout_refl|]. apply Forall_forall. rewrite forallb_forall in Hsl. exact Hsl.
Qed.
Lemma Hwfall : Forall (fun q => wf_period q = true) all.
Proof. apply Forall_forall. rewrite forallb_forall in Hwf. exact Hwf. Qed.
Lemma wf0 : wf_period p0 = true.
Proof. pose proof Hwfall as H. inversion H; assumption. Qed.
Lemma recl_pos : 50 <= recl p0.
Proof. destruct (wf_period_parts p0 wf0) as (_&_&_&_&Hx&Hy&_). unfold recl, ncell. nia. Qed.

Lemma Hper : Forall (fun l => length l = m) (map period_records all).
Proof.
  apply Forall_forall. intros l Hin. apply in_map_iff in Hin as (q & <- & Hin).
  pose proof Hsame as S. pose proof Hwfall as W. rewrite Forall_forall in S, W.
  destruct (period_records_len q (W q Hin)) as [_ L].
  destruct (same_layout_parts p0 q (S q Hin)) as (_ & _ & E & _).
  pose proof (nrecs_nonneg (p_levels p0)). unfold m, lenZ in *. rewrite <- E. lia.
Qed.
Lemma Hrec : Forall (fun r => length r = n) (file_records all).
Proof.
  unfold file_records. apply Forall_concat. apply Forall_forall. intros l Hin.
  apply in_map_iff in Hin as (q & <- & Hin).
  pose proof Hsame as S. pose proof Hwfall as W. rewrite Forall_forall in S, W.
  destruct (period_records_len q (W q Hin)) as [F _].
  destruct (same_layout_parts p0 q (S q Hin)) as (E1 & E2 & _).
  pose proof recl_pos.
  eapply Forall_impl; [|exact F]. intros r Hr. cbn beta in Hr.
  unfold n, recl, ncell, lenZ in *. rewrite E1, E2 in Hr. lia.
Qed.

Lemma file_record (t j : nat) : (t < length all)%nat -> (j < m)%nat ->
  slice (Z.of_nat t * period_len p0 + recl p0 * Z.of_nat j) (recl p0) (enc all)
  = nth j (period_records (nth t all p0)) [].
Proof.
  intros Ht Hj. pose proof recl_pos. pose proof (nrecs_nonneg (p_levels p0)).
  assert (Hoff : Z.to_nat (Z.of_nat t * period_len p0 + recl p0 * Z.of_nat j) = ((t * m + j) * n)%nat)
    by (unfold period_len, m, n; nia).
  unfold slice. rewrite Hoff. fold n. rewrite enc_file_records.
  rewrite (slice_concat_uniform n (file_records all) (t * m + j) Hrec).
  2:{ unfold file_records. rewrite (length_concat_uniform m _ Hper), map_length. nia. }
  unfold file_records.
  rewrite (nth_concat_uniform m [] (map period_records all) t j Hper) by (try rewrite map_length; assumption).
  rewrite (nth_indep _ [] (period_records p0)) by (rewrite map_length; exact Ht).
  rewrite map_nth. reflexivity.
Qed.

Lemma enc_all_len : lenZ (enc all) = Z.of_nat (length all) * period_len p0.
Proof.
  pose proof recl_pos. pose proof (nrecs_nonneg (p_levels p0)).
  rewrite enc_file_records. unfold lenZ.
  rewrite (length_concat_uniform n _ Hrec). unfold file_records.
  rewrite (length_concat_uniform m _ Hper), map_length. unfold period_len, m, n. nia.
Qed.
End Reader.

Lemma slice_app_skip (c l : list Z) o len : 0 <= o -> slice (lenZ c + o) len (c ++ l) = slice o len l.
Proof.
  intros Ho. unfold slice, lenZ. rewrite Z2Nat.inj_add, Nat2Z.id by lia.
  rewrite <- skipn_skipn'. rewrite skipn_app, Nat.sub_diag, skipn_all, skipn_O. reflexivity.
Qed.
Lemma lenZ_app {A} (a b : list A) : lenZ (a ++ b) = lenZ a + lenZ b.
Proof. unfold lenZ. rewrite app_length. lia. Qed.
Lemma lenZ_nonneg {A} (a : list A) : 0 <= lenZ a.
Proof. unfold lenZ. lia. Qed.

Lemma slice_chunk (chunks : list (list Z)) : forall k, (k < length chunks)%nat ->
  slice (lenZ (concat (firstn k chunks))) (lenZ (nth k chunks [])) (concat chunks) = nth k chunks [].
Proof.
  induction chunks as [|c cs IH]; intros k Hk; [cbn in Hk; lia|].
  destruct k as [|k]; cbn [firstn concat nth].
  - apply (slice_mid [] c (concat cs)).
  - rewrite lenZ_app, slice_app_skip by apply lenZ_nonneg. apply IH. cbn in Hk. lia.
Qed.

Definition index_chunks (p : period_t) (R : list Z) : list (list Z) :=
  [p_time p; fmtI 2 0; p_grid p; indx; fmtI 4 0; zero_e14; zero_e14; p_fixed p;
   fmtI 3 (p_nx p mod 1000); fmtI 3 (p_ny p mod 1000); fmtI 3 (lenZ (p_levels p)); p_vsys2 p; fmtI 4 (lenh p);
   enc_table (p_levels p); p_pad p; R].
Lemma index_chunks_eq p R : enc_index p ++ R = concat (index_chunks p R).
Proof. unfold enc_index, index_chunks. cbn [concat]. rewrite app_nil_r, <- !app_assoc. reflexivity. Qed.

Lemma index_fields p R : wf_period p = true ->
  let bs := enc_index p ++ R in
  slice 0 10 bs = p_time p /\ slice 12 2 bs = p_grid p
  /\ slice 143 3 bs = fmtI 3 (p_nx p mod 1000) /\ slice 146 3 bs = fmtI 3 (p_ny p mod 1000)
  /\ slice 149 3 bs = fmtI 3 (lenZ (p_levels p)) /\ slice 154 4 bs = fmtI 4 (lenh p)
  /\ slice 158 (lenh p - 108) bs = enc_table (p_levels p).
Proof.
  intros H. destruct (wf_period_parts p H) as (Ht & Hg & Hf & Hv & Hx & Hy & Hz & Hh & Hfit & Hpad & Hl).
  pose proof (table_len_nonneg (p_levels p)) as Htl.
  destruct (fmt2 0 ltac:(lia)) as [L0 _]. destruct (fmt4 0 ltac:(lia)) as [L1 _].
  destruct (wf_grid p H) as (_ & _ & Mx & My).
  destruct (fmt3 (p_nx p mod 1000) ltac:(lia)) as [L2 _]. destruct (fmt3 (p_ny p mod 1000) ltac:(lia)) as [L3 _].
  destruct (fmt3 (lenZ (p_levels p)) ltac:(unfold lenZ in *; lia)) as [L4 _].
  destruct (fmt4 (lenh p) ltac:(unfold lenh in *; lia)) as [L5 _].
  pose proof (enc_table_len _ _ Hl) as Lt.
  cbn zeta. rewrite index_chunks_eq.
  assert (K : forall k off len, (k < 16)%nat ->
            off = lenZ (concat (firstn k (index_chunks p R))) -> len = lenZ (nth k (index_chunks p R) []) ->
            slice off len (concat (index_chunks p R)) = nth k (index_chunks p R) []).
  { intros k off len Hk -> ->. apply slice_chunk. exact Hk. }
  repeat split.
  - apply (K 0%nat); [lia|reflexivity|]. cbn [nth index_chunks]. unfold lenZ. lia.
  - apply (K 2%nat); [lia| |]; cbn [firstn concat nth index_chunks]; unfold lenZ; rewrite ?app_length; cbn [length]; lia.
  - apply (K 8%nat); [lia| |]; cbn [firstn concat nth index_chunks]; unfold lenZ; rewrite ?app_length; cbn [length indx zero_e14]; lia.
  - apply (K 9%nat); [lia| |]; cbn [firstn concat nth index_chunks]; unfold lenZ; rewrite ?app_length; cbn [length indx zero_e14]; lia.
  - apply (K 10%nat); [lia| |]; cbn [firstn concat nth index_chunks]; unfold lenZ in *; rewrite ?app_length; cbn [length indx zero_e14]; lia.
  - apply (K 12%nat); [lia| |]; cbn [firstn concat nth index_chunks]; unfold lenZ in *; rewrite ?app_length; cbn [length indx zero_e14]; lia.
  - apply (K 13%nat); [lia| |]; cbn [firstn concat nth index_chunks]; unfold lenZ in *; rewrite ?app_length; cbn [length indx zero_e14]; unfold lenh in *; lia.
Qed.

Definition rec_chunks time grid li (v : var_t) : list (list Z) :=
  [time; fmtI 2 li; grid; v_key v; fmtI 4 (v_exp v); v_prec v; v_var1 v; v_data v].
Lemma rec_chunks_eq time grid li v : enc_rec time grid li v = concat (rec_chunks time grid li v).
Proof. unfold enc_rec, rec_chunks. cbn [concat]. rewrite app_nil_r. reflexivity. Qed.

Lemma read_rec_enc time grid li nc v off bs :
  length time = 10%nat -> length grid = 2%nat -> 0 <= li <= 99 -> 0 <= nc -> wf_var nc v = true ->
  0 <= off -> slice off (50 + nc) bs = enc_rec time grid li v ->
  read_rec std_sizes nc bs off = Some (rec_of v).
Proof.
  intros Ht Hg Hl Hnc H Ho Hs. destruct (wf_var_parts _ _ H) as (Hk & Hc & He & Hp & H1 & Hd).
  destruct (fmt2 li Hl) as [L0 _]. destruct (fmt4 (v_exp v) He) as [L1 P1].
  unfold read_rec, std_sizes. cbn [ls_off_exp ls_off_var1 ls_vhd].
  rewrite (slice_slice off (50 + nc) 18 4), (slice_slice off (50 + nc) 36 14), (slice_slice off (50 + nc) 50 nc) by lia.
  rewrite Hs, rec_chunks_eq.
  assert (K : forall k o len, (k < 8)%nat ->
            o = lenZ (concat (firstn k (rec_chunks time grid li v))) -> len = lenZ (nth k (rec_chunks time grid li v) []) ->
            slice o len (concat (rec_chunks time grid li v)) = nth k (rec_chunks time grid li v) []).
  { intros k o len Hk' -> ->. apply slice_chunk. exact Hk'. }
  rewrite (K 4%nat 18 4), (K 6%nat 36 14), (K 7%nat 50 nc);
    try lia; try (cbn [firstn concat nth rec_chunks]; unfold lenZ in *; rewrite ?app_length; cbn [length]; lia).
  cbn [nth rec_chunks]. rewrite P1. reflexivity.
Qed.

Definition dv : var_t := Var [] 0 0 [] [] [].
Definition dl : lvl_t := Lvl [] [].

Lemma find_var_index k vs : forall i, index_of k (map v_key vs) = Some i ->
  find_var k vs = Some (nth i vs dv) /\ (i < length vs)%nat.
Proof.
  unfold find_var. induction vs as [|v vs IH]; intros i H; cbn [map index_of find nth length] in *; [discriminate|].
  destruct (zlist_eqb k (v_key v)).
  - injection H as <-. split; [reflexivity|lia].
  - destruct (index_of k (map v_key vs)) as [j|]; [|discriminate]. cbn [option_map] in H. injection H as <-.
    destruct (IH j eq_refl) as [E L]. split; [exact E|lia].
Qed.
Lemma find_var_none k vs : index_of k (map v_key vs) = None -> find_var k vs = None.
Proof.
  unfold find_var. induction vs as [|v vs IH]; intros H; cbn [map index_of find] in *; [reflexivity|].
  destruct (zlist_eqb k (v_key v)); [discriminate|].
  destruct (index_of k (map v_key vs)); [discriminate|]. apply IH. reflexivity.
Qed.
Lemma map_fst_ent vs : map fst (map ent vs) = map v_key vs.
Proof. rewrite map_map. reflexivity. Qed.

Lemma lay_read (rd : Z -> option librec) k : forall ls b,
  (forall i vi, (i < length ls)%nat -> (vi < length (l_vars (nth i ls dl)))%nat ->
      rd (b + nrecs (firstn i ls) + Z.of_nat vi) = Some (rec_of (nth vi (l_vars (nth i ls dl)) dv))) ->
  map rd (lay_positions k b (map lent ls)) =
  concat (map (fun l => match find_var k (l_vars l) with Some v => [Some (rec_of v)] | None => [] end) ls).
Proof.
  induction ls as [|l ls IH]; intros b H; cbn [map lay_positions concat]; [reflexivity|].
  unfold lent at 1. rewrite map_fst_ent, map_app. f_equal.
  - destruct (index_of k (map v_key (l_vars l))) as [i|] eqn:E.
    + destruct (find_var_index k _ i E) as [F L]. rewrite F. cbn [map].
      specialize (H 0%nat i ltac:(cbn; lia) L). cbn [firstn nth] in H.
      change (nrecs []) with 0 in H. rewrite Z.add_0_r in H. rewrite H. reflexivity.
    + rewrite (find_var_none k _ E). reflexivity.
  - unfold lenZ. rewrite map_length. apply IH. intros i vi Hi Hv.
    specialize (H (S i) vi ltac:(cbn; lia) Hv). cbn [firstn nth] in H.
    unfold nrecs in *. cbn [map sumZ] in H. rewrite <- H. f_equal.
    assert (Hn : nvars l = Z.of_nat (length (l_vars l))) by reflexivity. lia.
Qed.

Lemma lay_positions_keys k : forall (a b : list lvl_t) base,
  list_eqb (fun x y => zll_eqb (map v_key (l_vars x)) (map v_key (l_vars y))) a b = true ->
  lay_positions k base (map lent a) = lay_positions k base (map lent b).
Proof.
  induction a as [|x a IH]; intros [|y b] base E; cbn [list_eqb] in E; try discriminate; [reflexivity|].
  apply andb_true_iff in E as [E1 E2].
  apply (list_eqb_eq zlist_eqb (list_eqb_eq Z.eqb Z.eqb_eq)) in E1.
  cbn [map lay_positions]. unfold lent at 1 3. rewrite !map_fst_ent, E1.
  assert (EL : lenZ (map ent (l_vars x)) = lenZ (map ent (l_vars y))).
  { unfold lenZ. rewrite !map_length. rewrite <- (map_length v_key (l_vars x)), E1, map_length. reflexivity. }
  rewrite EL, (IH b _ E2). reflexivity.
Qed.

Lemma index_of_none k l : existsb (zlist_eqb k) l = false -> index_of k l = None.
Proof.
  induction l as [|x l IH]; cbn [existsb index_of]; [reflexivity|]. intros H.
  apply orb_false_iff in H as [H1 H2]. rewrite H1, (IH H2). reflexivity.
Qed.
Lemma dedup_in seen l k : In k (dedup seen l) -> In k l.
Proof.
  revert seen. induction l as [|x l IH]; intros seen H; cbn [dedup] in H; [exact H|].
  destruct (existsb (zlist_eqb x) seen); [right; eapply IH; exact H|].
  destruct H as [<-|H]; [left; reflexivity|right; eapply IH; exact H].
Qed.

Lemma nrec_lent ls : sumZ (map (fun l : list Z * list (list Z * Z) => lenZ (snd l)) (map lent ls)) = nrecs ls.
Proof.
  unfold nrecs. rewrite map_map. f_equal. apply map_ext. intros l. unfold lent, nvars, lenZ. cbn [snd].
  now rewrite map_length.
Qed.
Lemma table_len_ge ls : lenZ ls <= table_len ls.
Proof.
  unfold table_len, lenZ. induction ls as [|l ls IH]; cbn [map sumZ length]; [lia|].
  assert (0 <= nvars l) by (unfold nvars, lenZ; lia). lia.
Qed.
Lemma readvardef_table nc ls :
  forallb (wf_lvl nc) ls = true ->
  forallb (fun l => float_ok (l_text l) && negb (blank (l_text l))) ls = true ->
  readvardef (length (enc_table ls)) (enc_table ls) = Some (map lent ls).
Proof.
  intros Hw Hf. pose proof (readvardef_enc nc ls [] (length (enc_table ls)) Hw Hf eq_refl) as R.
  rewrite app_nil_r in R. apply R.
  pose proof (enc_table_len nc ls Hw) as L. pose proof (table_len_ge ls). unfold lenZ in *. lia.
Qed.

Lemma index_of_in k l : In k l -> exists i, index_of k l = Some i.
Proof.
  induction l as [|x l IH]; intros H; [destruct H|]. cbn [index_of].
  destruct (zlist_eqb k x) eqn:E; [exists 0%nat; reflexivity|].
  destruct H as [->|H]; [rewrite zlist_eqb_refl in E; discriminate|].
  destruct (IH H) as [i Hi]. rewrite Hi. exists (S i). reflexivity.
Qed.

Lemma same_keys_refl p : same_keys p p = true.
Proof.
  unfold same_keys. induction (p_levels p) as [|a la IH]; cbn [list_eqb]; [reflexivity|].
  rewrite IH, andb_true_r. apply (list_eqb_eq zlist_eqb (list_eqb_eq Z.eqb Z.eqb_eq)). reflexivity.
Qed.

(* the library's record read at (period t, level li, variable vi) returns that variable *)
Lemma read_at p0 rest (t li vi : nat) :
  forallb wf_period (p0 :: rest) = true -> forallb (same_layout p0) rest = true ->
  (t < length (p0 :: rest))%nat ->
  let p := nth t (p0 :: rest) p0 in
  (li < length (p_levels p))%nat -> (vi < length (l_vars (nth li (p_levels p) dl)))%nat ->
  read_rec std_sizes (ncell p0) (enc (p0 :: rest))
    (Z.of_nat t * period_len p0 + 158 + (lenh p0 - 108) + (50 + ncell p0 - (lenh p0 - 108) - 158)
     + (nrecs (firstn li (p_levels p)) + Z.of_nat vi) * (50 + ncell p0))
  = Some (rec_of (nth vi (l_vars (nth li (p_levels p) dl)) dv)).
Proof.
  intros Hwf Hsl Ht p Hli Hvi.
  pose proof (Hwfall p0 rest Hwf) as W. pose proof (Hsame p0 rest Hsl) as SL. rewrite Forall_forall in W, SL.
  assert (Hin : In p (p0 :: rest)) by (apply nth_In; exact Ht).
  pose proof (W p Hin) as Wp. destruct (same_layout_parts p0 p (SL p Hin)) as (E1 & E2 & E3 & E4).
  destruct (wf_period_parts p Wp) as (Htm & Hgr & _ & _ & Hx & Hy & Hz & _ & _ & _ & Hl).
  pose proof (recl_pos p0 rest Hwf) as Hrl. pose proof (nrecs_nonneg (p_levels p0)) as Hn0.
  pose proof (nrecs_firstn_lt (p_levels p) li vi dl Hli Hvi) as Hlt.
  pose proof (nrecs_nonneg (firstn li (p_levels p))) as Hf0.
  assert (Enc : ncell p = ncell p0) by (unfold ncell; congruence).
  set (v := nth vi (l_vars (nth li (p_levels p) dl)) dv).
  assert (Wv : wf_var (ncell p0) v = true).
  { rewrite <- Enc. rewrite forallb_forall in Hl.
    assert (Hlin : In (nth li (p_levels p) dl) (p_levels p)) by (apply nth_In; exact Hli).
    destruct (wf_lvl_parts _ _ (Hl _ Hlin)) as (_ & _ & Hvs). rewrite forallb_forall in Hvs.
    apply Hvs. apply nth_In. exact Hvi. }
  apply (read_rec_enc (p_time p) (p_grid p) (Z.of_nat li)); try assumption.
  - unfold lenZ in Hz. lia.
  - unfold ncell. destruct (wf_period_parts p0 (wf0 p0 rest Hwf)) as (_&_&_&_&Hx0&Hy0&_). nia.
  - assert (0 <= Z.of_nat t * period_len p0) by (unfold period_len; nia). unfold recl, lenh in *.
    pose proof (table_len_nonneg (p_levels p0)). nia.
  - set (j := (S (Z.to_nat (nrecs (firstn li (p_levels p))) + vi))%nat).
    pose proof (file_record p0 rest Hwf Hsl t j Ht) as FR.
    assert (Hj : (j < Z.to_nat (1 + nrecs (p_levels p0)))%nat) by (unfold j; lia).
    specialize (FR Hj). fold p in FR. unfold recl in FR.
    replace (Z.of_nat t * period_len p0 + 158 + (lenh p0 - 108) + (50 + ncell p0 - (lenh p0 - 108) - 158)
             + (nrecs (firstn li (p_levels p)) + Z.of_nat vi) * (50 + ncell p0))
      with (Z.of_nat t * period_len p0 + (50 + ncell p0) * Z.of_nat j)
      by (assert (Ej : Z.of_nat j = 1 + nrecs (firstn li (p_levels p)) + Z.of_nat vi) by (unfold j; lia); rewrite Ej; ring).
    rewrite FR. unfold period_records, j. cbn [nth].
    rewrite (nth_lvl_records (p_time p) (p_grid p) (p_levels p) 0 dl vi li Hli Hvi). rewrite Z.add_0_l. reflexivity.
Qed.

Theorem impl_read_spec p0 rest :
  forallb wf_period (p0 :: rest) = true -> forallb (same_layout p0) rest = true ->
  forallb (same_keys p0) rest = true ->
  lib_grid_ok p0 = true -> lvl_texts_ok p0 = true -> keys_disjoint p0 = true -> p_levels p0 <> [] ->
  impl_read std_sizes (enc (p0 :: rest)) = spec_view (p0 :: rest).
Proof.
  intros Hwf Hsl Hsk Hg Htx Hd Hne.
  set (all := p0 :: rest).
  pose proof (wf0 p0 rest Hwf) as W0.
  destruct (wf_period_parts p0 W0) as (Htm & Hgr & Hf & Hv & Hx & Hy & Hz & Hh & Hfit & Hpad & Hl).
  pose proof (table_len_nonneg (p_levels p0)) as Htl.
  pose proof (nrecs_nonneg (p_levels p0)) as Hnr.
  pose proof (recl_pos p0 rest Hwf) as Hrl.
  assert (Ebs : enc all = enc_index p0 ++ (enc_lvls (p_time p0) (p_grid p0) 0 (p_levels p0) ++ concat (map enc_period rest))).
  { unfold all, enc. cbn [map concat]. unfold enc_period. now rewrite <- app_assoc. }
  destruct (index_fields p0 (enc_lvls (p_time p0) (p_grid p0) 0 (p_levels p0) ++ concat (map enc_period rest)) W0)
    as (S0 & S12 & S143 & S146 & S149 & S154 & S158). cbn zeta in S0, S12, S143, S146, S149, S154, S158. rewrite <- Ebs in *.
  destruct (fmt4 (lenh p0) ltac:(unfold lenh in *; lia)) as [_ P154].
  destruct (wf_grid p0 W0) as (Gx & Gy & Mx & My). unfold grid_thousands in Gx, Gy.
  destruct (fmt3 (p_nx p0 mod 1000) ltac:(lia)) as [_ P143]. destruct (fmt3 (p_ny p0 mod 1000) ltac:(lia)) as [_ P146].
  destruct (fmt3 (lenZ (p_levels p0)) ltac:(unfold lenZ in *; lia)) as [_ P149].
  unfold lib_grid_ok in Hg. repeat (apply andb_true_iff in Hg as [Hg ?]).
  unfold impl_read. cbn [std_sizes ls_thd ls_vhd ls_off_grid ls_off_nx ls_off_ny ls_off_nz ls_off_lenh].
  rewrite S154, P154. cbn [obind]. rewrite S143, P143. cbn [obind]. rewrite S146, P146. cbn [obind].
  rewrite S149, P149. cbn [obind]. rewrite S12. cbv zeta. rewrite Gx, Gy, S158.
  fold (ncell p0).
  rewrite (readvardef_table (ncell p0) (p_levels p0) Hl Htx). cbn [obind].
  rewrite !nrec_lent.
  replace (158 + (lenh p0 - 108) + (50 + ncell p0 - (lenh p0 - 108) - 158) + nrecs (p_levels p0) * (50 + ncell p0))
    with (period_len p0) by (unfold period_len, recl; ring).
  replace ((0 <=? lenh p0 - 108) && (0 <=? 50 + ncell p0 - (lenh p0 - 108) - 158)) with true
    by (symmetry; rewrite andb_true_iff, !Z.leb_le; unfold lenh in *; lia).
  unfold all in *. clear all. rewrite (enc_all_len p0 rest Hwf Hsl).
  assert (Hpl : 0 < period_len p0) by (unfold period_len; nia).
  replace ((0 <? Z.of_nat (length (p0 :: rest)) * period_len p0) && (Z.of_nat (length (p0 :: rest)) * period_len p0 mod period_len p0 =? 0))
    with true by (symmetry; rewrite andb_true_iff, Z.ltb_lt, Z.eqb_eq, Z.mod_mul by lia; cbn [length]; nia).
  replace ((2 <=? p_nx p0) && (2 <=? p_ny p0)) with true by (symmetry; rewrite andb_true_iff, !Z.leb_le; lia).
  rewrite Z.div_mul, Nat2Z.id by lia.
  destruct (p_levels p0) as [|sfc lays] eqn:El; [congruence|].
  cbn [map]. unfold lent at 1. cbn [guard obind].
  unfold spec_view. rewrite El.
  (* facts about every period *)
  assert (Hkeys : forall t, (t < length (p0 :: rest))%nat ->
            exists sfc_t lays_t, p_levels (nth t (p0 :: rest) p0) = sfc_t :: lays_t
              /\ map v_key (l_vars sfc_t) = map v_key (l_vars sfc)
              /\ list_eqb (fun x y => zll_eqb (map v_key (l_vars x)) (map v_key (l_vars y))) lays lays_t = true).
  { intros t Ht.
    assert (SK : same_keys p0 (nth t (p0 :: rest) p0) = true).
    { destruct t as [|t]; [apply same_keys_refl|]. cbn [nth]. rewrite forallb_forall in Hsk. apply Hsk.
      apply nth_In. cbn in Ht. lia. }
    unfold same_keys in SK. rewrite El in SK.
    destruct (p_levels (nth t (p0 :: rest) p0)) as [|sfc_t lays_t]; cbn [list_eqb] in SK; [discriminate|].
    apply andb_true_iff in SK as [SK1 SK2].
    apply (list_eqb_eq zlist_eqb (list_eqb_eq Z.eqb Z.eqb_eq)) in SK1.
    exists sfc_t, lays_t. repeat split; [symmetry; exact SK1|exact SK2]. }
  f_equal. f_equal.
  - rewrite map_map. reflexivity.
  - apply (map_seq_nth _ p_time (p0 :: rest) p0). intros t Ht.
    pose proof (file_record p0 rest Hwf Hsl t 0 Ht ltac:(pose proof (nrecs_nonneg (p_levels p0)); lia)) as FR. rewrite Z.mul_0_r, Z.add_0_r in FR.
    cbn [period_records nth] in FR.
    rewrite <- (Z.add_0_r (Z.of_nat t * period_len p0)).
    rewrite (slice_slice _ (recl p0) 0 10) by (try lia; nia). rewrite FR.
    assert (Wt : wf_period (nth t (p0 :: rest) p0) = true).
    { pose proof (Hwfall p0 rest Hwf) as W. rewrite Forall_forall in W. apply W, nth_In, Ht. }
    destruct (index_fields _ [] Wt) as (T0 & _). cbn zeta in T0. rewrite app_nil_r in T0. exact T0.
  - rewrite map_fst_ent, map_app. f_equal.
    + apply map_ext_in. intros k Hin. destruct (index_of_in k _ Hin) as [i Hi]. rewrite Hi. f_equal.
      apply (map_seq_nth _ _ (p0 :: rest) p0). intros t Ht.
      destruct (Hkeys t Ht) as (sfc_t & lays_t & Et & Ek & _).
      rewrite Et. cbn [hd]. rewrite <- Ek in Hi. destruct (find_var_index k _ i Hi) as [F L]. rewrite F. cbn [option_map].
      pose proof (read_at p0 rest t 0 i Hwf Hsl Ht) as RA. cbn zeta in RA. rewrite Et in RA.
      cbn [length firstn nth] in RA. change (nrecs []) with 0 in RA. rewrite Z.add_0_l in RA.
      rewrite (RA ltac:(lia) L). reflexivity.
    + rewrite map_map.
      replace (map (fun x : lvl_t => map fst (snd (lent x))) lays) with (map (fun l : lvl_t => map v_key (l_vars l)) lays)
        by (apply map_ext; intros l; unfold lent; cbn [snd]; now rewrite map_fst_ent).
      apply map_ext_in. intros k Hin. apply dedup_in in Hin.
      unfold keys_disjoint in Hd. rewrite El in Hd. rewrite forallb_forall in Hd.
      specialize (Hd k Hin). apply negb_true_iff in Hd. rewrite (index_of_none k _ Hd). f_equal.
      apply (map_seq_nth _ _ (p0 :: rest) p0). intros t Ht.
      destruct (Hkeys t Ht) as (sfc_t & lays_t & Et & Ek & Elay).
      rewrite Et. cbn [tl]. rewrite (lay_positions_keys k lays lays_t _ Elay).
      apply lay_read. intros i vi Hi Hvv.
      pose proof (read_at p0 rest t (S i) vi Hwf Hsl Ht) as RA. cbn zeta in RA. rewrite Et in RA.
      cbn [length firstn nth] in RA. specialize (RA ltac:(lia) Hvv).
      rewrite <- RA. f_equal.
      assert (E8 : lenZ (map ent (l_vars sfc)) = nvars sfc_t).
      { unfold nvars, lenZ. rewrite map_length, <- (map_length v_key (l_vars sfc)), <- Ek, map_length. reflexivity. }
      rewrite E8. unfold nrecs. cbn [map sumZ]. ring.
Qed.

(* ---- the repaired writer: its output is the encoding of a well-formed content -------------- *)
Lemma pack_bytes_length h rows : Forall (fun r => r <> []) rows -> length (pack_bytes h rows) = length rows.
Proof.
  intros Hne. pose proof (pack_rows_shape h rows Hne) as S.
  unfold pack_bytes, raw_codes. rewrite !map_length.
  rewrite <- (map_length (@length _) (pack_rows h rows)), S, map_length. reflexivity.
Qed.

Ltac split_andb H := repeat (apply andb_true_iff in H as [H ?]).
Ltac boolfacts := repeat match goal with
  | X : len_is _ _ = true |- _ => apply len_is_eq in X
  | X : (_ <=? _) = true |- _ => apply Z.leb_le in X
  | X : (_ <? _) = true |- _ => apply Z.ltb_lt in X
  | X : (_ =? _) = true |- _ => apply Z.eqb_eq in X end.

Lemma wf_wfield_parts nx ny f : wf_wfield nx ny f = true ->
  length (wf_key f) = 4%nat /\ 0 < wf_h f /\ -999 <= wf_exp f <= 9999
  /\ length (wf_prec f) = 14%nat /\ length (wf_var1 f) = 14%nat /\ rect (wf_rows f) = true
  /\ lenZ (wf_rows f) = ny /\ Forall (fun r => lenZ r = nx) (wf_rows f)
  /\ rmax (wf_rows f) <= 254 * wf_h f.
Proof.
  unfold wf_wfield. intros H. split_andb H.
  assert (Hrange : rmax (wf_rows f) <= 254 * wf_h f).
  { match goal with X : (_ || _) = true |- _ => apply orb_true_iff in X as [X|X] end.
    - apply Z.eqb_eq in H0. match goal with X : (0 <? _) = true |- _ => apply Z.ltb_lt in X end. lia.
    - apply andb_true_iff in H0 as [Hp He]. apply Z.ltb_lt in Hp. apply Z.eqb_eq in He.
      pose proof (fixed_rule_covers _ Hp). lia. }
  assert (F : Forall (fun r => lenZ r = nx) (wf_rows f)).
  { apply Forall_forall. match goal with X : forallb _ _ = true |- _ => rewrite forallb_forall in X; intros r Hin; apply Z.eqb_eq, X, Hin end. }
  boolfacts. repeat split; try assumption; lia.
Qed.
Lemma wf_wperiod_parts nx ny p : wf_wperiod nx ny p = true ->
  length (wp_time p) = 10%nat /\ lenZ (wp_levels p) <= 99
  /\ 108 + table_len (write_levels p) <= 9999 /\ 108 + table_len (write_levels p) <= nx * ny
  /\ forall l, In l (wp_levels p) -> length (fst l) = 6%nat /\ lenZ (snd l) <= 99
       /\ forall f, In f (snd l) -> wf_wfield nx ny f = true.
Proof.
  unfold wf_wperiod. intros H. split_andb H.
  match goal with X : forallb _ _ = true |- _ => rewrite forallb_forall in X; rename X into FA end.
  boolfacts. repeat split; try assumption;
    match goal with Hin : In ?l (wp_levels p) |- _ => pose proof (FA l Hin) as Hl; split_andb Hl; boolfacts end;
    try assumption.
  intros f Hf.
  match goal with X : forallb (wf_wfield nx ny) _ = true |- _ => rewrite forallb_forall in X; apply X, Hf end.
Qed.
Lemma wf_winput_parts w : wf_winput w = true ->
  length (wi_grid w) = 2%nat /\ length (wi_fixed w) = 93%nat /\ length (wi_vsys2 w) = 2%nat
  /\ 0 <= wi_nx w <= 26999 /\ 0 <= wi_ny w <= 26999
  /\ grid_thousands (nth 0 (wi_grid w) 0) = 1000 * (wi_nx w / 1000)
  /\ grid_thousands (nth 1 (wi_grid w) 0) = 1000 * (wi_ny w / 1000)
  /\ forall p, In p (wi_periods w) -> wf_wperiod (wi_nx w) (wi_ny w) p = true.
Proof.
  unfold wf_winput. intros H. split_andb H.
  match goal with X : forallb _ _ = true |- _ => rewrite forallb_forall in X; rename X into FA end.
  boolfacts. repeat split; try assumption; lia.
Qed.

Lemma write_var_wf nx ny f : 0 <= nx -> wf_wfield nx ny f = true -> wf_var (nx * ny) (write_var f) = true.
Proof.
  intros Hnx H. destruct (wf_wfield_parts nx ny f H) as (Hk & Hh & He & Hp & H1 & Hr & Hny & F & _).
  unfold wf_var, write_var. cbn [v_key v_ck v_exp v_prec v_var1 v_data].
  pose proof (rect_nonempty _ Hr) as Hne.
  pose proof (pack_bytes_rowlen (wf_h f) _ nx Hne F) as Fb.
  assert (F' : Forall (fun r => length r = Z.to_nat nx) (pack_bytes (wf_h f) (wf_rows f))).
  { eapply Forall_impl; [|exact Fb]. intros r Hr'. unfold lenZ in Hr'. cbn beta in Hr'. lia. }
  assert (Ld : lenZ (concat (pack_bytes (wf_h f) (wf_rows f))) = nx * ny).
  { unfold lenZ in *. rewrite (length_concat_uniform _ _ F'), (pack_bytes_length _ _ Hne). nia. }
  assert (Hc : 0 <= ksum (pack_bytes (wf_h f) (wf_rows f)) < 255) by (unfold ksum; apply Z.mod_pos_bound; lia).
  unfold len_is. rewrite Hk, Hp, H1, Ld, Z.eqb_refl. cbn [Nat.eqb andb].
  repeat (apply andb_true_iff; split); try reflexivity; lia.
Qed.

Lemma write_period_wf w p :
  wf_winput w = true -> In p (wi_periods w) -> wf_period (write_period w p) = true.
Proof.
  intros H Hin. destruct (wf_winput_parts w H) as (Hg & Hf & Hv & Hx & Hy & Hg0 & Hg1 & FA).
  destruct (wf_wperiod_parts _ _ p (FA p Hin)) as (Ht & Hl & Hh & Hfit & FL).
  pose proof (table_len_nonneg (write_levels p)) as Htl.
  assert (Ell : lenZ (write_levels p) = lenZ (wp_levels p)) by (unfold write_levels, lenZ; now rewrite map_length).
  assert (Epad : lenZ (repeat 32 (Z.to_nat (wi_nx w * wi_ny w - 108 - table_len (write_levels p))))
                 = wi_nx w * wi_ny w - (108 + table_len (write_levels p))).
  { unfold lenZ. rewrite repeat_length. lia. }
  assert (Gok : grid_ok (write_period w p) = true).
  { unfold grid_ok, write_period. cbn [p_grid p_nx p_ny].
    apply andb_true_iff; split; apply Z.eqb_eq; assumption. }
  unfold wf_period. rewrite Gok. unfold write_period, ncell, lenh, len_is.
  cbn [p_time p_grid p_fixed p_vsys2 p_nx p_ny p_levels p_pad].
  rewrite Ht, Hg, Hf, Hv, Ell, Epad, Z.eqb_refl. cbn [Nat.eqb andb].
  repeat (apply andb_true_iff; split); try (apply Z.leb_le; lia); try reflexivity.
  unfold write_levels. rewrite forallb_forall. intros l Hl'. apply in_map_iff in Hl' as (x & <- & Hx').
  destruct (FL x Hx') as (Hxt & Hxn & Hxf).
  unfold wf_lvl, nvars, len_is. cbn [l_text l_vars]. rewrite Hxt. cbn [Nat.eqb andb].
  apply andb_true_iff; split.
  - apply Z.leb_le. unfold lenZ in *. rewrite map_length. lia.
  - rewrite forallb_forall. intros v Hv'. apply in_map_iff in Hv' as (f & <- & Hf').
    apply (write_var_wf _ _ f); [lia|apply Hxf, Hf'].
Qed.

Lemma write_content_wf w : wf_winput w = true -> forallb wf_period (write_content w) = true.
Proof.
  intros H. unfold write_content. rewrite forallb_forall. intros q Hq.
  apply in_map_iff in Hq as (p & <- & Hp). apply write_period_wf; assumption.
Qed.

(* write -> read: the file the repaired writer produces decodes to its content, the reader
   model returns the ideal view of it, and every field unpacks within one quantum (first element
   exact) when it is inside the proved range *)
Theorem write_read w p0 rest :
  wf_winput w = true -> write_content w = p0 :: rest ->
  forallb (same_layout p0) rest = true -> forallb (same_keys p0) rest = true ->
  lib_grid_ok p0 = true -> lvl_texts_ok p0 = true -> keys_disjoint p0 = true -> p_levels p0 <> [] ->
  dec (impl_write_fixed w) = Some (write_content w)
  /\ impl_read gen_sizes (impl_write_fixed w) = spec_view (write_content w)
  /\ forall p l f, In p (wi_periods w) -> In l (wp_levels p) -> In f (snd l) ->
       let got := unpack_rows (wf_h f) (hdZ (first_row (wf_rows f))) (rows_of (wi_nx w) (v_data (write_var f))) in
       within (wf_h f) (wf_rows f) got = true /\ hdZ (first_row got) = hdZ (first_row (wf_rows f))
       /\ bytes_ok (raw_codes (wf_h f) (wf_rows f)) = true.
Proof.
  intros Hw Ec Hsl Hsk Hg Ht Hd Hne. pose proof (write_content_wf w Hw) as Wc.
  unfold impl_write_fixed. split; [apply dec_enc; exact Wc|]. split.
  - rewrite gen_sizes_std, Ec. rewrite Ec in Wc. apply impl_read_spec; assumption.
  - intros p l f Hp Hl Hf. cbn zeta.
    destruct (wf_winput_parts w Hw) as (_ & _ & _ & _ & _ & _ & _ & FA).
    destruct (wf_wperiod_parts _ _ p (FA p Hp)) as (_ & _ & _ & _ & FL).
    destruct (FL l Hl) as (_ & _ & FF).
    destruct (wf_wfield_parts _ _ f (FF f Hf)) as (_ & Hh & _ & _ & _ & H14 & _ & F & Hm).
    pose proof (rect_nonempty _ H14) as Hnem.
    assert (Hnx : 0 < wi_nx w).
    { destruct (wf_rows f) as [|r rs]; [discriminate|]. inversion F as [|? ? Hr0 _]; subst.
      inversion Hnem as [|? ? Hr1 _]; subst. destruct r; [congruence|]. unfold lenZ in Hr0. cbn [length] in Hr0. lia. }
    unfold write_var. cbn [v_data].
    rewrite (rows_of_concat (wi_nx w) _ Hnx (pack_bytes_rowlen (wf_h f) _ (wi_nx w) Hnem F)).
    fold (roundtrip (wf_h f) (wf_rows f)).
    destruct (roundtrip_half (wf_h f) (wf_rows f) ltac:(lia) H14 Hm) as (Wh & Bk & Ert).
    destruct (first_exact (wf_h f) (wf_rows f) ltac:(lia) H14) as [E1 _].
    repeat split; [exact Wh|rewrite Ert; exact E1|exact Bk].
Qed.

(* grid sizes: I3 field (number modulo 1000) + thousands letter CHAR(64 + n/1000) round-trip for
   every size the letters '@'..'Z' can express; an ordinary grid id (any byte up to '@') serves
   sizes below 1000 *)
Lemma grid_size_roundtrip n g :
  0 <= n <= 26999 -> (g = 64 + n / 1000 \/ (n < 1000 /\ g <= 64)) ->
  length (fmtI 3 (n mod 1000)) = 3%nat
  /\ (do z <- parseI (fmtI 3 (n mod 1000)); Some (z + grid_thousands g)) = Some n
  /\ 64 <= 64 + n / 1000 <= 90.
Proof.
  intros Hn Hg. pose proof (Z.mod_pos_bound n 1000 ltac:(lia)) as Hm.
  pose proof (Z.div_mod n 1000 ltac:(lia)) as Hd.
  assert (Hq : 0 <= n / 1000 <= 26).
  { split; [apply Z.div_pos; lia|]. assert (n / 1000 < 27) by (apply Z.div_lt_upper_bound; lia). lia. }
  destruct (fmt3 (n mod 1000) ltac:(lia)) as [L P]. rewrite P. cbn [obind]. unfold grid_thousands.
  split; [exact L|]. split; [|lia]. f_equal.
  destruct Hg as [->|[Hs Hle]].
  - replace (64 + n / 1000 - 64) with (n / 1000) by lia. lia.
  - rewrite (Z.div_small n 1000) in Hd by lia. lia.
Qed.
