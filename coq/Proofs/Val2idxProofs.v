(* Lemmas for C16 (val2idx). *)
From PNC Require Import Base.Util Model.Val2idx.
Local Open Scope Z_scope.

Lemma asc_cons a b l : asc (a :: b :: l) = true <-> a < b /\ asc (b :: l) = true.
Proof.
  unfold asc, all_pos. cbn [diffs forallb]. rewrite andb_true_iff, Z.ltb_lt.
  split; intros [H1 H2]; split; auto; lia.
Qed.

Lemma asc_tail a l : asc (a :: l) = true -> asc l = true.
Proof. destruct l; [reflexivity | intros H; apply asc_cons in H; tauto]. Qed.

Lemma asc_lt_tail : forall l a, asc (a :: l) = true -> Forall (fun c => a < c) l.
Proof.
  induction l as [|b l IH]; intros a H; constructor.
  - apply asc_cons in H; tauto.
  - apply asc_cons in H as [H1 H2]. apply IH in H2.
    eapply Forall_impl; [|exact H2]. cbv beta; intros; lia.
Qed.

Lemma asc_nth_lt : forall l i j, asc l = true -> (i < j < length l)%nat -> nth i l 0 < nth j l 0.
Proof.
  induction l as [|a l IH]; intros i j H Hij; [simpl in Hij; lia|].
  destruct j as [|j]; [lia|]. destruct i as [|i].
  - cbn [nth]. pose proof (asc_lt_tail _ _ H) as F. rewrite Forall_forall in F.
    apply F. apply nth_In. simpl in Hij; lia.
  - cbn [nth]. apply IH; [eapply asc_tail; eauto | simpl in Hij; lia].
Qed.

Lemma asc_nth_le l i j : asc l = true -> (i <= j < length l)%nat -> nth i l 0 <= nth j l 0.
Proof.
  intros. destruct (Nat.eq_dec i j); [subst; lia | apply Z.lt_le_incl, asc_nth_lt; auto; lia].
Qed.

Lemma last_cons2 (a b : Z) l : last (a :: b :: l) 0 = last (b :: l) 0.
Proof. reflexivity. Qed.

Lemma nth_last_Z : forall (l : list Z), l <> [] -> nth (length l - 1) l 0 = last l 0.
Proof.
  induction l as [|a l IH]; intros H; [congruence|].
  destruct l as [|b l]; [reflexivity|].
  rewrite last_cons2, <- IH by congruence. cbn [length]. 
  replace (S (S (length l)) - 1)%nat with (S (S (length l) - 1))%nat by lia. reflexivity.
Qed.

Lemma seg_cons2 x x0 x1 t y0 y1 u :
  seg x (x0 :: x1 :: t) (y0 :: y1 :: u) =
  if x <? x1 then FNum (y0 * (x1 - x0) + (y1 - y0) * (x - x0)) (x1 - x0)
  else seg x (x1 :: t) (y1 :: u).
Proof. reflexivity. Qed.

Lemma zseq_S k n : zseq k (S n) = k :: zseq (k + 1) n.
Proof. reflexivity. Qed.

(* canonical form of the interpolated fractional index inside the coordinate range *)
Lemma seg_canon : forall xp k x, asc xp = true -> hd 0 xp <= x < last xp 0 ->
  exists j d p, seg x xp (zseq k (length xp)) = FNum ((k + Z.of_nat j) * d + p) d
    /\ 0 < d /\ 0 <= p < d /\ (S j < length xp)%nat
    /\ nth j xp 0 + p = x /\ nth (S j) xp 0 = nth j xp 0 + d.
Proof.
  induction xp as [|x0 t IH]; intros k x Ha Hx; [simpl in Hx; lia|].
  destruct t as [|x1 t]; [simpl in Hx; lia|].
  apply asc_cons in Ha as [H01 Ha].
  cbn [length]. rewrite !zseq_S, seg_cons2.
  destruct (x <? x1) eqn:E.
  - apply Z.ltb_lt in E. exists 0%nat, (x1 - x0), (x - x0). cbn [hd] in Hx.
    cbn [nth length]. repeat split; try lia. f_equal; ring.
  - apply Z.ltb_ge in E. rewrite last_cons2 in Hx.
    destruct (IH (k + 1) x Ha) as (j & d & p & Hs & Hd & Hp & Hj & Hn & Hn').
    { cbn [hd]. lia. }
    exists (S j), d, p. cbn [length] in Hs, Hj. rewrite zseq_S in Hs. rewrite Hs.
    cbn [nth length] in *. repeat split; try lia.
    f_equal. rewrite Nat2Z.inj_succ. ring.
Qed.

Lemma seg_last : forall xp k x, asc xp = true -> xp <> [] -> x = last xp 0 ->
  seg x xp (zseq k (length xp)) = FNum (k + Z.of_nat (length xp) - 1) 1.
Proof.
  induction xp as [|x0 t IH]; intros k x Ha Hne Hx; [congruence|].
  destruct t as [|x1 t].
  - cbn. f_equal. lia.
  - apply asc_cons in Ha as [H01 Ha]. cbn [length]. rewrite !zseq_S, seg_cons2.
    rewrite last_cons2 in Hx.
    assert (x1 <= x).
    { subst x. rewrite <- (nth_last_Z (x1 :: t)) by congruence.
      change x1 with (nth 0 (x1 :: t) 0) at 1. apply asc_nth_le; auto. cbn [length]; lia. }
    destruct (x <? x1) eqn:E; [apply Z.ltb_lt in E; lia|].
    change (k + 1 :: zseq (k + 1 + 1) (length t)) with (zseq (k + 1) (length (x1 :: t))).
    rewrite (IH (k + 1) x Ha) by (auto; congruence). f_equal. cbn [length]. lia.
Qed.

Lemma rint_frac k d p : 0 < d -> 0 <= p < d ->
  rint (k * d + p) d =
  if 2 * p <? d then k else if d <? 2 * p then k + 1 else if Z.even k then k else k + 1.
Proof.
  intros Hd Hp. unfold rint. cbv zeta.
  assert (Hq : (k * d + p) / d = k).
  { rewrite Z.div_add_l by lia. rewrite Z.div_small by lia. lia. }
  assert (Hr : (k * d + p) mod d = p).
  { rewrite Z.add_comm, Z_mod_plus_full. apply Z.mod_small; lia. }
  rewrite Hq, Hr. reflexivity.
Qed.

Lemma rint_int z : rint z 1 = z.
Proof. replace z with (z * 1 + 0) at 1 by lia. rewrite rint_frac by lia. reflexivity. Qed.

Lemma zseq_hd k n : (0 < n)%nat -> hd 0 (zseq k n) = k.
Proof. destruct n; [lia | reflexivity]. Qed.

Lemma zseq_last : forall n k, (0 < n)%nat -> last (zseq k n) 0 = k + Z.of_nat n - 1.
Proof.
  induction n as [|n IH]; intros k H; [lia|]. destruct n as [|n].
  - cbn. lia.
  - change (zseq k (S (S n))) with (k :: (k + 1) :: zseq (k + 1 + 1) n). rewrite last_cons2.
    change ((k + 1) :: zseq (k + 1 + 1) n) with (zseq (k + 1) (S n)). rewrite IH by lia.
    rewrite !Nat2Z.inj_succ. lia.
Qed.

Lemma asc_In_cases cs j c : asc cs = true -> In c cs -> (S j < length cs)%nat ->
  c <= nth j cs 0 \/ nth (S j) cs 0 <= c.
Proof.
  intros Ha Hin Hj. destruct (In_nth _ _ 0 Hin) as (m & Hm & <-).
  destruct (le_lt_dec m j); [left | right]; apply asc_nth_le; auto; lia.
Qed.

Lemma asc_In_bounds cs c : asc cs = true -> In c cs -> hd 0 cs <= c <= last cs 0.
Proof.
  intros Ha Hin. assert (Hne : cs <> []) by (destruct cs; [destruct Hin | congruence]).
  destruct (In_nth _ _ 0 Hin) as (m & Hm & <-).
  rewrite <- (nth_last_Z cs Hne). replace (hd 0 cs) with (nth 0 cs 0) by (destruct cs; reflexivity).
  split; apply asc_nth_le; auto; lia.
Qed.

Lemma nearest_ok_intro cs x i : (i < length cs)%nat ->
  (forall c, In c cs -> Z.abs (x - nth i cs 0) <= Z.abs (x - c)) ->
  nearest_ok cs x (Z.of_nat i) = true.
Proof.
  intros Hi H. unfold nearest_ok, valid_idx, nthZ, absd. rewrite Nat2Z.id.
  apply andb_true_iff; split.
  - apply andb_true_iff; split; [apply Z.leb_le | apply Z.ltb_lt]; lia.
  - apply forallb_forall. intros c Hc. apply Z.leb_le. auto.
Qed.

Definition nan_out (lnan rnan : bool) (lo hi x : Z) : Prop :=
  (x < lo /\ lnan = true) \/ (hi < x /\ rnan = true).

(* ---- nearest, ascending coordinate ------------------------------------------------- *)
Lemma nearest_asc cm lnan rnan cs de x :
  asc cs = true -> cs <> [] ->
  match cell_one MNearest cm lnan rnan false cs de x with
  | Idx i => nearest_ok cs x i = true
             \/ (i = INT_MIN /\ cm <> CMask /\ nan_out lnan rnan (hd 0 cs) (last cs 0) x)
  | Masked => cm = CMask /\ nan_out lnan rnan (hd 0 cs) (last cs 0) x
  end.
Proof.
  intros Ha Hne.
  assert (Hlen : (0 < length cs)%nat) by (destruct cs; [congruence | cbn; lia]).
  unfold cell_one, fidx_one, to_cell, interp1. cbn [is_bounds is_exact andb].
  destruct (last cs 0 <? x) eqn:E1.
  { apply Z.ltb_lt in E1. destruct rnan.
    - destruct cm; [right | | right]; unfold nan_out; repeat split; auto; try discriminate.
    - left. rewrite zseq_last, rint_int by lia.
      replace (0 + Z.of_nat (length cs) - 1) with (Z.of_nat (length cs - 1)) by lia.
      apply nearest_ok_intro; [lia|]. intros c Hc. rewrite nth_last_Z by auto.
      pose proof (asc_In_bounds _ _ Ha Hc). lia. }
  apply Z.ltb_ge in E1.
  destruct (x <? hd 0 cs) eqn:E2.
  { apply Z.ltb_lt in E2. destruct lnan.
    - destruct cm; [right | | right]; unfold nan_out; repeat split; auto; try discriminate.
    - left. rewrite zseq_hd, rint_int by lia.
      apply (nearest_ok_intro cs x 0%nat); [lia|]. intros c Hc.
      replace (nth 0 cs 0) with (hd 0 cs) by (destruct cs; reflexivity).
      pose proof (asc_In_bounds _ _ Ha Hc). lia. }
  apply Z.ltb_ge in E2.
  destruct (Z.eq_dec x (last cs 0)) as [Hl | Hl].
  - rewrite seg_last by auto. left. rewrite rint_int.
    replace (0 + Z.of_nat (length cs) - 1) with (Z.of_nat (length cs - 1)) by lia.
    apply nearest_ok_intro; [lia|]. intros c Hc. rewrite nth_last_Z by auto.
    pose proof (asc_In_bounds _ _ Ha Hc). lia.
  - destruct (seg_canon cs 0 x Ha) as (j & d & p & Hs & Hd & Hp & Hj & Hn & Hn'); [lia|].
    rewrite Hs. left. rewrite rint_frac by lia. cbn [Z.add].
    assert (Hc : forall c, In c cs -> c <= nth j cs 0 \/ nth (S j) cs 0 <= c)
      by (intros; eapply asc_In_cases; eauto).
    assert (Hj0 : nearest_ok cs x (Z.of_nat j) = true \/ 2 * p < d -> True) by auto.
    destruct (2 * p <? d) eqn:C1; [apply Z.ltb_lt in C1 | apply Z.ltb_ge in C1].
    + apply nearest_ok_intro; [lia|]. intros c Hin. destruct (Hc c Hin); lia.
    + assert (HS : d <= 2 * p -> nearest_ok cs x (Z.of_nat j + 1) = true).
      { intros. replace (Z.of_nat j + 1) with (Z.of_nat (S j)) by lia.
        apply nearest_ok_intro; [lia|]. intros c Hin. destruct (Hc c Hin); lia. }
      destruct (d <? 2 * p) eqn:C2; [apply HS; lia|]. apply Z.ltb_ge in C2.
      destruct (Z.even (Z.of_nat j)); [|apply HS; lia].
      apply nearest_ok_intro; [lia|]. intros c Hin. destruct (Hc c Hin); lia.
Qed.

(* ---- bounds, ascending edges --------------------------------------------------------- *)
Lemma nth_pairs : forall es i, (S i < length es)%nat ->
  nth i (pairs es) (0, 0) = (nth i es 0, nth (S i) es 0).
Proof.
  unfold pairs. induction es as [|a es IH]; intros i H; [simpl in H; lia|].
  destruct es as [|b es]; [simpl in H; lia|]. destruct i as [|i]; [reflexivity|].
  cbn [tl combine nth]. cbn [tl] in IH. apply IH. simpl in *; lia.
Qed.

Lemma pairs_length es : length (pairs es) = (length es - 1)%nat.
Proof. unfold pairs. rewrite combine_length. destruct es as [|a l]; [reflexivity|]. cbn [tl length]. lia. Qed.

Lemma contains_intro es x i : asc es = true -> (S i < length es)%nat ->
  nth i es 0 <= x <= nth (S i) es 0 -> contains (pairs es) x (Z.of_nat i) = true.
Proof.
  intros Ha Hi Hx. unfold contains, valid_idx. rewrite Nat2Z.id, pairs_length, nth_pairs by auto.
  pose proof (asc_nth_lt es i (S i) Ha ltac:(lia)).
  unfold cell_lo, cell_hi; cbn [fst snd].
  repeat (apply andb_true_iff; split); try apply Z.leb_le; try apply Z.ltb_lt; lia.
Qed.

Lemma quot_frac j d p : 0 <= j -> 0 < d -> 0 <= p < d -> Z.quot (j * d + p) d = j.
Proof.
  intros. rewrite Z.quot_div_nonneg by nia.
  rewrite Z.div_add_l by lia. rewrite Z.div_small by lia. lia.
Qed.

Lemma fmin_frac B j d p : 0 <= j <= B -> 0 < d -> 0 <= p < d ->
  exists n' d', fmin B (FNum (j * d + p) d) = FNum n' d' /\ Z.quot n' d' = j.
Proof.
  intros Hj Hd Hp. unfold fmin. destruct (B * d <? j * d + p) eqn:E.
  - apply Z.ltb_lt in E. assert (B = j) by nia. subst. exists j, 1. split; auto. apply Z.quot_1_r.
  - exists (j * d + p), d. split; auto. apply quot_frac; lia.
Qed.

Lemma bounds_asc cm lnan rnan dv es x :
  asc es = true -> length es = S (length dv) -> (0 < length dv)%nat ->
  (rnan = true -> x <> last es 0) ->
  match cell_one MBounds cm lnan rnan false dv es x with
  | Idx i => contains (pairs es) x i = true
       \/ (x < hd 0 es /\ lnan = false /\ i = 0)
       \/ (last es 0 < x /\ rnan = false /\ i = lenZ dv - 1)
       \/ (i = INT_MIN /\ cm <> CMask /\ nan_out lnan rnan (hd 0 es) (last es 0) x)
  | Masked => cm = CMask /\ nan_out lnan rnan (hd 0 es) (last es 0) x
  end.
Proof.
  intros Ha Hlen Hdv Htop.
  assert (Hne : es <> []) by (destruct es; [discriminate | congruence]).
  unfold cell_one, fidx_one, to_cell, interp1, lenZ. cbn [is_bounds is_exact andb].
  destruct (last es 0 <? x) eqn:E1.
  { apply Z.ltb_lt in E1. destruct rnan; cbn [negb].
    - destruct cm; [right; right; right | | right; right; right];
        unfold nan_out; repeat split; auto; try discriminate.
    - rewrite zseq_last by lia. unfold fmin.
      replace ((Z.of_nat (length dv) - 1) * 1 <? 0 + Z.of_nat (length es) - 1) with true
        by (symmetry; apply Z.ltb_lt; lia).
      right; right; left. rewrite Z.quot_1_r. auto. }
  apply Z.ltb_ge in E1.
  destruct (x <? hd 0 es) eqn:E2.
  { apply Z.ltb_lt in E2. destruct lnan.
    - destruct rnan; cbn [negb fmin];
        (destruct cm; [right; right; right | | right; right; right];
         unfold nan_out; repeat split; auto; try discriminate).
    - rewrite zseq_hd by lia.
      assert (F : fmin (Z.of_nat (length dv) - 1) (FNum 0 1) = FNum 0 1).
      { unfold fmin. replace ((Z.of_nat (length dv) - 1) * 1 <? 0) with false; auto.
        symmetry; apply Z.ltb_ge; lia. }
      destruct rnan; cbn [negb]; rewrite ?F; right; left; auto. }
  apply Z.ltb_ge in E2.
  destruct (Z.eq_dec x (last es 0)) as [Hl | Hl].
  - destruct rnan; [exfalso; apply Htop; auto|]. cbn [negb].
    rewrite seg_last by auto. unfold fmin.
    replace ((Z.of_nat (length dv) - 1) * 1 <? 0 + Z.of_nat (length es) - 1) with true
      by (symmetry; apply Z.ltb_lt; lia).
    left. rewrite Z.quot_1_r.
    replace (Z.of_nat (length dv) - 1) with (Z.of_nat (length dv - 1)) by lia.
    apply contains_intro; auto; [lia|].
    replace (S (length dv - 1)) with (length es - 1)%nat by lia.
    rewrite nth_last_Z by auto. split; [|lia].
    rewrite Hl, <- (nth_last_Z es Hne). apply asc_nth_le; auto. lia.
  - destruct (seg_canon es 0 x Ha) as (j & d & p & Hs & Hd & Hp & Hj & Hn & Hn'); [lia|].
    rewrite Hs. cbn [Z.add].
    assert (Hc : contains (pairs es) x (Z.of_nat j) = true)
      by (apply contains_intro; auto; lia).
    destruct rnan; cbn [negb].
    + left. rewrite quot_frac by lia. exact Hc.
    + destruct (fmin_frac (Z.of_nat (length dv) - 1) (Z.of_nat j) d p) as (n' & d' & Hf & Hq);
        try lia.
      rewrite Hf. left. rewrite Hq. exact Hc.
Qed.

(* ---- exact, ascending coordinate ------------------------------------------------------ *)
Lemma exact_ok_intro cs x i : (i < length cs)%nat -> nth i cs 0 = x ->
  exact_ok cs x (Z.of_nat i) = true.
Proof.
  intros Hi H. unfold exact_ok, valid_idx, nthZ. rewrite Nat2Z.id.
  repeat (apply andb_true_iff; split); try apply Z.leb_le; try apply Z.ltb_lt;
    try apply Z.eqb_eq; lia.
Qed.

Lemma exact_asc cm lnan rnan cs de x :
  asc cs = true -> cs <> [] ->
  match cell_one MExact cm lnan rnan false cs de x with
  | Idx i => exact_ok cs x i = true
  | Masked => memZ x cs = false
  end.
Proof.
  intros Ha Hne.
  assert (Hlen : (0 < length cs)%nat) by (destruct cs; [congruence | cbn; lia]).
  unfold cell_one, fidx_one, to_cell. cbn [is_bounds is_exact andb].
  destruct (memZ x cs) eqn:M; cbn [negb]; [|reflexivity].
  unfold memZ in M. apply existsb_exists in M as (c & Hin & Hc). apply Z.eqb_eq in Hc. subst c.
  pose proof (asc_In_bounds _ _ Ha Hin) as Hb. unfold interp1.
  replace (last cs 0 <? x) with false by (symmetry; apply Z.ltb_ge; lia).
  replace (x <? hd 0 cs) with false by (symmetry; apply Z.ltb_ge; lia).
  destruct (Z.eq_dec x (last cs 0)) as [Hl | Hl].
  - rewrite seg_last by auto. rewrite Z.quot_1_r.
    replace (0 + Z.of_nat (length cs) - 1) with (Z.of_nat (length cs - 1)) by lia.
    apply exact_ok_intro; [lia|]. rewrite nth_last_Z; auto.
  - destruct (seg_canon cs 0 x Ha) as (j & d & p & Hs & Hd & Hp & Hj & Hn & Hn'); [lia|].
    rewrite Hs. cbn [Z.add]. rewrite quot_frac by lia.
    apply exact_ok_intro; [lia|].
    destruct (asc_In_cases cs j x Ha Hin Hj); lia.
Qed.

(* ---- whole call, ascending direction --------------------------------------------------- *)
Lemma asc_not_all_neg l : asc l = true -> (2 <= length l)%nat -> all_neg (diffs l) = false.
Proof.
  destruct l as [|a [|b l]]; cbn [length]; try lia. intros H _.
  apply asc_cons in H as [H _]. unfold all_neg. cbn [diffs forallb].
  replace (b - a <? 0) with false; [reflexivity|]. symmetry; apply Z.ltb_ge; lia.
Qed.

Lemma impl_asc_form c xs s dv de :
  bad_opts c = false -> prep c = inr (s, dv, de) -> asc de = true -> (2 <= length de)%nat ->
  c_scalar c = false ->
  let xs' := map (Z.mul s) xs in
  let cells := map (cell_one (c_m c) (c_c c) (c_lnan c) (c_rnan c) false dv de) xs' in
  let out := existsb (is_out de) xs' in
  impl_val2idx c xs =
  match c_b c with
  | BError => if out then Raised EOutOfBounds else Done cells false dv
  | BWarn => Done cells out dv
  | _ => Done cells false dv
  end.
Proof.
  intros Hb Hp Ha Hl Hs. unfold impl_val2idx. rewrite Hb, Hp, Hs.
  rewrite (asc_not_all_neg _ Ha Hl). unfold asc in Ha. rewrite Ha. reflexivity.
Qed.

(* the three bounds representations feed the same edge list *)
Lemma pairs_cons2 a b l : pairs (a :: b :: l) = (a, b) :: pairs (b :: l).
Proof. reflexivity. Qed.

Lemma pairs_rows : forall rs, rs <> [] -> contig rs = true ->
  pairs (map fst rs ++ [snd (last rs (0, 0))]) = rs.
Proof.
  induction rs as [|p rs IH]; intros Hne Hc; [congruence|].
  destruct rs as [|q rs].
  - destruct p; reflexivity.
  - cbn [contig] in Hc. apply andb_true_iff in Hc as [H1 H2]. apply Z.eqb_eq in H1.
    change (last (p :: q :: rs) (0, 0)) with (last (q :: rs) (0, 0)).
    cbn [map app]. rewrite pairs_cons2.
    change (fst q :: map fst rs ++ [snd (last (q :: rs) (0, 0))])
      with (map fst (q :: rs) ++ [snd (last (q :: rs) (0, 0))]).
    rewrite IH by (auto; congruence). destruct p; cbn [fst snd] in *. subst. reflexivity.
Qed.

Lemma derive_nonuniform isint cs :
  uniform (diffs cs) = false ->
  derive_edges isint cs = inr (map (Z.mul 2) cs, natural_edges cs).
Proof.
  intros H. unfold derive_edges, natural_edges. rewrite H.
  destruct (diffs cs); [discriminate | reflexivity].
Qed.

(* descending: everything above the smallest coordinate value collapses to index 0 *)
Lemma desc_collapses cm cs de x :
  last cs 0 < x ->
  cell_one MNearest cm false false true cs de x = Idx (last (rev (zseq 0 (length cs))) 0).
Proof.
  intros H. unfold cell_one, fidx_one, to_cell, interp1. cbn [is_bounds is_exact andb].
  replace (last cs 0 <? x) with true by (symmetry; apply Z.ltb_lt; lia).
  rewrite rint_int. reflexivity.
Qed.

Lemma last_rev_zseq n : (0 < n)%nat -> last (rev (zseq 0 n)) 0 = 0.
Proof.
  destruct n; [lia|]. intros _. rewrite zseq_S. cbn [rev]. apply last_last.
Qed.
