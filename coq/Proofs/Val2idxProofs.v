(* Lemmas for C16 (val2idx). *)
From PNC Require Import Base.Util Model.Val2idx.
Local Open Scope Z_scope.

Lemma asc_cons a b l : asc (a :: b :: l) = true <-> a < b /\ asc (b :: l) = true.
Proof.
  unfold asc, all_pos. cbn [diffs forallb]. rewrite andb_true_iff, Z.ltb_lt.
  split; intros [H1 H2]; split; auto; lia.
Qed.

Lemma asc_tail a l : asc (a :: l) = true -> asc l = true.
Proof. destruct l; [reflexivity | intros H; apply asc_cons in H; tauto]. Qed.

Lemma asc_lt_tail : forall l a, asc (a :: l) = true -> Forall (fun c => a < c) l.
Proof.
  induction l as [|b l IH]; intros a H; constructor.
  - apply asc_cons in H; tauto.
  - apply asc_cons in H as [H1 H2]. apply IH in H2.
    eapply Forall_impl; [|exact H2]. cbv beta; intros; lia.
Qed.

Lemma asc_nth_lt : forall l i j, asc l = true -> (i < j < length l)%nat -> nth i l 0 < nth j l 0.
Proof.
  induction l as [|a l IH]; intros i j H Hij; [simpl in Hij; lia|].
  destruct j as [|j]; [lia|]. destruct i as [|i].
  - cbn [nth]. pose proof (asc_lt_tail _ _ H) as F. rewrite Forall_forall in F.
    apply F. apply nth_In. simpl in Hij; lia.
  - cbn [nth]. apply IH; [eapply asc_tail; eauto | simpl in Hij; lia].
Qed.

Lemma asc_nth_le l i j : asc l = true -> (i <= j < length l)%nat -> nth i l 0 <= nth j l 0.
Proof.
  intros. destruct (Nat.eq_dec i j); [subst; lia | apply Z.lt_le_incl, asc_nth_lt; auto; lia].
Qed.

Lemma last_cons2 (a b : Z) l : last (a :: b :: l) 0 = last (b :: l) 0.
Proof. reflexivity. Qed.

Lemma nth_last_Z : forall (l : list Z), l <> [] -> nth (length l - 1) l 0 = last l 0.
Proof.
  induction l as [|a l IH]; intros H; [congruence|].
  destruct l as [|b l]; [reflexivity|].
  rewrite last_cons2, <- IH by congruence. cbn [length]. 
  replace (S (S (length l)) - 1)%nat with (S (S (length l) - 1))%nat by lia. reflexivity.
Qed.

Lemma seg_cons2 x x0 x1 t y0 y1 u :
  seg x (x0 :: x1 :: t) (y0 :: y1 :: u) =
  if x <? x1 then FNum (y0 * (x1 - x0) + (y1 - y0) * (x - x0)) (x1 - x0)
  else seg x (x1 :: t) (y1 :: u).
Proof. reflexivity. Qed.

Lemma zseq_S k n : zseq k (S n) = k :: zseq (k + 1) n.
Proof. reflexivity. Qed.

(* canonical form of the interpolated fractional index inside the coordinate range *)
Lemma seg_canon : forall xp k x, asc xp = true -> hd 0 xp <= x < last xp 0 ->
  exists j d p, seg x xp (zseq k (length xp)) = FNum ((k + Z.of_nat j) * d + p) d
    /\ 0 < d /\ 0 <= p < d /\ (S j < length xp)%nat
    /\ nth j xp 0 + p = x /\ nth (S j) xp 0 = nth j xp 0 + d.
Proof.
  induction xp as [|x0 t IH]; intros k x Ha Hx; [simpl in Hx; lia|].
  destruct t as [|x1 t]; [simpl in Hx; lia|].
  apply asc_cons in Ha as [H01 Ha].
  cbn [length]. rewrite !zseq_S, seg_cons2.
  destruct (x <? x1) eqn:E.
  - apply Z.ltb_lt in E. exists 0%nat, (x1 - x0), (x - x0). cbn [hd] in Hx.
    cbn [nth length]. repeat split; try lia. f_equal; ring.
  - apply Z.ltb_ge in E. rewrite last_cons2 in Hx.
    destruct (IH (k + 1) x Ha) as (j & d & p & Hs & Hd & Hp & Hj & Hn & Hn').
    { cbn [hd]. lia. }
    exists (S j), d, p. cbn [length] in Hs, Hj. rewrite zseq_S in Hs. rewrite Hs.
    cbn [nth length] in *. repeat split; try lia.
    f_equal. rewrite Nat2Z.inj_succ. ring.
Qed.

Lemma seg_last : forall xp k x, asc xp = true -> xp <> [] -> x = last xp 0 ->
  seg x xp (zseq k (length xp)) = FNum (k + Z.of_nat (length xp) - 1) 1.
Proof.
  induction xp as [|x0 t IH]; intros k x Ha Hne Hx; [congruence|].
  destruct t as [|x1 t].
  - cbn. f_equal. lia.
  - apply asc_cons in Ha as [H01 Ha]. cbn [length]. rewrite !zseq_S, seg_cons2.
    rewrite last_cons2 in Hx.
    assert (x1 <= x).
    { subst x. rewrite <- (nth_last_Z (x1 :: t)) by congruence.
      change x1 with (nth 0 (x1 :: t) 0) at 1. apply asc_nth_le; auto. cbn [length]; lia. }
    destruct (x <? x1) eqn:E; [apply Z.ltb_lt in E; lia|].
    change (k + 1 :: zseq (k + 1 + 1) (length t)) with (zseq (k + 1) (length (x1 :: t))).
    rewrite (IH (k + 1) x Ha) by (auto; congruence). f_equal. cbn [length]. lia.
Qed.

Lemma rint_frac k d p : 0 < d -> 0 <= p < d ->
  rint (k * d + p) d =
  if 2 * p <? d then k else if d <? 2 * p then k + 1 else if Z.even k then k else k + 1.
Proof.
  intros Hd Hp. unfold rint. cbv zeta.
  assert (Hq : (k * d + p) / d = k).
  { rewrite Z.div_add_l by lia. rewrite Z.div_small by lia. lia. }
  assert (Hr : (k * d + p) mod d = p).
  { rewrite Z.add_comm, Z_mod_plus_full. apply Z.mod_small; lia. }
  rewrite Hq, Hr. reflexivity.
Qed.

Lemma rint_int z : rint z 1 = z.
Proof. replace z with (z * 1 + 0) at 1 by lia. rewrite rint_frac by lia. reflexivity. Qed.

Lemma zseq_hd k n : (0 < n)%nat -> hd 0 (zseq k n) = k.
Proof. destruct n; [lia | reflexivity]. Qed.

Lemma zseq_last : forall n k, (0 < n)%nat -> last (zseq k n) 0 = k + Z.of_nat n - 1.
Proof.
  induction n as [|n IH]; intros k H; [lia|]. destruct n as [|n].
  - cbn. lia.
  - change (zseq k (S (S n))) with (k :: (k + 1) :: zseq (k + 1 + 1) n). rewrite last_cons2.
    change ((k + 1) :: zseq (k + 1 + 1) n) with (zseq (k + 1) (S n)). rewrite IH by lia.
    rewrite !Nat2Z.inj_succ. lia.
Qed.

Lemma asc_In_cases cs j c : asc cs = true -> In c cs -> (S j < length cs)%nat ->
  c <= nth j cs 0 \/ nth (S j) cs 0 <= c.
Proof.
  intros Ha Hin Hj. destruct (In_nth _ _ 0 Hin) as (m & Hm & <-).
  destruct (le_lt_dec m j); [left | right]; apply asc_nth_le; auto; lia.
Qed.

Lemma asc_In_bounds cs c : asc cs = true -> In c cs -> hd 0 cs <= c <= last cs 0.
Proof.
  intros Ha Hin. assert (Hne : cs <> []) by (destruct cs; [destruct Hin | congruence]).
  destruct (In_nth _ _ 0 Hin) as (m & Hm & <-).
  rewrite <- (nth_last_Z cs Hne). replace (hd 0 cs) with (nth 0 cs 0) by (destruct cs; reflexivity).
  split; apply asc_nth_le; auto; lia.
Qed.

Lemma nearest_ok_intro cs x i : (i < length cs)%nat ->
  (forall c, In c cs -> Z.abs (x - nth i cs 0) <= Z.abs (x - c)) ->
  nearest_ok cs x (Z.of_nat i) = true.
Proof.
  intros Hi H. unfold nearest_ok, valid_idx, nthZ, absd. rewrite Nat2Z.id.
  apply andb_true_iff; split.
  - apply andb_true_iff; split; [apply Z.leb_le | apply Z.ltb_lt]; lia.
  - apply forallb_forall. intros c Hc. apply Z.leb_le. auto.
Qed.


(* ---- nearest, ascending coordinate ------------------------------------------------- *)
Lemma nearest_asc cm lnan rnan cs de x :
  asc cs = true -> cs <> [] ->
  match cell_one MNearest cm lnan rnan false cs de x with
  | Idx i => nearest_ok cs x i = true
             \/ (i = INT_MIN /\ cm <> CMask /\ nan_out lnan rnan (hd 0 cs) (last cs 0) x)
  | Masked => cm = CMask /\ nan_out lnan rnan (hd 0 cs) (last cs 0) x
  end.
Proof.
  intros Ha Hne.
  assert (Hlen : (0 < length cs)%nat) by (destruct cs; [congruence | cbn; lia]).
  unfold cell_one, fidx_one, to_cell, interp1. cbn [is_bounds is_exact andb].
  destruct (last cs 0 <? x) eqn:E1.
  { apply Z.ltb_lt in E1. destruct rnan.
    - destruct cm; [right | | right]; unfold nan_out; repeat split; auto; try discriminate.
    - left. rewrite zseq_last, rint_int by lia.
      replace (0 + Z.of_nat (length cs) - 1) with (Z.of_nat (length cs - 1)) by lia.
      apply nearest_ok_intro; [lia|]. intros c Hc. rewrite nth_last_Z by auto.
      pose proof (asc_In_bounds _ _ Ha Hc). lia. }
  apply Z.ltb_ge in E1.
  destruct (x <? hd 0 cs) eqn:E2.
  { apply Z.ltb_lt in E2. destruct lnan.
    - destruct cm; [right | | right]; unfold nan_out; repeat split; auto; try discriminate.
    - left. rewrite zseq_hd, rint_int by lia.
      apply (nearest_ok_intro cs x 0%nat); [lia|]. intros c Hc.
      replace (nth 0 cs 0) with (hd 0 cs) by (destruct cs; reflexivity).
      pose proof (asc_In_bounds _ _ Ha Hc). lia. }
  apply Z.ltb_ge in E2.
  destruct (Z.eq_dec x (last cs 0)) as [Hl | Hl].
  - rewrite seg_last by auto. left. rewrite rint_int.
    replace (0 + Z.of_nat (length cs) - 1) with (Z.of_nat (length cs - 1)) by lia.
    apply nearest_ok_intro; [lia|]. intros c Hc. rewrite nth_last_Z by auto.
    pose proof (asc_In_bounds _ _ Ha Hc). lia.
  - destruct (seg_canon cs 0 x Ha) as (j & d & p & Hs & Hd & Hp & Hj & Hn & Hn'); [lia|].
    rewrite Hs. left. rewrite rint_frac by lia. cbn [Z.add].
    assert (Hc : forall c, In c cs -> c <= nth j cs 0 \/ nth (S j) cs 0 <= c)
      by (intros; eapply asc_In_cases; eauto).
    assert (Hj0 : nearest_ok cs x (Z.of_nat j) = true \/ 2 * p < d -> True) by auto.
    destruct (2 * p <? d) eqn:C1; [apply Z.ltb_lt in C1 | apply Z.ltb_ge in C1].
    + apply nearest_ok_intro; [lia|]. intros c Hin. destruct (Hc c Hin); lia.
    + assert (HS : d <= 2 * p -> nearest_ok cs x (Z.of_nat j + 1) = true).
      { intros. replace (Z.of_nat j + 1) with (Z.of_nat (S j)) by lia.
        apply nearest_ok_intro; [lia|]. intros c Hin. destruct (Hc c Hin); lia. }
      destruct (d <? 2 * p) eqn:C2; [apply HS; lia|]. apply Z.ltb_ge in C2.
      destruct (Z.even (Z.of_nat j)); [|apply HS; lia].
      apply nearest_ok_intro; [lia|]. intros c Hin. destruct (Hc c Hin); lia.
Qed.

(* ---- bounds, ascending edges --------------------------------------------------------- *)
Lemma nth_pairs : forall es i, (S i < length es)%nat ->
  nth i (pairs es) (0, 0) = (nth i es 0, nth (S i) es 0).
Proof.
  unfold pairs. induction es as [|a es IH]; intros i H; [simpl in H; lia|].
  destruct es as [|b es]; [simpl in H; lia|]. destruct i as [|i]; [reflexivity|].
  cbn [tl combine nth]. cbn [tl] in IH. apply IH. simpl in *; lia.
Qed.

Lemma pairs_length es : length (pairs es) = (length es - 1)%nat.
Proof. unfold pairs. rewrite combine_length. destruct es as [|a l]; [reflexivity|]. cbn [tl length]. lia. Qed.

Lemma contains_intro es x i : asc es = true -> (S i < length es)%nat ->
  nth i es 0 <= x <= nth (S i) es 0 -> contains (pairs es) x (Z.of_nat i) = true.
Proof.
  intros Ha Hi Hx. unfold contains, valid_idx. rewrite Nat2Z.id, pairs_length, nth_pairs by auto.
  pose proof (asc_nth_lt es i (S i) Ha ltac:(lia)).
  unfold cell_lo, cell_hi; cbn [fst snd].
  repeat (apply andb_true_iff; split); try apply Z.leb_le; try apply Z.ltb_lt; lia.
Qed.

Lemma quot_frac j d p : 0 <= j -> 0 < d -> 0 <= p < d -> Z.quot (j * d + p) d = j.
Proof.
  intros. rewrite Z.quot_div_nonneg by nia.
  rewrite Z.div_add_l by lia. rewrite Z.div_small by lia. lia.
Qed.

Lemma fmin_frac B j d p : 0 <= j <= B -> 0 < d -> 0 <= p < d ->
  exists n' d', fmin B (FNum (j * d + p) d) = FNum n' d' /\ Z.quot n' d' = j.
Proof.
  intros Hj Hd Hp. unfold fmin. destruct (B * d <? j * d + p) eqn:E.
  - apply Z.ltb_lt in E. assert (B = j) by nia. subst. exists j, 1. split; auto. apply Z.quot_1_r.
  - exists (j * d + p), d. split; auto. apply quot_frac; lia.
Qed.

(* general form of the interpolated value for an arbitrary index vector fp *)
Lemma seg_gen : forall xp fp x, asc xp = true -> length fp = length xp -> hd 0 xp <= x < last xp 0 ->
  exists j d p, seg x xp fp = FNum (nth j fp 0 * d + (nth (S j) fp 0 - nth j fp 0) * p) d
    /\ 0 < d /\ 0 <= p < d /\ (S j < length xp)%nat
    /\ nth j xp 0 + p = x /\ nth (S j) xp 0 = nth j xp 0 + d.
Proof.
  induction xp as [|x0 t IH]; intros fp x Ha Hl Hx; [simpl in Hx; lia|].
  destruct t as [|x1 t]; [simpl in Hx; lia|].
  destruct fp as [|y0 [|y1 u]]; cbn [length] in Hl; try lia.
  apply asc_cons in Ha as [H01 Ha]. rewrite seg_cons2.
  destruct (x <? x1) eqn:E.
  - apply Z.ltb_lt in E. exists 0%nat, (x1 - x0), (x - x0). cbn [hd] in Hx.
    cbn [nth length]. repeat split; try lia.
  - apply Z.ltb_ge in E. rewrite last_cons2 in Hx.
    destruct (IH (y1 :: u) x Ha) as (j & d & p & Hs & Hd & Hp & Hj & Hn & Hn').
    { cbn [length] in *. lia. } { cbn [hd]. lia. }
    exists (S j), d, p. rewrite Hs. cbn [nth length] in *. repeat split; try lia.
Qed.

Lemma seg_last_gen : forall xp fp x, asc xp = true -> xp <> [] -> length fp = length xp ->
  x = last xp 0 -> seg x xp fp = FNum (last fp 0) 1.
Proof.
  induction xp as [|x0 t IH]; intros fp x Ha Hne Hl Hx; [congruence|].
  destruct t as [|x1 t].
  - destruct fp as [|y0 [|y1 u]]; cbn [length] in Hl; try lia. reflexivity.
  - destruct fp as [|y0 [|y1 u]]; cbn [length] in Hl; try lia.
    apply asc_cons in Ha as [H01 Ha]. rewrite seg_cons2. rewrite last_cons2 in Hx.
    assert (x1 <= x).
    { subst x. rewrite <- (nth_last_Z (x1 :: t)) by congruence.
      change x1 with (nth 0 (x1 :: t) 0) at 1. apply asc_nth_le; auto. cbn [length]; lia. }
    destruct (x <? x1) eqn:E; [apply Z.ltb_lt in E; lia|].
    rewrite (IH (y1 :: u) x Ha) by (auto; try congruence; cbn [length] in *; lia).
    reflexivity.
Qed.

Lemma nth_zseq : forall n k j, (j < n)%nat -> nth j (zseq k n) 0 = k + Z.of_nat j.
Proof.
  induction n as [|n IH]; intros k j H; [lia|]. rewrite zseq_S. destruct j as [|j]; cbn [nth]; [lia|].
  rewrite IH by lia. lia.
Qed.
Lemma zseq_length : forall n k, length (zseq k n) = n.
Proof. induction n; intros; cbn [zseq length]; auto. Qed.

Definition cidx (B : Z) (len : nat) : list Z := map (Z.min B) (zseq 0 len).
Lemma cidx_length B len : length (cidx B len) = len.
Proof. unfold cidx. rewrite map_length. apply zseq_length. Qed.
Lemma nth_cidx B len j : 0 <= B -> (j < len)%nat -> nth j (cidx B len) 0 = Z.min B (Z.of_nat j).
Proof.
  intros HB Hj. unfold cidx.
  transitivity (nth j (map (Z.min B) (zseq 0 len)) (Z.min B 0)); [f_equal; lia|].
  rewrite map_nth, nth_zseq by auto. f_equal.
Qed.

Lemma bounds_asc cm lnan rnan dv es x :
  asc es = true -> length es = S (length dv) -> (0 < length dv)%nat ->
  match cell_one MBounds cm lnan rnan false dv es x with
  | Idx i => contains (pairs es) x i = true
       \/ (x < hd 0 es /\ lnan = false /\ i = 0)
       \/ (last es 0 < x /\ rnan = false /\ i = lenZ dv - 1)
       \/ (i = INT_MIN /\ cm <> CMask /\ nan_out lnan rnan (hd 0 es) (last es 0) x)
  | Masked => cm = CMask /\ nan_out lnan rnan (hd 0 es) (last es 0) x
  end.
Proof.
  intros Ha Hlen Hdv.
  assert (Hne : es <> []) by (destruct es; [discriminate | congruence]).
  unfold cell_one, fidx_one, to_cell, interp1, lenZ. cbn [is_bounds is_exact andb].
  fold (cidx (Z.of_nat (length dv) - 1) (length es)).
  set (B := Z.of_nat (length dv) - 1). assert (HB : 0 <= B) by (unfold B; lia).
  assert (Hcl := cidx_length B (length es)).
  destruct (last es 0 <? x) eqn:E1.
  { apply Z.ltb_lt in E1. destruct rnan.
    - destruct cm; [right; right; right | | right; right; right];
        unfold nan_out; repeat split; auto; try discriminate.
    - right; right; left. repeat split; auto.
      rewrite <- (nth_last_Z (cidx B (length es))) by (intros E; rewrite E in Hcl; cbn in Hcl; lia).
      rewrite Hcl, nth_cidx by lia. rewrite Z.quot_1_r. unfold B. lia. }
  apply Z.ltb_ge in E1.
  destruct (x <? hd 0 es) eqn:E2.
  { apply Z.ltb_lt in E2. destruct lnan.
    - destruct cm; [right; right; right | | right; right; right];
         unfold nan_out; repeat split; auto; try discriminate.
    - right; left. repeat split; auto.
      replace (hd 0 (cidx B (length es))) with (nth 0 (cidx B (length es)) 0)
        by (destruct (cidx B (length es)); reflexivity).
      rewrite nth_cidx by lia. rewrite Z.quot_1_r. lia. }
  apply Z.ltb_ge in E2.
  destruct (Z.eq_dec x (last es 0)) as [Hl | Hl].
  - rewrite seg_last_gen by auto.
    rewrite <- (nth_last_Z (cidx B (length es))) by (intros E; rewrite E in Hcl; cbn in Hcl; lia).
    rewrite Hcl, nth_cidx by lia. left. rewrite Z.quot_1_r.
    replace (Z.min B (Z.of_nat (length es - 1))) with (Z.of_nat (length dv - 1)) by (unfold B; lia).
    apply contains_intro; auto; [lia|].
    replace (S (length dv - 1)) with (length es - 1)%nat by lia.
    rewrite nth_last_Z by auto. split; [|lia].
    rewrite Hl, <- (nth_last_Z es Hne). apply asc_nth_le; auto. lia.
  - destruct (seg_gen es (cidx B (length es)) x Ha Hcl) as (j & d & p & Hs & Hd & Hp & Hj & Hn & Hn'); [lia|].
    rewrite Hs, !nth_cidx by lia. left.
    assert (Hc : contains (pairs es) x (Z.of_nat j) = true)
      by (apply contains_intro; auto; lia).
    destruct (Z.eq_dec (Z.of_nat j) B) as [Ej | Ej].
    + replace (Z.min B (Z.of_nat (S j))) with B by lia. replace (Z.min B (Z.of_nat j)) with B by lia.
      replace (B * d + (B - B) * p) with (B * d + 0) by ring. rewrite quot_frac by lia.
      rewrite <- Ej. exact Hc.
    + assert (Z.of_nat j < B) by (unfold B in *; lia).
      replace (Z.min B (Z.of_nat (S j))) with (Z.of_nat j + 1) by lia.
      replace (Z.min B (Z.of_nat j)) with (Z.of_nat j) by lia.
      replace (Z.of_nat j * d + (Z.of_nat j + 1 - Z.of_nat j) * p) with (Z.of_nat j * d + p) by ring.
      rewrite quot_frac by lia. exact Hc.
Qed.

(* ---- exact, ascending coordinate ------------------------------------------------------ *)
Lemma exact_ok_intro cs x i : (i < length cs)%nat -> nth i cs 0 = x ->
  exact_ok cs x (Z.of_nat i) = true.
Proof.
  intros Hi H. unfold exact_ok, valid_idx, nthZ. rewrite Nat2Z.id.
  repeat (apply andb_true_iff; split); try apply Z.leb_le; try apply Z.ltb_lt;
    try apply Z.eqb_eq; lia.
Qed.

Lemma exact_asc cm lnan rnan cs de x :
  asc cs = true -> cs <> [] ->
  match cell_one MExact cm lnan rnan false cs de x with
  | Idx i => exact_ok cs x i = true
  | Masked => memZ x cs = false
  end.
Proof.
  intros Ha Hne.
  assert (Hlen : (0 < length cs)%nat) by (destruct cs; [congruence | cbn; lia]).
  unfold cell_one, fidx_one, to_cell. cbn [is_bounds is_exact andb].
  destruct (memZ x cs) eqn:M; cbn [negb]; [|reflexivity].
  unfold memZ in M. apply existsb_exists in M as (c & Hin & Hc). apply Z.eqb_eq in Hc. subst c.
  pose proof (asc_In_bounds _ _ Ha Hin) as Hb. unfold interp1.
  replace (last cs 0 <? x) with false by (symmetry; apply Z.ltb_ge; lia).
  replace (x <? hd 0 cs) with false by (symmetry; apply Z.ltb_ge; lia).
  destruct (Z.eq_dec x (last cs 0)) as [Hl | Hl].
  - rewrite seg_last by auto. rewrite Z.quot_1_r.
    replace (0 + Z.of_nat (length cs) - 1) with (Z.of_nat (length cs - 1)) by lia.
    apply exact_ok_intro; [lia|]. rewrite nth_last_Z; auto.
  - destruct (seg_canon cs 0 x Ha) as (j & d & p & Hs & Hd & Hp & Hj & Hn & Hn'); [lia|].
    rewrite Hs. cbn [Z.add]. rewrite quot_frac by lia.
    apply exact_ok_intro; [lia|].
    destruct (asc_In_cases cs j x Ha Hin Hj); lia.
Qed.

(* ==== descending coordinates: xp = rev, idx = n-1 .. 0 ==================================== *)
Fixpoint zdown (k : Z) (n : nat) : list Z :=
  match n with O => [] | S n' => k :: zdown (k - 1) n' end.
Lemma zdown_S k n : zdown k (S n) = k :: zdown (k - 1) n.
Proof. reflexivity. Qed.

Lemma zdown_snoc : forall n a, zdown a n ++ [a - Z.of_nat n] = zdown a (S n).
Proof.
  induction n as [|n IH]; intros a.
  - cbn. f_equal. lia.
  - rewrite zdown_S. cbn [app]. rewrite (zdown_S a (S n)). f_equal.
    replace (a - Z.of_nat (S n)) with (a - 1 - Z.of_nat n) by lia. apply IH.
Qed.

Lemma rev_zseq : forall n k, rev (zseq k n) = zdown (k + Z.of_nat n - 1) n.
Proof.
  induction n as [|n IH]; intros k; [reflexivity|].
  rewrite zseq_S. cbn [rev]. rewrite IH.
  replace (k + 1 + Z.of_nat n - 1) with (k + Z.of_nat (S n) - 1) by lia.
  replace k with (k + Z.of_nat (S n) - 1 - Z.of_nat n) at 2 by lia.
  apply zdown_snoc.
Qed.

Lemma zdown_hd k n : (0 < n)%nat -> hd 0 (zdown k n) = k.
Proof. destruct n; [lia | reflexivity]. Qed.

Lemma zdown_last : forall n k, (0 < n)%nat -> last (zdown k n) 0 = k - Z.of_nat n + 1.
Proof.
  induction n as [|n IH]; intros k H; [lia|]. destruct n as [|n].
  - cbn. lia.
  - change (zdown k (S (S n))) with (k :: (k - 1) :: zdown (k - 1 - 1) n). rewrite last_cons2.
    change ((k - 1) :: zdown (k - 1 - 1) n) with (zdown (k - 1) (S n)). rewrite IH by lia.
    rewrite !Nat2Z.inj_succ. lia.
Qed.

Lemma seg_canon_d : forall xp k x, asc xp = true -> hd 0 xp <= x < last xp 0 ->
  exists j d p, seg x xp (zdown k (length xp)) = FNum ((k - Z.of_nat j) * d - p) d
    /\ 0 < d /\ 0 <= p < d /\ (S j < length xp)%nat
    /\ nth j xp 0 + p = x /\ nth (S j) xp 0 = nth j xp 0 + d.
Proof.
  induction xp as [|x0 t IH]; intros k x Ha Hx; [simpl in Hx; lia|].
  destruct t as [|x1 t]; [simpl in Hx; lia|].
  apply asc_cons in Ha as [H01 Ha].
  cbn [length]. rewrite !zdown_S, seg_cons2.
  destruct (x <? x1) eqn:E.
  - apply Z.ltb_lt in E. exists 0%nat, (x1 - x0), (x - x0). cbn [hd] in Hx.
    cbn [nth length]. repeat split; try lia. f_equal; ring.
  - apply Z.ltb_ge in E. rewrite last_cons2 in Hx.
    destruct (IH (k - 1) x Ha) as (j & d & p & Hs & Hd & Hp & Hj & Hn & Hn').
    { cbn [hd]. lia. }
    exists (S j), d, p. cbn [length] in Hs, Hj. rewrite zdown_S in Hs. rewrite Hs.
    cbn [nth length] in *. repeat split; try lia.
    f_equal. rewrite Nat2Z.inj_succ. ring.
Qed.

Lemma seg_last_d : forall xp k x, asc xp = true -> xp <> [] -> x = last xp 0 ->
  seg x xp (zdown k (length xp)) = FNum (k - Z.of_nat (length xp) + 1) 1.
Proof.
  induction xp as [|x0 t IH]; intros k x Ha Hne Hx; [congruence|].
  destruct t as [|x1 t].
  - cbn. f_equal. lia.
  - apply asc_cons in Ha as [H01 Ha]. cbn [length]. rewrite !zdown_S, seg_cons2.
    rewrite last_cons2 in Hx.
    assert (x1 <= x).
    { subst x. rewrite <- (nth_last_Z (x1 :: t)) by congruence.
      change x1 with (nth 0 (x1 :: t) 0) at 1. apply asc_nth_le; auto. cbn [length]; lia. }
    destruct (x <? x1) eqn:E; [apply Z.ltb_lt in E; lia|].
    change (k - 1 :: zdown (k - 1 - 1) (length t)) with (zdown (k - 1) (length (x1 :: t))).
    rewrite (IH (k - 1) x Ha) by (auto; congruence). f_equal. cbn [length]. lia.
Qed.

(* sortedness of the reversed list *)
Lemma asc_snoc : forall l a, asc l = true -> (l <> [] -> last l 0 < a) -> asc (l ++ [a]) = true.
Proof.
  induction l as [|b l IH]; intros a Ha Hl; [reflexivity|].
  destruct l as [|c l].
  - cbn [app]. apply asc_cons. split; [apply Hl; congruence | reflexivity].
  - apply asc_cons in Ha as [Hbc Ha]. change ((b :: c :: l) ++ [a]) with (b :: (c :: (l ++ [a]))).
    apply asc_cons. split; [exact Hbc|]. apply (IH a Ha). intros _. rewrite last_cons2 in Hl.
    apply Hl. congruence.
Qed.

Lemma desc_cons a b l : desc (a :: b :: l) = true <-> b < a /\ desc (b :: l) = true.
Proof.
  unfold desc, all_neg. cbn [diffs forallb]. rewrite andb_true_iff, Z.ltb_lt.
  split; intros [H1 H2]; split; auto; lia.
Qed.

Lemma hd_rev : forall (l : list Z), hd 0 (rev l) = last l 0.
Proof.
  induction l as [|a l IH]; [reflexivity|]. cbn [rev]. destruct l as [|b l]; [reflexivity|].
  rewrite last_cons2, <- IH. destruct (rev (b :: l)) eqn:E; [|reflexivity].
  apply (f_equal (@length Z)) in E. rewrite rev_length in E. discriminate.
Qed.
Lemma last_rev (l : list Z) : last (rev l) 0 = hd 0 l.
Proof. destruct l as [|a l]; [reflexivity|]. cbn [rev hd]. apply last_last. Qed.

Lemma desc_rev_asc : forall l, desc l = true -> asc (rev l) = true.
Proof.
  induction l as [|a l IH]; intros H; [reflexivity|]. cbn [rev].
  destruct l as [|b l]; [reflexivity|].
  apply desc_cons in H as [Hba H]. apply asc_snoc; [apply IH; exact H|].
  intros _. rewrite last_rev. cbn [hd]. exact Hba.
Qed.

Lemma rint_up m d p : 0 < d -> 0 <= p < d ->
  (rint (m * d + p) d = m /\ 2 * p <= d) \/ (rint (m * d + p) d = m + 1 /\ d <= 2 * p).
Proof.
  intros Hd Hp. rewrite rint_frac by lia.
  destruct (2 * p <? d) eqn:C1; [apply Z.ltb_lt in C1; left; lia|]. apply Z.ltb_ge in C1.
  destruct (d <? 2 * p) eqn:C2; [apply Z.ltb_lt in C2; right; lia|]. apply Z.ltb_ge in C2.
  destruct (Z.even m); [left | right]; lia.
Qed.

Lemma rint_down m d p : 0 < d -> 0 <= p < d ->
  (rint (m * d - p) d = m /\ 2 * p <= d) \/ (rint (m * d - p) d = m - 1 /\ d <= 2 * p).
Proof.
  intros Hd Hp. destruct (Z.eq_dec p 0) as [-> | Hp0].
  - left. replace (m * d - 0) with (m * d + 0) by lia. rewrite rint_frac by lia.
    replace (2 * 0 <? d) with true by (symmetry; apply Z.ltb_lt; lia). lia.
  - replace (m * d - p) with ((m - 1) * d + (d - p)) by ring.
    destruct (rint_up (m - 1) d (d - p)) as [[H1 H2] | [H1 H2]]; try lia.
Qed.

(* the two candidate positions around x *)
Lemma near_pos xp x j d p : asc xp = true -> (S j < length xp)%nat ->
  nth j xp 0 + p = x -> nth (S j) xp 0 = nth j xp 0 + d -> 0 <= p < d ->
  (2 * p <= d -> forall c, In c xp -> Z.abs (x - nth j xp 0) <= Z.abs (x - c))
  /\ (d <= 2 * p -> forall c, In c xp -> Z.abs (x - nth (S j) xp 0) <= Z.abs (x - c)).
Proof.
  intros Ha Hj Hn Hn' Hp.
  split; intros H c Hin; destruct (asc_In_cases xp j c Ha Hin Hj); lia.
Qed.

Lemma nearest_ok_rev cs x j : (j < length cs)%nat ->
  (forall c, In c (rev cs) -> Z.abs (x - nth j (rev cs) 0) <= Z.abs (x - c)) ->
  nearest_ok cs x (Z.of_nat (length cs) - 1 - Z.of_nat j) = true.
Proof.
  intros Hj H. unfold nearest_ok, valid_idx, nthZ, absd.
  replace (Z.to_nat (Z.of_nat (length cs) - 1 - Z.of_nat j)) with (length cs - S j)%nat by lia.
  rewrite <- rev_nth by auto.
  apply andb_true_iff; split.
  - apply andb_true_iff; split; [apply Z.leb_le | apply Z.ltb_lt]; lia.
  - apply forallb_forall. intros c Hc. apply Z.leb_le. apply H. apply in_rev in Hc. exact Hc.
Qed.

Lemma nearest_desc cm lnan rnan cs de x :
  desc cs = true -> cs <> [] ->
  match cell_one MNearest cm lnan rnan true cs de x with
  | Idx i => nearest_ok cs x i = true
             \/ (i = INT_MIN /\ cm <> CMask /\ nan_out lnan rnan (last cs 0) (hd 0 cs) x)
  | Masked => cm = CMask /\ nan_out lnan rnan (last cs 0) (hd 0 cs) x
  end.
Proof.
  intros Hd Hne.
  assert (Hlen : (0 < length cs)%nat) by (destruct cs; [congruence | cbn; lia]).
  pose proof (desc_rev_asc _ Hd) as Ha.
  assert (Hne' : rev cs <> []).
  { intros E. apply (f_equal (@length Z)) in E. rewrite rev_length in E. cbn in E. lia. }
  unfold cell_one, fidx_one, to_cell, interp1. cbn [is_bounds is_exact andb].
  rewrite rev_zseq, hd_rev, last_rev. cbn [Z.add].
  set (n := length cs) in *.
  assert (Hrl : length (rev cs) = n) by apply rev_length.
  destruct (hd 0 cs <? x) eqn:E1.
  { apply Z.ltb_lt in E1. destruct rnan.
    - destruct cm; [right | | right]; unfold nan_out; repeat split; auto; try discriminate.
    - left. rewrite zdown_last, rint_int by lia.
      replace (Z.of_nat n - 1 - Z.of_nat n + 1) with (Z.of_nat n - 1 - Z.of_nat (n - 1)) by lia.
      apply nearest_ok_rev; [lia|]. intros c Hc. fold n. rewrite <- Hrl at 1.
      rewrite nth_last_Z, last_rev by auto.
      pose proof (asc_In_bounds _ _ Ha Hc) as B. rewrite last_rev in B. lia. }
  apply Z.ltb_ge in E1.
  destruct (x <? last cs 0) eqn:E2.
  { apply Z.ltb_lt in E2. destruct lnan.
    - destruct cm; [right | | right]; unfold nan_out; repeat split; auto; try discriminate.
    - left. rewrite zdown_hd, rint_int by lia.
      replace (Z.of_nat n - 1) with (Z.of_nat n - 1 - Z.of_nat 0) by lia.
      apply nearest_ok_rev; [lia|]. intros c Hc.
      replace (nth 0 (rev cs) 0) with (hd 0 (rev cs)) by (destruct (rev cs); reflexivity).
      pose proof (asc_In_bounds _ _ Ha Hc) as B. rewrite hd_rev in *. lia. }
  apply Z.ltb_ge in E2.
  destruct (Z.eq_dec x (hd 0 cs)) as [Hl | Hl].
  - rewrite <- Hrl. rewrite seg_last_d by (auto; rewrite last_rev; auto). left. rewrite rint_int.
    rewrite Hrl.
    replace (Z.of_nat n - 1 - Z.of_nat n + 1) with (Z.of_nat n - 1 - Z.of_nat (n - 1)) by lia.
    apply nearest_ok_rev; [lia|]. intros c Hc. fold n. rewrite <- Hrl at 1.
    rewrite nth_last_Z, last_rev by auto.
    pose proof (asc_In_bounds _ _ Ha Hc) as B. rewrite last_rev in B. lia.
  - destruct (seg_canon_d (rev cs) (Z.of_nat n - 1) x Ha) as (j & d & p & Hs & Hd' & Hp & Hj & Hn & Hn').
    { rewrite hd_rev, last_rev. lia. }
    rewrite Hrl in Hs, Hj. rewrite Hs. left.
    destruct (near_pos (rev cs) x j d p Ha ltac:(lia) Hn Hn' Hp) as [N1 N2].
    destruct (rint_down (Z.of_nat n - 1 - Z.of_nat j) d p Hd' Hp) as [[R1 R2] | [R1 R2]]; rewrite R1.
    + apply nearest_ok_rev; [lia|]. auto.
    + replace (Z.of_nat n - 1 - Z.of_nat j - 1) with (Z.of_nat n - 1 - Z.of_nat (S j)) by lia.
      apply nearest_ok_rev; [lia|]. auto.
Qed.

(* ---- bounds, descending edges ---------------------------------------------------------- *)
Lemma contains_rev es x j : (S j < length es)%nat ->
  nth j (rev es) 0 <= x <= nth (S j) (rev es) 0 ->
  contains (pairs es) x (Z.of_nat (length es) - 2 - Z.of_nat j) = true.
Proof.
  intros Hj Hx. rewrite !rev_nth in Hx by lia.
  unfold contains, valid_idx.
  replace (Z.to_nat (Z.of_nat (length es) - 2 - Z.of_nat j)) with (length es - S (S j))%nat by lia.
  rewrite pairs_length, nth_pairs by lia.
  replace (S (length es - S (S j))) with (length es - S j)%nat by lia.
  unfold cell_lo, cell_hi; cbn [fst snd].
  repeat (apply andb_true_iff; split); try apply Z.leb_le; try apply Z.ltb_lt; lia.
Qed.

Lemma rev_ne (l : list Z) : l <> [] -> rev l <> [].
Proof. intros H E. apply (f_equal (@length Z)) in E. rewrite rev_length in E. destruct l; [congruence | discriminate]. Qed.

Lemma bounds_desc cm lnan rnan dv es x :
  desc es = true -> length es = S (length dv) -> (0 < length dv)%nat ->
  match cell_one MBounds cm lnan rnan true dv es x with
  | Idx i => contains (pairs es) x i = true
       \/ (x < last es 0 /\ lnan = false /\ i = lenZ dv - 1)
       \/ (hd 0 es < x /\ rnan = false /\ i = 0)
       \/ (i = INT_MIN /\ cm <> CMask /\ nan_out lnan rnan (last es 0) (hd 0 es) x)
  | Masked => cm = CMask /\ nan_out lnan rnan (last es 0) (hd 0 es) x
  end.
Proof.
  intros Hd Hlen Hdv.
  assert (Hne : es <> []) by (destruct es; [discriminate | congruence]).
  pose proof (desc_rev_asc _ Hd) as Ha. pose proof (rev_ne _ Hne) as Hne'.
  unfold cell_one, fidx_one, to_cell, interp1, lenZ. cbn [is_bounds is_exact andb].
  fold (cidx (Z.of_nat (length dv) - 1) (length es)).
  set (B := Z.of_nat (length dv) - 1). assert (HB : 0 <= B) by (unfold B; lia).
  set (len := length es) in *.
  assert (Hcl : length (rev (cidx B len)) = length (rev es))
    by (rewrite !rev_length; apply cidx_length).
  assert (Hnr : forall j, (j < len)%nat -> nth j (rev (cidx B len)) 0 = Z.min B (Z.of_nat (len - S j))).
  { intros j Hj. rewrite rev_nth by (rewrite cidx_length; lia). rewrite cidx_length. apply nth_cidx; lia. }
  assert (Hrl : length (rev es) = len) by apply rev_length.
  rewrite hd_rev, last_rev.
  destruct (hd 0 es <? x) eqn:E1.
  { apply Z.ltb_lt in E1. destruct rnan.
    - destruct cm; [right; right; right | | right; right; right];
        unfold nan_out; repeat split; auto; try discriminate.
    - right; right; left. repeat split; auto.
      rewrite last_rev.
      replace (hd 0 (cidx B len)) with (nth 0 (cidx B len) 0) by (destruct (cidx B len); reflexivity).
      rewrite nth_cidx by lia. rewrite Z.quot_1_r. lia. }
  apply Z.ltb_ge in E1.
  destruct (x <? last es 0) eqn:E2.
  { apply Z.ltb_lt in E2. destruct lnan.
    - destruct cm; [right; right; right | | right; right; right];
         unfold nan_out; repeat split; auto; try discriminate.
    - right; left. repeat split; auto.
      rewrite hd_rev.
      rewrite <- (nth_last_Z (cidx B len)) by (intros E; apply (f_equal (@length Z)) in E; rewrite cidx_length in E; cbn in E; lia).
      rewrite cidx_length, nth_cidx by lia. rewrite Z.quot_1_r. unfold B. lia. }
  apply Z.ltb_ge in E2.
  destruct (Z.eq_dec x (hd 0 es)) as [Hl | Hl].
  - rewrite seg_last_gen by (auto; rewrite last_rev; auto).
    rewrite last_rev.
    replace (hd 0 (cidx B len)) with (nth 0 (cidx B len) 0) by (destruct (cidx B len); reflexivity).
    rewrite nth_cidx by lia. left. rewrite Z.quot_1_r.
    replace (Z.min B (Z.of_nat 0)) with (Z.of_nat len - 2 - Z.of_nat (len - 2)) by lia.
    apply contains_rev; [lia|].
    replace (S (len - 2)) with (length (rev es) - 1)%nat by lia.
    rewrite nth_last_Z, last_rev by auto. split; [|lia].
    rewrite Hl, <- last_rev, <- (nth_last_Z (rev es) Hne'). apply asc_nth_le; auto. lia.
  - destruct (seg_gen (rev es) (rev (cidx B len)) x Ha Hcl) as (j & d & p & Hs & Hd' & Hp & Hj & Hn & Hn').
    { rewrite hd_rev, last_rev. lia. }
    rewrite Hrl in Hj. rewrite Hs, !Hnr by lia. left.
    destruct j as [|j].
    + (* lowest cell: both ends of the segment carry index n-1 *)
      replace (Z.min B (Z.of_nat (len - 1))) with B by (unfold B; lia).
      replace (Z.min B (Z.of_nat (len - 2))) with B by (unfold B; lia).
      replace (B * d + (B - B) * p) with (B * d + 0) by ring. rewrite quot_frac by lia.
      replace B with (Z.of_nat len - 2 - Z.of_nat 0) by (unfold B; lia).
      apply contains_rev; lia.
    + replace (Z.min B (Z.of_nat (len - S (S j)))) with (Z.of_nat len - 2 - Z.of_nat j) by (unfold B; lia).
      replace (Z.min B (Z.of_nat (len - S (S (S j))))) with (Z.of_nat len - 2 - Z.of_nat j - 1) by (unfold B; lia).
      set (m := Z.of_nat len - 2 - Z.of_nat j).
      destruct (Z.eq_dec p 0) as [-> | Hp0].
      * replace (m * d + (m - 1 - m) * 0) with (m * d + 0) by ring.
        rewrite quot_frac by (unfold m; lia). unfold m. apply contains_rev; [lia|].
        split; [|lia]. rewrite <- Hn, Z.add_0_r. apply asc_nth_le; auto. lia.
      * replace (m * d + (m - 1 - m) * p) with ((m - 1) * d + (d - p)) by ring.
        rewrite quot_frac by (unfold m; lia).
        replace (m - 1) with (Z.of_nat len - 2 - Z.of_nat (S j)) by (unfold m; lia).
        apply contains_rev; lia.
Qed.

(* ---- exact, descending coordinate -------------------------------------------------------- *)
Lemma exact_ok_rev cs x j : (j < length cs)%nat -> nth j (rev cs) 0 = x ->
  exact_ok cs x (Z.of_nat (length cs) - 1 - Z.of_nat j) = true.
Proof.
  intros Hj H. rewrite rev_nth in H by auto. unfold exact_ok, valid_idx, nthZ.
  replace (Z.to_nat (Z.of_nat (length cs) - 1 - Z.of_nat j)) with (length cs - S j)%nat by lia.
  repeat (apply andb_true_iff; split); try apply Z.leb_le; try apply Z.ltb_lt;
    try apply Z.eqb_eq; lia.
Qed.

Lemma exact_desc cm lnan rnan cs de x :
  desc cs = true -> cs <> [] ->
  match cell_one MExact cm lnan rnan true cs de x with
  | Idx i => exact_ok cs x i = true
  | Masked => memZ x cs = false
  end.
Proof.
  intros Hd Hne.
  assert (Hlen : (0 < length cs)%nat) by (destruct cs; [congruence | cbn; lia]).
  pose proof (desc_rev_asc _ Hd) as Ha. pose proof (rev_ne _ Hne) as Hne'.
  unfold cell_one, fidx_one, to_cell. cbn [is_bounds is_exact andb].
  destruct (memZ x cs) eqn:M; cbn [negb]; [|reflexivity].
  unfold memZ in M. apply existsb_exists in M as (c & Hin & Hc). apply Z.eqb_eq in Hc. subst c.
  apply in_rev in Hin.
  pose proof (asc_In_bounds _ _ Ha Hin) as Hb. unfold interp1.
  replace (last (rev cs) 0 <? x) with false by (symmetry; apply Z.ltb_ge; lia).
  replace (x <? hd 0 (rev cs)) with false by (symmetry; apply Z.ltb_ge; lia).
  rewrite rev_zseq. cbn [Z.add].
  assert (Hrl : length (rev cs) = length cs) by apply rev_length.
  destruct (Z.eq_dec x (last (rev cs) 0)) as [Hl | Hl].
  - rewrite <- Hrl. rewrite seg_last_d by auto. rewrite Z.quot_1_r, Hrl.
    replace (Z.of_nat (length cs) - 1 - Z.of_nat (length cs) + 1)
      with (Z.of_nat (length cs) - 1 - Z.of_nat (length cs - 1)) by lia.
    apply exact_ok_rev; [lia|]. rewrite <- Hrl, nth_last_Z; auto.
  - rewrite <- Hrl.
    destruct (seg_canon_d (rev cs) (Z.of_nat (length (rev cs)) - 1) x Ha) as (j & d & p & Hs & Hd' & Hp & Hj & Hn & Hn'); [lia|].
    rewrite Hs. rewrite Hrl in *.
    assert (p = 0) by (destruct (asc_In_cases (rev cs) j x Ha Hin ltac:(lia)); lia). subst p.
    replace ((Z.of_nat (length cs) - 1 - Z.of_nat j) * d - 0)
      with ((Z.of_nat (length cs) - 1 - Z.of_nat j) * d + 0) by ring.
    rewrite quot_frac by lia. apply exact_ok_rev; lia.
Qed.

(* ==== both directions ====================================================================== *)
Lemma nearest_both dsc cm lnan rnan cs de x :
  mono dsc cs = true -> cs <> [] ->
  match cell_one MNearest cm lnan rnan dsc cs de x with
  | Idx i => nearest_ok cs x i = true
             \/ (i = INT_MIN /\ cm <> CMask /\ nan_out lnan rnan (lo_of dsc cs) (hi_of dsc cs) x)
  | Masked => cm = CMask /\ nan_out lnan rnan (lo_of dsc cs) (hi_of dsc cs) x
  end.
Proof. destruct dsc; cbn [mono lo_of hi_of]; [apply nearest_desc | apply nearest_asc]. Qed.

Lemma bounds_both dsc cm lnan rnan dv es x :
  mono dsc es = true -> length es = S (length dv) -> (0 < length dv)%nat ->
  match cell_one MBounds cm lnan rnan dsc dv es x with
  | Idx i => contains (pairs es) x i = true
       \/ (x < lo_of dsc es /\ lnan = false /\ i = (if dsc then lenZ dv - 1 else 0))
       \/ (hi_of dsc es < x /\ rnan = false /\ i = (if dsc then 0 else lenZ dv - 1))
       \/ (i = INT_MIN /\ cm <> CMask /\ nan_out lnan rnan (lo_of dsc es) (hi_of dsc es) x)
  | Masked => cm = CMask /\ nan_out lnan rnan (lo_of dsc es) (hi_of dsc es) x
  end.
Proof. destruct dsc; cbn [mono lo_of hi_of]; [apply bounds_desc | apply bounds_asc]. Qed.

Lemma exact_both dsc cm lnan rnan cs de x :
  mono dsc cs = true -> cs <> [] ->
  match cell_one MExact cm lnan rnan dsc cs de x with
  | Idx i => exact_ok cs x i = true
  | Masked => memZ x cs = false
  end.
Proof. destruct dsc; cbn [mono]; [apply exact_desc | apply exact_asc]. Qed.

(* ---- whole call ----------------------------------------------------------------------------- *)
Lemma asc_not_all_neg l : asc l = true -> (2 <= length l)%nat -> all_neg (diffs l) = false.
Proof.
  destruct l as [|a [|b l]]; cbn [length]; try lia. intros H _.
  apply asc_cons in H as [H _]. unfold all_neg. cbn [diffs forallb].
  replace (b - a <? 0) with false; [reflexivity|]. symmetry; apply Z.ltb_ge; lia.
Qed.

Lemma impl_form bs c xs s dv de dsc :
  bad_opts c = false -> prep c = inr (s, dv, de) -> mono dsc de = true -> (2 <= length de)%nat ->
  let xs' := map (Z.mul s) xs in
  let cells := map (cell_gen bs (c_m c) (c_c c) (c_lnan c) (c_rnan c) dsc dv de) xs' in
  let out := existsb (fun x => (x <? lo_of dsc de) || (hi_of dsc de <? x)) xs' in
  impl_val2idx_gen bs c xs =
  match c_b c with
  | BError => if out then Raised EOutOfBounds else Done cells false dv
  | BWarn => Done cells out dv
  | _ => Done cells false dv
  end.
Proof.
  intros Hb Hp Hm Hl. unfold impl_val2idx_gen. rewrite Hb, Hp. destruct dsc; cbn [mono lo_of hi_of] in *.
  - unfold desc in Hm. rewrite Hm. unfold is_out. rewrite hd_rev, last_rev. reflexivity.
  - rewrite (asc_not_all_neg _ Hm Hl). unfold asc in Hm. rewrite Hm. reflexivity.
Qed.

(* the call never changes the coordinate variable *)
Lemma coord_unchanged bs c xs r w co :
  impl_val2idx_gen bs c xs = Done r w co -> co = map (Z.mul (scale_of c)) (c_cs c).
Proof.
  unfold impl_val2idx_gen, prep, scale_of, derive_edges.
  destruct (bad_opts c); [discriminate|].
  assert (Hid : map (Z.mul 1) (c_cs c) = c_cs c).
  { induction (c_cs c) as [|a l IH]; cbn [map]; [reflexivity|]. rewrite IH. f_equal. lia. }
  assert (G : forall s dv de, dv = map (Z.mul s) (c_cs c) ->
     (let d := diffs de in
      let run := fun dsc : bool =>
        let xs' := map (Z.mul s) xs in
        let cells := map (cell_gen bs (c_m c) (c_c c) (c_lnan c) (c_rnan c) dsc dv de) xs' in
        let out := existsb (is_out (if dsc then rev de else de)) xs' in
        match c_b c with
        | BError => if out then Raised EOutOfBounds else Done cells false dv
        | BWarn => Done cells out dv
        | _ => Done cells false dv
        end in
      if all_neg d then run true else if all_pos d then run false else Raised ENotMono) = Done r w co ->
     co = map (Z.mul s) (c_cs c)).
  { intros s dv de Hdv. cbv zeta.
    destruct (all_neg (diffs de)); [|destruct (all_pos (diffs de)); [|discriminate]];
      (destruct (c_b c); try destruct (existsb _ _); intros H; inversion H; subst; auto). }
  destruct (c_bv c) as [|es|rs]; cbn [edges_of_bvar].
  - destruct (c_m c).
    + apply G. auto.
    + destruct (diffs (c_cs c)) eqn:Ed; [discriminate|].
      destruct (uniform (z :: l)); apply G; reflexivity.
    + apply G. auto.
    + apply G. auto.
  - destruct (c_m c); apply G; auto.
  - destruct (c_m c); apply G; auto.
Qed.

(* the three bounds representations feed the same edge list *)
Lemma pairs_cons2 a b l : pairs (a :: b :: l) = (a, b) :: pairs (b :: l).
Proof. reflexivity. Qed.

Lemma pairs_rows : forall rs, rs <> [] -> contig rs = true ->
  pairs (map fst rs ++ [snd (last rs (0, 0))]) = rs.
Proof.
  induction rs as [|p rs IH]; intros Hne Hc; [congruence|].
  destruct rs as [|q rs].
  - destruct p; reflexivity.
  - cbn [contig] in Hc. apply andb_true_iff in Hc as [H1 H2]. apply Z.eqb_eq in H1.
    change (last (p :: q :: rs) (0, 0)) with (last (q :: rs) (0, 0)).
    cbn [map app]. rewrite pairs_cons2.
    change (fst q :: map fst rs ++ [snd (last (q :: rs) (0, 0))])
      with (map fst (q :: rs) ++ [snd (last (q :: rs) (0, 0))]).
    rewrite IH by (auto; congruence). destruct p; cbn [fst snd] in *. subst. reflexivity.
Qed.

Lemma derive_natural cs : (2 <= length cs)%nat ->
  derive_edges cs = inr (map (Z.mul 2) cs, natural_edges cs).
Proof.
  intros H. unfold derive_edges, natural_edges.
  assert (Hd : diffs cs <> []) by (destruct cs as [|a [|b l]]; cbn [length] in H; try lia; discriminate).
  destruct (diffs cs) as [|d0 d]; [congruence|].
  destruct (uniform (d0 :: d)); reflexivity.
Qed.

(* ==== the searchsorted variant of the bounds path ============================================ *)
Lemma brk_cons3 x x0 x1 x2 t k :
  brk x (x0 :: x1 :: x2 :: t) k = if x <? x1 then k else brk x (x1 :: x2 :: t) (k + 1).
Proof. reflexivity. Qed.

Lemma brk_spec : forall xp k x, asc xp = true -> (2 <= length xp)%nat -> hd 0 xp <= x <= last xp 0 ->
  exists i, brk x xp k = k + Z.of_nat i /\ (S i < length xp)%nat /\ nth i xp 0 <= x <= nth (S i) xp 0.
Proof.
  induction xp as [|x0 t IH]; intros k x Ha Hl Hx; [simpl in Hl; lia|].
  destruct t as [|x1 t]; [simpl in Hl; lia|].
  destruct t as [|x2 t].
  - exists 0%nat. cbn [brk nth length hd last] in *. repeat split; lia.
  - rewrite brk_cons3. apply asc_cons in Ha as [H01 Ha]. destruct (x <? x1) eqn:E.
    + apply Z.ltb_lt in E. exists 0%nat. cbn [nth length hd] in *. repeat split; lia.
    + apply Z.ltb_ge in E. rewrite last_cons2 in Hx.
      destruct (IH (k + 1) x Ha ltac:(cbn [length]; lia) ltac:(cbn [hd]; lia)) as (i & Hb & Hi & Hn).
      exists (S i). rewrite Hb. cbn [nth length] in *. repeat split; lia.
Qed.

Lemma cell_gen_false m cm lnan rnan dsc dv de x :
  cell_gen false m cm lnan rnan dsc dv de x = cell_one m cm lnan rnan dsc dv de x.
Proof. reflexivity. Qed.

Lemma cell_gen_nobounds bs m cm lnan rnan dsc dv de x : is_bounds m = false ->
  cell_gen bs m cm lnan rnan dsc dv de x = cell_one m cm lnan rnan dsc dv de x.
Proof. intros H. unfold cell_gen, cell_one, fidx_srch. rewrite H. destruct bs; reflexivity. Qed.

Lemma cell_gen_out m cm lnan rnan (dsc : bool) (dv de : list Z) x :
  (x < hd 0 (if dsc then rev de else de) \/ last (if dsc then rev de else de) 0 < x) ->
  cell_gen true m cm lnan rnan dsc dv de x = cell_one m cm lnan rnan dsc dv de x.
Proof.
  intros H. unfold cell_gen, cell_one, fidx_srch.
  replace ((hd 0 (if dsc then rev de else de) <=? x) && (x <=? last (if dsc then rev de else de) 0)) with false.
  - rewrite andb_false_r. reflexivity.
  - symmetry. apply andb_false_iff. destruct H; [left; apply Z.leb_gt | right; apply Z.leb_gt]; lia.
Qed.

Lemma bounds_asc_srch cm lnan rnan dv es x :
  asc es = true -> length es = S (length dv) -> (0 < length dv)%nat ->
  match cell_gen true MBounds cm lnan rnan false dv es x with
  | Idx i => contains (pairs es) x i = true
       \/ (x < hd 0 es /\ lnan = false /\ i = 0)
       \/ (last es 0 < x /\ rnan = false /\ i = lenZ dv - 1)
       \/ (i = INT_MIN /\ cm <> CMask /\ nan_out lnan rnan (hd 0 es) (last es 0) x)
  | Masked => cm = CMask /\ nan_out lnan rnan (hd 0 es) (last es 0) x
  end.
Proof.
  intros Ha Hlen Hdv.
  destruct (Z_lt_ge_dec x (hd 0 es)) as [Ho | Hlo];
    [rewrite cell_gen_out by (left; exact Ho); apply bounds_asc; auto|].
  destruct (Z_lt_ge_dec (last es 0) x) as [Ho | Hhi];
    [rewrite cell_gen_out by (right; exact Ho); apply bounds_asc; auto|].
  unfold cell_gen, fidx_srch, to_cell, lenZ. cbn [is_bounds is_exact andb].
  replace ((hd 0 es <=? x) && (x <=? last es 0)) with true
    by (symmetry; apply andb_true_iff; split; apply Z.leb_le; lia).
  destruct (brk_spec es 0 x Ha ltac:(lia) ltac:(lia)) as (i & Hb & Hi & Hn).
  rewrite Hb. cbn [Z.add]. left. rewrite Z.quot_1_r.
  fold (cidx (Z.of_nat (length dv) - 1) (length es)). unfold nthZ.
  replace (Z.to_nat (Z.of_nat i + 1)) with (S i) by lia. rewrite Nat2Z.id.
  rewrite !nth_cidx by lia.
  replace (Z.min (Z.min (Z.of_nat (length dv) - 1) (Z.of_nat i)) (Z.min (Z.of_nat (length dv) - 1) (Z.of_nat (S i))))
    with (Z.of_nat i) by lia.
  apply contains_intro; auto.
Qed.

Lemma bounds_desc_srch cm lnan rnan dv es x :
  desc es = true -> length es = S (length dv) -> (0 < length dv)%nat ->
  match cell_gen true MBounds cm lnan rnan true dv es x with
  | Idx i => contains (pairs es) x i = true
       \/ (x < last es 0 /\ lnan = false /\ i = lenZ dv - 1)
       \/ (hd 0 es < x /\ rnan = false /\ i = 0)
       \/ (i = INT_MIN /\ cm <> CMask /\ nan_out lnan rnan (last es 0) (hd 0 es) x)
  | Masked => cm = CMask /\ nan_out lnan rnan (last es 0) (hd 0 es) x
  end.
Proof.
  intros Hd Hlen Hdv.
  destruct (Z_lt_ge_dec x (last es 0)) as [Ho | Hlo];
    [rewrite cell_gen_out by (left; rewrite hd_rev; exact Ho); apply bounds_desc; auto|].
  destruct (Z_lt_ge_dec (hd 0 es) x) as [Ho | Hhi];
    [rewrite cell_gen_out by (right; rewrite last_rev; exact Ho); apply bounds_desc; auto|].
  pose proof (desc_rev_asc _ Hd) as Ha.
  unfold cell_gen, fidx_srch, to_cell, lenZ. cbn [is_bounds is_exact andb].
  rewrite hd_rev, last_rev.
  replace ((last es 0 <=? x) && (x <=? hd 0 es)) with true
    by (symmetry; apply andb_true_iff; split; apply Z.leb_le; lia).
  destruct (brk_spec (rev es) 0 x Ha ltac:(rewrite rev_length; lia) ltac:(rewrite hd_rev, last_rev; lia))
    as (i & Hb & Hi & Hn).
  rewrite rev_length in Hi. rewrite Hb. cbn [Z.add]. left. rewrite Z.quot_1_r.
  fold (cidx (Z.of_nat (length dv) - 1) (length es)). unfold nthZ.
  replace (Z.to_nat (Z.of_nat i + 1)) with (S i) by lia. rewrite Nat2Z.id.
  rewrite !rev_nth by (rewrite cidx_length; lia). rewrite cidx_length, !nth_cidx by lia.
  replace (Z.min (Z.min (Z.of_nat (length dv) - 1) (Z.of_nat (length es - S i)))
                 (Z.min (Z.of_nat (length dv) - 1) (Z.of_nat (length es - S (S i)))))
    with (Z.of_nat (length es) - 2 - Z.of_nat i) by lia.
  apply contains_rev; auto.
Qed.

(* both variants, both directions *)
Lemma bounds_gen bs dsc cm lnan rnan dv es x :
  mono dsc es = true -> length es = S (length dv) -> (0 < length dv)%nat ->
  match cell_gen bs MBounds cm lnan rnan dsc dv es x with
  | Idx i => contains (pairs es) x i = true
       \/ (x < lo_of dsc es /\ lnan = false /\ i = (if dsc then lenZ dv - 1 else 0))
       \/ (hi_of dsc es < x /\ rnan = false /\ i = (if dsc then 0 else lenZ dv - 1))
       \/ (i = INT_MIN /\ cm <> CMask /\ nan_out lnan rnan (lo_of dsc es) (hi_of dsc es) x)
  | Masked => cm = CMask /\ nan_out lnan rnan (lo_of dsc es) (hi_of dsc es) x
  end.
Proof.
  destruct bs; [|rewrite cell_gen_false; apply bounds_both].
  destruct dsc; cbn [mono lo_of hi_of]; [apply bounds_desc_srch | apply bounds_asc_srch].
Qed.

Lemma nearest_gen bs dsc cm lnan rnan cs de x :
  mono dsc cs = true -> cs <> [] ->
  match cell_gen bs MNearest cm lnan rnan dsc cs de x with
  | Idx i => nearest_ok cs x i = true
             \/ (i = INT_MIN /\ cm <> CMask /\ nan_out lnan rnan (lo_of dsc cs) (hi_of dsc cs) x)
  | Masked => cm = CMask /\ nan_out lnan rnan (lo_of dsc cs) (hi_of dsc cs) x
  end.
Proof. rewrite cell_gen_nobounds by reflexivity. apply nearest_both. Qed.

Lemma exact_gen bs dsc cm lnan rnan cs de x :
  mono dsc cs = true -> cs <> [] ->
  match cell_gen bs MExact cm lnan rnan dsc cs de x with
  | Idx i => exact_ok cs x i = true
  | Masked => memZ x cs = false
  end.
Proof. rewrite cell_gen_nobounds by reflexivity. apply exact_both. Qed.
