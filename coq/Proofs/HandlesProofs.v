(* Lemmas for C05 part "closing is local" (Model/Handles.v). *)
From PNC Require Import Base.Util Model.Handles.

Lemma lookup_remove_other n m t : n <> m -> lookup m (remove n t) = lookup m t.
Proof.
  intros H. induction t as [|[k f] t IH]; simpl; auto.
  destruct (Nat.eqb k n) eqn:E; simpl.
  - apply Nat.eqb_eq in E. subst k.
    destruct (Nat.eqb n m) eqn:E2; auto. apply Nat.eqb_eq in E2. contradiction.
  - rewrite IH. reflexivity.
Qed.

Lemma lookup_remove_same n t : lookup n (remove n t) = None.
Proof.
  induction t as [|[k f] t IH]; simpl; auto.
  destruct (Nat.eqb k n) eqn:E; simpl; auto. rewrite E. exact IH.
Qed.

Lemma nth_error_set_same {A} (l : list A) i x y :
  nth_error l i = Some y -> nth_error (set_nth l i x) i = Some x.
Proof. revert i; induction l; intros [|i]; simpl; intros H; try discriminate; auto. Qed.

Lemma nth_error_set_other {A} (l : list A) i j x :
  i <> j -> nth_error (set_nth l i x) j = nth_error l j.
Proof.
  revert i j; induction l; intros [|i] [|j] H; simpl; auto; try contradiction.
Qed.

Lemma lookup_max_none t n : fold_right Nat.max 0 (map fst t) < n -> lookup n t = None.
Proof.
  induction t as [|[k f] t IH]; simpl; auto. intros H.
  destruct (Nat.eqb k n) eqn:E.
  - apply Nat.eqb_eq in E. lia.
  - apply IH. lia.
Qed.

Lemma first_free_free t : lookup (first_free t) t = None.
Proof.
  unfold first_free.
  destruct (filter (fun k => negb (slot_open k t)) (seq 1 (S (length t)))) as [|k l] eqn:E.
  - apply lookup_max_none. lia.
  - assert (In k (filter (fun k => negb (slot_open k t)) (seq 1 (S (length t))))) by (rewrite E; left; auto).
    apply filter_In in H as [_ H]. unfold slot_open in H. destruct (lookup k t); auto. discriminate.
Qed.

(* ---- ownership invariant of the (repaired) code -------------------------------------------------- *)
Definition Inv (st : state) : Prop :=
  (forall o ob, nth_error (objs st) o = Some ob -> o_open ob = true ->
                lookup (o_ncid ob) (tbl st) = Some (o_file ob))
  /\ (forall o1 o2 ob1 ob2, o1 <> o2 -> nth_error (objs st) o1 = Some ob1 -> nth_error (objs st) o2 = Some ob2 ->
                o_open ob1 = true -> o_open ob2 = true -> o_ncid ob1 <> o_ncid ob2).

Lemma Inv0 : Inv st0.
Proof. split; intros; destruct o || destruct o1; simpl in *; discriminate. Qed.

Lemma nth_error_snoc {A} (l : list A) x o y :
  nth_error (l ++ [x]) o = Some y ->
  (o < length l /\ nth_error l o = Some y) \/ (o = length l /\ y = x).
Proof.
  intros H. destruct (Nat.lt_ge_cases o (length l)) as [L|L].
  - left. rewrite nth_error_app1 in H by assumption. auto.
  - right. rewrite nth_error_app2 in H by assumption.
    destruct (o - length l) as [|d] eqn:E; simpl in H.
    + injection H as <-. split; auto. lia.
    + destruct d; discriminate.
Qed.

Lemma Inv_open st f : Inv st -> Inv (do_open st f).
Proof.
  intros [I1 I2]. unfold do_open. set (n := first_free (tbl st)).
  assert (Hn : lookup n (tbl st) = None) by apply first_free_free.
  assert (Hold : forall o ob, nth_error (objs st) o = Some ob -> o_open ob = true -> o_ncid ob <> n).
  { intros o ob H1 H2 E. specialize (I1 o ob H1 H2). rewrite E in I1. congruence. }
  split; simpl.
  - intros o ob H Ho. apply nth_error_snoc in H as [[_ H]|[_ ->]].
    + pose proof (Hold o ob H Ho) as Hne. specialize (I1 o ob H Ho).
      destruct (Nat.eqb n (o_ncid ob)) eqn:E; auto. apply Nat.eqb_eq in E. congruence.
    + simpl. rewrite Nat.eqb_refl. reflexivity.
  - intros o1 o2 ob1 ob2 Hne H1 H2 Ho1 Ho2.
    apply nth_error_snoc in H1 as [[L1 H1]|[L1 ->]]; apply nth_error_snoc in H2 as [[L2 H2]|[L2 ->]].
    + eapply I2; eauto.
    + simpl. eapply Hold; eauto.
    + simpl. intros E. symmetry in E. revert E. eapply Hold; eauto.
    + lia.
Qed.

Lemma Inv_close st o ob :
  Inv st -> nth_error (objs st) o = Some ob -> o_open ob = true ->
  Inv (St (remove (o_ncid ob) (tbl st)) (set_nth (objs st) o (Obj (o_ncid ob) (o_file ob) false))).
Proof.
  intros [I1 I2] Ho Hopen. split; simpl.
  - intros o' ob' H' Ho'. destruct (Nat.eq_dec o o') as [<-|Hne].
    + rewrite (nth_error_set_same _ _ _ _ Ho) in H'. injection H' as <-. discriminate.
    + rewrite nth_error_set_other in H' by assumption.
      rewrite lookup_remove_other.
      * exact (I1 o' ob' H' Ho').
      * exact (I2 o o' ob ob' Hne Ho H' Hopen Ho').
  - intros o1 o2 ob1 ob2 Hne H1 H2 Ho1 Ho2.
    destruct (Nat.eq_dec o o1) as [<-|N1].
    { rewrite (nth_error_set_same _ _ _ _ Ho) in H1. injection H1 as <-. discriminate. }
    destruct (Nat.eq_dec o o2) as [<-|N2].
    { rewrite (nth_error_set_same _ _ _ _ Ho) in H2. injection H2 as <-. discriminate. }
    rewrite nth_error_set_other in H1, H2 by assumption.
    exact (I2 o1 o2 ob1 ob2 Hne H1 H2 Ho1 Ho2).
Qed.

Lemma Inv_impl_step st e : Inv st -> Inv (impl_step st e).
Proof.
  intros I. destruct e as [f|o]; simpl.
  - apply Inv_open. exact I.
  - destruct (nth_error (objs st) o) as [ob|] eqn:E; auto.
    destruct (o_open ob) eqn:Eo; auto. apply Inv_close; auto.
Qed.

Lemma Inv_impl_run_from st h : Inv st -> Inv (fold_left impl_step h st).
Proof. revert st; induction h as [|e t IH]; simpl; intros st I; auto. apply IH, Inv_impl_step, I. Qed.

Lemma Inv_impl_run h : Inv (impl_run h).
Proof. apply Inv_impl_run_from, Inv0. Qed.

(* an object that received no Close is still flagged open in the repaired run *)
Definition OpenUnless (closed : nat -> Prop) (st : state) : Prop :=
  forall o ob, nth_error (objs st) o = Some ob -> ~ closed o -> o_open ob = true.

Lemma open_unless_step (P : nat -> Prop) st e :
  OpenUnless P st -> (forall o, e = Close o -> P o) -> OpenUnless P (impl_step st e).
Proof.
  intros H He. destruct e as [f|o]; simpl.
  - intros o ob Hn Hc. apply nth_error_snoc in Hn as [[_ Hn]|[_ ->]]; eauto.
  - destruct (nth_error (objs st) o) as [ob0|] eqn:E; auto.
    destruct (o_open ob0); auto.
    intros o' ob' Hn Hc. simpl in Hn. destruct (Nat.eq_dec o o') as [<-|Hne].
    + exfalso. apply Hc, He. reflexivity.
    + rewrite nth_error_set_other in Hn by assumption. eauto.
Qed.

Lemma open_unless_run_from (P : nat -> Prop) : forall h st,
  OpenUnless P st -> (forall o, In (Close o) h -> P o) -> OpenUnless P (fold_left impl_step h st).
Proof.
  induction h as [|e t IH]; simpl; intros st H Hin; auto.
  apply IH.
  - apply open_unless_step; [exact H | intros o ->; apply Hin; left; reflexivity].
  - intros o Ho. apply Hin. right. exact Ho.
Qed.

Lemma close_local h o ob :
  nth_error (objs (impl_run h)) o = Some ob -> ~ In (Close o) h ->
  read (impl_run h) o = Some (o_file ob).
Proof.
  intros Hn Hc. unfold read. rewrite Hn.
  destruct (Inv_impl_run h) as [I1 _]. apply (I1 o ob Hn).
  refine (open_unless_run_from (fun o => In (Close o) h) h st0 _ _ o ob Hn Hc).
  - intros o' ob' H'. destruct o'; discriminate.
  - auto.
Qed.

(* ---- closing any number of times ----------------------------------------------------------------- *)
Lemma close_idempotent st o : impl_step (impl_step st (Close o)) (Close o) = impl_step st (Close o).
Proof.
  simpl. destruct (nth_error (objs st) o) as [ob|] eqn:E.
  - destruct (o_open ob) eqn:Eo; simpl.
    + rewrite (nth_error_set_same _ _ _ _ E). simpl. reflexivity.
    + rewrite E, Eo. reflexivity.
  - rewrite E. reflexivity.
Qed.

(* two objects that are open never share a slot, and every open object's slot holds its own file *)
Lemma ownership h : Inv (impl_run h).
Proof. apply Inv_impl_run. Qed.

(* a close of object o leaves what every OTHER object reads untouched, provided that object is open *)
Lemma close_is_local h o o' ob' :
  o <> o' -> nth_error (objs (impl_run h)) o' = Some ob' -> o_open ob' = true ->
  read (impl_step (impl_run h) (Close o)) o' = read (impl_run h) o'.
Proof.
  intros Hne Hn Ho. destruct (ownership h) as [I1 I2]. unfold read. simpl.
  destruct (nth_error (objs (impl_run h)) o) as [ob|] eqn:E; auto.
  destruct (o_open ob) eqn:Eo; auto. simpl.
  rewrite nth_error_set_other by assumption. rewrite Hn.
  apply lookup_remove_other. exact (I2 o o' ob ob' Hne E Hn Eo Ho).
Qed.

(* ---- derived files survive anything that happens to their source ------------------------------------------------ *)
Lemma dstep_derived_prefix ds e : exists ext, snd (dstep ds e) = snd ds ++ ext.
Proof. destruct e; simpl; [exists []; rewrite app_nil_r | eexists]; reflexivity. Qed.

Lemma drun_from_derived_prefix : forall h ds, exists ext, snd (fold_left dstep h ds) = snd ds ++ ext.
Proof.
  induction h as [|e t IH]; intros ds; simpl.
  - exists []. rewrite app_nil_r. reflexivity.
  - destruct (IH (dstep ds e)) as [x Hx]. destruct (dstep_derived_prefix ds e) as [y Hy].
    exists (y ++ x). rewrite Hx, Hy, app_assoc. reflexivity.
Qed.

Lemma derived_survives h1 h2 d x :
  nth_error (snd (drun h1)) d = Some x -> use (drun (h1 ++ h2)) d = x.
Proof.
  intros H. unfold use, drun. rewrite fold_left_app.
  destruct (drun_from_derived_prefix h2 (fold_left dstep h1 (st0, []))) as [ext E].
  rewrite E. fold (drun h1). rewrite nth_error_app1.
  - rewrite H. reflexivity.
  - apply nth_error_Some. congruence.
Qed.

Lemma drun_fst : forall h ds, fst (fold_left dstep h ds) = fold_left impl_step (prims_of h) (fst ds).
Proof.
  induction h as [|e t IH]; intros ds; simpl; auto.
  destruct e; simpl; rewrite IH; reflexivity.
Qed.

(* deriving from an object that received no close captures that object's own file, and every later use returns it *)
Lemma derive_captures_source h1 h2 o ob :
  nth_error (objs (impl_run (prims_of h1))) o = Some ob -> ~ In (Close o) (prims_of h1) ->
  use (drun (h1 ++ Derive o :: h2)) (length (snd (drun h1))) = Some (o_file ob).
Proof.
  intros Hn Hc.
  replace (h1 ++ Derive o :: h2) with ((h1 ++ [Derive o]) ++ h2) by (rewrite <- app_assoc; reflexivity).
  apply derived_survives.
  unfold drun. rewrite fold_left_app. simpl. fold (drun h1).
  rewrite nth_error_app2 by lia. rewrite Nat.sub_diag. simpl. f_equal.
  unfold drun. rewrite drun_fst. simpl. apply close_local; assumption.
Qed.
