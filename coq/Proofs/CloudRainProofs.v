(* Proofs about Model/CloudRain.v: codec round trip, the memory-mapped reader with its size-based layout guess
   (exact on every file whose size is unambiguous; witness for the ambiguous size), prefixes, read/write. *)
From PNC Require Import Base.Util Base.Words Proofs.WordsProofs Gen.Camx Model.Uamiv Model.CloudRain
  Proofs.UamivProofs Proofs.One3dProofs.
From Coq Require Import ZifyBool.
Import Coq.Lists.List. Import ListNotations.
Local Open Scope Z_scope.

Definition c_step_ok (c : cloudrain) (s : cstep) : Prop :=
  length (cs_lays s) = Z.to_nat (c_nz c) /\
  Forall (fun l : list (list word) => length l = Z.to_nat (c_nvars c) /\
            Forall (fun r : list word => length r = Z.to_nat (c_nx c * c_ny c)) l) (cs_lays s).

Lemma c_wf_parts c : c_wf c = true ->
  (exists d0 d1 d2 d3 d4, c_desc c = [d0; d1; d2; d3; d4]) /\ 0 < c_nx c /\ 0 < c_ny c /\ 0 < c_nz c /\
  (c_nvars c = 3 \/ c_nvars c = 5) /\ Forall (c_step_ok c) (c_steps c).
Proof.
  unfold c_wf. rewrite !andb_true_iff. intros [[[[[H1 H2] H3] H4] H5] H6].
  split; [|split; [lia|split; [lia|split; [lia|split; [lia|]]]]].
  - apply len_is_eq in H1. destruct (c_desc c) as [|d0 [|d1 [|d2 [|d3 [|d4 [|d5 l]]]]]]; cbn [length] in H1; try lia.
    exists d0, d1, d2, d3, d4. reflexivity.
  - eapply forallb_Forall; [|exact H6]. intros s Hs. unfold c_wf_step in Hs. apply andb_true_iff in Hs as [Ha Hb].
    split; [apply len_is_eq in Ha; lia|].
    eapply forallb_Forall; [|exact Hb]. intros l Hl. apply andb_true_iff in Hl as [Hc Hd].
    split; [apply len_is_eq in Hc; lia|].
    eapply forallb_Forall; [|exact Hd]. intros r Hr. apply len_is_eq in Hr. lia.
Qed.

(* ======================================================================================
   Codec round trip
   ====================================================================================== *)
Lemma c_take_recs_ok ncell : forall (l : list (list word)) rest,
  Forall (fun r : list word => Z.of_nat (length r) = ncell) l ->
  c_take_recs (length l) ncell (l ++ rest) = Some (l, rest).
Proof.
  induction l as [|r l IH]; intros rest H; cbn [length c_take_recs app]; [reflexivity|].
  pose proof (Forall_inv H) as H1. pose proof (Forall_inv_tail H) as H2. cbn beta in H1. rewrite H1, Z.eqb_refl. rewrite IH by exact H2. reflexivity.
Qed.

Lemma c_take_lays_ok nv ncell : forall (lays : list (list (list word))) rest,
  Forall (fun l : list (list word) => length l = nv /\ Forall (fun r : list word => Z.of_nat (length r) = ncell) l) lays ->
  c_take_lays (length lays) nv ncell (concat lays ++ rest) = Some (lays, rest).
Proof.
  induction lays as [|l lays IH]; intros rest H; cbn [length c_take_lays concat app]; [reflexivity|].
  destruct (Forall_inv H) as [H1 H1']. pose proof (Forall_inv_tail H) as H2. rewrite <- app_assoc.
  replace (c_take_recs nv ncell (l ++ concat lays ++ rest)) with (Some (l, concat lays ++ rest))
    by (rewrite <- H1; symmetry; apply c_take_recs_ok; exact H1').
  rewrite IH by exact H2. reflexivity.
Qed.

Lemma c_take_steps_ok nz nv ncell : forall (steps : list cstep) fuel,
  Forall (fun s => length (cs_lays s) = nz /\
     Forall (fun l : list (list word) => length l = nv /\ Forall (fun r : list word => Z.of_nat (length r) = ncell) l) (cs_lays s)) steps ->
  (length steps < fuel)%nat ->
  c_take_steps fuel nz nv ncell (concat (map c_step_records steps)) = Some steps.
Proof.
  induction steps as [|s steps IH]; intros fuel H Hf.
  - destruct fuel; reflexivity.
  - destruct (Forall_inv H) as [H1 H1']. pose proof (Forall_inv_tail H) as H2. destruct fuel as [|f]; [cbn in Hf; lia|].
    cbn [map concat]. unfold c_step_records at 1. cbn [app c_take_steps].
    replace (c_take_lays nz nv ncell (concat (cs_lays s) ++ concat (map c_step_records steps)))
      with (Some (cs_lays s, concat (map c_step_records steps))) by (rewrite <- H1; symmetry; apply c_take_lays_ok; exact H1').
    rewrite IH; [destruct s; reflexivity|exact H2|cbn [length] in Hf; lia].
Qed.

Lemma c_dec_enc c : c_wf c = true -> c_dec (c_nvars c) (c_enc c) = Some c.
Proof.
  intros W. destruct (c_wf_parts c W) as ((d0 & d1 & d2 & d3 & d4 & Hd) & Hx & Hy & Hz & Hv & Hs).
  unfold c_dec, c_enc. rewrite unframe_all_frame. unfold c_to_records. rewrite Hd.
  cbn [app length Z.of_nat Z.eqb Pos.eqb Pos.of_succ_nat Pos.succ nth firstn].
  replace ((0 <? c_nx c) && (0 <? c_ny c) && (0 <? c_nz c) && ((c_nvars c =? 3) || (c_nvars c =? 5))) with true by lia.
  rewrite c_take_steps_ok.
  - rewrite <- Hd. destruct c; reflexivity.
  - eapply Forall_impl; [|exact Hs]. intros s [Ha Hb]. split; [exact Ha|].
    eapply Forall_impl; [|exact Hb]. intros l [Hc He]. split; [exact Hc|].
    eapply Forall_impl; [|exact He]. intros r Hr. cbn beta in Hr. rewrite Hr. lia.
  - assert (Hle : (length (c_steps c) <= length (concat (map c_step_records (c_steps c))))%nat).
    { generalize (c_steps c). intros l. induction l as [|a l IH]; cbn [map concat length]; [lia|].
      rewrite app_length. unfold c_step_records at 1. cbn [length]. lia. }
    lia.
Qed.

(* ======================================================================================
   Structure of an encoded file
   ====================================================================================== *)
Definition c_blkw (s : cstep) : list word := frame (c_step_records s).
Definition c_guess (c : cloudrain) : Z :=
  let ds := Z.of_nat (length (c_steps c)) * c_step_bytes c in
  if ds mod c_timesize c 5 =? 0 then 5 else if ds mod c_timesize c 3 =? 0 then 3 else 5.

Lemma c_unambiguous_guess c : (c_nvars c = 3 \/ c_nvars c = 5) -> c_unambiguous c = true -> c_guess c = c_nvars c.
Proof.
  intros Hv U. unfold c_unambiguous in U. unfold c_guess, c_step_bytes. destruct Hv as [E|E]; rewrite E in *.
  - cbn [Z.eqb Pos.eqb orb] in U. apply negb_true_iff in U. rewrite U. rewrite Z_mod_mult, Z.eqb_refl. reflexivity.
  - rewrite Z_mod_mult, Z.eqb_refl. reflexivity.
Qed.

Section Reader.
Variable c : cloudrain.
Hypothesis W : c_wf c = true.

Let RC := Z.to_nat (c_nx c * c_ny c).
Let B := (4 + Z.to_nat (c_nz c) * Z.to_nat (c_nvars c) * (RC + 2))%nat.

Lemma c_B_bytes : c_step_bytes c = 4 * Z.of_nat B.
Proof.
  destruct (c_wf_parts c W) as (_ & Hx & Hy & Hz & Hv & _).
  unfold B, RC, c_step_bytes, c_timesize, c_lay_bytes.
  rewrite Nat2Z.inj_add, !Nat2Z.inj_mul, Nat2Z.inj_add, !Z2Nat.id by nia. cbn [Z.of_nat Pos.of_succ_nat Pos.succ]. ring.
Qed.

Lemma c_recs_len s : c_step_ok c s ->
  Forall (fun r : list word => length r = RC) (concat (cs_lays s)) /\
  length (concat (cs_lays s)) = (Z.to_nat (c_nz c) * Z.to_nat (c_nvars c))%nat.
Proof.
  intros [Ha Hb]. split.
  - apply Forall_forall. intros r Hr. apply in_concat in Hr as (l & Hl & Hr). rewrite Forall_forall in Hb.
    destruct (Hb l Hl) as [_ Hc]. rewrite Forall_forall in Hc. apply Hc, Hr.
  - rewrite (concat_length_uniform (Z.to_nat (c_nvars c))); [rewrite Ha; reflexivity|].
    eapply Forall_impl; [|exact Hb]. intros l [Hl _]. exact Hl.
Qed.

Lemma c_blkw_shape s : c_blkw s = [8; cs_time s; cs_date s; 8] ++ concat (map frame1 (concat (cs_lays s))).
Proof. reflexivity. Qed.

Lemma c_frames_len s : c_step_ok c s ->
  Forall (fun b : list word => length b = (RC + 2)%nat) (map frame1 (concat (cs_lays s))).
Proof.
  intros H. destruct (c_recs_len s H) as [Hr _]. apply Forall_forall. intros b Hb. apply in_map_iff in Hb as (r & <- & Hr').
  rewrite Forall_forall in Hr. specialize (Hr r Hr'). unfold frame1. cbn [length]. rewrite app_length. cbn [length]. lia.
Qed.

Lemma c_blkw_length s : c_step_ok c s -> length (c_blkw s) = B.
Proof.
  intros H. rewrite c_blkw_shape, app_length. cbn [length].
  rewrite (concat_length_uniform (RC + 2)%nat) by (apply c_frames_len; exact H).
  rewrite map_length. destruct (c_recs_len s H) as [_ Hn]. rewrite Hn. unfold B. lia.
Qed.

Lemma c_block_reads s : c_step_ok c s ->
  cr_block (c_nx c * c_ny c) (c_nz c) (c_nvars c) (c_blkw s) = Some ((cs_time s, cs_date s), cs_lays s).
Proof.
  intros H. destruct (c_wf_parts c W) as (_ & Hx & Hy & Hz & Hv & _).
  unfold cr_block. rewrite c_blkw_shape. cbn [skipn app].
  replace (Z.to_nat (c_nx c * c_ny c + 2)) with (RC + 2)%nat by (unfold RC; lia).
  rewrite chunks_concat; [|lia|apply c_frames_len; exact H].
  change (getw (8 :: cs_time s :: cs_date s :: 8 :: ?x) 0) with 8.
  change (getw (8 :: cs_time s :: cs_date s :: 8 :: ?x) 3) with 8.
  change (getw (8 :: cs_time s :: cs_date s :: 8 :: ?x) 1) with (cs_time s).
  change (getw (8 :: cs_time s :: cs_date s :: 8 :: ?x) 2) with (cs_date s).
  assert (M : cr_marks_ok (map frame1 (concat (cs_lays s))) = true).
  { unfold cr_marks_ok. apply forallb_forall. intros b Hb. apply in_map_iff in Hb as (r & <- & _).
    unfold frame1. cbn [hd]. change (marker r :: r ++ [marker r]) with ((marker r :: r) ++ [marker r]).
    rewrite last_last. apply Z.eqb_refl. }
  rewrite M. cbn [Z.eqb Pos.eqb andb].
  assert (E : map cr_cells (map frame1 (concat (cs_lays s))) = concat (cs_lays s)).
  { rewrite map_map. rewrite <- (map_id (concat (cs_lays s))) at 2. apply map_ext. intros r.
    unfold cr_cells, frame1. cbn [tl]. apply removelast_last. }
  rewrite E. destruct H as [Ha Hb]. rewrite <- Ha. rewrite group_concat; [reflexivity|].
  eapply Forall_impl; [|exact Hb]. intros l [Hl _]. exact Hl.
Qed.

Lemma c_enc_split : exists d0 d1 d2 d3 d4, c_desc c = [d0; d1; d2; d3; d4] /\
  c_enc c = [32; d0; d1; d2; d3; d4; c_nx c; c_ny c; c_nz c; 32] ++ concat (map c_blkw (c_steps c)).
Proof.
  destruct (c_wf_parts c W) as ((d0 & d1 & d2 & d3 & d4 & Hd) & _). exists d0, d1, d2, d3, d4. split; [exact Hd|].
  unfold c_enc, c_to_records. change (?h :: ?t) with ([h] ++ t). rewrite frame_app, frame_concat_map. rewrite Hd. reflexivity.
Qed.

Lemma c_blocks_len : Forall (fun b : list word => length b = B) (map c_blkw (c_steps c)).
Proof.
  destruct (c_wf_parts c W) as (_ & _ & _ & _ & _ & Hs). apply Forall_forall. intros b Hb.
  apply in_map_iff in Hb as (s & <- & Hs'). rewrite Forall_forall in Hs. apply c_blkw_length, Hs, Hs'.
Qed.

Lemma c_enc_length : 4 * Z.of_nat (length (c_enc c)) = c_hdr_bytes + Z.of_nat (length (c_steps c)) * c_step_bytes c.
Proof.
  destruct c_enc_split as (d0 & d1 & d2 & d3 & d4 & _ & E). rewrite E, app_length.
  rewrite (concat_length_uniform B) by exact c_blocks_len. rewrite map_length, c_B_bytes. cbn [length]. unfold c_hdr_bytes. lia.
Qed.

(* the reader on the whole file: whatever layout the size-based guess picks, provided it is the file's own *)
Lemma cr_read_core : c_steps c <> [] -> c_guess c = c_nvars c ->
  cr_mm_read (c_enc c) (4 * Z.of_nat (length (c_enc c))) = Ok (c_view_of c).
Proof.
  intros Hne G. destruct (c_wf_parts c W) as (_ & Hx & Hy & Hz & Hv & Hs).
  pose proof c_enc_length as L. pose proof c_B_bytes as HB.
  destruct c_enc_split as (d0 & d1 & d2 & d3 & d4 & _ & E).
  set (k := Z.of_nat (length (c_steps c))) in *.
  assert (Hk : 0 < k) by (unfold k; destruct (c_steps c); [congruence|cbn [length]; lia]).
  assert (HBp : 4 <= Z.of_nat B) by (unfold B; lia).
  rewrite L. unfold c_hdr_bytes. rewrite E. set (data := concat (map c_blkw (c_steps c))).
  unfold cr_mm_read.
  change (getw ([32; d0; d1; d2; d3; d4; c_nx c; c_ny c; c_nz c; 32] ++ data) 0) with 32.
  change ((32 + 8) / 4) with 10. change (32 + 8) with 40.
  change (getw ([32; d0; d1; d2; d3; d4; c_nx c; c_ny c; c_nz c; 32] ++ data) (10 - 4)) with (c_nx c).
  change (getw ([32; d0; d1; d2; d3; d4; c_nx c; c_ny c; c_nz c; 32] ++ data) (10 - 3)) with (c_ny c).
  change (getw ([32; d0; d1; d2; d3; d4; c_nx c; c_ny c; c_nz c; 32] ++ data) (10 - 2)) with (c_nz c).
  replace (40 + k * c_step_bytes c <? 4) with false by nia.
  change (negb (32 mod 4 =? 0) || (32 <? 12)) with false.
  replace (40 + k * c_step_bytes c <? 40 + 12) with false by nia.
  replace (40 + k * c_step_bytes c - 40) with (k * c_step_bytes c) by lia.
  replace (negb ((k * c_step_bytes c) mod 4 =? 0)) with false
    by (rewrite HB; replace (k * (4 * Z.of_nat B)) with (k * Z.of_nat B * 4) by lia; rewrite Z_mod_mult; reflexivity).
  replace ((c_nx c <=? 0) || (c_ny c <=? 0) || (c_nz c <=? 0)) with false by lia.
  cbv zeta.
  assert (G' : (if (k * c_step_bytes c) mod (5 * (c_nz c * (c_ny c * c_nx c + 2) * 4) + 16) =? 0 then 5
               else if (k * c_step_bytes c) mod (3 * (c_nz c * (c_ny c * c_nx c + 2) * 4) + 16) =? 0 then 3 else 5) = c_nvars c).
  { rewrite <- G. unfold c_guess, c_timesize, c_lay_bytes. fold k. rewrite (Z.mul_comm (c_ny c) (c_nx c)). reflexivity. }
  rewrite G'.
  assert (TS : c_nvars c * (c_nz c * (c_ny c * c_nx c + 2) * 4) + 16 = c_step_bytes c).
  { unfold c_step_bytes, c_timesize, c_lay_bytes. rewrite (Z.mul_comm (c_ny c) (c_nx c)). reflexivity. }
  rewrite TS.
  assert (Hsb : 0 < c_step_bytes c) by lia.
  rewrite Z.div_mul by lia. rewrite Z.eqb_refl. replace (k <=? 0) with false by lia. cbn [negb orb].
  replace (Z.to_nat (c_step_bytes c / 4)) with B by (rewrite HB, four_div_o; lia).
  replace (Z.to_nat (k * c_step_bytes c / 4)) with (length data).
  2:{ unfold data. rewrite (concat_length_uniform B) by exact c_blocks_len. rewrite map_length, HB.
      replace (k * (4 * Z.of_nat B)) with (4 * (k * Z.of_nat B)) by lia. rewrite four_div_o. unfold k. lia. }
  change (Z.to_nat 10) with (length [32; d0; d1; d2; d3; d4; c_nx c; c_ny c; c_nz c; 32]).
  rewrite skipn_app_exact, firstn_all.
  unfold data. rewrite chunks_concat; [|lia|exact c_blocks_len].
  rewrite map_map.
  assert (P : map (fun s => cr_block (c_ny c * c_nx c) (c_nz c) (c_nvars c) (c_blkw s)) (c_steps c)
              = map (fun s => Some ((cs_time s, cs_date s), cs_lays s)) (c_steps c)).
  { apply map_ext_in. intros s Hin. rewrite (Z.mul_comm (c_ny c) (c_nx c)). apply c_block_reads.
    rewrite Forall_forall in Hs. apply Hs, Hin. }
  rewrite P.
  assert (F1 : forallb (fun p : option (Z * Z * list (list (list word))) => match p with Some _ => true | None => false end)
                 (map (fun s => Some ((cs_time s, cs_date s), cs_lays s)) (c_steps c)) = true).
  { apply forallb_forall. intros p Hp. apply in_map_iff in Hp as (s & <- & _). reflexivity. }
  rewrite F1.
  assert (F2 : flat_map (fun p : option (Z * Z * list (list (list word))) => match p with Some x => [x] | None => [] end)
                 (map (fun s => Some ((cs_time s, cs_date s), cs_lays s)) (c_steps c))
               = map (fun s => ((cs_time s, cs_date s), cs_lays s)) (c_steps c)).
  { generalize (c_steps c). intros l. induction l as [|a l IH]; cbn [map flat_map app]; [reflexivity|]. rewrite IH. reflexivity. }
  rewrite F2, !map_map. unfold c_view_of. cbn [fst snd]. fold k. reflexivity.
Qed.

End Reader.

(* ======================================================================================
   What an accepted input looks like (any word list that starts with a cloud/rain header)
   ====================================================================================== *)
Definition cr_guess_of (nx ny nz ds : Z) : Z :=
  let lay := nz * (ny * nx + 2) * 4 in
  if ds mod (5 * lay + 16) =? 0 then 5 else if ds mod (3 * lay + 16) =? 0 then 3 else 5.

Lemma cr_read_shape d0 d1 d2 d3 d4 nx ny nz data n v :
  cr_mm_read ([32; d0; d1; d2; d3; d4; nx; ny; nz; 32] ++ data) n = Ok v ->
  let nv := cr_guess_of nx ny nz (n - 40) in
  cv_nvars v = nv /\ cv_ntimes v * (nv * (nz * (ny * nx + 2) * 4) + 16) = n - 40 /\ 0 < cv_ntimes v /\ 52 <= n.
Proof.
  unfold cr_mm_read.
  change (getw ([32; d0; d1; d2; d3; d4; nx; ny; nz; 32] ++ data) 0) with 32.
  change ((32 + 8) / 4) with 10. change (32 + 8) with 40.
  change (getw ([32; d0; d1; d2; d3; d4; nx; ny; nz; 32] ++ data) (10 - 4)) with nx.
  change (getw ([32; d0; d1; d2; d3; d4; nx; ny; nz; 32] ++ data) (10 - 3)) with ny.
  change (getw ([32; d0; d1; d2; d3; d4; nx; ny; nz; 32] ++ data) (10 - 2)) with nz.
  cbv zeta. fold (cr_guess_of nx ny nz (n - 40)). set (nv := cr_guess_of nx ny nz (n - 40)).
  intros H.
  destruct (n <? 4) eqn:E1; [discriminate|].
  change (negb (32 mod 4 =? 0) || (32 <? 12)) with false in H. cbv iota in H.
  destruct (n <? 40 + 12) eqn:E2; [discriminate|].
  destruct (negb ((n - 40) mod 4 =? 0)) eqn:E3; [discriminate|].
  destruct ((nx <=? 0) || (ny <=? 0) || (nz <=? 0)) eqn:E4; [discriminate|].
  destruct (negb ((n - 40) / (nv * (nz * (ny * nx + 2) * 4) + 16) * (nv * (nz * (ny * nx + 2) * 4) + 16) =? n - 40)
            || ((n - 40) / (nv * (nz * (ny * nx + 2) * 4) + 16) <=? 0)) eqn:E5; [discriminate|].
  destruct (chunks _ _) as [blocks|]; [|discriminate].
  destruct (forallb _ _); [|discriminate].
  injection H as <-. cbn [cv_nvars cv_ntimes]. repeat split; lia.
Qed.

(* ======================================================================================
   Prefixes
   ====================================================================================== *)
Lemma c_wf_truncate c k : c_wf c = true -> c_wf (c_truncate_steps k c) = true.
Proof.
  unfold c_wf. rewrite !andb_true_iff. intros [H1 H6]. split; [exact H1|].
  cbn [c_steps c_truncate_steps]. apply forallb_forall. intros s Hs. rewrite forallb_forall in H6.
  apply (H6 s). eapply In_firstn_in. exact Hs.
Qed.

Lemma c_enc_truncate c k : c_wf c = true ->
  c_enc (c_truncate_steps k c)
  = firstn (10 + k * Z.to_nat (c_step_bytes c / 4)) (c_enc c).
Proof.
  intros W. destruct (c_enc_split c W) as (d0 & d1 & d2 & d3 & d4 & Ed & E).
  destruct (c_enc_split _ (c_wf_truncate c k W)) as (e0 & e1 & e2 & e3 & e4 & Ed' & E').
  assert (Hd : [d0; d1; d2; d3; d4] = [e0; e1; e2; e3; e4]).
  { rewrite <- Ed, <- Ed'. reflexivity. }
  injection Hd as <- <- <- <- <-.
  rewrite E, E'. cbn [c_nx c_ny c_nz c_steps c_truncate_steps].
  set (H10 := [32; d0; d1; d2; d3; d4; c_nx c; c_ny c; c_nz c; 32]).
  change (10 + ?x)%nat with (length H10 + x)%nat.
  rewrite firstn_app_2. f_equal.
  pose proof (c_B_bytes c W) as HB. rewrite HB, four_div_o, Nat2Z.id.
  rewrite firstn_concat_uniform_gen by (apply c_blocks_len; exact W). rewrite map_firstn. reflexivity.
Qed.

Lemma c_guess_is c : c_guess c = cr_guess_of (c_nx c) (c_ny c) (c_nz c) (Z.of_nat (length (c_steps c)) * c_step_bytes c).
Proof. unfold c_guess, cr_guess_of, c_timesize, c_lay_bytes. rewrite (Z.mul_comm (c_ny c) (c_nx c)). reflexivity. Qed.

(* EVERY byte prefix: an accepted prefix is the header plus a whole number of steps of one of the two layouts; when the layout
   the reader picked is the file's own, it presents exactly the first steps of the content *)
Theorem cr_every_prefix c n v : c_wf c = true -> 0 <= n <= 4 * Z.of_nat (length (c_enc c)) ->
  cr_mm_read (firstn (Z.to_nat ((n + 3) / 4)) (c_enc c)) n = Ok v ->
  exists nv, (nv = 3 \/ nv = 5) /\ cv_nvars v = nv /\ 0 < cv_ntimes v /\ n = c_hdr_bytes + cv_ntimes v * c_timesize c nv /\
    (nv = c_nvars c ->
       (Z.to_nat (cv_ntimes v) <= length (c_steps c))%nat /\ v = c_view_of (c_truncate_steps (Z.to_nat (cv_ntimes v)) c)).
Proof.
  intros W Hn H. destruct (c_wf_parts c W) as (_ & Hx & Hy & Hz & Hv & Hs).
  pose proof (c_enc_length c W) as L. pose proof (c_B_bytes c W) as HB. unfold c_hdr_bytes in *.
  destruct (c_enc_split c W) as (d0 & d1 & d2 & d3 & d4 & _ & E).
  assert (Hn52 : 52 <= n).
  { destruct (Z_lt_le_dec n 52) as [Hlt|]; [|assumption]. exfalso. revert H. unfold cr_mm_read.
    destruct (n <? 4) eqn:E1; [discriminate|].
    assert (G0 : getw (firstn (Z.to_nat ((n + 3) / 4)) (c_enc c)) 0 = 32).
    { rewrite E. destruct (Z.to_nat ((n + 3) / 4)) as [|m] eqn:Em; [|reflexivity].
      assert ((n + 3) / 4 <= 0) by lia. assert (1 <= (n + 3) / 4) by (apply Z.div_le_lower_bound; lia). lia. }
    rewrite G0. change (negb (32 mod 4 =? 0) || (32 <? 12)) with false. cbv iota zeta.
    replace (n <? 32 + 8 + 12) with true by lia. discriminate. }
  assert (Hm : (10 <= Z.to_nat ((n + 3) / 4))%nat).
  { assert (13 <= (n + 3) / 4) by (apply Z.div_le_lower_bound; lia). lia. }
  rewrite E in H. rewrite firstn_app in H. rewrite (firstn_all2 (n := Z.to_nat ((n + 3) / 4))) in H by (cbn [length]; lia).
  pose proof (cr_read_shape _ _ _ _ _ _ _ _ _ _ _ H) as Sh. cbv zeta in Sh.
  set (nv := cr_guess_of (c_nx c) (c_ny c) (c_nz c) (n - 40)) in *.
  destruct Sh as (Sv & St & Sp & _).
  assert (Hnv : nv = 3 \/ nv = 5).
  { unfold nv, cr_guess_of. cbv zeta. destruct (_ =? 0); [right; reflexivity|]. destruct (_ =? 0); [left|right]; reflexivity. }
  assert (TS : nv * (c_nz c * (c_ny c * c_nx c + 2) * 4) + 16 = c_timesize c nv).
  { unfold c_timesize, c_lay_bytes. rewrite (Z.mul_comm (c_ny c) (c_nx c)). reflexivity. }
  rewrite TS in St.
  exists nv. split; [exact Hnv|]. split; [exact Sv|]. split; [exact Sp|]. split; [lia|].
  intros Own. set (kt := cv_ntimes v) in *.
  assert (St' : kt * c_step_bytes c = n - 40) by (unfold c_step_bytes; rewrite <- Own; exact St).
  assert (Hsb : 0 < c_step_bytes c) by (rewrite HB; unfold c_step_bytes, c_timesize, c_lay_bytes in *; nia).
  assert (Hkt : kt <= Z.of_nat (length (c_steps c))) by nia.
  split; [lia|].
  (* the prefix is the encoding of the first kt steps *)
  set (c' := c_truncate_steps (Z.to_nat kt) c).
  assert (W' : c_wf c' = true) by (apply c_wf_truncate; exact W).
  assert (Hlen' : length (c_steps c') = Z.to_nat kt).
  { unfold c'. cbn [c_steps c_truncate_steps]. rewrite firstn_length. lia. }
  assert (Epre : firstn (Z.to_nat ((n + 3) / 4)) (c_enc c) = c_enc c').
  { unfold c'. rewrite c_enc_truncate by exact W. f_equal.
    rewrite HB, four_div_o, Nat2Z.id. pose proof St' as St2. rewrite HB in St2.
    replace ((n + 3) / 4) with (10 + kt * Z.of_nat (4 + Z.to_nat (c_nz c) * Z.to_nat (c_nvars c) * (Z.to_nat (c_nx c * c_ny c) + 2))).
    - rewrite Z2Nat.inj_add, Z2Nat.inj_mul, Nat2Z.id by lia. reflexivity.
    - apply Z.div_unique with (r := 3); lia. }
  rewrite E in Epre. rewrite firstn_app in Epre. rewrite (firstn_all2 (n := Z.to_nat ((n + 3) / 4))) in Epre by (cbn [length]; lia).
  rewrite Epre in H.
  assert (Hsz : n = 4 * Z.of_nat (length (c_enc c'))).
  { rewrite (c_enc_length c' W'). rewrite Hlen'. unfold c_hdr_bytes. change (c_step_bytes c') with (c_step_bytes c). lia. }
  destruct (Z.eq_dec (c_guess c') (c_nvars c')) as [G|G].
  - rewrite Hsz in H. rewrite (cr_read_core c' W') in H; [congruence| |exact G].
    intro Hnil. rewrite Hnil in Hlen'. cbn [length] in Hlen'. lia.
  - exfalso. apply G. rewrite c_guess_is. rewrite Hlen'. change (c_nvars c') with (c_nvars c). rewrite <- Own.
    change (c_step_bytes c') with (c_step_bytes c). change (c_nx c') with (c_nx c). change (c_ny c') with (c_ny c).
    change (c_nz c') with (c_nz c). rewrite Z2Nat.id by lia. rewrite St'. reflexivity.
Qed.

(* ======================================================================================
   Top-level statements
   ====================================================================================== *)
Theorem cr_reader_presents_content c : c_wf c = true -> c_steps c <> [] -> c_unambiguous c = true ->
  cr_mm_read (c_enc c) (4 * Z.of_nat (length (c_enc c))) = Ok (c_view_of c).
Proof.
  intros W Hne U. apply cr_read_core; [exact W|exact Hne|].
  apply c_unambiguous_guess; [|exact U]. destruct (c_wf_parts c W) as (_ & _ & _ & _ & Hv & _). exact Hv.
Qed.

(* a file cut after k whole steps is read as those k steps whenever that size is unambiguous *)
Theorem cr_whole_step_prefix c k : c_wf c = true -> (1 <= k <= length (c_steps c))%nat ->
  c_unambiguous (c_truncate_steps k c) = true ->
  let n := c_hdr_bytes + Z.of_nat k * c_step_bytes c in
  cr_mm_read (firstn (Z.to_nat ((n + 3) / 4)) (c_enc c)) n = Ok (c_view_of (c_truncate_steps k c)).
Proof.
  intros W Hk U n. set (c' := c_truncate_steps k c).
  assert (W' : c_wf c' = true) by (apply c_wf_truncate; exact W).
  assert (Hlen' : length (c_steps c') = k) by (unfold c'; cbn [c_steps c_truncate_steps]; rewrite firstn_length; lia).
  pose proof (c_B_bytes c W) as HB.
  assert (Hn : n = 4 * Z.of_nat (length (c_enc c'))).
  { rewrite (c_enc_length c' W'), Hlen'. reflexivity. }
  assert (Epre : firstn (Z.to_nat ((n + 3) / 4)) (c_enc c) = c_enc c').
  { unfold c'. rewrite c_enc_truncate by exact W. f_equal. rewrite HB, four_div_o, Nat2Z.id.
    replace ((n + 3) / 4) with (10 + Z.of_nat k * Z.of_nat (4 + Z.to_nat (c_nz c) * Z.to_nat (c_nvars c) * (Z.to_nat (c_nx c * c_ny c) + 2))).
    - rewrite Z2Nat.inj_add, Z2Nat.inj_mul, !Nat2Z.id by lia. reflexivity.
    - apply Z.div_unique with (r := 3); [lia|]. unfold n, c_hdr_bytes. rewrite HB. lia. }
  rewrite Epre, Hn. apply cr_reader_presents_content; [exact W'| |exact U].
  intro Hnil. rewrite Hnil in Hlen'. cbn [length] in Hlen'. lia.
Qed.

Lemma combine_map_same {A B C} (f : A -> B) (g : A -> C) l : combine (map f l) (map g l) = map (fun x => (f x, g x)) l.
Proof. induction l as [|a l IH]; cbn [map combine]; [reflexivity|]. rewrite IH. reflexivity. Qed.

Theorem c_write_view c : c_write (c_desc c) (c_view_of c) = c_enc c.
Proof.
  unfold c_write, c_enc, c_to_records, c_view_of. cbn [cv_nx cv_ny cv_nz cv_stamps cv_data].
  rewrite combine_map_same, map_map. reflexivity.
Qed.

Theorem cr_read_write c : c_wf c = true -> c_steps c <> [] -> c_unambiguous c = true ->
  exists v, cr_mm_read (c_enc c) (4 * Z.of_nat (length (c_enc c))) = Ok v /\ c_write (c_desc c) v = c_enc c /\
            c_dec (c_nvars c) (c_write (c_desc c) v) = Some c.
Proof.
  intros W Hne U. exists (c_view_of c). split; [apply cr_reader_presents_content; assumption|].
  rewrite c_write_view. split; [reflexivity|apply c_dec_enc; exact W].
Qed.
