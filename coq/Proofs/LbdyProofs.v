(* Proofs about Model/Lbdy.v (CAMx lateral-boundary files): spec codec round trip, the memmap reader model
   refines the spec on whole files and on every byte prefix. Pattern of Proofs/UamivProofs.v; its general
   list/getw lemmas and the chunk/frame lemmas of Proofs/WordsProofs.v are reused read-only. *)
From PNC Require Import Base.Util Base.Words Proofs.WordsProofs Gen.Camx Model.Uamiv Model.CamxMet Model.Lbdy
                        Proofs.UamivProofs.
From Coq Require Import String ZifyBool.
Import Coq.Lists.List. Import ListNotations.
Local Open Scope Z_scope.

(* ---- translated layout constants (tie T): re-checked against lateral_boundary/Memmap.py and Write.py on every
        run; a changed dtype literal or block expression breaks these equalities ------------------------------- *)
Lemma lb_layout :
  dtype_itemsize lm_emiss_hdr_fmt = 312 /\ dtype_itemsize lm_grid_hdr_fmt = 68 /\
  dtype_itemsize lm_cell_hdr_fmt = 24 /\ dtype_itemsize lm_spc_fmt = 40 /\
  dtype_itemsize lm_time_hdr_fmt = 24 /\ dtype_itemsize lm_date_time_fmt = 24 /\
  woff lm_emiss_hdr_fmt "nspec" = 72 /\ woff lm_grid_hdr_fmt "nx" = 8 /\
  woff lm_grid_hdr_fmt "ny" = 9 /\ woff lm_grid_hdr_fmt "nz" = 10 /\
  woff lm_grid_hdr_fmt "iproj" = 11 /\ woff lm_grid_hdr_fmt "plat" = 2 /\
  woff lm_date_time_fmt "BDATE" = 1 /\ lm_date_time_block_size = 6.
Proof. vm_compute. repeat split; reflexivity. Qed.

Lemma lb_bound_layout b :
  dtype_itemsize (lm_bound_fmt b) = 4 * (5 + 4 * b) /\ woff (lm_bound_fmt b) "SPAD" = 0 /\
  lw_buf_edge b = dtype_itemsize (lm_bound_fmt b) - 8.
Proof.
  unfold woff, lw_buf_edge. cbv - [Z.mul Z.add Z.div Z.sub]. repeat split; try reflexivity; lia.
Qed.

Lemma lb_data_layout n m :
  woff (lm_spc_we_fmt n m) "DATA" = 13 /\ dtype_itemsize (lm_spc_we_fmt n m) = 4 * (14 + n * m) /\
  woff (lm_spc_sn_fmt n m) "DATA" = 13 /\ dtype_itemsize (lm_spc_sn_fmt n m) = 4 * (14 + n * m) /\
  lw_buf_data (n * m) = dtype_itemsize (lm_spc_we_fmt n m) - 8.
Proof.
  unfold woff, lw_buf_data. cbv - [Z.mul Z.add Z.div Z.sub]. repeat split; try reflexivity; lia.
Qed.

Lemma lb_layout_writer_mirrors_reader :
  map (fun f => (snd (fst f), snd f)) lw_emiss_hdr_fmt = map (fun f => (snd (fst f), snd f)) lm_emiss_hdr_fmt /\
  map (fun f => (snd (fst f), snd f)) lw_grid_hdr_fmt = map (fun f => (snd (fst f), snd f)) lm_grid_hdr_fmt /\
  map (fun f => (snd (fst f), snd f)) lw_cell_hdr_fmt = map (fun f => (snd (fst f), snd f)) lm_cell_hdr_fmt /\
  map (fun f => (snd (fst f), snd f)) lw_time_hdr_fmt = map (fun f => (snd (fst f), snd f)) lm_date_time_fmt /\
  lw_spc_fmt = lm_spc_fmt /\ lw_time_pad = dtype_itemsize lw_time_hdr_fmt - 8 /\
  (forall nspec, lw_spc_pad nspec = nspec * dtype_itemsize lm_spc_fmt) /\
  (forall b, lw_buf_edge b = dtype_itemsize (lm_bound_fmt b) - 8) /\
  (forall n m, lw_buf_data (n * m) = dtype_itemsize (lm_spc_we_fmt n m) - 8) /\
  (forall n m, lw_buf_data (n * m) = dtype_itemsize (lm_spc_sn_fmt n m) - 8).
Proof.
  do 6 (split; [vm_compute; reflexivity|]).
  split; [|split; [|split]].
  - intros nspec. unfold lw_spc_pad. change (dtype_itemsize lm_spc_fmt) with 40. reflexivity.
  - intros b. apply lb_bound_layout.
  - intros n m. destruct (lb_data_layout n m) as (_&_&_&_&H). exact H.
  - intros n m. destruct (lb_data_layout n m) as (_&E1&_&E2&H). rewrite E2, <- E1. exact H.
Qed.

(* ---- small list facts ------------------------------------------------------------------------- *)
Lemma zlist_eqb_refl l : zlist_eqb l l = true.
Proof. apply list_eqb_eq; [apply Z.eqb_eq|reflexivity]. Qed.

Lemma map_snd_combine {A B} : forall (a : list A) (b : list B), length a = length b -> map snd (combine a b) = b.
Proof.
  induction a as [|x a IH]; intros [|y b] H; try discriminate; [reflexivity|].
  cbn [combine map snd]. f_equal. apply IH. cbn in H. lia.
Qed.

Lemma skipn_add_app {A} (pre x : list A) n : skipn (n + length pre) (pre ++ x) = skipn n x.
Proof.
  rewrite skipn_app. rewrite skipn_all2 by lia. cbn [app]. f_equal. lia.
Qed.

(* ---- spec codec: lb_of_records (lb_to_records l) = Some l ------------------------------------------- *)
Lemma take_edge_ok ie n cells : Z.of_nat (length cells) = 4 * n ->
  take_edge ie n (lb_edge_rec ie n cells) = Some cells.
Proof.
  intros H. unfold take_edge, lb_edge_rec. rewrite !Z.eqb_refl. cbn [andb].
  replace (Z.of_nat (length cells) =? 4 * n) with true by lia. reflexivity.
Qed.

Lemma take_data_ok nm ie n d : length nm = 10%nat -> Z.of_nat (length d) = n ->
  take_data nm ie n (lb_data_rec nm ie d) = Some d.
Proof.
  intros Hn Hd. unfold take_data, lb_data_rec. rewrite Z.eqb_refl. cbn [andb].
  rewrite (firstn_app_len 10) by exact Hn. rewrite zlist_eqb_refl. cbn [andb].
  rewrite app_nth2 by lia. rewrite Hn. cbn [Nat.sub nth]. rewrite Z.eqb_refl. cbn [andb].
  rewrite app_length. cbn [length].
  replace (Z.of_nat (length nm + S (length d)) =? 11 + n) with true by lia.
  replace 11%nat with (1 + length nm)%nat by lia. rewrite skipn_add_app. reflexivity.
Qed.

Definition quad_ok (nw ns : Z) (q : quad) : Prop :=
  Z.of_nat (length (q_w q)) = nw /\ Z.of_nat (length (q_e q)) = nw /\
  Z.of_nat (length (q_s q)) = ns /\ Z.of_nat (length (q_n q)) = ns.

Lemma wf_quad_ok nw ns q : wf_quad nw ns q = true -> quad_ok nw ns q.
Proof.
  unfold wf_quad, quad_ok. intros H.
  repeat (apply andb_true_iff in H; destruct H as [H ?]).
  repeat match goal with H : len_is _ _ = true |- _ => apply len_is_eq in H end. auto.
Qed.

Lemma take_quad_data_ok nm nw ns q rest : length nm = 10%nat -> quad_ok nw ns q ->
  take_quad (take_data nm) nw ns (lb_spc_records nm q ++ rest) = Some (q, rest).
Proof.
  intros Hn (H1 & H2 & H3 & H4). unfold lb_spc_records. cbn [app take_quad].
  rewrite !take_data_ok by assumption. destruct q; reflexivity.
Qed.

Lemma take_quad_edge_ok nx ny e rest : quad_ok (4 * ny) (4 * nx) e ->
  take_quad take_edge ny nx (lb_edge_records nx ny e ++ rest) = Some (e, rest).
Proof.
  intros (H1 & H2 & H3 & H4). unfold lb_edge_records. cbn [app take_quad].
  rewrite !take_edge_ok by assumption. destruct e; reflexivity.
Qed.

Lemma lb_take_spcs_ok nx ny nz : forall spc (qs : list quad) rest,
  length spc = length qs ->
  Forall (fun nm => length nm = 10%nat) spc -> Forall (quad_ok (ny * nz) (nx * nz)) qs ->
  lb_take_spcs nx ny nz spc (concat (map (fun p => lb_spc_records (fst p) (snd p)) (combine spc qs)) ++ rest)
  = Some (qs, rest).
Proof.
  induction spc as [|nm spc IH]; intros qs rest Hl Hn Hq.
  - destruct qs; [reflexivity|discriminate].
  - destruct qs as [|q qs]; [discriminate|].
    inversion Hn as [|? ? Hn1 Hn2]; inversion Hq as [|? ? Hq1 Hq2]; subst.
    cbn [combine map concat fst snd lb_take_spcs]. rewrite <- app_assoc.
    rewrite take_quad_data_ok by assumption.
    rewrite IH; [reflexivity|cbn in Hl; lia|exact Hn2|exact Hq2].
Qed.

Lemma lb_take_steps_ok nx ny nz spc : Forall (fun nm => length nm = 10%nat) spc ->
  forall (sts : list (list word * list quad)) fuel,
  Forall (fun st => length (fst st) = 4%nat /\ length spc = length (snd st) /\
                    Forall (quad_ok (ny * nz) (nx * nz)) (snd st)) sts ->
  (length sts < fuel)%nat ->
  lb_take_steps fuel nx ny nz spc (concat (map (lb_step_records spc) sts)) = Some sts.
Proof.
  intros Hn sts; induction sts as [|st sts IH]; intros fuel Hall Hf.
  - destruct fuel; reflexivity.
  - destruct fuel as [|f]; [inversion Hf|].
    inversion Hall as [|? ? (H0 & H1 & H2) Hrest]; subst.
    cbn [map concat]. unfold lb_step_records at 1. cbn [app lb_take_steps].
    rewrite H0. cbn [Z.of_nat Z.eqb Pos.eqb Pos.of_succ_nat Pos.succ].
    rewrite lb_take_spcs_ok by assumption.
    rewrite IH; [destruct st; reflexivity|exact Hrest|cbn [length] in Hf; lia].
Qed.

Section WF.
Variable l : lbdy.
Hypothesis Hwf : lb_wf l = true.

Definition lst_ok (st : list word * list quad) : Prop :=
  length (fst st) = 4%nat /\ length (l_spc l) = length (snd st) /\
  Forall (quad_ok (l_ny l * l_nz l) (l_nx l * l_nz l)) (snd st).

Lemma lb_wf_parts :
  length (l_name l) = 10%nat /\ length (l_note l) = 60%nat /\ length (l_dates l) = 4%nat /\
  length (l_gpre l) = 7%nat /\ length (l_gpost l) = 5%nat /\ 0 < l_nx l /\ 0 < l_ny l /\ 0 < l_nz l /\
  0 < lb_nspec l /\ proj_ok (nth 0 (l_gpost l) 0) (nth 1 (l_gpre l) 0) = true /\
  Forall (fun nm => length nm = 10%nat) (l_spc l) /\
  quad_ok (4 * l_ny l) (4 * l_nx l) (l_edges l) /\ Forall lst_ok (l_steps l).
Proof.
  pose proof Hwf as W. unfold lb_wf in W.
  repeat (apply andb_true_iff in W; destruct W as [W ?]).
  repeat match goal with H : len_is _ _ = true |- _ => apply len_is_eq in H end.
  assert (Hspc : Forall (fun nm => length nm = 10%nat) (l_spc l)).
  { eapply forallb_Forall; [|eassumption]. intros x Hx. apply len_is_eq in Hx. lia. }
  assert (Hst : Forall lst_ok (l_steps l)).
  { eapply forallb_Forall; [|eassumption]. intros st Hst. unfold lb_wf_step in Hst.
    apply andb_true_iff in Hst as [Hst Hq3]. apply andb_true_iff in Hst as [Hq1 Hq2].
    apply len_is_eq in Hq1. apply len_is_eq in Hq2. unfold lb_nspec in Hq2.
    split; [lia|]. split; [lia|].
    eapply forallb_Forall; [|exact Hq3]. intros q Hq. apply wf_quad_ok. exact Hq. }
  do 9 (split; [lia|]). split; [assumption|]. split; [exact Hspc|]. split; [|exact Hst].
  apply wf_quad_ok. assumption.
Qed.

Lemma lb_of_to_records : lb_of_records (lb_to_records l) = Some l.
Proof.
  destruct lb_wf_parts as (Hname & Hnote & Hdates & Hgpre & Hgpost & Hnx & Hny & Hnz & Hns & Hpj & Hspc & Hedg & Hsteps).
  unfold lb_to_records, lb_header_records. cbn [app]. unfold lb_of_records.
  rewrite (firstn_app_len 10) by exact Hname.
  rewrite (skipn_app_len 10) by exact Hname.
  rewrite (firstn_app_len 60) by exact Hnote.
  assert (E70 : forall d x y z, nth 70 (l_name l ++ l_note l ++ x :: y :: z) d = x).
  { intros. rewrite app_nth2 by lia. rewrite Hname. rewrite app_nth2 by lia. rewrite Hnote. reflexivity. }
  assert (E71 : forall d x y z, nth 71 (l_name l ++ l_note l ++ x :: y :: z) d = y).
  { intros. rewrite app_nth2 by lia. rewrite Hname. rewrite app_nth2 by lia. rewrite Hnote. reflexivity. }
  rewrite E70, E71.
  assert (E72 : forall x y z, skipn 72 (l_name l ++ l_note l ++ x :: y :: z) = z).
  { intros. replace 72%nat with (62 + length (l_name l))%nat by lia. rewrite skipn_add_app.
    replace 62%nat with (2 + length (l_note l))%nat by lia. rewrite skipn_add_app. reflexivity. }
  rewrite E72.
  rewrite (firstn_app_len 7) by exact Hgpre.
  assert (G7 : forall d x y z w, nth 7 (l_gpre l ++ x :: y :: z :: w) d = x)
    by (intros; rewrite app_nth2 by lia; rewrite Hgpre; reflexivity).
  assert (G8 : forall d x y z w, nth 8 (l_gpre l ++ x :: y :: z :: w) d = y)
    by (intros; rewrite app_nth2 by lia; rewrite Hgpre; reflexivity).
  assert (G9 : forall d x y z w, nth 9 (l_gpre l ++ x :: y :: z :: w) d = z)
    by (intros; rewrite app_nth2 by lia; rewrite Hgpre; reflexivity).
  rewrite G7, G8, G9.
  assert (G10 : forall x y z w, skipn 10 (l_gpre l ++ x :: y :: z :: w) = w).
  { intros. replace 10%nat with (3 + length (l_gpre l))%nat by lia. rewrite skipn_add_app. reflexivity. }
  rewrite G10.
  rewrite chunks_concat; [|lia|exact Hspc].
  match goal with |- (if ?c then _ else _) = _ => replace c with true end.
  2: { symmetry. rewrite zlist_eqb_refl. rewrite !app_length. cbn [length]. unfold lb_nspec in *.
       rewrite Hname, Hnote, Hdates, Hgpre, Hgpost. cbn. rewrite Z.eqb_refl. lia. }
  change (lb_edge_rec 1 (l_ny l) (q_w (l_edges l)) :: lb_edge_rec 2 (l_ny l) (q_e (l_edges l))
          :: lb_edge_rec 3 (l_nx l) (q_s (l_edges l)) :: lb_edge_rec 4 (l_nx l) (q_n (l_edges l))
          :: concat (map (lb_step_records (l_spc l)) (l_steps l)))
    with (lb_edge_records (l_nx l) (l_ny l) (l_edges l) ++ concat (map (lb_step_records (l_spc l)) (l_steps l))).
  rewrite take_quad_edge_ok by exact Hedg.
  rewrite lb_take_steps_ok.
  - destruct l; reflexivity.
  - exact Hspc.
  - exact Hsteps.
  - assert (Hle : (length (l_steps l) <= length (concat (map (lb_step_records (l_spc l)) (l_steps l))))%nat).
    { generalize (l_steps l). intros ss. induction ss as [|a ss IH]; cbn [map concat length]; [lia|].
      rewrite app_length. unfold lb_step_records at 1. cbn [length]. lia. }
    lia.
Qed.

Lemma lb_dec_enc : lb_dec (lb_enc l) = Some l.
Proof. unfold lb_dec, lb_enc. rewrite unframe_all_frame. apply lb_of_to_records. Qed.

End WF.

Lemma lb_rewrite_idempotent l : lb_wf l = true ->
  match lb_dec (lb_enc l) with Some l' => lb_enc l' = lb_enc l | None => False end.
Proof. intros H. rewrite (lb_dec_enc l H). reflexivity. Qed.

(* ======================================================================================
   The memory-mapped reader model on spec-encoded files
   ====================================================================================== *)
Definition lb_hdr_list (l : lbdy) : list Z := frame (lb_header_records l).
Definition lb_blk_words (l : lbdy) (st : list Z * list quad) : list Z :=
  frame (lb_step_records (l_spc l) st).
Definition lb_data_words (l : lbdy) : list Z := concat (map (lb_blk_words l) (l_steps l)).

Lemma lb_enc_split l : lb_enc l = lb_hdr_list l ++ lb_data_words l.
Proof. unfold lb_enc, lb_to_records. rewrite frame_app, frame_concat_map. reflexivity. Qed.

(* the body with the translated sizes evaluated: step = 6 + nspec * (2*(14+ny*nz) + 2*(14+nx*nz)) words *)
Definition lat_words (nx ny nz : Z) : Z := 2 * (14 + ny * nz) + 2 * (14 + nx * nz).

Lemma four_div x : 4 * x / 4 = x.
Proof. rewrite Z.mul_comm. apply Z.div_mul. lia. Qed.

Lemma lb_mm_body_simpl nspec nx ny nz names off ws size :
  lb_mm_body nspec nx ny nz names off ws size =
  let sw := 6 + nspec * lat_words nx ny nz in
  if negb ((size - off) mod (4 * sw) =? 0) then Err else
  if (size - off) / (4 * sw) <=? 0 then Err else
  match chunks (Z.to_nat sw) (firstn (Z.to_nat ((size - off) / (4 * sw) * sw)) (skipn (Z.to_nat (off / 4)) ws)) with
  | Some blocks =>
    let parts := map (lb_split_block nspec nx ny nz (lat_words nx ny nz)) blocks in
    if forallb (fun p => match p with Some _ => true | None => false end) parts then
      let ps := flat_map (fun p => match p with Some x => [x] | None => [] end) parts in
      Ok {| lv_nspec := nspec; lv_nx := nx; lv_ny := ny; lv_nz := nz; lv_ntimes := (size - off) / 4 / sw;
            lv_names := names; lv_dates := map fst ps; lv_data := map snd ps |}
    else Err
  | None => Err
  end.
Proof.
  unfold lb_mm_body.
  destruct (lb_data_layout ny nz) as (_&E1&_&_&_). destruct (lb_data_layout nx nz) as (_&_&_&E2&_).
  destruct lb_layout as (_&_&_&_&_&E3&_&_&_&_&_&_&_&E4).
  rewrite E1, E2, E3, E4.
  assert (A : 2 * (4 * (14 + ny * nz)) + 2 * (4 * (14 + nx * nz)) = 4 * lat_words nx ny nz)
    by (unfold lat_words; lia).
  rewrite A. unfold lm_spc_lat_block_size, lm_data_block_size, lm_ntimes.
  rewrite four_div.
  replace (24 + nspec * (4 * lat_words nx ny nz)) with (4 * (6 + nspec * lat_words nx ny nz)) by lia.
  rewrite !four_div. reflexivity.
Qed.

(* ---- edge-definition records ---------------------------------------------------------------- *)
Lemma frame1_edge_length ie nb cells : Z.of_nat (length cells) = 4 * nb ->
  Z.of_nat (length (frame1 (lb_edge_rec ie nb cells))) = 5 + 4 * nb.
Proof. intros H. unfold frame1, lb_edge_rec. cbn [length]. rewrite app_length. cbn [length]. lia. Qed.

Definition e_nb (e : Z * Z * list Z) : Z := snd (fst e).
Definition e_frame (e : Z * Z * list Z) : list Z := frame1 (lb_edge_rec (fst (fst e)) (snd (fst e)) (snd e)).
Definition e_ok (e : Z * Z * list Z) : Prop := Z.of_nat (length (snd e)) = 4 * e_nb e.

Lemma read_edges_ok rest size : forall es e pre, Forall e_ok (e :: es) ->
  let body := concat (map e_frame (e :: es)) in
  read_edges (pre ++ body ++ rest) size (4 * Z.of_nat (length pre)) (map e_nb (e :: es))
  = if size <? 4 * Z.of_nat (length pre) + 4 * Z.of_nat (length body) then None
    else Some (4 * Z.of_nat (length pre) + 4 * Z.of_nat (length body)).
Proof.
  induction es as [|e' es IH]; intros e pre Hall; cbn zeta.
  - inversion Hall as [|? ? He _]; subst. destruct e as [[ie nb] cells]. unfold e_ok, e_nb in He. cbn [fst snd] in He.
    cbn [map concat read_edges]. rewrite app_nil_r.
    destruct (lb_bound_layout (e_nb (ie, nb, cells))) as (I1 & I2 & _). rewrite I1, I2. unfold e_nb. cbn [fst snd].
    pose proof (frame1_edge_length ie nb cells He) as Lf. unfold e_frame. cbn [fst snd].
    replace (4 * Z.of_nat (length pre) + 4 * (5 + 4 * nb)) with
            (4 * Z.of_nat (length pre) + 4 * Z.of_nat (length (frame1 (lb_edge_rec ie nb cells)))) by lia.
    destruct (size <? _) eqn:Hs; [reflexivity|].
    rewrite four_div, Z.add_0_r.
    rewrite getw_app_r by lia. rewrite Z.sub_diag. unfold frame1 at 1. cbn [app]. rewrite getw_0.
    unfold marker, lb_edge_rec. cbn [length].
    replace (4 * Z.of_nat (S (S (S (length cells)))) =? 4 * (5 + 4 * nb) - 8) with true by lia.
    reflexivity.
  - inversion Hall as [|? ? He Hrest]; subst. destruct e as [[ie nb] cells]. unfold e_ok, e_nb in He. cbn [fst snd] in He.
    change (concat (map e_frame ((ie, nb, cells) :: e' :: es)))
      with (e_frame (ie, nb, cells) ++ concat (map e_frame (e' :: es))).
    change (map e_nb ((ie, nb, cells) :: e' :: es)) with (nb :: map e_nb (e' :: es)).
    pose proof (frame1_edge_length ie nb cells He) as Lf.
    set (T := map e_nb (e' :: es)).
    set (B := concat (map e_frame (e' :: es))) in *.
    set (F := e_frame (ie, nb, cells)) in *.
    assert (LF : Z.of_nat (length F) = 5 + 4 * nb) by exact Lf.
    cbn [read_edges].
    destruct (lb_bound_layout nb) as (I1 & I2 & _). rewrite I1, I2.
    rewrite app_length.
    destruct (size <? 4 * Z.of_nat (length pre) + 4 * (5 + 4 * nb)) eqn:Hs.
    + replace (size <? 4 * Z.of_nat (length pre) + 4 * Z.of_nat (length F + length B)) with true by lia. reflexivity.
    + replace (4 * Z.of_nat (length pre) / 4 + 0) with (Z.of_nat (length pre))
        by (rewrite Z.mul_comm, Z.div_mul; lia).
      rewrite getw_app_r by lia. rewrite Z.sub_diag. rewrite <- app_assoc.
      assert (G : getw (F ++ B ++ rest) 0 = 4 * (5 + 4 * nb) - 8).
      { unfold F, e_frame. cbn [fst snd]. unfold frame1 at 1. cbn [app]. rewrite getw_0.
        unfold marker, lb_edge_rec. cbn [length]. lia. }
      rewrite G, Z.eqb_refl.
      specialize (IH e' (pre ++ F) Hrest). cbn zeta in IH. fold B T in IH.
      rewrite app_length in IH.
      replace (4 * Z.of_nat (length pre) + 4 * (5 + 4 * nb)) with (4 * Z.of_nat (length pre + length F)) by lia.
      rewrite (app_assoc pre F). rewrite IH.
      replace (4 * Z.of_nat (length pre + length F) + 4 * Z.of_nat (length B))
        with (4 * Z.of_nat (length pre) + 4 * Z.of_nat (length F + length B)) by lia.
      reflexivity.
Qed.

(* ---- data records --------------------------------------------------------------------------- *)
Lemma frame1_data_length nm ie d n : length nm = 10%nat -> Z.of_nat (length d) = n ->
  Z.of_nat (length (frame1 (lb_data_rec nm ie d))) = 14 + n.
Proof.
  intros Hn Hd. unfold frame1, lb_data_rec. cbn [app length].
  rewrite ?app_length; cbn [length]; rewrite ?app_length; cbn [length]. lia.
Qed.

(* the DATA field (translated offset 13) of a data record sitting anywhere in an item *)
Lemma edge_data_at pre nm ie d rest n : length nm = 10%nat -> Z.of_nat (length d) = n ->
  edge_data (pre ++ frame1 (lb_data_rec nm ie d) ++ rest) (Z.of_nat (length pre)) 13 n = d.
Proof.
  intros Hn Hd. unfold edge_data.
  replace (Z.to_nat (Z.of_nat (length pre) + 13)) with (13 + length pre)%nat by lia.
  rewrite skipn_add_app. unfold frame1, lb_data_rec. cbn [app]. do 2 rewrite skipn_cons.
  rewrite <- !app_assoc. replace 11%nat with (1 + length nm)%nat by lia. rewrite skipn_add_app.
  cbn [app skipn]. apply firstn_app_len. lia.
Qed.

Lemma spc_item_length nx ny nz nm q : length nm = 10%nat -> quad_ok (ny * nz) (nx * nz) q ->
  Z.of_nat (length (frame (lb_spc_records nm q))) = lat_words nx ny nz.
Proof.
  intros Hn (H1 & H2 & H3 & H4). unfold frame, lb_spc_records. cbn [map concat].
  rewrite !app_length. cbn [length].
  pose proof (frame1_data_length nm 1 _ _ Hn H1). pose proof (frame1_data_length nm 2 _ _ Hn H2).
  pose proof (frame1_data_length nm 3 _ _ Hn H3). pose proof (frame1_data_length nm 4 _ _ Hn H4).
  unfold lat_words. lia.
Qed.

Lemma split_lat_ok nx ny nz nm q : length nm = 10%nat -> quad_ok (ny * nz) (nx * nz) q ->
  split_lat nx ny nz (frame (lb_spc_records nm q)) = q.
Proof.
  intros Hn (H1 & H2 & H3 & H4). unfold split_lat.
  destruct (lb_data_layout ny nz) as (D1&E1&_&_&_). destruct (lb_data_layout nx nz) as (_&_&D2&E2&_).
  rewrite D1, D2, E1, E2, !four_div.
  unfold frame, lb_spc_records. cbn [map concat]. rewrite app_nil_r.
  destruct q as [w e s n]. cbn [q_w q_e q_s q_n] in *.
  set (F1 := frame1 (lb_data_rec nm 1 w)). set (F2 := frame1 (lb_data_rec nm 2 e)).
  set (F3 := frame1 (lb_data_rec nm 3 s)). set (F4 := frame1 (lb_data_rec nm 4 n)).
  assert (L1 : Z.of_nat (length F1) = 14 + ny * nz) by (apply frame1_data_length; assumption).
  assert (L2 : Z.of_nat (length F2) = 14 + ny * nz) by (apply frame1_data_length; assumption).
  assert (L3 : Z.of_nat (length F3) = 14 + nx * nz) by (apply frame1_data_length; assumption).
  f_equal.
  - exact (edge_data_at [] nm 1 w (F2 ++ F3 ++ F4) (ny * nz) Hn H1).
  - rewrite <- L1. exact (edge_data_at F1 nm 2 e (F3 ++ F4) (ny * nz) Hn H2).
  - replace (2 * (14 + ny * nz)) with (Z.of_nat (length (F1 ++ F2))) by (rewrite app_length; lia).
    rewrite (app_assoc F1 F2). exact (edge_data_at (F1 ++ F2) nm 3 s F4 (nx * nz) Hn H3).
  - replace (2 * (14 + ny * nz) + (14 + nx * nz)) with (Z.of_nat (length ((F1 ++ F2) ++ F3)))
      by (rewrite !app_length; lia).
    rewrite (app_assoc F1 F2), (app_assoc (F1 ++ F2) F3).
    rewrite <- (app_nil_r F4).
    exact (edge_data_at ((F1 ++ F2) ++ F3) nm 4 n [] (nx * nz) Hn H4).
Qed.

Section Reader.
Variable l : lbdy.
Hypothesis Hwf : lb_wf l = true.

Let P := lb_wf_parts l Hwf.

Lemma lb_nspec_pos : 0 < lb_nspec l. Proof. destruct P as (_&_&_&_&_&_&_&_&H&_). exact H. Qed.

Definition edges_list : list (Z * Z * list Z) :=
  [(1, l_ny l, q_w (l_edges l)); (2, l_ny l, q_e (l_edges l)); (3, l_nx l, q_s (l_edges l)); (4, l_nx l, q_n (l_edges l))].
Definition edges_words : list Z := concat (map e_frame edges_list).

Lemma edges_ok : Forall e_ok edges_list.
Proof.
  destruct P as (_&_&_&_&_&_&_&_&_&_&_&(H1&H2&H3&H4)&_).
  repeat constructor; unfold e_ok, e_nb; cbn [fst snd]; assumption.
Qed.

Lemma edges_words_length : Z.of_nat (length edges_words) = 2 * (5 + 4 * l_ny l) + 2 * (5 + 4 * l_nx l).
Proof.
  destruct P as (_&_&_&_&_&_&_&_&_&_&_&(H1&H2&H3&H4)&_).
  unfold edges_words, edges_list. cbn [map concat]. rewrite !app_length. cbn [length].
  unfold e_frame. cbn [fst snd].
  pose proof (frame1_edge_length 1 _ _ H1). pose proof (frame1_edge_length 2 _ _ H2).
  pose proof (frame1_edge_length 3 _ _ H3). pose proof (frame1_edge_length 4 _ _ H4). lia.
Qed.

Lemma lb_hdr_list_shape : exists h1 h2 h3 h4,
  lb_hdr_list l = h1 ++ h2 ++ h3 ++ h4 ++ edges_words /\
  h1 = 304 :: l_name l ++ l_note l ++ l_itzon l :: lb_nspec l :: l_dates l ++ [304] /\
  h2 = 60 :: l_gpre l ++ l_nx l :: l_ny l :: l_nz l :: l_gpost l ++ [60] /\
  h3 = [16; 1; 1; l_nx l; l_ny l; 16] /\
  h4 = 40 * lb_nspec l :: concat (l_spc l) ++ [40 * lb_nspec l] /\
  length h1 = 78%nat /\ length h2 = 17%nat /\ length h3 = 6%nat /\
  Z.of_nat (length h4) = 2 + 10 * lb_nspec l.
Proof.
  destruct P as (Hname & Hnote & Hdates & Hgpre & Hgpost & Hnx & Hny & Hnz & Hns & _ & Hspc & _ & _).
  assert (Lspc : length (concat (l_spc l)) = (length (l_spc l) * 10)%nat)
    by (apply concat_uniform_length; exact Hspc).
  exists (304 :: l_name l ++ l_note l ++ l_itzon l :: lb_nspec l :: l_dates l ++ [304]),
         (60 :: l_gpre l ++ l_nx l :: l_ny l :: l_nz l :: l_gpost l ++ [60]),
         [16; 1; 1; l_nx l; l_ny l; 16], (40 * lb_nspec l :: concat (l_spc l) ++ [40 * lb_nspec l]).
  split; [|split; [reflexivity|split; [reflexivity|split; [reflexivity|split; [reflexivity|]]]]].
  - unfold lb_hdr_list, lb_header_records. rewrite frame_app.
    change (frame (lb_edge_records (l_nx l) (l_ny l) (l_edges l))) with edges_words.
    generalize edges_words. intros EW.
    unfold frame. cbn [map concat]. unfold frame1, marker.
    rewrite !app_length. cbn [length]. rewrite Hname, Hnote, Hdates, Hgpre, Hgpost, Lspc.
    rewrite app_nil_r.
    change (4 * Z.of_nat (10 + (60 + (2 + 4)))) with 304.
    change (4 * Z.of_nat (7 + (3 + 5))) with 60.
    change (4 * Z.of_nat 4) with 16.
    replace (4 * Z.of_nat (length (l_spc l) * 10)) with (40 * lb_nspec l) by (unfold lb_nspec; lia).
    repeat (rewrite <- app_assoc; cbn [app]). reflexivity.
  - repeat split; rewrite ?app_length; cbn [length]; rewrite ?app_length; cbn [length];
      rewrite ?app_length; cbn [length]; unfold lb_nspec; lia.
Qed.

Lemma lb_hdr_list_length : Z.of_nat (length (lb_hdr_list l)) = lb_hdr_words l.
Proof.
  destruct lb_hdr_list_shape as (h1&h2&h3&h4&E&_&_&_&_&L1&L2&L3&L4).
  rewrite E, !app_length, L1, L2, L3. pose proof edges_words_length. unfold lb_hdr_words. lia.
Qed.

(* header fields at the translated offsets; the four edge memmaps *)
Lemma lb_header_reads rest c :
  let ws := lb_hdr_list l ++ rest in
  getw ws 72 = lb_nspec l /\ getw ws 86 = l_nx l /\ getw ws 87 = l_ny l /\ getw ws 88 = l_nz l /\
  getw ws 89 = nth 0 (l_gpost l) 0 /\ getw ws 80 = nth 1 (l_gpre l) 0 /\
  chunks 10 (firstn (Z.to_nat (lb_nspec l * 10)) (skipn 102 ws)) = Some (l_spc l) /\
  read_edges ws c (408 + lb_nspec l * 40 + 4) [l_ny l; l_ny l; l_nx l; l_nx l]
  = if c <? 4 * lb_hdr_words l then None else Some (4 * lb_hdr_words l).
Proof.
  destruct P as (Hname & Hnote & Hdates & Hgpre & Hgpost & Hnx & Hny & Hnz & Hns & _ & Hspc & _ & _).
  destruct lb_hdr_list_shape as (h1&h2&h3&h4&E&E1&E2&E3&E4&L1&L2&L3&L4).
  cbn zeta. rewrite E, <- !app_assoc.
  assert (R1 : forall X, getw (h1 ++ X) 72 = lb_nspec l).
  { intros X. rewrite getw_app_l by lia. subst h1.
    rewrite getw_cons by lia. rewrite getw_app_r by lia. rewrite Hname.
    rewrite getw_app_r by lia. rewrite Hnote. reflexivity. }
  assert (R2 : forall X k, 0 <= k < 17 -> getw (h1 ++ h2 ++ X) (78 + k) = getw h2 k).
  { intros X k Hk. rewrite getw_app_r by lia. rewrite L1. rewrite getw_app_l by lia. f_equal. lia. }
  assert (G : forall k x y z, 0 <= k < 3 ->
     getw (60 :: l_gpre l ++ x :: y :: z :: l_gpost l ++ [60]) (8 + k) = nth (Z.to_nat k) [x; y; z] 0).
  { intros k x y z Hk. rewrite getw_cons by lia. rewrite getw_app_r by lia. rewrite Hgpre.
    unfold getw. replace (Z.to_nat (8 + k - 1 - Z.of_nat 7)) with (Z.to_nat k) by lia.
    destruct (Z.to_nat k) as [|[|[|n]]] eqn:Ek; try reflexivity. lia. }
  split; [apply R1|]. split.
  { change 86 with (78 + 8). rewrite R2 by lia. rewrite E2. apply (G 0); lia. }
  split.
  { change 87 with (78 + 9). rewrite R2 by lia. rewrite E2. change 9 with (8 + 1). apply (G 1); lia. }
  split.
  { change 88 with (78 + 10). rewrite R2 by lia. rewrite E2. change 10 with (8 + 2). apply (G 2); lia. }
  split.
  { change 89 with (78 + 11). rewrite R2 by lia. rewrite E2.
    rewrite getw_cons by lia. rewrite getw_app_r by lia. rewrite Hgpre.
    unfold getw. change (Z.to_nat (11 - 1 - Z.of_nat 7)) with 3%nat. cbn [nth].
    apply app_nth1. lia. }
  split.
  { change 80 with (78 + 2). rewrite R2 by lia. rewrite E2.
    rewrite getw_cons by lia. rewrite getw_app_l by lia. reflexivity. }
  assert (Lspc : length (concat (l_spc l)) = (length (l_spc l) * 10)%nat)
    by (apply concat_uniform_length; exact Hspc).
  split.
  { rewrite (app_assoc h1 h2), (app_assoc (h1 ++ h2) h3).
    replace 102%nat with (1 + length ((h1 ++ h2) ++ h3))%nat by (rewrite !app_length; lia).
    rewrite skipn_add_app.
    subst h4. cbn [app skipn].
    rewrite <- app_assoc.
    rewrite firstn_app_len by (unfold lb_nspec; lia).
    apply chunks_concat; [lia|exact Hspc]. }
  pose proof (read_edges_ok rest c (tl edges_list) (hd (0, 0, []) edges_list) (h1 ++ h2 ++ h3 ++ h4) edges_ok) as RE.
  cbn zeta in RE. change (hd (0, 0, []) edges_list :: tl edges_list) with edges_list in RE.
  fold edges_words in RE.
  change (map e_nb edges_list) with [l_ny l; l_ny l; l_nx l; l_nx l] in RE.
  rewrite <- !app_assoc in RE.
  assert (LH : 4 * Z.of_nat (length (h1 ++ h2 ++ h3 ++ h4)) = 408 + lb_nspec l * 40 + 4)
    by (rewrite !app_length, L1, L2, L3; lia).
  rewrite LH in RE. rewrite RE.
  pose proof edges_words_length as LE.
  replace (408 + lb_nspec l * 40 + 4 + 4 * Z.of_nat (length edges_words)) with (4 * lb_hdr_words l)
    by (unfold lb_hdr_words; lia).
  reflexivity.
Qed.

Lemma lb_skip_hdr rest : skipn (Z.to_nat (lb_hdr_words l)) (lb_hdr_list l ++ rest) = rest.
Proof. apply skipn_app_len. pose proof lb_hdr_list_length. lia. Qed.

(* ---- one time block ---------------------------------------------------------------------------- *)
Lemma lb_steps_ok : Forall (lst_ok l) (l_steps l).
Proof. destruct P as (_&_&_&_&_&_&_&_&_&_&_&_&H). exact H. Qed.

Lemma lb_blk_shape st : lst_ok l st ->
  lb_blk_words l st = frame1 (fst st) ++
     concat (map (fun p => frame (lb_spc_records (fst p) (snd p))) (combine (l_spc l) (snd st))) /\
  Forall (fun b => length b = Z.to_nat (lat_words (l_nx l) (l_ny l) (l_nz l)))
         (map (fun p => frame (lb_spc_records (fst p) (snd p))) (combine (l_spc l) (snd st))) /\
  map (split_lat (l_nx l) (l_ny l) (l_nz l))
      (map (fun p => frame (lb_spc_records (fst p) (snd p))) (combine (l_spc l) (snd st))) = snd st.
Proof.
  intros (H4 & Hl & Hq).
  destruct P as (_&_&_&_&_&_&_&_&_&_&Hspc&_&_).
  assert (Hin : forall p, In p (combine (l_spc l) (snd st)) ->
                  length (fst p) = 10%nat /\ quad_ok (l_ny l * l_nz l) (l_nx l * l_nz l) (snd p)).
  { intros [nm q] Hp. cbn [fst snd]. split.
    - rewrite Forall_forall in Hspc. apply Hspc. eapply in_combine_l. exact Hp.
    - rewrite Forall_forall in Hq. apply Hq. eapply in_combine_r. exact Hp. }
  split; [|split].
  - unfold lb_blk_words, lb_step_records.
    change (fst st :: ?x) with ([fst st] ++ x). rewrite frame_app, frame_concat_map.
    unfold frame at 1. cbn [map concat]. rewrite app_nil_r. reflexivity.
  - apply Forall_forall. intros b Hb. apply in_map_iff in Hb as (p & <- & Hp).
    destruct (Hin p Hp) as [A B]. pose proof (spc_item_length _ _ _ _ _ A B). lia.
  - rewrite map_map. rewrite <- (map_snd_combine (l_spc l) (snd st) Hl) at 2.
    apply map_ext_in. intros p Hp. destruct (Hin p Hp) as [A B]. apply split_lat_ok; assumption.
Qed.

Lemma lb_blk_length st : lst_ok l st -> Z.of_nat (length (lb_blk_words l st)) = lb_step_words l.
Proof.
  intros Hst. destruct (lb_blk_shape st Hst) as (E & F1 & _). destruct Hst as (H4 & Hl & _).
  rewrite E, app_length. unfold frame1 at 1. cbn [length]. rewrite app_length, H4. cbn [length].
  rewrite (concat_uniform_length _ _ F1), map_length, combine_length, <- Hl, Nat.min_id.
  unfold lb_step_words, lb_nspec, lat_words.
  destruct P as (_&_&_&_&_&Hnx&Hny&Hnz&_). nia.
Qed.

Lemma lb_split_block_ok st : lst_ok l st ->
  lb_split_block (lb_nspec l) (l_nx l) (l_ny l) (l_nz l) (lat_words (l_nx l) (l_ny l) (l_nz l)) (lb_blk_words l st)
  = Some st.
Proof.
  intros Hst. destruct (lb_blk_shape st Hst) as (E & F1 & F2). pose proof Hst as (H4 & Hl & _).
  destruct P as (_&_&_&_&_&Hnx&Hny&Hnz&_).
  unfold lb_split_block.
  destruct lb_layout as (_&_&_&_&_&E24&_&_&_&_&_&_&EB&_). rewrite E24, EB.
  change (24 / 4) with 6. change (Z.to_nat 6) with 6%nat. change (Z.to_nat 1) with 1%nat.
  rewrite E. unfold frame1 at 1 2. unfold marker.
  destruct (fst st) as [|a [|b [|c [|d [|e t]]]]] eqn:Ef; try discriminate.
  cbn [app length]. cbn [skipn firstn].
  rewrite chunks_concat; [|unfold lat_words; nia|exact F1].
  rewrite F2. destruct st as [th qs]. cbn [fst snd] in *. subst th. reflexivity.
Qed.

Lemma lb_data_blocks :
  Forall (fun b => length b = Z.to_nat (lb_step_words l)) (map (lb_blk_words l) (l_steps l)).
Proof.
  apply Forall_forall. intros b Hb. apply in_map_iff in Hb as (st & <- & Hin).
  pose proof lb_steps_ok as H. rewrite Forall_forall in H. pose proof (lb_blk_length st (H st Hin)). lia.
Qed.

Lemma lb_step_words_pos : 0 < lb_step_words l.
Proof. destruct P as (_&_&_&_&_&Hnx&Hny&Hnz&Hns&_). unfold lb_step_words. nia. Qed.

Lemma lb_step_words_eq : 6 + lb_nspec l * lat_words (l_nx l) (l_ny l) (l_nz l) = lb_step_words l.
Proof. reflexivity. Qed.

(* the body on a file whose data region is the encoded steps, for a size claiming k blocks *)
Lemma lb_mm_body_k k : (1 <= k <= length (l_steps l))%nat ->
  lb_mm_body (lb_nspec l) (l_nx l) (l_ny l) (l_nz l) (l_spc l) (4 * lb_hdr_words l) (lb_enc l)
             (4 * (lb_hdr_words l + Z.of_nat k * lb_step_words l))
  = Ok (lb_view_of (lb_truncate_steps k l)).
Proof.
  intros Hk. rewrite lb_mm_body_simpl. cbn zeta. rewrite lb_step_words_eq.
  pose proof lb_step_words_pos as Hsw.
  replace (4 * (lb_hdr_words l + Z.of_nat k * lb_step_words l) - 4 * lb_hdr_words l)
    with (Z.of_nat k * (4 * lb_step_words l)) by lia.
  rewrite Z.mod_mul, Z.div_mul by lia. cbn [Z.eqb negb].
  replace (Z.of_nat k <=? 0) with false by lia.
  rewrite four_div.
  rewrite lb_enc_split, lb_skip_hdr. unfold lb_data_words.
  replace (Z.to_nat (Z.of_nat k * lb_step_words l)) with (k * Z.to_nat (lb_step_words l))%nat by nia.
  rewrite (firstn_concat_uniform _ _ _ lb_data_blocks).
  rewrite chunks_concat; [|lia|].
  2:{ apply Forall_forall. intros b Hb. pose proof lb_data_blocks as D. rewrite Forall_forall in D.
      apply D. eapply In_firstn_in. exact Hb. }
  rewrite <- map_firstn, map_map.
  assert (Hall : Forall (lst_ok l) (firstn k (l_steps l))).
  { apply Forall_forall. intros st Hin. pose proof lb_steps_ok as H. rewrite Forall_forall in H.
    apply H. eapply In_firstn_in. exact Hin. }
  assert (Emap : map (fun x => lb_split_block (lb_nspec l) (l_nx l) (l_ny l) (l_nz l)
                                 (lat_words (l_nx l) (l_ny l) (l_nz l)) (lb_blk_words l x)) (firstn k (l_steps l))
                 = map Some (firstn k (l_steps l))).
  { apply map_ext_in. intros st Hin. apply lb_split_block_ok. rewrite Forall_forall in Hall. apply Hall, Hin. }
  rewrite Emap.
  assert (Ef : forallb (fun p : option (list Z * list quad) => match p with Some _ => true | None => false end)
                 (map Some (firstn k (l_steps l))) = true).
  { apply forallb_forall. intros x Hx. apply in_map_iff in Hx as (? & <- & _). reflexivity. }
  rewrite Ef.
  assert (Efm : forall (ss : list (list Z * list quad)),
            flat_map (fun p => match p with Some x => [x] | None => [] end) (map Some ss) = ss).
  { induction ss as [|x ss IH]; cbn [map flat_map app]; [reflexivity|]. now rewrite IH. }
  rewrite Efm. unfold lb_view_of, lb_truncate_steps. cbn [l_steps l_spc l_nx l_ny l_nz].
  f_equal. f_equal; try reflexivity.
  rewrite firstn_length. unfold lb_nspec. cbn [l_spc].
  replace (Z.of_nat k * (4 * lb_step_words l) / 4) with (Z.of_nat k * lb_step_words l)
    by (replace (Z.of_nat k * (4 * lb_step_words l)) with (4 * (Z.of_nat k * lb_step_words l)) by lia;
        now rewrite four_div).
  rewrite Z.div_mul by lia. lia.
Qed.

End Reader.

(* ---- the whole reader on encoded files ------------------------------------------------------- *)
Section Reader2.
Variable l : lbdy.
Hypothesis Hwf : lb_wf l = true.

(* lb_mm_read on the encoding, for ANY claimed size: all header/edge checks collapse to one bound *)
Lemma lb_mm_read_reduce c :
  lb_mm_read (lb_enc l) c =
  if c <? 4 * lb_hdr_words l then Err
  else lb_mm_body (lb_nspec l) (l_nx l) (l_ny l) (l_nz l) (l_spc l) (4 * lb_hdr_words l) (lb_enc l) c.
Proof.
  destruct (lb_wf_parts l Hwf) as (Hname & Hnote & Hdates & Hgpre & Hgpost & Hnx & Hny & Hnz & Hns & Hpj & Hspc & Hedg & Hsteps).
  unfold lb_mm_read.
  destruct lb_layout as (E1&E2&E3&E4&_&_&O1&O2&O3&O4&O5&O6&_&_).
  rewrite E1, E2, E3, E4, O1, O2, O3, O4, O5, O6.
  change (312 / 4 + 8) with 86. change (312 / 4 + 9) with 87. change (312 / 4 + 10) with 88.
  change (312 / 4 + 11) with 89. change (312 / 4 + 2) with 80.
  change ((312 + 68 + 24 + 4) / 4) with 102. change (Z.to_nat 102) with 102%nat.
  change (312 + 68 + 24 + 4) with 408.
  rewrite lb_enc_split.
  destruct (lb_header_reads l Hwf (lb_data_words l) c) as (R1&R2&R3&R4&R5&R6&R7&R8).
  cbn zeta in R1, R2, R3, R4, R5, R6, R7, R8.
  rewrite R1, R2, R3, R4, R5, R6, R7, R8, Hpj. cbn [negb].
  replace (Z.max (l_nz l) 1) with (l_nz l) by lia.
  assert (Hw : 408 + lb_nspec l * 40 + 4 < 4 * lb_hdr_words l) by (unfold lb_hdr_words; lia).
  destruct (c <? 312) eqn:C1; [replace (c <? 4 * lb_hdr_words l) with true by lia; reflexivity|].
  destruct (c <? 312 + 68) eqn:C2; [replace (c <? 4 * lb_hdr_words l) with true by lia; reflexivity|].
  destruct (c <? 312 + 68 + 24) eqn:C3; [replace (c <? 4 * lb_hdr_words l) with true by lia; reflexivity|].
  replace (lb_nspec l <? 0) with false by lia. cbn [orb].
  destruct (c <? 408 + lb_nspec l * 40) eqn:C4; [replace (c <? 4 * lb_hdr_words l) with true by lia; reflexivity|].
  replace (l_nx l <=? 0) with false by lia. replace (l_ny l <=? 0) with false by lia. cbn [orb].
  destruct (c <? 4 * lb_hdr_words l); reflexivity.
Qed.

Lemma lb_mm_read_k k : (1 <= k <= length (l_steps l))%nat ->
  lb_mm_read (lb_enc l) (4 * (lb_hdr_words l + Z.of_nat k * lb_step_words l))
  = Ok (lb_view_of (lb_truncate_steps k l)).
Proof.
  intros Hk. rewrite lb_mm_read_reduce.
  pose proof (lb_step_words_pos l Hwf).
  replace (4 * (lb_hdr_words l + Z.of_nat k * lb_step_words l) <? 4 * lb_hdr_words l) with false by nia.
  apply lb_mm_body_k; assumption.
Qed.

Lemma lb_enc_length :
  Z.of_nat (length (lb_enc l)) = lb_hdr_words l + Z.of_nat (length (l_steps l)) * lb_step_words l.
Proof.
  rewrite lb_enc_split, app_length. pose proof (lb_hdr_list_length l Hwf). unfold lb_data_words.
  rewrite (concat_uniform_length _ _ (lb_data_blocks l Hwf)), map_length.
  pose proof (lb_step_words_pos l Hwf). nia.
Qed.

(* whole file *)
Lemma lb_mm_read_enc : l_steps l <> [] ->
  lb_mm_read (lb_enc l) (4 * Z.of_nat (length (lb_enc l))) = Ok (lb_view_of l).
Proof.
  intros Hne. rewrite lb_enc_length.
  rewrite lb_mm_read_k by (destruct (l_steps l); [congruence|cbn [length]; lia]).
  unfold lb_truncate_steps. rewrite firstn_all. destruct l; reflexivity.
Qed.

(* whenever the reader accepts a size, that size is header + a positive whole number of steps *)
Lemma lb_mm_read_ok_size c v : lb_mm_read (lb_enc l) c = Ok v ->
  exists k, (1 <= k)%nat /\ c = 4 * (lb_hdr_words l + Z.of_nat k * lb_step_words l).
Proof.
  rewrite lb_mm_read_reduce. destruct (c <? 4 * lb_hdr_words l) eqn:Hc; [discriminate|].
  rewrite lb_mm_body_simpl. cbn zeta. rewrite (lb_step_words_eq l).
  pose proof (lb_step_words_pos l Hwf) as Hsw.
  destruct ((c - 4 * lb_hdr_words l) mod (4 * lb_step_words l) =? 0) eqn:Hm; [|discriminate]. cbn [negb].
  destruct ((c - 4 * lb_hdr_words l) / (4 * lb_step_words l) <=? 0) eqn:Hn; [discriminate|].
  intros _. exists (Z.to_nat ((c - 4 * lb_hdr_words l) / (4 * lb_step_words l))). split; [lia|].
  rewrite Z2Nat.id by lia.
  assert (E : c - 4 * lb_hdr_words l = 4 * lb_step_words l * ((c - 4 * lb_hdr_words l) / (4 * lb_step_words l)))
    by (apply Z.div_exact; lia).
  lia.
Qed.

End Reader2.

(* ---- locality: the reader only looks at the bytes that exist ------------------------------------ *)
Lemma lb_mm_body_local nspec nx ny nz names off ws c :
  0 <= c -> 0 <= off -> off mod 4 = 0 -> 0 < nx -> 0 < ny -> 0 <= nspec -> 0 < nz ->
  lb_mm_body nspec nx ny nz names off (firstn (Z.to_nat (c / 4)) ws) c = lb_mm_body nspec nx ny nz names off ws c.
Proof.
  intros Hc Ho Hm Hx Hy Hs Hz. rewrite !lb_mm_body_simpl. cbn zeta.
  set (sw := 6 + nspec * lat_words nx ny nz).
  assert (Hb : 0 < sw) by (unfold sw, lat_words; nia).
  destruct ((c - off) mod (4 * sw) =? 0) eqn:Hd; [|reflexivity]. cbn [negb].
  destruct ((c - off) / (4 * sw) <=? 0) eqn:Hn; [reflexivity|].
  set (nt := (c - off) / (4 * sw)) in *.
  assert (E : c - off = 4 * sw * nt) by (apply Z.div_exact; lia).
  rewrite firstn_skipn_firstn; [reflexivity|].
  assert (c / 4 = off / 4 + nt * sw).
  { replace c with ((off / 4 + nt * sw) * 4).
    - rewrite Z.div_mul; lia.
    - assert (off = 4 * (off / 4)) by (apply Z.div_exact; lia). lia. }
  assert (0 <= off / 4) by (apply Z.div_pos; lia). nia.
Qed.

Lemma read_edges_local ws c : forall bdims off, 0 <= c -> 0 <= off -> off mod 4 = 0 ->
  Forall (fun b => 0 < b) bdims ->
  read_edges (firstn (Z.to_nat (c / 4)) ws) c off bdims = read_edges ws c off bdims.
Proof.
  induction bdims as [|b t IH]; intros off Hc Ho Hm Hb; [reflexivity|].
  inversion Hb as [|? ? Hb1 Hb2]; subst.
  cbn [read_edges]. destruct (lb_bound_layout b) as (I1 & I2 & _). rewrite I1, I2.
  destruct (c <? off + 4 * (5 + 4 * b)) eqn:Hs; [reflexivity|].
  assert (Eo : off = 4 * (off / 4)) by (apply Z.div_exact; lia).
  assert (0 <= off / 4) by (apply Z.div_pos; lia).
  assert (off / 4 + (5 + 4 * b) <= c / 4) by (apply Z.div_le_lower_bound; lia).
  rewrite getw_firstn by lia.
  destruct (getw ws (off / 4 + 0) =? 4 * (5 + 4 * b) - 8); [|reflexivity].
  apply IH; try lia; [|exact Hb2].
  rewrite Eo. replace (4 * (off / 4) + 4 * (5 + 4 * b)) with ((off / 4 + (5 + 4 * b)) * 4) by lia.
  apply Z.mod_mul. lia.
Qed.

Lemma read_edges_result ws c : forall bdims off off', read_edges ws c off bdims = Some off' ->
  Forall (fun b => 0 < b) bdims -> 0 <= off -> off mod 4 = 0 -> 0 <= off' /\ off' mod 4 = 0.
Proof.
  induction bdims as [|b t IH]; intros off off' H Hb Ho Hm.
  - injection H as <-. split; assumption.
  - inversion Hb as [|? ? Hb1 Hb2]; subst. cbn [read_edges] in H.
    destruct (lb_bound_layout b) as (I1 & I2 & _). rewrite I1, I2 in H.
    destruct (c <? off + 4 * (5 + 4 * b)); [discriminate|].
    destruct (getw ws (off / 4 + 0) =? 4 * (5 + 4 * b) - 8); [|discriminate].
    apply IH in H; [exact H|exact Hb2|lia|].
    assert (Eo : off = 4 * (off / 4)) by (apply Z.div_exact; lia).
    rewrite Eo. replace (4 * (off / 4) + 4 * (5 + 4 * b)) with ((off / 4 + (5 + 4 * b)) * 4) by lia.
    apply Z.mod_mul. lia.
Qed.

Lemma lb_mm_read_local ws c : 0 <= c ->
  lb_mm_read (firstn (Z.to_nat (c / 4)) ws) c = lb_mm_read ws c.
Proof.
  intros Hc. unfold lb_mm_read.
  destruct lb_layout as (E1&E2&E3&E4&_&_&O1&O2&O3&O4&O5&O6&_&_).
  rewrite E1, E2, E3, E4, O1, O2, O3, O4, O5, O6.
  change (312 / 4 + 8) with 86. change (312 / 4 + 9) with 87. change (312 / 4 + 10) with 88.
  change (312 / 4 + 11) with 89. change (312 / 4 + 2) with 80.
  change ((312 + 68 + 24 + 4) / 4) with 102. change (Z.to_nat 102) with 102%nat.
  destruct (c <? 312) eqn:C1; [reflexivity|].
  assert (78 <= c / 4) by (apply Z.div_le_lower_bound; lia).
  rewrite (getw_firstn ws _ 72) by lia.
  destruct (c <? 312 + 68) eqn:C2; [reflexivity|].
  assert (95 <= c / 4) by (apply Z.div_le_lower_bound; lia).
  rewrite (getw_firstn ws _ 86), (getw_firstn ws _ 87), (getw_firstn ws _ 88),
          (getw_firstn ws _ 89), (getw_firstn ws _ 80) by lia.
  destruct (negb (proj_ok (getw ws 89) (getw ws 80))); [reflexivity|].
  destruct (c <? 312 + 68 + 24) eqn:C3; [reflexivity|].
  set (nspec := getw ws 72).
  destruct (nspec <? 0) eqn:Cs; [reflexivity|]. cbn [orb].
  destruct (c <? 312 + 68 + 24 + 4 + nspec * 40) eqn:C4; [reflexivity|].
  assert (102 + nspec * 10 <= c / 4) by (apply Z.div_le_lower_bound; lia).
  rewrite firstn_skipn_firstn by lia.
  destruct ((getw ws 86 <=? 0) || (getw ws 87 <=? 0)) eqn:Cxy; [reflexivity|].
  assert (Hpos : Forall (fun b => 0 < b) [getw ws 87; getw ws 87; getw ws 86; getw ws 86])
    by (repeat constructor; lia).
  assert (Hm4 : (312 + 68 + 24 + 4 + nspec * 40 + 4) mod 4 = 0).
  { replace (312 + 68 + 24 + 4 + nspec * 40 + 4) with ((103 + nspec * 10) * 4) by lia. apply Z.mod_mul. lia. }
  rewrite read_edges_local by (try exact Hpos; lia).
  destruct (read_edges ws c _ _) as [off5|] eqn:Hre; [|reflexivity].
  destruct (read_edges_result _ _ _ _ _ Hre Hpos ltac:(lia) Hm4) as [P1 P2].
  apply lb_mm_body_local; lia.
Qed.

(* ---- C14 for the lateral-boundary reader model: every byte prefix ---------------------------------- *)
Lemma lb_mm_read_prefix l c : lb_wf l = true -> 0 <= c <= 4 * Z.of_nat (length (lb_enc l)) ->
  lb_mm_read (firstn (Z.to_nat (c / 4)) (lb_enc l)) c = Err \/
  exists k, (1 <= k <= length (l_steps l))%nat /\ c = 4 * (lb_hdr_words l + Z.of_nat k * lb_step_words l) /\
            lb_mm_read (firstn (Z.to_nat (c / 4)) (lb_enc l)) c = Ok (lb_view_of (lb_truncate_steps k l)).
Proof.
  intros Hwf Hc. rewrite lb_mm_read_local by lia.
  destruct (lb_mm_read (lb_enc l) c) as [v|] eqn:Hr; [|left; reflexivity].
  right. destruct (lb_mm_read_ok_size l Hwf c v Hr) as (k & Hk & Ec).
  exists k. rewrite lb_enc_length in Hc by exact Hwf.
  pose proof (lb_step_words_pos l Hwf).
  assert (Hk2 : (k <= length (l_steps l))%nat) by nia.
  split; [lia|]. split; [exact Ec|].
  rewrite <- Hr, Ec. apply lb_mm_read_k; [exact Hwf|lia].
Qed.

(* the translated ntimes expression (two FLOOR divisions) on an accepted size is the number of steps *)
Lemma lb_ntimes_floor hdr sw k r : 0 < sw -> 0 <= k -> 0 <= r < 4 * sw ->
  lm_ntimes (4 * hdr + k * (4 * sw) + r) (4 * hdr) sw = k.
Proof.
  intros Hs Hk Hr. unfold lm_ntimes.
  replace (4 * hdr + k * (4 * sw) + r - 4 * hdr) with (r + (k * sw) * 4) by lia.
  rewrite Z.div_add by lia.
  assert (0 <= r / 4 < sw).
  { split; [apply Z.div_pos; lia|]. apply Z.div_lt_upper_bound; lia. }
  replace (r / 4 + k * sw) with (r / 4 + k * sw) by lia.
  rewrite Z.div_add by lia. rewrite Z.div_small by lia. lia.
Qed.

(* ---- begin-time flags presented by the reader equal the specification on whole hours ------------------ *)
Lemma lb_tflag_spec l bh : Forall (fun t => 0 <= t <= 23) bh -> length bh = length (l_steps l) ->
  lb_tflag (lb_view_of l) bh = spec_camx_time (map (fun st => nth 0 (fst st) 0) (l_steps l)) bh.
Proof.
  intros H Hl. unfold lb_tflag, lb_view_of. cbn [lv_dates].
  rewrite map_length, <- Hl, firstn_all, map_map. apply convert_is_spec. exact H.
Qed.

Lemma lb_etflag_spec l eh : Forall (fun t => 0 <= t <= 23) eh -> length eh = length (l_steps l) ->
  lb_etflag (lb_view_of l) eh = spec_camx_time (map (fun st => nth 2 (fst st) 0) (l_steps l)) eh.
Proof.
  intros H Hl. unfold lb_etflag, lb_view_of. cbn [lv_dates].
  rewrite map_length, <- Hl, firstn_all, map_map. apply convert_is_spec. exact H.
Qed.
