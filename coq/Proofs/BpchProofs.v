(* Proofs for Model/Bpch.v (C18). *)
From PNC Require Import Base.Util Base.Words Gen.Bpch Model.Bpch Proofs.WordsProofs.
From Coq Require Import String QArith.
Import Coq.Lists.List. Import ListNotations.
Local Open Scope Z_scope.

(* ---- translated constants (tie T): re-checked whenever Gen/Bpch.v is regenerated ------------------ *)
Lemma consts :
  dht_words = 55%nat /\ ght_words = 34%nat /\ dtype_itemsize dht = 220 /\ dtype_itemsize ght = 136
  /\ woff dht "f1" = 1%nat /\ woff dht "f7" = 12%nat /\ woff dht "f8" = 22%nat /\ woff dht "f9" = 23%nat
  /\ woff dht "f10" = 33%nat /\ woff dht "f12" = 37%nat /\ woff dht "f13" = 47%nat /\ woff dht "f14" = 50%nat
  /\ woff dht "f15" = 53%nat
  /\ woff ght "f0" = 0%nat /\ woff ght "f1" = 1%nat /\ woff ght "f2" = 11%nat /\ woff ght "f3" = 12%nat
  /\ woff ght "f4" = 13%nat /\ woff ght "f5" = 33%nat.
Proof. vm_compute. repeat split; reflexivity. Qed.

Lemma writer_layout :
  map (fun f => snd (fst f) * snd f) bw_datablock_header_type
    = [4; 20; 8; 4; 4; 4; 4; 40; 4; 40; 8; 8; 40; 24; 4; 4]
  /\ dtype_itemsize bw_datablock_header_type = dtype_itemsize bp_datablock_header_type
  /\ bw_hpad1 = 4 * 9 /\ bw_hepad1 = bw_hpad1 /\ bw_hpad2 = 4 * 42 /\ bw_hepad2 = bw_hpad2
  /\ bw_gpad1 = 4 * 10 /\ bw_gepad1 = bw_gpad1 /\ bw_gpad2 = 4 * 20 /\ bw_gepad2 = bw_gpad2
  /\ (forall n, bw_skip n = n + 8)
  /\ bp_first_header_size (dtype_itemsize ght) (dtype_itemsize dht) = 356
  /\ bp_walk_start (dtype_itemsize ght) = 136.
Proof. vm_compute. repeat split; try reflexivity. Qed.

(* ---- generic helpers ---------------------------------------------------------------------------- *)
Lemma zlist_eqb_eq a b : zlist_eqb a b = true <-> a = b.
Proof. apply list_eqb_eq. intros; apply Z.eqb_eq. Qed.
Lemma zlist_eqb_refl a : zlist_eqb a a = true.
Proof. apply zlist_eqb_eq; reflexivity. Qed.

Lemma find_app {A} (p : A -> bool) l1 l2 :
  find p (l1 ++ l2) = match find p l1 with Some x => Some x | None => find p l2 end.
Proof. induction l1 as [|a l1 IH]; simpl; [reflexivity|]. destruct (p a); [reflexivity|exact IH]. Qed.

Section Lookup.
  Context {A K : Type} (eqb : K -> K -> bool) (proj : A -> K).
  Hypothesis eqb_eq : forall x y, eqb x y = true <-> x = y.

  Lemma find_none_of_nodup a l k :
    existsb (eqb (proj a)) (map proj l) = false -> eqb (proj a) k = true ->
    find (fun x => eqb (proj x) k) l = None.
  Proof.
    intros Hex Hk. apply eqb_eq in Hk. subst k.
    induction l as [|y l IH]; simpl in *; [reflexivity|].
    apply orb_false_iff in Hex as [H1 H2].
    destruct (eqb (proj y) (proj a)) eqn:E.
    - apply eqb_eq in E. rewrite E in H1.
      assert (eqb (proj a) (proj a) = true) by (apply eqb_eq; reflexivity). congruence.
    - apply IH; exact H2.
  Qed.

  (* a Python dict built line by line (last wins) agrees with the association list when keys are unique *)
  Lemma dict_get_find l k :
    nodupb eqb (map proj l) = true ->
    dict_get (fun x => eqb (proj x) k) l = find (fun x => eqb (proj x) k) l.
  Proof.
    unfold dict_get. induction l as [|a l IH]; intros Hnd; simpl in *; [reflexivity|].
    apply andb_true_iff in Hnd as [Hn1 Hn2]. apply negb_true_iff in Hn1.
    rewrite find_app, (IH Hn2). simpl.
    destruct (eqb (proj a) k) eqn:E.
    - rewrite (find_none_of_nodup a l k Hn1 E). reflexivity.
    - destruct (find _ l); reflexivity.
  Qed.
End Lookup.

Lemma impl_offset_spec T D cat : tables_ok T D = true -> impl_offset D cat = spec_offset D cat.
Proof.
  unfold tables_ok, impl_offset, spec_offset. intros H. apply andb_true_iff in H as [_ H].
  rewrite (dict_get_find zlist_eqb fst zlist_eqb_eq D cat H). reflexivity.
Qed.

Lemma impl_lookup_spec T D cat tid u :
  tables_ok T D = true -> impl_lookup T D cat tid u = spec_lookup T D cat tid u.
Proof.
  intros H. unfold impl_lookup, spec_lookup, spec_entry. rewrite (impl_offset_spec T D cat H).
  unfold tables_ok in H. apply andb_true_iff in H as [H _].
  rewrite (dict_get_find Z.eqb t_ord Z.eqb_eq T (tid + spec_offset D cat) H).
  rewrite (dict_get_find Z.eqb t_ord Z.eqb_eq T tid H). reflexivity.
Qed.

(* the scale-table clause: the entry used is THE line whose number is offset(category) + tracer id *)
Lemma scale_lookup T D cat tid u e off :
  tables_ok T D = true ->
  In e T -> t_ord e = tid + off ->
  (In (cat, off) D \/ (off = 0 /\ forall o, ~ In (cat, o) D)) ->
  impl_lookup T D cat tid u = (TName (t_name e), t_scale e, UTab (t_unit e)).
Proof.
  intros Hok Hin Hord Hoff. rewrite (impl_lookup_spec _ _ _ _ _ Hok).
  unfold spec_lookup, spec_entry.
  assert (Ho : spec_offset D cat = off).
  { unfold spec_offset. destruct (find (fun p => zlist_eqb (fst p) cat) D) as [[c o]|] eqn:F.
    - apply find_some in F as [Fin Fk]. simpl in Fk. apply zlist_eqb_eq in Fk. subst c. simpl.
      destruct Hoff as [Hd|[_ Hn]]; [|exfalso; exact (Hn o Fin)].
      (* unique category *)
      unfold tables_ok in Hok. apply andb_true_iff in Hok as [_ Hd2].
      clear - Fin Hd Hd2. induction D as [|[c' o'] D IH]; simpl in *; [contradiction|].
      apply andb_true_iff in Hd2 as [Hn1 Hn2]. apply negb_true_iff in Hn1.
      assert (Hnot : forall o1, In (c', o1) D -> False).
      { intros o1 Hi. apply (in_map fst) in Hi. simpl in Hi.
        assert (existsb (zlist_eqb c') (map fst D) = true).
        { apply existsb_exists. exists c'. split; [exact Hi|apply zlist_eqb_refl]. }
        congruence. }
      destruct Fin as [Fe|Fin], Hd as [He|Hd].
      + congruence.
      + injection Fe as -> ->. exfalso; eapply Hnot; exact Hd.
      + injection He as -> ->. exfalso; eapply Hnot; exact Fin.
      + apply IH; assumption.
    - destruct Hoff as [Hd|[H0 _]]; [|symmetry; exact H0].
      exfalso. apply (find_none _ _ F) in Hd. simpl in Hd. rewrite zlist_eqb_refl in Hd. discriminate. }
  rewrite Ho.
  destruct (find (fun e0 => t_ord e0 =? tid + off) T) as [e'|] eqn:F.
  - apply find_some in F as [Fin Fk]. apply Z.eqb_eq in Fk.
    assert (e' = e).
    { unfold tables_ok in Hok. apply andb_true_iff in Hok as [Hd1 _].
      clear - Fin Fk Hin Hord Hd1. induction T as [|x T IH]; simpl in *; [contradiction|].
      apply andb_true_iff in Hd1 as [Hn1 Hn2]. apply negb_true_iff in Hn1.
      assert (Hnot : forall y, In y T -> t_ord y = t_ord x -> False).
      { intros y Hi Hy. apply (in_map t_ord) in Hi.
        assert (existsb (Z.eqb (t_ord x)) (map t_ord T) = true).
        { apply existsb_exists. exists (t_ord y). split; [exact Hi|apply Z.eqb_eq; congruence]. }
        congruence. }
      destruct Fin as [Fe|Fin], Hin as [He|Hin].
      + congruence.
      + subst x. exfalso. eapply Hnot; [exact Hin|congruence].
      + subst x. exfalso. eapply Hnot; [exact Fin|congruence].
      + apply IH; assumption. }
    subst e'. reflexivity.
  - exfalso. apply (find_none _ _ F) in Hin. apply Z.eqb_neq in Hin. congruence.
Qed.

(* ---- flat word layout of the spec encoding --------------------------------------------------------- *)
Definition hdr_of (b : block) : phdr :=
  {| p_model := b_model b; p_cat := b_cat b; p_tid := b_tid b; p_unit := b_unit b; p_tau := b_tau b;
     p_resv := b_resv b; p_nx := b_nx b; p_ny := b_ny b; p_nz := b_nz b; p_start := b_start b;
     p_skip := 4 * lenZ (b_data b) + 8 |}.
Definition blockw (b : block) : list word :=
  [36] ++ b_model b ++ [36; 168] ++ h2_of b ++ [168] ++ [4 * lenZ (b_data b)] ++ b_data b ++ [4 * lenZ (b_data b)].
Definition tbw (tb : list block) : list word := concat (map blockw tb).

Lemma wf_block_lens b : wf_block b = true ->
  length (b_model b) = 9%nat /\ length (b_cat b) = 10%nat /\ length (b_unit b) = 10%nat
  /\ length (b_tau b) = 4%nat /\ length (b_resv b) = 10%nat /\ length (b_start b) = 3%nat
  /\ 0 < b_nx b /\ 0 < b_ny b /\ 0 < b_nz b /\ lenZ (b_data b) = b_nz b * b_ny b * b_nx b.
Proof.
  unfold wf_block, len_is, lenZ. intros H.
  repeat (apply andb_true_iff in H as [H ?]).
  repeat match goal with
         | H : (_ =? _) = true |- _ => apply Z.eqb_eq in H
         | H : (_ <? _) = true |- _ => apply Z.ltb_lt in H
         end.
  repeat split; lia.
Qed.

Ltac explode H :=
  match type of H with
  | length ?l = O => destruct l; [clear H | discriminate H]
  | length ?l = S _ => let x := fresh "w" in destruct l as [|x l]; [discriminate H|]; simpl in H; injection H as H; explode H
  end.

Ltac explode_block b Hwf :=
  destruct b as [model cat tid unit tau resv nx ny nz start data];
  destruct (wf_block_lens _ Hwf) as (L1 & L2 & L3 & L4 & L5 & L6 & Px & Py & Pz & Ld);
  cbn [b_model b_cat b_tid b_unit b_tau b_resv b_nx b_ny b_nz b_start b_data] in *;
  explode L1; explode L2; explode L3; explode L4; explode L5; explode L6.

Lemma frame_block b : wf_block b = true -> frame (block_records b) = blockw b.
Proof.
  intros Hwf. explode_block b Hwf.
  unfold frame, block_records, frame1, marker, blockw, h2_of, lenZ. simpl.
  rewrite ?app_nil_r. rewrite <- ?app_assoc. simpl. reflexivity.
Qed.

Lemma parse_hdr_blockw b tail : wf_block b = true -> parse_hdr (blockw b ++ tail) = hdr_of b.
Proof. intros Hwf. explode_block b Hwf. reflexivity. Qed.

Lemma blockw_length b : wf_block b = true -> length (blockw b) = (57 + length (b_data b))%nat.
Proof.
  intros Hwf. explode_block b Hwf. unfold blockw, h2_of. simpl. rewrite app_length. simpl. lia.
Qed.

Lemma parse_block_blockw b e : wf_block b = true -> e_n e = lenZ (b_data b) ->
  parse_block e (blockw b) = {| q_hdr := hdr_of b; q_m0 := 4 * lenZ (b_data b); q_data := b_data b; q_m2 := 4 * lenZ (b_data b) |}.
Proof.
  intros Hwf He. unfold parse_block. rewrite He.
  replace (blockw b) with (blockw b ++ []) at 1 by apply app_nil_r. rewrite (parse_hdr_blockw b [] Hwf).
  explode_block b Hwf. unfold lenZ. rewrite Nat2Z.id.
  f_equal.
  - unfold blockw, h2_of. simpl. rewrite firstn_app_exact. reflexivity.
  - unfold blockw, h2_of, getw. simpl.
    rewrite app_nth2 by lia. rewrite Nat.sub_diag. reflexivity.
Qed.

Lemma frame_blocks bs : forallb wf_block bs = true ->
  frame (concat (map block_records bs)) = concat (map blockw bs).
Proof.
  induction bs as [|b bs IH]; intros H; [reflexivity|].
  simpl in H. apply andb_true_iff in H as [Hb Hbs]. cbn [map concat].
  rewrite frame_app, (frame_block b Hb), (IH Hbs). reflexivity.
Qed.

Lemma concat_map_concat {A B} (g : A -> list B) (ls : list (list A)) :
  concat (map g (concat ls)) = concat (map (fun l => concat (map g l)) ls).
Proof.
  induction ls as [|l ls IH]; simpl; [reflexivity|].
  rewrite map_app, concat_app, IH. reflexivity.
Qed.

Definition bodyw (f : bfile) : list word := concat (map tbw (f_times f)).
Definition flat (f : bfile) : list word :=
  [40] ++ f_ftype f ++ [40; 80] ++ f_title f ++ [80] ++ bodyw f.

Lemma shape_lens f : wf_shape f = true ->
  length (f_ftype f) = 10%nat /\ length (f_title f) = 20%nat /\ forallb wf_block (concat (f_times f)) = true.
Proof.
  unfold wf_shape, len_is, lenZ. intros H. repeat (apply andb_true_iff in H as [H ?]).
  apply Z.eqb_eq in H. apply Z.eqb_eq in H1. repeat split; try lia; try assumption.
Qed.

Lemma enc_flat f : wf_shape f = true -> enc f = flat f.
Proof.
  intros H. destruct (shape_lens f H) as (L1 & L2 & Hb).
  unfold enc, to_records, flat, bodyw. rewrite frame_app, (frame_blocks _ Hb).
  unfold tbw. rewrite concat_map_concat.
  destruct f as [ft ti times]. cbn [f_ftype f_title f_times] in *.
  explode L1. explode L2. reflexivity.
Qed.

(* ---- spec decoder inverts spec encoder ---------------------------------------------------------------- *)
Lemma block_of_records_block b : wf_block b = true ->
  block_of_records (b_model b) (h2_of b) (b_data b) = Some b.
Proof.
  intros Hwf. explode_block b Hwf. unfold block_of_records, h2_of, len_is, lenZ. simpl.
  rewrite Z.eqb_refl. reflexivity.
Qed.

Lemma take_blocks_records bs : forallb wf_block bs = true -> forall fuel, (length bs < fuel)%nat ->
  take_blocks fuel (concat (map block_records bs)) = Some bs.
Proof.
  induction bs as [|b bs IH]; intros H fuel Hf.
  - destruct fuel; reflexivity.
  - simpl in H, Hf. apply andb_true_iff in H as [Hb Hbs]. destruct fuel as [|fuel]; [lia|].
    change (concat (map block_records (b :: bs)))
      with (b_model b :: h2_of b :: b_data b :: concat (map block_records bs)).
    cbn [take_blocks].
    rewrite (block_of_records_block b Hb), (IH Hbs fuel) by lia. reflexivity.
Qed.

Lemma dec_enc f : wf_shape f = true -> dec (enc f) = Some (f_ftype f, f_title f, concat (f_times f)).
Proof.
  intros H. destruct (shape_lens f H) as (L1 & L2 & Hb).
  assert (Hl : len_is 10 (f_ftype f) && len_is 20 (f_title f) = true).
  { unfold len_is, lenZ. rewrite L1, L2. reflexivity. }
  unfold dec, enc. rewrite unframe_all_frame. unfold to_records. cbn [app]. rewrite Hl.
  rewrite take_blocks_records; [reflexivity|exact Hb|].
  generalize (concat (f_times f)). intros bs. induction bs as [|b bs IH]; simpl in *; lia.
Qed.

(* ---- the header walk on a spec-encoded body ------------------------------------------------------------ *)
Lemma lenZ_app {A} (a b : list A) : lenZ (a ++ b) = lenZ a + lenZ b.
Proof. unfold lenZ. rewrite app_length. lia. Qed.
Lemma lenZ_blockw b : wf_block b = true -> lenZ (blockw b) = 57 + lenZ (b_data b).
Proof. intros H. unfold lenZ. rewrite (blockw_length b H). lia. Qed.
Lemma lenZ_nonneg {A} (l : list A) : 0 <= lenZ l.
Proof. unfold lenZ. lia. Qed.

Lemma mk_entry_block T D b : wf_block b = true -> tables_ok T D = true ->
  mk_entry T D (hdr_of b) = Some (entry_of T D b).
Proof.
  intros Hwf Hok. destruct (wf_block_lens b Hwf) as (_ & _ & _ & _ & _ & _ & Px & Py & Pz & Ld).
  unfold mk_entry, hdr_of, entry_of. cbn [p_nx p_ny p_nz p_skip p_cat p_tid p_unit].
  apply Z.ltb_lt in Px, Py, Pz. rewrite Px, Py, Pz, Ld, Z.eqb_refl. cbn [andb].
  rewrite (impl_lookup_spec _ _ _ _ _ Hok). reflexivity.
Qed.

Lemma skip_blockw b tail : wf_block b = true ->
  skipnZ (Z.of_nat dht_words + (4 * lenZ (b_data b) + 8) / 4) (blockw b ++ tail) = tail.
Proof.
  intros Hwf. destruct consts as (C1 & _). rewrite C1.
  replace (4 * lenZ (b_data b) + 8) with ((lenZ (b_data b) + 2) * 4) by lia.
  rewrite Z.div_mul by lia.
  unfold skipnZ. rewrite lenZ_app, (lenZ_blockw b Hwf).
  destruct (57 + lenZ (b_data b) + lenZ tail <=? Z.of_nat 55 + (lenZ (b_data b) + 2)) eqn:E.
  - apply Z.leb_le in E. pose proof (lenZ_nonneg tail). destruct tail; [reflexivity|].
    unfold lenZ in E. simpl length in E. lia.
  - replace (Z.to_nat (Z.of_nat 55 + (lenZ (b_data b) + 2))) with (length (blockw b)).
    + apply skipn_app_exact.
    + rewrite (blockw_length b Hwf). unfold lenZ. lia.
Qed.

Definition walk_cont (r : result (list entry)) (e : entry) : result (list entry) :=
  match r with Ok l => Ok (e :: l) | Err => Err end.

Lemma walk_step T D f b tail first : wf_block b = true -> tables_ok T D = true ->
  walk (S f) T D (blockw b ++ tail) (4 * lenZ (blockw b ++ tail)) first =
  match first with
  | None => if 0 <? 4 * lenZ tail
            then walk_cont (walk f T D tail (4 * lenZ tail) (Some (b_cat b, b_tid b))) (entry_of T D b)
            else Ok [entry_of T D b]
  | Some (c0, t0) =>
    if (zlist_eqb (b_cat b) c0 && (b_tid b =? t0)) || (4 * lenZ tail =? 0) then
      if (4 * lenZ tail =? 0) && negb (zlist_eqb (b_cat b) c0 && (b_tid b =? t0)) then Ok [entry_of T D b] else Ok []
    else if 0 <? 4 * lenZ tail
         then walk_cont (walk f T D tail (4 * lenZ tail) first) (entry_of T D b)
         else Ok [entry_of T D b]
  end.
Proof.
  intros Hwf Hok.
  pose proof (parse_hdr_blockw b tail Hwf) as HP.
  pose proof (skip_blockw b tail Hwf) as HS.
  pose proof (mk_entry_block T D b Hwf Hok) as HM.
  assert (HL : lenZ (blockw b ++ tail) = 57 + lenZ (b_data b) + lenZ tail)
    by (rewrite lenZ_app, (lenZ_blockw b Hwf); lia).
  pose proof (lenZ_nonneg (b_data b)) as Hd. pose proof (lenZ_nonneg tail) as Ht.
  remember (blockw b ++ tail) as R eqn:ER.
  destruct consts as (_ & _ & C3 & _).
  cbn [walk]. rewrite HP, C3. cbn [p_skip p_cat p_tid hdr_of].
  replace (4 * lenZ R <? 220) with false by (symmetry; apply Z.ltb_ge; lia).
  replace (4 * lenZ (b_data b) + 8 <? 0) with false by (symmetry; apply Z.ltb_ge; lia).
  replace ((4 * lenZ (b_data b) + 8) mod 4 =? 0) with true.
  2:{ symmetry. apply Z.eqb_eq. replace (4 * lenZ (b_data b) + 8) with ((lenZ (b_data b) + 2) * 4) by lia.
      apply Z.mod_mul. lia. }
  cbn [orb negb]. rewrite HS, HM.
  replace (4 * lenZ R - 220 - (4 * lenZ (b_data b) + 8)) with (4 * lenZ tail) by lia.
  unfold walk_cont. destruct first as [[c0 t0]|]; reflexivity.
Qed.

Lemma zlist_eqb_sym a b : zlist_eqb a b = zlist_eqb b a.
Proof.
  destruct (zlist_eqb a b) eqn:E1, (zlist_eqb b a) eqn:E2; try reflexivity.
  - apply zlist_eqb_eq in E1. subst. rewrite zlist_eqb_refl in E2. discriminate.
  - apply zlist_eqb_eq in E2. subst. rewrite zlist_eqb_refl in E1. discriminate.
Qed.

Lemma blockw_nonnil b tail : wf_block b = true -> 0 < lenZ (blockw b ++ tail).
Proof.
  intros H. rewrite lenZ_app, (lenZ_blockw b H).
  pose proof (lenZ_nonneg (b_data b)). pose proof (lenZ_nonneg tail). lia.
Qed.

Lemma tbw_cons b bs tail : tbw (b :: bs) ++ tail = blockw b ++ (tbw bs ++ tail).
Proof. unfold tbw. cbn [map concat]. rewrite <- app_assoc. reflexivity. Qed.

Lemma lenZ_zero_nil {A} (l : list A) : lenZ l = 0 -> l = [].
Proof. destruct l; [reflexivity|]. unfold lenZ. simpl. lia. Qed.

Lemma tbw_app_nil bs tail : forallb wf_block bs = true -> tbw bs ++ tail = [] -> bs = [] /\ tail = [].
Proof.
  destruct bs as [|b bs]; intros H E.
  - split; [reflexivity|exact E].
  - simpl in H. apply andb_true_iff in H as [Hb _]. rewrite tbw_cons in E.
    pose proof (blockw_nonnil b (tbw bs ++ tail) Hb) as P. rewrite E in P. unfold lenZ in P. simpl in P. lia.
Qed.

Definition repeat_tail (b0 : block) (tail : list word) : Prop :=
  exists b' tail', tail = blockw b' ++ tail' /\ wf_block b' = true
                   /\ b_cat b' = b_cat b0 /\ b_tid b' = b_tid b0.

Lemma walk_rest T D b0 : tables_ok T D = true -> forall bs tail fuel,
  forallb wf_block bs = true ->
  existsb (id_eqb b0) bs = false ->
  (length bs < fuel)%nat ->
  ((tail = [] /\ bs <> []) \/ repeat_tail b0 tail) ->
  walk fuel T D (tbw bs ++ tail) (4 * lenZ (tbw bs ++ tail)) (Some (b_cat b0, b_tid b0))
  = Ok (map (entry_of T D) bs).
Proof.
  intros Hok. induction bs as [|b bs IH]; intros tail fuel Hwf Hid Hf Ht.
  - destruct Ht as [[_ Hn]|(b' & tail' & -> & Hb' & Hc & Hi)]; [congruence|].
    destruct fuel as [|f]; [simpl in Hf; lia|].
    change (tbw [] ++ (blockw b' ++ tail')) with (blockw b' ++ tail').
    rewrite (walk_step T D f b' tail' _ Hb' Hok).
    rewrite Hc, Hi, zlist_eqb_refl, Z.eqb_refl. cbn [andb orb negb]. rewrite andb_false_r. reflexivity.
  - simpl in Hwf, Hid, Hf. apply andb_true_iff in Hwf as [Hb Hbs].
    apply orb_false_iff in Hid as [Hib Hibs].
    destruct fuel as [|f]; [lia|].
    rewrite tbw_cons. rewrite (walk_step T D f b _ _ Hb Hok).
    assert (Hib' : zlist_eqb (b_cat b) (b_cat b0) && (b_tid b =? b_tid b0) = false).
    { unfold id_eqb in Hib. rewrite zlist_eqb_sym, Z.eqb_sym. exact Hib. }
    rewrite Hib'. cbn [orb].
    destruct (4 * lenZ (tbw bs ++ tail) =? 0) eqn:E.
    + apply Z.eqb_eq in E. assert (E' : tbw bs ++ tail = []) by (apply lenZ_zero_nil; lia).
      destruct (tbw_app_nil bs tail Hbs E') as [-> ->]. reflexivity.
    + apply Z.eqb_neq in E. pose proof (lenZ_nonneg (tbw bs ++ tail)).
      replace (0 <? 4 * lenZ (tbw bs ++ tail)) with true by (symmetry; apply Z.ltb_lt; lia).
      rewrite (IH tail f Hbs Hibs); [reflexivity|lia|].
      destruct Ht as [[-> _]|Hr]; [left|right; exact Hr].
      split; [reflexivity|]. intros ->. apply E. reflexivity.
Qed.

Lemma walk_first T D b0 rest0 tail fuel : tables_ok T D = true ->
  wf_block b0 = true -> forallb wf_block rest0 = true ->
  existsb (id_eqb b0) rest0 = false ->
  (S (length rest0) < fuel)%nat ->
  (tail = [] \/ repeat_tail b0 tail) ->
  walk fuel T D (tbw (b0 :: rest0) ++ tail) (4 * lenZ (tbw (b0 :: rest0) ++ tail)) None
  = Ok (map (entry_of T D) (b0 :: rest0)).
Proof.
  intros Hok Hb0 Hr Hid Hf Ht. destruct fuel as [|f]; [lia|].
  rewrite tbw_cons, (walk_step T D f b0 _ _ Hb0 Hok).
  destruct (0 <? 4 * lenZ (tbw rest0 ++ tail)) eqn:E.
  - rewrite (walk_rest T D b0 Hok rest0 tail f Hr Hid); [reflexivity|lia|].
    destruct Ht as [->|Ht]; [left|right; exact Ht]. split; [reflexivity|].
    intros ->. simpl in E. discriminate.
  - apply Z.ltb_ge in E. pose proof (lenZ_nonneg (tbw rest0 ++ tail)).
    assert (E' : tbw rest0 ++ tail = []) by (apply lenZ_zero_nil; lia).
    destruct (tbw_app_nil rest0 tail Hr E') as [-> _]. reflexivity.
Qed.

(* ---- time blocks ---------------------------------------------------------------------------------------- *)
Definition pblock_of (b : block) : pblock :=
  {| q_hdr := hdr_of b; q_m0 := 4 * lenZ (b_data b); q_data := b_data b; q_m2 := 4 * lenZ (b_data b) |}.
Definition tszZ (es : list entry) : Z := fold_right (fun e a => seg_wordsZ e + a) 0 es.

Lemma meta_eqb_true a b : meta_eqb a b = true ->
  b_model a = b_model b /\ b_cat a = b_cat b /\ b_tid a = b_tid b /\ b_unit a = b_unit b /\ b_resv a = b_resv b
  /\ b_nx a = b_nx b /\ b_ny a = b_ny b /\ b_nz a = b_nz b /\ b_start a = b_start b.
Proof.
  unfold meta_eqb. intros H. repeat (apply andb_true_iff in H as [H ?]).
  repeat match goal with
         | H : zlist_eqb _ _ = true |- _ => apply zlist_eqb_eq in H
         | H : (_ =? _) = true |- _ => apply Z.eqb_eq in H
         end.
  repeat split; assumption.
Qed.

Lemma seg_words_meta T D b b' : meta_eqb b b' = true -> wf_block b = true ->
  seg_wordsZ (entry_of T D b') = lenZ (blockw b) /\ e_n (entry_of T D b') = lenZ (b_data b).
Proof.
  intros Hm Hwf. destruct (meta_eqb_true _ _ Hm) as (_ & _ & _ & _ & _ & Hx & Hy & Hz & _).
  destruct (wf_block_lens b Hwf) as (_ & _ & _ & _ & _ & _ & _ & _ & _ & Ld).
  destruct consts as (C1 & _).
  unfold seg_wordsZ, entry_of. cbn [e_n]. rewrite C1, (lenZ_blockw b Hwf), Ld, Hx, Hy, Hz. split; lia.
Qed.

Lemma parse_time_tbw T D : forall t0 tb,
  list_eqb meta_eqb tb t0 = true -> forallb wf_block tb = true ->
  parse_time (map (entry_of T D) t0) (tbw tb) = map pblock_of tb
  /\ lenZ (tbw tb) = tszZ (map (entry_of T D) t0).
Proof.
  intros t0 tb. revert t0. induction tb as [|b tb IH]; intros [|b' t0] Hm Hwf; simpl in Hm; try discriminate.
  - split; reflexivity.
  - apply andb_true_iff in Hm as [Hm1 Hm2]. simpl in Hwf. apply andb_true_iff in Hwf as [Hb Hbs].
    destruct (IH t0 Hm2 Hbs) as [IH1 IH2].
    destruct (seg_words_meta T D b b' Hm1 Hb) as [Hs Hn].
    split.
    + unfold parse_time in *. cbn [map split_sizes combine].
      assert (Hsw : seg_words (entry_of T D b') = length (blockw b)).
      { unfold seg_words. rewrite Hs. unfold lenZ. apply Nat2Z.id. }
      rewrite Hsw. unfold tbw. cbn [map concat]. fold (tbw tb).
      rewrite firstn_app_exact, skipn_app_exact. cbn [fst snd].
      rewrite (parse_block_blockw b _ Hb Hn). f_equal. exact IH1.
    + unfold tbw. cbn [map concat]. fold (tbw tb). rewrite lenZ_app, IH2. cbn [tszZ map fold_right].
      rewrite Hs. reflexivity.
Qed.

Lemma body_len tsz : forall times, Forall (fun tb => lenZ (tbw tb) = tsz) times ->
  lenZ (concat (map tbw times)) = lenZ times * tsz.
Proof.
  induction 1 as [|tb times Htb _ IH]; [reflexivity|].
  cbn [map concat]. rewrite lenZ_app, IH, Htb. unfold lenZ. simpl length. lia.
Qed.

Lemma flat_header ft ti body : length ft = 10%nat -> length ti = 20%nat ->
  let ws := [40] ++ ft ++ [40; 80] ++ ti ++ [80] ++ body in
  firstn 10 (skipn 1 ws) = ft /\ firstn 20 (skipn 13 ws) = ti
  /\ getw ws 0 = 40 /\ getw ws 11 = 40 /\ getw ws 12 = 80 /\ getw ws 33 = 80
  /\ skipn 34 ws = body /\ lenZ ws = 34 + lenZ body.
Proof.
  intros L1 L2. explode L1. explode L2. cbv zeta. repeat split; try reflexivity.
  unfold lenZ. cbn [app length]. lia.
Qed.

Lemma wf_unpack T D f : wf T D f = true ->
  exists b0 rest0 ts,
    f_times f = (b0 :: rest0) :: ts /\ wf_shape f = true
    /\ forallb (fun tb => list_eqb meta_eqb tb (b0 :: rest0)) (f_times f) = true
    /\ forallb (fun b => zlist_eqb (b_model b) (b_model b0)) (b0 :: rest0) = true
    /\ forallb (fun tb => forallb (fun b => zlist_eqb (b_tau b) (b_tau (hd_block tb))) tb) (f_times f) = true
    /\ existsb (id_eqb b0) rest0 = false
    /\ nodup_keys (map (entry_of T D) (b0 :: rest0)) = true
    /\ taus_distinct f = true.
Proof.
  unfold wf. intros H. apply andb_true_iff in H as [Hs H].
  destruct (f_times f) as [|[|b0 rest0] ts] eqn:E; try discriminate.
  apply andb_true_iff in H as [H H6]. apply andb_true_iff in H as [H H5]. apply andb_true_iff in H as [H H4].
  apply andb_true_iff in H as [H H3]. apply andb_true_iff in H as [H H2]. apply negb_true_iff in H4.
  exists b0, rest0, ts. repeat split; assumption.
Qed.

Lemma forallb_concat {A} (p : A -> bool) ls : forallb p (concat ls) = forallb (forallb p) ls.
Proof. induction ls as [|l ls IH]; simpl; [reflexivity|]. rewrite forallb_app, IH. reflexivity. Qed.

Lemma tbw_len_ge bs : forallb wf_block bs = true -> lenZ bs <= lenZ (tbw bs).
Proof.
  induction bs as [|b bs IH]; intros H; [unfold lenZ; simpl; lia|].
  simpl in H. apply andb_true_iff in H as [Hb Hbs]. specialize (IH Hbs).
  rewrite <- (app_nil_r (tbw (b :: bs))), tbw_cons, app_nil_r, lenZ_app, (lenZ_blockw b Hb).
  pose proof (lenZ_nonneg (b_data b)). unfold lenZ in *. simpl length. lia.
Qed.

Lemma tbw_first_ge b bs : wf_block b = true -> 57 <= lenZ (tbw (b :: bs)).
Proof.
  intros Hb. rewrite <- (app_nil_r (tbw (b :: bs))), tbw_cons, app_nil_r, lenZ_app, (lenZ_blockw b Hb).
  pose proof (lenZ_nonneg (b_data b)). pose proof (lenZ_nonneg (tbw bs)). lia.
Qed.

Lemma same_ids_meta : forall t0 tb, list_eqb meta_eqb tb t0 = true ->
  same_ids (map pblock_of t0) (map pblock_of tb) = true.
Proof.
  intros t0 tb. revert t0. induction tb as [|b tb IH]; intros [|b' t0] H; simpl in H; try discriminate; [reflexivity|].
  apply andb_true_iff in H as [H1 H2]. destruct (meta_eqb_true _ _ H1) as (_ & Hc & Hi & _).
  unfold same_ids. cbn [map list_eqb pblock_of q_hdr hdr_of p_cat p_tid].
  rewrite Hc, Hi, zlist_eqb_refl, Z.eqb_refl. cbn [andb]. apply IH. exact H2.
Qed.

Lemma markers_ok tb : forallb (fun q => q_m0 q =? q_m2 q) (map pblock_of tb) = true.
Proof. induction tb as [|b tb IH]; [reflexivity|]. cbn [map forallb pblock_of q_m0 q_m2]. rewrite Z.eqb_refl. exact IH. Qed.

Lemma var_of_hdr_block T D b : tables_ok T D = true -> var_of_hdr T D (hdr_of b) = var_of T D b.
Proof.
  intros Hok. unfold var_of_hdr, var_of, hdr_of. cbn [p_cat p_tid p_unit p_resv p_nx p_ny p_nz p_start].
  rewrite (impl_lookup_spec _ _ _ _ _ Hok). reflexivity.
Qed.

Lemma tau_of_pblocks tb : p_tau (hd_pblock (map pblock_of tb)) = b_tau (hd_block tb).
Proof. destruct tb as [|b tb]; reflexivity. Qed.

(* ---- the reader model presents exactly the content ------------------------------------------------- *)
Theorem read_enc T D f : wf T D f = true -> tables_ok T D = true ->
  impl_open T D (enc f) (4 * lenZ (enc f)) = Ok (view_of T D f).
Proof.
  intros Hwf Hok.
  destruct (wf_unpack T D f Hwf) as (b0 & rest0 & ts & Et & Hs & Hmeta & Hmodel & Htau & Hid & Hnd & Htd).
  destruct (shape_lens f Hs) as (L1 & L2 & Hb).
  rewrite (enc_flat f Hs). unfold flat.
  destruct (flat_header (f_ftype f) (f_title f) (bodyw f) L1 L2) as (F1 & F2 & F3 & F4 & F5 & F6 & F7 & F8).
  set (ws := [40] ++ f_ftype f ++ [40; 80] ++ f_title f ++ [80] ++ bodyw f) in *.
  destruct consts as (C1 & C2 & C3 & C4 & _ & _ & _ & _ & _ & _ & _ & _ & _ & G0 & G1 & G2 & G3 & G4 & G5).
  destruct writer_layout as (_ & _ & _ & _ & _ & _ & _ & _ & _ & _ & _ & W1 & W2).
  unfold impl_open. rewrite W1, W2, C2, C4, G0, G1, G2, G3, G4, G5, F1, F2, F3, F4, F5, F6, F7, F8.
  assert (Hall : Forall (fun tb => list_eqb meta_eqb tb (b0 :: rest0) = true /\ forallb wf_block tb = true) (f_times f)).
  { rewrite forallb_concat in Hb. rewrite forallb_forall in Hmeta, Hb. apply Forall_forall. intros tb Hin. split; auto. }
  pose proof (proj1 (Forall_forall _ _) Hall) as HallF.
  assert (Hwf0 : forallb wf_block (b0 :: rest0) = true).
  { rewrite Et in Hall. inversion Hall as [|? ? [_ H0] _]. exact H0. }
  pose proof Hwf0 as Hwf0'. simpl in Hwf0'. apply andb_true_iff in Hwf0' as [Hb0 Hr0].
  set (es := map (entry_of T D) (b0 :: rest0)) in *.
  assert (Hlen : Forall (fun tb => lenZ (tbw tb) = tszZ es) (f_times f)).
  { eapply Forall_impl; [|exact Hall]. intros tb [H1 H2]. apply (parse_time_tbw T D _ _ H1 H2). }
  assert (Hbody : bodyw f = tbw (b0 :: rest0) ++ concat (map tbw ts)).
  { unfold bodyw. rewrite Et. reflexivity. }
  assert (Htail : concat (map tbw ts) = [] \/ repeat_tail b0 (concat (map tbw ts))).
  { destruct ts as [|t1 ts']; [left; reflexivity|right].
    rewrite Et in Hall. inversion Hall as [|? ? _ Hall1]. inversion Hall1 as [|? ? [Hm1 Hw1] Hall2]. subst.
    destruct t1 as [|b1 r1]; [discriminate|]. simpl in Hm1. apply andb_true_iff in Hm1 as [Hmb Hmr].
    simpl in Hw1. apply andb_true_iff in Hw1 as [Hwb1 Hwr1].
    destruct (meta_eqb_true _ _ Hmb) as (_ & Hc & Hi & _).
    exists b1, (tbw r1 ++ concat (map tbw ts')). repeat split; try assumption.
    cbn [map concat]. rewrite tbw_cons. reflexivity. }
  assert (Hpos : 0 < tszZ es).
  { pose proof Hlen as Hl0. rewrite Et in Hl0. inversion Hl0 as [|? ? H0 _]. rewrite <- H0.
    rewrite <- (app_nil_r (tbw (b0 :: rest0))), tbw_cons. apply (blockw_nonnil b0 _ Hb0). }
  assert (Hbl : lenZ (bodyw f) = lenZ (f_times f) * tszZ es) by (apply body_len; exact Hlen).
  assert (Hnt : 0 < lenZ (f_times f)) by (rewrite Et; unfold lenZ; simpl length; clear; lia).
  replace (4 * (34 + lenZ (bodyw f)) <? 356) with false.
  2:{ symmetry. apply Z.ltb_ge. rewrite Hbl.
      assert (57 <= tszZ es).
      { pose proof Hlen as Hl0. rewrite Et in Hl0. inversion Hl0 as [|? ? H0 _]. rewrite <- H0. apply tbw_first_ge. exact Hb0. }
      clear - H Hnt. nia. }
  cbn [Z.eqb Pos.eqb andb negb].
  replace (4 * (34 + lenZ (bodyw f)) - 136) with (4 * lenZ (bodyw f)) by (clear; lia).
  rewrite Hbody at 1 2.
  rewrite (walk_first T D b0 rest0 _ _ Hok Hb0 Hr0 Hid); [| |exact Htail].
  2:{ pose proof (tbw_len_ge _ Hwf0) as Hg. pose proof (lenZ_nonneg (concat (map tbw ts))) as Hn.
      rewrite Hbody, lenZ_app in F8. clear - F8 Hg Hn. unfold lenZ in *. simpl length in *. lia. }
  fold es. rewrite Hnd. cbn [negb]. fold (tszZ es).
  rewrite Hbl.
  replace (4 * (lenZ (f_times f) * tszZ es) / (4 * tszZ es)) with (lenZ (f_times f)).
  2:{ rewrite Z.div_mul_cancel_l by (clear - Hpos; lia). rewrite Z.div_mul by (clear - Hpos; lia). reflexivity. }
  replace (lenZ (f_times f) <=? 0) with false by (symmetry; apply Z.leb_gt; exact Hnt).
  rewrite <- Hbl. replace (Z.to_nat (lenZ (bodyw f))) with (length (bodyw f)) by (unfold lenZ; rewrite Nat2Z.id; reflexivity).
  rewrite firstn_all. unfold bodyw at 1.
  rewrite chunks_concat.
  2:{ clear - Hpos. lia. }
  2:{ apply Forall_forall. intros l Hin. apply in_map_iff in Hin as (tb & <- & Hin).
      rewrite Forall_forall in Hlen. specialize (Hlen tb Hin). unfold lenZ in Hlen. rewrite <- Hlen. rewrite Nat2Z.id. reflexivity. }
  assert (Hpb : map (parse_time es) (map tbw (f_times f)) = map (map pblock_of) (f_times f)).
  { rewrite map_map. apply map_ext_in. intros tb Hin. destruct (HallF tb Hin) as [H1 H2].
    apply (parse_time_tbw T D _ _ H1 H2). }
  rewrite Hpb.
  assert (Hsame : forallb (same_ids (hd [] (map (map pblock_of) (f_times f)))) (map (map pblock_of) (f_times f)) = true).
  { rewrite Et at 1. cbn [map hd]. apply forallb_forall. intros pb Hin. apply in_map_iff in Hin as (tb & <- & Hin).
    destruct (HallF tb Hin) as [H1 _]. exact (same_ids_meta (b0 :: rest0) tb H1). }
  rewrite Hsame. cbn [negb].
  assert (Hmk : forallb (forallb (fun q => q_m0 q =? q_m2 q)) (map (map pblock_of) (f_times f)) = true).
  { apply forallb_forall. intros pb Hin. apply in_map_iff in Hin as (tb & <- & _). apply markers_ok. }
  rewrite Hmk. cbn [negb].
  f_equal. unfold view_of, tb0.
  assert (Hh : parse_hdr (bodyw f) = hdr_of (hd_block (hd [] (f_times f)))).
  { rewrite Hbody, tbw_cons, (parse_hdr_blockw b0 _ Hb0), Et. reflexivity. }
  rewrite Hh.
  assert (Hhd : hd [] (map (map pblock_of) (f_times f)) = map pblock_of (hd [] (f_times f))).
  { destruct (f_times f); reflexivity. }
  rewrite Hhd.
  f_equal.
  - rewrite map_map. apply map_ext. intros b. cbn [pblock_of q_hdr]. apply var_of_hdr_block. exact Hok.
  - rewrite map_map. apply map_ext. intros tb. apply tau_of_pblocks.
  - rewrite map_map. apply map_ext. intros tb. rewrite map_map. reflexivity.
Qed.

(* ---- the writer model reproduces the spec encoding --------------------------------------------------- *)
Lemma write_block_blockw T D model tau b0 b : meta_eqb b b0 = true -> wf_block b = true ->
  b_model b = model -> b_tau b = tau ->
  write_block model tau (var_of T D b0) (b_data b) = blockw b.
Proof.
  intros Hm Hwf <- <-.
  destruct (meta_eqb_true _ _ Hm) as (_ & Hc & Hi & Hu & Hr & Hx & Hy & Hz & Hst).
  destruct (wf_block_lens b Hwf) as (_ & _ & _ & _ & _ & _ & _ & _ & _ & Ld).
  unfold write_block, var_of. cbn [v_cat v_tid v_unit0 v_resv v_nx v_ny v_nz v_start].
  rewrite <- Hc, <- Hi, <- Hu, <- Hr, <- Hx, <- Hy, <- Hz, <- Hst, <- Ld.
  unfold blockw, h2_of.
  change bw_hpad1 with 36. change bw_hepad1 with 36. change bw_hpad2 with 168. change bw_hepad2 with 168.
  change (bw_skip (4 * lenZ (b_data b))) with (4 * lenZ (b_data b) + 8).
  repeat rewrite <- app_assoc. reflexivity.
Qed.

Lemma write_time_tbw T D model tau : forall t0 tb,
  list_eqb meta_eqb tb t0 = true -> forallb wf_block tb = true ->
  forallb (fun b => zlist_eqb (b_model b) model && zlist_eqb (b_tau b) tau) tb = true ->
  write_time model (map (var_of T D) t0) (tau, map b_data tb) = tbw tb.
Proof.
  intros t0 tb. revert t0. induction tb as [|b tb IH]; intros [|b' t0] Hm Hwf Hu; simpl in Hm; try discriminate; [reflexivity|].
  apply andb_true_iff in Hm as [Hm1 Hm2]. simpl in Hwf. apply andb_true_iff in Hwf as [Hb Hbs].
  simpl in Hu. apply andb_true_iff in Hu as [Hu1 Hu2]. apply andb_true_iff in Hu1 as [Hu1 Hu1'].
  apply zlist_eqb_eq in Hu1, Hu1'.
  unfold write_time in *. cbn [fst snd map combine concat] in *.
  rewrite (write_block_blockw T D model tau b' b Hm1 Hb Hu1 Hu1'), (IH t0 Hm2 Hbs Hu2).
  unfold tbw. reflexivity.
Qed.

Lemma combine_map {A B C} (g : A -> B) (h : A -> C) l :
  combine (map g l) (map h l) = map (fun x => (g x, h x)) l.
Proof. induction l; simpl; [reflexivity|]. rewrite IHl. reflexivity. Qed.

Theorem write_view T D f : wf T D f = true -> impl_write (view_of T D f) = enc f.
Proof.
  intros Hwf.
  destruct (wf_unpack T D f Hwf) as (b0 & rest0 & ts & Et & Hs & Hmeta & Hmodel & Htau & Hid & Hnd & Htd).
  destruct (shape_lens f Hs) as (L1 & L2 & Hb). rewrite forallb_concat in Hb.
  rewrite (enc_flat f Hs). unfold flat, impl_write, view_of, tb0.
  cbn [r_ftype r_title r_model r_vars r_taus r_data].
  change bw_gpad1 with 40. change bw_gepad1 with 40. change bw_gpad2 with 80. change bw_gepad2 with 80.
  do 5 f_equal. unfold bodyw. rewrite combine_map, map_map. f_equal. apply map_ext_in. intros tb Hin.
  rewrite forallb_forall in Hmeta, Hb, Htau.
  rewrite Et. cbn [hd hd_block].
  apply write_time_tbw; [apply Hmeta; exact Hin | apply Hb; exact Hin | ].
  - (* every block of tb carries the model of b0 and the time stamp of the first block of tb *)
    specialize (Hmeta tb Hin). specialize (Htau tb Hin).
    assert (Hmd : forallb (fun b => zlist_eqb (b_model b) (b_model b0)) tb = true).
    { clear - Hmeta Hmodel. revert Hmeta Hmodel. generalize (b0 :: rest0) as t0. intros t0. revert t0.
      induction tb as [|b tb IH]; intros [|b' t0] H1 H2; simpl in *; try discriminate; [reflexivity|].
      apply andb_true_iff in H1 as [H1 H1']. apply andb_true_iff in H2 as [H2 H2'].
      destruct (meta_eqb_true _ _ H1) as (Hm & _). rewrite Hm, H2. cbn [andb]. apply (IH t0 H1' H2'). }
    clear - Hmd Htau. rewrite forallb_forall in *. intros b Hb. rewrite (Hmd b Hb), (Htau b Hb). reflexivity.
Qed.

(* reading without scaling and writing back reproduces the bytes *)
Theorem read_write_bytes T D f : wf T D f = true -> tables_ok T D = true ->
  exists v, impl_open T D (enc f) (4 * lenZ (enc f)) = Ok v /\ impl_write v = enc f.
Proof.
  intros Hwf Hok. exists (view_of T D f). split; [apply read_enc; assumption|apply write_view; assumption].
Qed.

(* a view is written as the file with these blocks *)
Definition block_of_var (model tau : list word) (v : var) (d : list word) : block :=
  {| b_model := model; b_cat := v_cat v; b_tid := v_tid v; b_unit := v_unit0 v; b_tau := tau; b_resv := v_resv v;
     b_nx := v_nx v; b_ny := v_ny v; b_nz := v_nz v; b_start := v_start v; b_data := d |}.
Definition file_of (v : view) : bfile :=
  {| f_ftype := r_ftype v; f_title := r_title v;
     f_times := map (fun p => map (fun vd => block_of_var (r_model v) (fst p) (fst vd) (snd vd)) (combine (r_vars v) (snd p)))
                    (combine (r_taus v) (r_data v)) |}.

(* writing any bpch-convention view and reading it back returns it *)
Theorem write_read T D v :
  wf T D (file_of v) = true -> tables_ok T D = true ->
  view_of T D (file_of v) = v ->
  impl_write v = enc (file_of v)
  /\ impl_open T D (impl_write v) (4 * lenZ (impl_write v)) = Ok v.
Proof.
  intros Hwf Hok Hv.
  assert (Hw : impl_write v = enc (file_of v)).
  { rewrite <- Hv at 1. apply write_view. exact Hwf. }
  split; [exact Hw|]. rewrite Hw. rewrite <- Hv at 3. apply read_enc; assumption.
Qed.
