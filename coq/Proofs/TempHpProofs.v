(* Proofs about Model/TempHp.v (CAMx temperature and height_pressure files): spec codec round trips, exact
   characterisation of what the two memmap reader models accept on whole files and on every byte prefix. The files
   are layered record files: the rows-level lemmas of Proofs/One3dProofs.v are reused. *)
From PNC Require Import Base.Util Base.Words Proofs.WordsProofs Gen.Camx Model.Uamiv Model.CamxMet Model.One3d Model.TempHp
                        Proofs.UamivProofs Proofs.One3dProofs.
From Coq Require Import ZifyBool.
Import Coq.Lists.List. Import ListNotations.
Local Open Scope Z_scope.

(* ---- contents as layered record files ------------------------------------------------------------- *)
Lemma t_to_o_wf c : t_wf c = true -> o_wf (t_to_o c) = true.
Proof.
  unfold t_wf, o_wf, t_to_o. cbn [o_nx o_ny o_nz o_steps]. intros W.
  apply andb_true_iff in W as [W Hs]. apply andb_true_iff. split; [lia|].
  rewrite forallb_forall in *. intros s Hin. apply in_map_iff in Hin as (ts & <- & Hin).
  specialize (Hs ts Hin). apply andb_true_iff in Hs as [Hs A3]. apply andb_true_iff in Hs as [A1 A2].
  unfold o_wf_step, len_is in *. cbn [o_nz o_nx o_ny os_lays forallb length].
  apply andb_true_iff. split; [lia|]. apply andb_true_iff. split; [exact A1|exact A3].
Qed.

Lemma length_interleave hp : length (interleave hp) = (2 * length hp)%nat.
Proof. unfold interleave. induction hp as [|p hp IH]; cbn [map concat length app]; [reflexivity|]. rewrite IH. lia. Qed.

Lemma h_to_o_wf c : h_wf c = true -> o_wf (h_to_o c) = true.
Proof.
  unfold h_wf, o_wf, h_to_o. cbn [o_nx o_ny o_nz o_steps]. intros W.
  apply andb_true_iff in W as [W Hs]. apply andb_true_iff. split; [lia|].
  rewrite forallb_forall in *. intros s Hin. apply in_map_iff in Hin as (hs & <- & Hin).
  specialize (Hs hs Hin). apply andb_true_iff in Hs as [H1 H2].
  unfold o_wf_step. cbn [o_nz o_nx o_ny os_lays]. unfold len_is in *. rewrite length_interleave.
  apply andb_true_iff. split; [lia|].
  unfold interleave. rewrite forallb_forall in *. intros lay Hl. apply in_concat in Hl as (pr & Hpr & Hl).
  apply in_map_iff in Hpr as (p & <- & Hp). specialize (H2 p Hp). apply andb_true_iff in H2 as [A B].
  destruct Hl as [<-|[<-|[]]]; assumption.
Qed.

Lemma opt_all_map_some {A B} (f : A -> option B) (g : B -> A) (l : list B) :
  (forall x, f (g x) = Some x) -> opt_all (map f (map g l)) = Some l.
Proof.
  intros H. induction l as [|x l IH]; cbn [map opt_all]; [reflexivity|]. rewrite H, IH. reflexivity.
Qed.

Lemma pairs_interleave hp : pairs (interleave hp) = Some hp.
Proof.
  unfold interleave. induction hp as [|[a b] hp IH]; cbn [map concat app pairs fst snd]; [reflexivity|].
  rewrite IH. reflexivity.
Qed.

Lemma t_dec_enc c : t_wf c = true -> t_dec (t_nx c) (t_ny c) (t_nz c) (t_enc c) = Some c.
Proof.
  intros W. unfold t_dec, t_enc.
  pose proof (o_dec_enc (t_to_o c) (t_to_o_wf c W)) as E. cbn [t_to_o o_nx o_ny o_nz] in E. rewrite E.
  cbn [o_steps t_to_o].
  rewrite (opt_all_map_some t_of_ostep (fun s => OStep (ts_time s) (ts_date s) (ts_surf s :: ts_air s))).
  - destruct c; reflexivity.
  - intros [t d sf air]. reflexivity.
Qed.

Lemma h_dec_enc c : h_wf c = true -> h_dec (h_nx c) (h_ny c) (h_nz c) (h_enc c) = Some c.
Proof.
  intros W. unfold h_dec, h_enc.
  pose proof (o_dec_enc (h_to_o c) (h_to_o_wf c W)) as E. cbn [h_to_o o_nx o_ny o_nz] in E. rewrite E.
  cbn [o_steps h_to_o].
  rewrite (opt_all_map_some h_of_ostep (fun s => OStep (hs_time s) (hs_date s) (interleave (hs_hp s)))).
  - destruct c; reflexivity.
  - intros [t d hp]. unfold h_of_ostep. cbn [os_lays os_time os_date]. rewrite pairs_interleave. reflexivity.
Qed.

Lemma t_rewrite_idempotent c : t_wf c = true ->
  match t_dec (t_nx c) (t_ny c) (t_nz c) (t_enc c) with Some c' => t_enc c' = t_enc c | None => False end.
Proof. intros W. rewrite (t_dec_enc c W). reflexivity. Qed.
Lemma h_rewrite_idempotent c : h_wf c = true ->
  match h_dec (h_nx c) (h_ny c) (h_nz c) (h_enc c) with Some c' => h_enc c' = h_enc c | None => False end.
Proof. intros W. rewrite (h_dec_enc c W). reflexivity. Qed.

(* ======================================================================================
   The common part of both readers (th_rows) on a layered record file
   ====================================================================================== *)
Lemma th_rows_local ws size : th_rows (firstn (Z.to_nat (size / 4)) ws) size = th_rows ws size.
Proof.
  unfold th_rows. destruct ((size <=? 0) || negb (size mod 4 =? 0)) eqn:G; [reflexivity|].
  assert (1 <= size / 4).
  { assert (size = 4 * (size / 4)) by (apply Z.div_exact; lia). lia. }
  rewrite getw_firstn by lia. rewrite firstn_firstn, Nat.min_id. reflexivity.
Qed.

Lemma hd_step_rows' c s : o_wf c = true -> ostep_ok c s -> row_stamp (hd [] (step_rows s)) = os_stamp s.
Proof.
  intros W Hs. destruct (step_rows_facts c W s Hs) as (L & _ & St & _).
  destruct (o_wf_parts c W) as (_&_&Hz&_).
  destruct (step_rows s) as [|r t]; [cbn in L; lia|]. cbn [hd]. apply (Forall_inv St).
Qed.

Lemma th_rows_reduce c size : o_wf c = true -> o_steps c <> [] ->
  0 <= size <= 4 * Z.of_nat (length (o_enc c)) ->
  th_rows (o_enc c) size =
  if (size <=? 0) || negb (size mod 4 =? 0) then None else
  let r := size / 4 / o_rec_words c in
  if negb (r * o_rec_words c =? size / 4) then None
  else Some (firstn (Z.to_nat r) (o_rows c), r, o_nx c * o_ny c).
Proof.
  intros W Hne Hs. destruct (o_wf_parts c W) as (Hx & Hy & Hz & Hok).
  pose proof (rec_words_pos c W) as Hri.
  (* the first word is the marker of the first record *)
  assert (G0 : getw (o_enc c) 0 = 4 * (o_nx c * o_ny c + 2)).
  { rewrite o_enc_rows. unfold o_rows. destruct (o_steps c) as [|s0 ss] eqn:Es; [congruence|].
    pose proof (Forall_inv Hok) as [L0 C0]. cbn [map concat]. unfold step_rows at 1.
    destruct (os_lays s0) as [|lay ls]; [cbn in L0; lia|]. cbn [map app concat]. unfold frame1 at 1. cbn [app].
    rewrite getw_0. unfold marker, met_rec. cbn [length]. pose proof (Forall_inv C0) as Hl. cbn beta in Hl. lia. }
  unfold th_rows. rewrite G0.
  replace (4 * (o_nx c * o_ny c + 2) / 4 - 2) with (o_nx c * o_ny c) by (rewrite four_div_o; lia).
  replace (o_nx c * o_ny c + 4) with (o_rec_words c) by reflexivity.
  destruct ((size <=? 0) || negb (size mod 4 =? 0)); [reflexivity|].
  replace (o_rec_words c <=? 0) with false by lia. cbn zeta.
  set (r := size / 4 / o_rec_words c).
  destruct (r * o_rec_words c =? size / 4) eqn:Er; [|reflexivity]. cbn [negb].
  assert (Hr0 : 0 <= r) by (apply Z.div_pos; [apply Z.div_pos|]; lia).
  replace (Z.to_nat (size / 4)) with (Z.to_nat r * Z.to_nat (o_rec_words c))%nat by nia.
  rewrite o_enc_rows, (firstn_concat_uniform _ _ _ (o_rows_uniform c W)).
  rewrite chunks_concat; [reflexivity|lia|apply Forall_firstn, (o_rows_uniform c W)].
Qed.

(* sizes against records: r = number of whole records when the size is a whole number of them *)
Lemma size_analysis ri m size : 0 < ri -> 0 < m -> 0 <= size ->
  let g := (size <=? 0) || negb (size mod 4 =? 0) in
  let r := size / 4 / ri in
  (g = true \/ (g = false /\ (r * ri =? size / 4) = false) ->
     (size mod (4 * (m * ri)) =? 0) && (2 <=? size / (4 * (m * ri))) = false /\ size <> 8 * ri) /\
  (g = false -> (r * ri =? size / 4) = true ->
     1 <= r /\ size = 4 * ri * r /\ size mod (4 * (m * ri)) = 4 * ri * (r mod m) /\ size / (4 * (m * ri)) = r / m).
Proof.
  intros Hri Hm Hs. cbn zeta. split.
  - intros H. split.
    + destruct (size mod (4 * (m * ri)) =? 0) eqn:Sm; [|reflexivity]. cbn [andb].
      assert (E : size = 4 * (m * ri) * (size / (4 * (m * ri)))) by (apply Z.div_exact; lia).
      set (q := size / (4 * (m * ri))) in *.
      destruct H as [H|[H1 H2]].
      * apply orb_true_iff in H as [H|H]; [assert (size = 0) by lia; assert (q = 0) by nia; lia|].
        exfalso. assert (size mod 4 = 0); [|lia].
        rewrite E. replace (4 * (m * ri) * q) with (m * ri * q * 4) by lia. apply Z.mod_mul. lia.
      * exfalso. assert (size / 4 = m * q * ri).
        { rewrite E. replace (4 * (m * ri) * q) with (m * q * ri * 4) by lia. apply Z.div_mul. lia. }
        assert (size / 4 / ri = m * q) by (rewrite H; apply Z.div_mul; lia). nia.
    + intros E. destruct H as [H|[H1 H2]].
      * apply orb_true_iff in H as [H|H]; [lia|].
        assert (size mod 4 = 0); [|lia]. rewrite E. replace (8 * ri) with (2 * ri * 4) by lia. apply Z.mod_mul. lia.
      * assert (size / 4 = 2 * ri) by (rewrite E; replace (8 * ri) with (2 * ri * 4) by lia; apply Z.div_mul; lia).
        assert (size / 4 / ri = 2) by (rewrite H; apply Z.div_mul; lia). nia.
  - intros G Er.
    assert (S4 : size mod 4 = 0) by lia.
    assert (En : size = 4 * (size / 4)) by (apply Z.div_exact; lia).
    set (r := size / 4 / ri) in *.
    assert (Esz : size = 4 * ri * r) by nia.
    split; [nia|]. split; [exact Esz|].
    replace (4 * (m * ri)) with (4 * ri * m) by lia.
    split.
    + rewrite Esz at 1. apply Z.mul_mod_distr_l; lia.
    + rewrite Esz at 1. apply Z.div_mul_cancel_l; lia.
Qed.

(* ======================================================================================
   TEMPERATURE: what the reader makes of the first rn records of a readable file
   ====================================================================================== *)
Definition t_post (rows cols : Z) (rws : list (list Z)) (records rxc : Z) : result tview :=
  match fd_strict rws with
  | None => Err
  | Some ni =>
    let i := Z.of_nat ni in
    let lays := i - 1 in
    let tsteps := records / i in
    if negb (cols * rows =? rxc) then Err else
    if negb (tsteps * (lays + 1) =? records) then Err else
    if negb (markers_ok rws) then Err else
    let groups := group (Z.to_nat tsteps) ni rws in
    Ok {| tv_nx := cols; tv_ny := rows; tv_nz := lays; tv_ntimes := tsteps;
          tv_stamps := map (fun g => row_stamp (hd [] g)) groups;
          tv_surf := map (fun g => row_cells (rows * cols) (hd [] g)) groups;
          tv_air := map (fun g => map (row_cells (rows * cols)) (tl g)) groups |}
  end.

Lemma t_mm_read_unfold rows cols ws size :
  t_mm_read rows cols ws size =
  match th_rows ws size with None => Err | Some (rws, records, rxc) => t_post rows cols rws records rxc end.
Proof. unfold t_mm_read. destruct (th_rows ws size) as [[[rws records] rxc]|]; reflexivity. Qed.

Lemma markers_ok_firstn c rn : markers_ok (firstn rn (o_rows c)) = true.
Proof.
  unfold markers_ok. apply forallb_forall. intros r Hr.
  pose proof (rows_markers c) as H. rewrite Forall_forall in H. rewrite (H r (In_firstn_in _ _ _ Hr)). apply Z.eqb_refl.
Qed.

Lemma fd_or_last_rows c (W : o_wf c = true) s0 s1 rest (Es : o_steps c = s0 :: s1 :: rest)
      (Hd : stamp_eqb (os_stamp s0) (os_stamp s1) = false) rn :
  (1 <= rn <= length (o_rows c))%nat ->
  fd_or_last (firstn rn (o_rows c)) = if (rn <=? Z.to_nat (o_nz c))%nat then (rn - 1)%nat else Z.to_nat (o_nz c).
Proof.
  intros Hrn. destruct (firstn_rows_stamps c W s0 s1 rest Es Hd rn Hrn) as (r0 & T & E & St & Fd).
  unfold fd_or_last. rewrite E. rewrite St. rewrite <- E. rewrite Fd.
  destruct (rn <=? Z.to_nat (o_nz c))%nat; [|reflexivity]. rewrite firstn_length. lia.
Qed.

Lemma fd_strict_rows c (W : o_wf c = true) s0 s1 rest (Es : o_steps c = s0 :: s1 :: rest)
      (Hd : stamp_eqb (os_stamp s0) (os_stamp s1) = false) rn :
  (1 <= rn <= length (o_rows c))%nat ->
  fd_strict (firstn rn (o_rows c)) = if (rn <=? Z.to_nat (o_nz c))%nat then None else Some (Z.to_nat (o_nz c)).
Proof.
  intros Hrn. destruct (firstn_rows_stamps c W s0 s1 rest Es Hd rn Hrn) as (r0 & T & E & St & Fd).
  unfold fd_strict. rewrite E. rewrite St. rewrite <- E. exact Fd.
Qed.

Definition t_good_view (c : one3d) (k : nat) : tview :=
  {| tv_nx := o_nx c; tv_ny := o_ny c; tv_nz := o_nz c - 1; tv_ntimes := Z.of_nat k;
     tv_stamps := map os_stamp (firstn k (o_steps c));
     tv_surf := map (fun s => hd [] (os_lays s)) (firstn k (o_steps c));
     tv_air := map (fun s => tl (os_lays s)) (firstn k (o_steps c)) |}.

Lemma t_post_rows c (W : o_wf c = true) s0 s1 rest (Es : o_steps c = s0 :: s1 :: rest)
      (Hd : stamp_eqb (os_stamp s0) (os_stamp s1) = false) rn :
  2 <= o_nz c -> (1 <= rn <= length (o_rows c))%nat ->
  t_post (o_ny c) (o_nx c) (firstn rn (o_rows c)) (Z.of_nat rn) (o_nx c * o_ny c) =
  if (rn <=? Z.to_nat (o_nz c))%nat then Err
  else if Z.of_nat rn mod o_nz c =? 0 then Ok (t_good_view c (Z.to_nat (Z.of_nat rn / o_nz c))) else Err.
Proof.
  intros Hm Hrn. unfold t_post. rewrite (fd_strict_rows c W s0 s1 rest Es Hd rn Hrn).
  pose proof (steps_ok c W) as Hok.
  destruct (rn <=? Z.to_nat (o_nz c))%nat eqn:Hle; [reflexivity|].
  rewrite Z.eqb_refl, markers_ok_firstn. cbn [negb].
  apply Nat.leb_gt in Hle.
  rewrite Z2Nat.id by lia.
  replace (o_nz c - 1 + 1) with (o_nz c) by lia.
  pose proof (Z.div_mod (Z.of_nat rn) (o_nz c) ltac:(lia)) as Edm.
  pose proof (Z.mod_pos_bound (Z.of_nat rn) (o_nz c) ltac:(lia)) as Hmb.
  destruct (Z.of_nat rn mod o_nz c =? 0) eqn:Hdv.
  2:{ replace (Z.of_nat rn / o_nz c * o_nz c =? Z.of_nat rn) with false by nia. reflexivity. }
  replace (Z.of_nat rn / o_nz c * o_nz c =? Z.of_nat rn) with true by nia. cbn [negb].
  set (k := Z.to_nat (Z.of_nat rn / o_nz c)).
  assert (Hk0 : 0 <= Z.of_nat rn / o_nz c) by (apply Z.div_pos; lia).
  assert (Ek : rn = (k * Z.to_nat (o_nz c))%nat) by (unfold k; nia).
  rewrite (o_rows_length c W) in Hrn.
  assert (Hk : (k <= length (o_steps c))%nat) by nia.
  assert (EG : group k (Z.to_nat (o_nz c)) (firstn rn (o_rows c)) = map step_rows (firstn k (o_steps c))).
  { rewrite Ek. apply (firstn_rows_groups c W s0 s1 Hd k Hk). }
  rewrite !EG.
  assert (Hokk : Forall (ostep_ok c) (firstn k (o_steps c))) by (apply Forall_firstn, Hok).
  unfold t_good_view. fold k. f_equal. f_equal.
  + unfold k. lia.
  + rewrite map_map. apply map_ext_in. intros s Hs. rewrite Forall_forall in Hokk.
    apply (hd_step_rows' c s W (Hokk s Hs)).
  + rewrite map_map. apply map_ext_in. intros s Hs. rewrite Forall_forall in Hokk.
    destruct (step_rows_facts c W s (Hokk s Hs)) as (_ & _ & _ & Em).
    destruct (step_rows s) as [|r R]; destruct (os_lays s) as [|l ls]; try discriminate;
      [unfold row_cells; cbn [hd skipn]; apply firstn_nil|].
    cbn [map hd] in *. injection Em as E1 _. exact E1.
  + rewrite map_map. apply map_ext_in. intros s Hs. rewrite Forall_forall in Hokk.
    destruct (step_rows_facts c W s (Hokk s Hs)) as (_ & _ & _ & Em).
    destruct (step_rows s) as [|r R]; destruct (os_lays s) as [|l ls]; try discriminate; [reflexivity|].
    cbn [map tl] in *. injection Em as _ E2. exact E2.
Qed.

Lemma t_good_view_eq tc k : (k <= length (t_steps tc))%nat ->
  t_good_view (t_to_o tc) k = t_view_of (t_truncate_steps k tc).
Proof.
  intros Hk. unfold t_good_view, t_view_of, t_truncate_steps, t_to_o. cbn [o_nx o_ny o_nz o_steps t_nx t_ny t_nz t_steps].
  rewrite <- map_firstn, !map_map. cbn [os_stamp os_time os_date os_lays hd tl].
  f_equal; try lia. rewrite firstn_length. lia.
Qed.

Lemma t_readable_inv tc : t_readable tc = true ->
  exists ts0 ts1 trest, t_steps tc = ts0 :: ts1 :: trest /\
    stamp_eqb (ts_time ts0, ts_date ts0) (ts_time ts1, ts_date ts1) = false.
Proof.
  unfold t_readable, o_readable, t_to_o. cbn [o_steps]. destruct (t_steps tc) as [|a [|b l]]; try discriminate.
  cbn [map os_stamp os_time os_date]. intros H. exists a, b, l. split; [reflexivity|].
  destruct (stamp_eqb _ _); [discriminate|reflexivity].
Qed.

(* EVERY size (in bytes) of a readable temperature file *)
Lemma t_mm_read_size tc size : t_wf tc = true -> t_readable tc = true ->
  0 <= size <= 4 * Z.of_nat (length (t_enc tc)) ->
  t_mm_read (t_ny tc) (t_nx tc) (t_enc tc) size =
  if (size mod (4 * t_step_words tc) =? 0) && (2 <=? size / (4 * t_step_words tc))
  then Ok (t_view_of (t_truncate_steps (Z.to_nat (size / (4 * t_step_words tc))) tc)) else Err.
Proof.
  intros Wt Hr Hs. pose proof (t_to_o_wf tc Wt) as W.
  destruct (t_readable_inv tc Hr) as (ts0 & ts1 & trest & Ets & Hd).
  set (o := t_to_o tc) in *.
  set (s0 := OStep (ts_time ts0) (ts_date ts0) (ts_surf ts0 :: ts_air ts0)).
  set (s1 := OStep (ts_time ts1) (ts_date ts1) (ts_surf ts1 :: ts_air ts1)).
  assert (Es : o_steps o = s0 :: s1 :: map (fun s => OStep (ts_time s) (ts_date s) (ts_surf s :: ts_air s)) trest).
  { unfold o, t_to_o. cbn [o_steps]. rewrite Ets. reflexivity. }
  assert (Hd' : stamp_eqb (os_stamp s0) (os_stamp s1) = false) by exact Hd.
  assert (Hm : 2 <= o_nz o).
  { unfold o, t_to_o. cbn [o_nz]. unfold t_wf in Wt. repeat (apply andb_true_iff in Wt; destruct Wt as [Wt ?]). lia. }
  pose proof (rec_words_pos o W) as Hri.
  unfold t_enc in *. fold o in Hs |- *.
  change (t_ny tc) with (o_ny o). change (t_nx tc) with (o_nx o).
  replace (t_step_words tc) with (o_nz o * o_rec_words o) by reflexivity.
  rewrite t_mm_read_unfold, th_rows_reduce; [|exact W|rewrite Es; discriminate|exact Hs].
  destruct (size_analysis (o_rec_words o) (o_nz o) size Hri ltac:(lia) ltac:(lia)) as [SA1 SA2]. cbn zeta in SA1, SA2.
  destruct ((size <=? 0) || negb (size mod 4 =? 0)) eqn:G.
  { destruct (SA1 (or_introl eq_refl)) as [A _]. rewrite A. reflexivity. }
  cbn zeta. set (r := size / 4 / o_rec_words o) in *.
  destruct (r * o_rec_words o =? size / 4) eqn:Er; cbn [negb].
  2:{ destruct (SA1 (or_intror (conj eq_refl eq_refl))) as [A _]. rewrite A. reflexivity. }
  destruct (SA2 eq_refl eq_refl) as (Hr1 & Esz & Emod & Ediv).
  rewrite Emod, Ediv.
  rewrite (o_enc_length o W) in Hs. unfold o_step_words in Hs.
  assert (Hrmax : r <= Z.of_nat (length (o_steps o)) * o_nz o) by nia.
  rewrite <- (Z2Nat.id r) at 2 by lia.
  rewrite (t_post_rows o W s0 s1 _ Es Hd') by (try rewrite (o_rows_length o W); nia).
  rewrite Z2Nat.id by lia.
  pose proof (Z.div_mod r (o_nz o) ltac:(lia)) as Edm.
  pose proof (Z.mod_pos_bound r (o_nz o) ltac:(lia)) as Hmb.
  destruct (Z.to_nat r <=? Z.to_nat (o_nz o))%nat eqn:Hle.
  - apply Nat.leb_le in Hle.
    destruct ((4 * o_rec_words o * (r mod o_nz o) =? 0) && (2 <=? r / o_nz o)) eqn:Hc; [|reflexivity]. exfalso.
    assert (r / o_nz o <= 1) by (apply Z.div_le_upper_bound; lia). lia.
  - apply Nat.leb_gt in Hle.
    destruct (r mod o_nz o =? 0) eqn:Hdv.
    + replace (4 * o_rec_words o * (r mod o_nz o) =? 0) with true by nia.
      replace (2 <=? r / o_nz o) with true by nia. cbn [andb].
      f_equal. apply t_good_view_eq.
      assert (length (o_steps o) = length (t_steps tc)) by (unfold o, t_to_o; cbn [o_steps]; apply map_length). nia.
    + replace (4 * o_rec_words o * (r mod o_nz o) =? 0) with false by nia. reflexivity.
Qed.

Lemma t_step_words_pos tc : t_wf tc = true -> 0 < t_step_words tc /\ 0 < t_rec_words tc.
Proof.
  intros W. unfold t_wf in W. repeat (apply andb_true_iff in W; destruct W as [W ?]).
  unfold t_step_words, t_rec_words. nia.
Qed.

Lemma t_enc_length tc : t_wf tc = true ->
  Z.of_nat (length (t_enc tc)) = Z.of_nat (length (t_steps tc)) * t_step_words tc.
Proof.
  intros W. unfold t_enc. rewrite (o_enc_length _ (t_to_o_wf tc W)). unfold t_to_o, o_step_words, o_rec_words.
  cbn [o_steps o_nz o_nx o_ny]. rewrite map_length. reflexivity.
Qed.

Lemma t_mm_read_local rows cols ws size :
  t_mm_read rows cols (firstn (Z.to_nat (size / 4)) ws) size = t_mm_read rows cols ws size.
Proof. rewrite !t_mm_read_unfold, th_rows_local. reflexivity. Qed.

Lemma t_mm_read_k tc k : t_wf tc = true -> t_readable tc = true -> (2 <= k <= length (t_steps tc))%nat ->
  t_mm_read (t_ny tc) (t_nx tc) (t_enc tc) (4 * (Z.of_nat k * t_step_words tc)) = Ok (t_view_of (t_truncate_steps k tc)).
Proof.
  intros W Hr Hk. destruct (t_step_words_pos tc W) as (Hsw & Hri).
  rewrite t_mm_read_size; try assumption; [|rewrite (t_enc_length tc W); nia].
  replace (4 * (Z.of_nat k * t_step_words tc)) with (Z.of_nat k * (4 * t_step_words tc)) by lia.
  rewrite Z.mod_mul, Z.div_mul by lia. cbn [Z.eqb andb].
  replace (2 <=? Z.of_nat k) with true by lia. rewrite Nat2Z.id. reflexivity.
Qed.

Lemma t_mm_read_enc tc : t_wf tc = true -> t_readable tc = true ->
  t_mm_read (t_ny tc) (t_nx tc) (t_enc tc) (4 * Z.of_nat (length (t_enc tc))) = Ok (t_view_of tc).
Proof.
  intros W Hr. rewrite (t_enc_length tc W).
  destruct (t_readable_inv tc Hr) as (a & b & l & Es & _).
  rewrite t_mm_read_k; try assumption; [|rewrite Es; cbn [length]; lia].
  unfold t_truncate_steps. rewrite firstn_all. destruct tc; reflexivity.
Qed.

(* EVERY byte prefix: exact characterisation (reader as repaired by 9020b2c) *)
Lemma t_mm_read_accepts_iff tc size v : t_wf tc = true -> t_readable tc = true ->
  0 <= size <= 4 * Z.of_nat (length (t_enc tc)) ->
  (t_mm_read (t_ny tc) (t_nx tc) (firstn (Z.to_nat (size / 4)) (t_enc tc)) size = Ok v <->
   exists k, (2 <= k <= length (t_steps tc))%nat /\ size = 4 * (Z.of_nat k * t_step_words tc) /\
             v = t_view_of (t_truncate_steps k tc)).
Proof.
  intros W Hr Hs. rewrite t_mm_read_local. destruct (t_step_words_pos tc W) as (Hsw & Hri).
  split.
  - rewrite t_mm_read_size by assumption.
    destruct ((size mod (4 * t_step_words tc) =? 0) && (2 <=? size / (4 * t_step_words tc))) eqn:Hc; [|discriminate].
    intros H. set (q := size / (4 * t_step_words tc)) in *.
    assert (E : size = 4 * t_step_words tc * q) by (apply Z.div_exact; lia).
    exists (Z.to_nat q). rewrite (t_enc_length tc W) in Hs.
    split; [nia|]. split; [rewrite Z2Nat.id by lia; lia|congruence].
  - intros (k & Hk & E & ->). rewrite E. apply t_mm_read_k; assumption.
Qed.

Lemma t_mm_read_prefix tc size : t_wf tc = true -> t_readable tc = true ->
  0 <= size <= 4 * Z.of_nat (length (t_enc tc)) ->
  t_mm_read (t_ny tc) (t_nx tc) (firstn (Z.to_nat (size / 4)) (t_enc tc)) size = Err \/
  exists k, (2 <= k <= length (t_steps tc))%nat /\ size = 4 * (Z.of_nat k * t_step_words tc) /\
            t_mm_read (t_ny tc) (t_nx tc) (firstn (Z.to_nat (size / 4)) (t_enc tc)) size
            = Ok (t_view_of (t_truncate_steps k tc)).
Proof.
  intros W Hr Hs.
  destruct (t_mm_read (t_ny tc) (t_nx tc) (firstn (Z.to_nat (size / 4)) (t_enc tc)) size) as [v|] eqn:E; [|left; reflexivity].
  right. apply (t_mm_read_accepts_iff tc size v W Hr Hs) in E as (k & Hk & Ek & ->). exists k. auto.
Qed.

(* ======================================================================================
   HEIGHT / PRESSURE
   ====================================================================================== *)
Definition h_post (rows cols : Z) (rws : list (list Z)) (records rxc : Z) : result hview :=
  let i := Z.of_nat (fd_or_last rws) in
  if i =? 0 then Err else
  let lays := i / 2 in
  let tsteps := records / i in
  if negb (cols * rows =? rxc) then Err else
  if negb (tsteps * lays * 2 =? records) then Err else
  if negb (markers_ok rws) then Err else
  let groups := group (Z.to_nat tsteps) (Z.to_nat (2 * lays)) rws in
  Ok {| hv_nx := cols; hv_ny := rows; hv_nz := lays; hv_ntimes := tsteps;
        hv_stamps := map (fun g => row_stamp (hd [] g)) groups;
        hv_hght := map (fun g => map (row_cells (rows * cols)) (evens g)) groups;
        hv_pres := map (fun g => map (row_cells (rows * cols)) (odds g)) groups |}.

Lemma h_mm_read_unfold rows cols ws size :
  h_mm_read rows cols ws size =
  match th_rows ws size with None => Err | Some (rws, records, rxc) => h_post rows cols rws records rxc end.
Proof. unfold h_mm_read. destruct (th_rows ws size) as [[[rws records] rxc]|]; reflexivity. Qed.

Lemma evens_odds_map (f : list Z -> list Z) : forall l,
  evens (map f l) = map f (evens l) /\ odds (map f l) = map f (odds l).
Proof.
  fix IH 1. intros [|a [|b t]]; cbn [map evens odds]; try (split; reflexivity).
  destruct (IH t) as [E O]. rewrite E, O. split; reflexivity.
Qed.

Lemma evens_odds_interleave hp : evens (interleave hp) = map fst hp /\ odds (interleave hp) = map snd hp.
Proof.
  unfold interleave. induction hp as [|[a b] hp [E O]]; cbn [map concat app evens odds fst snd]; [split; reflexivity|].
  rewrite E, O. split; reflexivity.
Qed.

Definition h_good_view (c : one3d) (k : nat) : hview :=
  {| hv_nx := o_nx c; hv_ny := o_ny c; hv_nz := o_nz c / 2; hv_ntimes := Z.of_nat k;
     hv_stamps := map os_stamp (firstn k (o_steps c));
     hv_hght := map (fun s => evens (os_lays s)) (firstn k (o_steps c));
     hv_pres := map (fun s => odds (os_lays s)) (firstn k (o_steps c)) |}.

Lemma h_post_rows c (W : o_wf c = true) s0 s1 rest (Es : o_steps c = s0 :: s1 :: rest)
      (Hd : stamp_eqb (os_stamp s0) (os_stamp s1) = false) nz rn :
  o_nz c = 2 * nz -> 1 <= nz -> (1 <= rn <= length (o_rows c))%nat ->
  h_post (o_ny c) (o_nx c) (firstn rn (o_rows c)) (Z.of_nat rn) (o_nx c * o_ny c) =
  if (rn <=? Z.to_nat (o_nz c))%nat then Err
  else if Z.of_nat rn mod o_nz c =? 0 then Ok (h_good_view c (Z.to_nat (Z.of_nat rn / o_nz c))) else Err.
Proof.
  intros Em Hnz Hrn. unfold h_post. rewrite (fd_or_last_rows c W s0 s1 rest Es Hd rn Hrn).
  rewrite Z.eqb_refl, markers_ok_firstn. cbn [negb].
  pose proof (steps_ok c W) as Hok.
  destruct (rn <=? Z.to_nat (o_nz c))%nat eqn:Hle.
  - apply Nat.leb_le in Hle.
    destruct (Z.of_nat (rn - 1) =? 0) eqn:R1; [reflexivity|].
    assert (Hr2 : (2 <= rn)%nat) by lia.
    assert (Hlt : Z.of_nat rn / Z.of_nat (rn - 1) * (Z.of_nat (rn - 1) / 2) * 2 < Z.of_nat rn).
    { destruct (Nat.eq_dec rn 2) as [->|Hne]; [vm_compute; reflexivity|].
      assert (Ed : Z.of_nat rn / Z.of_nat (rn - 1) = 1)
        by (symmetry; apply (Z.div_unique (Z.of_nat rn) (Z.of_nat (rn - 1)) 1 1); lia).
      rewrite Ed. pose proof (Z.mul_div_le (Z.of_nat (rn - 1)) 2 ltac:(lia)). lia. }
    replace (Z.of_nat rn / Z.of_nat (rn - 1) * (Z.of_nat (rn - 1) / 2) * 2 =? Z.of_nat rn) with false by lia.
    reflexivity.
  - apply Nat.leb_gt in Hle.
    rewrite Z2Nat.id by lia. replace (o_nz c =? 0) with false by lia.
    assert (Eh : o_nz c / 2 = nz) by (rewrite Em, Z.mul_comm; apply Z.div_mul; lia).
    pose proof (Z.div_mod (Z.of_nat rn) (o_nz c) ltac:(lia)) as Edm.
    pose proof (Z.mod_pos_bound (Z.of_nat rn) (o_nz c) ltac:(lia)) as Hmb.
    rewrite Eh.
    destruct (Z.of_nat rn mod o_nz c =? 0) eqn:Hdv.
    2:{ replace (Z.of_nat rn / o_nz c * nz * 2 =? Z.of_nat rn) with false by nia. reflexivity. }
    replace (Z.of_nat rn / o_nz c * nz * 2 =? Z.of_nat rn) with true by nia. cbn [negb].
    replace (2 * nz) with (o_nz c) by lia.
    set (k := Z.to_nat (Z.of_nat rn / o_nz c)).
    assert (Hk0 : 0 <= Z.of_nat rn / o_nz c) by (apply Z.div_pos; lia).
    assert (Ek : rn = (k * Z.to_nat (o_nz c))%nat) by (unfold k; nia).
    rewrite (o_rows_length c W) in Hrn.
    assert (Hk : (k <= length (o_steps c))%nat) by nia.
    assert (EG : group k (Z.to_nat (o_nz c)) (firstn rn (o_rows c)) = map step_rows (firstn k (o_steps c))).
    { rewrite Ek. apply (firstn_rows_groups c W s0 s1 Hd k Hk). }
    rewrite !EG.
    assert (Hokk : Forall (ostep_ok c) (firstn k (o_steps c))) by (apply Forall_firstn, Hok).
    unfold h_good_view. fold k. rewrite Eh. f_equal. f_equal.
    + unfold k. lia.
    + rewrite map_map. apply map_ext_in. intros s Hs. rewrite Forall_forall in Hokk.
      apply (hd_step_rows' c s W (Hokk s Hs)).
    + rewrite map_map. apply map_ext_in. intros s Hs. rewrite Forall_forall in Hokk.
      destruct (step_rows_facts c W s (Hokk s Hs)) as (_ & _ & _ & Emap).
      destruct (evens_odds_map (row_cells (o_ny c * o_nx c)) (step_rows s)) as [E _]. rewrite <- E, Emap. reflexivity.
    + rewrite map_map. apply map_ext_in. intros s Hs. rewrite Forall_forall in Hokk.
      destruct (step_rows_facts c W s (Hokk s Hs)) as (_ & _ & _ & Emap).
      destruct (evens_odds_map (row_cells (o_ny c * o_nx c)) (step_rows s)) as [_ O]. rewrite <- O, Emap. reflexivity.
Qed.

Lemma h_good_view_eq hc k : 0 < h_nz hc -> (k <= length (h_steps hc))%nat ->
  h_good_view (h_to_o hc) k = h_view_of (h_truncate_steps k hc).
Proof.
  intros Hz Hk. unfold h_good_view, h_view_of, h_truncate_steps, h_to_o. cbn [o_nx o_ny o_nz o_steps h_nx h_ny h_nz h_steps].
  rewrite <- map_firstn, !map_map. cbn [os_stamp os_time os_date os_lays].
  f_equal.
  - rewrite Z.mul_comm. apply Z.div_mul. lia.
  - rewrite firstn_length. lia.
  - apply map_ext. intros s. apply evens_odds_interleave.
  - apply map_ext. intros s. apply evens_odds_interleave.
Qed.

Lemma h_readable_inv hc : h_readable hc = true ->
  exists a b l, h_steps hc = a :: b :: l /\ stamp_eqb (hs_time a, hs_date a) (hs_time b, hs_date b) = false.
Proof.
  unfold h_readable, o_readable, h_to_o. cbn [o_steps]. destruct (h_steps hc) as [|a [|b l]]; try discriminate.
  cbn [map os_stamp os_time os_date]. intros H. exists a, b, l. split; [reflexivity|].
  destruct (stamp_eqb _ _); [discriminate|reflexivity].
Qed.

Lemma h_mm_read_size hc size : h_wf hc = true -> h_readable hc = true ->
  0 <= size <= 4 * Z.of_nat (length (h_enc hc)) ->
  h_mm_read (h_ny hc) (h_nx hc) (h_enc hc) size =
  if (size mod (4 * h_step_words hc) =? 0) && (2 <=? size / (4 * h_step_words hc))
  then Ok (h_view_of (h_truncate_steps (Z.to_nat (size / (4 * h_step_words hc))) hc)) else Err.
Proof.
  intros Wh Hr Hs. pose proof (h_to_o_wf hc Wh) as W.
  destruct (h_readable_inv hc Hr) as (a & b & l & Ehs & Hd).
  set (o := h_to_o hc) in *.
  set (s0 := OStep (hs_time a) (hs_date a) (interleave (hs_hp a))).
  set (s1 := OStep (hs_time b) (hs_date b) (interleave (hs_hp b))).
  assert (Es : o_steps o = s0 :: s1 :: map (fun s => OStep (hs_time s) (hs_date s) (interleave (hs_hp s))) l).
  { unfold o, h_to_o. cbn [o_steps]. rewrite Ehs. reflexivity. }
  assert (Hd' : stamp_eqb (os_stamp s0) (os_stamp s1) = false) by exact Hd.
  assert (Hnz : 1 <= h_nz hc).
  { unfold h_wf in Wh. repeat (apply andb_true_iff in Wh; destruct Wh as [Wh ?]). lia. }
  assert (Em : o_nz o = 2 * h_nz hc) by reflexivity.
  pose proof (rec_words_pos o W) as Hri.
  unfold h_enc in *. fold o in Hs |- *.
  change (h_ny hc) with (o_ny o). change (h_nx hc) with (o_nx o).
  replace (h_step_words hc) with (o_nz o * o_rec_words o) by reflexivity.
  rewrite h_mm_read_unfold, th_rows_reduce; [|exact W|rewrite Es; discriminate|exact Hs].
  destruct (size_analysis (o_rec_words o) (o_nz o) size Hri ltac:(lia) ltac:(lia)) as [SA1 SA2]. cbn zeta in SA1, SA2.
  destruct ((size <=? 0) || negb (size mod 4 =? 0)) eqn:G.
  { destruct (SA1 (or_introl eq_refl)) as [A _]. rewrite A. reflexivity. }
  cbn zeta. set (r := size / 4 / o_rec_words o) in *.
  destruct (r * o_rec_words o =? size / 4) eqn:Er; cbn [negb].
  2:{ destruct (SA1 (or_intror (conj eq_refl eq_refl))) as [A _]. rewrite A. reflexivity. }
  destruct (SA2 eq_refl eq_refl) as (Hr1 & Esz & Emod & Ediv).
  rewrite Emod, Ediv.
  rewrite (o_enc_length o W) in Hs. unfold o_step_words in Hs.
  assert (Hrmax : r <= Z.of_nat (length (o_steps o)) * o_nz o) by nia.
  rewrite <- (Z2Nat.id r) at 2 by lia.
  rewrite (h_post_rows o W s0 s1 _ Es Hd' (h_nz hc) _ Em Hnz) by (try rewrite (o_rows_length o W); nia).
  rewrite Z2Nat.id by lia.
  pose proof (Z.div_mod r (o_nz o) ltac:(lia)) as Edm.
  pose proof (Z.mod_pos_bound r (o_nz o) ltac:(lia)) as Hmb.
  destruct (Z.to_nat r <=? Z.to_nat (o_nz o))%nat eqn:Hle.
  - apply Nat.leb_le in Hle.
    destruct ((4 * o_rec_words o * (r mod o_nz o) =? 0) && (2 <=? r / o_nz o)) eqn:Hc; [|reflexivity]. exfalso.
    assert (r / o_nz o <= 1) by (apply Z.div_le_upper_bound; lia). lia.
  - apply Nat.leb_gt in Hle.
    destruct (r mod o_nz o =? 0) eqn:Hdv.
    + replace (4 * o_rec_words o * (r mod o_nz o) =? 0) with true by nia.
      replace (2 <=? r / o_nz o) with true by nia. cbn [andb].
      f_equal. apply h_good_view_eq; [lia|].
      assert (length (o_steps o) = length (h_steps hc)) by (unfold o, h_to_o; cbn [o_steps]; apply map_length). nia.
    + replace (4 * o_rec_words o * (r mod o_nz o) =? 0) with false by nia. reflexivity.
Qed.

Lemma h_step_words_pos hc : h_wf hc = true -> 0 < h_step_words hc.
Proof.
  intros W. unfold h_wf in W. repeat (apply andb_true_iff in W; destruct W as [W ?]).
  unfold h_step_words, h_rec_words. nia.
Qed.

Lemma h_enc_length hc : h_wf hc = true ->
  Z.of_nat (length (h_enc hc)) = Z.of_nat (length (h_steps hc)) * h_step_words hc.
Proof.
  intros W. unfold h_enc. rewrite (o_enc_length _ (h_to_o_wf hc W)). unfold h_to_o, o_step_words, o_rec_words.
  cbn [o_steps o_nz o_nx o_ny]. rewrite map_length. reflexivity.
Qed.

Lemma h_mm_read_local rows cols ws size :
  h_mm_read rows cols (firstn (Z.to_nat (size / 4)) ws) size = h_mm_read rows cols ws size.
Proof. rewrite !h_mm_read_unfold, th_rows_local. reflexivity. Qed.

Lemma h_mm_read_k hc k : h_wf hc = true -> h_readable hc = true -> (2 <= k <= length (h_steps hc))%nat ->
  h_mm_read (h_ny hc) (h_nx hc) (h_enc hc) (4 * (Z.of_nat k * h_step_words hc)) = Ok (h_view_of (h_truncate_steps k hc)).
Proof.
  intros W Hr Hk. pose proof (h_step_words_pos hc W) as Hsw.
  rewrite h_mm_read_size; try assumption; [|rewrite (h_enc_length hc W); nia].
  replace (4 * (Z.of_nat k * h_step_words hc)) with (Z.of_nat k * (4 * h_step_words hc)) by lia.
  rewrite Z.mod_mul, Z.div_mul by lia. cbn [Z.eqb andb].
  replace (2 <=? Z.of_nat k) with true by lia. rewrite Nat2Z.id. reflexivity.
Qed.

Lemma h_mm_read_enc hc : h_wf hc = true -> h_readable hc = true ->
  h_mm_read (h_ny hc) (h_nx hc) (h_enc hc) (4 * Z.of_nat (length (h_enc hc))) = Ok (h_view_of hc).
Proof.
  intros W Hr. rewrite (h_enc_length hc W).
  destruct (h_readable_inv hc Hr) as (a & b & l & Es & _).
  rewrite h_mm_read_k; try assumption; [|rewrite Es; cbn [length]; lia].
  unfold h_truncate_steps. rewrite firstn_all. destruct hc; reflexivity.
Qed.

Lemma h_mm_read_accepts_iff hc size v : h_wf hc = true -> h_readable hc = true ->
  0 <= size <= 4 * Z.of_nat (length (h_enc hc)) ->
  (h_mm_read (h_ny hc) (h_nx hc) (firstn (Z.to_nat (size / 4)) (h_enc hc)) size = Ok v <->
   exists k, (2 <= k <= length (h_steps hc))%nat /\ size = 4 * (Z.of_nat k * h_step_words hc) /\
             v = h_view_of (h_truncate_steps k hc)).
Proof.
  intros W Hr Hs. rewrite h_mm_read_local. pose proof (h_step_words_pos hc W) as Hsw.
  split.
  - rewrite h_mm_read_size by assumption.
    destruct ((size mod (4 * h_step_words hc) =? 0) && (2 <=? size / (4 * h_step_words hc))) eqn:Hc; [|discriminate].
    intros H. set (q := size / (4 * h_step_words hc)) in *.
    assert (E : size = 4 * h_step_words hc * q) by (apply Z.div_exact; lia).
    exists (Z.to_nat q). rewrite (h_enc_length hc W) in Hs.
    split; [nia|]. split; [rewrite Z2Nat.id by lia; lia|congruence].
  - intros (k & Hk & E & ->). rewrite E. apply h_mm_read_k; assumption.
Qed.

Lemma h_mm_read_prefix hc size : h_wf hc = true -> h_readable hc = true ->
  0 <= size <= 4 * Z.of_nat (length (h_enc hc)) ->
  h_mm_read (h_ny hc) (h_nx hc) (firstn (Z.to_nat (size / 4)) (h_enc hc)) size = Err \/
  exists k, (2 <= k <= length (h_steps hc))%nat /\ size = 4 * (Z.of_nat k * h_step_words hc) /\
            h_mm_read (h_ny hc) (h_nx hc) (firstn (Z.to_nat (size / 4)) (h_enc hc)) size
            = Ok (h_view_of (h_truncate_steps k hc)).
Proof.
  intros W Hr Hs.
  destruct (h_mm_read (h_ny hc) (h_nx hc) (firstn (Z.to_nat (size / 4)) (h_enc hc)) size) as [v|] eqn:E; [|left; reflexivity].
  right. apply (h_mm_read_accepts_iff hc size v W Hr Hs) in E as (k & Hk & Ek & ->). exists k. auto.
Qed.

(* ======================================================================================
   The record readers: translated position arithmetic against the specification layout
   ====================================================================================== *)
Lemma hpr_recordposition_spec (self : hpr_self) ri t k hp d tm :
  hpr_data_start_byte self = 0 -> hpr_padded_size self = 4 * ri ->
  Z.quot (tt_timediff (hpr_start_date self, hpr_start_time self) (d, tm) 2400) (hpr_time_step self) = t ->
  hpr_recordposition self d tm k hp = 4 * ((t * (2 * hpr_nlayers self) + 2 * (k - 1) + hp) * ri).
Proof.
  intros E0 E1 Eq. unfold hpr_recordposition, hpr_timerecords, hpr_layerrecords. rewrite Eq, E0, E1. lia.
Qed.

Lemma interleave_app a b : interleave (a ++ b) = interleave a ++ interleave b.
Proof. unfold interleave. rewrite map_app, concat_app. reflexivity. Qed.

(* both height_pressure readers present the same cells: the record at the TRANSLATED position of (step, layer, hp) holds
   the height (hp = 0) resp. pressure (hp = 1) cells of that layer, which is what the Memmap model presents as
   HGHT / PRES (evens / odds of the step's records, h_good_view_eq) *)
Lemma h_readers_agree hc (self : hpr_self) H1 hs H2 P1 h p P2 d tm hp : h_wf hc = true ->
  h_steps hc = H1 ++ hs :: H2 -> hs_hp hs = P1 ++ (h, p) :: P2 ->
  hpr_nlayers self = h_nz hc -> hpr_data_start_byte self = 0 -> hpr_padded_size self = 4 * h_rec_words hc ->
  Z.quot (tt_timediff (hpr_start_date self, hpr_start_time self) (d, tm) 2400) (hpr_time_step self)
    = Z.of_nat (length H1) ->
  hp = 0 \/ hp = 1 ->
  cells_at (h_enc hc) (hpr_recordposition self d tm (Z.of_nat (length P1) + 1) hp) (h_nx hc * h_ny hc)
  = if hp =? 0 then h else p.
Proof.
  intros Wh Es Ep En E0 Epad Eq Hhp. pose proof (h_to_o_wf hc Wh) as W.
  rewrite (hpr_recordposition_spec self (h_rec_words hc) _ _ _ d tm E0 Epad Eq), En.
  set (conv := fun s => OStep (hs_time s) (hs_date s) (interleave (hs_hp s))).
  assert (Eso : o_steps (h_to_o hc) = map conv H1 ++ conv hs :: map conv H2).
  { unfold h_to_o. cbn [o_steps]. rewrite Es, map_app. reflexivity. }
  assert (Elo : forall L1 lay L2, interleave (hs_hp hs) = L1 ++ lay :: L2 -> os_lays (conv hs) = L1 ++ lay :: L2)
    by (intros; assumption).
  unfold h_enc. change (h_nx hc) with (o_nx (h_to_o hc)). change (h_ny hc) with (o_ny (h_to_o hc)).
  destruct Hhp as [-> | ->]; cbn [Z.eqb].
  - pose proof (o_cells_at_offset (h_to_o hc) (map conv H1) (conv hs) (map conv H2) (interleave P1) h (p :: interleave P2) W Eso) as C.
    rewrite <- C.
    + unfold o_spec_record_offset. rewrite map_length, length_interleave. f_equal.
      change (o_nz (h_to_o hc)) with (2 * h_nz hc). change (o_rec_words (h_to_o hc)) with (h_rec_words hc). lia.
    + apply Elo. rewrite Ep, interleave_app. reflexivity.
  - pose proof (o_cells_at_offset (h_to_o hc) (map conv H1) (conv hs) (map conv H2) (interleave P1 ++ [h]) p (interleave P2) W Eso) as C.
    rewrite <- C.
    + unfold o_spec_record_offset. rewrite map_length, app_length, length_interleave. cbn [length]. f_equal.
      change (o_nz (h_to_o hc)) with (2 * h_nz hc). change (o_rec_words (h_to_o hc)) with (h_rec_words hc). lia.
    + apply Elo. rewrite Ep, interleave_app, <- app_assoc. reflexivity.
Qed.

Lemma skipn_plus {A} a : forall b (l : list A), skipn (a + b) l = skipn a (skipn b l).
Proof.
  induction b as [|b IH]; intros l; [rewrite Nat.add_0_r; reflexivity|].
  destruct l as [|x l]; [rewrite !skipn_nil; reflexivity|].
  rewrite Nat.add_succ_r. cbn [skipn]. apply IH.
Qed.

(* temperature: the j-th position of the TRANSLATED surface generator (start 12, increment area + nlayers layer records)
   holds the surface cells of step j ... *)
Lemma t_surf_agree tc T1 ts T2 : t_wf tc = true -> t_steps tc = T1 ++ ts :: T2 ->
  words_at (t_enc tc)
    (tr_surfpos0 0 + Z.of_nat (length T1) * tr_surf_inc (4 * t_rec_words tc) (4 * t_rec_words tc) (t_nz tc))
    (t_nx tc * t_ny tc) = ts_surf ts.
Proof.
  intros Wt Es. pose proof (t_to_o_wf tc Wt) as W.
  set (conv := fun s => OStep (ts_time s) (ts_date s) (ts_surf s :: ts_air s)).
  assert (Eso : o_steps (t_to_o tc) = map conv T1 ++ conv ts :: map conv T2).
  { unfold t_to_o. cbn [o_steps]. rewrite Es, map_app. reflexivity. }
  pose proof (o_cells_at_offset (t_to_o tc) (map conv T1) (conv ts) (map conv T2) [] (ts_surf ts) (ts_air ts) W Eso eq_refl) as C.
  rewrite <- C. unfold words_at, cells_at, o_spec_record_offset, tr_surfpos0, tr_surf_inc, t_enc.
  rewrite map_length. cbn [length].
  change (o_nz (t_to_o tc)) with (t_nz tc + 1). change (o_rec_words (t_to_o tc)) with (t_rec_words tc).
  change (o_nx (t_to_o tc)) with (t_nx tc). change (o_ny (t_to_o tc)) with (t_ny tc).
  destruct (t_step_words_pos tc Wt) as (_ & Hri).
  assert (Hz : 0 < t_nz tc) by (unfold t_wf in Wt; repeat (apply andb_true_iff in Wt; destruct Wt as [Wt ?]); lia).
  replace (Z.of_nat 0 + 1 - 1) with 0 by lia. rewrite Z.add_0_r, four_div_o.
  replace ((0 + 12 + Z.of_nat (length T1) * (4 * t_rec_words tc + 4 * t_rec_words tc * t_nz tc)) / 4)
    with (3 + Z.of_nat (length T1) * (t_nz tc + 1) * t_rec_words tc).
  2:{ symmetry. replace (0 + 12 + Z.of_nat (length T1) * (4 * t_rec_words tc + 4 * t_rec_words tc * t_nz tc))
        with (4 * (3 + Z.of_nat (length T1) * (t_nz tc + 1) * t_rec_words tc)) by lia. apply four_div_o. }
  replace (Z.to_nat (3 + Z.of_nat (length T1) * (t_nz tc + 1) * t_rec_words tc))
    with (3 + Z.to_nat (Z.of_nat (length T1) * (t_nz tc + 1) * t_rec_words tc))%nat by nia.
  rewrite skipn_plus. reflexivity.
Qed.

(* ... and row |A1| of the array mapped at the j-th position of the air generator holds the cells of layer |A1|+1 *)
Lemma t_air_agree tc T1 ts T2 A1 lay A2 : t_wf tc = true -> t_steps tc = T1 ++ ts :: T2 -> ts_air ts = A1 ++ lay :: A2 ->
  cells_at (t_enc tc)
    (tr_airpos0 (4 * t_rec_words tc) 0
     + Z.of_nat (length T1) * tr_air_inc (4 * t_rec_words tc) (4 * t_rec_words tc) (t_nz tc)
     + 4 * (Z.of_nat (length A1) * (t_nx tc * t_ny tc + 4)))
    (t_nx tc * t_ny tc) = lay.
Proof.
  intros Wt Es Ea. pose proof (t_to_o_wf tc Wt) as W.
  set (conv := fun s => OStep (ts_time s) (ts_date s) (ts_surf s :: ts_air s)).
  assert (Eso : o_steps (t_to_o tc) = map conv T1 ++ conv ts :: map conv T2).
  { unfold t_to_o. cbn [o_steps]. rewrite Es, map_app. reflexivity. }
  assert (El : os_lays (conv ts) = (ts_surf ts :: A1) ++ lay :: A2) by (cbn [conv os_lays]; rewrite Ea; reflexivity).
  pose proof (o_cells_at_offset (t_to_o tc) (map conv T1) (conv ts) (map conv T2) (ts_surf ts :: A1) lay A2 W Eso El) as C.
  rewrite <- C. unfold t_enc. f_equal.
  unfold o_spec_record_offset, tr_airpos0, tr_air_inc. rewrite map_length. cbn [length].
  change (o_nz (t_to_o tc)) with (t_nz tc + 1). change (o_rec_words (t_to_o tc)) with (t_rec_words tc).
  unfold t_rec_words. lia.
Qed.
