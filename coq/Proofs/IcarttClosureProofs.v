(* C19: the attribute-list invariant through the header loop (closure of the side conditions). *)
From Coq Require Import String Ascii.
From PNC Require Import Base.Util Model.Icartt Proofs.IcarttProofs.
Local Open Scope Z_scope.

(* ------------------------------------------------------------------ strings: strip is an infix *)
Lemma has_char_rev c s : has_char c (rev s) = has_char c s.
Proof.
  unfold has_char. destruct (existsb (Z.eqb c) s) eqn:E.
  - apply existsb_exists in E as (x & Hin & Hx). apply existsb_exists. exists x. split; [apply in_rev in Hin; exact Hin|exact Hx].
  - apply not_true_is_false. intros H. apply existsb_exists in H as (x & Hin & Hx). apply in_rev in Hin.
    assert (existsb (Z.eqb c) s = true) by (apply existsb_exists; exists x; split; assumption). congruence.
Qed.

Lemma lstrip_no c s : has_char c s = false -> has_char c (lstrip s) = false.
Proof.
  induction s as [|x t IH]; [reflexivity|]. intros H. cbn [lstrip]. destruct (is_ws x); [|exact H].
  apply IH. cbn [has_char existsb] in H. apply orb_false_iff in H as [_ H]. exact H.
Qed.

Lemma strip_no c s : has_char c s = false -> has_char c (strip s) = false.
Proof.
  intros H. unfold strip, rstrip. rewrite has_char_rev. apply lstrip_no. rewrite has_char_rev. apply lstrip_no, H.
Qed.

Lemma lstrip_suffix s : exists w, s = w ++ lstrip s.
Proof.
  induction s as [|x t IH]; [exists []; reflexivity|]. cbn [lstrip]. destruct (is_ws x).
  - destruct IH as [w E]. exists (x :: w). cbn [app]. rewrite <- E. reflexivity.
  - exists []. reflexivity.
Qed.

Lemma rstrip_prefix t : exists w, t = rstrip t ++ w.
Proof.
  unfold rstrip. destruct (lstrip_suffix (rev t)) as [w E]. exists (rev w).
  rewrite <- rev_app_distr, <- E, rev_involutive. reflexivity.
Qed.

Lemma lstrip_head s x t : lstrip s = x :: t -> is_ws x = false.
Proof.
  induction s as [|y u IH]; [discriminate|]. cbn [lstrip]. destruct (is_ws y) eqn:E; [exact IH|].
  intros H. injection H as <- _. exact E.
Qed.

Definition nolead (k : str) : bool := match k with c :: _ => negb (c =? 32) | [] => true end.

Lemma strip_nolead s : nolead (strip s) = true.
Proof.
  unfold strip. destruct (rstrip (lstrip s)) as [|c r] eqn:E; [reflexivity|].
  destruct (rstrip_prefix (lstrip s)) as [w Ew]. rewrite E in Ew. cbn [app] in Ew.
  apply lstrip_head in Ew. cbn [nolead]. destruct (Z.eqb_spec c 32) as [->|]; [discriminate|reflexivity].
Qed.

Lemma firstn_no c n : forall s, has_char c s = false -> has_char c (firstn n s) = false.
Proof.
  induction n as [|k IH]; intros s H; [reflexivity|]. destruct s as [|x t]; [reflexivity|].
  cbn [firstn has_char existsb] in *. apply orb_false_iff in H as [H1 H2]. rewrite H1. apply IH, H2.
Qed.
Lemma skipn_no c n : forall s, has_char c s = false -> has_char c (skipn n s) = false.
Proof.
  induction n as [|k IH]; intros s H; [exact H|]. destruct s as [|x t]; [reflexivity|].
  cbn [skipn]. apply IH. cbn [has_char existsb] in H. apply orb_false_iff in H as [_ H]. exact H.
Qed.

Lemma has_char_cons c x h : has_char c (x :: h) = (c =? x) || has_char c h.
Proof. reflexivity. Qed.

Lemma split_on_no c d : forall s, has_char c s = false -> forallb (fun p => negb (has_char c p)) (split_on d s) = true.
Proof.
  induction s as [|x t IH]; intros H; [reflexivity|].
  rewrite has_char_cons in H. apply orb_false_iff in H as [H1 H2]. specialize (IH H2). cbn [split_on].
  destruct (x =? d).
  - cbn [forallb]. rewrite IH. reflexivity.
  - destruct (split_on d t) as [|h r]; cbn [forallb] in *.
    + rewrite has_char_cons, H1. reflexivity.
    + apply andb_true_iff in IH as [I1 I2]. apply negb_true_iff in I1. rewrite has_char_cons, H1, I1, I2. reflexivity.
Qed.

Lemma join_no c sp : has_char c sp = false -> forall l, forallb (fun p => negb (has_char c p)) l = true -> has_char c (join sp l) = false.
Proof.
  intros Hs. induction l as [|a t IH]; intros H; [reflexivity|]. cbn [forallb] in H. apply andb_true_iff in H as [H1 H2].
  apply negb_true_iff in H1. destruct t as [|b t']; [exact H1|].
  change (join sp (a :: b :: t')) with (a ++ sp ++ join sp (b :: t')). rewrite !has_char_app, H1, Hs, (IH H2). reflexivity.
Qed.

Lemma nth_str_no c l k : forallb (fun p => negb (has_char c p)) l = true -> has_char c (nth_str k l) = false.
Proof.
  intros H. unfold nth_str. destruct (nth_in_or_default k l []) as [Hin|E]; [|rewrite E; reflexivity].
  rewrite forallb_forall in H. apply negb_true_iff, H, Hin.
Qed.

Lemma map_strip_no c l : forallb (fun p => negb (has_char c p)) l = true -> forallb (fun p => negb (has_char c p)) (map strip l) = true.
Proof.
  induction l as [|a t IH]; intros H; [reflexivity|]. cbn [forallb map] in *. apply andb_true_iff in H as [H1 H2].
  apply negb_true_iff in H1. rewrite (strip_no _ _ H1), (IH H2). reflexivity.
Qed.

(* ------------------------------------------------------------------ the invariant on attribute lists *)
Definition goodkv (kv : str * str) : bool := no_nl (fst kv) && nolead (fst kv) && no_nl (snd kv).
Definition AInv (A : list (str * str)) : Prop := forallb goodkv A = true.

Lemma set_attr_inv k v A : AInv A -> goodkv (k, v) = true -> AInv (set_attr k v A).
Proof.
  unfold AInv. intros HA Hk. induction A as [|[k' v'] t IH]; cbn [set_attr forallb].
  - rewrite Hk. reflexivity.
  - cbn [forallb] in HA. apply andb_true_iff in HA as [H1 H2]. destruct (str_eqb k k'); cbn [forallb].
    + rewrite Hk, H2. reflexivity.
    + rewrite H1, (IH H2). reflexivity.
Qed.

Lemma get_set_same k v A : get_attr k (set_attr k v A) = Some v.
Proof.
  assert (R : str_eqb k k = true) by (apply str_eqb_eq; reflexivity).
  induction A as [|[k' v'] t IH]; cbn [set_attr get_attr]; [rewrite R; reflexivity|].
  destruct (str_eqb k k') eqn:E; cbn [get_attr]; [rewrite R; reflexivity|rewrite E; exact IH].
Qed.

Lemma get_set_other k k' v A : str_eqb k k' = false -> get_attr k (set_attr k' v A) = get_attr k A.
Proof.
  intros Hne. induction A as [|[k2 v2] t IH]; cbn [set_attr get_attr]; [rewrite Hne; reflexivity|].
  destruct (str_eqb k' k2) eqn:E; cbn [get_attr].
  - apply str_eqb_eq in E. subst k2. rewrite Hne. reflexivity.
  - destruct (str_eqb k k2); [reflexivity|exact IH].
Qed.

Lemma get_attr_good k A v : AInv A -> get_attr k A = Some v -> no_nl v = true.
Proof.
  unfold AInv. induction A as [|[k' v'] t IH]; cbn [get_attr forallb]; intros HA H; [discriminate|].
  apply andb_true_iff in HA as [H1 H2]. destruct (str_eqb k k').
  - injection H as <-. unfold goodkv in H1. apply andb_true_iff in H1 as [_ H1]. exact H1.
  - apply IH; assumption.
Qed.

Lemma no_nl_strip s : no_nl s = true -> no_nl (strip s) = true.
Proof. unfold no_nl. intros H. apply negb_true_iff in H. apply negb_true_iff. apply strip_no, H. Qed.

Lemma good_strip_key s v : no_nl s = true -> no_nl v = true -> goodkv (strip s, v) = true.
Proof. intros H1 H2. unfold goodkv. cbn [fst snd]. rewrite (no_nl_strip _ H1), strip_nolead, H2. reflexivity. Qed.

(* ------------------------------------------------------------------ the header loop with the invariant *)
Definition kIV : str := s2z "INDEPENDENT_VARIABLE".
Definition kSD : str := s2z "SDATE".
Definition line9_name (line : str) : str := nth_str 0 (map strip (split_on cCOMMA (strip line))).

Lemma good_const (k : string) v : no_nl v = true -> no_nl (s2z k) && nolead (s2z k) = true -> goodkv (s2z k, v) = true.
Proof. intros Hv Hk. unfold goodkv. cbn [fst snd]. rewrite Hk, Hv. reflexivity. Qed.

Lemma step_fixed_attr_inv n li line sc ms U nsc last A vars : 2 <= li <= 8 -> no_nl line = true -> AInv A ->
  exists A', step n li line (St sc ms U nsc last A vars) = Some (St sc ms U nsc last A' vars) /\ AInv A'
             /\ (li = 7 -> get_attr kSD A' = Some (s2z "-")) /\ (li = 8 -> get_attr kSD A' = get_attr kSD A).
Proof.
  intros H Hl HA. unfold step. cbn [s_miss s_nsc]. rewrite cls_fixed by lia.
  assert (Hs : no_nl (strip line) = true) by (apply no_nl_strip, Hl).
  destruct (Z.eqb_spec li 2); [eexists; split; [reflexivity|split; [apply set_attr_inv; [exact HA|apply good_const; [exact Hs|reflexivity]]|split; intros; lia]]|].
  destruct (Z.eqb_spec li 3); [eexists; split; [reflexivity|split; [apply set_attr_inv; [exact HA|apply good_const; [exact Hs|reflexivity]]|split; intros; lia]]|].
  destruct (Z.eqb_spec li 4); [eexists; split; [reflexivity|split; [apply set_attr_inv; [exact HA|apply good_const; [exact Hs|reflexivity]]|split; intros; lia]]|].
  destruct (Z.eqb_spec li 5); [eexists; split; [reflexivity|split; [apply set_attr_inv; [exact HA|apply good_const; [exact Hs|reflexivity]]|split; intros; lia]]|].
  destruct (Z.eqb_spec li 6).
  { eexists; split; [reflexivity|split; [|split; intros; lia]]. apply set_attr_inv; [exact HA|]. apply good_const; [|reflexivity].
    unfold no_nl in *. apply negb_true_iff. apply join_no; [reflexivity|]. apply map_strip_no, split_on_no. apply negb_true_iff, Hl. }
  destruct (Z.eqb_spec li 7).
  { eexists; split; [reflexivity|split; [|split; [|intros; lia]]].
    - cbn [s_attrs upd_attr]. apply set_attr_inv; [apply set_attr_inv; [exact HA|reflexivity]|reflexivity].
    - intros _. cbn [s_attrs upd_attr]. unfold kSD. rewrite get_set_other by reflexivity. apply get_set_same. }
  destruct (Z.eqb_spec li 8); [|lia].
  eexists; split; [reflexivity|split; [apply set_attr_inv; [exact HA|apply good_const; [exact Hs|reflexivity]]|split; [intros; lia|]]].
  intros _. cbn [s_attrs upd_attr]. unfold kSD. apply get_set_other. reflexivity.
Qed.

Lemma step9_inv n line sc ms U nsc last A vars : no_nl line = true -> AInv A ->
  exists A', step n 9 line (St sc ms U nsc last A vars) = Some (St sc ms (U ++ [line9_unit line]) nsc last A' vars)
             /\ AInv A' /\ get_attr kIV A' = Some (line9_name line) /\ get_attr kSD A' = get_attr kSD A.
Proof.
  intros Hl HA. unfold step. cbn [s_miss s_nsc]. rewrite cls_fixed by lia.
  change (9 =? 2) with false. change (9 =? 3) with false. change (9 =? 4) with false. change (9 =? 5) with false.
  change (9 =? 6) with false. change (9 =? 7) with false. change (9 =? 8) with false. cbv iota.
  eexists. split; [unfold set_units, upd_attr, line9_unit; cbn [s_scales s_miss s_units s_nsc s_last s_attrs s_vars]; reflexivity|].
  assert (Hs : no_nl (strip line) = true) by (apply no_nl_strip, Hl).
  assert (Hp : forallb (fun p => negb (has_char cNL p)) (map strip (split_on cCOMMA (strip line))) = true).
  { apply map_strip_no, split_on_no. unfold no_nl in Hs. apply negb_true_iff, Hs. }
  assert (Hn : forall k, no_nl (nth_str k (map strip (split_on cCOMMA (strip line)))) = true)
    by (intros k; unfold no_nl; apply negb_true_iff, nth_str_no, Hp).
  split; [|split].
  - apply set_attr_inv; [apply set_attr_inv; [apply set_attr_inv; [exact HA|apply good_const; [exact Hs|reflexivity]]|apply good_const; [apply Hn|reflexivity]]|].
    apply good_const; [|reflexivity]. revert Hn. generalize (map strip (split_on cCOMMA (strip line))) as parts.
    intros parts Hn'. destruct parts as [|a [|b t]]; apply Hn'.
  - unfold kIV. rewrite get_set_other by reflexivity. apply get_set_same.
  - unfold kSD. rewrite !get_set_other by reflexivity. reflexivity.
Qed.

Lemma parse_user_good line : no_nl line = true -> goodkv (parse_user line) = true.
Proof.
  intros Hl. unfold parse_user. unfold no_nl in Hl. apply negb_true_iff in Hl.
  destruct (find_char cCOLON line) as [p|].
  - apply good_strip_key; unfold no_nl; apply negb_true_iff; [apply firstn_no, Hl|apply strip_no, skipn_no, Hl].
  - apply good_strip_key; unfold no_nl; apply negb_true_iff; [exact Hl|apply strip_no, Hl].
Qed.

Lemma step_user n li l sc ms U last A :
  not_continuation l = true -> 12 + Z.of_nat (length ms) + 2 < li < n ->
  step n li l (St sc ms U 0 last A None)
  = Some (St sc ms U 0 (Some (fst (parse_user l))) (set_attr (fst (parse_user l)) (snd (parse_user l)) A) None).
Proof.
  intros Hl Hli. unfold step. cbn [s_miss s_nsc]. rewrite cls_user by lia.
  destruct l as [|c l']; [reflexivity|].
  cbn [not_continuation] in Hl. apply negb_true_iff in Hl. apply Z.eqb_neq in Hl.
  destruct c as [|p|p]; try reflexivity.
  do 6 (try (destruct p as [p|p|]; try reflexivity)). exfalso; apply Hl; reflexivity.
Qed.

Lemma run_user_inv n sc ms U : forall (al : list str) li m rest last A,
  forallb not_continuation al = true -> forallb no_nl al = true -> AInv A ->
  12 + Z.of_nat (length ms) + 2 < li -> li + Z.of_nat (length al) <= n ->
  exists A' last',
  run_header n li (length al + m) (map PT al ++ rest) (St sc ms U 0 last A None)
  = run_header n (li + Z.of_nat (length al)) m rest (St sc ms U 0 last' A' None)
  /\ AInv A'
  /\ (forall k, forallb (fun l => negb (str_eqb k (fst (parse_user l)))) al = true -> get_attr k A' = get_attr k A).
Proof.
  induction al as [|l t IH]; intros li m rest last A Hc Hn HA Hlo Hhi.
  - exists A, last. split; [cbn [length map app Nat.add]; f_equal; cbn; lia|split; [exact HA|reflexivity]].
  - cbn [forallb] in Hc, Hn. apply andb_true_iff in Hc as [Hl Ht]. apply andb_true_iff in Hn as [Hnl Hnt]. cbn [length] in Hhi.
    pose proof (step_user n li l sc ms U last A Hl ltac:(lia)) as Hs.
    assert (HA1 : AInv (set_attr (fst (parse_user l)) (snd (parse_user l)) A)).
    { apply set_attr_inv; [exact HA|]. pose proof (parse_user_good _ Hnl) as G. destruct (parse_user l); exact G. }
    destruct (IH (li + 1) m rest (Some (fst (parse_user l))) _ Ht Hnt HA1 ltac:(lia) ltac:(lia)) as (A' & last' & E & HA' & HK).
    exists A', last'. split; [|split; [exact HA'|]].
    + cbn [length map app Nat.add]. rewrite (run_step _ _ _ _ _ _ _ Hs), E. f_equal. lia.
    + intros k Hk. cbn [forallb] in Hk. apply andb_true_iff in Hk as [Hk1 Hk2]. apply negb_true_iff in Hk1.
      rewrite (HK k Hk2). apply get_set_other, Hk1.
Qed.

Lemma s0_inv n : AInv (s_attrs (s0_of n)).
Proof.
  unfold AInv, s0_of. cbn [s_attrs forallb]. apply andb_true_iff; split; [reflexivity|].
  rewrite andb_true_r. apply good_const; [apply no_nl_zstr|reflexivity].
Qed.

(* the header loop again, now carrying the invariant and the two lookups *)
Lemma header_run_inv n l2 l3 l4 l5 l6 l7 l8 l9 l10 l11 l12 dl us l13 l14 al lnames scs mss v0 vs rest :
  n = Z.of_nat (length al) + Z.of_nat (length dl) + 15 ->
  eval_list l11 = Some scs -> eval_list l12 = Some mss -> length mss = length dl ->
  Forall2 (fun line u => snd (parse_desc line) = u) dl us ->
  parse_int l13 = Some 0 -> forallb not_continuation al = true ->
  parse_names lnames = v0 :: vs ->
  forallb no_nl [l2; l3; l4; l5; l6; l7; l8; l9] = true -> forallb no_nl al = true -> no_nl v0 = true ->
  forallb (fun l => negb (str_eqb kIV (fst (parse_user l)))) al = true ->
  forallb (fun l => negb (str_eqb kSD (fst (parse_user l)))) al = true ->
  exists A last,
  run_header n 2 (11 + (length dl + (2 + (length al + 1))))
    (map PT ([l2; l3; l4; l5; l6; l7; l8; l9; l10; l11; l12] ++ dl ++ [l13; l14] ++ al ++ [lnames]) ++ rest) (s0_of n)
  = Some (St (map snd scs) mss (line9_unit l9 :: us) 0 last A (Some (v0 :: vs)), rest)
  /\ AInv A /\ get_attr kIV A = Some (line9_name l9) /\ get_attr kSD A = Some (s2z "-").
Proof.
  intros Hn Hsc Hms Hlen HF H13 Hal Hnames Hnl Hnal Hnv HpI HpS.
  cbn [forallb] in Hnl. repeat (apply andb_true_iff in Hnl as [? Hnl]).
  pose proof (s0_inv n) as I0. unfold s0_of in *. cbn [s_attrs] in I0.
  cbn [map app Nat.add].
  destruct (step_fixed_attr_inv n 2 l2 [] [] [] 0 None _ None ltac:(lia) ltac:(assumption) I0) as (A2 & E2 & I2 & _).
  rewrite (run_step _ _ _ _ _ _ _ E2). cbn [Z.add Pos.add Pos.succ].
  destruct (step_fixed_attr_inv n 3 l3 [] [] [] 0 None A2 None ltac:(lia) ltac:(assumption) I2) as (A3 & E3 & I3 & _). rewrite (run_step _ _ _ _ _ _ _ E3). cbn [Z.add Pos.add Pos.succ].
  destruct (step_fixed_attr_inv n 4 l4 [] [] [] 0 None A3 None ltac:(lia) ltac:(assumption) I3) as (A4 & E4 & I4 & _). rewrite (run_step _ _ _ _ _ _ _ E4). cbn [Z.add Pos.add Pos.succ].
  destruct (step_fixed_attr_inv n 5 l5 [] [] [] 0 None A4 None ltac:(lia) ltac:(assumption) I4) as (A5 & E5 & I5 & _). rewrite (run_step _ _ _ _ _ _ _ E5). cbn [Z.add Pos.add Pos.succ].
  destruct (step_fixed_attr_inv n 6 l6 [] [] [] 0 None A5 None ltac:(lia) ltac:(assumption) I5) as (A6 & E6 & I6 & _). rewrite (run_step _ _ _ _ _ _ _ E6). cbn [Z.add Pos.add Pos.succ].
  destruct (step_fixed_attr_inv n 7 l7 [] [] [] 0 None A6 None ltac:(lia) ltac:(assumption) I6) as (A7 & E7 & I7 & S7 & _). rewrite (run_step _ _ _ _ _ _ _ E7). cbn [Z.add Pos.add Pos.succ].
  destruct (step_fixed_attr_inv n 8 l8 [] [] [] 0 None A7 None ltac:(lia) ltac:(assumption) I7) as (A8 & E8 & I8 & _ & S8). rewrite (run_step _ _ _ _ _ _ _ E8). cbn [Z.add Pos.add Pos.succ].
  destruct (step9_inv n l9 [] [] [] 0 None A8 None ltac:(assumption) I8) as (A9 & E9 & I9 & V9 & S9). rewrite (run_step _ _ _ _ _ _ _ E9). cbn [Z.add Pos.add Pos.succ app].
  erewrite run_step.
  2:{ unfold step. cbn [s_miss s_nsc length]. rewrite cls_skip10 by lia. reflexivity. }
  cbn [Z.add Pos.add Pos.succ].
  erewrite run_step.
  2:{ unfold step. cbn [s_miss s_nsc length]. rewrite cls_scale, Hsc. reflexivity. }
  cbn [Z.add Pos.add Pos.succ s_scales s_miss s_units s_nsc s_last s_attrs s_vars].
  erewrite run_step.
  2:{ unfold step. cbn [s_miss s_nsc length]. rewrite cls_missing, Hms. reflexivity. }
  cbn [Z.add Pos.add Pos.succ s_scales s_miss s_units s_nsc s_last s_attrs s_vars].
  rewrite map_app, <- app_assoc.
  rewrite (run_desc n (map snd scs) mss A9 dl us 13 _ _ [line9_unit l9] None HF) by lia.
  cbn [map app Nat.add].
  erewrite run_step.
  2:{ unfold step. cbn [s_miss s_nsc]. replace (13 + Z.of_nat (length dl)) with (12 + Z.of_nat (length mss) + 1) by lia.
      rewrite cls_spcount by lia. rewrite H13. reflexivity. }
  erewrite run_step.
  2:{ unfold step. cbn [s_miss s_nsc]. replace (13 + Z.of_nat (length dl) + 1) with (12 + Z.of_nat (length mss) + 2) by lia.
      rewrite cls_ucount by lia. reflexivity. }
  cbn [s_scales s_miss s_units s_nsc s_last s_attrs s_vars].
  rewrite map_app, <- app_assoc.
  destruct (run_user_inv n (map snd scs) mss (line9_unit l9 :: us) al (13 + Z.of_nat (length dl) + 1 + 1) 1
              (map PT [lnames] ++ rest) None A9 Hal Hnal I9 ltac:(lia) ltac:(lia)) as (A' & last' & EU & IU & KU).
  rewrite EU.
  cbn [map app]. cbn [run_header].
  assert (EN : step n (13 + Z.of_nat (length dl) + 1 + 1 + Z.of_nat (length al)) lnames
                 (St (map snd scs) mss (line9_unit l9 :: us) 0 last' A' None)
               = Some (St (map snd scs) mss (line9_unit l9 :: us) 0 last' (set_attr (s2z "TFLAG") v0 A') (Some (v0 :: vs)))).
  { unfold step. cbn [s_miss s_nsc].
    replace (13 + Z.of_nat (length dl) + 1 + 1 + Z.of_nat (length al)) with n by lia.
    rewrite cls_names by lia. rewrite Hnames. reflexivity. }
  rewrite EN. eexists. eexists. split; [reflexivity|]. split; [|split].
  - apply set_attr_inv; [exact IU|]. apply good_const; [exact Hnv|reflexivity].
  - unfold kIV. rewrite get_set_other by reflexivity. fold kIV. rewrite (KU kIV HpI). exact V9.
  - unfold kSD. rewrite get_set_other by reflexivity. fold kSD. rewrite (KU kSD HpS), S9, (S8 eq_refl). apply S7. reflexivity.
Qed.

(* ------------------------------------------------------------------ the writer's header *)
Lemma nonws_no_nl s : nonws s = true -> no_nl s = true.
Proof.
  unfold nonws, no_nl. intros H. apply negb_true_iff. apply not_true_is_false. intros E.
  apply existsb_exists in E as (x & Hin & Hx). apply Z.eqb_eq in Hx. subst x.
  rewrite forallb_forall in H. specialize (H _ Hin). discriminate.
Qed.

Lemma not_in_ignore k : in_strs k ignore_attrs = false -> str_eqb kIV k = false /\ str_eqb kSD k = false.
Proof.
  intros H. split.
  - destruct (str_eqb kIV k) eqn:E; [|reflexivity]. apply str_eqb_eq in E. subst k. vm_compute in H. discriminate.
  - destruct (str_eqb kSD k) eqn:E; [|reflexivity]. apply str_eqb_eq in E. subst k. vm_compute in H. discriminate.
Qed.

(* additional boolean side conditions on f: comment keys are colon-free and stripped; line 9 starts with ind *)
Definition attr_keys_ok (f : file) : bool :=
  forallb (fun kv : str * str => negb (has_char cCOLON (fst kv)) && stripped (fst kv)) (myattrs f).
Definition line9_name_ok (f : file) (ind : str) : bool := str_eqb (line9_name (indep_line f ind)) ind.

Lemma attr_lines_protected f (k0 : str) :
  attr_keys_ok f = true -> (forall k, in_strs k ignore_attrs = false -> str_eqb k0 k = false) ->
  forallb (fun l => negb (str_eqb k0 (fst (parse_user l))))
          (map (fun kv : str * str => fst kv ++ [cCOLON; cSP] ++ one_line (snd kv)) (myattrs f)) = true.
Proof.
  intros Hk Hp. unfold attr_keys_ok in Hk. rewrite forallb_map_comp. apply forallb_forall. intros [k v] Hin.
  rewrite forallb_forall in Hk. specialize (Hk _ Hin). cbn [fst snd] in *. apply andb_true_iff in Hk as [H1 H2].
  apply negb_true_iff in H1. rewrite (parse_user_print k (one_line v) H1 H2). cbn [fst].
  apply negb_true_iff, Hp. unfold myattrs in Hin. apply filter_In in Hin as [_ Hf]. cbn [fst] in Hf.
  apply negb_true_iff in Hf. exact Hf.
Qed.

Lemma write_then_read_header_inv f n ls ind sd iv :
  impl_write f = Some (n, ls) ->
  indep_name f = Some ind -> get_attr (s2z "SDATE") (f_attrs f) = Some sd -> find_var ind f = Some iv ->
  forallb no_nl (hdr_other f ind sd) = true ->
  header_ok f ind = true -> attr_keys_ok f = true -> line9_name_ok f ind = true ->
  exists s,
    run_header n 2 (Z.to_nat (n - 1)) ls (s0_of n) = Some (s, map PR (wrows f ind iv))
    /\ AInv (s_attrs s) /\ get_attr kIV (s_attrs s) = Some ind /\ get_attr kSD (s_attrs s) = Some (s2z "-").
Proof.
  intros W Hi Hs Hf Hn Hok Hkeys Hl9.
  destruct (impl_write_shape _ _ _ _ _ _ W Hi Hs Hf Hn) as [El En]. subst ls. unfold header_count in En.
  set (rows := wrows f ind iv).
  unfold header_ok in Hok.
  apply andb_true_iff in Hok as [Hok Hsl]. apply andb_true_iff in Hok as [Hok Hw].
  apply andb_true_iff in Hok as [Hok Hal]. apply andb_true_iff in Hok as [Hok Hd].
  apply andb_true_iff in Hok as [Hne Hcodes].
  (* pieces of hdr_other *)
  pose proof Hn as Hn'. unfold hdr_other in Hn'. cbv zeta in Hn'. rewrite !forallb_app in Hn'.
  apply andb_true_iff in Hn' as [Hfix Hn']. apply andb_true_iff in Hn' as [_ Hn']. apply andb_true_iff in Hn' as [_ Hn'].
  apply andb_true_iff in Hn' as [Hmyk _].
  cbn [forallb] in Hfix. repeat (apply andb_true_iff in Hfix as [? Hfix]).
  set (deps := depvars ind f) in *. set (my := myattrs f) in *.
  destruct deps as [|d0 dt] eqn:Edeps; [discriminate|]. rewrite <- Edeps in *.
  assert (Hones : forallb clean_code (map (fun _ : var => s2z "1") deps) = true).
  { clear. induction deps as [|v t IH]; [reflexivity|]. cbn [map forallb]. rewrite IH. reflexivity. }
  set (scs := map (fun t => (t, code_of t)) (map (fun _ : var => s2z "1") deps)).
  assert (Esc : eval_list (join sep (map (fun _ : var => s2z "1") deps)) = Some scs).
  { unfold scs. rewrite Edeps in *. cbn [map] in *. apply eval_list_print, Hones. }
  assert (Ems : eval_list (join sep (map code_str deps)) = Some (map (fun t => (t, code_of t)) (map code_str deps))).
  { rewrite Edeps in *. cbn [map] in *. apply eval_list_print, Hcodes. }
  assert (Enames : parse_names (join sep (ind :: map v_name deps)) = ind :: map v_name deps).
  { apply parse_names_print; [discriminate|exact Hw|exact Hsl]. }
  assert (Hind : no_nl ind = true).
  { cbn [forallb] in Hw. apply andb_true_iff in Hw as [Hw0 _]. destruct (word_tok_nonws _ Hw0) as (x & r & E & N & _).
    apply nonws_no_nl, N. }
  destruct (header_run_inv n
              (attr_or "PI_NAME" "Unknown" (f_attrs f)) (attr_or "ORGANIZATION_NAME" "Unknown" (f_attrs f))
              (attr_or "SOURCE_DESCRIPTION" "Unknown" (f_attrs f)) (attr_or "MISSION_NAME" "Unknown" (f_attrs f))
              (attr_or "VOLUME_INFO" "1, 1" (f_attrs f)) (sd ++ [cSP] ++ attr_or "WDATE" "2000, 01, 01" (f_attrs f))
              (attr_or "TIME_INTERVAL" "0" (f_attrs f)) (indep_line f ind) (zstr (Z.of_nat (length deps)))
              (join sep (map (fun _ : var => s2z "1") deps)) (join sep (map code_str deps))
              (map (fun v => join sep [v_name v; units_str v]) deps) (map units_str deps)
              (s2z "0") (zstr (Z.of_nat (length my)))
              (map (fun kv : str * str => fst kv ++ [cCOLON; cSP] ++ one_line (snd kv)) my)
              (join sep (ind :: map v_name deps))
              scs (map (fun t => (t, code_of t)) (map code_str deps)) ind (map v_name deps) (map PR rows))
    as (A & last & ER & IA & VA & SA).
  - rewrite !map_length. exact En.
  - exact Esc.
  - exact Ems.
  - rewrite !map_length. reflexivity.
  - apply desc_lines_parse, Hd.
  - reflexivity.
  - exact Hal.
  - exact Enames.
  - cbn [forallb]. repeat (apply andb_true_iff; split; try assumption); try reflexivity.
  - apply attr_lines_no_nl, Hmyk.
  - exact Hind.
  - apply attr_lines_protected; [exact Hkeys|intros k Hk; apply (not_in_ignore k Hk)].
  - apply attr_lines_protected; [exact Hkeys|intros k Hk; apply (not_in_ignore k Hk)].
  - eexists. split.
    { replace (Z.to_nat (n - 1)) with (11 + (length (map (fun v => join sep [v_name v; units_str v]) deps)
              + (2 + (length (map (fun kv : str * str => fst kv ++ [cCOLON; cSP] ++ one_line (snd kv)) my) + 1))))%nat.
      * unfold hdr_strings. fold deps. fold my. exact ER.
      * rewrite !map_length. rewrite En. unfold str in *. lia. }
    cbn [s_attrs]. split; [exact IA|split; [|exact SA]].
    rewrite VA. unfold line9_name_ok in Hl9. apply str_eqb_eq in Hl9. rewrite Hl9. reflexivity.
Qed.

(* ------------------------------------------------------------------ the attribute facts of the file read back *)
Lemma read_data_attrs n s rest r : read_data n s rest = Some r -> r_attrs r = s_attrs s.
Proof.
  intros H. unfold read_data in H.
  repeat match type of H with context [match ?x with _ => _ end] => destruct x; try discriminate end.
  injection H as <-. reflexivity.
Qed.

Lemma attr_or_good (k d : string) A : AInv A -> no_nl (s2z d) = true -> no_nl (attr_or k d A) = true.
Proof.
  intros HA Hd. unfold attr_or. destruct (get_attr (s2z k) A) as [v|] eqn:E; [exact (get_attr_good _ _ _ HA E)|exact Hd].
Qed.

Lemma inv_filter_keys (p : str * str -> bool) A : AInv A ->
  forallb no_nl (map fst (filter p A)) = true
  /\ forallb not_continuation (map (fun kv : str * str => fst kv ++ [cCOLON; cSP] ++ one_line (snd kv)) (filter p A)) = true.
Proof.
  unfold AInv. induction A as [|[k v] t IH]; intros HA; [split; reflexivity|].
  cbn [forallb] in HA. apply andb_true_iff in HA as [H1 H2]. destruct (IH H2) as [I1 I2].
  cbn [filter]. destruct (p (k, v)); [|split; assumption].
  unfold goodkv in H1. cbn [fst snd] in H1. apply andb_true_iff in H1 as [H1 _]. apply andb_true_iff in H1 as [Hk Hl].
  cbn [map forallb fst snd]. rewrite Hk, I1, I2. split; [reflexivity|]. rewrite andb_true_r.
  destruct k as [|c k']; [reflexivity|]. cbn [app not_continuation]. cbn [nolead] in Hl. exact Hl.
Qed.

(* ATTRIBUTE PART OF THE CLOSURE *)
Lemma side_conditions_closed_attrs f n ls ind sd iv r1 :
  impl_write f = Some (n, ls) ->
  indep_name f = Some ind -> get_attr (s2z "SDATE") (f_attrs f) = Some sd -> find_var ind f = Some iv ->
  forallb no_nl (hdr_other f ind sd) = true ->
  header_ok f ind = true -> attr_keys_ok f = true -> line9_name_ok f ind = true ->
  impl_roundtrip f = Some r1 ->
  let f2 := to_file r1 in
  indep_name f2 = Some ind /\ get_attr (s2z "SDATE") (f_attrs f2) = Some (s2z "-")
  /\ forallb no_nl (hdr_attrs f2 (s2z "-")) = true /\ attr_lines_ok f2 = true.
Proof.
  intros W Hi Hs Hf Hn Hok Hk Hl9 R1 f2.
  destruct (write_then_read_header_inv _ _ _ _ _ _ W Hi Hs Hf Hn Hok Hk Hl9) as (s & R & IA & VA & SA).
  unfold impl_roundtrip, impl_read in R1. rewrite W, R in R1. apply read_data_attrs in R1.
  assert (EA : f_attrs f2 = s_attrs s) by (unfold f2, to_file; cbn [f_attrs]; exact R1).
  split; [|split; [|split]].
  - unfold indep_name. rewrite EA. exact VA.
  - rewrite EA. exact SA.
  - unfold hdr_attrs. cbv zeta. rewrite EA, forallb_app. apply andb_true_iff. split.
    + cbn [forallb]. rewrite !(attr_or_good _ _ _ IA) by reflexivity. cbn [andb].
      unfold no_nl. rewrite !has_char_app.
      pose proof (attr_or_good "WDATE" "2000, 01, 01" _ IA eq_refl) as Hw. unfold no_nl in Hw. apply negb_true_iff in Hw.
      rewrite Hw. reflexivity.
    + unfold myattrs. rewrite EA. apply (inv_filter_keys _ _ IA).
  - unfold attr_lines_ok, myattrs. rewrite EA. apply (inv_filter_keys _ _ IA).
Qed.

(* SECOND CYCLE ON WHOLE FILES, hypotheses on f only *)
Lemma second_cycle_whole_f f n ls ind sd iv r1 :
  impl_write f = Some (n, ls) ->
  indep_name f = Some ind -> get_attr (s2z "SDATE") (f_attrs f) = Some sd -> find_var ind f = Some iv ->
  forallb no_nl (hdr_other f ind sd) = true ->
  header_ok f ind = true -> data_ok f ind iv = true -> spec_ok f ind iv = true ->
  attr_keys_ok f = true -> line9_name_ok f ind = true ->
  impl_roundtrip f = Some r1 ->
  exists r2, impl_second f = Some r2 /\ r_vars r2 = r_vars r1 /\ spec_roundtrip f = Some (r_vars r1).
Proof.
  intros W Hi Hs Hf Hn Hok Hd Hsp Hk Hl9 R1.
  destruct (side_conditions_closed_attrs _ _ _ _ _ _ _ W Hi Hs Hf Hn Hok Hk Hl9 R1) as (A1 & A2 & A3 & A4).
  exact (second_cycle_whole_attrs f n ls ind sd iv r1 (s2z "-") W Hi Hs Hf Hn Hok Hd Hsp R1 A1 A2 A3 A4).
Qed.

(* THE CLOSURE: all eight side conditions of the file read back follow from those of f *)
Lemma side_conditions_closed f n ls ind sd iv r1 :
  impl_write f = Some (n, ls) ->
  indep_name f = Some ind -> get_attr (s2z "SDATE") (f_attrs f) = Some sd -> find_var ind f = Some iv ->
  forallb no_nl (hdr_other f ind sd) = true ->
  header_ok f ind = true -> data_ok f ind iv = true -> spec_ok f ind iv = true ->
  attr_keys_ok f = true -> line9_name_ok f ind = true ->
  impl_roundtrip f = Some r1 ->
  let f2 := to_file r1 in
  exists iv2 n2 ls2,
    impl_write f2 = Some (n2, ls2) /\ indep_name f2 = Some ind
    /\ get_attr (s2z "SDATE") (f_attrs f2) = Some (s2z "-") /\ find_var ind f2 = Some iv2
    /\ forallb no_nl (hdr_other f2 ind (s2z "-")) = true
    /\ header_ok f2 ind = true /\ data_ok f2 ind iv2 = true /\ spec_ok f2 ind iv2 = true.
Proof.
  intros W Hi Hs Hf Hn Hok Hd Hsp Hk Hl9 R1 f2.
  destruct (side_conditions_closed_attrs _ _ _ _ _ _ _ W Hi Hs Hf Hn Hok Hk Hl9 R1) as (Hi2 & Hs2 & Hna & Hal).
  fold f2 in Hi2, Hs2, Hna, Hal.
  destruct (roundtrip_whole_spec _ _ _ _ _ _ W Hi Hs Hf Hn Hok Hd Hsp) as (A & sp & R & S).
  pose proof R1 as R1'. rewrite R in R1'. injection R1' as E1.
  assert (Ef2 : f2 = refile A f ind iv) by (unfold f2; rewrite <- E1; apply (to_file_refile f ind iv sp n A Hi Hf S)).
  assert (Hv : vars_ok f ind iv = true).
  { unfold vars_ok. pose proof Hok as Hok'. rewrite header_ok_split in Hok'. apply andb_true_iff in Hok' as [Hok' _].
    pose proof Hn as Hn'. rewrite hdr_other_split in Hn'. apply andb_true_iff in Hn' as [_ Hn']. rewrite Hok', Hd, Hsp, Hn'. reflexivity. }
  destruct (side_conditions_closed_vars A f ind iv Hf Hv) as [Hf2 Hv2]. rewrite <- Ef2 in Hf2, Hv2.
  unfold vars_ok in Hv2. apply andb_true_iff in Hv2 as [Hv2 Hnv2]. apply andb_true_iff in Hv2 as [Hv2 Hsp2].
  apply andb_true_iff in Hv2 as [Hhv2 Hd2].
  destruct (impl_write_some _ _ _ _ Hi2 Hs2 Hf2) as (n2 & ls2 & W2).
  exists (revar iv), n2, ls2. repeat split; try assumption.
  - rewrite hdr_other_split, Hna, Hnv2. reflexivity.
  - rewrite header_ok_split, Hhv2, Hal. reflexivity.
Qed.
