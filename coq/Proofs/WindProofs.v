(* Proofs about Model/Wind.v (CAMx wind files): spec codec round trip; the memmap reader model on encoded files for EVERY
   length from the end of the first step's data on (what it accepts, what it presents); the cuts inside the first time
   record on which its layer-counting loop never terminates. *)
From PNC Require Import Base.Util Base.Words Proofs.WordsProofs Gen.Camx Model.Uamiv Model.CamxMet Model.One3d Model.Wind
                        Proofs.UamivProofs Proofs.One3dProofs.
From Coq Require Import ZifyBool.
Import Coq.Lists.List. Import ListNotations.
Local Open Scope Z_scope.

(* ---- spec codec ------------------------------------------------------------------------------------ *)
Definition uv_recs (uv : list (list Z * list Z)) : list (list Z) := concat (map (fun p => [fst p; snd p]) uv).

Lemma w_take_uv_ok ncell : forall (uv : list (list Z * list Z)) rest,
  Forall (fun p => Z.of_nat (length (fst p)) = ncell /\ Z.of_nat (length (snd p)) = ncell) uv ->
  w_take_uv (length uv) ncell (uv_recs uv ++ rest) = Some (uv, rest).
Proof.
  induction uv as [|[u v] uv IH]; intros rest H; [reflexivity|].
  pose proof (Forall_inv H) as [H1 H2]. pose proof (Forall_inv_tail H) as Ht. cbn [fst snd] in H1, H2.
  unfold uv_recs. cbn [length map concat app fst snd w_take_uv]. fold (uv_recs uv).
  replace ((Z.of_nat (length u) =? ncell) && (Z.of_nat (length v) =? ncell)) with true by lia.
  rewrite IH by exact Ht. reflexivity.
Qed.

Definition wstep_ok (c : wind) (s : wstep) : Prop :=
  length (ws_uv s) = Z.to_nat (w_nz c) /\
  Forall (fun p => Z.of_nat (length (fst p)) = w_nx c * w_ny c /\ Z.of_nat (length (snd p)) = w_nx c * w_ny c) (ws_uv s).

Lemma w_wf_parts c : w_wf c = true -> 0 < w_nx c /\ 0 < w_ny c /\ 0 < w_nz c /\ Forall (wstep_ok c) (w_steps c).
Proof.
  unfold w_wf. intros W. repeat (apply andb_true_iff in W; destruct W as [W ?]).
  repeat (split; [lia|]).
  eapply forallb_Forall; [|eassumption]. intros s Hs. unfold w_wf_step in Hs.
  apply andb_true_iff in Hs as [A1 A2]. apply len_is_eq in A1. split; [lia|].
  eapply forallb_Forall; [|exact A2]. intros p Hp. apply andb_true_iff in Hp as [B1 B2].
  apply len_is_eq in B1. apply len_is_eq in B2. split; assumption.
Qed.

Lemma w_take_steps_ok c : w_wf c = true -> forall (sts : list wstep) fuel, Forall (wstep_ok c) sts -> (length sts < fuel)%nat ->
  w_take_steps fuel (Z.to_nat (w_nz c)) (w_nx c * w_ny c) (w_stag c) (w_dummy c) (concat (map (w_step_records c) sts)) = Some sts.
Proof.
  intros W sts; induction sts as [|s sts IH]; intros fuel Hall Hf.
  - destruct fuel; reflexivity.
  - destruct fuel as [|f]; [inversion Hf|].
    pose proof (Forall_inv Hall) as [H1 H2]. pose proof (Forall_inv_tail Hall) as Hrest.
    cbn [map concat]. unfold w_step_records at 1. cbn [app w_take_steps].
    assert (Eth : (match w_stag c, w_time_rec c s with
                   | Some l, [_; _; l'] => l' =? l | None, [_; _] => true | _, _ => false end) = true).
    { unfold w_time_rec. destruct (w_stag c); [apply Z.eqb_refl|reflexivity]. }
    rewrite Eth. fold (uv_recs (ws_uv s)). rewrite <- app_assoc. rewrite <- H1.
    rewrite w_take_uv_ok by exact H2. cbn [app]. rewrite Z.eqb_refl. rewrite H1.
    rewrite IH; [|exact Hrest|cbn [length] in Hf; lia].
    unfold w_time_rec. cbn [nth]. destruct s; reflexivity.
Qed.

Lemma w_dec_enc c : w_wf c = true ->
  w_dec (w_nx c) (w_ny c) (w_nz c) (w_stag c) (w_dummy c) (w_enc c) = Some c.
Proof.
  intros W. destruct (w_wf_parts c W) as (Hx & Hy & Hz & Hs).
  unfold w_dec, w_enc. rewrite unframe_all_frame.
  replace ((0 <? w_nx c) && (0 <? w_ny c) && (0 <? w_nz c)) with true by lia.
  unfold w_to_records. rewrite (w_take_steps_ok c W).
  - destruct c; reflexivity.
  - exact Hs.
  - assert (Hle : (length (w_steps c) <= length (concat (map (w_step_records c) (w_steps c))))%nat).
    { generalize (w_steps c). intros l. induction l as [|a l IH]; cbn [map concat length]; [lia|].
      rewrite app_length. unfold w_step_records at 1. cbn [length]. lia. }
    lia.
Qed.

Lemma w_rewrite_idempotent c : w_wf c = true ->
  match w_dec (w_nx c) (w_ny c) (w_nz c) (w_stag c) (w_dummy c) (w_enc c) with Some c' => w_enc c' = w_enc c | None => False end.
Proof. intros W. rewrite (w_dec_enc c W). reflexivity. Qed.

(* ======================================================================================
   Structure of an encoded file
   ====================================================================================== *)
Definition w_T (c : wind) (s : wstep) : list Z := frame1 (w_time_rec c s).
Definition w_DATA (s : wstep) : list Z := concat (map frame1 (uv_recs (ws_uv s))).
Definition w_step_words (c : wind) (s : wstep) : list Z := w_T c s ++ w_DATA s ++ [4; w_dummy c; 4].

Lemma w_enc_steps c : w_enc c = concat (map (w_step_words c) (w_steps c)).
Proof.
  unfold w_enc, w_to_records. rewrite frame_concat_map. f_equal. apply map_ext. intros s.
  unfold w_step_records, w_step_words, w_T, w_DATA.
  change (w_time_rec c s :: ?x) with ([w_time_rec c s] ++ x). rewrite !frame_app.
  unfold frame, uv_recs. cbn [map concat]. rewrite !app_nil_r. reflexivity.
Qed.

Section Wf.
Variable c : wind.
Hypothesis Hwf : w_wf c = true.
Let P := w_wf_parts c Hwf.
Let rc := w_nx c * w_ny c.

Lemma hdr_words : forall s, Z.of_nat (length (w_T c s)) = w_hdr_bytes c / 4 /\
  getw (w_T c s) 0 = w_hdr_bytes c - 8 /\ getw (w_T c s) 1 = ws_time s /\ getw (w_T c s) 2 = ws_date s.
Proof.
  intros s. unfold w_T, w_time_rec, w_hdr_bytes, frame1, marker. destruct (w_stag c); cbn; repeat split; reflexivity.
Qed.

Lemma uv_recs_facts s : wstep_ok c s ->
  length (uv_recs (ws_uv s)) = (2 * Z.to_nat (w_nz c))%nat /\
  Forall (fun r => Z.of_nat (length r) = rc) (uv_recs (ws_uv s)) /\
  w_evens (uv_recs (ws_uv s)) = map fst (ws_uv s) /\ w_odds (uv_recs (ws_uv s)) = map snd (ws_uv s).
Proof.
  intros [L F]. unfold uv_recs. rewrite <- L. clear L.
  induction F as [|[u v] uv [H1 H2] _ (IH1 & IH2 & IH3 & IH4)]; cbn [map concat app length fst snd w_evens w_odds].
  - repeat split; constructor.
  - split; [lia|]. split; [repeat constructor; assumption|]. rewrite IH3, IH4. split; reflexivity.
Qed.

Lemma data_rows s : wstep_ok c s ->
  Forall (fun b => length b = Z.to_nat (rc + 2)) (map frame1 (uv_recs (ws_uv s))) /\
  Z.of_nat (length (w_DATA s)) = (rc + 2) * 2 * w_nz c /\
  w_marks_ok (map frame1 (uv_recs (ws_uv s))) = true /\
  map w_cells (map frame1 (uv_recs (ws_uv s))) = uv_recs (ws_uv s).
Proof.
  intros Hs. destruct (uv_recs_facts s Hs) as (L & F & _ & _).
  destruct P as (Hx & Hy & Hz & _).
  assert (F1 : Forall (fun b => length b = Z.to_nat (rc + 2)) (map frame1 (uv_recs (ws_uv s)))).
  { apply Forall_forall. intros b Hb. apply in_map_iff in Hb as (r & <- & Hr). rewrite Forall_forall in F.
    specialize (F r Hr). unfold frame1. cbn [length]. rewrite app_length. cbn [length]. lia. }
  split; [exact F1|]. split.
  - unfold w_DATA. rewrite (concat_length_uniform _ _ F1), map_length, L. unfold rc. nia.
  - split.
    + unfold w_marks_ok. apply forallb_forall. intros b Hb. apply in_map_iff in Hb as (r & <- & _).
      unfold frame1. cbn [hd]. change (marker r :: r ++ [marker r]) with ((marker r :: r) ++ [marker r]).
      rewrite last_last. apply Z.eqb_refl.
    + rewrite map_map. rewrite <- (map_id (uv_recs (ws_uv s))) at 2. apply map_ext. intros r.
      unfold w_cells, frame1. cbn [tl]. apply removelast_last.
Qed.

Lemma step_words_length s : wstep_ok c s -> Z.of_nat (length (w_step_words c s)) = w_step_bytes c / 4.
Proof.
  intros Hs. destruct (data_rows s Hs) as (_ & LD & _ & _). destruct (hdr_words s) as (LT & _).
  assert (E : w_step_bytes c / 4 = w_hdr_bytes c / 4 + (rc + 2) * 2 * w_nz c + 3).
  { unfold w_step_bytes, w_body_bytes, w_data_bytes, w_hdr_bytes. fold rc. destruct (w_stag c).
    - change (20 / 4) with 5. replace (20 + 2 * w_nz c * (4 * rc + 8) + 12) with ((5 + (rc + 2) * 2 * w_nz c + 3) * 4) by lia.
      apply Z.div_mul. lia.
    - change (16 / 4) with 4. replace (16 + 2 * w_nz c * (4 * rc + 8) + 12) with ((4 + (rc + 2) * 2 * w_nz c + 3) * 4) by lia.
      apply Z.div_mul. lia. }
  unfold w_step_words. rewrite !app_length. cbn [length]. lia.
Qed.

Lemma sizes_facts : exists h, (h = 4 \/ h = 5) /\ 0 < rc /\ 0 < w_nz c /\
  w_hdr_bytes c = 4 * h /\ w_data_bytes c = 4 * (rc + 2) /\
  w_body_bytes c = 4 * (h + 2 * w_nz c * (rc + 2)) /\ w_step_bytes c = 4 * (h + 2 * w_nz c * (rc + 2) + 3).
Proof.
  destruct P as (Hx & Hy & Hz & _). unfold w_step_bytes, w_body_bytes, w_hdr_bytes, w_data_bytes. fold rc.
  assert (0 < rc) by (unfold rc; nia).
  destruct (w_stag c); [exists 5|exists 4]; repeat split; lia.
Qed.

End Wf.

(* ======================================================================================
   The layer-counting loop
   ====================================================================================== *)
Lemma frame1_length r : length (frame1 r) = (length r + 2)%nat.
Proof. unfold frame1. cbn [length]. rewrite app_length. cbn [length]. lia. Qed.

(* at the end of the file rf.next() does not move: the loop never terminates *)
Lemma w_walk_eof f ws len start d lays : len <= start + d + 8 -> w_walk (S f) ws len start d d lays = WHang.
Proof.
  intros H. cbn [w_walk]. rewrite Z.eqb_refl. unfold rf_next. replace (start + d + 8 <? len) with false by lia. reflexivity.
Qed.

(* over a run of records of the same size that is followed by the complete marker of a record of another size *)
Lemma w_walk_frames d m tail len : m <> d -> forall (rs : list (list Z)) pre cur lays fuel,
  Forall (fun r => marker r = d) (cur :: rs) ->
  4 * Z.of_nat (length pre + length (frame1 cur) + length (concat (map frame1 rs))) + 4 <= len ->
  (length rs + 1 < fuel)%nat ->
  w_walk fuel (pre ++ frame1 cur ++ concat (map frame1 rs) ++ m :: tail) len (4 * Z.of_nat (length pre)) d d lays
  = WOk (lays + 1 + Z.of_nat (length rs), m).
Proof.
  intros Hm. induction rs as [|r1 rs IH]; intros pre cur lays fuel Hd Hlen Hf.
  - destruct fuel as [|[|f]]; try (cbn in Hf; lia).
    pose proof (Forall_inv Hd) as Hc. cbn beta in Hc.
    cbn [map concat app length] in *. cbn [w_walk]. rewrite Z.eqb_refl.
    assert (Eoff : 4 * Z.of_nat (length pre) + d + 8 = 4 * Z.of_nat (length (pre ++ frame1 cur))).
    { rewrite app_length, frame1_length. unfold marker in Hc. lia. }
    unfold rf_next. rewrite Eoff. rewrite app_length in *.
    replace (4 * Z.of_nat (length pre + length (frame1 cur)) <? len) with true by lia.
    replace (4 * Z.of_nat (length pre + length (frame1 cur)) + 4 <=? len) with true by lia.
    rewrite four_div_o. rewrite app_assoc. rewrite getw_app_r by (rewrite app_length; lia).
    rewrite app_length, Z.sub_diag, getw_0.
    replace (m =? d) with false by lia. f_equal. f_equal. lia.
  - destruct fuel as [|f]; [lia|].
    pose proof (Forall_inv Hd) as Hc. cbn beta in Hc. pose proof (Forall_inv_tail Hd) as Hd'.
    cbn [w_walk]. rewrite Z.eqb_refl.
    assert (Eoff : 4 * Z.of_nat (length pre) + d + 8 = 4 * Z.of_nat (length (pre ++ frame1 cur))).
    { rewrite app_length, frame1_length. unfold marker in Hc. lia. }
    cbn [map concat] in Hlen |- *. rewrite !app_length in Hlen.
    unfold rf_next. rewrite Eoff. rewrite app_length.
    replace (4 * Z.of_nat (length pre + length (frame1 cur)) <? len) with true by lia.
    replace (4 * Z.of_nat (length pre + length (frame1 cur)) + 4 <=? len) with true by lia.
    rewrite four_div_o.
    assert (Ews : pre ++ frame1 cur ++ (frame1 r1 ++ concat (map frame1 rs)) ++ m :: tail
                  = (pre ++ frame1 cur) ++ frame1 r1 ++ concat (map frame1 rs) ++ m :: tail)
      by (rewrite <- !app_assoc; reflexivity).
    rewrite Ews.
    assert (G : getw ((pre ++ frame1 cur) ++ frame1 r1 ++ concat (map frame1 rs) ++ m :: tail)
                     (Z.of_nat (length pre + length (frame1 cur))) = d).
    { rewrite getw_app_r by (rewrite app_length; lia). rewrite app_length, Z.sub_diag.
      unfold frame1 at 1. cbn [app]. rewrite getw_0. apply (Forall_inv Hd'). }
    rewrite G. rewrite <- app_length.
    rewrite (IH (pre ++ frame1 cur) r1 (lays + 1) f Hd').
    + cbn [length]. f_equal. f_equal. lia.
    + rewrite app_length. lia.
    + cbn [length] in Hf. lia.
Qed.
