(* Proofs about Model/Wind.v (CAMx wind files): spec codec round trip; the memmap reader model on encoded files for EVERY
   length from the end of the first step's data on (what it accepts, what it presents); the cuts inside the first time
   record on which its layer-counting loop never terminates. *)
From PNC Require Import Base.Util Base.Words Proofs.WordsProofs Gen.Camx Model.Uamiv Model.CamxMet Model.One3d Model.Wind
                        Proofs.UamivProofs Proofs.One3dProofs.
From Coq Require Import ZifyBool.
Import Coq.Lists.List. Import ListNotations.
Local Open Scope Z_scope.

(* ---- spec codec ------------------------------------------------------------------------------------ *)
Definition uv_recs (uv : list (list Z * list Z)) : list (list Z) := concat (map (fun p => [fst p; snd p]) uv).

Lemma w_take_uv_ok ncell : forall (uv : list (list Z * list Z)) rest,
  Forall (fun p => Z.of_nat (length (fst p)) = ncell /\ Z.of_nat (length (snd p)) = ncell) uv ->
  w_take_uv (length uv) ncell (uv_recs uv ++ rest) = Some (uv, rest).
Proof.
  induction uv as [|[u v] uv IH]; intros rest H; [reflexivity|].
  pose proof (Forall_inv H) as [H1 H2]. pose proof (Forall_inv_tail H) as Ht. cbn [fst snd] in H1, H2.
  unfold uv_recs. cbn [length map concat app fst snd w_take_uv]. fold (uv_recs uv).
  replace ((Z.of_nat (length u) =? ncell) && (Z.of_nat (length v) =? ncell)) with true by lia.
  rewrite IH by exact Ht. reflexivity.
Qed.

Definition wstep_ok (c : wind) (s : wstep) : Prop :=
  length (ws_uv s) = Z.to_nat (w_nz c) /\
  Forall (fun p => Z.of_nat (length (fst p)) = w_nx c * w_ny c /\ Z.of_nat (length (snd p)) = w_nx c * w_ny c) (ws_uv s).

Lemma w_wf_parts c : w_wf c = true -> 0 < w_nx c /\ 0 < w_ny c /\ 0 < w_nz c /\ Forall (wstep_ok c) (w_steps c).
Proof.
  unfold w_wf. intros W. repeat (apply andb_true_iff in W; destruct W as [W ?]).
  repeat (split; [lia|]).
  eapply forallb_Forall; [|eassumption]. intros s Hs. unfold w_wf_step in Hs.
  apply andb_true_iff in Hs as [A1 A2]. apply len_is_eq in A1. split; [lia|].
  eapply forallb_Forall; [|exact A2]. intros p Hp. apply andb_true_iff in Hp as [B1 B2].
  apply len_is_eq in B1. apply len_is_eq in B2. split; assumption.
Qed.

Lemma w_take_steps_ok c : w_wf c = true -> forall (sts : list wstep) fuel, Forall (wstep_ok c) sts -> (length sts < fuel)%nat ->
  w_take_steps fuel (Z.to_nat (w_nz c)) (w_nx c * w_ny c) (w_stag c) (w_dummy c) (concat (map (w_step_records c) sts)) = Some sts.
Proof.
  intros W sts; induction sts as [|s sts IH]; intros fuel Hall Hf.
  - destruct fuel; reflexivity.
  - destruct fuel as [|f]; [inversion Hf|].
    pose proof (Forall_inv Hall) as [H1 H2]. pose proof (Forall_inv_tail Hall) as Hrest.
    cbn [map concat]. unfold w_step_records at 1. cbn [app w_take_steps].
    assert (Eth : (match w_stag c, w_time_rec c s with
                   | Some l, [_; _; l'] => l' =? l | None, [_; _] => true | _, _ => false end) = true).
    { unfold w_time_rec. destruct (w_stag c); [apply Z.eqb_refl|reflexivity]. }
    rewrite Eth. fold (uv_recs (ws_uv s)). rewrite <- app_assoc. rewrite <- H1.
    rewrite w_take_uv_ok by exact H2. cbn [app]. rewrite Z.eqb_refl. rewrite H1.
    rewrite IH; [|exact Hrest|cbn [length] in Hf; lia].
    unfold w_time_rec. cbn [nth]. destruct s; reflexivity.
Qed.

Lemma w_dec_enc c : w_wf c = true ->
  w_dec (w_nx c) (w_ny c) (w_nz c) (w_stag c) (w_dummy c) (w_enc c) = Some c.
Proof.
  intros W. destruct (w_wf_parts c W) as (Hx & Hy & Hz & Hs).
  unfold w_dec, w_enc. rewrite unframe_all_frame.
  replace ((0 <? w_nx c) && (0 <? w_ny c) && (0 <? w_nz c)) with true by lia.
  unfold w_to_records. rewrite (w_take_steps_ok c W).
  - destruct c; reflexivity.
  - exact Hs.
  - assert (Hle : (length (w_steps c) <= length (concat (map (w_step_records c) (w_steps c))))%nat).
    { generalize (w_steps c). intros l. induction l as [|a l IH]; cbn [map concat length]; [lia|].
      rewrite app_length. unfold w_step_records at 1. cbn [length]. lia. }
    lia.
Qed.

Lemma w_rewrite_idempotent c : w_wf c = true ->
  match w_dec (w_nx c) (w_ny c) (w_nz c) (w_stag c) (w_dummy c) (w_enc c) with Some c' => w_enc c' = w_enc c | None => False end.
Proof. intros W. rewrite (w_dec_enc c W). reflexivity. Qed.

(* ======================================================================================
   Structure of an encoded file
   ====================================================================================== *)
Definition w_T (c : wind) (s : wstep) : list Z := frame1 (w_time_rec c s).
Definition w_DATA (s : wstep) : list Z := concat (map frame1 (uv_recs (ws_uv s))).
Definition w_step_words (c : wind) (s : wstep) : list Z := w_T c s ++ w_DATA s ++ [4; w_dummy c; 4].

Lemma w_enc_steps c : w_enc c = concat (map (w_step_words c) (w_steps c)).
Proof.
  unfold w_enc, w_to_records. rewrite frame_concat_map. f_equal. apply map_ext. intros s.
  unfold w_step_records, w_step_words, w_T, w_DATA.
  change (w_time_rec c s :: ?x) with ([w_time_rec c s] ++ x). rewrite !frame_app.
  unfold frame, uv_recs. cbn [map concat]. rewrite !app_nil_r. reflexivity.
Qed.

Section Wf.
Variable c : wind.
Hypothesis Hwf : w_wf c = true.
Let P := w_wf_parts c Hwf.
Let rc := w_nx c * w_ny c.

Lemma hdr_words : forall s, Z.of_nat (length (w_T c s)) = w_hdr_bytes c / 4 /\
  getw (w_T c s) 0 = w_hdr_bytes c - 8 /\ getw (w_T c s) 1 = ws_time s /\ getw (w_T c s) 2 = ws_date s.
Proof.
  intros s. unfold w_T, w_time_rec, w_hdr_bytes, frame1, marker. destruct (w_stag c); cbn; repeat split; reflexivity.
Qed.

Lemma uv_recs_facts s : wstep_ok c s ->
  length (uv_recs (ws_uv s)) = (2 * Z.to_nat (w_nz c))%nat /\
  Forall (fun r => Z.of_nat (length r) = rc) (uv_recs (ws_uv s)) /\
  w_evens (uv_recs (ws_uv s)) = map fst (ws_uv s) /\ w_odds (uv_recs (ws_uv s)) = map snd (ws_uv s).
Proof.
  intros [L F]. unfold uv_recs. rewrite <- L. clear L.
  induction F as [|[u v] uv [H1 H2] _ (IH1 & IH2 & IH3 & IH4)]; cbn [map concat app length fst snd w_evens w_odds].
  - repeat split; constructor.
  - split; [lia|]. split; [repeat constructor; assumption|]. rewrite IH3, IH4. split; reflexivity.
Qed.

Lemma data_rows s : wstep_ok c s ->
  Forall (fun b => length b = Z.to_nat (rc + 2)) (map frame1 (uv_recs (ws_uv s))) /\
  Z.of_nat (length (w_DATA s)) = (rc + 2) * 2 * w_nz c /\
  w_marks_ok (map frame1 (uv_recs (ws_uv s))) = true /\
  map w_cells (map frame1 (uv_recs (ws_uv s))) = uv_recs (ws_uv s).
Proof.
  intros Hs. destruct (uv_recs_facts s Hs) as (L & F & _ & _).
  destruct P as (Hx & Hy & Hz & _).
  assert (F1 : Forall (fun b => length b = Z.to_nat (rc + 2)) (map frame1 (uv_recs (ws_uv s)))).
  { apply Forall_forall. intros b Hb. apply in_map_iff in Hb as (r & <- & Hr). rewrite Forall_forall in F.
    specialize (F r Hr). unfold frame1. cbn [length]. rewrite app_length. cbn [length]. lia. }
  split; [exact F1|]. split.
  - unfold w_DATA. rewrite (concat_length_uniform _ _ F1), map_length, L. unfold rc. nia.
  - split.
    + unfold w_marks_ok. apply forallb_forall. intros b Hb. apply in_map_iff in Hb as (r & <- & _).
      unfold frame1. cbn [hd]. change (marker r :: r ++ [marker r]) with ((marker r :: r) ++ [marker r]).
      rewrite last_last. apply Z.eqb_refl.
    + rewrite map_map. rewrite <- (map_id (uv_recs (ws_uv s))) at 2. apply map_ext. intros r.
      unfold w_cells, frame1. cbn [tl]. apply removelast_last.
Qed.

Lemma step_words_length s : wstep_ok c s -> Z.of_nat (length (w_step_words c s)) = w_step_bytes c / 4.
Proof.
  intros Hs. destruct (data_rows s Hs) as (_ & LD & _ & _). destruct (hdr_words s) as (LT & _).
  assert (E : w_step_bytes c / 4 = w_hdr_bytes c / 4 + (rc + 2) * 2 * w_nz c + 3).
  { unfold w_step_bytes, w_body_bytes, w_data_bytes, w_hdr_bytes. fold rc. destruct (w_stag c).
    - change (20 / 4) with 5. replace (20 + 2 * w_nz c * (4 * rc + 8) + 12) with ((5 + (rc + 2) * 2 * w_nz c + 3) * 4) by lia.
      apply Z.div_mul. lia.
    - change (16 / 4) with 4. replace (16 + 2 * w_nz c * (4 * rc + 8) + 12) with ((4 + (rc + 2) * 2 * w_nz c + 3) * 4) by lia.
      apply Z.div_mul. lia. }
  unfold w_step_words. rewrite !app_length. cbn [length]. lia.
Qed.

Lemma sizes_facts : exists h, (h = 4 \/ h = 5) /\ 0 < rc /\ 0 < w_nz c /\
  w_hdr_bytes c = 4 * h /\ w_data_bytes c = 4 * (rc + 2) /\
  w_body_bytes c = 4 * (h + 2 * w_nz c * (rc + 2)) /\ w_step_bytes c = 4 * (h + 2 * w_nz c * (rc + 2) + 3).
Proof.
  destruct P as (Hx & Hy & Hz & _). unfold w_step_bytes, w_body_bytes, w_hdr_bytes, w_data_bytes. fold rc.
  assert (0 < rc) by (unfold rc; nia).
  destruct (w_stag c); [exists 5|exists 4]; repeat split; lia.
Qed.

End Wf.

(* ======================================================================================
   The layer-counting loop
   ====================================================================================== *)
Lemma frame1_length r : length (frame1 r) = (length r + 2)%nat.
Proof. unfold frame1. cbn [length]. rewrite app_length. cbn [length]. lia. Qed.

(* at the end of the file rf.next() returns False: the loop raises (db74c5b) *)
Lemma w_walk_eof f ws len start d lays : len <= start + d + 8 -> w_walk (S f) ws len start d d lays = WErr.
Proof.
  intros H. cbn [w_walk]. rewrite Z.eqb_refl. unfold rf_next. replace (start + d + 8 <? len) with false by lia. reflexivity.
Qed.

(* over a run of records of the same size that is followed by the complete marker of a record of another size *)
Lemma w_walk_frames d m tail len : m <> d -> forall (rs : list (list Z)) pre cur lays fuel,
  Forall (fun r => marker r = d) (cur :: rs) ->
  4 * Z.of_nat (length pre + length (frame1 cur) + length (concat (map frame1 rs))) + 4 <= len ->
  (length rs + 1 < fuel)%nat ->
  w_walk fuel (pre ++ frame1 cur ++ concat (map frame1 rs) ++ m :: tail) len (4 * Z.of_nat (length pre)) d d lays
  = WOk (lays + 1 + Z.of_nat (length rs), m).
Proof.
  intros Hm. induction rs as [|r1 rs IH]; intros pre cur lays fuel Hd Hlen Hf.
  - destruct fuel as [|[|f]]; try (cbn in Hf; lia).
    pose proof (Forall_inv Hd) as Hc. cbn beta in Hc.
    cbn [map concat app length] in *. cbn [w_walk]. rewrite Z.eqb_refl.
    assert (Eoff : 4 * Z.of_nat (length pre) + d + 8 = 4 * Z.of_nat (length (pre ++ frame1 cur))).
    { rewrite app_length, frame1_length. unfold marker in Hc. lia. }
    unfold rf_next. rewrite Eoff. rewrite app_length in *.
    replace (4 * Z.of_nat (length pre + length (frame1 cur)) <? len) with true by lia.
    replace (4 * Z.of_nat (length pre + length (frame1 cur)) + 4 <=? len) with true by lia.
    rewrite four_div_o. rewrite app_assoc. rewrite getw_app_r by (rewrite app_length; lia).
    rewrite app_length, Z.sub_diag, getw_0.
    replace (m =? d) with false by lia. f_equal. f_equal. lia.
  - destruct fuel as [|f]; [lia|].
    pose proof (Forall_inv Hd) as Hc. cbn beta in Hc. pose proof (Forall_inv_tail Hd) as Hd'.
    cbn [w_walk]. rewrite Z.eqb_refl.
    assert (Eoff : 4 * Z.of_nat (length pre) + d + 8 = 4 * Z.of_nat (length (pre ++ frame1 cur))).
    { rewrite app_length, frame1_length. unfold marker in Hc. lia. }
    cbn [map concat] in Hlen |- *. rewrite !app_length in Hlen.
    unfold rf_next. rewrite Eoff. rewrite app_length.
    replace (4 * Z.of_nat (length pre + length (frame1 cur)) <? len) with true by lia.
    replace (4 * Z.of_nat (length pre + length (frame1 cur)) + 4 <=? len) with true by lia.
    rewrite four_div_o.
    assert (Ews : pre ++ frame1 cur ++ (frame1 r1 ++ concat (map frame1 rs)) ++ m :: tail
                  = (pre ++ frame1 cur) ++ frame1 r1 ++ concat (map frame1 rs) ++ m :: tail)
      by (rewrite <- !app_assoc; reflexivity).
    rewrite Ews.
    assert (G : getw ((pre ++ frame1 cur) ++ frame1 r1 ++ concat (map frame1 rs) ++ m :: tail)
                     (Z.of_nat (length pre + length (frame1 cur))) = d).
    { rewrite getw_app_r by (rewrite app_length; lia). rewrite app_length, Z.sub_diag.
      unfold frame1 at 1. cbn [app]. rewrite getw_0. apply (Forall_inv Hd'). }
    rewrite G. rewrite <- app_length.
    rewrite (IH (pre ++ frame1 cur) r1 (lays + 1) f Hd').
    + cbn [length]. f_equal. f_equal. lia.
    + rewrite app_length. lia.
    + cbn [length] in Hf. lia.
Qed.

(* ======================================================================================
   The reader model, unfolded
   ====================================================================================== *)
Definition w_post (rows cols : Z) (ws : list Z) (len m0 lays2 szd : Z) : wres wview :=
  let dl := (szd + 8) / 4 in
  let lays := lays2 / 2 in
  let record := rows * cols * 4 + 8 in
  let step_size := record * 2 * lays + m0 + 8 + dl * 4 in
  if step_size =? 0 then WErr else
  let times := len / step_size in
  if negb (len mod 4 =? 0) then WErr else
  if times <=? 0 then WErr else
  let n := len / 4 in
  let offset := m0 / 4 + 2 in
  let block := (rows * cols + 2) * 2 * lays in
  let parts := map (w_step_view ws n offset block dl (rows * cols)) (map Z.of_nat (seq 0 (Z.to_nat times))) in
  if forallb (fun p => match p with Some _ => true | None => false end) parts then
    let ps := flat_map (fun p => match p with Some x => [x] | None => [] end) parts in
    WOk {| wv_nx := cols; wv_ny := rows; wv_nz := lays; wv_ntimes := times;
           wv_stamps := map fst ps;
           wv_u := map (fun p => w_evens (snd p)) ps; wv_v := map (fun p => w_odds (snd p)) ps |}
  else WErr.

Lemma w_mm_read_unfold rows cols ws len :
  w_mm_read rows cols ws len =
  if len <? 12 then WErr else
  if negb ((getw ws 0 =? 12) || (getw ws 0 =? 8)) then WErr else
  match rf_next ws len 0 (getw ws 0) with
  | None => WErr
  | Some st1 =>
    match w_walk (S (Z.to_nat len)) ws len (fst (match st1 with Some x => x | None => (0, getw ws 0) end))
                 (snd (match st1 with Some x => x | None => (0, getw ws 0) end))
                 (snd (match st1 with Some x => x | None => (0, getw ws 0) end)) 1 with
    | WErr => WErr
    | WHang => WHang
    | WOk (lays2, szd) => w_post rows cols ws len (getw ws 0) lays2 szd
    end
  end.
Proof.
  unfold w_mm_read, w_post. destruct (len <? 12); [reflexivity|].
  destruct (negb _); [reflexivity|]. destruct (rf_next ws len 0 (getw ws 0)) as [[[s1 d]|]|]; reflexivity.
Qed.

Lemma getw_skipn : forall a (l : list Z) i, 0 <= i -> getw (skipn a l) i = getw l (Z.of_nat a + i).
Proof.
  induction a as [|a IH]; intros l i Hi; [reflexivity|].
  destruct l as [|x l]; [unfold getw; rewrite skipn_nil; destruct (Z.to_nat i), (Z.to_nat (Z.of_nat (S a) + i)); reflexivity|].
  cbn [skipn]. rewrite IH by exact Hi. rewrite (getw_cons x l (Z.of_nat (S a) + i)) by lia. f_equal. lia.
Qed.

Lemma firstn_app_cons {A} (a : list A) x b n : (length a < n)%nat ->
  firstn n (a ++ x :: b) = a ++ x :: firstn (n - length a - 1) b.
Proof.
  intros H. rewrite firstn_app, firstn_all2 by lia. f_equal.
  destruct (n - length a)%nat as [|m] eqn:E; [lia|]. cbn [firstn]. do 2 f_equal. lia.
Qed.

(* ---- from the first step's dummy marker on: the layer count is found ------------------------------------- *)
Lemma w_head c s0 rest len : w_wf c = true -> w_steps c = s0 :: rest -> 2 <= w_nx c * w_ny c ->
  w_body_bytes c + 4 <= len ->
  let given := firstn (Z.to_nat ((len + 3) / 4)) (w_enc c) in
  w_mm_read (w_ny c) (w_nx c) given len = w_post (w_ny c) (w_nx c) given len (w_hdr_bytes c - 8) (2 * w_nz c + 1) 4.
Proof.
  intros W Es Hrc Hl. cbn zeta.
  destruct (sizes_facts c W) as (h & Hh & Hrc0 & Hz & EH & ED & EB & ES).
  assert (Ok0' : wstep_ok c s0).
  { pose proof (proj2 (proj2 (proj2 (w_wf_parts c W)))) as F. rewrite Es in F. apply (Forall_inv F). }
  destruct (hdr_words c s0) as (LT & GT0 & _). rewrite EH, four_div_o in LT.
  destruct (data_rows c W s0 Ok0') as (_ & LD & _ & _).
  destruct (uv_recs_facts c s0 Ok0') as (LR & FR & _ & _).
  (* the records of the first step *)
  destruct (uv_recs (ws_uv s0)) as [|r1 rs] eqn:Er; [cbn [length] in LR; lia|].
  assert (EDATA : w_DATA s0 = frame1 r1 ++ concat (map frame1 rs)) by (unfold w_DATA; rewrite Er; reflexivity).
  set (tail := firstn (Z.to_nat ((len + 3) / 4) - length (w_T c s0 ++ w_DATA s0) - 1)
                      ([w_dummy c; 4] ++ concat (map (w_step_words c) rest))).
  assert (Hn : w_body_bytes c / 4 + 1 <= (len + 3) / 4).
  { rewrite EB, four_div_o. apply Z.div_le_lower_bound; lia. }
  assert (LTD : Z.of_nat (length (w_T c s0 ++ w_DATA s0)) = w_body_bytes c / 4).
  { rewrite app_length, EB, four_div_o. lia. }
  assert (Egiven : firstn (Z.to_nat ((len + 3) / 4)) (w_enc c) = w_T c s0 ++ frame1 r1 ++ concat (map frame1 rs) ++ 4 :: tail).
  { rewrite w_enc_steps, Es. cbn [map concat]. unfold w_step_words at 1.
    replace ((w_T c s0 ++ w_DATA s0 ++ [4; w_dummy c; 4]) ++ concat (map (w_step_words c) rest))
      with ((w_T c s0 ++ w_DATA s0) ++ 4 :: ([w_dummy c; 4] ++ concat (map (w_step_words c) rest)))
      by (rewrite <- !app_assoc; reflexivity).
    rewrite firstn_app_cons by lia. fold tail. rewrite EDATA, <- !app_assoc. reflexivity. }
  rewrite Egiven. rewrite w_mm_read_unfold.
  replace (len <? 12) with false by lia.
  assert (G0 : getw (w_T c s0 ++ frame1 r1 ++ concat (map frame1 rs) ++ 4 :: tail) 0 = w_hdr_bytes c - 8).
  { rewrite getw_app_l by lia. exact GT0. }
  rewrite G0.
  replace (negb ((w_hdr_bytes c - 8 =? 12) || (w_hdr_bytes c - 8 =? 8))) with false by lia.
  pose proof (Forall_inv FR) as Lr1. cbn beta in Lr1.
  assert (Mk : Forall (fun r => marker r = 4 * (w_nx c * w_ny c)) (r1 :: rs)).
  { eapply Forall_impl; [|exact FR]. intros r Hr. unfold marker. cbn beta in Hr. lia. }
  unfold rf_next at 1.
  replace (0 + (w_hdr_bytes c - 8) + 8) with (4 * Z.of_nat (length (w_T c s0))) by lia.
  replace (4 * Z.of_nat (length (w_T c s0)) <? len) with true by lia.
  replace (4 * Z.of_nat (length (w_T c s0)) + 4 <=? len) with true by lia.
  assert (G1 : getw (w_T c s0 ++ frame1 r1 ++ concat (map frame1 rs) ++ 4 :: tail) (4 * Z.of_nat (length (w_T c s0)) / 4)
               = 4 * (w_nx c * w_ny c)).
  { rewrite four_div_o. rewrite getw_app_r by lia. rewrite Z.sub_diag. unfold frame1 at 1. cbn [app]. rewrite getw_0.
    apply (Forall_inv Mk). }
  rewrite G1. cbn [fst snd].
  assert (LDr : Z.of_nat (length (frame1 r1) + length (concat (map frame1 rs))) = (w_nx c * w_ny c + 2) * 2 * w_nz c).
  { rewrite <- app_length, <- EDATA. exact LD. }
  rewrite (w_walk_frames (4 * (w_nx c * w_ny c)) 4 tail len ltac:(lia) rs (w_T c s0) r1 1 _ Mk).
  - cbn [length] in LR. f_equal. lia.
  - rewrite EB in Hl. lia.
  - cbn [length] in LR. rewrite EB in Hl. nia.
Qed.

Lemma skipn_plus_w {A} a : forall b (l : list A), skipn (a + b) l = skipn a (skipn b l).
Proof.
  induction b as [|b IH]; intros l; [rewrite Nat.add_0_r; reflexivity|].
  destruct l as [|x l]; [rewrite !skipn_nil; reflexivity|].
  rewrite Nat.add_succ_r. cbn [skipn]. apply IH.
Qed.

(* ---- one counted step: the slices taken by __add_variables ----------------------------------------------- *)
Lemma w_steps_uniform c : w_wf c = true ->
  Forall (fun b => length b = Z.to_nat (w_step_bytes c / 4)) (map (w_step_words c) (w_steps c)).
Proof.
  intros W. apply Forall_forall. intros b Hb. apply in_map_iff in Hb as (s & <- & Hin).
  pose proof (proj2 (proj2 (proj2 (w_wf_parts c W)))) as F. rewrite Forall_forall in F.
  pose proof (step_words_length c W s (F s Hin)). lia.
Qed.

Lemma w_step_view_ok c S1 s S2 N n : w_wf c = true -> w_steps c = S1 ++ s :: S2 ->
  let h := w_hdr_bytes c / 4 in
  let block := (w_ny c * w_nx c + 2) * 2 * w_nz c in
  let t := Z.of_nat (length S1) in
  (t + 1) * h + t * block + t * 3 + block <= n -> n <= Z.of_nat N ->
  w_step_view (firstn N (w_enc c)) n h block 3 (w_ny c * w_nx c) t = Some ((ws_time s, ws_date s), uv_recs (ws_uv s)).
Proof.
  intros W Es. cbn zeta. intros Hfit HN.
  destruct (sizes_facts c W) as (h & Hh & Hrc0 & Hz & EH & ED & EB & ES).
  replace (w_ny c * w_nx c) with (w_nx c * w_ny c) in * by lia.
  rewrite EH, four_div_o in *.
  set (block := (w_nx c * w_ny c + 2) * 2 * w_nz c) in *.
  pose proof (proj2 (proj2 (proj2 (w_wf_parts c W)))) as Fok. rewrite Es in Fok.
  assert (Oks : wstep_ok c s) by (apply Forall_app in Fok as [_ F]; apply (Forall_inv F)).
  destruct (hdr_words c s) as (LT & _ & GT1 & GT2). rewrite EH, four_div_o in LT.
  destruct (data_rows c W s Oks) as (FD & LD & MK & CE). fold block in LD.
  set (Wd := Z.to_nat (w_step_bytes c / 4)).
  assert (EWd : Z.of_nat Wd = h + block + 3) by (unfold Wd; rewrite ES, four_div_o; unfold block; lia).
  (* the file from step |S1| on *)
  assert (Esk : skipn (length S1 * Wd) (w_enc c) = w_step_words c s ++ concat (map (w_step_words c) S2)).
  { rewrite w_enc_steps. rewrite (skipn_concat_uniform_gen _ _ _ (w_steps_uniform c W)).
    rewrite Es, map_app. rewrite <- (map_length (w_step_words c) S1) at 1. rewrite skipn_app_exact. reflexivity. }
  unfold w_step_view.
  replace ((Z.of_nat (length S1) + 1) * h + Z.of_nat (length S1) * block + Z.of_nat (length S1) * 3)
    with (Z.of_nat (length S1 * Wd) + h) in * by nia.
  replace (Z.of_nat (length S1 * Wd) + h + block <=? n) with true by lia.
  replace (Z.to_nat (Z.of_nat (length S1 * Wd) + h)) with (Z.to_nat h + length S1 * Wd)%nat by lia.
  rewrite firstn_skipn_firstn by lia.
  rewrite skipn_plus_w, Esk. unfold w_step_words at 1. rewrite <- !app_assoc.
  rewrite (skipn_app_len (Z.to_nat h)) by lia.
  rewrite (firstn_app_len (Z.to_nat block)) by lia.
  unfold w_block_rows, w_DATA. rewrite chunks_concat; [|lia|exact FD].
  rewrite MK, CE.
  replace (Z.of_nat (length S1 * Wd) + h - h + 1) with (Z.of_nat (length S1 * Wd) + 1) by lia.
  replace (Z.of_nat (length S1 * Wd) + h - h + 2) with (Z.of_nat (length S1 * Wd) + 2) by lia.
  rewrite !getw_firstn by lia. rewrite <- !getw_skipn by lia. rewrite Esk.
  pose proof (step_words_length c W s Oks) as LS. rewrite ES, four_div_o in LS.
  rewrite !(getw_app_l (w_step_words c s)) by (unfold block in *; nia).
  unfold w_step_words. rewrite !(getw_app_l (w_T c s)) by lia. rewrite GT1, GT2. reflexivity.
Qed.

Lemma map_seq_steps {B} (F : Z -> B) (G : wstep -> B) : forall kn (l : list wstep) a, (kn <= length l)%nat ->
  (forall S1 s S2, l = S1 ++ s :: S2 -> (length S1 < kn)%nat -> F (Z.of_nat (a + length S1)) = G s) ->
  map F (map Z.of_nat (seq a kn)) = map G (firstn kn l).
Proof.
  induction kn as [|kn IH]; intros l a Hk H; [reflexivity|].
  destruct l as [|s l]; [cbn in Hk; lia|]. cbn [seq map firstn]. f_equal.
  - rewrite <- (H [] s l eq_refl ltac:(cbn; lia)). cbn [length]. f_equal. lia.
  - apply IH; [cbn in Hk; lia|]. intros S1 s' S2 E Hl.
    rewrite <- (H (s :: S1) s' S2 ltac:(rewrite E; reflexivity) ltac:(cbn; lia)). cbn [length]. f_equal. lia.
Qed.

(* ---- the reader on EVERY length from the first step's dummy marker on --------------------------------------- *)
Lemma w_post_eval c s0 rest len : w_wf c = true -> w_steps c = s0 :: rest -> 2 <= w_nx c * w_ny c ->
  w_body_bytes c + 4 <= len <= 4 * Z.of_nat (length (w_enc c)) ->
  let given := firstn (Z.to_nat ((len + 3) / 4)) (w_enc c) in
  w_post (w_ny c) (w_nx c) given len (w_hdr_bytes c - 8) (2 * w_nz c + 1) 4 =
  if (len mod 4 =? 0) && (w_step_bytes c <=? len)
  then WOk (w_view_of (w_truncate_steps (Z.to_nat (len / w_step_bytes c)) c)) else WErr.
Proof.
  intros W Es Hrc Hl. cbn zeta.
  destruct (sizes_facts c W) as (h & Hh & Hrc0 & Hz & EH & ED & EB & ES).
  pose proof (proj2 (proj2 (proj2 (w_wf_parts c W)))) as Fok.
  unfold w_post.
  change ((4 + 8) / 4) with 3.
  assert (A2 : (2 * w_nz c + 1) / 2 = w_nz c).
  { replace (2 * w_nz c + 1) with (1 + w_nz c * 2) by lia. rewrite Z.div_add by lia. reflexivity. }
  rewrite A2.
  assert (A3 : (w_ny c * w_nx c * 4 + 8) * 2 * w_nz c + (w_hdr_bytes c - 8) + 8 + 3 * 4 = w_step_bytes c) by (rewrite ES, EH; lia).
  rewrite A3.
  assert (Hb : 0 < w_step_bytes c) by (rewrite ES; nia).
  replace (w_step_bytes c =? 0) with false by lia.
  destruct (len mod 4 =? 0) eqn:M4; [|reflexivity]. cbn [negb andb].
  set (k := len / w_step_bytes c).
  pose proof (Z.div_mod len (w_step_bytes c) ltac:(lia)) as Edm. fold k in Edm.
  pose proof (Z.mod_pos_bound len (w_step_bytes c) ltac:(lia)) as Hmb.
  destruct (w_step_bytes c <=? len) eqn:Hge.
  2:{ assert (k = 0) by (unfold k; apply Z.div_small; lia). replace (k <=? 0) with true by lia. reflexivity. }
  assert (Hk1 : 1 <= k) by (unfold k; apply Z.div_le_lower_bound; lia).
  replace (k <=? 0) with false by lia.
  assert (E4 : len = 4 * (len / 4)) by (apply Z.div_exact; lia).
  set (n := len / 4) in *.
  assert (Eoff : (w_hdr_bytes c - 8) / 4 + 2 = w_hdr_bytes c / 4).
  { rewrite EH. replace (4 * h - 8) with (4 * (h - 2)) by lia. rewrite !four_div_o. lia. }
  rewrite Eoff.
  set (block := (w_ny c * w_nx c + 2) * 2 * w_nz c).
  assert (ESb : w_step_bytes c = 4 * (w_hdr_bytes c / 4 + block + 3)) by (rewrite EH, four_div_o, ES; unfold block; lia).
  assert (EN : Z.of_nat (Z.to_nat ((len + 3) / 4)) = n).
  { rewrite Z2Nat.id by (apply Z.div_pos; lia). rewrite E4.
    replace (4 * n + 3) with (3 + n * 4) by lia. rewrite Z.div_add by lia. reflexivity. }
  rewrite (w_enc_steps c), (concat_length_uniform _ _ (w_steps_uniform c W)), map_length in Hl.
  rewrite ES, four_div_o in Hl.
  assert (Hkn : (Z.to_nat k <= length (w_steps c))%nat) by (rewrite ES in *; nia).
  rewrite (map_seq_steps _ (fun s => Some ((ws_time s, ws_date s), uv_recs (ws_uv s))) (Z.to_nat k) (w_steps c) 0 Hkn).
  - assert (Ef : forall (l : list wstep) (G : wstep -> (Z * Z) * list (list Z)),
              forallb (fun p => match p with Some _ => true | None => false end) (map (fun s => Some (G s)) l) = true /\
              flat_map (fun p => match p with Some x => [x] | None => [] end) (map (fun s => Some (G s)) l) = map G l).
    { intros l G. induction l as [|x l [I1 I2]]; cbn [map forallb flat_map app]; [split; reflexivity|].
      rewrite I1, I2. split; reflexivity. }
    destruct (Ef (firstn (Z.to_nat k) (w_steps c)) (fun s => ((ws_time s, ws_date s), uv_recs (ws_uv s)))) as [F1 F2].
    rewrite F1, F2. unfold w_view_of, w_truncate_steps. cbn [w_nx w_ny w_nz w_steps].
    assert (Fk : Forall (wstep_ok c) (firstn (Z.to_nat k) (w_steps c))) by (apply Forall_firstn, Fok).
    f_equal. f_equal.
    + rewrite firstn_length. lia.
    + rewrite map_map. reflexivity.
    + rewrite map_map. apply map_ext_in. intros s Hs. rewrite Forall_forall in Fk.
      apply (uv_recs_facts c s (Fk s Hs)).
    + rewrite map_map. apply map_ext_in. intros s Hs. rewrite Forall_forall in Fk.
      apply (uv_recs_facts c s (Fk s Hs)).
  - intros S1 s S2 E HS1. cbn [Nat.add].
    apply (w_step_view_ok c S1 s S2 _ n W E); [|lia].
    fold block. rewrite ESb in Edm, Hmb. nia.
Qed.

Lemma w_enc_length c : w_wf c = true -> 4 * Z.of_nat (length (w_enc c)) = Z.of_nat (length (w_steps c)) * w_step_bytes c.
Proof.
  intros W. destruct (sizes_facts c W) as (h & Hh & Hrc0 & Hz & _ & _ & _ & ES).
  rewrite (w_enc_steps c), (concat_length_uniform _ _ (w_steps_uniform c W)), map_length. rewrite ES, four_div_o.
  assert (0 < h + 2 * w_nz c * (w_nx c * w_ny c + 2) + 3) by nia.
  rewrite Nat2Z.inj_mul, Z2Nat.id by lia. lia.
Qed.

(* ---- cuts inside the first step: the layer-counting loop raises ------------------------------------------------ *)
Lemma w_walk_frames_cut d m tail len : forall (rs : list (list Z)) pre cur lays fuel,
  Forall (fun r => marker r = d) (cur :: rs) ->
  len < 4 * Z.of_nat (length pre + length (frame1 cur) + length (concat (map frame1 rs))) + 4 ->
  (Z.to_nat (len - 4 * Z.of_nat (length pre)) < fuel)%nat ->
  w_walk fuel (pre ++ frame1 cur ++ concat (map frame1 rs) ++ m :: tail) len (4 * Z.of_nat (length pre)) d d lays = WErr.
Proof.
  induction rs as [|r1 rs IH]; intros pre cur lays fuel Hd Hlen Hf; (destruct fuel as [|f]; [lia|]);
    pose proof (Forall_inv Hd) as Hc; cbn beta in Hc; cbn [w_walk]; rewrite Z.eqb_refl;
    assert (Eoff : 4 * Z.of_nat (length pre) + d + 8 = 4 * Z.of_nat (length (pre ++ frame1 cur)))
      by (rewrite app_length, frame1_length; unfold marker in Hc; lia);
    unfold rf_next; rewrite Eoff; rewrite app_length.
  - cbn [map concat length] in Hlen.
    destruct (4 * Z.of_nat (length pre + length (frame1 cur)) <? len) eqn:H1; [|reflexivity].
    replace (4 * Z.of_nat (length pre + length (frame1 cur)) + 4 <=? len) with false by lia. reflexivity.
  - pose proof (Forall_inv_tail Hd) as Hd'.
    destruct (4 * Z.of_nat (length pre + length (frame1 cur)) <? len) eqn:H1; [|reflexivity].
    destruct (4 * Z.of_nat (length pre + length (frame1 cur)) + 4 <=? len) eqn:H2; [|reflexivity].
    rewrite four_div_o.
    assert (Ews : pre ++ frame1 cur ++ concat (map frame1 (r1 :: rs)) ++ m :: tail
                  = (pre ++ frame1 cur) ++ frame1 r1 ++ concat (map frame1 rs) ++ m :: tail)
      by (cbn [map concat]; rewrite <- !app_assoc; reflexivity).
    rewrite Ews.
    assert (G : getw ((pre ++ frame1 cur) ++ frame1 r1 ++ concat (map frame1 rs) ++ m :: tail)
                     (Z.of_nat (length pre + length (frame1 cur))) = d).
    { rewrite getw_app_r by (rewrite app_length; lia). rewrite app_length, Z.sub_diag.
      unfold frame1 at 1. cbn [app]. rewrite getw_0. apply (Forall_inv Hd'). }
    rewrite G. rewrite <- app_length.
    apply (IH (pre ++ frame1 cur) r1 (lays + 1) f Hd').
    + cbn [map concat] in Hlen. rewrite !app_length in *. lia.
    + rewrite app_length, frame1_length. lia.
Qed.

Lemma getw_firstn_any ws N i : (1 <= N)%nat -> i < Z.of_nat N -> getw (firstn N ws) i = getw ws i.
Proof.
  intros HN Hi. destruct (i <? 0) eqn:Hneg.
  - unfold getw. replace (Z.to_nat i) with 0%nat by lia. destruct N as [|N]; [lia|]. destruct ws; reflexivity.
  - apply getw_firstn; lia.
Qed.

Lemma rf_next_local ws len start sz : 4 <= len ->
  rf_next (firstn (Z.to_nat ((len + 3) / 4)) ws) len start sz = rf_next ws len start sz.
Proof.
  intros Hl. unfold rf_next. destruct (start + sz + 8 <? len); [|reflexivity].
  destruct (start + sz + 8 + 4 <=? len) eqn:H2; [|reflexivity].
  assert (1 <= (len + 3) / 4) by (apply Z.div_le_lower_bound; lia).
  rewrite getw_firstn_any; [reflexivity|lia|].
  rewrite Z2Nat.id by lia.
  assert ((start + sz + 8) / 4 <= (len - 4) / 4) by (apply Z.div_le_mono; lia).
  assert ((len - 4) / 4 < (len + 3) / 4).
  { replace (len + 3) with (len - 4 + 3 + 1 * 4) by lia. rewrite Z.div_add by lia.
    assert ((len - 4) / 4 <= (len - 4 + 3) / 4) by (apply Z.div_le_mono; lia). lia. }
  lia.
Qed.

Lemma w_walk_local ws len d : 4 <= len -> forall fuel start sz lays,
  w_walk fuel (firstn (Z.to_nat ((len + 3) / 4)) ws) len start sz d lays = w_walk fuel ws len start sz d lays.
Proof.
  intros Hl. induction fuel as [|f IH]; intros start sz lays; [reflexivity|].
  cbn [w_walk]. destruct (sz =? d); [|reflexivity]. rewrite rf_next_local by exact Hl.
  destruct (rf_next ws len start sz) as [[[s' sz']|]|]; try reflexivity. apply IH.
Qed.

Lemma w_cut_in_first_step c s0 rest len : w_wf c = true -> w_steps c = s0 :: rest -> 2 <= w_nx c * w_ny c ->
  0 <= len < w_body_bytes c + 4 ->
  w_mm_read (w_ny c) (w_nx c) (firstn (Z.to_nat ((len + 3) / 4)) (w_enc c)) len = WErr.
Proof.
  intros W Es Hrc Hl. rewrite w_mm_read_unfold.
  destruct (len <? 12) eqn:H12; [reflexivity|].
  destruct (sizes_facts c W) as (h & Hh & Hrc0 & Hz & EH & ED & EB & ES).
  assert (Ok0' : wstep_ok c s0).
  { pose proof (proj2 (proj2 (proj2 (w_wf_parts c W)))) as F. rewrite Es in F. apply (Forall_inv F). }
  destruct (hdr_words c s0) as (LT & GT0 & _). rewrite EH, four_div_o in LT.
  destruct (data_rows c W s0 Ok0') as (_ & LD & _ & _).
  destruct (uv_recs_facts c s0 Ok0') as (LR & FR & _ & _).
  destruct (uv_recs (ws_uv s0)) as [|r1 rs] eqn:Er; [cbn [length] in LR; lia|].
  assert (EDATA : w_DATA s0 = frame1 r1 ++ concat (map frame1 rs)) by (unfold w_DATA; rewrite Er; reflexivity).
  assert (Eenc : w_enc c = w_T c s0 ++ frame1 r1 ++ concat (map frame1 rs) ++ 4 :: ([w_dummy c; 4] ++ concat (map (w_step_words c) rest))).
  { rewrite w_enc_steps, Es. cbn [map concat]. unfold w_step_words at 1. rewrite EDATA, <- !app_assoc. reflexivity. }
  assert (3 <= (len + 3) / 4) by (apply Z.div_le_lower_bound; lia).
  rewrite getw_firstn by lia.
  assert (G0 : getw (w_enc c) 0 = w_hdr_bytes c - 8) by (rewrite Eenc, getw_app_l by lia; exact GT0).
  rewrite G0.
  replace (negb ((w_hdr_bytes c - 8 =? 12) || (w_hdr_bytes c - 8 =? 8))) with false by lia.
  rewrite rf_next_local by lia.
  unfold rf_next at 1.
  replace (0 + (w_hdr_bytes c - 8) + 8) with (4 * Z.of_nat (length (w_T c s0))) by lia.
  destruct (4 * Z.of_nat (length (w_T c s0)) <? len) eqn:H1.
  2:{ cbn [fst snd]. rewrite w_walk_local by lia. rewrite w_walk_eof by lia. reflexivity. }
  destruct (4 * Z.of_nat (length (w_T c s0)) + 4 <=? len) eqn:H2; [|reflexivity].
  rewrite w_walk_local by lia.
  assert (Mk : Forall (fun r => marker r = 4 * (w_nx c * w_ny c)) (r1 :: rs)).
  { eapply Forall_impl; [|exact FR]. intros r Hr. unfold marker. cbn beta in Hr. lia. }
  assert (G1 : getw (w_enc c) (4 * Z.of_nat (length (w_T c s0)) / 4) = 4 * (w_nx c * w_ny c)).
  { rewrite four_div_o, Eenc. rewrite getw_app_r by lia. rewrite Z.sub_diag. unfold frame1 at 1. cbn [app]. rewrite getw_0.
    apply (Forall_inv Mk). }
  rewrite G1. cbn [fst snd]. rewrite Eenc.
  rewrite (w_walk_frames_cut (4 * (w_nx c * w_ny c)) 4 _ len rs (w_T c s0) r1 1 _ Mk); [reflexivity| |].
  - assert (LDr : Z.of_nat (length (frame1 r1) + length (concat (map frame1 rs))) = (w_nx c * w_ny c + 2) * 2 * w_nz c).
    { rewrite <- app_length, <- EDATA. exact LD. }
    rewrite EB in Hl. lia.
  - lia.
Qed.

(* EVERY cut of EVERY well-formed file on a grid of two or more cells (reader called with the prefix) *)
Lemma w_mm_read_every_cut c len : w_wf c = true -> w_steps c <> [] -> 2 <= w_nx c * w_ny c ->
  0 <= len <= 4 * Z.of_nat (length (w_enc c)) ->
  w_mm_read (w_ny c) (w_nx c) (firstn (Z.to_nat ((len + 3) / 4)) (w_enc c)) len =
  if (len mod 4 =? 0) && (w_step_bytes c <=? len)
  then WOk (w_view_of (w_truncate_steps (Z.to_nat (len / w_step_bytes c)) c)) else WErr.
Proof.
  intros W Hne Hrc Hl. destruct (w_steps c) as [|s0 rest] eqn:Es; [congruence|].
  destruct (sizes_facts c W) as (h & Hh & Hrc0 & Hz & EH & ED & EB & ES).
  destruct (len <? w_body_bytes c + 4) eqn:Hc.
  - rewrite (w_cut_in_first_step c s0 rest len W Es Hrc) by lia.
    replace (w_step_bytes c <=? len) with false by (rewrite ES, EB in *; lia). rewrite andb_false_r. reflexivity.
  - rewrite (w_head c s0 rest len W Es Hrc) by lia. apply (w_post_eval c s0 rest len W Es Hrc). lia.
Qed.

(* whole files, any number of steps *)
Lemma w_mm_read_enc c : w_wf c = true -> w_steps c <> [] -> 2 <= w_nx c * w_ny c ->
  w_mm_read (w_ny c) (w_nx c) (w_enc c) (4 * Z.of_nat (length (w_enc c))) = WOk (w_view_of c).
Proof.
  intros W Hne Hrc.
  destruct (sizes_facts c W) as (h & Hh & Hrc0 & Hz & EH & ED & EB & ES).
  pose proof (w_enc_length c W) as EL.
  assert (Hn : 1 <= Z.of_nat (length (w_steps c))) by (destruct (w_steps c); [congruence|cbn [length]; lia]).
  assert (Hb : 0 < w_step_bytes c) by (rewrite ES; nia).
  pose proof (w_mm_read_every_cut c (4 * Z.of_nat (length (w_enc c))) W Hne Hrc ltac:(lia)) as R.
  replace (Z.to_nat ((4 * Z.of_nat (length (w_enc c)) + 3) / 4)) with (length (w_enc c)) in R.
  2:{ replace (4 * Z.of_nat (length (w_enc c)) + 3) with (3 + Z.of_nat (length (w_enc c)) * 4) by lia.
      rewrite Z.div_add by lia. change (3 / 4) with 0. lia. }
  rewrite firstn_all in R. rewrite R. clear R.
  replace ((4 * Z.of_nat (length (w_enc c))) mod 4) with 0 by (rewrite Z.mul_comm, Z.mod_mul; lia).
  rewrite EL. replace (w_step_bytes c <=? Z.of_nat (length (w_steps c)) * w_step_bytes c) with true by nia.
  cbn [Z.eqb andb]. rewrite Z.div_mul by lia. rewrite Nat2Z.id.
  unfold w_truncate_steps. rewrite firstn_all. destruct c; reflexivity.
Qed.

(* the repaired loop cannot diverge unless a corrupt size word moves the walk backwards *)
Lemma w_walk_no_hang ws len d : 0 < d + 8 -> forall fuel start lays, (Z.to_nat (len - start) < fuel)%nat ->
  w_walk fuel ws len start d d lays <> WHang.
Proof.
  intros Hd. induction fuel as [|f IH]; intros start lays Hf; [lia|].
  cbn [w_walk]. rewrite Z.eqb_refl. unfold rf_next.
  destruct (start + d + 8 <? len) eqn:H1; [|discriminate].
  destruct (start + d + 8 + 4 <=? len); [|discriminate].
  destruct (getw ws ((start + d + 8) / 4) =? d) eqn:E.
  - apply Z.eqb_eq in E. rewrite E. apply IH. lia.
  - destruct f; cbn [w_walk]; [|rewrite E; discriminate].
    (* no fuel left but the walk would stop here anyway *)
    exfalso. lia.
Qed.

(* ======================================================================================
   The record reader (wind/Read.py): translated seek arithmetic against the specification layout
   ====================================================================================== *)
(* byte offset of the U (duv = 1) / V (duv = 2) record of layer k (1-based) of step t (0-based) *)
Definition w_spec_record_offset (hdr data nz t k duv : Z) : Z :=
  t * (hdr + 2 * nz * data + 12) + hdr + (k - 1) * 2 * data + (if duv =? 2 then data else 0).

Lemma wr_recordposition_spec (self : wr_self) t k duv d tm : 0 < wr_nlayers self -> duv = 1 \/ duv = 2 ->
  wr_data_start_byte self = 0 ->
  Z.quot (tt_timediff (wr_start_date self, wr_start_time self) (d, tm) 2400) (wr_time_step self) = t ->
  wr_recordposition self d tm k duv
  = w_spec_record_offset (wr_padded_time_hdr_size self) (wr_padded_size self) (wr_nlayers self) t k duv.
Proof.
  intros Hn Hd E0 Eq. unfold wr_recordposition, wr_timerecords, wr_layerrecords, w_spec_record_offset.
  rewrite Eq, E0. replace (wr_nlayers self + 1 - 1) with (wr_nlayers self) by lia.
  rewrite Z.quot_mul by lia.
  destruct Hd as [-> | ->]; cbn [Z.eqb Pos.eqb negb]; lia.
Qed.

Lemma uv_recs_app a b : uv_recs (a ++ b) = uv_recs a ++ uv_recs b.
Proof. unfold uv_recs. rewrite map_app, concat_app. reflexivity. Qed.

(* both wind readers present the same cells: the record at the TRANSLATED position of (step, layer, u/v) holds the U resp. V
   cells of that layer, which the Memmap model presents as U[t][k] / V[t][k] (w_mm_read_enc) *)
Lemma w_readers_agree c (self : wr_self) S1 s S2 P1 u v P2 d tm duv : w_wf c = true ->
  w_steps c = S1 ++ s :: S2 -> ws_uv s = P1 ++ (u, v) :: P2 ->
  wr_nlayers self = w_nz c -> wr_data_start_byte self = 0 ->
  wr_padded_time_hdr_size self = w_hdr_bytes c -> wr_padded_size self = w_data_bytes c ->
  Z.quot (tt_timediff (wr_start_date self, wr_start_time self) (d, tm) 2400) (wr_time_step self)
    = Z.of_nat (length S1) ->
  duv = 1 \/ duv = 2 ->
  w_cells_at (w_enc c) (wr_recordposition self d tm (Z.of_nat (length P1) + 1) duv) (w_nx c * w_ny c)
  = if duv =? 1 then u else v.
Proof.
  intros W Es Ep En E0 EHd EDt Eq Hd.
  destruct (sizes_facts c W) as (h & Hh & Hrc0 & Hz & EH & ED & EB & ES).
  rewrite (wr_recordposition_spec self _ _ duv d tm ltac:(lia) Hd E0 Eq), En, EHd, EDt.
  pose proof (proj2 (proj2 (proj2 (w_wf_parts c W)))) as Fok. rewrite Es in Fok.
  assert (Oks : wstep_ok c s) by (apply Forall_app in Fok as [_ F]; apply (Forall_inv F)).
  destruct (hdr_words c s) as (LT & _). rewrite EH, four_div_o in LT.
  destruct (uv_recs_facts c s Oks) as (_ & FR & _ & _).
  set (Wd := Z.to_nat (w_step_bytes c / 4)).
  assert (EWd : Z.of_nat Wd = h + 2 * w_nz c * (w_nx c * w_ny c + 2) + 3) by (unfold Wd; rewrite ES, four_div_o; lia).
  assert (Esk : skipn (length S1 * Wd) (w_enc c) = w_step_words c s ++ concat (map (w_step_words c) S2)).
  { rewrite w_enc_steps. rewrite (skipn_concat_uniform_gen _ _ _ (w_steps_uniform c W)).
    rewrite Es, map_app. rewrite <- (map_length (w_step_words c) S1) at 1. rewrite skipn_app_exact. reflexivity. }
  (* the records of the step before the requested one *)
  rewrite Ep, uv_recs_app in FR. apply Forall_app in FR as [FR1 FR2].
  assert (LP1 : Z.of_nat (length (concat (map frame1 (uv_recs P1)))) = Z.of_nat (length P1) * 2 * (w_nx c * w_ny c + 2)).
  { rewrite (concat_length_uniform (Z.to_nat (w_nx c * w_ny c + 2))).
    - rewrite map_length. unfold uv_recs. rewrite (concat_length_uniform 2); [rewrite map_length; nia|].
      apply Forall_forall. intros x Hx. apply in_map_iff in Hx as (p & <- & _). reflexivity.
    - apply Forall_forall. intros b Hb. apply in_map_iff in Hb as (r & <- & Hr). rewrite Forall_forall in FR1.
      specialize (FR1 r Hr). rewrite frame1_length. cbn beta in FR1. lia. }
  pose proof (Forall_inv FR2) as Lu. pose proof (Forall_inv (Forall_inv_tail FR2)) as Lv. cbn beta in Lu, Lv. cbn [fst snd] in Lu, Lv.
  unfold w_cells_at, w_spec_record_offset. rewrite EH, ED.
  set (off := if duv =? 2 then 4 * (w_nx c * w_ny c + 2) else 0).
  assert (Eoffw : (Z.of_nat (length S1) * (4 * h + 2 * w_nz c * (4 * (w_nx c * w_ny c + 2)) + 12) + 4 * h
                   + (Z.of_nat (length P1) + 1 - 1) * 2 * (4 * (w_nx c * w_ny c + 2)) + off) / 4 + 1
                  = Z.of_nat (length S1 * Wd) + (h + Z.of_nat (length P1) * 2 * (w_nx c * w_ny c + 2) + off / 4 + 1)).
  { unfold off. destruct (duv =? 2).
    - rewrite four_div_o.
      replace (Z.of_nat (length S1) * (4 * h + 2 * w_nz c * (4 * (w_nx c * w_ny c + 2)) + 12) + 4 * h
               + (Z.of_nat (length P1) + 1 - 1) * 2 * (4 * (w_nx c * w_ny c + 2)) + 4 * (w_nx c * w_ny c + 2))
        with (4 * (Z.of_nat (length S1 * Wd) + h + Z.of_nat (length P1) * 2 * (w_nx c * w_ny c + 2) + (w_nx c * w_ny c + 2))) by nia.
      rewrite four_div_o. lia.
    - change (0 / 4) with 0.
      replace (Z.of_nat (length S1) * (4 * h + 2 * w_nz c * (4 * (w_nx c * w_ny c + 2)) + 12) + 4 * h
               + (Z.of_nat (length P1) + 1 - 1) * 2 * (4 * (w_nx c * w_ny c + 2)) + 0)
        with (4 * (Z.of_nat (length S1 * Wd) + h + Z.of_nat (length P1) * 2 * (w_nx c * w_ny c + 2))) by nia.
      rewrite four_div_o. lia. }
  rewrite Eoffw.
  replace (Z.to_nat (Z.of_nat (length S1 * Wd) + (h + Z.of_nat (length P1) * 2 * (w_nx c * w_ny c + 2) + off / 4 + 1)))
    with (Z.to_nat (off / 4 + 1) + (length (w_T c s ++ concat (map frame1 (uv_recs P1))) + length S1 * Wd))%nat.
  2:{ rewrite app_length. assert (0 <= off / 4) by (unfold off; destruct (duv =? 2); [rewrite four_div_o; lia|cbn; lia]). lia. }
  rewrite skipn_plus_w, skipn_plus_w, Esk.
  unfold w_step_words at 1. unfold w_DATA at 1. rewrite Ep, uv_recs_app, map_app, concat_app.
  replace ((w_T c s ++ (concat (map frame1 (uv_recs P1)) ++ concat (map frame1 (uv_recs ((u, v) :: P2)))) ++ [4; w_dummy c; 4])
           ++ concat (map (w_step_words c) S2))
    with ((w_T c s ++ concat (map frame1 (uv_recs P1))) ++ concat (map frame1 (uv_recs ((u, v) :: P2))) ++ [4; w_dummy c; 4]
          ++ concat (map (w_step_words c) S2)) by (rewrite <- !app_assoc; reflexivity).
  rewrite skipn_app_exact.
  unfold uv_recs at 1. cbn [map concat app fst snd]. fold (uv_recs P2).
  unfold off. destruct Hd as [-> | ->]; cbn [Z.eqb Pos.eqb].
  - change (Z.to_nat (0 / 4 + 1)) with 1%nat. unfold frame1 at 1. cbn [app skipn].
    rewrite <- !app_assoc. apply firstn_app_len. lia.
  - rewrite four_div_o.
    replace (Z.to_nat (w_nx c * w_ny c + 2 + 1)) with (1 + length (frame1 u))%nat by (rewrite frame1_length; lia).
    rewrite <- app_assoc. rewrite skipn_add_app_o. unfold frame1 at 1. cbn [app skipn].
    rewrite <- !app_assoc. apply firstn_app_len. lia.
Qed.

(* the repaired reader model never diverges on a file whose second record has a size word above -8: in particular on no
   prefix of a well-formed file (WHang is left only for corrupt size words that move the record walk backwards) *)
Lemma w_mm_read_hang_corrupt rows cols ws len : w_mm_read rows cols ws len = WHang ->
  snd (match rf_next ws len 0 (getw ws 0) with Some (Some x) => x | _ => (0, getw ws 0) end) + 8 <= 0.
Proof.
  rewrite w_mm_read_unfold. destruct (len <? 12) eqn:H12; [discriminate|].
  destruct (negb ((getw ws 0 =? 12) || (getw ws 0 =? 8))) eqn:Hm; [discriminate|].
  destruct (rf_next ws len 0 (getw ws 0)) as [st1|] eqn:Er; [|discriminate].
  set (st := match st1 with Some x => x | None => (0, getw ws 0) end).
  assert (Est : (match st1 with Some x => x | None => (0, getw ws 0) end) = st) by reflexivity.
  assert (Hs : 0 <= fst st).
  { unfold st. destruct st1 as [[s1 d]|]; cbn [fst]; [|lia]. unfold rf_next in Er.
    destruct (0 + getw ws 0 + 8 <? len); [|discriminate]. destruct (0 + getw ws 0 + 8 + 4 <=? len); [|discriminate].
    injection Er as <- _. lia. }
  replace (match st1 with Some x => x | None => (0, getw ws 0) end) with st by reflexivity.
  destruct (0 <? snd st + 8) eqn:Hd; [|lia].
  pose proof (w_walk_no_hang ws len (snd st) ltac:(lia) (S (Z.to_nat len)) (fst st) 1 ltac:(lia)) as NH.
  destruct (w_walk (S (Z.to_nat len)) ws len (fst st) (snd st) (snd st) 1) as [[l2 sd]| |]; try discriminate.
  - unfold w_post. repeat (match goal with |- context [if ?b then _ else _] => destruct b end; try discriminate).
  - congruence.
Qed.
