(* C04, whole files: stacking the pieces of a split file gives the file back (Model/Stack.v). *)
From PNC Require Import Base.Util Base.ArrFlat Model.Slice Model.Stack
                        Proofs.ArrFlatProofs Proofs.SliceProofs Proofs.StackProofs.
From Coq Require Import Arith.
Set Default Timeout 30.

Section P.
Context {A : Type}.

Definition setk (dims : list nat) (k x : nat) : list nat :=
  map (fun jn => if Nat.eqb (fst jn) k then x else snd jn) (combine (seq 0 (length dims)) dims).

Lemma nth_map_lt {B C} (g : B -> C) l j d d' : j < length l -> nth j (map g l) d' = g (nth j l d).
Proof.
  revert j; induction l as [|x l IH]; intros [|j] H; simpl in *; try lia; [reflexivity|].
  apply IH. lia.
Qed.

Lemma setk_length dims k x : length (setk dims k x) = length dims.
Proof. unfold setk. now rewrite map_length, combine_length, seq_length, Nat.min_id. Qed.

Lemma setk_nth dims k x j : j < length dims ->
  nth j (setk dims k x) 0 = if Nat.eqb j k then x else nth j dims 0.
Proof.
  intros H. unfold setk. rewrite nth_map_lt with (d := (0, 0)).
  - rewrite combine_nth by apply seq_length. rewrite seq_nth by exact H. reflexivity.
  - now rewrite combine_length, seq_length, Nat.min_id.
Qed.

Lemma extents_snd lens : forall s, map snd (extents s lens) = lens.
Proof. induction lens as [|l t IH]; intros s; simpl; [reflexivity|]. now rewrite IH. Qed.

Lemma index_of_spec k : forall l ax, index_of k l = Some ax ->
  ax < length l /\ nth ax l 0 = k /\ ~ In k (firstn ax l).
Proof.
  induction l as [|x l IH]; intros ax H; simpl in H; [discriminate|].
  destruct (Nat.eqb x k) eqn:E.
  - injection H as <-. apply Nat.eqb_eq in E. simpl. repeat split; [lia|exact E|tauto].
  - destruct (index_of k l) as [a|] eqn:I; [|discriminate]. injection H as <-.
    destruct (IH a eq_refl) as [H1 [H2 H3]]. apply Nat.eqb_neq in E. simpl.
    repeat split; [lia|exact H2|]. intros [F|F]; [congruence|tauto].
Qed.

Lemma dimlens_agree dims k x l :
  (forall j, In j l -> j < length dims /\ j <> k) ->
  dimlens (setk dims k x) l = dimlens dims l.
Proof.
  intros H. unfold dimlens. apply map_ext_in. intros j Hj. destruct (H j Hj) as [H1 H2].
  rewrite setk_nth by exact H1. apply Nat.eqb_neq in H2. now rewrite H2.
Qed.

Lemma firstn_dimlens dims ax l : firstn ax (dimlens dims l) = dimlens dims (firstn ax l).
Proof. unfold dimlens. apply firstn_map. Qed.
Lemma skipn_dimlens dims ax l : skipn ax (dimlens dims l) = dimlens dims (skipn ax l).
Proof. unfold dimlens. apply skipn_map. Qed.

(* the pieces agree with the original on everything around the split axis *)
Lemma around_axis dims k x vd ax :
  index_of k vd = Some ax -> NoDup vd -> (forall j, In j vd -> j < length dims) ->
  firstn ax (dimlens (setk dims k x) vd) = firstn ax (dimlens dims vd) /\
  skipn (S ax) (dimlens (setk dims k x) vd) = skipn (S ax) (dimlens dims vd) /\
  dimlens dims vd = firstn ax (dimlens dims vd) ++ nth k dims 0 :: skipn (S ax) (dimlens dims vd).
Proof.
  intros I Hnd Hlt. destruct (index_of_spec k vd ax I) as [H1 [H2 H3]].
  assert (Hsplit : vd = firstn ax vd ++ k :: skipn (S ax) vd).
  { rewrite <- H2. clear -H1. revert ax H1. induction vd as [|y vd IH]; intros [|ax] H; simpl in *; try lia.
    - reflexivity.
    - f_equal. apply IH. lia. }
  assert (Hafter : ~ In k (skipn (S ax) vd)).
  { rewrite Hsplit in Hnd. apply NoDup_remove_2 in Hnd. intros F. apply Hnd. apply in_or_app. now right. }
  repeat split.
  - rewrite !firstn_dimlens. apply dimlens_agree. intros j Hj. split.
    + apply Hlt. rewrite Hsplit. apply in_or_app. now left.
    + intros ->. contradiction.
  - rewrite !skipn_dimlens. apply dimlens_agree. intros j Hj. split.
    + apply Hlt. rewrite Hsplit. apply in_or_app. right. now right.
    + intros ->. contradiction.
  - rewrite firstn_dimlens, skipn_dimlens. rewrite Hsplit at 1. unfold dimlens.
    rewrite map_app. reflexivity.
Qed.

Definition stack_vars (fs : list (file A)) (f0 : file A) (k : nat) : list (var A) :=
  map (fun iv =>
        let i := fst iv in let v := snd iv in
        match index_of k (v_dims v) with
        | None => v
        | Some ax =>
          let sh := dimlens (f_dims f0) (v_dims v) in
          Var (v_dims v)
              (concat_at (prodn (firstn ax sh)) (prodn (skipn (S ax) sh))
                 (map (fun f => (nth k (f_dims f) 0,
                                 v_data (nth i (f_vars f) (Var [] [])))) fs))
        end) (combine (seq 0 (length (f_vars f0))) (f_vars f0)).

(* impl_stack on a compatible family: the three checks pass *)
Lemma impl_stack_ok f0 rest k :
  k < length (f_dims f0) ->
  (forall f, In f (f0 :: rest) -> length (f_dims f) = length (f_dims f0)) ->
  (forall j f, j < length (f_dims f0) -> j <> k -> In f (f0 :: rest) ->
               nth j (f_dims f) 0 = nth j (f_dims f0) 0) ->
  impl_stack (f0 :: rest) k
  = Some (filter (fun p => negb (Nat.eqb (fst p) k)) (combine (seq 0 (length (f_dims f0))) (f_dims f0))
          ++ [(k, sumn (map (fun f => nth k (f_dims f) 0) (f0 :: rest)))],
          stack_vars (f0 :: rest) f0 k).
Proof.
  intros Hk Hlen Hdim. unfold impl_stack.
  replace (k <? length (f_dims f0)) with true by (symmetry; apply Nat.ltb_lt; exact Hk).
  cbn [negb].
  replace (forallb (fun f => length (f_dims f) =? length (f_dims f0)) (f0 :: rest)) with true.
  2:{ symmetry. apply forallb_forall. intros f Hf. apply Nat.eqb_eq. apply Hlen. exact Hf. }
  cbn [negb].
  match goal with |- (if negb (forallb ?p ?l) then _ else _) = _ =>
    replace (forallb p l) with true end.
  2:{ symmetry. apply forallb_forall. intros j Hj. apply in_seq in Hj.
      destruct (Nat.eqb j k) eqn:E; [reflexivity|]. cbn [orb]. apply forallb_forall. intros f Hf.
      apply Nat.eqb_eq. apply Hdim; [lia|apply Nat.eqb_neq; exact E|exact Hf]. }
  reflexivity.
Qed.

Lemma filter_setk k x : forall (dims : list nat) s,
  filter (fun p : nat * nat => negb (Nat.eqb (fst p) k))
    (combine (seq s (length dims))
       (map (fun jn : nat * nat => if Nat.eqb (fst jn) k then x else snd jn)
            (combine (seq s (length dims)) dims)))
  = filter (fun p : nat * nat => negb (Nat.eqb (fst p) k)) (combine (seq s (length dims)) dims).
Proof.
  induction dims as [|d dims IH]; intros s; simpl; [reflexivity|].
  destruct (Nat.eqb s k) eqn:E; simpl; rewrite IH; reflexivity.
Qed.

Lemma map_combine_seq (F : nat -> var A -> var A) (g : var A -> var A) dv : forall l s,
  (forall i, i < length l -> F (s + i) (g (nth i l dv)) = nth i l dv) ->
  map (fun iv => F (fst iv) (snd iv)) (combine (seq s (length l)) (map g l)) = l.
Proof.
  induction l as [|x l IH]; intros s H; simpl; [reflexivity|]. f_equal.
  - specialize (H 0). simpl in H. rewrite Nat.add_0_r in H. apply H. lia.
  - apply IH. intros i Hi. specialize (H (S i)). simpl in H.
    rewrite Nat.add_succ_r in H. apply H. lia.
Qed.

Definition piece_var (dims : list nat) (k : nat) (e : nat * nat) (v : var A) : var A :=
  match index_of k (v_dims v) with
  | None => v
  | Some ax =>
    let sh := dimlens dims (v_dims v) in
    Var (v_dims v) (piece_at (prodn (firstn ax sh)) (prodn (skipn (S ax) sh))
                             (nth k dims 0) (fst e) (snd e) (v_data v))
  end.

Lemma piece_var_dims dims k e v : v_dims (piece_var dims k e v) = v_dims v.
Proof. unfold piece_var. destruct (index_of k (v_dims v)); reflexivity. Qed.

Lemma split_file_eq (f : file A) k lens :
  split_file f k lens
  = map (fun e => File (setk (f_dims f) k (snd e)) (map (piece_var (f_dims f) k e) (f_vars f)))
        (extents 0 lens).
Proof. reflexivity. Qed.

(* WHOLE FILE: stacking the pieces of a split file (any dimension, any partition with at least
   one piece) gives back every variable's cells and the dimension lengths; the stack dimension
   is listed last *)
Lemma stack_split_file (f : file A) k lens :
  wf_file f = true -> Forall (fun v => NoDup (v_dims v)) (f_vars f) ->
  k < length (f_dims f) -> lens <> [] -> sumn lens = nth k (f_dims f) 0 ->
  impl_stack (split_file f k lens) k
  = Some (filter (fun p => negb (Nat.eqb (fst p) k)) (combine (seq 0 (length (f_dims f))) (f_dims f))
          ++ [(k, nth k (f_dims f) 0)], f_vars f).
Proof.
  intros Hwf Hnd Hk Hne Hsum. destruct f as [dims vars]. cbn [f_dims f_vars] in *.
  rewrite split_file_eq. cbn [f_dims f_vars].
  destruct lens as [|l0 lens']; [contradiction|].
  set (G := fun e : nat * nat => File (setk dims k (snd e)) (map (piece_var dims k e) vars)).
  cbn [extents map]. fold (G (0, l0)).
  set (exts := extents (0 + l0) lens').
  assert (Hall : forall f, In f (G (0, l0) :: map G exts) -> exists e, f = G e).
  { intros f [<-|Hf]; [eauto|]. apply in_map_iff in Hf as [e [<- _]]. eauto. }
  rewrite impl_stack_ok.
  - cbn [f_dims G]. rewrite setk_length. f_equal. apply f_equal2; [apply f_equal2|].
    + unfold setk. apply filter_setk.
    + do 2 f_equal. rewrite <- Hsum.
      change (G (0, l0) :: map G exts) with (map G ((0, l0) :: exts)).
      rewrite map_map.
      rewrite map_ext_in with (g := snd).
      * change ((0, l0) :: exts) with (extents 0 (l0 :: lens')). now rewrite extents_snd.
      * intros e _. cbn [G f_dims]. rewrite setk_nth by exact Hk. now rewrite Nat.eqb_refl.
    + (* variables *)
      unfold stack_vars. cbn [f_vars f_dims G]. rewrite map_length.
      apply (map_combine_seq
               (fun i v => match index_of k (v_dims v) with
                           | None => v
                           | Some ax =>
                             Var (v_dims v)
                               (concat_at (prodn (firstn ax (dimlens (setk dims k l0) (v_dims v))))
                                          (prodn (skipn (S ax) (dimlens (setk dims k l0) (v_dims v))))
                                  (map (fun f => (nth k (f_dims f) 0, v_data (nth i (f_vars f) (Var [] []))))
                                       (G (0, l0) :: map G exts)))
                           end)
               (piece_var dims k (0, l0)) (Var [] []) vars 0).
      intros i Hi. cbn [Nat.add]. set (v := nth i vars (Var [] [])).
      assert (Hv : In v vars) by (apply nth_In; exact Hi).
      rewrite piece_var_dims.
      destruct (index_of k (v_dims v)) as [ax|] eqn:I.
      2:{ unfold piece_var. now rewrite I. }
      unfold wf_file in Hwf. cbn [f_vars f_dims] in Hwf. rewrite forallb_forall in Hwf.
      specialize (Hwf v Hv). apply andb_true_iff in Hwf as [Hd Hlen].
      rewrite forallb_forall in Hd. apply Nat.eqb_eq in Hlen.
      rewrite Forall_forall in Hnd. specialize (Hnd v Hv).
      destruct (around_axis dims k l0 (v_dims v) ax I Hnd) as [E1 [E2 E3]].
      { intros j Hj. apply Nat.ltb_lt. apply Hd. exact Hj. }
      rewrite E1, E2.
      set (outer := prodn (firstn ax (dimlens dims (v_dims v)))).
      set (inner := prodn (skipn (S ax) (dimlens dims (v_dims v)))).
      assert (Hparts : map (fun f => (nth k (f_dims f) 0, v_data (nth i (f_vars f) (Var [] []))))
                           (G (0, l0) :: map G exts)
                       = split_at outer inner (nth k dims 0) (l0 :: lens') (v_data v)).
      { change (G (0, l0) :: map G exts) with (map G ((0, l0) :: exts)). rewrite map_map.
        unfold split_at. change (extents 0 (l0 :: lens')) with ((0, l0) :: exts).
        apply map_ext. intros e. cbn [G f_dims f_vars]. rewrite setk_nth by exact Hk.
        rewrite Nat.eqb_refl. f_equal.
        rewrite nth_map_lt with (d := Var [] []) by exact Hi. fold v.
        unfold piece_var. rewrite I. reflexivity. }
      rewrite Hparts. rewrite stack_split.
      * destruct v as [vd dat]. reflexivity.
      * rewrite Hlen. fold (dimlens dims (v_dims v)). rewrite E3 at 1.
        rewrite prodn_app. reflexivity.
      * exact Hsum.
  - cbn [G f_dims]. rewrite setk_length. exact Hk.
  - intros f Hf. destruct (Hall f Hf) as [e ->]. cbn [G f_dims]. now rewrite !setk_length.
  - intros j f Hj Hjk Hf. destruct (Hall f Hf) as [e ->]. cbn [G f_dims] in *.
    rewrite setk_length in Hj. rewrite !setk_nth by exact Hj.
    apply Nat.eqb_neq in Hjk. now rewrite Hjk.
Qed.

End P.
