(* Lemmas for C11 (Model/IoapiGeo.v). *)
From PNC Require Import Base.Util Base.Calendar Model.IoapiGeo.
Local Open Scope Z_scope.
Ltac Zify.zify_post_hook ::= Z.to_euclidean_division_equations.

Lemma sel_range_bounds : forall n s st cnt, 0 <= n -> sel_range n s = Some (st, cnt) ->
  0 <= st /\ 0 <= cnt /\ st + cnt <= n.
Proof.
  intros n s st cnt Hn H. destruct s as [i|a b]; unfold sel_range in H.
  - destruct ((- n <=? i) && (i <? n)) eqn:E; [|discriminate].
    apply andb_true_iff in E as [E1 E2]. apply Z.leb_le in E1. apply Z.ltb_lt in E2.
    injection H as <- <-. destruct (i <? 0) eqn:E3; [apply Z.ltb_lt in E3|apply Z.ltb_ge in E3]; lia.
  - injection H as <- <-. unfold clamp_idx.
    destruct a as [a|], b as [b|];
      repeat match goal with |- context [if ?x <? ?y then _ else _] => destruct (Z.ltb_spec x y) end; lia.
Qed.

(* ints: non-negative i selects i, negative i selects n + i *)
Lemma sel_range_int : forall n i, - n <= i < n ->
  sel_range n (SInt i) = Some (if i <? 0 then n + i else i, 1).
Proof.
  intros n i H. unfold sel_range.
  assert (E : ((- n <=? i) && (i <? n)) = true)
    by (apply andb_true_iff; split; [apply Z.leb_le|apply Z.ltb_lt]; lia).
  rewrite E. destruct (i <? 0); f_equal; f_equal; lia.
Qed.

Lemma sel_range_cnt_nonneg : forall n s st cnt, sel_range n s = Some (st, cnt) -> 0 <= cnt.
Proof.
  intros n s st cnt H. destruct s as [i|a b]; unfold sel_range in H.
  - destruct ((- n <=? i) && (i <? n)); [|discriminate]. injection H as <- <-. lia.
  - injection H as <- <-. lia.
Qed.

Lemma origin_preserved : forall orig cell n s o', 0 <= n ->
  impl_slice_origin orig cell n (Some s) = Some o' ->
  exists st cnt, sel_range n s = Some (st, cnt) /\ 0 <= st /\ 0 < cnt /\ st + cnt <= n
                 /\ forall j, edge o' cell j = edge orig cell (st + j).
Proof.
  intros orig cell n s o' Hn H. unfold impl_slice_origin in H.
  destruct (sel_range n s) as [[st cnt]|] eqn:E; [|discriminate].
  destruct (cnt =? 0) eqn:C; [discriminate|]. apply Z.eqb_neq in C. injection H as <-.
  destruct (sel_range_bounds _ _ _ _ Hn E) as [B1 [B2 B3]].
  exists st, cnt. repeat split; try lia. intros j. unfold edge. lia.
Qed.

Lemma nth_skipn' : forall (k : nat) (l : list Z) j d, nth j (skipn k l) d = nth (k + j) l d.
Proof.
  induction k as [|k IH]; intros l j d; [reflexivity|].
  destruct l as [|x l]; simpl; [destruct j; reflexivity|apply IH].
Qed.
Lemma nth_firstn' : forall (m : nat) (l : list Z) j d, (j < m)%nat -> nth j (firstn m l) d = nth j l d.
Proof.
  induction m as [|m IH]; intros l j d H; [lia|].
  destruct l as [|x l]; [reflexivity|]. destruct j as [|j]; [reflexivity|]. simpl. apply IH. lia.
Qed.

Lemma vglvls_subrange : forall lv s lv',
  impl_slice_vglvls lv (Some s) = Some lv' ->
  exists st cnt, sel_range (Z.of_nat (length lv) - 1) s = Some (st, cnt) /\ 0 < cnt
    /\ (0 <= Z.of_nat (length lv) - 1 -> length lv' = Z.to_nat (cnt + 1))
    /\ forall j d, (j <= Z.to_nat cnt)%nat -> nth j lv' d = nth (Z.to_nat st + j) lv d.
Proof.
  intros lv s lv' H. unfold impl_slice_vglvls in H.
  destruct (sel_range (Z.of_nat (length lv) - 1) s) as [[st cnt]|] eqn:E; [|discriminate].
  destruct (cnt =? 0) eqn:C; [discriminate|]. apply Z.eqb_neq in C. injection H as <-.
  exists st, cnt. split; [reflexivity|].
  assert (Hc : 0 <= Z.of_nat (length lv) - 1 -> 0 < cnt /\ 0 <= st /\ st + cnt <= Z.of_nat (length lv) - 1).
  { intros Hn. destruct (sel_range_bounds _ _ _ _ Hn E) as [B1 [B2 B3]]. lia. }
  pose proof (sel_range_cnt_nonneg _ _ _ _ E) as NN.
  split; [lia|split].
  - intros Hn. destruct (Hc Hn) as [H1 [H2 H3]].
    rewrite firstn_length, skipn_length. lia.
  - intros j d Hj. rewrite nth_firstn' by lia. apply nth_skipn'.
Qed.

Lemma times_subrange : forall t0 tstep n sdate stime s d h ts,
  0 <= n ->
  impl_slice_time t0 tstep n sdate stime (Some s) = Some (d, h, ts) ->
  exists st cnt, sel_range n s = Some (st, cnt) /\ 0 <= st /\ 0 < cnt /\ st + cnt <= n
    /\ valid_hhmmss h = true
    /\ forall j, 0 <= j < cnt -> attr_time d h ts j = t0 + (st + j) * sec_of_hhmmss tstep.
Proof.
  intros t0 tstep n sdate stime s d h ts Hn H. unfold impl_slice_time in H.
  destruct (sel_range n s) as [[st cnt]|] eqn:E; [|discriminate].
  destruct (cnt =? 0) eqn:C; [discriminate|]. apply Z.eqb_neq in C.
  destruct (sel_range_bounds _ _ _ _ Hn E) as [B1 [B2 B3]].
  pose proof (sec_of_flag_of_sec (t0 + st * sec_of_hhmmss tstep)) as F.
  destruct (flag_of_sec (t0 + st * sec_of_hhmmss tstep)) as [d' h'].
  injection H as <- <- <-. destruct F as [F1 F2].
  exists st, cnt. repeat split; try lia; try exact F2.
  intros j Hj. unfold attr_time. rewrite F1.
  destruct (1 <? cnt) eqn:C1.
  - rewrite sec_of_hhmmss_of_sec. lia.
  - apply Z.ltb_ge in C1. assert (j = 0) by lia. subst j. lia.
Qed.

Lemma nth_map_iotaZ : forall (f : Z -> Z) m i j, (j < m)%nat ->
  nth j (map f (iotaZ i m)) 0 = f (i + Z.of_nat j).
Proof.
  induction m as [|m IH]; intros i j H; [lia|].
  destruct j as [|j]; simpl.
  - f_equal. lia.
  - rewrite IH by lia. f_equal. lia.
Qed.
Lemma length_iotaZ : forall m i, length (iotaZ i m) = m.
Proof. induction m as [|m IH]; intros i; simpl; [reflexivity|f_equal; apply IH]. Qed.

Lemma window_times_subrange : forall t0 tstep n s tms,
  impl_window_times t0 tstep n s = Some tms ->
  exists st cnt, win_range n s = Some (st, cnt) /\ length tms = Z.to_nat cnt
    /\ forall j, (j < Z.to_nat cnt)%nat -> nth j tms 0 = t0 + (st + Z.of_nat j) * sec_of_hhmmss tstep.
Proof.
  intros t0 tstep n s tms H. unfold impl_window_times in H.
  destruct (win_range n s) as [[st cnt]|]; [|discriminate]. injection H as <-.
  exists st, cnt. split; [reflexivity|]. split.
  - rewrite map_length. apply length_iotaZ.
  - intros j Hj. rewrite nth_map_iotaZ by exact Hj. reflexivity.
Qed.

Lemma combined_window : forall g w o,
  impl_window g w = Some o ->
  impl_slice_origin (g_xorig g) (g_xcell g) (g_nc g) (w_c w) = Some (o_xorig o)
  /\ impl_slice_origin (g_yorig g) (g_ycell g) (g_nr g) (w_r w) = Some (o_yorig o)
  /\ impl_slice_vglvls (g_lv g) (w_l w) = Some (o_lv o)
  /\ impl_slice_time (sec_of_flag (g_sdate g) (g_stime g)) (g_tstep g) (g_nt g) (g_sdate g) (g_stime g) (w_t w)
     = Some (o_sdate o, o_stime o, o_tstep o)
  /\ impl_window_times (sec_of_flag (g_sdate g) (g_stime g)) (g_tstep g) (g_nt g) (w_t w) = Some (o_times o).
Proof.
  intros g w o H. unfold impl_window in H.
  destruct (impl_slice_origin (g_xorig g) (g_xcell g) (g_nc g) (w_c w)) as [x|]; [|discriminate].
  destruct (impl_slice_origin (g_yorig g) (g_ycell g) (g_nr g) (w_r w)) as [y|]; [|discriminate].
  destruct (impl_slice_vglvls (g_lv g) (w_l w)) as [lv|]; [|discriminate].
  destruct (impl_slice_time _ _ _ _ _ (w_t w)) as [[[d h] ts]|]; [|discriminate].
  destruct (impl_window_times _ _ _ (w_t w)) as [tms|]; [|discriminate].
  injection H as <-. repeat split.
Qed.

