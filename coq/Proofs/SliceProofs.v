(* Lemmas for C02 (Model/Slice.v). *)
From PNC Require Import Base.Util Base.ArrFlat Model.Slice Proofs.ArrFlatProofs.
From Coq Require Import Arith.
Set Default Timeout 30.

Section P.
Context {A : Type}.
Implicit Types d : list A.

Lemma rsel_ok_lt n r i : rsel_ok n r = true -> In i (rindices r) -> i < n.
Proof.
  unfold rsel_ok. intros H Hi. rewrite forallb_forall in H. apply Nat.ltb_lt. auto.
Qed.

Lemma oslice_length sh : forall rs d,
  rs_ok sh rs = true -> length d = prodn sh ->
  length (oslice sh rs d) = prodn (spec_shape rs).
Proof.
  induction sh as [|n sh IH]; intros [|r rs] d Hok Hd; simpl in *; try discriminate; [exact Hd|].
  apply andb_true_iff in Hok as [Hr Hok].
  rewrite flat_map_length_const with (k := prodn (spec_shape rs)).
  - reflexivity.
  - intros i Hi. apply IH; [exact Hok|]. apply chunk_length.
    pose proof (rsel_ok_lt _ _ _ Hr Hi). rewrite Hd. nia.
Qed.

Lemma oslice_full sh : forall d, length d = prodn sh -> oslice sh (map full_sel sh) d = d.
Proof.
  induction sh as [|n sh IH]; intros d Hd; simpl in *; [reflexivity|].
  rewrite flat_map_ext_in with (g := fun i => chunk (prodn sh) i d).
  - apply chunks_all. exact Hd.
  - intros i Hi. apply in_seq in Hi. apply IH. apply chunk_length. rewrite Hd. nia.
Qed.

(* ---- broadcasting assignment ---- *)

Lemma compat_prod_le ssh : forall tsh,
  compat ssh tsh = true -> prodn tsh <> 0 -> prodn ssh <= prodn tsh.
Proof.
  induction ssh as [|s ssh IH]; intros [|t tsh] H Hn; simpl in *; try discriminate; [lia|].
  apply andb_true_iff in H as [H1 H2].
  assert (Hb : prodn tsh <> 0) by (intro Z; apply Hn; rewrite Z; lia).
  assert (Ht : t <> 0) by (intro Z; apply Hn; rewrite Z; lia).
  assert (prodn ssh <= prodn tsh) by (apply IH; [exact H2|exact Hb]).
  apply orb_true_iff in H1 as [H1|H1]; apply Nat.eqb_eq in H1; subst.
  - apply Nat.mul_le_mono_l. assumption.
  - rewrite Nat.mul_1_l. transitivity (1 * prodn tsh); [lia|]. apply Nat.mul_le_mono_r. lia.
Qed.

Lemma concat_repeat_nil t : concat (repeat (@nil A) t) = [].
Proof. induction t; simpl; auto. Qed.

Lemma bdata_nil ssh : forall tsh, bdata ssh tsh (@nil A) = [].
Proof.
  induction ssh as [|s ssh IH]; intros [|t tsh]; simpl; try reflexivity.
  destruct (s =? t).
  - induction (seq 0 s) as [|i l IHl]; simpl; [reflexivity|].
    unfold chunk at 1. rewrite skipn_nil, firstn_nil, IH. exact IHl.
  - rewrite IH. apply concat_repeat_nil.
Qed.

Lemma bdata_id ssh : forall tsh d,
  compat ssh tsh = true -> length d = prodn ssh -> prodn ssh = prodn tsh -> bdata ssh tsh d = d.
Proof.
  induction ssh as [|s ssh IH]; intros [|t tsh] d H Hd Hp; simpl in *; try discriminate; [reflexivity|].
  apply andb_true_iff in H as [H1 H2].
  destruct (s =? t) eqn:E.
  - apply Nat.eqb_eq in E; subst t.
    destruct s as [|s].
    + simpl in *. destruct d; [reflexivity|discriminate].
    + assert (Hq : prodn ssh = prodn tsh) by nia.
      rewrite flat_map_ext_in with (g := fun i => chunk (prodn ssh) i d).
      * apply chunks_all. exact Hd.
      * intros i Hi. apply in_seq in Hi. apply IH; [exact H2| |exact Hq].
        apply chunk_length. rewrite Hd. nia.
  - apply Nat.eqb_neq in E. apply orb_true_iff in H1 as [H1|H1]; [discriminate|apply Nat.eqb_eq in H1].
    subst s. destruct (Nat.eq_dec (length d) 0) as [Z|NZ].
    + destruct d; [|discriminate]. rewrite bdata_nil. apply concat_repeat_nil.
    + exfalso. assert (prodn tsh <> 0) by nia.
      pose proof (compat_prod_le _ _ H2 H). nia.
Qed.

Lemma prodn_nonint rs :
  prodn (map rcount (filter (fun r => negb (is_int r)) rs)) = prodn (spec_shape rs).
Proof.
  induction rs as [|r rs IH]; simpl; [reflexivity|].
  destruct r; simpl; rewrite IH; unfold rcount; simpl; lia.
Qed.

Lemma assign_same_cells tsh ssh d :
  length d = prodn ssh -> prodn ssh = prodn tsh -> assign tsh ssh d = Some d.
Proof.
  intros Hd Hp. unfold assign.
  destruct (Nat.leb (length ssh) (length tsh) && compat (pad_left (length tsh) ssh) tsh) eqn:E.
  - apply andb_true_iff in E as [_ E]. f_equal. apply bdata_id; [exact E| |];
      unfold pad_left; rewrite prodn_app, prodn_repeat1; lia.
  - replace (length d =? prodn tsh) with true; [reflexivity|]. symmetry. apply Nat.eqb_eq. lia.
Qed.

(* the code path of a non-fancy variable equals the orthogonal selection whenever numpy keeps
   the broadcast axis in place *)
Lemma slice_var_partial sh rs d :
  rs_ok sh rs = true -> length d = prodn sh -> dom_var rs = true ->
  impl_slice_var sh rs d (spec_shape rs) = Some (oslice sh rs d).
Proof.
  intros Hok Hd Hdom. unfold impl_slice_var, np_index, dom_var in *.
  apply negb_true_iff in Hdom. rewrite Hdom.
  apply assign_same_cells.
  - rewrite oslice_length by assumption. symmetry. apply prodn_nonint.
  - apply prodn_nonint.
Qed.

(* whatever numpy does with the axes, when the call succeeds the result has the target's size *)
Lemma spec_shape_length sh rs : rs_ok sh rs = true -> length (spec_shape rs) = length sh.
Proof.
  revert rs; induction sh as [|n sh IH]; intros [|r rs] H; simpl in *; try discriminate; [reflexivity|].
  apply andb_true_iff in H as [_ H]. f_equal. apply IH. exact H.
Qed.

(* ---- element-wise meaning of the orthogonal selection ---- *)

Lemma oslice_point sh : forall idx d x,
  rs_ok sh (map RInt idx) = true -> length d = prodn sh ->
  oslice sh (map RInt idx) d = [nth (ravel sh idx) d x] /\ ravel sh idx < prodn sh.
Proof.
  induction sh as [|n sh IH]; intros [|i idx] d x Hok Hd; simpl in *; try discriminate.
  - destruct d as [|y [|z d]]; try discriminate. split; [reflexivity|lia].
  - apply andb_true_iff in Hok as [Hr Hok].
    assert (Hi : i < n) by (apply (rsel_ok_lt n (RInt i)); [exact Hr|now left]).
    rewrite app_nil_r.
    destruct (IH idx (chunk (prodn sh) i d) x Hok) as [E L].
    { apply chunk_length. rewrite Hd. nia. }
    rewrite E. rewrite nth_chunk by exact L. split; [reflexivity|nia].
Qed.

Lemma flat_map_map {B C D} (f : C -> list D) (g : B -> C) l :
  flat_map f (map g l) = flat_map (fun x => f (g x)) l.
Proof. induction l; simpl; congruence. Qed.

Lemma flat_map_flat_map {B C D} (f : C -> list D) (g : B -> list C) l :
  flat_map f (flat_map g l) = flat_map (fun x => flat_map f (g x)) l.
Proof. induction l; simpl; [reflexivity|]. rewrite flat_map_app. congruence. Qed.

(* the selection is the list, in lexicographic (C) order of the per-axis index lists, of the
   single cells picked by each index tuple *)
Lemma oslice_cart sh : forall rs d,
  length rs = length sh ->
  oslice sh rs d = flat_map (fun idx => oslice sh (map RInt idx) d) (cart (map rindices rs)).
Proof.
  induction sh as [|n sh IH]; intros [|r rs] d Hl; simpl in *; try discriminate.
  - now rewrite app_nil_r.
  - rewrite flat_map_flat_map. apply flat_map_ext. intros i.
    rewrite flat_map_map. simpl. rewrite IH by lia.
    apply flat_map_ext. intros idx. now rewrite app_nil_r.
Qed.

(* ---- the zipped point loop ---- *)

Lemma chunk_incl m i d : incl (chunk m i d) d.
Proof.
  unfold chunk. intros x Hx.
  assert (G : forall k (l : list A), incl (firstn k l) l).
  { induction k as [|k IH]; intros [|y l] z Hz; simpl in *; try contradiction.
    destruct Hz as [->|Hz]; [now left|right; apply IH; exact Hz]. }
  apply G in Hx.
  rewrite <- (firstn_skipn (i * m) d). apply in_or_app. now right.
Qed.

Lemma oslice_incl sh : forall rs d, incl (oslice sh rs d) d.
Proof.
  induction sh as [|n sh IH]; intros [|r rs] d; simpl; try apply incl_refl.
  intros x Hx. apply in_flat_map in Hx as [i [_ Hx]]. apply IH in Hx. eapply chunk_incl; eauto.
Qed.

Lemma map_fixed (u : A -> A) l : (forall x, In x l -> u x = x) -> map u l = l.
Proof.
  induction l as [|x l IH]; intros H; simpl; [reflexivity|].
  rewrite H by now left. f_equal. apply IH. intros y Hy. apply H. now right.
Qed.

Lemma pointify_ok P ii sh : forall rs,
  rs_ok sh rs = true -> lists_len P rs = true -> ii < P -> rs_ok sh (pointify ii rs) = true.
Proof.
  induction sh as [|n sh IH]; intros [|r rs] Hok Hl Hi; simpl in *; try discriminate; [reflexivity|].
  apply andb_true_iff in Hok as [Hr Hok]. apply andb_true_iff in Hl as [Hl1 Hl].
  rewrite IH by assumption. rewrite andb_true_r.
  destruct r as [i|l|l]; try exact Hr.
  apply Nat.eqb_eq in Hl1. unfold rsel_ok in *. simpl in *. rewrite andb_true_r.
  rewrite forallb_forall in Hr. apply Hr. apply nth_In. lia.
Qed.

Lemma pointify_prod ii rs :
  prodn (spec_shape (pointify ii rs)) = prodn (map rcount (filter is_slice rs)).
Proof.
  induction rs as [|r rs IH]; simpl; [reflexivity|].
  destruct r; simpl; rewrite IH; unfold rcount; simpl; lia.
Qed.

Lemma chunk_0_all m d : length d = m -> chunk m 0 d = d.
Proof. intros <-. unfold chunk. simpl. apply firstn_all. Qed.

Lemma nints0_filters rs : nints rs = 0 ->
  filter (fun r => negb (is_list r)) rs = filter is_slice rs.
Proof.
  unfold nints. induction rs as [|r rs IH]; simpl; [reflexivity|].
  destruct r; simpl; intros H; try discriminate; rewrite IH by exact H; reflexivity.
Qed.

(* first list at axis 0, no int selector on the variable, no masked cell: the point loop is
   the pointwise selection *)
Lemma zip_var_axis0 (um um0 : A -> A) P n sh l rs d :
  let rs0 := RList l :: rs in
  rs_ok (n :: sh) rs0 = true -> length d = prodn (n :: sh) -> lists_len P rs0 = true ->
  dom_zip rs0 = true -> (forall x, In x d -> um x = x /\ um0 x = x) ->
  impl_zip_var um um0 P (n :: sh) rs0 d (zip_shape P rs0) = Some (zslice P (n :: sh) rs0 d).
Proof.
  intros rs0 Hok Hd Hl Hdom Hum.
  assert (Hn : nints rs0 = 0) by (apply Nat.eqb_eq; exact Hdom).
  assert (Hn' : nints rs = 0) by exact Hn.
  unfold impl_zip_var, zip_shape, point_shape. rewrite Hn. simpl first_list_pos.
  change (0 <? 0) with false. cbv iota.
  change (length (map rcount (filter is_slice rs0)) <? 0) with false. cbv iota.
  change (filter is_slice rs0) with (filter is_slice rs).
  change (filter (fun r => negb (is_list r)) rs0) with (filter (fun r => negb (is_list r)) rs).
  rewrite (nints0_filters rs Hn').
  set (ps := map rcount (filter is_slice rs)).
  assert (Hpt : forall ii, ii < P -> length (oslice (n :: sh) (pointify ii rs0) d) = prodn ps).
  { intros ii Hii. rewrite oslice_length; [apply (pointify_prod ii rs0)| |exact Hd].
    apply pointify_ok with (P := P); assumption. }
  assert (Hc : concat_axis 0 P (insert_at 0 1 ps) (fun ii => oslice (n :: sh) (pointify ii rs0) d)
               = zslice P (n :: sh) rs0 d).
  { unfold concat_axis, insert_at. simpl firstn. simpl skipn. simpl prodn at 1. simpl seq at 1.
    simpl flat_map at 1. rewrite app_nil_r. simpl zslice.
    apply flat_map_ext_in. intros ii Hii. apply in_seq in Hii.
    apply chunk_0_all. apply Hpt. lia. }
  rewrite Hc.
  rewrite map_fixed.
  - apply assign_same_cells; [|reflexivity].
    unfold insert_at. simpl. rewrite flat_map_length_const with (k := prodn ps); [now rewrite seq_length|].
    intros ii Hii. apply in_seq in Hii. apply Hpt. lia.
  - intros x Hx. unfold rs0 in Hx. cbn [zslice] in Hx. apply in_flat_map in Hx as [ii [_ Hx]]. apply oslice_incl in Hx.
    destruct (Hum x Hx). destruct ps; assumption.
Qed.

End P.
