(* Lemmas for C02 (Model/Slice.v). *)
From PNC Require Import Base.Util Base.ArrFlat Model.Slice Proofs.ArrFlatProofs.
From Coq Require Import Arith Permutation.
Set Default Timeout 30.

Section P.
Context {A : Type}.
Implicit Types d : list A.

Lemma rsel_ok_lt n r i : rsel_ok n r = true -> In i (rindices r) -> i < n.
Proof.
  unfold rsel_ok. intros H Hi. rewrite forallb_forall in H. apply Nat.ltb_lt. auto.
Qed.

Lemma flat_map_map {B C D} (f : C -> list D) (g : B -> C) l :
  flat_map f (map g l) = flat_map (fun x => f (g x)) l.
Proof. induction l; simpl; congruence. Qed.

Lemma flat_map_flat_map {B C D} (f : C -> list D) (g : B -> list C) l :
  flat_map f (flat_map g l) = flat_map (fun x => flat_map f (g x)) l.
Proof. induction l; simpl; [reflexivity|]. rewrite flat_map_app. congruence. Qed.

Lemma chunk_0_all m d : length d = m -> chunk m 0 d = d.
Proof. intros <-. unfold chunk. simpl. apply firstn_all. Qed.

Lemma oslice_length sh : forall rs d,
  rs_ok sh rs = true -> length d = prodn sh ->
  length (oslice sh rs d) = prodn (spec_shape rs).
Proof.
  induction sh as [|n sh IH]; intros [|r rs] d Hok Hd; simpl in *; try discriminate; [exact Hd|].
  apply andb_true_iff in Hok as [Hr Hok].
  rewrite flat_map_length_const with (k := prodn (spec_shape rs)).
  - reflexivity.
  - intros i Hi. apply IH; [exact Hok|]. apply chunk_length.
    pose proof (rsel_ok_lt _ _ _ Hr Hi). rewrite Hd. nia.
Qed.

Lemma oslice_full sh : forall d, length d = prodn sh -> oslice sh (map full_sel sh) d = d.
Proof.
  induction sh as [|n sh IH]; intros d Hd; simpl in *; [reflexivity|].
  rewrite flat_map_ext_in with (g := fun i => chunk (prodn sh) i d).
  - apply chunks_all. exact Hd.
  - intros i Hi. apply in_seq in Hi. apply IH. apply chunk_length. rewrite Hd. nia.
Qed.

(* ---- broadcasting assignment ---- *)

Lemma compat_prod_le ssh : forall tsh,
  compat ssh tsh = true -> prodn tsh <> 0 -> prodn ssh <= prodn tsh.
Proof.
  induction ssh as [|s ssh IH]; intros [|t tsh] H Hn; simpl in *; try discriminate; [lia|].
  apply andb_true_iff in H as [H1 H2].
  assert (Hb : prodn tsh <> 0) by (intro Z; apply Hn; rewrite Z; lia).
  assert (Ht : t <> 0) by (intro Z; apply Hn; rewrite Z; lia).
  assert (prodn ssh <= prodn tsh) by (apply IH; [exact H2|exact Hb]).
  apply orb_true_iff in H1 as [H1|H1]; apply Nat.eqb_eq in H1; subst.
  - apply Nat.mul_le_mono_l. assumption.
  - rewrite Nat.mul_1_l. transitivity (1 * prodn tsh); [lia|]. apply Nat.mul_le_mono_r. lia.
Qed.

Lemma concat_repeat_nil t : concat (repeat (@nil A) t) = [].
Proof. induction t; simpl; auto. Qed.

Lemma bdata_nil ssh : forall tsh, bdata ssh tsh (@nil A) = [].
Proof.
  induction ssh as [|s ssh IH]; intros [|t tsh]; simpl; try reflexivity.
  destruct (s =? t).
  - induction (seq 0 s) as [|i l IHl]; simpl; [reflexivity|].
    unfold chunk at 1. rewrite skipn_nil, firstn_nil, IH. exact IHl.
  - rewrite IH. apply concat_repeat_nil.
Qed.

Lemma bdata_id ssh : forall tsh d,
  compat ssh tsh = true -> length d = prodn ssh -> prodn ssh = prodn tsh -> bdata ssh tsh d = d.
Proof.
  induction ssh as [|s ssh IH]; intros [|t tsh] d H Hd Hp; simpl in *; try discriminate; [reflexivity|].
  apply andb_true_iff in H as [H1 H2].
  destruct (s =? t) eqn:E.
  - apply Nat.eqb_eq in E; subst t.
    destruct s as [|s].
    + simpl in *. destruct d; [reflexivity|discriminate].
    + assert (Hq : prodn ssh = prodn tsh) by nia.
      rewrite flat_map_ext_in with (g := fun i => chunk (prodn ssh) i d).
      * apply chunks_all. exact Hd.
      * intros i Hi. apply in_seq in Hi. apply IH; [exact H2| |exact Hq].
        apply chunk_length. rewrite Hd. nia.
  - apply Nat.eqb_neq in E. apply orb_true_iff in H1 as [H1|H1]; [discriminate|apply Nat.eqb_eq in H1].
    subst s. destruct (Nat.eq_dec (length d) 0) as [Z|NZ].
    + destruct d; [|discriminate]. rewrite bdata_nil. apply concat_repeat_nil.
    + exfalso. assert (prodn tsh <> 0) by nia.
      pose proof (compat_prod_le _ _ H2 H). nia.
Qed.

Lemma assign_same_cells tsh ssh d :
  length d = prodn ssh -> prodn ssh = prodn tsh -> assign tsh ssh d = Some d.
Proof.
  intros Hd Hp. unfold assign.
  destruct (Nat.leb (length ssh) (length tsh) && compat (pad_left (length tsh) ssh) tsh) eqn:E.
  - apply andb_true_iff in E as [_ E]. f_equal. apply bdata_id; [exact E| |];
      unfold pad_left; rewrite prodn_app, prodn_repeat1; lia.
  - replace (length d =? prodn tsh) with true; [reflexivity|]. symmetry. apply Nat.eqb_eq. lia.
Qed.

(* ---- the per-axis selection loop ---- *)

Lemma take_axis_length outer n inner idxs d :
  length d = outer * (n * inner) -> (forall i, In i idxs -> i < n) ->
  length (take_axis outer n inner idxs d) = outer * (length idxs * inner).
Proof.
  intros Hd Hi. unfold take_axis.
  rewrite flat_map_length_const with (k := length idxs * inner); [now rewrite seq_length|].
  intros o Ho. apply in_seq in Ho.
  apply flat_map_length_const. intros i Hin. apply chunk_length.
  rewrite chunk_length; [pose proof (Hi i Hin); nia|]. rewrite Hd. nia.
Qed.

(* after selecting the leading axes (product of their new lengths = outer) the loop continues
   with the remaining axes under every outer index: that is the orthogonal selection *)
Lemma seq_take_oslice sh : forall outer rs d,
  rs_ok sh rs = true -> length d = outer * prodn sh ->
  seq_take outer sh rs d = flat_map (fun o => oslice sh rs (chunk (prodn sh) o d)) (seq 0 outer).
Proof.
  induction sh as [|n sh IH]; intros outer [|r rs] d Hok Hd; simpl in Hok; try discriminate.
  - simpl. symmetry. apply chunks_all. simpl in Hd. lia.
  - apply andb_true_iff in Hok as [Hr Hok].
    assert (Hin : forall i, In i (rindices r) -> i < n) by (intros i; apply rsel_ok_lt; exact Hr).
    cbn [seq_take oslice prodn fold_right]. fold (prodn sh). set (m := prodn sh) in *.
    assert (Hd' : length d = outer * (n * m)) by (simpl in Hd; exact Hd).
    rewrite IH; [|exact Hok|].
    2:{ rewrite take_axis_length by assumption. unfold rcount. lia. }
    set (X := fun o i => chunk m i (chunk (n * m) o d)).
    set (pcs := flat_map (fun o => map (X o) (rindices r)) (seq 0 outer)).
    assert (Hflat : take_axis outer n m (rindices r) d = flat_map (fun x => x) pcs).
    { unfold take_axis, pcs. rewrite flat_map_flat_map. apply flat_map_ext. intros o.
      rewrite flat_map_map. reflexivity. }
    assert (Hlen : length pcs = outer * rcount r).
    { unfold pcs. rewrite flat_map_length_const with (k := rcount r); [now rewrite seq_length|].
      intros o _. unfold rcount. apply map_length. }
    assert (Hpc : forall x, In x pcs -> length x = m).
    { intros x Hx. unfold pcs in Hx. apply in_flat_map in Hx as [o [Ho Hx]].
      apply in_map_iff in Hx as [i [<- Hi]]. apply in_seq in Ho. unfold X.
      apply chunk_length. rewrite chunk_length; [pose proof (Hin i Hi); nia|]. rewrite Hd'. nia. }
    rewrite Hflat, <- Hlen.
    rewrite flat_map_ext_in with (g := fun k => oslice sh rs (nth k pcs [])).
    2:{ intros k Hk. apply in_seq in Hk. f_equal.
        apply (chunk_flat_map_const (fun x : list A => x)); [exact Hpc|lia]. }
    rewrite (flat_map_seq_nth (oslice sh rs) [] pcs).
    unfold pcs. rewrite flat_map_flat_map. apply flat_map_ext. intros o.
    rewrite flat_map_map. reflexivity.
Qed.

(* FULL: the repaired code path equals the orthogonal selection for every selector tuple *)
Lemma slice_var sh rs d :
  rs_ok sh rs = true -> length d = prodn sh ->
  impl_slice_var sh rs d (spec_shape rs) = Some (oslice sh rs d).
Proof.
  intros Hok Hd. unfold impl_slice_var.
  rewrite seq_take_oslice by (try assumption; lia). simpl. rewrite app_nil_r.
  rewrite chunk_0_all by exact Hd.
  apply assign_same_cells; [|reflexivity]. apply oslice_length; assumption.
Qed.

(* whatever numpy does with the axes, when the call succeeds the result has the target's size *)
Lemma spec_shape_length sh rs : rs_ok sh rs = true -> length (spec_shape rs) = length sh.
Proof.
  revert rs; induction sh as [|n sh IH]; intros [|r rs] H; simpl in *; try discriminate; [reflexivity|].
  apply andb_true_iff in H as [_ H]. f_equal. apply IH. exact H.
Qed.

(* ---- element-wise meaning of the orthogonal selection ---- *)

Lemma oslice_point sh : forall idx d x,
  rs_ok sh (map RInt idx) = true -> length d = prodn sh ->
  oslice sh (map RInt idx) d = [nth (ravel sh idx) d x] /\ ravel sh idx < prodn sh.
Proof.
  induction sh as [|n sh IH]; intros [|i idx] d x Hok Hd; simpl in *; try discriminate.
  - destruct d as [|y [|z d]]; try discriminate. split; [reflexivity|lia].
  - apply andb_true_iff in Hok as [Hr Hok].
    assert (Hi : i < n) by (apply (rsel_ok_lt n (RInt i)); [exact Hr|now left]).
    rewrite app_nil_r.
    destruct (IH idx (chunk (prodn sh) i d) x Hok) as [E L].
    { apply chunk_length. rewrite Hd. nia. }
    rewrite E. rewrite nth_chunk by exact L. split; [reflexivity|nia].
Qed.

(* the selection is the list, in lexicographic (C) order of the per-axis index lists, of the
   single cells picked by each index tuple *)
Lemma oslice_cart sh : forall rs d,
  length rs = length sh ->
  oslice sh rs d = flat_map (fun idx => oslice sh (map RInt idx) d) (cart (map rindices rs)).
Proof.
  induction sh as [|n sh IH]; intros [|r rs] d Hl; simpl in *; try discriminate.
  - now rewrite app_nil_r.
  - rewrite flat_map_flat_map. apply flat_map_ext. intros i.
    rewrite flat_map_map. simpl. rewrite IH by lia.
    apply flat_map_ext. intros idx. now rewrite app_nil_r.
Qed.

(* ---- the zipped point loop ---- *)

Lemma chunk_incl m i d : incl (chunk m i d) d.
Proof.
  unfold chunk. intros x Hx.
  assert (G : forall k (l : list A), incl (firstn k l) l).
  { induction k as [|k IH]; intros [|y l] z Hz; simpl in *; try contradiction.
    destruct Hz as [->|Hz]; [now left|right; apply IH; exact Hz]. }
  apply G in Hx.
  rewrite <- (firstn_skipn (i * m) d). apply in_or_app. now right.
Qed.

Lemma oslice_incl sh : forall rs d, incl (oslice sh rs d) d.
Proof.
  induction sh as [|n sh IH]; intros [|r rs] d; simpl; try apply incl_refl.
  intros x Hx. apply in_flat_map in Hx as [i [_ Hx]]. apply IH in Hx. eapply chunk_incl; eauto.
Qed.

Lemma map_fixed (u : A -> A) l : (forall x, In x l -> u x = x) -> map u l = l.
Proof.
  induction l as [|x l IH]; intros H; simpl; [reflexivity|].
  rewrite H by now left. f_equal. apply IH. intros y Hy. apply H. now right.
Qed.

Lemma pointify_ok P ii sh : forall rs,
  rs_ok sh rs = true -> lists_len P rs = true -> ii < P -> rs_ok sh (pointify ii rs) = true.
Proof.
  induction sh as [|n sh IH]; intros [|r rs] Hok Hl Hi; simpl in *; try discriminate; [reflexivity|].
  apply andb_true_iff in Hok as [Hr Hok]. apply andb_true_iff in Hl as [Hl1 Hl].
  rewrite IH by assumption. rewrite andb_true_r.
  destruct r as [i|l|l]; try exact Hr.
  apply Nat.eqb_eq in Hl1. unfold rsel_ok in *. simpl in *. rewrite andb_true_r.
  rewrite forallb_forall in Hr. apply Hr. apply nth_In. lia.
Qed.

Lemma pointify_prod ii rs :
  prodn (spec_shape (pointify ii rs)) = prodn (map rcount (filter is_slice rs)).
Proof.
  induction rs as [|r rs IH]; simpl; [reflexivity|].
  destruct r; simpl; rewrite IH; unfold rcount; simpl; lia.
Qed.

Lemma point_len P sh rs d ii :
  rs_ok sh rs = true -> length d = prodn sh -> lists_len P rs = true -> ii < P ->
  length (oslice sh (pointify ii rs) d) = prodn (point_shape rs).
Proof.
  intros Hok Hd Hl Hi. rewrite oslice_length; [apply pointify_prod| |exact Hd].
  apply pointify_ok with (P := P); assumption.
Qed.

Lemma concat_rec_ext a : forall ps P (pts pts' : nat -> list A),
  (forall ii, ii < P -> pts ii = pts' ii) -> concat_rec a ps P pts = concat_rec a ps P pts'.
Proof.
  induction a as [|a IH]; intros ps P pts pts' H.
  - destruct ps; simpl; apply flat_map_ext_in; intros ii Hi; apply in_seq in Hi; apply H; lia.
  - destruct ps as [|n ps]; simpl.
    + apply flat_map_ext_in; intros ii Hi; apply in_seq in Hi; apply H; lia.
    + apply flat_map_ext. intros j. apply IH. intros ii Hi. now rewrite H.
Qed.

(* the point loop (expand_dims / concatenate at pointax) is the pointwise selection, for the
   first list at ANY axis and with int selectors anywhere *)
Lemma zip_cells P sh : forall rs d,
  rs_ok sh rs = true -> length d = prodn sh -> lists_len P rs = true -> has_list rs = true ->
  concat_rec (slices_before_list rs) (point_shape rs) P (fun ii => oslice sh (pointify ii rs) d)
  = zslice P sh rs d.
Proof.
  induction sh as [|n sh IH]; intros [|r rs] d Hok Hd Hl Hh; simpl in Hok; try discriminate.
  apply andb_true_iff in Hok as [Hr Hok].
  assert (Hl' : lists_len P rs = true) by (simpl in Hl; apply andb_true_iff in Hl; tauto).
  assert (Hin : forall i, In i (rindices r) -> i < n) by (intros i; apply rsel_ok_lt; exact Hr).
  assert (Hch : forall i, i < n -> length (chunk (prodn sh) i d) = prodn sh).
  { intros i Hi. apply chunk_length. simpl in Hd. rewrite Hd. nia. }
  destruct r as [i|l|l].
  - (* int: nothing changes but the block we are in *)
    assert (Hh' : has_list rs = true) by exact Hh.
    cbn [slices_before_list is_list is_slice point_shape filter zslice rindices flat_map].
    change (map rcount (filter is_slice rs)) with (point_shape rs).
    rewrite app_nil_r, <- (IH rs (chunk (prodn sh) i d)); try assumption.
    + apply concat_rec_ext. intros ii _. simpl. now rewrite app_nil_r.
    + apply Hch. apply Hin. now left.
  - (* slice: one more leading axis *)
    assert (Hh' : has_list rs = true) by exact Hh.
    cbn [slices_before_list is_list is_slice point_shape filter map rcount rindices zslice Nat.add].
    change (map (fun r => length (rindices r)) (filter is_slice rs)) with (point_shape rs).
    cbn [concat_rec].
    rewrite flat_map_ext_in with
      (g := fun j => zslice P sh rs (chunk (prodn sh) (nth j l 0) d)).
    + apply (flat_map_seq_nth (fun i => zslice P sh rs (chunk (prodn sh) i d)) 0 l).
    + intros j Hj. apply in_seq in Hj. unfold rcount in Hj. simpl in Hj.
      change (map rcount (filter is_slice rs)) with (point_shape rs).
      assert (Hnj : nth j l 0 < n) by (apply Hin; simpl; apply nth_In; lia).
      rewrite <- (IH rs (chunk (prodn sh) (nth j l 0) d)); try assumption; [|apply Hch; exact Hnj].
      apply concat_rec_ext. intros ii Hii.
      change (pointify ii (RSlice l :: rs)) with (RSlice l :: pointify ii rs).
      cbn [oslice rindices].
      apply (chunk_flat_map_const (fun i => oslice sh (pointify ii rs) (chunk (prodn sh) i d))); [|lia].
      intros i Hi. apply point_len with (P := P); try assumption. apply Hch. apply Hin. exact Hi.
  - (* first list: the points follow each other *)
    cbn [slices_before_list is_list]. destruct (point_shape (RList l :: rs)); reflexivity.
Qed.

Lemma zslice_length P sh : forall rs d,
  rs_ok sh rs = true -> length d = prodn sh -> lists_len P rs = true -> has_list rs = true ->
  length (zslice P sh rs d) = P * prodn (point_shape rs).
Proof.
  induction sh as [|n sh IH]; intros [|r rs] d Hok Hd Hl Hh; try discriminate.
  pose proof Hok as Hok0. simpl in Hok. apply andb_true_iff in Hok as [Hr Hok].
  assert (Hl' : lists_len P rs = true) by (simpl in Hl; apply andb_true_iff in Hl; tauto).
  assert (Hin : forall i, In i (rindices r) -> i < n) by (intros i; apply rsel_ok_lt; exact Hr).
  assert (Hch : forall i, i < n -> length (chunk (prodn sh) i d) = prodn sh).
  { intros i Hi. apply chunk_length. simpl in Hd. rewrite Hd. nia. }
  destruct r as [i|l|l].
  - cbn [zslice rindices flat_map]. rewrite app_nil_r.
    rewrite IH; try assumption; [reflexivity|apply Hch; apply Hin; now left].
  - cbn [zslice rindices].
    rewrite flat_map_length_const with (k := P * prodn (point_shape rs)).
    + change (prodn (point_shape (RSlice l :: rs))) with (length l * prodn (point_shape rs)). ring.
    + intros i Hi. apply IH; try assumption. apply Hch. apply Hin. exact Hi.
  - cbn [zslice].
    rewrite flat_map_length_const with (k := prodn (point_shape (RList l :: rs))); [now rewrite seq_length|].
    intros ii Hii. apply in_seq in Hii. apply point_len with (P := P); try assumption. lia.
Qed.

Lemma prodn_insert k x l : prodn (insert_at k x l) = x * prodn l.
Proof.
  unfold insert_at. rewrite <- (firstn_skipn k l) at 3. rewrite !prodn_app. simpl. ring.
Qed.

Lemma prodn_nonlist rs :
  prodn (map rcount (filter (fun r => negb (is_list r)) rs)) = prodn (point_shape rs).
Proof.
  unfold point_shape. induction rs as [|r rs IH]; simpl; [reflexivity|].
  destruct r; simpl; rewrite IH; unfold rcount; simpl; lia.
Qed.

(* FULL: zipped variable, any position of the first list, ints allowed, any cells *)
Lemma zip_var P sh rs d :
  rs_ok sh rs = true -> length d = prodn sh -> lists_len P rs = true -> has_list rs = true ->
  impl_zip_var P sh rs d (zip_shape P rs) = Some (zslice P sh rs d).
Proof.
  intros Hok Hd Hl Hh. unfold impl_zip_var.
  destruct (Nat.eqb P 0) eqn:E.
  { apply Nat.eqb_eq in E. subst P. f_equal. symmetry. apply length_zero_iff_nil.
    rewrite zslice_length by assumption. reflexivity. }
  rewrite zip_cells by assumption.
  apply assign_same_cells.
  - rewrite zslice_length by assumption. symmetry. apply prodn_insert.
  - unfold zip_shape. rewrite !prodn_insert, prodn_nonlist. reflexivity.
Qed.

(* ---- element-wise meaning of the zipped selection ---- *)

(* selectors `pre` (no list among them) before the first list: the zipped selection enumerates
   the index tuples of `pre` in C order, under each the P points in order, and for each point
   the orthogonal selection with every list replaced by its ii-th element *)
Lemma zslice_elements P : forall pre sh rest d,
  forallb (fun r => negb (is_list r)) pre = true ->
  (exists l rest', rest = RList l :: rest') ->
  length (pre ++ rest) = length sh ->
  zslice P sh (pre ++ rest) d
  = flat_map (fun idx =>
      flat_map (fun ii => oslice sh (map RInt idx ++ pointify ii rest) d) (seq 0 P))
      (cart (map rindices pre)).
Proof.
  induction pre as [|r pre IH]; intros sh rest d Hp [l [rest' ->]] Hl.
  - destruct sh as [|n sh]; [discriminate|]. simpl. now rewrite app_nil_r.
  - destruct sh as [|n sh]; [discriminate|]. simpl in Hp. apply andb_true_iff in Hp as [Hr Hp].
    simpl in Hl. injection Hl as Hl.
    assert (Hz : zslice P (n :: sh) ((r :: pre) ++ RList l :: rest') d
                 = flat_map (fun i => zslice P sh (pre ++ RList l :: rest') (chunk (prodn sh) i d))
                            (rindices r)).
    { destruct r; try reflexivity. discriminate. }
    rewrite Hz. cbn [map cart]. rewrite flat_map_flat_map. apply flat_map_ext. intros i.
    rewrite flat_map_map. rewrite IH; [|exact Hp|eauto|exact Hl].
    apply flat_map_ext. intros idx. apply flat_map_ext. intros ii.
    cbn [map app oslice rindices flat_map]. now rewrite app_nil_r.
Qed.

(* ---- whole file ---- *)

Lemma mapM_nth {B C} (f : B -> option C) x0 y0 : forall l r i,
  mapM f l = Some r -> i < length l -> f (nth i l x0) = Some (nth i r y0).
Proof.
  induction l as [|x l IH]; intros r i H Hi; simpl in *; [lia|].
  destruct (f x) eqn:E; [|discriminate]. destruct (mapM f l) eqn:E2; [|discriminate].
  injection H as <-. destruct i; simpl; [exact E|]. apply IH; [reflexivity|lia].
Qed.

Lemma mapM_ext_in {B C} (f g : B -> option C) l :
  (forall x, In x l -> f x = g x) -> mapM f l = mapM g l.
Proof.
  induction l as [|x l IH]; intros H; simpl; [reflexivity|].
  rewrite H by now left. rewrite IH; [reflexivity|]. intros y Hy. apply H. now right.
Qed.

Lemma full_sel_ok n : rsel_ok n (RSlice (seq 0 n)) = true.
Proof.
  unfold rsel_ok. simpl. apply forallb_forall. intros i Hi. apply in_seq in Hi.
  apply Nat.ltb_lt. lia.
Qed.

(* what resolve_dims guarantees for every dimension *)
Lemma resolve_dims_spec dims kws rdims j :
  resolve_dims dims kws = Some rdims -> j < length dims ->
  rsel_ok (nth j dims 0) (nth j rdims (RSlice [])) = true /\
  (forall l', nth j rdims (RSlice []) = RList l' -> In (length l') (list_lens kws)).
Proof.
  unfold resolve_dims. intros R Hj.
  pose proof (mapM_nth _ (0, 0) (RSlice []) _ _ j R) as H.
  rewrite combine_length, seq_length, Nat.min_id in H. specialize (H Hj).
  rewrite combine_nth in H by apply seq_length. rewrite seq_nth in H by exact Hj.
  simpl in H. unfold kwlookup in H.
  destruct (find (fun p => fst p =? j) kws) as [p|] eqn:K.
  - apply find_some in K as [Kin _]. split; [eapply resolve_ok; exact H|].
    intros l' E. rewrite E in H. destruct (snd p) as [z|a b c|l] eqn:Es; simpl in H.
    + destruct (norm_index _ z); discriminate.
    + destruct (slice_indices _ a b c); discriminate.
    + destruct (mapM (norm_index (nth j dims 0)) l) eqn:M; [|discriminate].
      injection H as <-. apply mapM_length in M. rewrite M.
      unfold list_lens. apply in_flat_map. exists p. split; [exact Kin|]. rewrite Es. now left.
  - injection H as <-. split; [apply full_sel_ok|]. intros l' E. discriminate.
Qed.

Lemma rs_ok_maps dims rdims vd :
  (forall j, In j vd -> rsel_ok (nth j dims 0) (nth j rdims (RSlice [])) = true) ->
  rs_ok (map (fun j => nth j dims 0) vd) (map (fun j => nth j rdims (RSlice [])) vd) = true.
Proof.
  induction vd as [|j vd IH]; intros H; simpl; [reflexivity|].
  rewrite H by now left. simpl. apply IH. intros k Hk. apply H. now right.
Qed.

Lemma lists_len_maps P rdims vd :
  (forall j l', In j vd -> nth j rdims (RSlice []) = RList l' -> length l' = P) ->
  lists_len P (map (fun j => nth j rdims (RSlice [])) vd) = true.
Proof.
  induction vd as [|j vd IH]; intros H; simpl; [reflexivity|].
  apply andb_true_iff. split.
  - destruct (nth j rdims (RSlice [])) eqn:E; try reflexivity. apply Nat.eqb_eq.
    apply (H j); [now left|exact E].
  - apply IH. intros k l' Hk. apply H. now right.
Qed.

Lemma filter_has_list rs : 1 <? length (filter is_list rs) = true -> has_list rs = true.
Proof.
  intros H. apply Nat.ltb_lt in H. unfold has_list. apply existsb_exists.
  destruct (filter is_list rs) as [|r t] eqn:E; [simpl in H; lia|].
  assert (Hin : In r (filter is_list rs)) by (rewrite E; now left).
  apply filter_In in Hin. exists r. exact Hin.
Qed.

(* FULL, whole file: on every well-formed file and for every keyword list (malformed ones
   included: both sides are then the error outcome) the repaired code is the specification *)
Lemma slice_file (f : file A) kws :
  wf_file f = true -> impl_slice_file f kws = spec_slice_file f kws.
Proof.
  intros Hwf. unfold impl_slice_file, spec_slice_file, slice_file_with.
  destruct (negb (forallb (fun p => fst p <? length (f_dims f)) kws)); [reflexivity|].
  set (ll := list_lens kws). set (any := 1 <? length ll). set (P := hd 0 ll).
  destruct (any && negb (forallb (Nat.eqb P) ll)) eqn:E2; [reflexivity|].
  destruct (resolve_dims (f_dims f) kws) as [rdims|] eqn:R; [|reflexivity].
  match goal with |- match mapM ?F _ with _ => _ end = match mapM ?G _ with _ => _ end =>
    rewrite (mapM_ext_in F G) end; [reflexivity|].
  intros v Hv. unfold wf_file in Hwf. rewrite forallb_forall in Hwf. specialize (Hwf v Hv).
  apply andb_true_iff in Hwf as [Hd Hlen]. rewrite forallb_forall in Hd. apply Nat.eqb_eq in Hlen.
  assert (Hj : forall j, In j (v_dims v) -> j < length (f_dims f))
    by (intros j Hj; apply Nat.ltb_lt; apply Hd; exact Hj).
  assert (Hok : rs_ok (map (fun j => nth j (f_dims f) 0) (v_dims v))
                      (map (fun j => nth j rdims (RSlice [])) (v_dims v)) = true).
  { apply rs_ok_maps. intros j Hin. eapply resolve_dims_spec; [exact R|apply Hj; exact Hin]. }
  destruct (any && (1 <? length (filter is_list (map (fun j => nth j rdims (RSlice [])) (v_dims v)))))
    eqn:Z.
  - apply andb_true_iff in Z as [Za Zl]. rewrite Za in E2. simpl in E2.
    apply negb_false_iff in E2. rewrite forallb_forall in E2.
    rewrite zip_var; [reflexivity|exact Hok|exact Hlen| |apply filter_has_list; exact Zl].
    apply lists_len_maps. intros j l' Hin E. symmetry. apply Nat.eqb_eq. apply E2.
    eapply resolve_dims_spec; [exact R|apply Hj; exact Hin|exact E].
  - rewrite slice_var by assumption. reflexivity.
Qed.

(* ---- keyword order ---- *)

Lemma forallb_perm {B} (p : B -> bool) l l' : Permutation l l' -> forallb p l = forallb p l'.
Proof.
  intros H. induction H; simpl; try congruence.
  destruct (p x), (p y); reflexivity.
Qed.

Definition alleq (l : list nat) : bool := forallb (Nat.eqb (hd 0 l)) l.

Lemma alleq_spec l : alleq l = true <-> (forall x y, In x l -> In y l -> x = y).
Proof.
  unfold alleq. split.
  - intros H x y Hx Hy. rewrite forallb_forall in H.
    apply H in Hx. apply H in Hy. apply Nat.eqb_eq in Hx, Hy. congruence.
  - intros H. apply forallb_forall. intros x Hx. apply Nat.eqb_eq.
    destruct l as [|h t]; [contradiction|]. simpl. apply H; [now left|exact Hx].
Qed.

Lemma alleq_perm l l' : Permutation l l' -> alleq l = alleq l'.
Proof.
  intros H. destruct (alleq l) eqn:E, (alleq l') eqn:E'; try reflexivity.
  - rewrite alleq_spec in E. assert (alleq l' = true); [|congruence].
    apply alleq_spec. intros x y Hx Hy. apply E; eapply Permutation_in; try eassumption;
      apply Permutation_sym; exact H.
  - rewrite alleq_spec in E'. assert (alleq l = true); [|congruence].
    apply alleq_spec. intros x y Hx Hy. apply E'; eapply Permutation_in; eassumption.
Qed.

Lemma alleq_hd l l' : Permutation l l' -> alleq l = true -> hd 0 l = hd 0 l'.
Proof.
  intros H E. rewrite alleq_spec in E.
  destruct l as [|h t].
  - apply Permutation_nil in H. now subst.
  - destruct l' as [|h' t']; [apply Permutation_sym, Permutation_nil in H; discriminate|].
    simpl. apply E; [now left|]. eapply Permutation_in; [apply Permutation_sym; exact H|now left].
Qed.

Lemma keys_inj {B} (l : list (nat * B)) p q :
  NoDup (map fst l) -> In p l -> In q l -> fst p = fst q -> p = q.
Proof.
  induction l as [|x l IH]; intros Hn Hp Hq E; [contradiction|].
  simpl in Hn. inversion Hn as [|? ? Hx Hn']; subst.
  destruct Hp as [->|Hp], Hq as [->|Hq]; try reflexivity.
  - exfalso. apply Hx. rewrite E. apply in_map. exact Hq.
  - exfalso. apply Hx. rewrite <- E. apply in_map. exact Hp.
  - apply IH; assumption.
Qed.

Lemma kwlookup_perm kws kws' k :
  Permutation kws kws' -> NoDup (map fst kws) -> kwlookup kws k = kwlookup kws' k.
Proof.
  intros H Hn. unfold kwlookup.
  assert (Hn' : NoDup (map fst kws')) by (eapply Permutation_NoDup; [apply Permutation_map; exact H|exact Hn]).
  destruct (find (fun p => fst p =? k) kws) as [p|] eqn:F;
    destruct (find (fun p => fst p =? k) kws') as [p'|] eqn:F'; try reflexivity.
  - apply find_some in F as [Hi Hk]. apply find_some in F' as [Hi' Hk'].
    apply Nat.eqb_eq in Hk, Hk'. f_equal. f_equal. apply (keys_inj kws'); try assumption.
    + eapply Permutation_in; eassumption.
    + congruence.
  - apply find_some in F as [Hi Hk]. eapply find_none in F'; [|eapply Permutation_in; eassumption].
    congruence.
  - apply find_some in F' as [Hi Hk]. eapply find_none in F;
      [|eapply Permutation_in; [apply Permutation_sym; exact H|exact Hi]]. congruence.
Qed.

(* the keyword order does not matter (keywords are distinct: Python keyword arguments) *)
Lemma slice_file_kw_order fvar fzip (f : file A) kws kws' :
  Permutation kws kws' -> NoDup (map fst kws) ->
  slice_file_with fvar fzip f kws = slice_file_with fvar fzip f kws'.
Proof.
  intros H Hn. unfold slice_file_with.
  rewrite (forallb_perm _ kws kws' H).
  destruct (negb (forallb (fun p => fst p <? length (f_dims f)) kws')); [reflexivity|].
  assert (Hll : Permutation (list_lens kws) (list_lens kws')) by (apply Permutation_flat_map; exact H).
  rewrite <- (Permutation_length Hll).
  assert (Hr : resolve_dims (f_dims f) kws = resolve_dims (f_dims f) kws').
  { unfold resolve_dims. apply mapM_ext_in. intros jn _. now rewrite (kwlookup_perm kws kws' _ H Hn). }
  rewrite Hr.
  destruct (1 <? length (list_lens kws)) eqn:Eany; simpl.
  - fold (alleq (list_lens kws)). fold (alleq (list_lens kws')).
    rewrite <- (alleq_perm _ _ Hll).
    destruct (alleq (list_lens kws)) eqn:Ea; simpl; [|reflexivity].
    rewrite <- (alleq_hd _ _ Hll Ea). reflexivity.
  - reflexivity.
Qed.

End P.
