(* Proofs for C01 over Model/FileStruct.v *)
From PNC Require Import Base.Util Model.FileStruct.

Ltac inv H := inversion H; subst; clear H.
Lemma bind_ok {A B} (r : res A) (f : A -> res B) b : bind r f = Ok b -> exists a, r = Ok a /\ f a = Ok b.
Proof. destruct r; simpl; intros H; [eauto|discriminate]. Qed.
(* invert a monadic bind in hypothesis H (names the intermediate value a, a0, ... and its equation E, E0, ...) *)
Ltac bindinv H :=
  let a := fresh "a" in let E := fresh "E" in
  apply bind_ok in H as [a [E H]]; cbv beta in H.

(* ---- association lists ------------------------------------------------------------------ *)
Section AssocFacts.
  Context {V : Type}.
  Lemma lookup_aset (k k' : name) (v : V) l :
    lookup k (aset k' v l) = if Nat.eqb k k' then Some v else lookup k l.
  Proof.
    induction l as [|[a b] l IH]; simpl.
    - destruct (Nat.eqb k k'); reflexivity.
    - destruct (Nat.eqb k' a) eqn:E1; simpl.
      + apply Nat.eqb_eq in E1; subst. destruct (Nat.eqb k a); reflexivity.
      + destruct (Nat.eqb k a) eqn:E2.
        * apply Nat.eqb_eq in E2; subst. rewrite Nat.eqb_sym, E1. reflexivity.
        * exact IH.
  Qed.
  Lemma lookup_adel (k k' : name) (l : list (name * V)) :
    lookup k (adel k' l) = if Nat.eqb k k' then None else lookup k l.
  Proof.
    induction l as [|[a b] l IH]; simpl.
    - destruct (Nat.eqb k k'); reflexivity.
    - destruct (Nat.eqb k' a) eqn:E1; simpl.
      + apply Nat.eqb_eq in E1; subst. rewrite IH. destruct (Nat.eqb k a); reflexivity.
      + rewrite IH. destruct (Nat.eqb k a) eqn:E2; [|reflexivity].
        apply Nat.eqb_eq in E2; subst. rewrite Nat.eqb_sym, E1. reflexivity.
  Qed.
  Lemma lookup_In (k : name) (v : V) l : lookup k l = Some v -> In (k, v) l.
  Proof.
    induction l as [|[a b] l IH]; simpl; [discriminate|].
    destruct (Nat.eqb k a) eqn:E; intros H.
    - apply Nat.eqb_eq in E; inv H. left; reflexivity.
    - right; auto.
  Qed.
  Lemma forallb_aset (P : name * V -> bool) k v l :
    (forall k1 k2 x, P (k1, x) = P (k2, x)) ->
    forallb P l = true -> P (k, v) = true -> forallb P (aset k v l) = true.
  Proof.
    intros HP. induction l as [|[a b] l IH]; simpl; intros H1 H2.
    - rewrite H2; reflexivity.
    - apply andb_true_iff in H1 as [Ha Hl]. destruct (Nat.eqb k a); simpl.
      + rewrite H2, Hl; reflexivity.
      + rewrite Ha, IH; auto.
  Qed.
  Lemma forallb_adel (P : name * V -> bool) k l : forallb P l = true -> forallb P (adel k l) = true.
  Proof.
    unfold adel. induction l as [|p l IH]; simpl; intros H; [reflexivity|].
    apply andb_true_iff in H as [Ha Hl].
    match goal with |- context [if ?c then _ else _] => destruct c end; simpl; [rewrite Ha|]; auto.
  Qed.
  Lemma forallb_lookup (P : name * V -> bool) k v l :
    forallb P l = true -> lookup k l = Some v -> P (k, v) = true.
  Proof.
    intros H1 H2. apply lookup_In in H2. rewrite forallb_forall in H1. auto.
  Qed.
End AssocFacts.

Lemma memb_In k l : memb k l = true <-> In k l.
Proof.
  unfold memb. rewrite existsb_exists. split.
  - intros [x [H1 H2]]. apply Nat.eqb_eq in H2; subst; auto.
  - intros H. exists k. split; auto. apply Nat.eqb_refl.
Qed.
Lemma memb_false k l : memb k l = false <-> ~ In k l.
Proof. rewrite <- memb_In. destruct (memb k l); split; intros; try discriminate; auto. exfalso; auto. Qed.

(* ---- attributes ---------------------------------------------------------------------------- *)
Lemma attrs_ok_aset k a : attrs_ok a = true -> attrs_ok (aset k true a) = true.
Proof. intros H. apply forallb_aset; auto. Qed.
Lemma attrs_ok_add_fill a : attrs_ok a = true -> attrs_ok (add_fill a) = true.
Proof. intros H. unfold add_fill. destruct (has a_fill a); simpl; auto. Qed.

(* ---- variables allocated from the dimension table are well-formed ------------------------- *)
Lemma shape_of_ok T ds s : shape_of T ds = Ok s -> map (dimlen T) ds = map Some s.
Proof.
  revert s. induction ds as [|d ds IH]; simpl; intros s H.
  - inv H. reflexivity.
  - unfold dimlen at 1. destruct (lookup d T) as [[n u]|] eqn:E; [|discriminate].
    bindinv H. inv H. simpl. f_equal. apply IH. assumption.
Qed.

Lemma opt_list_eqb_refl (l : list (option nat)) : list_eqb (option_eqb Nat.eqb) l l = true.
Proof.
  induction l as [|[x|] l IH]; simpl; auto. rewrite Nat.eqb_refl. exact IH.
Qed.

Lemma var_okb_intro T ds s a :
  map (dimlen T) ds = map Some s -> attrs_ok a = true -> var_okb T (Var ds s a) = true.
Proof.
  intros H1 H2. unfold var_okb; simpl. rewrite H1, H2, opt_list_eqb_refl. reflexivity.
Qed.

Lemma opt_list_eqb_eq (a b : list (option nat)) : list_eqb (option_eqb Nat.eqb) a b = true -> a = b.
Proof.
  apply list_eqb_eq. intros [x|] [y|]; simpl; split; intros H; try discriminate; try reflexivity.
  - apply Nat.eqb_eq in H; subst; reflexivity.
  - inv H. apply Nat.eqb_refl.
Qed.

Lemma var_okb_elim T v :
  var_okb T v = true -> map (dimlen T) (vdims v) = map Some (vshape v) /\ attrs_ok (vattrs v) = true.
Proof.
  unfold var_okb. intros H. apply andb_true_iff in H as [H1 H2]. split; auto using opt_list_eqb_eq.
Qed.

Lemma mkvar_ok T ds a v : mkvar T ds a = Ok v -> attrs_ok a = true -> var_okb T v = true.
Proof.
  unfold mkvar. intros H Ha. bindinv H. inv H. apply var_okb_intro; auto using shape_of_ok.
Qed.
Lemma putvar_ok T ds a src fb v : putvar T ds a src fb = Ok v -> attrs_ok a = true -> var_okb T v = true.
Proof.
  unfold putvar. intros H Ha. bindinv H.
  destruct (bc_into (vshape a0) src || (fb && Nat.eqb (prod (vshape a0)) (prod src))); inv H.
  eapply mkvar_ok; eauto.
Qed.

Definition okP (T : dimtab) (kv : name * var) : bool := var_okb T (snd kv).
Lemma okP_key T k1 k2 x : okP T (k1, x) = okP T (k2, x).
Proof. reflexivity. Qed.
Lemma vars_okb_aset T k v acc : vars_okb T acc = true -> var_okb T v = true -> vars_okb T (aset k v acc) = true.
Proof. intros. apply (forallb_aset (okP T)); auto using okP_key. Qed.
Lemma vars_okb_adel T k acc : vars_okb T acc = true -> vars_okb T (adel k acc) = true.
Proof. intros. apply (forallb_adel (okP T)); auto. Qed.
Lemma vars_okb_lookup T k v vs : vars_okb T vs = true -> lookup k vs = Some v -> var_okb T v = true.
Proof. intros H1 H2. apply (forallb_lookup (okP T) k v vs H1 H2). Qed.

Lemma vars_okb_vattrs T vs : vars_okb T vs = true -> vattrs_ok vs = true.
Proof.
  unfold vars_okb, vattrs_ok. induction vs as [|p vs IH]; simpl; intros H; [reflexivity|].
  apply andb_true_iff in H as [H1 H2]. apply var_okb_elim in H1 as [_ H1]. rewrite H1, IH; auto.
Qed.
Lemma vattrs_lookup vs k v : vattrs_ok vs = true -> lookup k vs = Some v -> attrs_ok (vattrs v) = true.
Proof.
  intros H1 H2. apply (forallb_lookup (fun kv => attrs_ok (vattrs (snd kv))) k v vs H1 H2).
Qed.

Lemma wfb_elim f : wfb f = true -> vars_okb (fdims f) (fvars f) = true /\ attrs_ok (fattrs f) = true.
Proof. unfold wfb. intros H. apply andb_true_iff in H. exact H. Qed.
Lemma wfb_intro T vs a c : vars_okb T vs = true -> attrs_ok a = true -> wfb (File T vs a c) = true.
Proof. unfold wfb; simpl. intros -> ->. reflexivity. Qed.

(* ---- the variable loops: every loop allocates through putvar against the final table -------- *)
Lemma copyvars_ok T vs : forall acc vs',
  vattrs_ok vs = true -> vars_okb T acc = true -> copyvars T vs acc = Ok vs' -> vars_okb T vs' = true.
Proof.
  induction vs as [|[k v] vs IH]; simpl; intros acc vs' Ha Hacc H.
  - inv H. exact Hacc.
  - apply andb_true_iff in Ha as [Ha1 Ha2]. bindinv H.
    eapply IH; [exact Ha2| |exact H]. apply vars_okb_aset; auto. eapply putvar_ok; eauto.
Qed.

Lemma copykeys_ok T src ks : forall acc vs',
  vattrs_ok src = true -> vars_okb T acc = true -> copykeys T src ks acc = Ok vs' -> vars_okb T vs' = true.
Proof.
  induction ks as [|k ks IH]; simpl; intros acc vs' Ha Hacc H.
  - inv H. exact Hacc.
  - destruct (lookup k src) as [v|] eqn:E; [|discriminate]. bindinv H.
    eapply IH; [exact Ha| |exact H]. apply vars_okb_aset; auto.
    eapply putvar_ok; eauto. eapply vattrs_lookup; eauto.
Qed.

Lemma rename_vars_ok T src prs : forall acc vs',
  vattrs_ok src = true -> vars_okb T acc = true -> rename_vars T src prs acc = Ok vs' -> vars_okb T vs' = true.
Proof.
  induction prs as [|[o n] prs IH]; simpl; intros acc vs' Ha Hacc H.
  - inv H. exact Hacc.
  - destruct (lookup o src) as [v|] eqn:E; [|discriminate]. bindinv H.
    eapply IH; [exact Ha| |exact H]. apply vars_okb_adel. apply vars_okb_aset; auto.
    eapply putvar_ok; eauto. eapply vattrs_lookup; eauto.
Qed.

Lemma insert_vars_ok T dk no mo b a vs : forall acc vs',
  vattrs_ok vs = true -> vars_okb T acc = true -> insert_vars T dk no mo b a vs acc = Ok vs' -> vars_okb T vs' = true.
Proof.
  induction vs as [|[k v] vs IH]; simpl; intros acc vs' Ha Hacc H.
  - inv H. exact Hacc.
  - apply andb_true_iff in Ha as [Ha1 Ha2]. bindinv H.
    eapply IH; [exact Ha2| |exact H]. apply vars_okb_aset; auto.
    destruct ((no && memb dk (vdims v)) || (mo && Nat.eqb (length (vdims v)) 1)).
    + eapply putvar_ok; eauto.
    + destruct (insert_pos b a (vdims v)); eapply putvar_ok; eauto.
Qed.

Lemma remove_vars_ok T rm vs : forall acc vs',
  vattrs_ok vs = true -> vars_okb T acc = true -> remove_vars T rm vs acc = Ok vs' -> vars_okb T vs' = true.
Proof.
  induction vs as [|[k v] vs IH]; simpl; intros acc vs' Ha Hacc H.
  - inv H. exact Hacc.
  - apply andb_true_iff in Ha as [Ha1 Ha2]. bindinv H.
    eapply IH; [exact Ha2| |exact H]. apply vars_okb_aset; auto. eapply putvar_ok; eauto.
Qed.

Lemma slice_vars_ok T ss aa al vs : forall acc vs',
  vattrs_ok vs = true -> vars_okb T acc = true -> slice_vars T ss aa al vs acc = Ok vs' -> vars_okb T vs' = true.
Proof.
  induction vs as [|[k v] vs IH]; simpl; intros acc vs' Ha Hacc H.
  - inv H. exact Hacc.
  - apply andb_true_iff in Ha as [Ha1 Ha2]. bindinv H. bindinv H.
    eapply IH; [exact Ha2| |exact H]. apply vars_okb_aset; auto. eapply putvar_ok; eauto.
Qed.

Lemma apply_vars_ok T fs vs : forall acc vs',
  vattrs_ok vs = true -> vars_okb T acc = true -> apply_vars T fs vs acc = Ok vs' -> vars_okb T vs' = true.
Proof.
  induction vs as [|[k v] vs IH]; simpl; intros acc vs' Ha Hacc H.
  - inv H. exact Hacc.
  - apply andb_true_iff in Ha as [Ha1 Ha2]. bindinv H. bindinv H.
    eapply IH; [exact Ha2| |exact H]. apply vars_okb_aset; auto. eapply putvar_ok; eauto.
Qed.

Lemma mask_vars_ok T co md ws wc vs : forall acc vs',
  vattrs_ok vs = true -> vars_okb T acc = true -> mask_vars T co md ws wc vs acc = Ok vs' -> vars_okb T vs' = true.
Proof.
  induction vs as [|[k v] vs IH]; simpl; intros acc vs' Ha Hacc H.
  - inv H. exact Hacc.
  - apply andb_true_iff in Ha as [Ha1 Ha2].
    match type of H with (if ?c then _ else _) = _ => destruct c; [discriminate|] end.
    bindinv H. eapply IH; [exact Ha2| |exact H]. apply vars_okb_aset; auto.
    eapply putvar_ok; eauto using attrs_ok_add_fill.
Qed.

(* stack needs the attributes of the operand files too: they are part of the operation's argument.
   The result does not depend on them being retrievable for the SHAPE clauses, but it does for the
   attribute clause, so the operand files are required to be well-formed as well. *)
Lemma stack_file_vars_ok T fsv d vs : forall acc vs',
  vattrs_ok vs = true -> vars_okb T acc = true -> stack_file_vars T fsv d vs acc = Ok vs' -> vars_okb T vs' = true.
Proof.
  induction vs as [|[k v] vs IH]; simpl; intros acc vs' Ha Hacc H.
  - inv H. exact Hacc.
  - apply andb_true_iff in Ha as [Ha1 Ha2]. destruct (has k acc).
    + eapply IH; eauto.
    + bindinv H. bindinv H. eapply IH; [exact Ha2| |exact H]. apply vars_okb_aset; auto. eapply putvar_ok; eauto.
Qed.
Lemma stack_vars_ok T fsv d todo : forall acc vs',
  forallb vattrs_ok todo = true -> vars_okb T acc = true -> stack_vars T fsv d todo acc = Ok vs' -> vars_okb T vs' = true.
Proof.
  induction todo as [|vs todo IH]; simpl; intros acc vs' Ha Hacc H.
  - inv H. exact Hacc.
  - apply andb_true_iff in Ha as [Ha1 Ha2]. bindinv H. eapply IH; [exact Ha2| |exact H].
    eapply stack_file_vars_ok; eauto.
Qed.

(* ---- per operation ----------------------------------------------------------------------------- *)
Lemma vars_okb_nil T : vars_okb T [] = true.
Proof. reflexivity. Qed.

Lemma copy_wf f f' : wfb f = true -> impl_copy f = Ok f' -> wfb f' = true /\ fdims f' = fdims f.
Proof.
  intros W H. apply wfb_elim in W as [W1 W2]. unfold impl_copy in H. bindinv H. inv H. split; [|reflexivity].
  apply wfb_intro; auto. eapply copyvars_ok; [eapply vars_okb_vattrs; exact W1 | apply vars_okb_nil | eassumption].
Qed.

Lemma subset_wf f ks f' : wfb f = true -> impl_subset f ks = Ok f' -> wfb f' = true /\ fdims f' = fdims f.
Proof.
  intros W H. apply wfb_elim in W as [W1 W2]. unfold impl_subset in H. bindinv H. inv H. split; [|reflexivity].
  apply wfb_intro; auto. eapply copykeys_ok; [eapply vars_okb_vattrs; exact W1 | apply vars_okb_nil | eassumption].
Qed.

Lemma rename_var_wf f prs f' : wfb f = true -> impl_rename_var f prs = Ok f' -> wfb f' = true.
Proof.
  intros W H. apply wfb_elim in W as [W1 W2]. unfold impl_rename_var in H. bindinv H. bindinv H. inv H.
  apply wfb_intro; auto. eapply rename_vars_ok; [| |exact E0]; eauto using vars_okb_vattrs.
  eapply copyvars_ok; [eapply vars_okb_vattrs; exact W1 | apply vars_okb_nil | eassumption].
Qed.

Lemma insert_wf f dk dl no mo b a f' : wfb f = true -> impl_insert f dk dl no mo b a = Ok f' -> wfb f' = true.
Proof.
  intros W H. apply wfb_elim in W as [W1 W2]. unfold impl_insert in H. bindinv H. inv H.
  apply wfb_intro; auto. eapply insert_vars_ok; [eapply vars_okb_vattrs; exact W1 | apply vars_okb_nil | eassumption].
Qed.

Lemma remove_wf f dk f' : wfb f = true -> impl_remove f dk = Ok f' -> wfb f' = true.
Proof.
  intros W H. apply wfb_elim in W as [W1 W2]. unfold impl_remove in H. bindinv H. inv H.
  apply wfb_intro; auto. eapply remove_vars_ok; [eapply vars_okb_vattrs; exact W1 | apply vars_okb_nil | eassumption].
Qed.

Lemma slice_wf f ss f' : wfb f = true -> impl_slice f ss = Ok f' -> wfb f' = true.
Proof.
  intros W H. apply wfb_elim in W as [W1 W2]. unfold impl_slice in H.
  match type of H with (if ?c then _ else _) = _ => destruct c; [discriminate|] end.
  bindinv H. bindinv H. bindinv H. inv H.
  apply wfb_intro; auto. eapply slice_vars_ok; [eapply vars_okb_vattrs; exact W1 | apply vars_okb_nil | eassumption].
Qed.

Lemma apply_wf f fs f' : wfb f = true -> impl_apply f fs = Ok f' -> wfb f' = true.
Proof.
  intros W H. apply wfb_elim in W as [W1 W2]. unfold impl_apply in H.
  bindinv H. bindinv H. bindinv H. inv H.
  apply wfb_intro; auto. eapply apply_vars_ok; [eapply vars_okb_vattrs; exact W1 | apply vars_okb_nil | eassumption].
Qed.

Lemma interp_wf f d n f' : wfb f = true -> impl_interp f d n = Ok f' -> wfb f' = true.
Proof.
  intros W H. unfold impl_interp in H. destruct (lookup d (fvars f)) as [v|]; [|discriminate].
  destruct (vshape v) as [|x [|y l]]; try discriminate. eapply apply_wf; eauto.
Qed.

Lemma mask_wf f md ws wc f' : wfb f = true -> impl_mask f md ws wc = Ok f' -> wfb f' = true.
Proof.
  intros W H. apply wfb_elim in W as [W1 W2]. unfold impl_mask in H. bindinv H. inv H.
  apply wfb_intro; auto. eapply mask_vars_ok; [eapply vars_okb_vattrs; exact W1 | apply vars_okb_nil | eassumption].
Qed.


Lemma stack_wf f others d f' :
  wfb f = true -> forallb (fun g => vattrs_ok (fvars g)) others = true -> impl_stack f others d = Ok f' -> wfb f' = true.
Proof.
  intros W Ho H. apply wfb_elim in W as [W1 W2]. unfold impl_stack in H.
  bindinv H.
  match type of H with (if ?c then _ else _) = _ => destruct c; [discriminate|] end.
  bindinv H. destruct (lookup d (fdims f)) as [[n u]|]; [|discriminate]. bindinv H. inv H.
  apply wfb_intro; auto. eapply stack_vars_ok; [| |exact E1]; auto using vars_okb_nil.
  simpl. rewrite (vars_okb_vattrs _ _ W1). simpl.
  clear - Ho. induction others as [|g others IH]; simpl in *; [reflexivity|].
  apply andb_true_iff in Ho as [H1 H2]. rewrite H1, IH; auto.
Qed.

(* reorderDimensions *)
Lemma nth_error_dimlen T : forall ds sh d i,
  map (dimlen T) ds = map Some sh -> index_of d ds = Some i -> dimlen T d = nth_error sh i.
Proof.
  induction ds as [|x ds IH]; simpl; intros sh d i H1 H2; [discriminate|].
  destruct sh as [|n sh]; [discriminate|]. simpl in H1. inv H1.
  destruct (Nat.eqb d x) eqn:E.
  - apply Nat.eqb_eq in E; subst. inv H2. simpl. congruence.
  - destruct (index_of d ds) as [j|] eqn:E2; [|discriminate]. inv H2. simpl. eapply IH; eauto.
Qed.
Lemma axis_lens_ok T v : forall ds sh,
  map (dimlen T) (vdims v) = map Some (vshape v) -> axis_lens v ds = Ok sh -> map (dimlen T) ds = map Some sh.
Proof.
  induction ds as [|d ds IH]; simpl; intros sh Hv H.
  - inv H. reflexivity.
  - unfold axis_len in H. destruct (index_of d (vdims v)) as [i|] eqn:E; [|discriminate].
    destruct (nth_error (vshape v) i) as [n|] eqn:E2; [|discriminate]. bindinv H. inv H. simpl.
    f_equal; [|apply IH; auto]. rewrite <- E2. eapply nth_error_dimlen; eauto.
Qed.
Lemma reorder_var_ok T no v v' : var_okb T v = true -> reorder_var no v = Ok v' -> var_okb T v' = true.
Proof.
  intros Hv H. unfold reorder_var in H. destruct (filter (fun d => memb d (vdims v)) no) as [|x l] eqn:E.
  - inv H. exact Hv.
  - match type of H with (if ?c then _ else _) = _ => destruct c; [|discriminate] end.
    bindinv H. inv H. apply var_okb_elim in Hv as [H1 H2]. apply var_okb_intro; auto.
    eapply axis_lens_ok; eauto.
Qed.
Lemma reorder_vars_ok T no vs : forall vs',
  vars_okb T vs = true ->
  mapM (fun kv => do v' <- reorder_var no (snd kv); Ok (fst kv, v')) vs = Ok vs' -> vars_okb T vs' = true.
Proof.
  induction vs as [|[k v] vs IH]; simpl; intros vs' Hv H.
  - inv H. reflexivity.
  - apply andb_true_iff in Hv as [H1 H2]. bindinv H. bindinv E. inv E. bindinv H. inv H. simpl.
    rewrite (reorder_var_ok _ _ _ _ H1 E0). simpl. apply IH; auto.
Qed.
Lemma reorder_wf f no f' : wfb f = true -> impl_reorder f no = Ok f' -> wfb f' = true.
Proof.
  intros W H. unfold impl_reorder in H. destruct (negb (nodupb no)); [discriminate|].
  bindinv H. bindinv H. inv H. destruct (copy_wf _ _ W E) as [W' _]. apply wfb_elim in W' as [W1 W2].
  apply wfb_intro; auto. eapply reorder_vars_ok; eauto.
Qed.

(* eval inside its safe domain *)
Lemma var_okb_lengths T v : var_okb T v = true -> length (vdims v) = length (vshape v).
Proof.
  intros H. apply var_okb_elim in H as [H _]. apply (f_equal (@length _)) in H. rewrite !map_length in H. exact H.
Qed.
Lemma var_eta v : Var (vdims v) (vshape v) (vattrs v) = v.
Proof. destruct v; reflexivity. Qed.

Lemma nat_list_eqb_eq (a b : list nat) : list_eqb Nat.eqb a b = true -> a = b.
Proof. apply list_eqb_eq. intros x y. apply Nat.eqb_eq. Qed.
Lemma opt_shape_eqb_eq (a b : option (list nat)) : option_eqb (list_eqb Nat.eqb) a b = true -> a = b.
Proof.
  destruct a, b; simpl; intros H; try discriminate; auto. f_equal. apply nat_list_eqb_eq; auto.
Qed.

Lemma eval_value_attrs vs e val : vattrs_ok vs = true -> eval_value vs e = Ok val -> attrs_ok (vattrs val) = true.
Proof.
  intros A H. destruct e as [x|x y|x]; simpl in H.
  - destruct (lookup x vs) as [v|] eqn:E; [|discriminate]. inv H. eapply vattrs_lookup; eauto.
  - destruct (lookup x vs) as [va|] eqn:Ex; [|discriminate]. destruct (lookup y vs) as [vb|]; [|discriminate].
    destruct (bcast (vshape va) (vshape vb)); [|discriminate]. inv H. simpl. eapply vattrs_lookup; eauto.
  - destruct (lookup x vs) as [v|] eqn:E; [|discriminate]. destruct (vshape v); [discriminate|]. inv H. simpl.
    eapply vattrs_lookup; eauto.
Qed.

(* eval: the file the value is put into is well-formed; the stored variable's attributes are retrievable *)
Lemma eval_parts_ok f key e ca base stored :
  wfb f = true -> eval_parts f key e ca = Ok (base, stored) ->
  wfb base = true /\ attrs_ok (vattrs stored) = true.
Proof.
  intros W H. unfold eval_parts in H.
  set (first := if has key (fvars f) then key else expr_first e) in *.
  destruct (lookup first (fvars f)) as [fv|] eqn:Ef; [|discriminate].
  bindinv H. bindinv H. inv H.
  pose proof (wfb_elim _ W) as [W1 W2]. pose proof (vars_okb_vattrs _ _ W1) as VA. split.
  - destruct ca.
    + eapply copy_wf; eauto.
    + bindinv E. inv E. destruct (subset_wf _ _ _ W E1) as [Wg Eg]. apply wfb_elim in Wg as [G1 G2].
      apply wfb_intro; auto. apply vars_okb_adel; auto.
  - pose proof (eval_value_attrs _ _ _ VA E0) as A0. pose proof (vattrs_lookup _ _ _ VA Ef) as Af.
    match goal with |- context [if ?c then _ else _] => destruct c end; simpl; auto using attrs_ok_aset.
Qed.

Lemma lookup_aset_same {V} k (v : V) l : lookup k (aset k v l) = Some v.
Proof. rewrite lookup_aset, Nat.eqb_refl. reflexivity. Qed.

(* EXACT characterisation: eval leaves the file well-formed iff the value's shape equals the lengths of the dimensions it inherits *)
Theorem eval_wf_iff f key e ca f' :
  wfb f = true -> impl_eval f key e ca = Ok f' -> (wfb f' = true <-> eval_fits f key e ca = true).
Proof.
  intros W H. unfold impl_eval in H. bindinv H. unfold eval_fits. rewrite E. destruct a as [base stored]. inv H. simpl.
  destruct (eval_parts_ok _ _ _ _ _ _ W E) as [Wb As]. apply wfb_elim in Wb as [B1 B2]. split.
  - intros W'. apply wfb_elim in W' as [V1 _]. simpl in V1.
    pose proof (vars_okb_lookup _ key stored _ V1 (lookup_aset_same _ _ _)) as Vs.
    apply var_okb_elim in Vs as [Vs _]. rewrite Vs. apply opt_list_eqb_refl.
  - intros Fit. apply opt_list_eqb_eq in Fit. apply wfb_intro; auto.
    apply vars_okb_aset; [apply vars_okb_adel; auto|]. destruct stored as [ds sh at_]. apply var_okb_intro; auto.
Qed.
Lemma eval_wf f key e ca f' :
  wfb f = true -> eval_fits f key e ca = true -> impl_eval f key e ca = Ok f' -> wfb f' = true.
Proof. intros W S H. apply (eval_wf_iff _ _ _ _ _ W H). exact S. Qed.

(* arithmetic (repaired pncbo): a result shape other than the left variable's raises *)
Lemma binop_vars_ok T co other vs : forall acc vs',
  vars_okb T vs = true ->
  vars_okb T acc = true -> binop_vars T co other vs acc = Ok vs' -> vars_okb T vs' = true.
Proof.
  induction vs as [|[k v] vs IH]; simpl; intros acc vs' Hv Hacc H.
  - inv H. exact Hacc.
  - apply andb_true_iff in Hv as [Hv1 Hv2]. bindinv H.
    eapply IH; [exact Hv2| |exact H]. apply vars_okb_aset; auto.
    pose proof (var_okb_elim _ _ Hv1) as [V1 V2].
    destruct (memb k co); [eapply putvar_ok; eauto|].
    destruct (lookup k other) as [w|]; [|eapply putvar_ok; eauto].
    destruct (bcast (vshape v) (vshape w)) as [s|]; [|discriminate].
    destruct (list_eqb Nat.eqb s (vshape v)) eqn:Es; [|discriminate]. apply nat_list_eqb_eq in Es. subst s. inv E.
    apply var_okb_intro; auto using attrs_ok_aset, attrs_ok_add_fill.
Qed.
Lemma binop_wf f other f' : wfb f = true -> impl_binop f other = Ok f' -> wfb f' = true.
Proof.
  intros W H. apply wfb_elim in W as [W1 W2]. unfold impl_binop in H. bindinv H. inv H.
  apply wfb_intro; auto. eapply binop_vars_ok; [exact W1 | apply vars_okb_nil | eassumption].
Qed.

(* ---- renameDimensions (repaired): completes => every dimension entry is found under its new name ---- *)
Lemma memb_cons k x l : memb k (x :: l) = Nat.eqb k x || memb k l.
Proof. reflexivity. Qed.

Lemma rd_ins_spec T0 prs : forall T T',
  rd_ins T0 T prs = Ok T' -> nodupb (map snd prs) = true ->
  (forall k, ~ In k (map snd prs) -> lookup k T' = lookup k T) /\
  (forall o n, In (o, n) prs -> lookup n T' = lookup o T0).
Proof.
  induction prs as [|[o n] t IH]; intros T T' H ND.
  - inv H. split; auto. intros o n [].
  - simpl in H. destruct (lookup o T0) as [v|] eqn:Eo; [|discriminate].
    simpl in ND. apply andb_true_iff in ND as [ND1 ND2]. apply negb_true_iff in ND1. apply memb_false in ND1.
    destruct (IH _ _ H ND2) as [I1 I2]. split.
    + intros k Hk. simpl in Hk. rewrite I1 by tauto. rewrite lookup_aset.
      destruct (Nat.eqb k n) eqn:E; [|reflexivity]. apply Nat.eqb_eq in E. subst. tauto.
    + intros o' n' [Heq|Hin].
      * inv Heq. rewrite I1 by exact ND1. rewrite lookup_aset, Nat.eqb_refl. congruence.
      * apply I2; auto.
Qed.

Lemma rd_del_spec prs : forall T k,
  lookup k (rd_del T prs) = if memb k (map fst prs) then None else lookup k T.
Proof.
  induction prs as [|[o n] t IH]; intros T k; simpl; [reflexivity|].
  rewrite IH, lookup_adel. fold (memb k (map fst t)).
  destruct (Nat.eqb k o); simpl; destruct (memb k (map fst t)); reflexivity.
Qed.

Lemma lookup_None_memb {V} k (l : list (name * V)) : lookup k l = None -> memb k (map fst l) = false.
Proof.
  induction l as [|[a b] l IH]; simpl; intros H; [reflexivity|].
  destruct (Nat.eqb k a); [discriminate|]. simpl. apply IH; auto.
Qed.

Lemma rename_dim_lookup T prs T2 :
  rename_collides T prs = false -> rd_ins T (rd_del T prs) prs = Ok T2 ->
  forall d x, lookup d T = Some x -> lookup (rn prs d) T2 = Some x.
Proof.
  unfold rename_collides. intros S H d x Hd.
  apply orb_false_iff in S as [ND EX]. apply negb_false_iff in ND.
  destruct (rd_ins_spec _ _ _ _ H ND) as [A1 A2].
  unfold rn. destruct (lookup d prs) as [n|] eqn:E.
  - apply lookup_In in E. rewrite (A2 _ _ E). exact Hd.
  - pose proof (lookup_None_memb _ _ E) as NO. rewrite A1.
    + rewrite rd_del_spec, NO. exact Hd.
    + intros Hin. apply in_map_iff in Hin as [[o n] [Hn Hin]]. simpl in Hn; subst.
      assert (existsb (fun p => has (snd p) T && negb (memb (snd p) (map fst prs))) prs = true).
      { apply existsb_exists. exists (o, d). split; auto. simpl. unfold has. rewrite Hd, NO. reflexivity. }
      congruence.
Qed.

Lemma dimlen_rename T T2 (r : name -> name) :
  (forall d x, lookup d T = Some x -> lookup (r d) T2 = Some x) ->
  forall ds sh, map (dimlen T) ds = map Some sh -> map (dimlen T2) (map r ds) = map Some sh.
Proof.
  intros Hr. induction ds as [|d ds IH]; intros [|n sh] H; simpl in *; try discriminate; auto.
  injection H as H1 H2. f_equal; [|apply IH; auto]. unfold dimlen in *. destruct (lookup d T) as [x|] eqn:E; [|discriminate].
  rewrite (Hr _ _ E). assumption.
Qed.

Lemma rename_dim_wf f prs f' :
  wfb f = true -> impl_rename_dim f prs = Ok f' -> wfb f' = true.
Proof.
  intros W H. unfold impl_rename_dim in H. bindinv H. bindinv H.
  destruct (rename_collides (fdims a) prs) eqn:S; [discriminate|]. inv H.
  destruct (copy_wf _ _ W E) as [W0 E0']. apply wfb_elim in W0 as [W1 W2].
  apply wfb_intro; auto.
  pose proof (rename_dim_lookup _ _ _ S E0) as L.
  clear - W1 L. induction (fvars a) as [|[k v] vs IH]; simpl in *; [reflexivity|].
  apply andb_true_iff in W1 as [V1 V2]. rewrite IH by assumption.
  apply var_okb_elim in V1 as [V1 V1']. rewrite var_okb_intro; auto.
  eapply dimlen_rename; eauto.
Qed.

(* ---- one step, any operation, inside the safe domain ------------------------------------------- *)
Theorem step_wf f o f' :
  wfb f = true -> safe_op f o = true -> operands_ok o = true -> step f o = Ok f' -> wfb f' = true.
Proof.
  intros W S Op H. destruct o; simpl in H, S, Op.
  - eapply copy_wf; eauto.
  - eapply subset_wf; eauto.
  - eapply rename_var_wf; eauto.
  - eapply rename_dim_wf; eauto.
  - eapply insert_wf; eauto.
  - eapply remove_wf; eauto.
  - eapply reorder_wf; eauto.
  - eapply slice_wf; eauto.
  - eapply apply_wf; eauto.
  - eapply stack_wf; eauto.
  - eapply mask_wf; eauto.
  - unfold safe_op in S; simpl in S. destruct (eval_fits f key e copyall) eqn:E; [|discriminate].
    eapply eval_wf; eauto.
  - eapply binop_wf; eauto.
  - eapply interp_wf; eauto.
Qed.

(* every operation except eval: no side condition at all *)
Theorem step_wf_noeval f o f' :
  wfb f = true -> (match o with OEval _ _ _ => false | _ => true end) = true -> operands_ok o = true ->
  step f o = Ok f' -> wfb f' = true.
Proof.
  intros W NE Op H. eapply step_wf; eauto. destruct o; try reflexivity; discriminate.
Qed.

(* ---- operation sequences of any length ----------------------------------------------------------- *)
Lemma region_cons f o t :
  run_region f (o :: t) = 0 -> safe_op f o = true /\ (forall f', step f o = Ok f' -> run_region f' t = 0).
Proof.
  simpl. unfold safe_op. destruct (op_region f o) eqn:E; [|discriminate]. intros H. split; [reflexivity|].
  intros f' Hs. rewrite Hs in H. exact H.
Qed.

Theorem run_wf ops : forall f f',
  wfb f = true -> run_region f ops = 0 -> forallb operands_ok ops = true -> run f ops = Ok f' -> wfb f' = true.
Proof.
  induction ops as [|o t IH]; intros f f' W R Op H.
  - inv H. exact W.
  - simpl in H. bindinv H. simpl in Op. apply andb_true_iff in Op as [Op1 Op2].
    apply region_cons in R as [S R]. eapply IH; [|apply R; exact E|exact Op2|exact H].
    eapply step_wf; eauto.
Qed.

Theorem trace_wf ops : forall f,
  wfb f = true -> run_region f ops = 0 -> forallb operands_ok ops = true -> trace_wfb (trace f ops) = true.
Proof.
  induction ops as [|o t IH]; intros f W R Op; [reflexivity|].
  simpl in Op. apply andb_true_iff in Op as [Op1 Op2]. apply region_cons in R as [S R].
  simpl. destruct (step f o) as [g|] eqn:E; [|reflexivity].
  assert (Wg : wfb g = true) by (eapply step_wf; eauto).
  simpl. rewrite Wg. simpl. apply IH; auto.
Qed.

(* ---- unlimited flags ---------------------------------------------------------------------------------- *)
Lemma unlim_ext T T' :
  (forall k x, lookup k T = Some x -> lookup k T' = Some x \/ lookup k T' = None) -> unlim_keptb T T' = true.
Proof.
  intros H. unfold unlim_keptb. apply forallb_forall. intros p _.
  destruct (lookup (fst p) T) as [[n u]|] eqn:E; [|reflexivity].
  destruct (H _ _ E) as [-> | ->]; [apply eqb_reflx | reflexivity].
Qed.
Lemma unlim_refl T : unlim_keptb T T = true.
Proof. apply unlim_ext. auto. Qed.

Lemma keeps_table_dims f o f' : keeps_table o = true -> step f o = Ok f' -> fdims f' = fdims f.
Proof.
  intros K H. destruct o; try discriminate K; simpl in H.
  - unfold impl_copy in H. bindinv H. inv H. reflexivity.
  - unfold impl_subset in H. bindinv H. inv H. reflexivity.
  - unfold impl_rename_var in H. bindinv H. bindinv H. inv H. reflexivity.
  - unfold impl_reorder in H. destruct (negb (nodupb neworder)); [discriminate|]. bindinv H. bindinv H. inv H.
    unfold impl_copy in E. bindinv E. inv E. reflexivity.
  - unfold impl_mask in H. bindinv H. inv H. reflexivity.
  - unfold impl_eval in H. bindinv H. inv H. simpl. unfold eval_parts in E.
    destruct (lookup _ (fvars f)); [|discriminate]. bindinv E. bindinv E. inv E. simpl.
    destruct copyall.
    + unfold impl_copy in E0. bindinv E0. inv E0. reflexivity.
    + bindinv E0. inv E0. simpl.
      match goal with Hs : impl_subset _ _ = Ok _ |- _ => unfold impl_subset in Hs; bindinv Hs; inv Hs end. reflexivity.
  - unfold impl_binop in H. bindinv H. inv H. reflexivity.
Qed.

Lemma lookup_filter_key {V} (g : name -> bool) k (l : list (name * V)) :
  lookup k (filter (fun p => g (fst p)) l) = if g k then lookup k l else None.
Proof.
  induction l as [|[a b] l IH]; simpl; [destruct (g k); reflexivity|].
  destruct (g a) eqn:Ea; simpl; destruct (Nat.eqb k a) eqn:E; auto.
  - apply Nat.eqb_eq in E; subst. rewrite Ea. reflexivity.
  - apply Nat.eqb_eq in E; subst. rewrite IH, Ea. reflexivity.
Qed.

(* dimension tables rebuilt by _copywith(dimensions=False) + copyDimension(dimlen=...) keep keys and flags *)
Lemma relen_lookup g : forall T T1, relen T g = Ok T1 ->
  forall k, match lookup k T with
            | Some (n, u) => exists n', lookup k T1 = Some (n', u)
            | None => lookup k T1 = None end.
Proof.
  unfold relen. induction T as [|[a [n u]] T IH]; simpl; intros T1 H k.
  - inv H. reflexivity.
  - bindinv H. bindinv E. inv E. bindinv H. inv H. simpl.
    destruct (Nat.eqb k a); [eauto|]. apply IH. exact E.
Qed.
Lemma unlim_ext2 T T' :
  (forall k n u, lookup k T = Some (n, u) -> lookup k T' = None \/ exists n', lookup k T' = Some (n', u)) ->
  unlim_keptb T T' = true.
Proof.
  intros H. unfold unlim_keptb. apply forallb_forall. intros p _.
  destruct (lookup (fst p) T) as [[n u]|] eqn:E; [|reflexivity].
  destruct (H _ _ _ E) as [-> | [n' ->]]; [reflexivity|apply eqb_reflx].
Qed.
Lemma relen_unlim g T T1 : relen T g = Ok T1 -> unlim_keptb T T1 = true.
Proof.
  intros H. apply unlim_ext2. intros k n u Hk. pose proof (relen_lookup g _ _ H k) as L. rewrite Hk in L. right. exact L.
Qed.
Lemma apply_unlim f fs f' : impl_apply f fs = Ok f' -> unlim_keptb (fdims f) (fdims f') = true.
Proof.
  unfold impl_apply. intros H. bindinv H. bindinv H. bindinv H. inv H. simpl. eapply relen_unlim; eauto.
Qed.

Theorem step_unlimited f o f' :
  step f o = Ok f' ->
  match o with
  | ORenameDim _ | OInsert _ _ _ _ _ _ | ORemove _ | OApply _ | OInterp _ _ => true
  | OSlice ss => slice_unl_ok f ss
  | _ => keeps_table o
  end = true ->
  unlim_kept_op o (fdims f) (fdims f') = true.
Proof.
  intros H K. destruct o; try discriminate K;
    try (unfold unlim_kept_op; rewrite (keeps_table_dims _ _ _ K H); apply unlim_refl); simpl in H; unfold unlim_kept_op.
  - (* renameDimensions: the dimension formerly called d is now (rn d), with the same flag *)
    unfold impl_rename_dim in H. bindinv H. bindinv H.
    destruct (rename_collides (fdims a) prs) eqn:S; [discriminate|]. inv H. simpl.
    assert (Ea : fdims a = fdims f) by (unfold impl_copy in E; bindinv E; inv E; reflexivity).
    rewrite Ea in *. pose proof (rename_dim_lookup _ _ _ S E0) as L.
    unfold unlim_renamedb. apply forallb_forall. intros p _.
    destruct (lookup (fst p) (fdims f)) as [[n u]|] eqn:Ep; [|reflexivity].
    rewrite (L _ _ Ep). apply eqb_reflx.
  - (* insertDimension *)
    unfold impl_insert in H. bindinv H. inv H. simpl. apply unlim_ext. intros k x Hk.
    destruct (has dk (fdims f)) eqn:Eh; [left; exact Hk|]. left. rewrite lookup_aset.
    destruct (Nat.eqb k dk) eqn:Ek; [|exact Hk]. apply Nat.eqb_eq in Ek; subst. unfold has in Eh. rewrite Hk in Eh. discriminate.
  - (* removeSingleton *)
    unfold impl_remove in H. bindinv H. inv H. simpl. apply unlim_ext. intros k x Hk.
    rewrite (lookup_filter_key (fun d => negb (memb d (removed_dims (fdims f) dk)))).
    destruct (negb (memb k (removed_dims (fdims f) dk))); auto.
  - (* sliceDimensions *)
    unfold impl_slice in H.
    match type of H with (if ?c then _ else _) = _ => destruct c; [discriminate|] end.
    bindinv H. bindinv H. bindinv H. inv H. simpl.
    apply unlim_ext2. intros k n u Hk. pose proof (relen_lookup _ _ _ E0 k) as L. rewrite Hk in L. destruct L as [n' L].
    unfold slice_unl_ok in K.
    destruct (Nat.ltb 1 (length (filter (fun p => is_arr (snd p)) ss))) eqn:AA; simpl in K; [|right; eauto].
    rewrite lookup_aset. destruct (Nat.eqb k n_points) eqn:Ek; [|right; eauto].
    apply Nat.eqb_eq in Ek. subst k. rewrite Hk in K. destruct u; [discriminate|]. right. eauto.
  - (* applyAlongDimensions *)
    eapply apply_unlim; eauto.
  - (* interpDimension *)
    unfold impl_interp in H. destruct (lookup d (fvars f)) as [v|]; [|discriminate].
    destruct (vshape v) as [|x [|y l]]; try discriminate. eapply apply_unlim; eauto.
Qed.

(* ---- completion of applyAlongDimensions inside its documented domain ------------------------------------------ *)
Lemma afun_total_len g n : afun_total g = true -> exists m, afun_len g n = Some m.
Proof. destruct g; simpl; intros H; try discriminate; eauto. Qed.

Lemma bc_into_rev_refl l : bc_into_rev l l = true.
Proof. induction l as [|x l IH]; simpl; auto. rewrite Nat.eqb_refl, IH. reflexivity. Qed.
Lemma bc_into_refl s : bc_into s s = true.
Proof. unfold bc_into. apply bc_into_rev_refl. Qed.

(* the new length of dimension d (current length n) *)
Definition apply_newlen (fs : list (name * afun)) (d : name) (n : nat) : nat :=
  match lookup d fs with
  | Some g => match afun_len g n with Some m => m | None => n end
  | None => n end.

Lemma apply_news_ok f : forall fs,
  apply_dom f fs = true ->
  exists news,
    mapM (apply_new1 f) fs = Ok news
    /\ forall d n u, lookup d (fdims f) = Some (n, u) ->
         match lookup d news with Some c => c | None => n end = apply_newlen fs d n.
Proof.
  induction fs as [|[d g] fs IH]; intros D.
  - exists []. split; [reflexivity|]. intros. reflexivity.
  - simpl in D. apply andb_true_iff in D as [D1 D2]. apply andb_true_iff in D1 as [D1 CC]. apply andb_true_iff in D1 as [HD TT].
    destruct (IH D2) as (news & E & L). simpl. unfold apply_new1 at 1. simpl.
    unfold has in HD. destruct (lookup d (fdims f)) as [[n u]|] eqn:Ed; [|discriminate].
    assert (N0 : match lookup d (fvars f) with
                 | Some v => match vshape v with [m] => m | _ => n end
                 | None => n end = n).
    { unfold coord_conv in CC. rewrite Ed in CC. destruct (lookup d (fvars f)) as [v|]; [|reflexivity].
      destruct (vshape v) as [|m [|? ?]]; try reflexivity. apply Nat.eqb_eq in CC. exact CC. }
    rewrite N0. destruct (afun_total_len g n TT) as [m Hm]. rewrite Hm. simpl. rewrite E. simpl.
    exists ((d, m) :: news). split; [reflexivity|].
    intros d' n' u' Hd'. unfold apply_newlen. simpl.
    destruct (Nat.eqb d' d) eqn:Edd.
    + apply Nat.eqb_eq in Edd. subst d'. rewrite Ed in Hd'. inv Hd'. rewrite Hm. reflexivity.
    + apply (L d' n' u' Hd').
Qed.

Lemma relen_total (h : name -> nat -> nat) : forall T,
  exists T', relen T (fun d n => Ok (h d n)) = Ok T'
             /\ forall k, lookup k T' = match lookup k T with Some (n, u) => Some (h k n, u) | None => None end.
Proof.
  unfold relen. induction T as [|[a [n u]] T IH]; simpl.
  - exists []. split; auto.
  - destruct IH as (T' & E & L). simpl in E. rewrite E. simpl. eexists. split; [reflexivity|].
    intros k. simpl. destruct (Nat.eqb k a) eqn:Ek; [apply Nat.eqb_eq in Ek; subst; reflexivity|apply L].
Qed.

Lemma apply_var_shapes T T' fs :
  (forall k, lookup k T' = match lookup k T with Some (n, u) => Some (apply_newlen fs k n, u) | None => None end) ->
  forallb (fun p => afun_total (snd p)) fs = true ->
  forall ds sh, map (dimlen T) ds = map Some sh ->
  exists s, apply_src fs ds sh = Ok s /\ shape_of T' ds = Ok s.
Proof.
  intros L TT. induction ds as [|d ds IH]; intros [|n sh] H; simpl in *; try discriminate.
  - eexists; split; reflexivity.
  - injection H as H1 H2. destruct (IH _ H2) as (s & E1 & E2). rewrite E1, E2. simpl.
    unfold dimlen in H1. destruct (lookup d T) as [[n' u]|] eqn:Ed; [|discriminate]. simpl in H1. inv H1.
    rewrite L, Ed. unfold apply_newlen. destruct (lookup d fs) as [g|] eqn:Eg.
    + assert (afun_total g = true).
      { apply lookup_In in Eg. rewrite forallb_forall in TT. apply (TT _ Eg). }
      destruct (afun_total_len g n H) as [m Hm]. rewrite Hm. eexists; split; reflexivity.
    + eexists; split; reflexivity.
Qed.

Lemma apply_vars_complete T T' fs :
  (forall k, lookup k T' = match lookup k T with Some (n, u) => Some (apply_newlen fs k n, u) | None => None end) ->
  forallb (fun p => afun_total (snd p)) fs = true ->
  forall vs acc, vars_okb T vs = true -> exists vs', apply_vars T' fs vs acc = Ok vs'.
Proof.
  intros L TT. induction vs as [|[k v] vs IH]; intros acc W; simpl.
  - eauto.
  - simpl in W. apply andb_true_iff in W as [W1 W2]. apply var_okb_elim in W1 as [W1 _].
    destruct (apply_var_shapes _ _ _ L TT _ _ W1) as (s & E1 & E2). rewrite E1. simpl.
    unfold putvar, mkvar. rewrite E2. simpl. rewrite bc_into_refl. simpl. apply IH. exact W2.
Qed.

Theorem apply_completes f fs :
  wfb f = true -> apply_dom f fs = true -> exists f', impl_apply f fs = Ok f' /\ wfb f' = true.
Proof.
  intros W D. pose proof (wfb_elim _ W) as [W1 W2].
  destruct (apply_news_ok f fs D) as (news & EN & LN).
  assert (TT : forallb (fun p => afun_total (snd p)) fs = true).
  { unfold apply_dom in D. rewrite forallb_forall in D. apply forallb_forall. intros p Hp. specialize (D p Hp).
    apply andb_true_iff in D as [D _]. apply andb_true_iff in D as [_ D]. exact D. }
  destruct (relen_total (fun d n => match lookup d news with Some c => c | None => n end) (fdims f)) as (T' & ER & LR).
  assert (L : forall k, lookup k T' = match lookup k (fdims f) with
                                      | Some (n, u) => Some (apply_newlen fs k n, u) | None => None end).
  { intros k. rewrite LR. destruct (lookup k (fdims f)) as [[n u]|] eqn:E; [|reflexivity]. rewrite (LN _ _ _ E). reflexivity. }
  destruct (apply_vars_complete _ _ _ L TT (fvars f) [] W1) as (vs' & EV).
  assert (R : impl_apply f fs = Ok (File T' vs' (fattrs f) (fcoords f))).
  { unfold impl_apply. rewrite EN. simpl. rewrite ER. simpl. rewrite EV. reflexivity. }
  eexists. split; [exact R|]. eapply apply_wf; eauto.
Qed.

(* ---- dimension tables are dictionaries: keys are not repeated; every operation maintains that -------------------- *)
Lemma memb_map_filter {A} (g : A -> name) (p : A -> bool) k l :
  memb k (map g (filter p l)) = true -> memb k (map g l) = true.
Proof.
  intros H. apply memb_In in H. apply memb_In. apply in_map_iff in H as [x [Hx Hin]].
  apply filter_In in Hin as [Hin _]. apply in_map_iff. eauto.
Qed.
Lemma nodupb_map_filter {A} (g : A -> name) (p : A -> bool) l :
  nodupb (map g l) = true -> nodupb (map g (filter p l)) = true.
Proof.
  induction l as [|x l IH]; simpl; intros H; [reflexivity|].
  apply andb_true_iff in H as [H1 H2]. destruct (p x); simpl; [|auto].
  rewrite IH by assumption. rewrite andb_true_r. apply negb_true_iff in H1. apply negb_true_iff.
  destruct (memb (g x) (map g (filter p l))) eqn:E; [|reflexivity].
  apply memb_map_filter in E. congruence.
Qed.

Lemma memb_keys_aset {V} k' k (v : V) l :
  memb k' (map fst (aset k v l)) = memb k' (map fst l) || Nat.eqb k' k.
Proof.
  induction l as [|[a b] l IH]; simpl.
  - rewrite orb_false_r. reflexivity.
  - destruct (Nat.eqb k a) eqn:E; simpl.
    + apply Nat.eqb_eq in E; subst. destruct (Nat.eqb k' a); simpl; [reflexivity|]. rewrite orb_false_r. reflexivity.
    + rewrite IH. destruct (Nat.eqb k' a); reflexivity.
Qed.
Lemma nodupb_aset {V} k (v : V) l : nodupb (map fst l) = true -> nodupb (map fst (aset k v l)) = true.
Proof.
  induction l as [|[a b] l IH]; simpl; intros H; [reflexivity|].
  apply andb_true_iff in H as [H1 H2]. destruct (Nat.eqb k a) eqn:E; simpl.
  - apply Nat.eqb_eq in E; subst. rewrite H1, H2. reflexivity.
  - rewrite IH by assumption. rewrite andb_true_r. rewrite memb_keys_aset. apply negb_true_iff in H1. rewrite H1. simpl.
    rewrite Nat.eqb_sym, E. reflexivity.
Qed.

Lemma relen_keys g : forall T T1, relen T g = Ok T1 -> map fst T1 = map fst T.
Proof.
  unfold relen. induction T as [|[a [n u]] T IH]; simpl; intros T1 H.
  - inv H. reflexivity.
  - bindinv H. bindinv E. inv E. bindinv H. inv H. simpl. f_equal. apply IH. exact E.
Qed.

Lemma rd_del_nodup prs : forall T, keys_nodup T = true -> keys_nodup (rd_del T prs) = true.
Proof.
  induction prs as [|[o n] t IH]; simpl; intros T H; [exact H|].
  apply IH. unfold keys_nodup, adel. apply nodupb_map_filter. exact H.
Qed.
Lemma rd_ins_nodup T0 prs : forall T T', rd_ins T0 T prs = Ok T' -> keys_nodup T = true -> keys_nodup T' = true.
Proof.
  induction prs as [|[o n] t IH]; simpl; intros T T' H K.
  - inv H. exact K.
  - destruct (lookup o T0) as [v|]; [|discriminate]. eapply IH; [exact H|]. unfold keys_nodup. apply nodupb_aset. exact K.
Qed.

(* the tagging pass of stack returns the dimension entries themselves *)
Lemma mapM_tag {A} (F : A -> res (A * bool)) :
  (forall p q, F p = Ok q -> fst q = p) -> forall l sh, mapM F l = Ok sh -> map fst sh = l.
Proof.
  intros HF. induction l as [|x l IH]; simpl; intros sh H.
  - inv H. reflexivity.
  - bindinv H. bindinv H. inv H. simpl. f_equal; [apply HF; exact E|apply IH; exact E0].
Qed.
Lemma stack_tag_fst (d : name) (tabs : list dimtab) (p : name * (nat * bool)) (q : name * (nat * bool) * bool) :
  (if Nat.eqb (fst p) d then Ok (p, false) else
   do ls <- mapM (fun T : dimtab => match lookup (fst p) T with Some (n, _) => Ok n | None => Raise end) tabs;
   Ok (p, forallb (Nat.eqb (fst (snd p))) ls)) = Ok q -> fst q = p.
Proof.
  destruct (Nat.eqb (fst p) d); intros H; [inv H; reflexivity|]. bindinv H. inv H. reflexivity.
Qed.

Lemma nodup_lookup (T : dimtab) k v : keys_nodup T = true -> In (k, v) T -> lookup k T = Some v.
Proof.
  unfold keys_nodup. induction T as [|[a b] T IH]; simpl; intros H Hin; [contradiction|].
  apply andb_true_iff in H as [H1 H2]. destruct Hin as [Heq|Hin].
  - inv Heq. rewrite Nat.eqb_refl. reflexivity.
  - destruct (Nat.eqb k a) eqn:E; [|apply IH; assumption].
    apply Nat.eqb_eq in E; subst. apply negb_true_iff in H1. apply memb_false in H1.
    exfalso. apply H1. apply in_map_iff. exists (a, v). auto.
Qed.

Lemma stack_dims f others d f' : impl_stack f others d = Ok f' ->
  exists sh ls u n0, map fst sh = fdims f /\ lookup d (fdims f) = Some (n0, u)
                     /\ fdims f' = aset d (sum ls, u) (map fst (filter (fun q => snd q) sh)).
Proof.
  unfold impl_stack. intros H. bindinv H.
  match type of H with (if ?c then _ else _) = _ => destruct c; [discriminate|] end.
  bindinv H. destruct (lookup d (fdims f)) as [[n0 u]|] eqn:Ed; [|discriminate]. bindinv H. inv H. simpl.
  exists a, a0, u, n0. repeat split; auto.
  eapply (mapM_tag _ (fun p q => stack_tag_fst d (map fdims (f :: others)) p q)). exact E.
Qed.

Lemma stack_unlim f others d f' :
  keys_nodup (fdims f) = true -> impl_stack f others d = Ok f' -> unlim_keptb (fdims f) (fdims f') = true.
Proof.
  intros K H. destruct (stack_dims _ _ _ _ H) as (sh & ls & u & n0 & ES & Ed & ET). rewrite ET.
  apply unlim_ext2. intros k n u0 Hk. rewrite lookup_aset. destruct (Nat.eqb k d) eqn:Ek.
  - apply Nat.eqb_eq in Ek; subst. rewrite Ed in Hk. inv Hk. right. eauto.
  - destruct (lookup k (map fst (filter (fun q => snd q) sh))) as [[n' u']|] eqn:El; [|left; reflexivity].
    right. exists n'. apply lookup_In in El. apply in_map_iff in El as [q [Hq Hin]]. apply filter_In in Hin as [Hin _].
    assert (In (k, (n', u')) (fdims f)) by (rewrite <- ES; apply in_map_iff; eauto).
    rewrite (nodup_lookup _ _ _ K H0) in Hk. inv Hk. reflexivity.
Qed.

Theorem step_keys_nodup f o f' : keys_nodup (fdims f) = true -> step f o = Ok f' -> keys_nodup (fdims f') = true.
Proof.
  intros K H. destruct (keeps_table o) eqn:KT; [rewrite (keeps_table_dims _ _ _ KT H); exact K|].
  destruct o; try discriminate KT; simpl in H.
  - (* renameDimensions *)
    unfold impl_rename_dim in H. bindinv H. bindinv H. destruct (rename_collides (fdims a) prs); [discriminate|]. inv H. simpl.
    assert (Ea : fdims a = fdims f) by (unfold impl_copy in E; bindinv E; inv E; reflexivity). rewrite Ea in *.
    eapply rd_ins_nodup; [exact E0|]. apply rd_del_nodup. exact K.
  - (* insertDimension *)
    unfold impl_insert in H. bindinv H. inv H. simpl. destruct (has dk (fdims f)); [exact K|]. apply nodupb_aset. exact K.
  - (* removeSingleton *)
    unfold impl_remove in H. bindinv H. inv H. simpl. unfold keys_nodup. apply nodupb_map_filter. exact K.
  - (* sliceDimensions *)
    unfold impl_slice in H. match type of H with (if ?c then _ else _) = _ => destruct c; [discriminate|] end.
    bindinv H. bindinv H. bindinv H. inv H. simpl.
    assert (K1 : keys_nodup a0 = true) by (unfold keys_nodup; rewrite (relen_keys _ _ _ E0); exact K).
    match goal with |- context [if ?c then _ else _] => destruct c end; [apply nodupb_aset|]; exact K1.
  - (* applyAlongDimensions *)
    unfold impl_apply in H. bindinv H. bindinv H. bindinv H. inv H. simpl. unfold keys_nodup. rewrite (relen_keys _ _ _ E0). exact K.
  - (* stack *)
    destruct (stack_dims _ _ _ _ H) as (sh & ls & u & n0 & ES & Ed & ET). rewrite ET. apply nodupb_aset.
    rewrite map_map. apply (nodupb_map_filter (fun q : name * (nat * bool) * bool => fst (fst q))).
    rewrite <- map_map, ES. exact K.
  - (* interpDimension *)
    unfold impl_interp in H. destruct (lookup d (fvars f)) as [v|]; [|discriminate].
    destruct (vshape v) as [|x [|y l]]; try discriminate.
    unfold impl_apply in H. bindinv H. bindinv H. bindinv H. inv H. simpl. unfold keys_nodup. rewrite (relen_keys _ _ _ E0). exact K.
Qed.

(* the unlimited-flag clause for all 14 operations *)
Theorem step_unlimited_all f o f' :
  keys_nodup (fdims f) = true -> step f o = Ok f' ->
  (match o with OSlice ss => slice_unl_ok f ss | _ => true end) = true ->
  unlim_kept_op o (fdims f) (fdims f') = true.
Proof.
  intros K H S. destruct o; try (eapply step_unlimited; [exact H|]; first [reflexivity|exact S]).
  simpl in H. unfold unlim_kept_op. eapply stack_unlim; eauto.
Qed.

Theorem run_keys_nodup ops : forall f f', keys_nodup (fdims f) = true -> run f ops = Ok f' -> keys_nodup (fdims f') = true.
Proof.
  induction ops as [|o t IH]; simpl; intros f f' K H.
  - inv H. exact K.
  - bindinv H. eapply IH; [|exact H]. eapply step_keys_nodup; eauto.
Qed.
