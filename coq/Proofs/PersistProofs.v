(* Lemmas for C07 (save to netCDF and reopen). *)
From PNC Require Import Base.Util Model.Persist.
Local Open Scope Z_scope.

Lemma load_store_cells fill mv d cells :
  (has_masked cells = false \/ opt_is fill d || opt_is mv d = true) ->
  cells_ok fill mv cells = true ->
  load_cells fill mv (store_cells d cells) = cells.
Proof.
  induction cells as [|c t IH]; intros Hm Hc; [reflexivity|].
  cbn [cells_ok forallb] in Hc. apply andb_true_iff in Hc as [Hc1 Hc2].
  cbn [store_cells load_cells map]. fold (store_cells d t). fold (load_cells fill mv (store_cells d t)).
  assert (Hm' : has_masked t = false \/ opt_is fill d || opt_is mv d = true).
  { destruct Hm as [Hm|Hm]; [left|right; exact Hm].
    cbn [has_masked existsb] in Hm. apply orb_false_iff in Hm as [_ Hm]. exact Hm. }
  rewrite (IH Hm' Hc2). destruct c as [x|].
  - apply negb_true_iff in Hc1. rewrite Hc1. reflexivity.
  - destruct Hm as [Hm|Hm]; [cbn in Hm; discriminate|]. rewrite Hm. reflexivity.
Qed.

Lemma conv_attrs_id ign l :
  forallb (fun kv => key_ok ign (fst kv)) l = true -> conv_attrs ign l = spec_attrs l.
Proof.
  unfold conv_attrs, spec_attrs. intros H. f_equal.
  induction l as [|kv t IH]; [reflexivity|]. cbn [forallb] in H. apply andb_true_iff in H as [H1 H2].
  cbn [filter]. unfold key_ok in H1. rewrite H1. f_equal. apply IH, H2.
Qed.

(* masked variables with ANY fill value: the value written into masked cells is the one declared as
   _FillValue, so the reader masks it - whatever missing_value / fill_value / array fill are *)
Lemma fill_always_consistent dflt v c : chosen_fill v = Some c -> fill_consistent dflt v = true.
Proof.
  intros H. unfold fill_consistent, eff_fill, data_fill. rewrite H. cbn [opt_is]. rewrite Z.eqb_refl.
  rewrite orb_true_r. reflexivity.
Qed.

Lemma conv_var_spec dflt v : dom_var v = true -> conv_var dflt v = spec_var v.
Proof.
  unfold dom_var, conv_var, nc_load_var, convert_var, nc_mask_fill, spec_var.
  cbn [i_name i_dt i_dims i_fill i_mv i_dfill i_attrs i_raw]. fold (eff_fill v). intros H.
  apply andb_true_iff in H as [H H3]. apply andb_true_iff in H as [H1 H2].
  rewrite (conv_attrs_id _ _ H1). f_equal. apply load_store_cells; [|exact H3].
  unfold masked_has_fill in H2. apply orb_true_iff in H2 as [H2|H2].
  - left. apply negb_true_iff in H2. exact H2.
  - right. destruct (chosen_fill v) as [c|] eqn:E; [|discriminate].
    unfold eff_fill, data_fill. rewrite E. cbn [opt_is]. rewrite Z.eqb_refl. reflexivity.
Qed.

Lemma conv_dims_id vs ds :
  forallb (fun d => negb (d_unlim d) || dim_used (d_name d) vs) ds = true ->
  map (conv_dim vs) ds = ds.
Proof.
  induction ds as [|d t IH]; intros H; [reflexivity|]. cbn [forallb] in H.
  apply andb_true_iff in H as [H1 H2]. cbn [map]. rewrite (IH H2). f_equal.
  destruct d as [n l u]. unfold conv_dim; cbn [d_name d_len d_unlim] in *.
  destruct u; cbn in H1; [rewrite H1|]; reflexivity.
Qed.

(* the whole file: every number of dimensions, attributes, variables, cells *)
Lemma load_convert_dim vs d : nc_load_dim (convert_dim vs d) = conv_dim vs d.
Proof. destruct d as [n l u]. unfold nc_load_dim, convert_dim, conv_dim; cbn. destruct u; reflexivity. Qed.

(* stage 1 alone, no assumption: what is written at unmasked positions is the input value; at masked
   positions it is the value declared as _FillValue (whenever the variable has any fill) *)
Lemma convert_raw_cells dflt v c :
  chosen_fill v = Some c ->
  Forall2 (fun cell x => match cell with Some y => x = y | None => x = c end) (p_cells v) (i_raw (convert_var dflt v)).
Proof.
  intros H. unfold convert_var; cbn [i_raw]. unfold data_fill. rewrite H.
  induction (p_cells v) as [|cell t IH]; cbn [store_cells map]; constructor; [destruct cell; reflexivity|exact IH].
Qed.

Lemma convert_dim_request vs d :
  id_size (convert_dim vs d) = (if d_unlim d then None else Some (d_len d)).
Proof. reflexivity. Qed.

Lemma save_open_id dflt f : dom f = true -> impl_save_open dflt f = spec_save_open f.
Proof.
  unfold dom, impl_save_open, spec_save_open, nc_load, impl_convert. cbn [im_dims im_gattrs im_vars]. intros H.
  rewrite !map_map. rewrite (map_ext _ _ (load_convert_dim (pf_vars f))). fold (conv_var dflt).
  change (map (fun x => nc_load_var (convert_var dflt x)) (pf_vars f)) with (map (conv_var dflt) (pf_vars f)).
  apply andb_true_iff in H as [H H3]. apply andb_true_iff in H as [H1 H2].
  rewrite (conv_dims_id _ _ H1), (conv_attrs_id _ _ H2). f_equal.
  induction (pf_vars f) as [|v t IH]; [reflexivity|]. cbn [forallb] in H3.
  apply andb_true_iff in H3 as [Hv Ht]. cbn [map]. rewrite (conv_var_spec _ _ Hv), (IH Ht). reflexivity.
Qed.

(* fill value precedence of addVariable *)
Lemma fill_precedence v :
  (forall m, p_mv v = Some m -> chosen_fill v = Some m)
  /\ (forall f, p_mv v = None -> p_fv v = Some f -> chosen_fill v = Some f)
  /\ (p_mv v = None -> p_fv v = None -> p_masked v = true -> chosen_fill v = Some (p_mafill v))
  /\ (p_mv v = None -> p_fv v = None -> p_masked v = false -> chosen_fill v = p_hid v).
Proof.
  unfold chosen_fill. repeat split; intros; repeat match goal with H : _ = _ |- _ => rewrite H end; reflexivity.
Qed.

Definition nm (l : list Z) : name := l.
(* witnesses *)
Definition w_var_ok : pvar :=
  PVar [109] 6 [[116]; [120]] [([117], AV 0 [75]); ([102;108;97;103], AV 3 [1])] true (-5) None None None (Some 999)
       [Some 0; None; Some 2; Some 3; None; Some 5].
Definition w_good : pfile :=
  PFile [Dim [116] 3 true; Dim [120] 2 false] [([116;105;116;108;101], AV 0 [104;105]); ([102], AV 3 [1]); ([110], AV 1 [5])]
        [w_var_ok; PVar [115] 6 [] [] false 0 None None None (Some 999) [Some 45]].
Definition w_conflict : pfile :=
  PFile [Dim [116] 3 true; Dim [120] 2 false] []
        [PVar [109] 6 [[116]; [120]] [] true (-5) (Some (-999)) (Some (-5)) None (Some 999) [Some 0; None; Some 2; Some 3; None; Some 5]].
Definition w_unlim : pfile :=
  PFile [Dim [116] 3 true; Dim [117] 4 true] [] [PVar [97] 5 [[116]] [] false 0 None None None (Some 999) [Some 1; Some 2; Some 3]].
(* a plain byte variable holding the netCDF default fill value of its type *)
Definition w_default_fill : pfile :=
  PFile [Dim [120] 2 false] [] [PVar [112] 2 [[120]] [] false 0 None None None (Some 255) [Some 7; Some 255]].
Definition w_collide : pfile :=
  PFile [Dim [120] 2 false] [] [PVar [112] 3 [[120]] [] false 0 None None (Some (-9999)) (Some 999) [Some 7; Some (-9999)]].
