(* Proofs about Model/EvalExpr.v (C06, eval). *)
From PNC Require Import Base.Util Model.Arith Model.EvalExpr.
Require Import QArith.
Local Close Scope Q_scope.
Local Open Scope nat_scope.

Lemma elookup_app {B} k (l l' : list (nat * B)) :
  elookup k (l ++ l') = match elookup k l with Some v => Some v | None => elookup k l' end.
Proof. induction l as [|[k' v] l IH]; simpl; auto. destruct (k' =? k); auto. Qed.

Lemma elookup_remove_same {B} k (l : list (nat * B)) : elookup k (remove_key k l) = None.
Proof.
  induction l as [|[k' v] l IH]; simpl; auto.
  destruct (k' =? k) eqn:E; simpl; auto. rewrite E. auto.
Qed.

Lemma elookup_remove_other {B} k k' (l : list (nat * B)) :
  k <> k' -> elookup k (remove_key k' l) = elookup k l.
Proof.
  intros N. induction l as [|[k2 v] l IH]; simpl; auto.
  destruct (k2 =? k') eqn:E; simpl.
  - apply Nat.eqb_eq in E; subst. destruct (k' =? k) eqn:E2; auto. apply Nat.eqb_eq in E2; congruence.
  - destruct (k2 =? k); auto.
Qed.

Lemma store_spec en keys : forall out r,
  store en keys out = Some r -> NoDup keys ->
  (forall k, In k keys -> exists a, elookup k en = Some (VA a) /\ elookup k r = Some a)
  /\ (forall k, ~ In k keys -> elookup k r = elookup k out).
Proof.
  induction keys as [|k0 keys IH]; simpl; intros out r H ND.
  - injection H as <-. split; [intros ? [] | auto].
  - destruct (elookup k0 en) as [[x|a]|] eqn:E; try discriminate.
    inversion ND as [|? ? Hn ND']; subst.
    destruct (IH _ _ H ND') as [A B]. split.
    + intros k [<-|Hk]; auto.
      exists a; split; auto. rewrite (B k0 Hn), elookup_app, elookup_remove_same. simpl.
      rewrite Nat.eqb_refl. reflexivity.
    + intros k Hk. rewrite B by (intros X; apply Hk; right; exact X).
      assert (k <> k0) by (intros ->; apply Hk; left; reflexivity).
      rewrite elookup_app, elookup_remove_other by auto.
      destruct (elookup k out); auto. simpl.
      destruct (k0 =? k) eqn:E2; auto. apply Nat.eqb_eq in E2; congruence.
Qed.

Lemma dedup_in l x : In x (dedup l) -> In x l.
Proof.
  induction l as [|y l IH]; simpl; auto. intros [->|H]; auto.
  apply filter_In in H as [H _]. auto.
Qed.

Lemma dedup_nodup l : NoDup (dedup l).
Proof.
  induction l as [|x l IH]; simpl; constructor.
  - intros H. apply filter_In in H as [_ H]. rewrite Nat.eqb_refl in H. discriminate.
  - apply NoDup_filter. auto.
Qed.

Lemma assigned_nodup ss : NoDup (assigned ss).
Proof. unfold assigned. apply NoDup_filter. apply dedup_nodup. Qed.

Lemma assigned_target ss k : In k (assigned ss) -> is_target ss k = true.
Proof. unfold assigned. intros H. apply filter_In in H as [_ H]. exact H. Qed.

Lemma in_dedup l x : In x l -> In x (dedup l).
Proof.
  induction l as [|y l IH]; simpl; auto. intros [->|H]; auto.
  destruct (Nat.eq_dec x y) as [->|N]; auto. right. apply filter_In. split; auto.
  apply negb_true_iff. apply Nat.eqb_neq. auto.
Qed.

Lemma target_assigned ss k : is_target ss k = true -> In k (assigned ss).
Proof.
  intros H. unfold assigned. apply filter_In. split; auto.
  unfold symbols. apply in_dedup. unfold is_target in H. apply existsb_exists in H as [s [Hs E]].
  apply Nat.eqb_eq in E. apply in_flat_map. exists s; split; auto. left; auto.
Qed.

(* An eval assignment creates variables equal to evaluating the expressions (sequentially) on
   the file's arrays; every other variable of the result is a variable of the base file with
   identical contents (all of the file's variables when copyall). *)
Theorem eval_creates_expr f copyall ss r :
  impl_eval f copyall ss = EOk r ->
  exists en tkey base,
    exec (file_env f) ss = Some en /\ template f ss = Some tkey /\ base_vars f copyall tkey = Some base
    /\ (forall k, is_target ss k = true -> exists a, elookup k en = Some (VA a) /\ elookup k r = Some a)
    /\ (forall k, is_target ss k = false -> elookup k r = elookup k base).
Proof.
  unfold impl_eval. intros H.
  destruct (template f ss) as [tkey|]; try discriminate.
  destruct (base_vars f copyall tkey) as [base|] eqn:Eb; try discriminate.
  destruct (exec (file_env f) ss) as [en|] eqn:Ee; try discriminate.
  destruct (store en (assigned ss) base) as [r'|] eqn:Es; try discriminate. injection H as <-.
  destruct (store_spec _ _ _ _ Es (assigned_nodup ss)) as [A B].
  exists en, tkey, base. repeat split; auto.
  - intros k Hk. apply A. apply target_assigned; auto.
  - intros k Hk. apply B. intros Hin. apply assigned_target in Hin. congruence.
Qed.

Theorem eval_copyall_untouched f ss r k :
  impl_eval f true ss = EOk r -> is_target ss k = false -> elookup k r = elookup k (ef_vars f).
Proof.
  intros H Hk. destruct (eval_creates_expr _ _ _ _ H) as [en [tkey [base [_ [_ [Hb [_ U]]]]]]].
  simpl in Hb. injection Hb as <-. auto.
Qed.

(* single assignment k = e : the created variable is the cellwise evaluation of e *)
Theorem eval_single f copyall k e r :
  impl_eval f copyall [(k, e)] = EOk r ->
  exists a, eval_expr (file_env f) e = Some (VA a) /\ elookup k r = Some a.
Proof.
  intros H. destruct (eval_creates_expr _ _ _ _ H) as [en [tkey [base [He [_ [_ [A _]]]]]]].
  simpl in He. destruct (eval_expr (file_env f) e) as [v|] eqn:E; try discriminate.
  injection He as <-.
  assert (T : is_target [(k, e)] k = true) by (simpl; rewrite Nat.eqb_refl; reflexivity).
  destruct (A k T) as [a [H1 H2]].
  simpl in H1. rewrite Nat.eqb_refl in H1. injection H1 as ->. eauto.
Qed.

(* cellwise meaning of a binary operation on two arrays of equal length *)
Theorem val_bin_cells o p q :
  length (e_cells p) = length (e_cells q) ->
  val_bin o (VA p) (VA q)
  = Some (VA (EA (e_ma p || e_ma q) (map2 (cell_bin o (e_ma p || e_ma q)) (e_cells p) (e_cells q)))).
Proof. intros H. simpl. rewrite H, Nat.eqb_refl. reflexivity. Qed.

(* masked-array semantics of one cell: masks unite; plain arithmetic never masks *)
Theorem cell_bin_mask o is_ma c d :
  msk (cell_bin o is_ma c d) = true <->
  (msk c = true \/ msk d = true \/
   (is_ma = true /\ o = ODiv /\ (rv_is_zero (raw d) = true \/ nonfin (rv_bin ODiv (raw c) (raw d)) = true))).
Proof.
  unfold cell_bin; simpl. split.
  - intros H. apply orb_true_iff in H as [H|H]; [apply orb_true_iff in H as [H|H]; auto|].
    apply andb_true_iff in H as [H1 H2]. right; right. destruct o; try discriminate.
    repeat split; auto. apply orb_true_iff in H2. exact H2.
  - intros [H|[H|[H1 [E H3]]]].
    + rewrite H. reflexivity.
    + rewrite H. rewrite orb_true_r. reflexivity.
    + subst o. rewrite H1. simpl.
      assert (X : rv_is_zero (raw d) || nonfin (rv_div (raw c) (raw d)) = true) by (apply orb_true_iff; exact H3).
      simpl in X. rewrite X. apply orb_true_r.
Qed.
