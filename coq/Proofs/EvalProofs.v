(* Proofs about Model/EvalExpr.v (C06, eval). *)
From PNC Require Import Base.Util Model.Arith Model.EvalExpr.
Require Import QArith.
Local Close Scope Q_scope.
Local Open Scope nat_scope.

Lemma elookup_app {B} k (l l' : list (nat * B)) :
  elookup k (l ++ l') = match elookup k l with Some v => Some v | None => elookup k l' end.
Proof. induction l as [|[k' v] l IH]; simpl; auto. destruct (k' =? k); auto. Qed.

Lemma elookup_remove_same {B} k (l : list (nat * B)) : elookup k (remove_key k l) = None.
Proof.
  induction l as [|[k' v] l IH]; simpl; auto.
  destruct (k' =? k) eqn:E; simpl; auto. rewrite E. auto.
Qed.

Lemma elookup_remove_other {B} k k' (l : list (nat * B)) :
  k <> k' -> elookup k (remove_key k' l) = elookup k l.
Proof.
  intros N. induction l as [|[k2 v] l IH]; simpl; auto.
  destruct (k2 =? k') eqn:E; simpl.
  - apply Nat.eqb_eq in E; subst. destruct (k' =? k) eqn:E2; auto. apply Nat.eqb_eq in E2; congruence.
  - destruct (k2 =? k); auto.
Qed.

Lemma store_spec en keys : forall out r,
  store en keys out = Some r -> NoDup keys ->
  (forall k, In k keys -> exists a, elookup k en = Some (VA a) /\ elookup k r = Some a)
  /\ (forall k, ~ In k keys -> elookup k r = elookup k out).
Proof.
  induction keys as [|k0 keys IH]; simpl; intros out r H ND.
  - injection H as <-. split; [intros ? [] | auto].
  - destruct (elookup k0 en) as [[x|a]|] eqn:E; try discriminate.
    inversion ND as [|? ? Hn ND']; subst.
    destruct (IH _ _ H ND') as [A B]. split.
    + intros k [<-|Hk]; auto.
      exists a; split; auto. rewrite (B k0 Hn), elookup_app, elookup_remove_same. simpl.
      rewrite Nat.eqb_refl. reflexivity.
    + intros k Hk. rewrite B by (intros X; apply Hk; right; exact X).
      assert (k <> k0) by (intros ->; apply Hk; left; reflexivity).
      rewrite elookup_app, elookup_remove_other by auto.
      destruct (elookup k out); auto. simpl.
      destruct (k0 =? k) eqn:E2; auto. apply Nat.eqb_eq in E2; congruence.
Qed.

Lemma dedup_in l x : In x (dedup l) -> In x l.
Proof.
  induction l as [|y l IH]; simpl; auto. intros [->|H]; auto.
  apply filter_In in H as [H _]. auto.
Qed.

Lemma dedup_nodup l : NoDup (dedup l).
Proof.
  induction l as [|x l IH]; simpl; constructor.
  - intros H. apply filter_In in H as [_ H]. rewrite Nat.eqb_refl in H. discriminate.
  - apply NoDup_filter. auto.
Qed.

Lemma assigned_nodup ss : NoDup (assigned ss).
Proof. unfold assigned. apply NoDup_filter. apply dedup_nodup. Qed.

Lemma assigned_target ss k : In k (assigned ss) -> is_target ss k = true.
Proof. unfold assigned. intros H. apply filter_In in H as [_ H]. exact H. Qed.

Lemma in_dedup l x : In x l -> In x (dedup l).
Proof.
  induction l as [|y l IH]; simpl; auto. intros [->|H]; auto.
  destruct (Nat.eq_dec x y) as [->|N]; auto. right. apply filter_In. split; auto.
  apply negb_true_iff. apply Nat.eqb_neq. auto.
Qed.

Lemma target_assigned ss k : is_target ss k = true -> In k (assigned ss).
Proof.
  intros H. unfold assigned. apply filter_In. split; auto.
  unfold symbols. apply in_dedup. unfold is_target in H. apply existsb_exists in H as [s [Hs E]].
  apply Nat.eqb_eq in E. apply in_flat_map. exists s; split; auto. left; auto.
Qed.

(* An eval assignment creates variables equal to evaluating the expressions (sequentially) on
   the file's arrays; every other variable of the result is a variable of the base file with
   identical contents (all of the file's variables when copyall). *)
Theorem eval_creates_expr f copyall ss r :
  impl_eval f copyall ss = EOk r ->
  exists en tkey base,
    exec true (file_env f) ss = Some en /\ template f ss = Some tkey /\ base_vars f copyall tkey = Some base
    /\ (forall k, is_target ss k = true -> exists a, elookup k en = Some (VA a) /\ elookup k r = Some a)
    /\ (forall k, is_target ss k = false -> elookup k r = elookup k base).
Proof.
  unfold impl_eval. intros H.
  destruct (template f ss) as [tkey|]; try discriminate.
  destruct (base_vars f copyall tkey) as [base|] eqn:Eb; try discriminate.
  destruct (exec true (file_env f) ss) as [en|] eqn:Ee; try discriminate.
  destruct (store en (assigned ss) base) as [r'|] eqn:Es; try discriminate. injection H as <-.
  destruct (store_spec _ _ _ _ Es (assigned_nodup ss)) as [A B].
  exists en, tkey, base. repeat split; auto.
  - intros k Hk. apply A. apply target_assigned; auto.
  - intros k Hk. apply B. intros Hin. apply assigned_target in Hin. congruence.
Qed.

Theorem eval_copyall_untouched f ss r k :
  impl_eval f true ss = EOk r -> is_target ss k = false -> elookup k r = elookup k (ef_vars f).
Proof.
  intros H Hk. destruct (eval_creates_expr _ _ _ _ H) as [en [tkey [base [_ [_ [Hb [_ U]]]]]]].
  simpl in Hb. injection Hb as <-. auto.
Qed.

(* single assignment k = e : the created variable is the cellwise evaluation of e *)
Theorem eval_single f copyall k e r :
  impl_eval f copyall [(k, e)] = EOk r ->
  exists a, eval_expr true (file_env f) e = Some (VA a) /\ elookup k r = Some a.
Proof.
  intros H. destruct (eval_creates_expr _ _ _ _ H) as [en [tkey [base [He [_ [_ [A _]]]]]]].
  simpl in He. destruct (eval_expr true (file_env f) e) as [v|] eqn:E; try discriminate.
  injection He as <-.
  assert (T : is_target [(k, e)] k = true) by (simpl; rewrite Nat.eqb_refl; reflexivity).
  destruct (A k T) as [a [H1 H2]].
  simpl in H1. rewrite Nat.eqb_refl in H1. injection H1 as ->. eauto.
Qed.

(* cellwise meaning of a binary operation on two arrays of equal length *)
Theorem val_bin_cells quirk o p q :
  length (e_cells p) = length (e_cells q) ->
  val_bin quirk o (VA p) (VA q)
  = let rk := res_kind quirk (e_kind p) (e_kind q) in
    Some (VA (EA (fst rk) (map2 (cell_bin o (is_ma (fst rk)))
                                (if snd rk then clear_masks (e_cells p) else e_cells p)
                                (if snd rk then clear_masks (e_cells q) else e_cells q)))).
Proof. intros H. simpl. rewrite H, Nat.eqb_refl. destruct (res_kind quirk (e_kind p) (e_kind q)); reflexivity. Qed.

(* masked-array semantics of one cell: masks unite; plain arithmetic never masks *)
Theorem cell_bin_mask o is_ma c d :
  msk (cell_bin o is_ma c d) = true <->
  (msk c = true \/ msk d = true \/
   (is_ma = true /\ o = ODiv /\ (rv_is_zero (raw d) = true \/ nonfin (rv_bin ODiv (raw c) (raw d)) = true))).
Proof.
  unfold cell_bin; simpl. split.
  - intros H. apply orb_true_iff in H as [H|H]; [apply orb_true_iff in H as [H|H]; auto|].
    apply andb_true_iff in H as [H1 H2]. right; right. destruct o; try discriminate.
    repeat split; auto. apply orb_true_iff in H2. exact H2.
  - intros [H|[H|[H1 [E H3]]]].
    + rewrite H. reflexivity.
    + rewrite H. rewrite orb_true_r. reflexivity.
    + subst o. rewrite H1. simpl.
      assert (X : rv_is_zero (raw d) || nonfin (rv_div (raw c) (raw d)) = true) by (apply orb_true_iff; exact H3).
      simpl in X. rewrite X. apply orb_true_r.
Qed.

(* ---- where the library's evaluation IS masked-array semantics ------------------------------ *)
Definition clean_v (v : eval_v) : Prop := match v with VA a => e_kind a <> KNpMa | VS _ => True end.
Definition clean_env (en : env) : Prop := forall k v, elookup k en = Some v -> clean_v v.

Lemma val_bin_clean o x y :
  clean_v x -> clean_v y ->
  val_bin true o x y = val_bin false o x y /\ forall v, val_bin false o x y = Some v -> clean_v v.
Proof.
  destruct x as [a|p], y as [b|q]; simpl; intros Cx Cy.
  - split; auto. intros v H; injection H as <-; exact I.
  - split; auto. intros v H; injection H as <-; exact Cy.
  - split; auto. intros v H; injection H as <-; exact Cx.
  - destruct (length (e_cells p) =? length (e_cells q)); [|split; [auto | discriminate]].
    destruct (e_kind p) eqn:Kp, (e_kind q) eqn:Kq; simpl; try congruence;
      (split; [reflexivity | intros v H; injection H as <-; simpl; discriminate]).
Qed.

Lemma eval_expr_clean en e :
  no_maskcall e = true -> clean_env en ->
  eval_expr true en e = eval_expr false en e /\ forall v, eval_expr false en e = Some v -> clean_v v.
Proof.
  intros N C. induction e as [n|q|a IH|o a IHa b IHb|l a IH q]; simpl in *; try discriminate.
  - split; auto. intros v H. eapply C; eauto.
  - split; auto. intros v H; injection H as <-; exact I.
  - destruct (IH N) as [E Cl]. rewrite E. split; auto.
    intros v H. destruct (eval_expr false en a) as [x|]; try discriminate. injection H as <-.
    specialize (Cl x eq_refl). destruct x; simpl in *; auto.
  - apply andb_true_iff in N as [Na Nb]. destruct (IHa Na) as [Ea Ca], (IHb Nb) as [Eb Cb].
    rewrite Ea, Eb. destruct (eval_expr false en a) as [x|]; [|split; [auto|discriminate]].
    destruct (eval_expr false en b) as [y|]; [|split; [auto|discriminate]].
    apply val_bin_clean; auto.
Qed.

Lemma exec_clean ss : forall en,
  forallb (fun s => no_maskcall (snd s)) ss = true -> clean_env en -> exec true en ss = exec false en ss.
Proof.
  induction ss as [|[k e] ss IH]; simpl; intros en N C; auto.
  apply andb_true_iff in N as [Ne Ns]. destruct (eval_expr_clean en e Ne C) as [E Cl]. rewrite E.
  destruct (eval_expr false en e) as [v|]; auto. apply IH; auto.
  intros k' v' H. simpl in H. destruct (k =? k'); [injection H as <-; auto | eapply C; eauto].
Qed.

Lemma file_env_clean f :
  (forall p, In p (ef_vars f) -> e_kind (snd p) <> KNpMa) -> clean_env (file_env f).
Proof.
  intros H k v. unfold file_env. induction (ef_vars f) as [|[k0 a] l IH]; simpl; try discriminate.
  destruct (k0 =? k); intros E.
  - injection E as <-. simpl. apply (H (k0, a)). left; auto.
  - apply IH; auto. intros p Hp. apply H. right; auto.
Qed.

(* without np.ma.* calls in the statements the library evaluates exactly by masked-array semantics *)
Theorem eval_quirk_free f ss :
  (forall p, In p (ef_vars f) -> e_kind (snd p) <> KNpMa) ->
  forallb (fun s => no_maskcall (snd s)) ss = true ->
  exec true (file_env f) ss = exec false (file_env f) ss.
Proof. intros H N. apply exec_clean; auto. apply file_env_clean; auto. Qed.
