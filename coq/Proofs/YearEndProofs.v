(* The writers' end-date derivation (Model/YearEnd.v, as repaired by 4389526 / a9b6e29) is the specification. *)
From PNC Require Import Base.Util Base.Words Gen.Camx Model.Uamiv Model.YearEnd.
From Coq Require Import ZifyBool.
Import Coq.Lists.List. Import ListNotations.
Local Open Scope Z_scope.

Lemma valid_parts d : valid_yyjjj d = true ->
  0 <= d / 1000 <= 99 /\ 1 <= d mod 1000 <= (if (d / 1000) mod 4 =? 0 then 366 else 365).
Proof. unfold valid_yyjjj. intros H. repeat (apply andb_true_iff in H; destruct H as [H ?]). lia. Qed.

Lemma succ_div_mod d : valid_yyjjj d = true -> (d + 1) / 1000 = d / 1000 /\ (d + 1) mod 1000 = d mod 1000 + 1.
Proof.
  intros V. destruct (valid_parts d V) as [Hy Hj].
  pose proof (Z.div_mod d 1000 ltac:(lia)) as E.
  assert (d mod 1000 <= 366) by (destruct ((d / 1000) mod 4 =? 0); lia).
  split; symmetry.
  - apply (Z.div_unique (d + 1) 1000 (d / 1000) (d mod 1000 + 1)); lia.
  - apply (Z.mod_unique (d + 1) 1000 (d / 1000) (d mod 1000 + 1)); lia.
Qed.

(* the derivation (day-of-year carry) IS the specification, at every valid date and hour *)
Lemma derive_end_r_is_spec bd bh : valid_yyjjj bd = true -> 0 <= bh <= 23 -> derive_end_r bd bh = spec_end bd bh.
Proof.
  intros V Hh. destruct (valid_parts bd V) as [Hy Hj]. unfold derive_end_r, spec_end.
  destruct (bh + 1 <? 24) eqn:Hlt.
  - rewrite Z.div_small, Z.mod_small by lia. rewrite Z.add_0_r. unfold roll_yyjjj.
    replace (bd mod 1000 >? (if (bd / 1000) mod 4 =? 0 then 366 else 365)) with false by lia. reflexivity.
  - assert (bh = 23) by lia. subst bh. change ((23 + 1) / 24) with 1. change ((23 + 1) mod 24) with 0.
    unfold roll_yyjjj, next_yyjjj. destruct (succ_div_mod bd V) as [E1 E2]. rewrite E1, E2.
    destruct (bd mod 1000 <? (if (bd / 1000) mod 4 =? 0 then 366 else 365)) eqn:Hc.
    + replace (bd mod 1000 + 1 >? (if (bd / 1000) mod 4 =? 0 then 366 else 365)) with false by lia. reflexivity.
    + replace (bd mod 1000 + 1 >? (if (bd / 1000) mod 4 =? 0 then 366 else 365)) with true by lia.
      f_equal. destruct ((bd / 1000) mod 4 =? 0); lia.
Qed.

(* a time header that is consistent with its begin hour is reproduced word for word *)
Lemma derive_th_r_fixpoint bd b bh : valid_yyjjj bd = true -> 0 <= bh <= 23 ->
  let e := spec_end bd bh in
  let th := [bd; b; fst e; hour_word (snd e)] in
  derive_th_r th bh = th.
Proof. intros V Hh. cbn zeta. unfold derive_th_r. cbn [nth]. rewrite derive_end_r_is_spec by assumption. reflexivity. Qed.
