(* Lemmas for C17, conservative regridding: sigma2coeff's floor/ceil loop equals the overlap
   lengths of source and target layers; marginals; conservation. *)
From PNC Require Import Base.Util Model.Interp Proofs.InterpProofs.
Local Open Scope Z_scope.

Lemma desc_tail a l : desc (a :: l) = true -> desc l = true.
Proof. destruct l; [reflexivity | intros H; apply desc_cons in H; tauto]. Qed.
Lemma desc_gt_tail : forall l a, desc (a :: l) = true -> Forall (fun c => c < a) l.
Proof.
  induction l as [|b l IH]; intros a H; constructor.
  - apply desc_cons in H; tauto.
  - apply desc_cons in H as [H1 H2]. apply IH in H2.
    eapply Forall_impl; [|exact H2]. cbv beta; intros; lia.
Qed.
Lemma desc_nth_lt : forall l i j, desc l = true -> (i < j < length l)%nat -> nth j l 0 < nth i l 0.
Proof.
  induction l as [|a l IH]; intros i j H Hij; [simpl in Hij; lia|].
  destruct j as [|j]; [lia|]. destruct i as [|i].
  - cbn [nth]. pose proof (desc_gt_tail _ _ H) as F. rewrite Forall_forall in F.
    apply F. apply nth_In. simpl in Hij; lia.
  - cbn [nth]. apply IH; [eapply desc_tail; eauto | simpl in Hij; lia].
Qed.
Lemma desc_nth_le l i j : desc l = true -> (i <= j < length l)%nat -> nth j l 0 <= nth i l 0.
Proof.
  intros. destruct (Nat.eq_dec i j); [subst; lia | apply Z.lt_le_incl, desc_nth_lt; auto; lia].
Qed.

Lemma fidx_cons2 v k f0 f1 t :
  fidx v k (f0 :: f1 :: t) =
  if f0 <=? v then (k, 0, 1) else if f1 <? v then (k, f0 - v, f0 - f1) else fidx v (k + 1) (f1 :: t).
Proof. reflexivity. Qed.

(* what the scan returns: a position i with p = 0 (clamped at an end, or exactly on edge i), or
   strictly inside layer i with p = distance below its upper edge *)
Lemma fidx_spec : forall fr k v, fr <> [] -> desc fr = true ->
  exists i p d, fidx v k fr = (k + Z.of_nat i, p, d) /\ (i < length fr)%nat /\
   ((p = 0 /\ ((i = 0%nat /\ nth 0 fr 0 <= v) \/ nth i fr 0 = v
               \/ (i = (length fr - 1)%nat /\ v <= nth i fr 0)))
    \/ (0 < p /\ (S i < length fr)%nat /\ nth (S i) fr 0 < v /\ v < nth i fr 0
        /\ p = nth i fr 0 - v /\ d = nth i fr 0 - nth (S i) fr 0)).
Proof.
  induction fr as [|f0 t IH]; intros k v Hne Hd; [congruence|].
  destruct t as [|f1 t].
  - exists 0%nat, 0, 1. cbn [fidx length nth]. split; [f_equal; f_equal; lia|]. split; [lia|].
    left. split; auto. destruct (Z_le_gt_dec f0 v); [left; auto | right; right; split; auto; lia].
  - rewrite fidx_cons2. apply desc_cons in Hd as [H10 Hd].
    destruct (f0 <=? v) eqn:E0.
    + apply Z.leb_le in E0. exists 0%nat, 0, 1. split; [f_equal; f_equal; lia|].
      split; [cbn [length]; lia|]. left. split; auto.
    + apply Z.leb_gt in E0. destruct (f1 <? v) eqn:E1.
      * apply Z.ltb_lt in E1. exists 0%nat, (f0 - v), (f0 - f1).
        split; [f_equal; f_equal; lia|]. split; [cbn [length]; lia|].
        right. cbn [nth length]. repeat split; lia.
      * apply Z.ltb_ge in E1.
        destruct (IH (k + 1) v ltac:(congruence) Hd) as (i & p & d & Hf & Hi & Hc).
        exists (S i), p, d. rewrite Hf. split; [f_equal; f_equal; lia|].
        split; [cbn [length] in *; lia|].
        destruct Hc as [[Hp Hc] | Hc].
        -- left. split; auto. destruct Hc as [[Hi0 Hv] | [Hv | [Hil Hv]]].
           ++ subst i. cbn [nth] in Hv. right; left. cbn [nth]. lia.
           ++ right; left. exact Hv.
           ++ right; right. cbn [length nth] in *. split; [lia | exact Hv].
        -- right. cbn [nth length] in *. destruct Hc as (H1 & H2 & H3 & H4 & H5 & H6).
           repeat split; auto; lia.
Qed.

(* position of v relative to source layer lay = (F, G) *)
Lemma fidx_layer fr v lay j p d : desc fr = true -> (S lay < length fr)%nat ->
  fidx v 0 fr = (j, p, d) ->
  let F := nth lay fr 0 in let G := nth (S lay) fr 0 in
  G < F
  /\ (F <= v -> j < Z.of_nat lay \/ (j = Z.of_nat lay /\ p = 0))
  /\ (G < v < F -> j = Z.of_nat lay /\ p = F - v /\ 0 < p)
  /\ (v <= G -> Z.of_nat lay < j).
Proof.
  intros Hd Hl Hf F G.
  assert (Hne : fr <> []) by (destruct fr; [cbn in Hl; lia | congruence]).
  destruct (fidx_spec fr 0 v Hne Hd) as (i & p' & d' & Hf' & Hi & Hc).
  rewrite Hf in Hf'. injection Hf' as -> -> ->.
  assert (HGF : G < F) by (apply desc_nth_lt; auto; lia).
  assert (Hle : forall a b, (a <= b < length fr)%nat -> nth b fr 0 <= nth a fr 0)
    by (intros; apply desc_nth_le; auto).
  assert (Hlt : forall a b, (a < b < length fr)%nat -> nth b fr 0 < nth a fr 0)
    by (intros; apply desc_nth_lt; auto).
  split; [exact HGF|]. fold F G in HGF.
  destruct Hc as [[Hp Hc] | (Hp & Hi' & H1 & H2 & H3 & H4)].
  - destruct Hc as [[Hi0 Hv] | [Hv | [Hil Hv]]].
    + subst i. pose proof (Hle 0%nat lay ltac:(lia)). fold F in H.
      repeat split; intros; try lia.
    + destruct (lt_eq_lt_dec i lay) as [[Hlt' | Heq] | Hgt].
      * pose proof (Hlt i lay ltac:(lia)). fold F in H. repeat split; intros; try lia.
      * subst i. fold F in Hv. repeat split; intros; try lia.
      * pose proof (Hle (S lay) i ltac:(lia)). fold G in H. repeat split; intros; try lia.
    + pose proof (Hle (S lay) i ltac:(lia)). fold G in H. repeat split; intros; try lia.
  - destruct (lt_eq_lt_dec i lay) as [[Hlt' | Heq] | Hgt].
    + pose proof (Hle (S i) lay ltac:(lia)). fold F in H. repeat split; intros; try lia.
    + subst i. fold F G in H1, H2, H3. repeat split; intros; try lia.
    + pose proof (Hle (S lay) i ltac:(lia)). fold G in H. repeat split; intros; try lia.
Qed.

(* one entry: the loop's coefficient times the layer thickness is the overlap length *)
Lemma cnum_overlap fr lay u l : desc fr = true -> (S lay < length fr)%nat -> l <= u ->
  cnum (fidx u 0 fr) (fidx l 0 fr) (Z.of_nat lay) (nth lay fr 0 - nth (S lay) fr 0)
  = overlap (nth lay fr 0, nth (S lay) fr 0) (u, l).
Proof.
  intros Hd Hl Hlu.
  destruct (fidx u 0 fr) as [[jb pb] db] eqn:Eb. destruct (fidx l 0 fr) as [[jt pt] dt] eqn:Et.
  destruct (fidx_layer fr u lay jb pb db Hd Hl Eb) as (HGF & B1 & B2 & B3).
  destruct (fidx_layer fr l lay jt pt dt Hd Hl Et) as (_ & T1 & T2 & T3).
  set (F := nth lay fr 0) in *. set (G := nth (S lay) fr 0) in *.
  unfold cnum, overlap. cbn [fst snd].
  destruct (Z.ltb_spec 0 pt);
  repeat match goal with
         | |- context [?a <? ?b] => destruct (Z.ltb_spec a b)
         | |- context [?a <=? ?b] => destruct (Z.leb_spec a b)
         | |- context [?a =? ?b] => destruct (Z.eqb_spec a b)
         end; cbn [andb]; lia.
Qed.

(* ---- from entries to the whole matrix ----------------------------------------------------- *)
Lemma map_eq_nth {A B C} (f : A -> C) (g : B -> C) d1 d2 : forall l1 l2,
  length l1 = length l2 ->
  (forall i, (i < length l1)%nat -> f (nth i l1 d1) = g (nth i l2 d2)) ->
  map f l1 = map g l2.
Proof.
  induction l1 as [|a l1 IH]; intros [|b l2] Hl H; cbn [length] in Hl; try lia; [reflexivity|].
  cbn [map]. f_equal.
  - apply (H 0%nat). cbn [length]. lia.
  - apply IH; [lia|]. intros i Hi. apply (H (S i)). cbn [length]. lia.
Qed.

Lemma combine_map2 {A B} (g : A -> B) : forall a b,
  combine (map g a) (map g b) = map (fun p => (g (fst p), g (snd p))) (combine a b).
Proof. induction a as [|x a IH]; intros [|y b]; cbn [map combine]; auto. rewrite IH. reflexivity. Qed.
Lemma tl_map {A B} (g : A -> B) l : tl (map g l) = map g (tl l).
Proof. destruct l; reflexivity. Qed.

Lemma nth_layers : forall es i, (S i < length es)%nat ->
  nth i (layers es) (0, 0) = (nth i es 0, nth (S i) es 0).
Proof.
  unfold layers. induction es as [|a es IH]; intros i H; [simpl in H; lia|].
  destruct es as [|b es]; [simpl in H; lia|]. destruct i as [|i]; [reflexivity|].
  cbn [tl combine nth]. cbn [tl] in IH. apply IH. simpl in *; lia.
Qed.
Lemma layers_length es : length (layers es) = (length es - 1)%nat.
Proof. unfold layers. rewrite combine_length. destruct es as [|a l]; [reflexivity|]. cbn [tl length]. lia. Qed.
Lemma diffs_length : forall l, length (diffs l) = (length l - 1)%nat.
Proof.
  induction l as [|a l IH]; [reflexivity|]. destruct l as [|b l]; [reflexivity|].
  change (diffs (a :: b :: l)) with ((b - a) :: diffs (b :: l)). cbn [length] in *. lia.
Qed.
Lemma thick_length fr : length (thick fr) = (length fr - 1)%nat.
Proof. unfold thick. rewrite map_length. apply diffs_length. Qed.
Lemma nth_diffs : forall l i, (S i < length l)%nat -> nth i (diffs l) 0 = nth (S i) l 0 - nth i l 0.
Proof.
  induction l as [|a l IH]; intros i H; [simpl in H; lia|]. destruct l as [|b l]; [simpl in H; lia|].
  change (diffs (a :: b :: l)) with ((b - a) :: diffs (b :: l)). destruct i as [|i]; [reflexivity|].
  cbn [nth]. apply IH. simpl in *; lia.
Qed.
Lemma nth_thick fr i : (S i < length fr)%nat -> nth i (thick fr) 0 = nth i fr 0 - nth (S i) fr 0.
Proof.
  intros H. unfold thick. change 0 with (Z.opp 0) at 1. rewrite map_nth, nth_diffs by auto. lia.
Qed.
Lemma nth_zseq : forall n k j, (j < n)%nat -> nth j (zseq k n) 0 = k + Z.of_nat j.
Proof.
  induction n as [|n IH]; intros k j H; [lia|]. cbn [zseq]. destruct j as [|j]; cbn [nth]; [lia|].
  rewrite IH by lia. lia.
Qed.
Lemma zseq_length : forall n k, length (zseq k n) = n.
Proof. induction n; intros; cbn [zseq length]; auto. Qed.

Lemma desc_layers : forall es p, desc es = true -> In p (layers es) -> snd p < fst p.
Proof.
  unfold layers. induction es as [|a es IH]; intros p Hd Hin; [destruct Hin|].
  destruct es as [|b es]; [destruct Hin|]. cbn [tl combine] in Hin. apply desc_cons in Hd as [Hba Hd].
  destruct Hin as [<- | Hin]; [cbn; lia|]. apply IH; auto.
Qed.

(* sigma2coeff (times layer thickness) is the matrix of overlap lengths — for ALL descending
   source grids and ALL descending target grids, sharing ends or not (np.interp's clamping
   agrees with the overlap of layers that stick out) *)
Lemma impl_fdp_overlap fr to : desc fr = true -> desc to = true ->
  impl_fdp fr to = spec_fdp fr to.
Proof.
  intros Hf Ht. unfold impl_fdp, spec_fdp.
  rewrite tl_map, combine_map2. fold (layers to).
  apply map_eq_nth with (d1 := (0, 0)) (d2 := (0, 0)).
  - rewrite combine_length, zseq_length, layers_length, thick_length. lia.
  - intros i Hi. rewrite combine_length, zseq_length, thick_length in Hi.
    rewrite combine_nth by (rewrite zseq_length; reflexivity).
    rewrite thick_length.
    rewrite nth_zseq, nth_thick, nth_layers by lia. cbn [fst snd Z.add].
    rewrite map_map. apply map_ext_in. intros p Hp. cbn [fst snd].
    pose proof (desc_layers to p Ht Hp).
    rewrite cnum_overlap by (auto; lia). destruct p; reflexivity.
Qed.

(* ---- marginals of the overlap matrix ------------------------------------------------------- *)
Definition clampZ (F G v : Z) : Z := Z.max G (Z.min F v).

Lemma overlap_clamp F G u l : G <= F -> l <= u ->
  overlap (F, G) (u, l) = clampZ F G u - clampZ F G l.
Proof. unfold overlap, clampZ. cbn [fst snd]. lia. Qed.

Lemma telescope (c : Z -> Z) : forall es, es <> [] ->
  sumZ (map (fun p => c (fst p) - c (snd p)) (layers es)) = c (hd 0 es) - c (last es 0).
Proof.
  unfold layers. induction es as [|a es IH]; intros H; [congruence|].
  destruct es as [|b es]; [cbn; lia|].
  change (combine (a :: b :: es) (tl (a :: b :: es))) with ((a, b) :: combine (b :: es) (tl (b :: es))).
  change (map (fun p => c (fst p) - c (snd p)) ((a, b) :: combine (b :: es) (tl (b :: es))))
    with ((c a - c b) :: map (fun p => c (fst p) - c (snd p)) (combine (b :: es) (tl (b :: es)))).
  change (sumZ ((c a - c b) :: map (fun p => c (fst p) - c (snd p)) (combine (b :: es) (tl (b :: es)))))
    with ((c a - c b) + sumZ (map (fun p => c (fst p) - c (snd p)) (combine (b :: es) (tl (b :: es))))).
  rewrite IH by congruence.
  change (last (a :: b :: es) 0) with (last (b :: es) 0). cbn [hd]. lia.
Qed.

Lemma hd_nth0 (l : list Z) : hd 0 l = nth 0 l 0.
Proof. destruct l; reflexivity. Qed.
Lemma nth_last_Z : forall (l : list Z), l <> [] -> nth (length l - 1) l 0 = last l 0.
Proof.
  induction l as [|a l IH]; intros H; [congruence|].
  destruct l as [|b l]; [reflexivity|].
  change (last (a :: b :: l) 0) with (last (b :: l) 0). rewrite <- IH by congruence. cbn [length].
  replace (S (S (length l)) - 1)%nat with (S (S (length l) - 1))%nat by lia. reflexivity.
Qed.

Lemma row_sums fr to : desc fr = true -> desc to = true -> (2 <= length fr)%nat -> to <> [] ->
  hd 0 fr = hd 0 to -> last fr 0 = last to 0 ->
  map sumZ (spec_fdp fr to) = thick fr.
Proof.
  intros Hf Ht Hl Hne Hh Hla. unfold spec_fdp. rewrite map_map.
  rewrite <- (map_id (thick fr)).
  apply map_eq_nth with (d1 := (0, 0)) (d2 := 0).
  - rewrite layers_length, thick_length. reflexivity.
  - intros i Hi. rewrite layers_length in Hi. rewrite nth_layers, nth_thick by lia.
    assert (HG : nth (S i) fr 0 < nth i fr 0) by (apply desc_nth_lt; auto; lia).
    assert (HF : nth i fr 0 <= hd 0 fr) by (rewrite hd_nth0; apply desc_nth_le; auto; lia).
    assert (HL : last fr 0 <= nth (S i) fr 0).
    { rewrite <- nth_last_Z by (destruct fr; [cbn in Hl; lia | congruence]). apply desc_nth_le; auto; lia. }
    rewrite (map_ext_in _ (fun p => clampZ (nth i fr 0) (nth (S i) fr 0) (fst p)
                                    - clampZ (nth i fr 0) (nth (S i) fr 0) (snd p))).
    + rewrite telescope by auto. unfold clampZ. lia.
    + intros p Hp. pose proof (desc_layers to p Ht Hp). destruct p as [u l]. cbn [fst snd] in *.
      apply overlap_clamp; lia.
Qed.

Lemma zipadd_map2 {A} (f g : A -> Z) : forall T,
  zipadd (map f T) (map g T) = map (fun p => f p + g p) T.
Proof. induction T; cbn [map zipadd]; auto. rewrite IHT. reflexivity. Qed.

Lemma col_tel : forall fr (T : list (Z * Z)), desc fr = true -> fr <> [] ->
  (forall p, In p T -> snd p <= fst p) ->
  colsums (length T) (map (fun a => map (overlap a) T) (layers fr))
  = map (overlap (hd 0 fr, last fr 0)) T.
Proof.
  induction fr as [|f0 t IH]; intros T Hd Hne HT; [congruence|].
  destruct t as [|f1 t].
  - cbn [layers tl combine map colsums hd last].
    clear - HT. induction T as [|p T IHT]; [reflexivity|]. cbn [length repeat map]. f_equal.
    + unfold overlap. cbn [fst snd]. lia.
    + apply IHT. intros q Hq. apply HT. right; auto.
  - apply desc_cons in Hd as [H10 Hd].
    change (layers (f0 :: f1 :: t)) with ((f0, f1) :: layers (f1 :: t)). cbn [map colsums].
    rewrite (IH T Hd ltac:(congruence) HT). rewrite zipadd_map2.
    change (last (f0 :: f1 :: t) 0) with (last (f1 :: t) 0). cbn [hd].
    assert (HL : last (f1 :: t) 0 <= f1).
    { pose proof (desc_nth_le (f1 :: t) 0 (length (f1 :: t) - 1) Hd ltac:(cbn [length]; lia)) as HL0.
      rewrite nth_last_Z in HL0 by congruence. exact HL0. }
    apply map_ext_in. intros p Hp. pose proof (HT p Hp). destruct p as [u l].
    unfold overlap. cbn [fst snd] in *. lia.
Qed.

Lemma layers_bounds to p : desc to = true -> In p (layers to) ->
  last to 0 <= snd p /\ fst p <= hd 0 to.
Proof.
  intros Hd Hin. destruct (In_nth _ _ (0, 0) Hin) as (i & Hi & <-).
  rewrite layers_length in Hi. rewrite nth_layers by lia. cbn [fst snd].
  assert (Hne : to <> []) by (destruct to; [cbn in Hi; lia | congruence]).
  rewrite hd_nth0, <- nth_last_Z by auto. split; apply desc_nth_le; auto; lia.
Qed.

Lemma thick_layers to : map (fun p => fst p - snd p) (layers to) = thick to.
Proof.
  rewrite <- (map_id (thick to)).
  apply map_eq_nth with (d1 := (0, 0)) (d2 := 0).
  - rewrite layers_length, thick_length. reflexivity.
  - intros i Hi. rewrite layers_length in Hi. rewrite nth_layers, nth_thick by lia. reflexivity.
Qed.

Lemma col_sums fr to : desc fr = true -> desc to = true -> fr <> [] ->
  hd 0 fr = hd 0 to -> last fr 0 = last to 0 ->
  colsums (length (thick to)) (spec_fdp fr to) = thick to.
Proof.
  intros Hf Ht Hne Hh Hla. unfold spec_fdp.
  replace (length (thick to)) with (length (layers to)) by (rewrite layers_length, thick_length; reflexivity).
  rewrite col_tel; auto.
  - rewrite <- thick_layers. apply map_ext_in. intros p Hp.
    pose proof (desc_layers to p Ht Hp). destruct (layers_bounds to p Ht Hp).
    destruct p as [u l]. unfold overlap. cbn [fst snd] in *. lia.
  - intros p Hp. pose proof (desc_layers to p Ht Hp). lia.
Qed.

Lemma thick_pos to : desc to = true -> Forall (fun t => 0 < t) (thick to).
Proof.
  intros Hd. rewrite <- thick_layers. apply Forall_forall. intros x Hx.
  apply in_map_iff in Hx as (p & <- & Hp). pose proof (desc_layers to p Hd Hp). lia.
Qed.

(* conservation of the thickness-weighted column integral, numerator form:
   nvals[li] = num[li] / ndp[li] with ndp = the target thicknesses (all positive), and
   sum_li num[li] = sum_lay v[lay] * source thickness[lay] *)
Lemma column_mass fr to v : desc fr = true -> desc to = true ->
  (2 <= length fr)%nat -> (2 <= length to)%nat ->
  hd 0 fr = hd 0 to -> last fr 0 = last to 0 -> length v = length (thick fr) ->
  let r := impl_conserve (impl_fdp fr to) (length (thick to)) v in
  snd r = thick to /\ Forall (fun t => 0 < t) (snd r) /\ sumZ (fst r) = dot v (thick fr).
Proof.
  intros Hf Ht Hlf Hlt Hh Hla Hv r. subst r.
  assert (Hnf : fr <> []) by (destruct fr; [cbn in Hlf; lia | congruence]).
  assert (Hnt : to <> []) by (destruct to; [cbn in Hlt; lia | congruence]).
  rewrite impl_fdp_overlap by auto. unfold impl_conserve. cbn [fst snd].
  rewrite col_sums by auto. split; [reflexivity|]. split; [apply thick_pos; auto|].
  rewrite colsums_total.
  - rewrite row_sums by auto. reflexivity.
  - unfold spec_fdp. apply Forall_forall. intros row Hr. apply in_map_iff in Hr as (a & <- & _).
    rewrite map_length, layers_length, thick_length. reflexivity.
  - unfold spec_fdp. rewrite map_length, layers_length. rewrite Hv, thick_length. reflexivity.
Qed.
