(* C03: an in-domain call completes (no exception), for every well-formed file. *)
From PNC Require Import Base.Util Base.NdApply Model.Apply Proofs.NdApplyProofs Proofs.ApplyProofs.
Require Import QArith.
Local Close Scope Q_scope.
Local Open Scope nat_scope.

Lemma lookup_in {B} d (l : list (nat * B)) x : lookup d l = Some x -> In (d, x) l.
Proof.
  induction l as [|[k v] l IH]; simpl; try discriminate.
  destruct (k =? d) eqn:E; intros H.
  - injection H as <-. apply Nat.eqb_eq in E; subst. left; auto.
  - right; auto.
Qed.

Lemma map_res_ok {X Y} (g : X -> res Y) l :
  (forall x, In x l -> exists y, g x = Ok y) -> exists r, map_res g l = Ok r.
Proof.
  induction l as [|a l IH]; simpl; intros H; [eexists; eauto|].
  destruct (H a (or_introl eq_refl)) as [y ->].
  destruct IH as [r ->]; [intros; apply H; right; auto|]. eexists; eauto.
Qed.

Lemma dimlens_ok f dfs :
  (forall d fd, In (d, fd) dfs -> exists n, lookup d (fdims f) = Some n /\ lane_ok f d n fd) ->
  exists nl, dimlens f dfs = Ok nl.
Proof.
  induction dfs as [|[d fd] dfs IH]; simpl; intros H; [eexists; eauto|].
  destruct (H d fd (or_introl eq_refl)) as [n [-> L]]. unfold lane_ok in L.
  destruct (newlen fd (coord_lane f d n)); try contradiction.
  destruct IH as [nl ->]; [intros; apply H; right; auto|]. eexists; eauto.
Qed.

(* ---- shape of the variable loop ---------------------------------------------------------- *)
Lemma step_rank dfs kd a : length (sh (step dfs kd a)) = length (sh a).
Proof. unfold step. destruct (lookup (snd kd) dfs); auto. simpl. apply length_upd. Qed.

Lemma fold_rank dfs a kds : length (sh (fold_right (step dfs) a kds)) = length (sh a).
Proof. induction kds; simpl; auto. rewrite step_rank; auto. Qed.

Lemma step_other dfs k d a j : j <> k -> nth j (sh (step dfs (k, d) a)) 0 = nth j (sh a) 0.
Proof. intros N. unfold step; simpl. destruct (lookup d dfs); auto. simpl. apply nth_upd_neq; auto. Qed.

Lemma fold_other dfs a kds j :
  ~ In j (map fst kds) -> nth j (sh (fold_right (step dfs) a kds)) 0 = nth j (sh a) 0.
Proof.
  induction kds as [|[k d] kds IH]; simpl; intros H; auto.
  rewrite step_other by (intros ->; apply H; left; reflexivity). apply IH. intros X; apply H; right; exact X.
Qed.

Lemma fold_axis_len dfs a kds k d m :
  NoDup (map fst kds) -> In (k, d) kds -> k < length (sh a) ->
  (forall fd, lookup d dfs = Some fd -> forall l, length l = nth k (sh a) 0 -> length (run fd l) = m) ->
  (lookup d dfs = None -> m = nth k (sh a) 0) ->
  nth k (sh (fold_right (step dfs) a kds)) 0 = m.
Proof.
  induction kds as [|[k0 d0] kds IH]; simpl; intros ND Hin Hk Hs Hn; [contradiction|].
  inversion ND as [|? ? Hnot ND']; subst.
  destruct Hin as [E|Hin].
  - injection E as -> ->.
    pose proof (fold_rank dfs a kds) as R. pose proof (fold_other dfs a kds k Hnot) as O.
    remember (fold_right (step dfs) a kds) as a' eqn:Ea. unfold step; simpl.
    destruct (lookup d dfs) as [fd|] eqn:L.
    + simpl. rewrite nth_upd_eq by lia.
      apply (Hs fd eq_refl). rewrite lane_length. exact O.
    + rewrite O. symmetry; auto.
  - assert (k <> k0). { intros ->. apply Hnot. apply in_map_iff. exists (k0, d); auto. }
    rewrite step_other by auto. apply IH; auto.
Qed.

Lemma in_enumerate {B} (l : list B) j d : nth_error l j = Some d -> In (j, d) (enumerate l).
Proof.
  unfold enumerate. assert (G : forall s, nth_error l j = Some d -> In (s + j, d) (combine (seq s (length l)) l)).
  { revert j; induction l as [|x l IH]; intros [|j] s H; simpl in *; try discriminate.
    - injection H as ->. left. f_equal. lia.
    - right. replace (s + S j) with (S s + j) by lia. apply IH; auto. }
  intros H. apply (G 0 H).
Qed.

Lemma target_shape_nth nd ds s :
  target_shape nd ds = Some s ->
  length s = length ds /\
  forall j d, nth_error ds j = Some d -> exists n, lookup d nd = Some n /\ nth j s 0 = n.
Proof.
  revert s; induction ds as [|d0 ds IH]; simpl; intros s H.
  - injection H as <-. split; auto. intros [|j] d E; discriminate.
  - destruct (lookup d0 nd) as [n0|] eqn:L; try discriminate.
    destruct (target_shape nd ds) as [s'|]; try discriminate. injection H as <-.
    destruct (IH _ eq_refl) as [A B]. split; simpl; auto.
    intros [|j] d E; simpl in *.
    + injection E as <-. eauto.
    + apply B; auto.
Qed.

Lemma target_shape_some nd ds :
  (forall d, In d ds -> exists n, lookup d nd = Some n) -> exists s, target_shape nd ds = Some s.
Proof.
  induction ds as [|d ds IH]; simpl; intros H; [eexists; eauto|].
  destruct (H d (or_introl eq_refl)) as [n ->].
  destruct IH as [s ->]; [intros; apply H; right; auto|]. eexists; eauto.
Qed.

(* ---- the theorem -------------------------------------------------------------------------- *)
Theorem apply_completes f dfs :
  wf_file f = true -> NoDup (map fst dfs) ->
  (forall d fd, In (d, fd) dfs -> exists n, lookup d (fdims f) = Some n /\ lane_ok f d n fd) ->
  exists r, impl_apply f dfs = Ok r.
Proof.
  intros W ND H. unfold impl_apply.
  destruct (dimlens_ok f dfs H) as [nl D]. rewrite D.
  set (nd := map (newdim nl) (fdims f)).
  destruct (map_res_ok (out_var dfs nd) (fvars f)) as [vs ->]; [|eexists; eauto].
  intros v Hv. unfold wf_file in W. apply andb_true_iff in W as [W _].
  rewrite forallb_forall in W. specialize (W v Hv). unfold wf_var in W.
  destruct (target_shape (fdims f) (vdims v)) as [s0|] eqn:T0; try discriminate.
  apply nat_list_eqb_eq in W.
  destruct (target_shape_nth _ _ _ T0) as [L0 N0].
  unfold out_var.
  destruct (target_shape_some nd (vdims v)) as [tgt T].
  { intros d Hd. apply In_nth_error in Hd as [j Hj]. destruct (N0 j d Hj) as [n [Ln _]].
    unfold nd. rewrite (lookup_map_newdim nl _ _ _ Ln). eauto. }
  rewrite T. destruct (target_shape_nth _ _ _ T) as [L1 N1].
  replace (list_eqb Nat.eqb (sh (impl_vals dfs v)) tgt) with true; [eexists; eauto|].
  symmetry. apply nat_list_eqb_eq. unfold impl_vals.
  apply nth_ext with (d := 0) (d' := 0).
  - rewrite fold_rank, W. congruence.
  - intros j Hj. rewrite fold_rank, W, L0 in Hj.
    destruct (nth_error (vdims v) j) as [d|] eqn:Ej; [|apply nth_error_None in Ej; lia].
    destruct (N0 j d Ej) as [n [Ln Hn]]. destruct (N1 j d Ej) as [n' [Ln' Hn']].
    unfold nd in Ln'. rewrite (lookup_map_newdim nl _ _ _ Ln) in Ln'. injection Ln' as <-.
    rewrite Hn'.
    apply fold_axis_len with (d := d).
    + unfold enumerate. rewrite map_fst_combine by apply seq_length. apply seq_NoDup.
    + apply in_enumerate; auto.
    + rewrite W, L0. apply nth_error_Some. congruence.
    + intros fd Lf l Hl. rewrite W, Hn in Hl.
      destruct (H d fd (lookup_in _ _ _ Lf)) as [n2 [Ln2 LO]]. rewrite Ln in Ln2. injection Ln2 as <-.
      rewrite (dimlens_lookup _ _ _ d D ND), Lf, Ln. unfold lane_ok in LO.
      destruct (newlen fd (coord_lane f d n)) as [m|]; try contradiction. auto.
    + intros Lf. rewrite (dimlens_keys _ _ _ d D Lf), W. auto.
Qed.

(* named reducers are always usable *)
Lemma lane_ok_reducer f d n fd : In fd [RSum; RProd; RMin; RMax; RMean] -> lane_ok f d n fd.
Proof.
  unfold lane_ok. simpl. intros [<-|[<-|[<-|[<-|[<-|[]]]]]]; simpl; intros l _; auto.
  unfold rmean. destruct (fold_right _ _ l); reflexivity.
Qed.

(* a length-uniform callable is usable when the coordinate lane has the dimension's length
   (no coordinate variable, or a 1-D coordinate variable on that dimension) *)
Lemma lane_ok_callable f d n fd :
  In fd [FDiff] \/ (exists s, fd = FSub (S s)) \/ (exists m k, fd = FConv m k) ->
  uniform (run fd) -> length (coord_lane f d n) = n -> lane_ok f d n fd.
Proof.
  intros C U L. unfold lane_ok.
  assert (E : newlen fd (coord_lane f d n) = Ok (length (run fd (coord_lane f d n)))).
  { destruct C as [[<-|[]]|[[s ->]|[m [k ->]]]]; reflexivity. }
  rewrite E. intros l Hl. apply U. congruence.
Qed.

Lemma fdiff_length l : length (fdiff l) = pred (length l).
Proof.
  induction l as [|a l IH]; simpl; auto. destruct l as [|b t]; auto.
  simpl in *. rewrite IH. reflexivity.
Qed.
Lemma uniform_diff : uniform (run FDiff).
Proof. intros l l' H. simpl. rewrite !fdiff_length. congruence. Qed.

Lemma fsub_aux_length st : forall sk l l', length l = length l' -> length (fsub_aux st sk l) = length (fsub_aux st sk l').
Proof.
  intros sk l; revert sk; induction l as [|a l IH]; intros sk [|b l'] H; simpl in *; try discriminate; auto.
  destruct sk; simpl; auto.
Qed.
Lemma uniform_sub s : uniform (run (FSub s)).
Proof. intros l l' H. simpl. apply fsub_aux_length; auto. Qed.
