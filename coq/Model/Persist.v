(* C07 — Pseudo2NetCDF.convert (pncgen.py): the decisions PseudoNetCDF takes when a file is saved
   to netCDF, composed with an ASSUMED store/load behaviour of netCDF-C / netCDF4-python:
   a stored disk image is returned as stored, except that cells equal to _FillValue or to the
   missing_value attribute come back masked, and an unlimited dimension has the length that was
   written.  Cell values, fill values and dtype codes are opaque integers (bit patterns).
   Executable definitions only. *)
From PNC Require Import Base.Util.
Local Open Scope Z_scope.

Definition name := list Z.
Definition name_eqb : name -> name -> bool := list_eqb Z.eqb.

(* attribute value: kind 0 = string (code points), 1 = integers, 2 = floats (bit patterns), 3 = bool *)
Record aval := AV { a_kind : Z; a_data : list Z }.
Record dim := Dim { d_name : name; d_len : Z; d_unlim : bool }.

Record pvar := PVar {
  p_name : name; p_dt : Z; p_dims : list name;
  p_attrs : list (name * aval);       (* ncattrs() in order *)
  p_masked : bool;                    (* a masked-array variable: hasattr(pvar, 'fill_value') holds *)
  p_mafill : Z;                       (* its fill_value, as a bit pattern of the variable's dtype *)
  p_mv : option Z;                    (* attribute missing_value cast to the dtype *)
  p_fv : option Z;                    (* explicitly set attribute fill_value cast to the dtype *)
  p_hid : option Z;                   (* python attribute _FillValue (never in ncattrs) *)
  p_dfill : option Z;                 (* netCDF default fill value of the dtype (none for characters) *)
  p_cells : list (option Z)           (* C order; None = masked *)
}.
Record pfile := PFile { pf_dims : list dim; pf_gattrs : list (name * aval); pf_vars : list pvar }.

(* what is on disk / what the netCDF reader presents *)
Record dvar := DVar {
  v_name : name; v_dt : Z; v_dims : list name; v_fill : option Z; v_mv : option Z;
  v_attrs : list (name * aval); v_cells : list (option Z)
}.
Record nfile := NFile { n_dims : list dim; n_gattrs : list (name * aval); n_vars : list dvar }.

(* ---- attribute filter: k not in the ignore list and k does not start with an underscore (ignore_global_re) *)
Definition starts_underscore (k : name) : bool := match k with 95 :: _ => true | _ => false end.
Definition in_names (k : name) (l : list name) : bool := existsb (name_eqb k) l.
(* 'variables', 'dimensions' *)
Definition ignore_global : list name :=
  [[118;97;114;105;97;98;108;101;115]; [100;105;109;101;110;115;105;111;110;115]].
(* 'typecode', 'dimensions' *)
Definition ignore_variable : list name :=
  [[116;121;112;101;99;111;100;101]; [100;105;109;101;110;115;105;111;110;115]].
(* bool raises TypeError in netCDF4 and is retried as int8 *)
Definition conv_aval (a : aval) : aval := if a_kind a =? 3 then AV 1 (a_data a) else a.
Definition conv_attrs (ign : list name) (l : list (name * aval)) : list (name * aval) :=
  map (fun kv => (fst kv, conv_aval (snd kv)))
      (filter (fun kv => negb (in_names (fst kv) ign) && negb (starts_underscore (fst kv))) l).

(* ---- fill value choice in addVariable: missing_value, else fill_value, else _FillValue *)
Definition chosen_fill (v : pvar) : option Z :=
  match p_mv v with
  | Some m => Some m
  | None =>
    match p_fv v with
    | Some f => Some f
    | None => if p_masked v then Some (p_mafill v)
              else p_hid v
    end
  end.

(* value written into masked cells by addVariableData (repaired order: what is declared as _FillValue first):
   getattr(nvar,'_FillValue', getattr(nvar,'fill_value', getattr(pvar,'missing_value', -9999)));
   scalar variables are assigned as masked arrays and filled by netCDF4 with _FillValue *)
Definition data_fill (v : pvar) (dflt : Z) : Z :=
  match chosen_fill v with
  | Some c => c
  | None => match p_dims v with
            | [] => dflt
            | _ => match p_fv v with
                   | Some f => f
                   | None => match p_mv v with Some m => m | None => dflt end
                   end
            end
  end.

Definition store_cells (d : Z) (cells : list (option Z)) : list Z :=
  map (fun c => match c with Some x => x | None => d end) cells.
(* assumed netCDF4-python read semantics: equal to _FillValue or missing_value -> masked *)
Definition opt_is (o : option Z) (x : Z) : bool := match o with Some y => x =? y | None => false end.
Definition load_cells (fill mv : option Z) (raw : list Z) : list (option Z) :=
  map (fun x => if opt_is fill x || opt_is mv x then None else Some x) raw.

(* netCDF4-python masks with _FillValue if defined, otherwise with the default fill value of the dtype *)
Definition eff_fill (v : pvar) : option Z :=
  match chosen_fill v with Some c => Some c | None => p_dfill v end.

Definition dim_used (d : name) (vs : list pvar) : bool := existsb (fun v => in_names d (p_dims v)) vs.
(* unlimited dimensions are created with size None; their length is what gets written *)
Definition conv_dim (vs : list pvar) (d : dim) : dim :=
  Dim (d_name d) (if d_unlim d then (if dim_used (d_name d) vs then d_len d else 0) else d_len d) (d_unlim d).

(* ---- stage 1: what Pseudo2NetCDF asks the netCDF library to write (no assumption involved) *)
Record ivar := IVar {
  i_name : name; i_dt : Z; i_dims : list name;
  i_fill : option Z;                 (* createVariable(..., fill_value=...) *)
  i_mv : option Z; i_dfill : option Z;
  i_attrs : list (name * aval);      (* setncattr calls, in order *)
  i_raw : list Z                     (* the array assigned to nvar[...] *)
}.
Record idim := IDim { id_name : name; id_size : option Z (* None = createDimension(d, None) *); id_len : Z; id_used : bool }.
Record image := Image { im_dims : list idim; im_gattrs : list (name * aval); im_vars : list ivar }.

(* dflt = the bit pattern of -9999 in the variable's dtype (only used when nothing else is defined) *)
Definition convert_var (dflt : Z) (v : pvar) : ivar :=
  IVar (p_name v) (p_dt v) (p_dims v) (chosen_fill v) (p_mv v) (p_dfill v)
       (conv_attrs ignore_variable (p_attrs v))
       (store_cells (data_fill v dflt) (p_cells v)).
Definition convert_dim (vs : list pvar) (d : dim) : idim :=
  IDim (d_name d) (if d_unlim d then None else Some (d_len d)) (d_len d) (dim_used (d_name d) vs).
Definition impl_convert (dflt : Z) (f : pfile) : image :=
  Image (map (convert_dim (pf_vars f)) (pf_dims f)) (conv_attrs ignore_global (pf_gattrs f))
        (map (convert_var dflt) (pf_vars f)).

(* ---- stage 2: ASSUMED behaviour of netCDF-C / netCDF4-python when the image is read back:
   identity, except that (a) an unlimited dimension is as long as what was written along it (0 when no
   variable uses it), (b) cells equal to _FillValue, or to the type's default fill value when no
   _FillValue was defined, or to the missing_value attribute are presented as masked *)
Definition nc_mask_fill (w : ivar) : option Z := match i_fill w with Some c => Some c | None => i_dfill w end.
Definition nc_load_var (w : ivar) : dvar :=
  DVar (i_name w) (i_dt w) (i_dims w) (i_fill w) (i_mv w) (i_attrs w)
       (load_cells (nc_mask_fill w) (i_mv w) (i_raw w)).
Definition nc_load_dim (d : idim) : dim :=
  match id_size d with
  | Some n => Dim (id_name d) n false
  | None => Dim (id_name d) (if id_used d then id_len d else 0) true
  end.
Definition nc_load (im : image) : nfile :=
  NFile (map nc_load_dim (im_dims im)) (im_gattrs im) (map nc_load_var (im_vars im)).

Definition conv_var (dflt : Z) (v : pvar) : dvar := nc_load_var (convert_var dflt v).

(* save followed by open = the assumed reader applied to what PseudoNetCDF wrote *)
Definition impl_save_open (dflt : Z) (f : pfile) : nfile := nc_load (impl_convert dflt f).

(* ---- what the property demands: the same file (booleans compared as integers) *)
Definition spec_attrs (l : list (name * aval)) : list (name * aval) :=
  map (fun kv => (fst kv, conv_aval (snd kv))) l.
Definition spec_var (v : pvar) : dvar :=
  DVar (p_name v) (p_dt v) (p_dims v) (chosen_fill v) (p_mv v) (spec_attrs (p_attrs v)) (p_cells v).
Definition spec_save_open (f : pfile) : nfile :=
  NFile (pf_dims f) (spec_attrs (pf_gattrs f)) (map spec_var (pf_vars f)).

(* ---- domain *)
Definition key_ok (ign : list name) (k : name) : bool := negb (in_names k ign) && negb (starts_underscore k).
Definition cells_ok (fill mv : option Z) (cells : list (option Z)) : bool :=
  forallb (fun c => match c with Some x => negb (opt_is fill x || opt_is mv x) | None => true end) cells.
Definition has_masked (cells : list (option Z)) : bool :=
  existsb (fun c => match c with None => true | Some _ => false end) cells.
(* the value written into masked cells is one the reader masks *)
Definition fill_consistent (dflt : Z) (v : pvar) : bool :=
  negb (has_masked (p_cells v))
  || opt_is (eff_fill v) (data_fill v dflt) || opt_is (p_mv v) (data_fill v dflt).
(* a variable with masked cells has some fill value (always true of masked-array variables) *)
Definition masked_has_fill (v : pvar) : bool :=
  negb (has_masked (p_cells v)) || match chosen_fill v with Some _ => true | None => false end.
Definition dom_var (v : pvar) : bool :=
  forallb (fun kv => key_ok ignore_variable (fst kv)) (p_attrs v)
  && masked_has_fill v
  && cells_ok (eff_fill v) (p_mv v) (p_cells v).
Definition dom_dims (f : pfile) : bool :=
  forallb (fun d => negb (d_unlim d) || dim_used (d_name d) (pf_vars f)) (pf_dims f).
Definition dom (f : pfile) : bool :=
  dom_dims f
  && forallb (fun kv => key_ok ignore_global (fst kv)) (pf_gattrs f)
  && forallb dom_var (pf_vars f).

(* the property's own domain: an unmasked cell equal to the variable's DECLARED fill value
   (missing_value / fill_value / _FillValue) is by definition a missing value, not data *)
Definition in_quant (f : pfile) : bool :=
  forallb (fun v => cells_ok (chosen_fill v) (p_mv v) (p_cells v)) (pf_vars f).

(* regions of known defects *)
Definition reg_unlim_unused (f : pfile) : bool := negb (dom_dims f).
(* no fill declared and a cell equal to the netCDF default fill value of its type *)
Definition reg_default_fill (f : pfile) : bool :=
  existsb (fun v => negb (cells_ok (eff_fill v) (p_mv v) (p_cells v))) (pf_vars f).
Definition region_of (f : pfile) : nat :=
  if negb (in_quant f) then 0%nat
  else if reg_unlim_unused f then 1%nat
  else if reg_default_fill f then 2%nat
  else 0%nat.
