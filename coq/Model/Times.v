(* C12 — time decoding (core/_files.py getTimes, coordutil.py _parse_ref_date,
   conventions/ioapi/_ioapi.py add_time_variable, cmaqfiles/_ioapi.py updatetflag) and the
   inverse mappings (date2num, time2idx).  Executable definitions only, no proofs.

   Instants are microseconds since 1970-01-01T00:00:00Z (Z).  A decoded datetime is observed as
   the list [year; month; day; hour; minute; second; microsecond] in UTC.
   CF time values are given in 1/64 of the unit (dyadic grid on which binary64 is exact).
   `impl_*` = what the library does (quirks included); `spec_*` = what the property demands,
   written on Base/Calendar.v only. *)
From PNC Require Import Base.Util Base.Calendar.
Local Open Scope Z_scope.

Definition us_day : Z := 86400000000.
Definition us_sec : Z := 1000000.

(* ---------------------------------------------------------------- datetimes *)
Definition dt_fields (t : Z) : list Z :=
  let '(y, m, d) := civil_of_days (t / us_day) in
  let r := t mod us_day in
  [y; m; d; r / 3600000000; r mod 3600000000 / 60000000; r mod 60000000 / 1000000; r mod 1000000].
(* Python datetime only exists for years 1..9999 (OverflowError / ValueError otherwise) *)
Definition in_range (t : Z) : bool := (jan1 1 * us_day <=? t) && (t <? jan1 10000 * us_day).
Definition dt_of_us (t : Z) : option (list Z) := if in_range t then Some (dt_fields t) else None.

Definition valid_tod (h mi s : Z) : bool :=
  (0 <=? h) && (h <? 24) && (0 <=? mi) && (mi <? 60) && (0 <=? s) && (s <? 60).
(* instant of an observed datetime; None if the fields are not a datetime *)
Definition us_of_dt (l : list Z) : option Z :=
  match l with
  | [y; m; d; h; mi; s; us] =>
      if valid_date y m d && valid_tod h mi s && (0 <=? us) && (us <? 1000000)
      then Some ((days_of_civil y m d * 86400 + h * 3600 + mi * 60 + s) * us_sec + us)
      else None
  | _ => None
  end.

Fixpoint all_some {A} (l : list (option A)) : option (list A) :=
  match l with
  | [] => Some []
  | None :: _ => None
  | Some x :: t => match all_some t with Some r => Some (x :: r) | None => None end
  end.

Definition decode_all (ts : list Z) : option (list (list Z)) := all_some (map dt_of_us ts).

(* ---------------------------------------------------------------- CF units, calendars *)
Inductive unit_t := UDays | UHours | UMinutes | USeconds | UWeeks | UYears | UOther.
Inductive cal_t := CalStd | CalNoleap | CalAllLeap.

(* microseconds in 1/64 of the unit: what datetime.timedelta(unit=x) adds (None: TypeError) *)
Definition unit_us64 (u : unit_t) : option Z :=
  match u with
  | UDays => Some 1350000000 | UHours => Some 56250000 | UMinutes => Some 937500
  | USeconds => Some 15625 | UWeeks => Some 9450000000 | UYears => None | UOther => None
  end.

(* ---------------------------------------------------------------- reference-date spellings
   _parse_ref_date as a finite table: which renderings of (date, time, zone) the format list accepts
   and which fields it reads.  The harness renders the string from the same record. *)
Inductive spelling :=
  | SpD          (* 2000-01-01 *)
  | SpHMS        (* 2000-01-01 06:30:15 *)
  | SpHM         (* 2000-01-01 06:30 *)
  | SpH          (* 2000-01-01 06 *)
  | SpHMS_UTC | SpHM_UTC | SpH_UTC   (* ... UTC *)
  | SpHMS_Z | SpHM_Z | SpH_Z         (* ...Z *)
  | SpHMS_tz | SpHM_tz | SpH_tz      (* ...+hh:mm / +hhmm *)
  | SpD_sp_tz | SpD_tz               (* 2000-01-01 +hhmm ; 2000-01-01+hhmm *)
  | SpT          (* 2000-01-01T06:30:15  : rejected *)
  | SpFrac.      (* 2000-01-01 06:30:15.0 : rejected *)

Record refdate := Ref { r_sp : spelling; r_y : Z; r_m : Z; r_d : Z;
                        r_H : Z; r_M : Z; r_S : Z; r_tz : Z (* minutes east *) }.

Definition sp_hasH (s : spelling) : bool := match s with SpD | SpD_sp_tz | SpD_tz => false | _ => true end.
Definition sp_hasM (s : spelling) : bool :=
  match s with SpHMS | SpHM | SpHMS_UTC | SpHM_UTC | SpHMS_Z | SpHM_Z | SpHMS_tz | SpHM_tz => true | _ => false end.
Definition sp_hasS (s : spelling) : bool :=
  match s with SpHMS | SpHMS_UTC | SpHMS_Z | SpHMS_tz => true | _ => false end.
Definition sp_hasTz (s : spelling) : bool :=
  match s with SpHMS_tz | SpHM_tz | SpH_tz | SpD_sp_tz | SpD_tz => true | _ => false end.
Definition sp_accepted (s : spelling) : bool := match s with SpT | SpFrac => false | _ => true end.

(* parsed reference: (y, m, d, H, M, S, tz minutes) as the aware datetime the parser returns *)
Definition impl_parse (r : refdate) : option (Z * Z * Z * Z * Z * Z * Z) :=
  let s := r_sp r in
  let hh := if sp_hasH s then r_H r else 0 in
  let mi := if sp_hasM s then r_M r else 0 in
  let ss := if sp_hasS s then r_S r else 0 in
  let tz := if sp_hasTz s then r_tz r else 0 in
  if sp_accepted s && (1 <=? r_y r) && (r_y r <=? 9999) && valid_date (r_y r) (r_m r) (r_d r)
     && valid_tod hh mi ss && (-1440 <? tz) && (tz <? 1440)
  then Some (r_y r, r_m r, r_d r, hh, mi, ss, tz) else None.

Definition ref_us (p : Z * Z * Z * Z * Z * Z * Z) : Z :=
  let '(y, m, d, hh, mi, ss, tz) := p in
  (days_of_civil y m d * 86400 + hh * 3600 + mi * 60 + ss - tz * 60) * us_sec.

(* ---------------------------------------------------------------- CF, standard calendars
   out = refdate + [timedelta(unit=float(x)) for x in time] *)
Definition impl_cf_std (u : unit_t) (r : refdate) (vals : list Z) : option (list (list Z)) :=
  match impl_parse r, unit_us64 u with
  | Some p, Some k => decode_all (map (fun n => ref_us p + n * k) vals)
  | _, _ => None
  end.

(* ---------------------------------------------------------------- CF, 365/366-day calendars
   the branch as repaired by fixes/C12-fixed-calendars.patch: integer microseconds counted from year 0 of the
   fixed-length calendar:
     refus = ((refdate.year * yeardays + day-of-year(refdate) - 1) * 86400e6 + time of day - utcoffset
     t     = refus + timedelta(unit=float(x)) in microseconds          ('years' = yeardays days)
     days, us = divmod(t, 86400e6) ; year, doy = divmod(days, yeardays)
     cday = date(yearlike, 1, 1) + doy days                            (a real year with the calendar's months)
     out  = datetime(year, cday.month, cday.day, tzinfo=utc) + timedelta(microseconds=us)
   datetime() raises ValueError (the whole call) for Feb 29 of a common year and for years outside 1..9999. *)
Definition fx_unit_us64 (leap : bool) (u : unit_t) : option Z :=
  match u with UYears => Some (fixed_len leap * 1350000000) | _ => unit_us64 u end.

(* civil fields of an instant in a fixed-length-year calendar *)
Definition fixed_fields (leap : bool) (t : Z) : list Z :=
  let '(y, m, d) := fixed_of_days leap (t / us_day) in
  let r := t mod us_day in
  [y; m; d; r / 3600000000; r mod 3600000000 / 60000000; r mod 60000000 / 1000000; r mod 1000000].
Definition fixed_ref_us (leap : bool) (p : Z * Z * Z * Z * Z * Z * Z) : Z :=
  let '(y, m, d, hh, mi, ss, tz) := p in
  (days_of_fixed leap y m d * 86400 + hh * 3600 + mi * 60 + ss - tz * 60) * us_sec.
(* a decoded row that Python's datetime can hold *)
Definition row_ok (l : list Z) : bool :=
  match l with y :: m :: d :: _ => (1 <=? y) && (y <=? 9999) && valid_date y m d | _ => false end.

Definition impl_cf_fixed (leap : bool) (u : unit_t) (r : refdate) (vals : list Z) : option (list (list Z)) :=
  match impl_parse r, fx_unit_us64 leap u with
  | Some p, Some k =>
      let '(_, m0, d0, _, _, _, _) := p in
      if valid_md leap m0 d0 then
        all_some (map (fun n => let row := fixed_fields leap (fixed_ref_us leap p + n * k) in
                                if row_ok row then Some row else None) vals)
      else None
  | _, _ => None
  end.

Definition impl_cf (c : cal_t) (u : unit_t) (r : refdate) (vals : list Z) : option (list (list Z)) :=
  match c with
  | CalStd => impl_cf_std u r vals
  | CalNoleap => impl_cf_fixed false u r vals
  | CalAllLeap => impl_cf_fixed true u r vals
  end.

(* bounds=True on a CF time variable *)
Inductive bmode := BNone | BMid | BVar (his : list Z).
Definition lastZ (l : list Z) : Z := last l 0.
(* None = the library raises (fewer than 2 values with approximate bounds) *)
Definition impl_bounds_vals (b : bmode) (vals : list Z) : option (list Z) :=
  match b with
  | BNone => Some vals
  | BVar his => Some (vals ++ [lastZ his])           (* append(time_bounds[:,0], time_bounds[-1,1]) *)
  | BMid =>
      match vals with
      | _ :: _ :: _ =>
          let dt := (lastZ vals - hd 0 vals) / (Z.of_nat (length vals) - 1) in   (* mean of the differences *)
          Some (map (fun x => x - dt / 2) vals ++ [lastZ vals + dt / 2])
      | _ => None
      end
  end.
Definition impl_cf_b (c : cal_t) (u : unit_t) (r : refdate) (b : bmode) (vals : list Z) :=
  match impl_bounds_vals b vals with Some v => impl_cf c u r v | None => None end.

(* ---- specification: the true instants *)
Definition spec_cf_std_us (u : unit_t) (r : refdate) (vals : list Z) : option (list Z) :=
  match impl_parse r, unit_us64 u with
  | Some p, Some k => Some (map (fun n => ref_us p + n * k) vals)
  | _, _ => None
  end.

(* the instant a row of civil fields denotes in the fixed-length calendar *)
Definition fixed_us_of_fields (leap : bool) (l : list Z) : option Z :=
  match l with
  | [y; m; d; h; mi; s; us] =>
      if valid_md leap m d && valid_tod h mi s && (0 <=? us) && (us <? 1000000)
      then Some ((days_of_fixed leap y m d * 86400 + h * 3600 + mi * 60 + s) * us_sec + us)
      else None
  | _ => None
  end.
Definition spec_cf_fixed (leap : bool) (u : unit_t) (r : refdate) (vals : list Z) : option (list (list Z)) :=
  match impl_parse r, unit_us64 u with
  | Some p, Some k =>
      let '(_, m0, d0, _, _, _, _) := p in
      if valid_md leap m0 d0 then Some (map (fun n => fixed_fields leap (fixed_ref_us leap p + n * k)) vals)
      else None
  | _, _ => None
  end.

(* ---- inverse mappings on a CF time variable (standard calendars) *)
(* date2num (repaired by fixes/C12-date2num-refdate.patch) rewrites the units with the reference date read by
   _parse_ref_date, converted to UTC, before calling netCDF4.date2num: one parser for both directions.
   netCDF4.date2num in exact arithmetic: value in 1/64 units, None if not on the grid *)
Definition impl_date2num (u : unit_t) (r : refdate) (dts : list (list Z)) : option (list Z) :=
  match impl_parse r, unit_us64 u with
  | Some p, Some k =>
      let r0 := ref_us p in
      all_some (map (fun l => match us_of_dt l with
                              | Some t => if (t - r0) mod k =? 0 then Some ((t - r0) / k) else None
                              | None => None end) dts)
  | _, _ => None
  end.

(* the same for a 365/366-day calendar: netCDF4.date2num reads the datetime fields in the variable's calendar *)
Definition impl_date2num_fixed (leap : bool) (u : unit_t) (r : refdate) (dts : list (list Z)) : option (list Z) :=
  match impl_parse r, unit_us64 u with
  | Some p, Some k =>
      let r0 := fixed_ref_us leap p in
      all_some (map (fun l => match fixed_us_of_fields leap l with
                              | Some t => if (t - r0) mod k =? 0 then Some ((t - r0) / k) else None
                              | None => None end) dts)
  | _, _ => None
  end.

(* val2idx(method='nearest') = round-half-even(np.interp(v, xs, arange n)) on an ascending coordinate *)
Definition round_half_even (num den : Z) : Z :=     (* den > 0 *)
  let q := num / den in let r := num mod den in
  if 2 * r <? den then q else if den <? 2 * r then q + 1 else if Z.even q then q else q + 1.
Fixpoint interp_idx (xs : list Z) (i : Z) (v : Z) : Z :=
  match xs with
  | [] => i
  | x0 :: t =>
      match t with
      | [] => i
      | x1 :: _ => if v <? x1 then round_half_even (i * (x1 - x0) + (v - x0)) (x1 - x0)
                   else interp_idx t (i + 1) v
      end
  end.
Fixpoint strictly_asc (xs : list Z) : bool :=
  match xs with
  | [] => true
  | x0 :: t => match t with [] => true | x1 :: _ => (x0 <? x1) && strictly_asc t end
  end.
Definition nearest_idx (xs : list Z) (v : Z) : Z :=
  match xs with
  | [] => 0
  | x0 :: _ => if v <=? x0 then 0 else interp_idx xs 0 v
  end.
(* None = val2idx raises ('coordinate is neither ascending nor descending'); descending is not modelled *)
Definition impl_time2idx (xs : list Z) (vs : list Z) : option (list Z) :=
  if strictly_asc xs then Some (map (nearest_idx xs) vs) else None.

Fixpoint iota (i : Z) (n : nat) : list Z := match n with O => [] | S m => i :: iota (i + 1) m end.

(* ---------------------------------------------------------------- IOAPI: TFLAG *)
(* one flag: datetime(yyyy,1,1) + timedelta(days = jjj + (h + m/60 + s/3600)/24 - 1), no validation;
   -635 is replaced by 1970001.  None = datetime() raises (year outside 1..9999) *)
Definition impl_flag_us (date time : Z) : option Z :=
  let date := if date =? -635 then 1970001 else date in
  let yyyy := date / 1000 in let jjj := date mod 1000 in
  if (1 <=? yyyy) && (yyyy <=? 9999)
  then Some ((jan1 yyyy * 86400 + (jjj - 1) * 86400
              + (time / 10000) * 3600 + (time mod 10000 / 100) * 60 + time mod 100) * us_sec)
  else None.

(* tstep: Some TSTEP attribute | None -> mean difference *)
Definition impl_tflag (flags : list (Z * Z)) (tstep : option Z) (bounds : bool) : option (list (list Z)) :=
  match all_some (map (fun f => impl_flag_us (fst f) (snd f)) flags) with
  | Some ts =>
      if bounds then
        match ts, tstep with
        | [], _ => None
        | _, Some st =>
            let dt := ((st / 10000) * 3600 + (st mod 10000 / 100) * 60 + st mod 100) * us_sec in
            decode_all (ts ++ [lastZ ts + dt])
        | _ :: _ :: _, None =>
            decode_all (ts ++ [lastZ ts + round_half_even (lastZ ts - hd 0 ts) (Z.of_nat (length ts) - 1)])
        | _, None => None
        end
      else decode_all ts
  | None => None
  end.

(* what the flags mean *)
Definition valid_flag (f : Z * Z) : bool :=
  let '(y, j) := yj_of_yyyyjjj (fst f) in
  (1 <=? y) && (y <=? 9999) && valid_yj y j && valid_hhmmss (snd f).
Definition spec_flag_us (f : Z * Z) : Z := sec_of_flag (fst f) (snd f) * us_sec.

(* ---------------------------------------------------------------- IOAPI: SDATE / STIME / TSTEP *)
(* strptime('%07d %06d+0000', '%Y%j %H%M%S%z'): strict fields, but day 366 of a common year rolls over *)
Definition impl_strptime_us (jdate hhmmss : Z) : option Z :=
  let y := jdate / 1000 in let j := jdate mod 1000 in
  if (1 <=? jdate) && (jdate <=? 9999999) && (1 <=? y) && (1 <=? j) && (j <=? 366)
     && (hhmmss <=? 999999) && valid_hhmmss hhmmss
     && in_range ((jan1 y + j - 1) * us_day)
  then Some (((jan1 y + j - 1) * 86400 + sec_of_hhmmss hhmmss) * us_sec) else None.

(* tstepstr = '%06d' % TSTEP ; seconds = int(s[-2:]), minutes = int(s[-4:-2]), hours = int(s[:-4]) *)
Definition impl_tstep_sec (t : Z) : Z :=
  if 0 <=? t then (t / 10000) * 3600 + (t / 100 mod 100) * 60 + t mod 100
  else let a := - t in - (a / 10000) * 3600 + (a / 100 mod 100) * 60 + a mod 100.

Definition impl_sdate (sdate stime tstep : Z) (n : nat) (bounds : bool) : option (list (list Z)) :=
  let jdate := if sdate <? 1 then 1970001 else sdate in
  match impl_strptime_us jdate stime with
  | Some t0 =>
      let dt := impl_tstep_sec tstep * us_sec in
      decode_all (map (fun i => t0 + i * dt) (iota 0 (if bounds then S n else n)))
  | None => None
  end.

Definition spec_sdate_us (sdate stime tstep : Z) (n : nat) : list Z :=
  map (fun i => (sec_of_flag sdate stime + i * sec_of_hhmmss tstep) * us_sec) (iota 0 n).
Definition valid_sdate (sdate stime tstep : Z) : bool :=
  valid_flag (sdate, stime) && valid_step tstep.

(* ---------------------------------------------------------------- updatetflag: instants -> TFLAG rows *)
Definition impl_flag_of_us (t : Z) : Z * Z := flag_of_sec (t / us_sec).   (* strftime('%Y%j'), ('%H%M%S') *)

(* ---------------------------------------------------------------- add_time_variable: synthesised CF time
   values are seconds since 1970-01-01 00:00:00+0000 (whole seconds) *)
(* tmp = '%06d' % TSTEP ; 3600*int(tmp[:-4]) + 60*int(tmp[-4:-2]) + int(tmp[-2:])  -- the same digit split as
   getTimes (repaired by fixes/C12-add-time-variable-tstep.patch; before, tmp[:2]/tmp[2:4]/tmp[4:] misread >= 100 h) *)
Definition impl_tmpseconds (t : Z) : Z := impl_tstep_sec t.

(* with a TFLAG variable: rows parsed strictly; first date 0 -> [SDATE] only (and then broadcast) *)
Definition impl_synth_flags (sdate : Z) (flags : list (Z * Z)) : option (list Z) :=
  match flags with
  | [] => Some []
  | (d0, t0) :: _ =>
      if d0 =? 0 then
        match impl_strptime_us sdate t0 with
        | Some t => Some (map (fun _ => t / us_sec) flags)
        | None => None
        end
      else all_some (map (fun f => match impl_strptime_us (fst f) (snd f) with
                                   | Some t => Some (t / us_sec) | None => None end) flags)
  end.
(* without TFLAG: arange(max(1, n)) * tmpseconds + off *)
Definition impl_synth_attrs (sdate stime tstep : Z) (n : nat) : option (list Z) :=
  match impl_strptime_us sdate stime with
  | Some t0 => Some (map (fun i => i * impl_tmpseconds tstep + t0 / us_sec) (iota 0 (Nat.max 1 n)))
  | None => None
  end.
(* time_bounds rows [t, t + tmpseconds]; getTimes(bounds=True) reads lows ++ [last high] *)
Definition impl_synth_edges (tstep : Z) (ts : list Z) : list Z :=
  match ts with [] => [] | _ => ts ++ [lastZ ts + impl_tmpseconds tstep] end.

Definition epoch_ref : refdate := Ref SpHMS_tz 1970 1 1 0 0 0 0.
(* decode of the synthesised variable (values are whole seconds = 64/64) *)
Definition impl_decode_seconds (ts : list Z) : option (list (list Z)) :=
  impl_cf_std USeconds epoch_ref (map (fun t => t * 64) ts).
