(* C15 — the reader registry of _getreader.py as a state machine.
   State: the process-global ordered list `_readers` of (name, reader class).  Names, reader classes,
   files and exception types are abstract identifiers (nat) assigned by the harness.
   `acc r f` is what `r.isMine(path of f)` does: No (False), Yes (True) or Raise e (an exception escapes;
   getreader does not catch it).  Readers without isMine get getreader's fallback checker, which returns
   True whatever happens (= Yes).  `acc` is measured per (reader, file) in a fresh interpreter.
   impl_* = what the code does (suffix preference inserted INTO THE GLOBAL LIST), spec_* = the repaired
   getreader (`_myreaders = list(_readers)`).  No proofs in this file. *)
From PNC Require Import Base.Util.

Definition name := nat.
Definition reader := nat.
Definition file := nat.
Definition exc := nat.

Inductive outcome := No | Yes | Raise (e : exc).
(* what getreader / getreaderdict()[format] hands back to pncopen *)
Inductive result :=
  | Selected (r : reader)     (* this class is used to open the path *)
  | Raised (e : exc)          (* an isMine raised: the exception escapes getreader and pncopen *)
  | UnknownFormat             (* format= names no registered reader (KeyError) *)
  | NoResult.                 (* no reader accepted (TypeError); unreachable while the isMine-less 'Dataset' entry exists *)

Definition registry := list (name * reader).

Definition is_no (o : outcome) : bool := match o with No => true | _ => false end.
Definition res_of (o : outcome) (r : reader) : result :=
  match o with Yes => Selected r | Raise e => Raised e | No => NoResult end.

Definition result_eqb (a b : result) : bool :=
  match a, b with
  | Selected x, Selected y => Nat.eqb x y
  | Raised x, Raised y => Nat.eqb x y
  | UnknownFormat, UnknownFormat => true
  | NoResult, NoResult => true
  | _, _ => false
  end.

(* getreaderdict() = dict(_readers): for a repeated name the LAST pair wins *)
Fixpoint lookup_last (n : name) (reg : registry) : option reader :=
  match reg with
  | [] => None
  | (k, r) :: t =>
      match lookup_last n t with
      | Some r' => Some r'
      | None => if Nat.eqb k n then Some r else None
      end
  end.

(* for rn, reader in _myreaders: if checker(path): return reader   (else: raise TypeError) *)
Fixpoint first_accepting (a : reader -> outcome) (reg : registry) : result :=
  match reg with
  | [] => NoResult
  | (_, r) :: t =>
      match a r with
      | Yes => Selected r
      | Raise e => Raised e
      | No => first_accepting a t
      end
  end.

(* ext = os.path.splitext(path)[1][1:]; if ext in rdict: _myreaders.insert(0, (ext, rdict[ext])) *)
Definition prefer (reg : registry) (ext : name) : registry :=
  match lookup_last ext reg with Some r => (ext, r) :: reg | None => reg end.

Inductive step :=
  | Auto (ext : name) (f : file)      (* pncopen(path)             ; ext = the path's suffix as a name id *)
  | Named (fmt : name) (f : file).    (* pncopen(path, format=fmt) ; uses getreaderdict()[fmt], never getreader *)

Definition named_result (reg : registry) (fmt : name) : result :=
  match lookup_last fmt reg with Some r => Selected r | None => UnknownFormat end.

(* the code: `_myreaders = _readers` aliases the global, so the insert stays *)
Definition impl_step (acc : reader -> file -> outcome) (reg : registry) (s : step) : registry * result :=
  match s with
  | Auto e f => let reg' := prefer reg e in (reg', first_accepting (fun r => acc r f) reg')
  | Named n f => (reg, named_result reg n)
  end.

(* the repaired code: the preference list is a private copy *)
Definition spec_step (acc : reader -> file -> outcome) (reg : registry) (s : step) : registry * result :=
  match s with
  | Auto e f => (reg, first_accepting (fun r => acc r f) (prefer reg e))
  | Named n f => (reg, named_result reg n)
  end.

(* a history: final registry, and per step (result, registry length after the step) *)
Fixpoint impl_run (acc : reader -> file -> outcome) (reg : registry) (h : list step)
  : registry * list (result * nat) :=
  match h with
  | [] => (reg, [])
  | s :: t =>
      let (reg', r) := impl_step acc reg s in
      let (regN, rs) := impl_run acc reg' t in
      (regN, (r, length reg') :: rs)
  end.

Definition impl_results acc reg h : list result := map fst (snd (impl_run acc reg h)).
Definition impl_final acc reg h : registry := fst (impl_run acc reg h).

(* what the property demands: every open behaves as in a fresh process (initial registry reg) *)
Definition fresh_result acc (reg : registry) (s : step) : result := snd (spec_step acc reg s).
Definition spec_results acc (reg : registry) (h : list step) : list result := map (fresh_result acc reg) h.
Definition spec_final (acc : reader -> file -> outcome) (reg : registry) (h : list step) : registry :=
  fold_left (fun st s => fst (spec_step acc st s)) h reg.

(* the pairs a history inserts at the front of the registry (in order of the opens) *)
Fixpoint inserted (reg : registry) (h : list step) : registry :=
  match h with
  | [] => []
  | Auto e _ :: t =>
      match lookup_last e reg with Some r => (e, r) :: inserted reg t | None => inserted reg t end
  | Named _ _ :: t => inserted reg t
  end.

(* ---- the sub-domain on which the defective code is still history independent -------------
   A step is neutral w.r.t. the pairs `pre` inserted by earlier opens when its own suffix reader decides
   (claims or chokes on) the file, or when every earlier-preferred reader either rejects the file or
   produces exactly the result a fresh process produces. *)
Definition own_decides (acc : reader -> file -> outcome) (reg : registry) (e : name) (f : file) : bool :=
  match lookup_last e reg with Some r => negb (is_no (acc r f)) | None => false end.

Definition pre_neutral (acc : reader -> file -> outcome) (f : file) (fresh : result) (pre : registry) : bool :=
  forallb (fun kr => is_no (acc (snd kr) f) || result_eqb (res_of (acc (snd kr) f) (snd kr)) fresh) pre.

Fixpoint neutral_from (acc : reader -> file -> outcome) (reg pre : registry) (h : list step) : bool :=
  match h with
  | [] => true
  | Named _ _ :: t => neutral_from acc reg pre t
  | Auto e f :: t =>
      (own_decides acc reg e f || pre_neutral acc f (fresh_result acc reg (Auto e f)) pre)
      && neutral_from acc reg (match lookup_last e reg with Some r => (e, r) :: pre | None => pre end) t
  end.

Definition neutral acc reg h : bool := neutral_from acc reg [] h.

(* r is the only reader class of the registry that does not reject f, and it accepts *)
Definition sole_claimant (acc : reader -> file -> outcome) (reg : registry) (r : reader) (f : file) : bool :=
  match acc r f with Yes => true | _ => false end
  && existsb (fun kr => Nat.eqb (snd kr) r) reg
  && forallb (fun kr => is_no (acc (snd kr) f) || Nat.eqb (snd kr) r) reg.

(* ---- measured accept tables -> function (used by the correspondence and the witnesses) *)
Fixpoint assoc {B} (k : nat) (l : list (nat * B)) : option B :=
  match l with [] => None | (k', v) :: t => if Nat.eqb k k' then Some v else assoc k t end.

Definition acc_of (tbl : list (file * list (reader * outcome))) (r : reader) (f : file) : outcome :=
  match assoc f tbl with
  | Some row => match assoc r row with Some o => o | None => No end
  | None => No
  end.
