(* C15 — the reader registry of _getreader.py as a state machine.
   State: the process-global ordered list `_readers` of (name, reader class).  Names, reader classes,
   files and exception types are abstract identifiers (nat) assigned by the harness.
   `acc r f` is what `r.isMine(path of f)` does: No (False), Yes (True) or Raise e (an exception escapes;
   getreader does not catch it).  Readers without isMine get getreader's fallback checker, which returns
   True whatever happens (= Yes).  `acc` is measured per (reader, file) in a fresh interpreter.
   impl_* = what the code does since the repair `_myreaders = list(_readers)` (the suffix preference is inserted
   into a private copy; the state is threaded through the run so that "getreader never changes the registry" is a
   theorem, not a definition), spec_* = what the property demands: every open behaves as in a fresh process.
   (Before the repair the insert went into the global list itself; that model was retired with the fix.)
   No proofs in this file. *)
From PNC Require Import Base.Util.

Definition name := nat.
Definition reader := nat.
Definition file := nat.
Definition exc := nat.

Inductive outcome := No | Yes | Raise (e : exc).
(* what getreader / getreaderdict()[format] hands back to pncopen *)
Inductive result :=
  | Selected (r : reader)     (* this class is used to open the path *)
  | Raised (e : exc)          (* an isMine raised: the exception escapes getreader and pncopen *)
  | UnknownFormat             (* format= names no registered reader (KeyError) *)
  | NoResult.                 (* no reader accepted (TypeError); unreachable while the isMine-less 'Dataset' entry exists *)

Definition registry := list (name * reader).

Definition is_no (o : outcome) : bool := match o with No => true | _ => false end.
Definition res_of (o : outcome) (r : reader) : result :=
  match o with Yes => Selected r | Raise e => Raised e | No => NoResult end.

Definition result_eqb (a b : result) : bool :=
  match a, b with
  | Selected x, Selected y => Nat.eqb x y
  | Raised x, Raised y => Nat.eqb x y
  | UnknownFormat, UnknownFormat => true
  | NoResult, NoResult => true
  | _, _ => false
  end.

(* getreaderdict() = dict(_readers): for a repeated name the LAST pair wins *)
Fixpoint lookup_last (n : name) (reg : registry) : option reader :=
  match reg with
  | [] => None
  | (k, r) :: t =>
      match lookup_last n t with
      | Some r' => Some r'
      | None => if Nat.eqb k n then Some r else None
      end
  end.

(* for rn, reader in _myreaders: if checker(path): return reader   (else: raise TypeError) *)
Fixpoint first_accepting (a : reader -> outcome) (reg : registry) : result :=
  match reg with
  | [] => NoResult
  | (_, r) :: t =>
      match a r with
      | Yes => Selected r
      | Raise e => Raised e
      | No => first_accepting a t
      end
  end.

(* ext = os.path.splitext(path)[1][1:]; if ext in rdict: _myreaders.insert(0, (ext, rdict[ext])) *)
Definition prefer (reg : registry) (ext : name) : registry :=
  match lookup_last ext reg with Some r => (ext, r) :: reg | None => reg end.

Inductive step :=
  | Auto (ext : name) (f : file)      (* pncopen(path)             ; ext = the path's suffix as a name id *)
  | Named (fmt : name) (f : file).    (* pncopen(path, format=fmt) ; uses getreaderdict()[fmt], never getreader *)

Definition named_result (reg : registry) (fmt : name) : result :=
  match lookup_last fmt reg with Some r => Selected r | None => UnknownFormat end.

(* the code: `_myreaders = list(_readers)`; `_myreaders.insert(0, (ext, rdict[ext]))`; first accepting reader.
   Returns the registry it leaves behind and the result. *)
Definition impl_step (acc : reader -> file -> outcome) (reg : registry) (s : step) : registry * result :=
  match s with
  | Auto e f => let mine := prefer reg e in (reg, first_accepting (fun r => acc r f) mine)
  | Named n f => (reg, named_result reg n)
  end.

(* a history: final registry, and per step (result, registry length after the step) *)
Fixpoint impl_run (acc : reader -> file -> outcome) (reg : registry) (h : list step)
  : registry * list (result * nat) :=
  match h with
  | [] => (reg, [])
  | s :: t =>
      let (reg', r) := impl_step acc reg s in
      let (regN, rs) := impl_run acc reg' t in
      (regN, (r, length reg') :: rs)
  end.

Definition impl_results acc reg h : list result := map fst (snd (impl_run acc reg h)).
Definition impl_final acc reg h : registry := fst (impl_run acc reg h).

(* what the property demands: every open behaves as in a fresh process (initial registry reg) *)
Definition fresh_result acc (reg : registry) (s : step) : result := snd (impl_step acc reg s).
Definition spec_results acc (reg : registry) (h : list step) : list result := map (fresh_result acc reg) h.

(* r is the only reader class of the registry that does not reject f, and it accepts *)
Definition sole_claimant (acc : reader -> file -> outcome) (reg : registry) (r : reader) (f : file) : bool :=
  match acc r f with Yes => true | _ => false end
  && existsb (fun kr => Nat.eqb (snd kr) r) reg
  && forallb (fun kr => is_no (acc (snd kr) f) || Nat.eqb (snd kr) r) reg.

(* ---- measured accept tables -> function (used by the correspondence and the witnesses) *)
Fixpoint assoc {B} (k : nat) (l : list (nat * B)) : option B :=
  match l with [] => None | (k', v) :: t => if Nat.eqb k k' then Some v else assoc k t end.

Definition acc_of (tbl : list (file * list (reader * outcome))) (r : reader) (f : file) : outcome :=
  match assoc f tbl with
  | Some row => match assoc r row with Some o => o | None => No end
  | None => No
  end.

(* ---- registration (register.py / _getreader.registerreader, core/_files.py PseudoNetCDFType.__init__) -------
   if name not in [k for k, v in _readers]: _readers.insert(0, (name, reader)); return True  else: return False *)
Definition known (n : name) (reg : registry) : bool := existsb (fun kr => Nat.eqb (fst kr) n) reg.

Fixpoint insert_at {X} (pos : nat) (x : X) (l : list X) : list X :=
  match pos, l with
  | O, _ => x :: l
  | S p, [] => [x]                 (* list.insert beyond the end appends *)
  | S p, y :: t => y :: insert_at p x t
  end.

Definition impl_register (reg : registry) (n : name) (r : reader) : registry :=
  if known n reg then reg else (n, r) :: reg.

(* class creation: shortl = registerreader(name, cls); longl = registerreader(longname, cls) *)
Definition impl_class_created (reg : registry) (short long : name) (cls : reader) : registry :=
  impl_register (impl_register reg short cls) long cls.

Fixpoint nodup_names (reg : registry) : bool :=
  match reg with [] => true | (k, _) :: t => negb (known k t) && nodup_names t end.

(* first pair with that name (what a reader of the list, not of the dict, would take) *)
Fixpoint lookup_first (n : name) (reg : registry) : option reader :=
  match reg with [] => None | (k, r) :: t => if Nat.eqb k n then Some r else lookup_first n t end.

(* ---- tie T: the same step with every decision that the source text takes left as a parameter; the translator
   (harness/props/c15.py translate()) reads the parameters off _getreader.py into Gen/RegistrySrc.v on every run *)
Record getreader_src := GSrc {
  g_private_copy : bool;      (* `_myreaders = list(_readers)` -> true ; `_myreaders = _readers` -> false *)
  g_insert_pos : nat;         (* `_myreaders.insert(<pos>, (ext, rdict[ext]))` *)
  g_dict_last_wins : bool;    (* getreaderdict: `return dict(_readers)` -> true *)
  g_named_uses_dict : bool;   (* pncopen: `reader = getreaderdict()[format]` -> true *)
  g_register_pos : nat;       (* registerreader: `_readers.insert(<pos>, (name, reader))` *)
  g_register_if_new : bool    (* registerreader: guarded by `if name not in [k for k, v in _readers]` *)
}.

Definition generic_lookup (g : getreader_src) (n : name) (reg : registry) : option reader :=
  if g_dict_last_wins g then lookup_last n reg else lookup_first n reg.

Definition generic_step (g : getreader_src) (acc : reader -> file -> outcome) (reg : registry) (s : step)
  : registry * result :=
  match s with
  | Auto e f =>
      let mine := match generic_lookup g e reg with
                  | Some r => insert_at (g_insert_pos g) (e, r) reg
                  | None => reg
                  end in
      (if g_private_copy g then reg else mine, first_accepting (fun r => acc r f) mine)
  | Named n f =>
      (reg, if g_named_uses_dict g
            then match generic_lookup g n reg with Some r => Selected r | None => UnknownFormat end
            else first_accepting (fun r => acc r f) (filter (fun kr => Nat.eqb (fst kr) n) reg))
  end.

Definition generic_register (g : getreader_src) (reg : registry) (n : name) (r : reader) : registry :=
  if g_register_if_new g && known n reg then reg else insert_at (g_register_pos g) (n, r) reg.
