(* CAMx WIND files at the 4-byte-word level.
   spec side : published layout, no header; per time step
                   a time record   hour (HHMM binary32), idate (YYJJJ) [, lstagger]      (8 or 12 bytes)
                   per layer       ((u(i,j),i=1,nx),j=1,ny)   then   ((v(i,j),i=1,nx),j=1,ny)
                   a dummy record of one word
               (what harness/camxfmt.py `records` writes for wind).
   impl side : the memory-mapped reader camxfiles/wind/Memmap.py. Its __init__ WALKS the records of the first step with a
               RecordFile (FortranFileUtil.py) to count the layers (as repaired by db74c5b),
                   rf.next() ; lays = 1 ; record_size = rf.record_size
                   while rf.record_size == record_size:
                       lays += 1
                       if not rf.next(): raise ValueError('wind file ends inside its first time step')
               (rf.next() returns False at the end of the file without moving; before db74c5b the loop then never terminated).
               Then  dummy_length = (rf.record_size + 8) // 4 ; lays //= 2 ; the step count (as repaired by d3c85b3)
                   step_size = record * 2 * lays + time_hdr_size + 8 + dummy_length * 4 ; times = rf.length // step_size
               and lazily, on the first variable access,
               the slices of every counted step (ValueError when a slice is shorter than a step's data block), the check
               that the two markers of every data record agree, TFLAG from words 1, 2 of the time records, U / V from the
               even / odd data records. The trailing bytes after the last counted step are never looked at.
               HAND-MODELLED throughout (record-walking loops, numpy slicing; outside translate/py2coq.py's subset).
               "WOk" means: the file opens AND all variables can be read (what the harness observes).
   No proofs here. *)
From PNC Require Import Base.Util Base.Words Gen.Camx Model.Uamiv Model.CamxMet Model.One3d.
Import Coq.Lists.List. Import ListNotations.
Local Open Scope Z_scope.

Record wstep := WStep { ws_time : word; ws_date : word; ws_uv : list (list word * list word) }.
Record wind := {
  w_nx : Z; w_ny : Z; w_nz : Z;
  w_stag : option word;          (* the lstagger word of every time record; None = older files with hour, idate only *)
  w_dummy : word;                (* the word of the dummy record that closes every step (0.0 in files CAMx writes) *)
  w_steps : list wstep
}.

(* ---- spec encoder ------------------------------------------------------------------------------ *)
Definition w_time_rec (c : wind) (s : wstep) : record :=
  ws_time s :: ws_date s :: match w_stag c with Some l => [l] | None => [] end.
Definition w_step_records (c : wind) (s : wstep) : list record :=
  w_time_rec c s :: concat (map (fun p => [fst p; snd p]) (ws_uv s)) ++ [[w_dummy c]].
Definition w_to_records (c : wind) : list record := concat (map (w_step_records c) (w_steps c)).
Definition w_enc (c : wind) : list word := frame (w_to_records c).

(* ---- spec decoder (record walking; grid, layer count and time-record form given) ---------------- *)
Fixpoint w_take_uv (n : nat) (ncell : Z) (rs : list record) : option (list (list word * list word) * list record) :=
  match n with
  | O => Some ([], rs)
  | S n' =>
    match rs with
    | u :: v :: rs' =>
      if (Z.of_nat (length u) =? ncell) && (Z.of_nat (length v) =? ncell) then
        match w_take_uv n' ncell rs' with
        | Some (uv, rest) => Some ((u, v) :: uv, rest)
        | None => None
        end
      else None
    | _ => None
    end
  end.
Fixpoint w_take_steps (fuel : nat) (nz : nat) (ncell : Z) (stag : option word) (dummy : word) (rs : list record)
  : option (list wstep) :=
  match rs with
  | [] => Some []
  | th :: rs' =>
    match fuel with
    | O => None
    | S f =>
      let ok_th := match stag, th with
                   | Some l, [_; _; l'] => l' =? l
                   | None, [_; _] => true
                   | _, _ => false
                   end in
      if ok_th then
        match w_take_uv nz ncell rs' with
        | Some (uv, [d] :: rest) =>
          if d =? dummy then
            match w_take_steps f nz ncell stag dummy rest with
            | Some sts => Some (WStep (nth 0 th 0) (nth 1 th 0) uv :: sts)
            | None => None
            end
          else None
        | _ => None
        end
      else None
    end
  end.
Definition w_dec (nx ny nz : Z) (stag : option word) (dummy : word) (ws : list word) : option wind :=
  match unframe_all ws with
  | Some rs =>
    if (0 <? nx) && (0 <? ny) && (0 <? nz) then
      match w_take_steps (S (length rs)) (Z.to_nat nz) (nx * ny) stag dummy rs with
      | Some sts => Some {| w_nx := nx; w_ny := ny; w_nz := nz; w_stag := stag; w_dummy := dummy; w_steps := sts |}
      | None => None
      end
    else None
  | None => None
  end.

(* ---- well-formedness ---------------------------------------------------------------------------- *)
Definition w_wf_step (c : wind) (s : wstep) : bool :=
  len_is (w_nz c) (ws_uv s)
  && forallb (fun p => len_is (w_nx c * w_ny c) (fst p) && len_is (w_nx c * w_ny c) (snd p)) (ws_uv s).
Definition w_wf (c : wind) : bool :=
  (0 <? w_nx c) && (0 <? w_ny c) && (0 <? w_nz c) && forallb (w_wf_step c) (w_steps c).

(* sizes in BYTES *)
Definition w_hdr_bytes (c : wind) : Z := match w_stag c with Some _ => 20 | None => 16 end.   (* time record + markers *)
Definition w_data_bytes (c : wind) : Z := 4 * (w_nx c * w_ny c) + 8.                          (* one U or V record *)
Definition w_body_bytes (c : wind) : Z := w_hdr_bytes c + 2 * w_nz c * w_data_bytes c.        (* a step without its dummy *)
Definition w_step_bytes (c : wind) : Z := w_body_bytes c + 12.

(* ---- impl: the memory-mapped reader ---------------------------------------------------------------- *)
Inductive wres (A : Type) := WOk (a : A) | WErr | WHang.
Arguments WOk {A} a. Arguments WErr {A}. Arguments WHang {A}.

Record wview := {
  wv_nx : Z; wv_ny : Z; wv_nz : Z; wv_ntimes : Z;
  wv_stamps : list (Z * Z);
  wv_u : list (list (list word));            (* U [t][k] -> rows*cols words *)
  wv_v : list (list (list word))
}.

(* RecordFile.next() from the record starting at byte `start` with size word `sz`, file of `len` bytes:
     None            : _newrecord raises (fewer than 4 bytes at the next record start)
     Some None       : end of file -- returns False, the state does NOT change
     Some (Some st') : moved to the next record *)
Definition rf_next (ws : list word) (len start sz : Z) : option (option (Z * Z)) :=
  let off := start + sz + 8 in
  if off <? len then (if off + 4 <=? len then Some (Some (off, getw ws (off / 4))) else None)
  else Some None.

(* while rf.record_size == record_size: lays += 1 ; rf.next()   -- returns (lays, size word of the record that differs) *)
Fixpoint w_walk (fuel : nat) (ws : list word) (len start sz d lays : Z) : wres (Z * Z) :=
  match fuel with
  | O => WHang                                 (* only for corrupt size words that move the walk backwards (d <= -8) *)
  | S f =>
    if sz =? d then
      match rf_next ws len start sz with
      | None => WErr
      | Some None => WErr                      (* rf.next() returned False: ValueError (db74c5b) *)
      | Some (Some (s', sz')) => w_walk f ws len s' sz' d (lays + 1)
      end
    else WOk (lays, sz)
  end.

(* one data record of a step's block: marker, cells, marker *)
Definition w_block_rows (rc : Z) (blk : list word) : option (list (list word)) := chunks (Z.to_nat (rc + 2)) blk.
Definition w_cells (r : list word) : list word := removelast (tl r).
Definition w_marks_ok (rws : list (list word)) : bool := forallb (fun r => hd 0 r =? last r 0) rws.
Fixpoint w_evens (l : list (list word)) : list (list word) :=
  match l with a :: _ :: t => a :: w_evens t | [a] => [a] | [] => [] end.
Fixpoint w_odds (l : list (list word)) : list (list word) :=
  match l with _ :: b :: t => b :: w_odds t | _ => [] end.

(* the lazily evaluated part for step t: the time record words and the data block *)
Definition w_step_view (ws : list word) (n offset block dl rc t : Z) : option ((Z * Z) * list (list word)) :=
  let start := (t + 1) * offset + t * block + t * dl in
  if start + block <=? n then
    match w_block_rows rc (firstn (Z.to_nat block) (skipn (Z.to_nat start) ws)) with
    | Some rws => if w_marks_ok rws then Some ((getw ws (start - offset + 1), getw ws (start - offset + 2)), map w_cells rws)
                  else None
    | None => None
    end
  else None.

Definition w_mm_read (rows cols : Z) (ws : list word) (len : Z) : wres wview :=
  (* OpenRecordFile: seek(0) needs a non-empty file; the first marker; {12: "fii", 8: "fi"}[record_size]; unpack("fi") *)
  if len <? 12 then WErr else
  let m0 := getw ws 0 in
  if negb ((m0 =? 12) || (m0 =? 8)) then WErr else
  match rf_next ws len 0 m0 with
  | None => WErr
  | Some st1 =>
    let '(s1, d) := match st1 with Some x => x | None => (0, m0) end in       (* at EOF the state stays at record 0 *)
    match w_walk (S (Z.to_nat len)) ws len s1 d d 1 with                    (* fuel: every advance moves >= 8 bytes forward *)
    | WErr => WErr
    | WHang => WHang
    | WOk (lays2, szd) =>
      let dl := (szd + 8) / 4 in                                             (* dummy_length, in words *)
      let lays := lays2 / 2 in
      let record := rows * cols * 4 + 8 in
      let step_size := record * 2 * lays + m0 + 8 + dl * 4 in
      if step_size =? 0 then WErr else                                       (* ZeroDivisionError *)
      let times := len / step_size in                                        (* rf.length // step_size *)
      (* memmap(rffile, '>f', 'r') *)
      if negb (len mod 4 =? 0) then WErr else
      if times <=? 0 then WErr else                                          (* len() of a negative dimension; // tsteps *)
      let n := len / 4 in
      let offset := m0 / 4 + 2 in
      let block := (rows * cols + 2) * 2 * lays in
      let parts := map (w_step_view ws n offset block dl (rows * cols)) (map Z.of_nat (seq 0 (Z.to_nat times))) in
      if forallb (fun p => match p with Some _ => true | None => false end) parts then
        let ps := flat_map (fun p => match p with Some x => [x] | None => [] end) parts in
        WOk {| wv_nx := cols; wv_ny := rows; wv_nz := lays; wv_ntimes := times;
               wv_stamps := map fst ps;
               wv_u := map (fun p => w_evens (snd p)) ps; wv_v := map (fun p => w_odds (snd p)) ps |}
      else WErr
    end
  end.

Definition w_view_of (c : wind) : wview :=
  {| wv_nx := w_nx c; wv_ny := w_ny c; wv_nz := w_nz c; wv_ntimes := Z.of_nat (length (w_steps c));
     wv_stamps := map (fun s => (ws_time s, ws_date s)) (w_steps c);
     wv_u := map (fun s => map fst (ws_uv s)) (w_steps c); wv_v := map (fun s => map snd (ws_uv s)) (w_steps c) |}.
Definition w_truncate_steps (k : nat) (c : wind) : wind :=
  {| w_nx := w_nx c; w_ny := w_ny c; w_nz := w_nz c; w_stag := w_stag c; w_dummy := w_dummy c;
     w_steps := firstn k (w_steps c) |}.

(* ---- the record reader (wind/Read.py): what read_into unpacks at a byte position (no id fields: cells right after
        the marker). Its seek arithmetic is TRANSLATED: Gen/Camx.v wr_layerrecords / wr_timerecords / wr_recordposition *)
Definition w_cells_at (ws : list word) (pos ncell : Z) : list word :=
  firstn (Z.to_nat ncell) (skipn (Z.to_nat (pos / 4 + 1)) ws).
