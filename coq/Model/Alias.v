(* C05 (inputs are never modified, results never alias) — buffer heap model.
   A heap is a list of buffers (buffer id = position); a buffer is the memory behind one variable's data (or mask,
   or a file's attribute / dimension table): cells are abstract.  An operation of the library is described by its
   EFFECTS on the buffers of its input files: which it writes in place, and which input buffers back a variable of
   the returned file (view / same object) instead of a fresh allocation.  impl_effs transcribes the code
   (core/_files.py, core/_functions.py) with its defects, spec_effs is what the property demands (none).
   No proofs in this file. *)
From PNC Require Import Base.Util Model.Handles.

Section Heap.
Variable A : Type.
Definition heap := list (list A).
Definition hread (h : heap) (i : nat) : option (list A) := nth_error h i.
Definition hwrite (h : heap) (i : nat) (v : list A) : heap := set_nth h i v.

(* how one output variable of the returned file is backed, / an in-place write on an input *)
Inductive action :=
  | Fresh (v : list A)             (* createVariable / copyVariable: np.zeros(...) then assignment: new buffer *)
  | Alias (i : nat)                (* the output variable IS (a view of) input buffer i *)
  | Mutate (i : nat) (v : list A). (* in-place operator on a view of input buffer i *)

(* run: returns the new heap and the buffer ids behind the output variables *)
Fixpoint run_actions (h : heap) (acts : list action) : heap * list nat :=
  match acts with
  | [] => (h, [])
  | Fresh v :: t => let (h', out) := run_actions (h ++ [v]) t in (h', length h :: out)
  | Alias i :: t => let (h', out) := run_actions h t in (h', i :: out)
  | Mutate i v :: t => run_actions (hwrite h i v) t
  end.

Definition is_fresh (a : action) : bool := match a with Fresh _ => true | _ => false end.

(* any later sequence of writes into the returned file's variables *)
Definition write_all (h : heap) (ws : list (nat * list A)) : heap :=
  fold_left (fun h' w => hwrite h' (fst w) (snd w)) ws h.
End Heap.
Arguments Fresh {A}. Arguments Alias {A}. Arguments Mutate {A}.

(* ---- the catalogue: which effects each library call has on its inputs -------------------------------- *)
Inductive eff := EAlias (i : nat) | EMutate (i : nat).

Inductive op :=
  | Clean (code : nat)
      (* transformations: every variable of the returned file is backed by a buffer allocated by the call
         (copyVariable / createVariable(...)[...] = values, or an explicit .copy()):
         copy, subsetVariables, sliceDimensions, applyAlongDimensions, renameVariable, renameDimension, insertDimension,
         reorderDimensions, removeSingleton, stack, mask (every keyword), f + g (pncbo), eval (computed expression, bare
         name, view), getvarpnc, slice_dim.
         Three of them handed out input buffers before their repairs and are watched by the correspondence on exactly
         those inputs (corpus/C05): eval('B = A') / eval('B = A[...]') stored the evaluated object itself
         (fix C05-eval-result-copy: a value that may share memory with a variable of the file is copied first);
         getvarpnc created coordinate variables with values=coordvar[...] even with copy=True
         (fix C05-getvarpnc-coord-copy); slice_dim stored the swapaxes / slice view (fix C05-slice_dim-copy). *)
  | Query (code : nat).
      (* queries: getTimes (time variable, TFLAG, bounds), date2num, time2idx, val2idx (nearest, bounds), repr, dump, save.
         They return no file and write nothing in place.  Two of them did before their repairs and are watched by the
         correspondence on exactly those inputs: getTimes on a TFLAG holding -635 wrote 1970001 through a view
         (fix C05-getTimes-copy: `.copy()`), val2idx / time2idx(method='bounds') on a uniform float coordinate without
         bounds variable did `start -= dval[0]; end += dval[-1]` on views of the coordinate (fix: `.astype('d')` copies). *)

(* the catalogue of effects on the inputs: empty for every call since the repairs; the type `eff`, `actions_of` and the
   Alias / Mutate actions stay so that a call that shares or writes a buffer again can be described (and so that the
   isolation theorems keep a hypothesis that can fail: see C05_fresh_hypothesis_needed) *)
Definition impl_effs (o : op) : list eff :=
  match o with
  | Clean _ => []
  | Query _ => []
  end.

Definition spec_effs (o : op) : list eff := [].

Definition isolated (o : op) : bool := match impl_effs o with [] => true | _ => false end.

Definition aliased (es : list eff) : list nat :=
  flat_map (fun e => match e with EAlias i => [i] | _ => [] end) es.
Definition mutated (es : list eff) : list nat :=
  flat_map (fun e => match e with EMutate i => [i] | _ => [] end) es.

(* effects -> heap actions: fresh outputs `outs`, then the aliases / in-place writes with arbitrary data *)
Definition actions_of {A} (es : list eff) (outs : list (list A)) (junk : list A) : list (action A) :=
  map Fresh outs ++ map (fun e => match e with EAlias i => Alias i | EMutate i => Mutate i junk end) es.
